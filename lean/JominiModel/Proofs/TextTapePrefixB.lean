import JominiModel.Proofs.TextTapePrefix
import JominiModel.Proofs.TextTapeInv
/-
C19 (text tape), cuts on lexeme boundaries: the lockstep lemmas of Proofs/TextTapePrefix.lean under
a different lookahead hypothesis.  There the iteration of the truncated run must leave at least two
bytes; here the CONTINUATION `q` of the truncated input is empty or starts with a separator byte
(`SepQ`: a boundary byte other than `=` and `[` — blanks, `#`, `{`, `}`, `]`, `<`, `>`, `!`), so a
lexeme that ends at the end of the truncated input ends at the same place in the full input.
The state-level proofs are those of TextTapePrefix.lean with the leaf lemmas exchanged.
-/
namespace Jomini.TextTape
open Jomini

/-- the continuation of a cut on a lexeme boundary: empty, or it starts with a boundary byte that
cannot extend the lexeme in front of it (`=` would extend `<`, `>`, `=`, `!`, `?`; `[` would extend `@`) -/
def SepQ (q : Bytes) : Prop :=
  q = [] ∨ ∃ w r, q = w :: r ∧ isBoundary w = true ∧ w ≠ 61 ∧ w ≠ 91

theorem SepQ.nil : SepQ [] := .inl rfl

theorem findFirst_append_none (p : UInt8 → Bool) : ∀ (d q : Bytes), findFirst p d = d.length →
    findFirst p (d ++ q) = d.length + findFirst p q
  | [], q, _ => by simp
  | c :: cs, q, h => by
    simp only [findFirst, List.length_cons] at h
    split at h
    · omega
    · next hc =>
      simp only [List.cons_append, findFirst, hc, Bool.false_eq_true, if_false, List.length_cons]
      rw [findFirst_append_none p cs q (by omega)]; omega

/-- a scalar that ends at the end of the truncated input ends there in the full input too -/
theorem splitAtScalar_appendB {p s r : Bytes} (q : Bytes) (h : splitAtScalar p = some (s, r)) (hq : SepQ q) :
    splitAtScalar (p ++ q) = some (s, r ++ q) := by
  by_cases hr : r = []
  · subst hr
    rcases hq with rfl | ⟨w, r', rfl, hw, _, _⟩
    · simpa using h
    · rw [splitAtScalar_eq_fallback sse_eq_tab] at h ⊢
      simp only [splitAtScalarFallback, splitAtChecked] at h ⊢
      split at h
      · next hle =>
        simp only [Option.some.injEq, Prod.mk.injEq] at h
        obtain ⟨hs, hd⟩ := h
        have hge : p.length ≤ max (findFirst isBoundary p) 1 := by
          rcases Nat.lt_or_ge (max (findFirst isBoundary p) 1) p.length with hlt | hge
          · have := congrArg List.length hd
            simp at this; omega
          · exact hge
        have hidx : max (findFirst isBoundary p) 1 = p.length := by omega
        have hs' : s = p := by rw [← hs, hidx, List.take_length]
        have hff := findFirst_le isBoundary p
        have hnew : max (findFirst isBoundary (p ++ w :: r')) 1 = p.length := by
          rcases Nat.lt_or_ge (findFirst isBoundary p) p.length with hlt | hge'
          · rw [findFirst_append_lt isBoundary p _ hlt]; exact hidx
          · rw [findFirst_append_none isBoundary p _ (by omega)]
            simp only [findFirst, hw, if_true]; omega
        rw [hnew, if_pos (by simp)]
        simp [hs']
      · simp at h
  · exact splitAtScalar_append q h hr

theorem parseScalarTok_appendB {tape tape' : List Tok} {d r : Bytes} (q : Bytes)
    (h : parseScalarTok tape d = .ok (tape', r)) (hq : SepQ q) :
    parseScalarTok (tape.map (Tok.shift q.length)) (d ++ q) = .ok (tape'.map (Tok.shift q.length), r ++ q) := by
  unfold parseScalarTok at h ⊢
  split at h
  · next s r' hsp =>
    simp only [Except.ok.injEq, Prod.mk.injEq] at h
    obtain ⟨rfl, rfl⟩ := h
    rw [splitAtScalar_appendB q hsp hq]
    simp [Tok.shift, Slice.shift]
  · simp at h

theorem parseVariableTok_appendB {tape tape' : List Tok} {d r : Bytes} (q : Bytes)
    (h : parseVariableTok tape d = .ok (tape', r)) (hq : SepQ q) :
    parseVariableTok (tape.map (Tok.shift q.length)) (d ++ q) = .ok (tape'.map (Tok.shift q.length), r ++ q) := by
  by_cases hr : r = []
  · unfold parseVariableTok at h ⊢
    by_cases h91 : d[1]? = some 91
    · have hlen : 2 ≤ d.length := by have := getElem?_lt_of_some h91; omega
      have h91' : (d ++ q)[1]? = some 91 := by
        rw [List.getElem?_append_left (by omega)]; exact h91
      simp only [h91, h91', if_true] at h ⊢
      cases hi : firstIdx (fun c => decide (c = 93)) (d.drop 2) with
      | none => simp [hi] at h
      | some i =>
        have hi' : firstIdx (fun c => decide (c = 93)) ((d ++ q).drop 2) = some i := by
          rw [List.drop_append_of_le_length hlen]; exact firstIdx_append_some _ _ q i hi
        simp only [hi, hi'] at h ⊢
        simp only [splitAtChecked] at h ⊢
        by_cases hle : i + 2 + 1 ≤ d.length
        · simp only [hle, if_true, Except.ok.injEq, Prod.mk.injEq] at h
          obtain ⟨rfl, rfl⟩ := h
          rw [if_pos (by simp; omega)]
          rw [List.take_append_of_le_length hle, List.drop_append_of_le_length hle]
          simp [Tok.shift, Slice.shift]
        · simp [hle] at h
    · have h91' : ¬ (d ++ q)[1]? = some 91 := by
        rcases Nat.lt_or_ge 1 d.length with hl | hl
        · rw [List.getElem?_append_left hl]; exact h91
        · rcases hq with rfl | ⟨w, r', rfl, _, _, hw91⟩
          · simpa using h91
          · -- `d` is the single byte `@`: the byte behind it is the separator
            have hd1 : d.length = 1 := by
              simp only [h91, if_false] at h
              unfold parseScalarTok at h
              split at h
              · next s r'' hsp =>
                have := (splitAtScalar_spec hsp).2
                have h1 := congrArg List.length (splitAtScalar_spec hsp).1
                simp only [List.length_append] at h1
                omega
              · simp at h
            rw [List.getElem?_append_right (by omega), hd1]
            simp [hw91]
      simp only [h91, h91', if_false] at h ⊢
      exact parseScalarTok_appendB q h hq
  · exact parseVariableTok_append q h hr

theorem lexValue_appendB {tape tape' : List Tok} {d r : Bytes} (q : Bytes)
    (h : lexValue tape d = .ok (tape', r)) (hq : SepQ q) :
    lexValue (tape.map (Tok.shift q.length)) (d ++ q) = .ok (tape'.map (Tok.shift q.length), r ++ q) := by
  by_cases hr : r = []
  · unfold lexValue at h
    split at h
    · simp at h
    · next c cs =>
      simp only [List.cons_append, lexValue]
      by_cases h34 : c = 34
      · subst h34
        simp only [if_true] at h ⊢
        unfold parseQuoteTok at h ⊢
        cases hqs : parseQuoteScalar (34 :: cs) with
        | error f => simp [hqs] at h
        | ok p =>
          obtain ⟨s, r'⟩ := p
          simp only [hqs, Except.ok.injEq, Prod.mk.injEq] at h
          obtain ⟨rfl, rfl⟩ := h
          have := parseQuoteScalar_append q hqs
          simp only [List.cons_append] at this
          rw [this]
          simp [Tok.shift, Slice.shift]
          try omega
      · simp only [h34, if_false] at h ⊢
        by_cases h64 : c = 64
        · simp only [h64, if_true] at h ⊢
          have := parseVariableTok_appendB q h hq
          simpa using this
        · simp only [h64, if_false] at h ⊢
          have := parseScalarTok_appendB q h hq
          simpa using this
  · exact lexValue_append q h hr

theorem lexOperator_appendB_some {b : Bool} {d r : Bytes} {o : Op} (q : Bytes)
    (h : lexOperator b d = some (o, r)) (hq : SepQ q) : lexOperator b (d ++ q) = some (o, r ++ q) := by
  by_cases hr : r = []
  · subst hr
    rcases hq with rfl | ⟨w, r', rfl, _, hw61, _⟩
    · simpa using h
    · unfold lexOperator at h ⊢
      match d with
      | [] => simp at h
      | [c] =>
        simp only [List.head?_nil, List.tail_nil] at h
        simp only [List.cons_append, List.nil_append, List.head?_cons, List.tail_cons, Option.some.injEq, hw61,
          decide_false, Bool.false_and, Bool.false_eq_true, if_false]
        repeat' (split at h)
        all_goals simp_all
      | c :: c1 :: r1 =>
        simp only [List.cons_append, List.head?_cons, List.tail_cons, Option.some.injEq] at h ⊢
        repeat' (split at h)
        all_goals simp_all
  · exact lexOperator_append_some q h hr

theorem lexOperator_appendB_none {b : Bool} {c : UInt8} {cs : Bytes} (q : Bytes)
    (h : lexOperator b (c :: cs) = none) (hq : SepQ q) : lexOperator b (c :: cs ++ q) = none := by
  cases cs with
  | nil =>
    rcases hq with rfl | ⟨w, r', rfl, _, hw61, _⟩
    · simpa using h
    · unfold lexOperator at h ⊢
      simp only [List.head?_nil, List.tail_nil] at h
      simp only [List.cons_append, List.nil_append, List.head?_cons, List.tail_cons, Option.some.injEq, hw61,
        decide_false, Bool.false_and, Bool.false_eq_true, if_false]
      repeat' (split at h)
      all_goals simp_all
  | cons c1 r1 => exact lexOperator_append_none q h (by simp)

theorem firstFieldPeek_appendB {d : Bytes} (q : Bytes) (hd : d ≠ []) (hq : SepQ q) :
    firstFieldPeek (d ++ q) = firstFieldPeek d := by
  match d, hd with
  | [c], _ =>
    rcases hq with rfl | ⟨w, r', rfl, _, hw61, _⟩
    · simp
    · simp [firstFieldPeek, hw61]
  | c :: c1 :: r1, _ => simp [firstFieldPeek]


/-! ### one iteration on an extended input (separator continuation) -/

theorem paramDefBody_appendB {mixed : Bool} {tape : List Tok} {parent : Nat} {st' : St} {data d' : Bytes}
    (q : Bytes) (h : paramDefBody mixed tape parent data = .cont st' d') (hsep : SepQ q) :
    paramDefBody mixed (tape.map (Tok.shift q.length)) parent (data ++ q) =
      .cont (st'.shift q.length) (d' ++ q) := by
  unfold paramDefBody at h
  simp only at h
  generalize hk : (2 + if decide (data[2]? = some 33) = true then 1 else 0) = k at h
  split at h
  · contradiction
  · next hlt =>
    split at h
    · contradiction
    · next hne =>
      split at h
      · contradiction
      · next name d2 hsp1 =>
        split at h
        · contradiction
        · next h93 =>
          split at h
          · contradiction
          · next d4 hws1 =>
            split at h
            · contradiction
            · next kv d5 hsp2 =>
              split at h
              · contradiction
              · next d6 hws2 =>
                -- every piece that was read lies strictly inside `data`
                have hd5 : d5 ≠ [] := by
                  intro h0; subst h0; simp [skipWs, skipWsAux] at hws2
                have hd2 : d2 ≠ [] := by
                  intro h0; subst h0; simp at h93
                have hk3 : k ≤ data.length := by omega
                have h2 : (data ++ q)[2]? = data[2]? ∨ data.length ≤ 2 := by
                  rcases Nat.lt_or_ge 2 data.length with h | h
                  · exact .inl (List.getElem?_append_left h)
                  · exact .inr h
                have hdl : 3 ≤ data.length := by
                  -- `name ++ ]` follows the opener
                  have h1 := congrArg List.length (splitAtScalar_spec hsp1).1
                  have h3 := (splitAtScalar_spec hsp1).2
                  simp only [List.length_drop, List.length_append] at h1
                  omega
                have h2' : (data ++ q)[2]? = data[2]? := List.getElem?_append_left (by omega)
                have hsp1' := splitAtScalar_append q hsp1 hd2
                have hws1' := skipWs_append q hws1
                have hsp2' := splitAtScalar_append q hsp2 hd5
                have hws2' := skipWs_append q hws2
                have hdrop : (data ++ q).drop k = data.drop k ++ q := List.drop_append_of_le_length hk3
                have htl : (d2 ++ q).tail = d2.tail ++ q := by
                  cases d2 with
                  | nil => exact absurd rfl hd2
                  | cons a b => rfl
                have hhd : (d2 ++ q).head? = d2.head? := by
                  cases d2 with
                  | nil => exact absurd rfl hd2
                  | cons a b => rfl
                unfold paramDefBody
                simp only [h2', hk, List.length_append]
                rw [if_neg (by omega), hdrop]
                have hne' : ¬ (data.drop k ++ q).isEmpty = true := by
                  simp only [List.isEmpty_iff, List.append_eq_nil_iff, not_and]
                  intro h0; simp [h0] at hne
                rw [if_neg hne', hsp1']
                simp only [hhd, htl]
                rw [if_neg h93]
                simp only [hws1', hsp2', hws2']
                split at h
                · contradiction
                · next c rest =>
                  split at h
                  all_goals
                    simp only [Step.cont.injEq] at h
                    obtain ⟨rfl, rfl⟩ := h
                  · next hc =>
                    simp [hc, St.shift, paramTok_shift, Slice.shift, shift_unquoted, shift_object]
                  · next hc =>
                    simp [hc, St.shift, paramTok_shift, Slice.shift, shift_unquoted, shift_object]

theorem paramDef_appendB {st st' : St} {data d' : Bytes} {i : Bool} (q : Bytes)
    (h : paramDef st data i = .cont st' d') (hsep : SepQ q) :
    paramDef (st.shift q.length) (data ++ q) i = .cont (st'.shift q.length) (d' ++ q) := by
  unfold paramDef at h ⊢
  split at h
  · contradiction
  · next h91 =>
    have hl : 1 < data.length := by
      rcases Nat.lt_or_ge 1 data.length with h | h
      · exact h
      · rw [List.getElem?_eq_none h] at h91; simp at h91
    rw [List.getElem?_append_left hl, if_neg h91]
    split at h
    · contradiction
    · next tape parent hp =>
      have hp' : paramDefPre (st.shift q.length) i = some (tape.map (Tok.shift q.length), parent) := by
        unfold paramDefPre at hp ⊢
        cases i with
        | false => simp at hp; obtain ⟨rfl, rfl⟩ := hp; simp
        | true =>
          simp only [if_true, St.shift_tape, List.length_map, St.shift_parent] at hp ⊢
          split at hp
          · simp at hp
          · next hne =>
            simp only [Option.map_eq_some_iff, Prod.mk.injEq] at hp
            obtain ⟨t, hset, rfl, rfl⟩ := hp
            rw [if_neg hne, setTok_shift' q.length hset rfl]; simp
      rw [hp']
      simp only [St.shift_mixed]
      exact paramDefBody_appendB q h hsep

theorem stepKey_appendB {st st' : St} {c : UInt8} {cs d' : Bytes} (q : Bytes)
    (h : stepKey st (c :: cs) = .cont st' d') (hsep : SepQ q) :
    stepKey (st.shift q.length) (c :: (cs ++ q)) = .cont (st'.shift q.length) (d' ++ q) := by
  unfold stepKey at h ⊢
  simp only at h ⊢
  simp only [St.shift_tape, St.shift_parent, St.shift_mixed, getElem?_shift, endOf_shift, closeState_shift,
    List.length_map]
  split at h
  · -- `}` / `]`
    next hcl =>
    rw [if_pos hcl]
    split at h
    · next hz =>
      rw [if_pos hz]
      simp only [Step.cont.injEq] at h
      obtain ⟨rfl, rfl⟩ := h
      simp [St.shift]
    · next hz =>
      rw [if_neg hz]
      split at h
      · contradiction
      · next tape' hset =>
        simp only [Step.cont.injEq] at h
        obtain ⟨rfl, rfl⟩ := h
        have := setTok_shift' q.length hset (shift_object _ _ _)
        simp only [List.map_append, List.map_cons, List.map_nil, shift_endTok] at this
        rw [this]
        simp [St.shift]
  · next hcl =>
    rw [if_neg hcl]
    split at h
    · next h123 =>
      rw [if_pos h123]
      split at h
      · contradiction
      · next d2 hws =>
        rw [skipWs_append q hws]
        simp only
        split at h
        · contradiction
        · next c2 rest2 =>
          simp only [List.cons_append]
          split at h
          · next h125 =>
            rw [if_pos h125]
            simp only [Step.cont.injEq] at h
            obtain ⟨rfl, rfl⟩ := h
            rfl
          · next h125 =>
            rw [if_neg h125]
            split at h
            · next hd hlast =>
              simp only [Step.cont.injEq] at h
              obtain ⟨rfl, rfl⟩ := h
              rw [getLast?_shift, hlast]
              simp [St.shift, shift_unquoted, shift_header, shift_array, List.map_dropLast]
            · contradiction
    · next h123 =>
      rw [if_neg h123]
      split at h
      · next h91 =>
        rw [if_pos h91]
        have := paramDef_appendB (i := false) q h hsep
        simpa using this
      · next h91 =>
        rw [if_neg h91]
        split at h
        · next tape' rest' hlex =>
          simp only [Step.cont.injEq] at h
          obtain ⟨rfl, rfl⟩ := h
          have := lexValue_appendB q hlex hsep
          simp only [List.cons_append] at this
          rw [this]
          simp [St.shift]
        · cases ‹Fail› <;> simp [Step.fail] at h

theorem stepKvs_appendB {st st' : St} {c : UInt8} {cs d' : Bytes} (q : Bytes)
    (h : stepKvs st (c :: cs) = .cont st' d') (hsep : SepQ q) :
    stepKvs (st.shift q.length) (c :: (cs ++ q)) = .cont (st'.shift q.length) (d' ++ q) := by
  unfold stepKvs at h ⊢
  simp only at h ⊢
  simp only [St.shift_tape, St.shift_mixed]
  split at h
  · next r hop =>
    have := lexOperator_appendB_some q hop hsep
    simp only [List.cons_append] at this
    rw [this]
    simp only
    split at h
    all_goals
      simp only [Step.cont.injEq] at h
      obtain ⟨rfl, rfl⟩ := h
    · next hm => simp [hm, St.shift, shift_operator]
    · next hm => simp [hm, St.shift]
  · next o r hne' hop =>
    simp only [Step.cont.injEq] at h
    obtain ⟨rfl, rfl⟩ := h
    have := lexOperator_appendB_some q hop hsep
    simp only [List.cons_append] at this
    rw [this]
    cases o <;> simp_all [St.shift, shift_operator]
  · next hop =>
    split at h
    · next h123 =>
      simp only [Step.cont.injEq] at h
      obtain ⟨rfl, rfl⟩ := h
      have := lexOperator_appendB_none q hop hsep
      simp only [List.cons_append] at this
      rw [this]
      simp [h123, St.shift]
    · next h123 =>
      split at h
      · contradiction
      · next tape' hins =>
        simp only [Step.cont.injEq] at h
        obtain ⟨rfl, rfl⟩ := h
        have := lexOperator_appendB_none q hop hsep
        simp only [List.cons_append] at this
        rw [this]
        have hi := insertBeforeLast_shift q.length st.tape .mixedContainer
        rw [shift_mixedContainer, hins] at hi
        simp [h123, hi, St.shift]

theorem stepObjectValue_appendB {st st' : St} {c : UInt8} {cs d' : Bytes} (q : Bytes)
    (h : stepObjectValue st (c :: cs) = .cont st' d') (hsep : SepQ q) :
    stepObjectValue (st.shift q.length) (c :: (cs ++ q)) = .cont (st'.shift q.length) (d' ++ q) := by
  unfold stepObjectValue at h ⊢
  simp only at h ⊢
  split at h
  · next h123 =>
    simp only [Step.cont.injEq] at h
    obtain ⟨rfl, rfl⟩ := h
    simp [h123, St.shift, shift_array]
  · next h123 =>
    rw [if_neg h123]
    split at h
    · contradiction
    · next h125 =>
      rw [if_neg h125]
      split at h
      · next tape' rest' hlex =>
        simp only [Step.cont.injEq] at h
        obtain ⟨rfl, rfl⟩ := h
        have := lexValue_appendB q hlex hsep
        simp only [List.cons_append] at this
        simp only [St.shift_tape]
        rw [this]
        simp [St.shift]
      · cases ‹Fail› <;> simp [Step.fail] at h

theorem stepArrayOp_appendB {st st' : St} {d d' : Bytes} {r1 r2 : Res} (q : Bytes)
    (h : stepArrayOp r1 st d = .cont st' d') (hsep : SepQ q) :
    stepArrayOp r2 (st.shift q.length) (d ++ q) = .cont (st'.shift q.length) (d' ++ q) := by
  unfold stepArrayOp at h ⊢
  split at h
  · contradiction
  · next tape mixed hpre =>
    have hpre' : arrayOpPre r2 (st.shift q.length) = .ok (tape.map (Tok.shift q.length), mixed) := by
      unfold arrayOpPre at hpre ⊢
      simp only [St.shift_mixed, St.shift_tape]
      split at hpre
      · next hm => simp at hpre; simp [hm, hpre.1.symm, hpre.2.symm]
      · next hm =>
        have hm' : st.mixed = false := by simpa using hm
        simp only [hm', Bool.false_eq_true, if_false]
        split at hpre
        · next sl hsc =>
          have hsc' : ((st.tape.map (Tok.shift q.length)).getLast?.bind Tok.asScalar) = some (sl.shift q.length) := by
            rw [getLast?_shift]
            cases hl : st.tape.getLast? with
            | none => simp [hl] at hsc
            | some t => simp [hl] at hsc ⊢; rw [asScalar_shift, hsc]; rfl
          rw [hsc']
          simp only
          split at hpre
          · next tape1 hins =>
            simp at hpre
            obtain ⟨rfl, rfl⟩ := hpre
            have hi := insertBeforeLast_shift q.length st.tape .mixedContainer
            rw [shift_mixedContainer, hins] at hi
            simp [hi]
          · simp at hpre
        · simp at hpre
    rw [hpre']
    simp only
    split at h
    · next o r hop =>
      simp only [Step.cont.injEq] at h
      obtain ⟨rfl, rfl⟩ := h
      rw [lexOperator_appendB_some q hop hsep]
      simp [St.shift, shift_operator]
    · contradiction

/-- the `mixed` flag edit commutes with shifting. -/
theorem poAfter_appendB {st st' : St} {tape1 : List Tok} {rest' d' : Bytes} (q : Bytes)
    (h : poAfter st tape1 rest' = .cont st' d') (hsep : SepQ q) :
    poAfter (st.shift q.length) (tape1.map (Tok.shift q.length)) (rest' ++ q) =
      .cont (st'.shift q.length) (d' ++ q) := by
  unfold poAfter at h ⊢
  simp only at h ⊢
  have hfl : flagTape (st.shift q.length).mixed (st.shift q.length).parent (tape1.map (Tok.shift q.length)) =
      (flagTape st.mixed st.parent tape1).map (Tok.shift q.length) := by
    show flagTape st.mixed st.parent _ = _
    unfold flagTape
    split
    · exact (flag_shift q.length tape1 st.parent).symm
    · rfl
  rw [hfl]
  generalize flagTape st.mixed st.parent tape1 = tape2 at h ⊢
  cases hws : skipWs rest' with
  | none => simp [hws] at h
  | some d2 =>
    simp only [hws] at h
    rw [skipWs_append q hws]
    simp only [List.length_map]
    have hd2 : d2 ≠ [] := by
      obtain ⟨c, cs, rfl, _⟩ := skipWsAux_some _ false d2 hws
      simp
    rw [firstFieldPeek_appendB q hd2 hsep]
    split at h
    · contradiction
    · next hl2 =>
      rw [if_neg hl2]
      split at h
      · next hpk =>
        rw [if_pos hpk]
        split at h
        · contradiction
        · next tape' hset =>
          simp only [Step.cont.injEq] at h
          obtain ⟨rfl, rfl⟩ := h
          have := setTok_shift' q.length hset (shift_object _ st.parent false)
          simp only [St.shift_parent]
          rw [this]
          simp [St.shift]
      · next hpk =>
        rw [if_neg hpk]
        split at h
        · contradiction
        · next tape' hset =>
          simp only [Step.cont.injEq] at h
          obtain ⟨rfl, rfl⟩ := h
          have := setTok_shift' q.length hset (shift_array _ st.parent false)
          simp only [St.shift_parent]
          rw [this]
          simp [St.shift]

theorem stepParseOpen_appendB {st st' : St} {c : UInt8} {cs d' : Bytes} (q : Bytes)
    (h : stepParseOpen st (c :: cs) = .cont st' d') (hsep : SepQ q) :
    stepParseOpen (st.shift q.length) (c :: (cs ++ q)) = .cont (st'.shift q.length) (d' ++ q) := by
  by_cases h125 : c = 125
  · subst h125
    unfold stepParseOpen at h ⊢
    simp only [if_true, St.shift_tape, St.shift_parent, getElem?_shift, closeState_shift, List.length_map] at h ⊢
    split at h
    · contradiction
    · next hlen =>
      rw [if_neg hlen]
      split at h
      · contradiction
      · next tape' hset =>
        simp only [Step.cont.injEq] at h
        obtain ⟨rfl, rfl⟩ := h
        rw [setTok_shift' q.length hset (shift_array _ _ _)]
        simp [St.shift, shift_endTok]
  · by_cases h91 : c = 91
    · subst h91
      unfold stepParseOpen at h ⊢
      simp only [show (91 : UInt8) ≠ 125 by decide, if_false, if_true] at h ⊢
      cases hmx : st.mixed with
      | true => simp [hmx] at h
      | false =>
        simp only [hmx, Bool.false_eq_true, if_false] at h
        have hmx' : (st.shift q.length).mixed = false := hmx
        simp only [hmx', Bool.false_eq_true, if_false]
        have := paramDef_appendB (i := true) q h hsep
        simpa using this
    · by_cases h123 : c = 123
      · subst h123
        unfold stepParseOpen at h ⊢
        simp only [show (123 : UInt8) ≠ 125 by decide, show (123 : UInt8) ≠ 91 by decide, if_false, if_true,
          St.shift_tape, St.shift_parent, List.length_map] at h ⊢
        split at h
        · contradiction
        · next scratch hws =>
          rw [skipWs_append q hws]
          simp only
          split at h
          · contradiction
          · next c2 rest2 =>
            simp only [List.cons_append]
            split at h
            · next hc2 =>
              rw [if_pos hc2]
              simp only [Step.cont.injEq] at h
              obtain ⟨rfl, rfl⟩ := h
              rfl
            · next hc2 =>
              rw [if_neg hc2]
              split at h
              · contradiction
              · next hlen =>
                rw [if_neg hlen]
                split at h
                · contradiction
                · next tape' hset =>
                  simp only [Step.cont.injEq] at h
                  obtain ⟨rfl, rfl⟩ := h
                  rw [setTok_shift' q.length hset (shift_array _ _ _)]
                  simp [St.shift]
      · rw [stepParseOpen_lex h125 h91 h123] at h ⊢
        cases hlex : lexValue st.tape (c :: cs) with
        | error f => rw [hlex] at h; cases f <;> simp [Step.fail] at h
        | ok p =>
          obtain ⟨tape1, rest'⟩ := p
          rw [hlex] at h
          simp only at h
          have hr : rest' ≠ [] := by
            intro h0; subst h0
            unfold poAfter at h
            simp [skipWs, skipWsAux] at h
          have hlex' := lexValue_append q hlex hr
          simp only [List.cons_append, St.shift_tape] at hlex' ⊢
          rw [hlex']
          exact poAfter_appendB q h hsep

theorem stepArrayValue_appendB {n1 n2 : Nat} {st st' : St} {c : UInt8} {cs d' : Bytes} (q : Bytes)
    (h : stepArrayValue n1 st (c :: cs) = .cont st' d') (hsep : SepQ q) :
    stepArrayValue n2 (st.shift q.length) (c :: (cs ++ q)) = .cont (st'.shift q.length) (d' ++ q) := by
  unfold stepArrayValue at h ⊢
  simp only at h ⊢
  simp only [St.shift_tape, St.shift_parent, St.shift_mixed, getElem?_shift, endOf_shift, closeState_shift,
    List.length_map]
  split at h
  · next h123 =>
    simp only [Step.cont.injEq] at h
    obtain ⟨rfl, rfl⟩ := h
    simp [h123, St.shift, shift_array]
  · next h123 =>
    rw [if_neg h123]
    split at h
    · next h125 =>
      rw [if_pos h125]
      split at h
      · contradiction
      · next hz =>
        rw [if_neg hz]
        split at h
        · contradiction
        · next tape' hset =>
          simp only [Step.cont.injEq] at h
          obtain ⟨rfl, rfl⟩ := h
          cases hp : st.tape[st.parent]? with
          | none =>
            simp only [hp, Option.map_none, Bool.false_eq_true, if_false] at hset ⊢
            rw [setTok_shift' q.length hset (shift_object _ _ _)]
            simp [St.shift, shift_endTok]
          | some t =>
            cases t <;> simp only [hp, Option.map_some, Tok.shift, Bool.false_eq_true, if_false, if_true] at hset ⊢ <;>
              first
              | (rw [setTok_shift' q.length hset (shift_object _ _ _)]; simp [St.shift, shift_endTok])
              | (rw [setTok_shift' q.length hset (shift_array _ _ _)]; simp [St.shift, shift_endTok])
    · next h125 =>
      rw [if_neg h125]
      split at h
      · next hq =>
        rw [if_pos hq]
        split at h
        · next tape' rest' hlex =>
          simp only [Step.cont.injEq] at h
          obtain ⟨rfl, rfl⟩ := h
          have := lexValue_appendB q hlex hsep
          simp only [List.cons_append] at this
          rw [this]
          simp [St.shift]
        · cases ‹Fail› <;> simp [Step.fail] at h
      · next hq =>
        rw [if_neg hq]
        split at h
        · next hop =>
          rw [if_pos hop]
          have := stepArrayOp_appendB (r2 := if 0 < n2 - (c :: (cs ++ q)).length then Res.err Err.syntax else Res.panic) q h hsep
          simpa using this
        · next hop =>
          rw [if_neg hop]
          split at h
          · next tape' rest' hlex =>
            simp only [Step.cont.injEq] at h
            obtain ⟨rfl, rfl⟩ := h
            have := parseScalarTok_appendB q hlex hsep
            simp only [List.cons_append] at this
            rw [this]
            simp [St.shift]
          · cases ‹Fail› <;> simp [Step.fail] at h

/-- C19, step level: an iteration that stopped at least two bytes before the end of its input does
the same on every extension of the input (positions shifted by the length of the extension). -/
theorem stepAt_appendB {n1 n2 : Nat} {st st' : St} {c : UInt8} {cs d' : Bytes} (q : Bytes)
    (h : stepAt n1 st (c :: cs) = .cont st' d') (hsep : SepQ q) :
    stepAt n2 (st.shift q.length) (c :: (cs ++ q)) = .cont (st'.shift q.length) (d' ++ q) := by
  unfold stepAt at h ⊢
  simp only [St.shift_state]
  cases hs : st.state <;> simp only [hs] at h ⊢
  · exact stepKey_appendB q h hsep
  · exact stepKvs_appendB q h hsep
  · exact stepObjectValue_appendB q h hsep
  · exact stepArrayValue_appendB q h hsep
  · exact stepParseOpen_appendB q h hsep


/-! ### the two runs in lockstep up to the end of the truncated input -/

/-- with a separator continuation the parse of the truncated input `dp` and the parse of
`dp ++ q` go through the same iterations (positions shifted by `|q|`) until the truncated parse
reaches the end of its input in state `st0` -/
theorem run_lockstepB (n1 n2 : Nat) (q : Bytes) (hsep : SepQ q) :
    ∀ (fuel : Nat) (st : St) (dp : Bytes) (T' : List Tok) (b' : Bool),
    run n1 fuel st dp = .ok T' b' → StInv st →
    ∃ j st0 d0, StInv st0 ∧ skipWs d0 = none ∧ atEof st0 = .ok T' b' ∧
      ∀ F, run n2 (F + j) (st.shift q.length) (dp ++ q) = run n2 F (st0.shift q.length) (d0 ++ q)
  | 0, _, _, _, _, h, _ => by simp [run] at h
  | fuel + 1, st, dp, T', b', h, hinv => by
    cases hsk : skipWs dp with
    | none =>
      simp only [run, step, hsk] at h
      exact ⟨0, st, dp, hinv, hsk, h, fun F => rfl⟩
    | some x =>
      obtain ⟨c, cs, rfl, _⟩ := skipWsAux_some dp false x hsk
      cases hstep : stepAt n1 st (c :: cs) with
      | done r =>
        simp only [run, step, hsk, hstep] at h
        subst h
        exact absurd hstep stepAt_not_ok
      | cont st' d' =>
        simp only [run, step, hsk, hstep] at h
        have hstep2 : step n2 (st.shift q.length) (dp ++ q) = .cont (st'.shift q.length) (d' ++ q) := by
          simp only [step]
          rw [skipWs_append q hsk]
          simpa using stepAt_appendB (n2 := n2) q hstep hsep
        obtain ⟨j, st0, d0, h1, h2, h3, h4⟩ :=
          run_lockstepB n1 n2 q hsep fuel st' d' T' b' h (stepAt_inv hinv hstep)
        refine ⟨j + 1, st0, d0, h1, h2, h3, fun F => ?_⟩
        rw [show F + (j + 1) = (F + j) + 1 by omega, run_cont hstep2]
        exact h4 F

/-- what the end of the input does in Key state: nothing at top level, and with exactly one
container open its `End` is appended and the `Object` token gets its `end` -/
theorem atEof_shape {st : St} {T : List Tok} {b : Bool} (h : atEof st = .ok T b) :
    st.state = .key ∧ b = false ∧
      ((st.parent = 0 ∧ T = st.tape) ∨
       (st.parent ≠ 0 ∧ endOf st.tape[st.parent]? = 0 ∧ st.parent < st.tape.length + 1 ∧
         T = (st.tape ++ [Tok.endTok st.parent]).set st.parent (Tok.object st.tape.length false))) := by
  unfold atEof at h
  split at h
  · simp at h
  · next hs =>
    simp only [ne_eq, Decidable.not_not] at hs
    refine ⟨hs, ?_⟩
    split at h
    · next hp => simp at h; exact ⟨h.2, .inl ⟨hp, h.1.symm⟩⟩
    · next hp =>
      simp only at h
      split at h
      · next hg =>
        split at h
        · simp at h
        · next tape' hset =>
          simp only [Res.ok.injEq] at h
          obtain ⟨rfl, hb⟩ := h
          obtain ⟨rfl, hlt⟩ := setTok_some hset
          exact ⟨hb.symm, .inr ⟨hp, hg, by simpa using hlt, rfl⟩⟩
      · simp at h

end Jomini.TextTape
