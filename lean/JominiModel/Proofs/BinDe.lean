import JominiModel.Model.BinDe
import JominiModel.Spec.BinDoc
import JominiModel.Proofs.BinDeSeq
/-
Helper lemmas for C04: per-token dispatch of the three path models against the reference.
-/
set_option linter.unusedSimpArgs false
namespace Jomini.BinDe
open Jomini

/-- leaf-like request types (typed scalars, `any`, unit enums). -/
def LeafTy : Ty → Prop
  | .bool | .i64 | .u64 | .i32 | .u32 | .f64 | .f32 | .str | .any => True
  | .i16 | .u8 | .i8 => True
  | .enum _ => True
  | _ => False

@[simp] theorem visitPrim_any (p : Prim) : visitPrim .any p = .ok (renderPrim p) := by
  simp [visitPrim]

/-- both sequential paths, any leaf token, any leaf-like type: the reference value, input untouched. -/
theorem seq_leaf (p : Path) (c : Cfg) (f : Nat) (ty : Ty) (h : LeafTy ty) (l : BLeaf) (rest : List Tok)
    (hl : plainTok l.tok = true) :
    deTok p c (f + 1) ty l.tok rest = (valLeaf c ty l).map (fun v => (v, rest)) := by
  have hn := fun ty => normTok_plain p ty l.tok rest hl
  cases ty <;> simp [LeafTy] at h <;>
    (cases l with
     | id n =>
       simp only [BLeaf.tok] at hn
       simp only [deTok, hn, hinted, deser, leafOf, valLeaf, u16Leaf, leafPrim, BLeaf.tok, Event.ofRes, Except.map, enumVal]
       cases idPrim c n <;> simp [Except.map, leafOf] <;> (try (split <;> simp_all [Except.map]))
     | _ =>
       simp only [BLeaf.tok] at hn
       simp [deTok, hn, hinted, deser, leafOf, valLeaf, u16Leaf, leafPrim, BLeaf.tok, Event.ofRes, Except.map, enumVal] <;>
       (try (split <;> simp_all [Except.map])))

/-- tape path, the same. -/
theorem tape_leaf (c : Cfg) (tape : List TTok) (f : Nat) (ty : Ty) (h : LeafTy ty) (l : BLeaf) (idx : Nat)
    (ht : tape[idx]? = some l.ttok) :
    tVal c tape (f + 1) ty idx = valLeaf c ty l := by
  cases ty <;> simp [LeafTy] at h <;>
    (cases l with
     | id n =>
       simp only [BLeaf.ttok] at ht
       simp only [tVal, ht, visitKey, valLeaf, u16Leaf, u16Tok, leafPrim, Except.map, enumVal]
       cases idPrim c n <;> simp [Except.map]
     | _ =>
       simp only [BLeaf.ttok] at ht
       simp [tVal, ht, visitKey, valLeaf, u16Leaf, u16Tok, leafPrim, Except.map, enumVal])

/-- the reference on a leaf node. -/
theorem spec_leaf (c : Cfg) (ty : Ty) (h : LeafTy ty) (l : BLeaf) :
    valNode c (.leaf l) ty = valLeaf c ty l := by
  cases ty <;> simp [LeafTy] at h <;>
    simp [valNode, valNodeG, nodeVia, valCoreG, stripOpt, wrapRes, wrapSome, binSem] <;>
    cases valLeaf c _ l <;> simp [wrapRes, wrapSome]

/-- raw lexemes of an rgb block after its marker. -/
def rgbBody (col : Rgb) : List Tok := .open :: (col.comps.map Tok.u32 ++ [.close])

theorem readRgb_body (col : Rgb) (rest : List Tok) : readRgb (rgbBody col ++ rest) = some (col, rest) := by
  obtain ⟨r, g, b, a⟩ := col
  cases a <;> simp [rgbBody, Rgb.comps, readRgb]

/-- streaming: the reader hands over a parsed `Rgb` token. -/
theorem stream_fetch_rgb (col : Rgb) (rest : List Tok) :
    fetch .stream (.id RGB_ID :: (rgbBody col ++ rest)) = .tok (.rgb col) rest := by
  simp [fetch, readRgb_body]

theorem stream_rgb_seq (c : Cfg) (f : Nat) (et : Ty) (col : Rgb) (rest : List Tok) :
    deTok .stream c (f + 1) (.seq et) (.rgb col) rest = (colorVisit (.seq et) col).map (fun v => (v, rest)) := by
  simp [deTok, normTok]

/-- on-demand: the block after the marker is read when the token is consumed. -/
theorem ondemand_rgb_seq (c : Cfg) (f : Nat) (et : Ty) (col : Rgb) (rest : List Tok) :
    deTok .ondemand c (f + 1) (.seq et) (.id RGB_ID) (rgbBody col ++ rest) =
      (colorVisit (.seq et) col).map (fun v => (v, rest)) := by
  simp [deTok, normTok, readRgb_body, RGB_ID]

theorem tape_rgb_seq (c : Cfg) (tape : List TTok) (f : Nat) (et : Ty) (col : Rgb) (idx : Nat)
    (ht : tape[idx]? = some (.rgb col)) :
    tVal c tape (f + 1) (.seq et) idx = colorVisit (.seq et) col := by
  simp [tVal, ht]

theorem spec_rgb_seq (c : Cfg) (et : Ty) (col : Rgb) :
    valNode c (.rgb col) (.seq et) = colorVisit (.seq et) col := by
  simp [valNode, valNodeG, nodeVia, valCoreG, stripOpt, wrapRes, wrapSome, binSem]
  cases colorVisit (.seq et) col <;> simp [wrapRes, wrapSome]

/-- a full capture of a colour is the two-element sequence: the name `rgb`, then the components. -/
theorem colorVisit_seq_any (col : Rgb) :
    colorVisit (.seq .any) col = seqFrom .any [outerElem1, outerElem2 col] [] ∧
    outerElem1 .any = .ok (renderPrim (.str [114, 103, 98])) ∧
    outerElem2 col .any = .ok ("[" ++ joinComma (col.comps.map (fun v => "u" ++ toString v)) ++ "]") := by
  simp [colorVisit, outerElem1, outerElem2]

end Jomini.BinDe
