import JominiModel.Spec.JsonDoc
import JominiModel.Proofs.DomBridge
import JominiModel.Proofs.TextTapeDomWf
/-
C16's hypothesis for the parser: every tape the text parser model accepts is the token list of a
document tree (`Json.WfTape (toJsonTape T)`, the hypothesis of `C16_total`), for ALL inputs.

`parse_gr` (Proofs/TextTapeDomWf.lean) gives `Gr (.body x) T 0`; `gr_json` reads the tree off the
derivation.
-/
namespace Jomini.TextTape
open Jomini

def toJsonOp : Op → Json.Op
  | .lt => .lt | .le => .le | .gt => .gt | .ge => .ge
  | .ne => .ne | .exact => .exact | .eq => .eq | .exists_ => .exists_

/-- `TextTape.Tok → Json.TTok`: drop the positions of the scalars -/
def toJsonTok : Tok → Json.TTok
  | .array e m => .array e m
  | .object e m => .object e m
  | .mixedContainer => .mixed
  | .unquoted s => .unquoted s.bytes
  | .quoted s => .quoted s.bytes
  | .parameter s => .param s.bytes
  | .undefParameter s => .undefParam s.bytes
  | .operator o => .op (toJsonOp o)
  | .endTok i => .end_ i
  | .header s => .header s.bytes

def toJsonTape (T : List Tok) : Json.Tape := (T.map toJsonTok).toArray

@[simp] theorem toJsonTape_get (T : List Tok) (i : Nat) :
    (toJsonTape T)[i]? = (T[i]?).map toJsonTok := by
  simp [toJsonTape]

@[simp] theorem toJsonTape_size (T : List Tok) : (toJsonTape T).size = T.length := by
  simp [toJsonTape]

/-- a value in a value list: a header with its body is the item `hdr` -/
def itemOfNode : Json.Node → Json.Item
  | .header s body => .hdr s body
  | n => .val n

theorem itemOfNode_size (n : Json.Node) : (itemOfNode n).size = n.size := by
  cases n <;> simp [itemOfNode, Json.Item.size, Json.Node.size]

theorem itemOfNode_at (t : Json.Tape) (n : Json.Node) (i : Nat) :
    Json.itemAt t (itemOfNode n) i = Json.nodeAt t n i := by
  cases n <;> simp [itemOfNode, Json.itemAt, Json.nodeAt, Json.Node.isHeader]

def JSem (T : List Tok) : GK → Nat → Nat → Prop
  | .val, b, n => ∃ nd : Json.Node, nd.size = n ∧ Json.nodeAt (toJsonTape T) nd b = true
  | .items, b, n => ∃ its : List Json.Item, Json.itemsSize its = n ∧ Json.itemsAt (toJsonTape T) its b = true
  | .body x, b, n => ∃ (fs : List Json.Field) (rest : List Json.Item),
      Json.fieldsAt (toJsonTape T) fs b = true ∧
      (x = false → rest = [] ∧ Json.fieldsSize fs = n) ∧
      (x = true → (toJsonTape T)[b + Json.fieldsSize fs]? = some .mixed ∧
        Json.itemsAt (toJsonTape T) rest (b + Json.fieldsSize fs + 1) = true ∧
        Json.fieldsSize fs + 1 + Json.itemsSize rest = n)

theorem toJsonTok_isKey {k : Tok} (h : k.isKey = true) : Json.isKeyTok (toJsonTok k) = true := by
  cases k <;> simp [Tok.isKey] at h <;> rfl

theorem gr_json {k : GK} {ts : List Tok} {b : Nat} (h : Gr k ts b) :
    ∀ T A B, T = A ++ ts ++ B → b = A.length → JSem T k b ts.length := by
  induction h with
  | @scal t b hs =>
    intro T A B hT hb
    have h0 : T[b]? = some t := by rw [hT, hb]; simpa using mid_get A [t] B 0 (by simp)
    cases t <;> simp [Tok.isScal] at hs
    · next s => exact ⟨.scalar false s.bytes, by simp [Json.Node.size], by simp [Json.nodeAt, h0, toJsonTok]⟩
    · next s => exact ⟨.scalar true s.bytes, by simp [Json.Node.size], by simp [Json.nodeAt, h0, toJsonTok]⟩
  | @arr mid b m hmid ih =>
    intro T A B hT hb
    have hlen : (Tok.array (b + 1 + mid.length) m :: (mid ++ [.endTok b])).length = mid.length + 2 := by simp
    have h0 : T[b]? = some (.array (b + 1 + mid.length) m) := by
      rw [hT, hb]; simpa using mid_get A _ B 0 (by rw [← hb, hlen]; omega)
    have hl : T[b + 1 + mid.length]? = some (.endTok b) := by
      have := mid_get A (Tok.array (b + 1 + mid.length) m :: (mid ++ [.endTok b])) B (mid.length + 1) (by rw [hlen]; omega)
      rw [hT, hb]; rw [← hb] at this ⊢
      simpa [Nat.add_assoc, Nat.add_comm, Nat.add_left_comm, hb] using this
    obtain ⟨its, hsz, hat⟩ := ih T (A ++ [.array (b + 1 + mid.length) m]) (.endTok b :: B) (by simp [hT]) (by simp [hb])
    refine ⟨.arr m its, by rw [hlen]; simp [Json.Node.size, hsz] <;> omega, ?_⟩
    simp [Json.nodeAt, hsz, h0, hl, hat, toJsonTok]
  | @obj mid b m x hmid hmx ih =>
    intro T A B hT hb
    have hlen : (Tok.object (b + 1 + mid.length) m :: (mid ++ [.endTok b])).length = mid.length + 2 := by simp
    have h0 : T[b]? = some (.object (b + 1 + mid.length) m) := by
      rw [hT, hb]; simpa using mid_get A _ B 0 (by rw [← hb, hlen]; omega)
    have hl : T[b + 1 + mid.length]? = some (.endTok b) := by
      have := mid_get A (Tok.object (b + 1 + mid.length) m :: (mid ++ [.endTok b])) B (mid.length + 1) (by rw [hlen]; omega)
      rw [hT, hb]; rw [← hb] at this ⊢
      simpa [Nat.add_assoc, Nat.add_comm, Nat.add_left_comm, hb] using this
    obtain ⟨fs, rest, hf, hx0, hx1⟩ := ih T (A ++ [.object (b + 1 + mid.length) m]) (.endTok b :: B) (by simp [hT]) (by simp [hb])
    cases x with
    | false =>
      obtain ⟨rfl, hsz⟩ := hx0 rfl
      have hm : m = false := by cases m <;> simp at hmx ⊢
      subst hm
      refine ⟨.obj false false fs [], by rw [hlen]; simp [Json.Node.size, Json.itemsSize, hsz] <;> omega, ?_⟩
      simp [Json.nodeAt, Json.itemsSize, hsz, h0, hl, hf, toJsonTok]
    | true =>
      obtain ⟨hM, hI, hsz⟩ := hx1 rfl
      have hE : b + 1 + Json.fieldsSize fs + 1 + Json.itemsSize rest = b + 1 + mid.length := by omega
      refine ⟨.obj m true fs rest, by rw [hlen]; simp [Json.Node.size] <;> omega, ?_⟩
      simp only [Json.nodeAt, if_true, hE, toJsonTape_get, h0, hl, hf, Option.map_some, toJsonTok,
        decide_true, Bool.true_and, Bool.and_true, Bool.and_eq_true, decide_eq_true_eq]
      exact ⟨by simpa using hM, hI⟩
  | @hdr t r b hs hv hst ih =>
    intro T A B hT hb
    have h0 : T[b]? = some (.header hs) := by
      rw [hT, hb]; simpa using mid_get A (.header hs :: t :: r) B 0 (by simp)
    have h1 : T[b + 1]? = some t := by
      rw [hT, hb]; simpa using mid_get A (.header hs :: t :: r) B 1 (by simp)
    obtain ⟨nd, hsz, hat⟩ := ih T (A ++ [.header hs]) B (by simp [hT]) (by simp [hb])
    have hc : nd.isContainer = true := by
      cases nd with
      | scalar q s =>
        cases q <;> simp [Json.nodeAt, h1] at hat <;>
          (cases t <;> simp [Tok.isStartTok] at hst <;> simp [toJsonTok] at hat)
      | arr _ _ => rfl
      | obj _ _ _ _ => rfl
      | header s body =>
        simp [Json.nodeAt, h1] at hat
        cases t <;> simp [Tok.isStartTok] at hst <;> simp [toJsonTok] at hat
    refine ⟨.header hs.bytes nd, by simp [Json.Node.size, hsz] <;> omega, ?_⟩
    simp [Json.nodeAt, h0, hc, hat, toJsonTok]
  | inil => intro T A B hT hb; exact ⟨[], by simp [Json.itemsSize], by simp [Json.itemsAt]⟩
  | @ival v rest b hv hr ihv ihr =>
    intro T A B hT hb
    obtain ⟨nd, hsz, hat⟩ := ihv T A (rest ++ B) (by simp [hT]) hb
    obtain ⟨its, hsz', hat'⟩ := ihr T (A ++ v) B (by simp [hT]) (by simp [hb])
    refine ⟨itemOfNode nd :: its, by simp [Json.itemsSize, itemOfNode_size, hsz, hsz'], ?_⟩
    simp [Json.itemsAt, itemOfNode_at, itemOfNode_size, hat, hsz, hat']
  | @itok t rest b ht hr ih =>
    intro T A B hT hb
    have h0 : T[b]? = some t := by
      rw [hT, hb]; simpa using mid_get A (t :: rest) B 0 (by simp)
    obtain ⟨its, hsz, hat⟩ := ih T (A ++ [t]) B (by simp [hT]) (by simp [hb])
    have hone : ∃ it : Json.Item, it.size = 1 ∧ Json.itemAt (toJsonTape T) it b = true := by
      cases t <;> simp [Tok.isItem] at ht
      · exact ⟨.mixedTok, by simp [Json.Item.size], by simp [Json.itemAt, h0, toJsonTok]⟩
      · next s => exact ⟨.val (.scalar false s.bytes), by simp [Json.Item.size, Json.Node.size],
          by simp [Json.itemAt, Json.nodeAt, Json.Node.isHeader, h0, toJsonTok]⟩
      · next s => exact ⟨.val (.scalar true s.bytes), by simp [Json.Item.size, Json.Node.size],
          by simp [Json.itemAt, Json.nodeAt, Json.Node.isHeader, h0, toJsonTok]⟩
      · next s => exact ⟨.paramTok false s.bytes, by simp [Json.Item.size],
          by simp [Json.itemAt, h0, toJsonTok]⟩
      · next s => exact ⟨.paramTok true s.bytes, by simp [Json.Item.size],
          by simp [Json.itemAt, h0, toJsonTok]⟩
      · next o => exact ⟨.opTok (toJsonOp o), by simp [Json.Item.size], by simp [Json.itemAt, h0, toJsonTok]⟩
    obtain ⟨it, hi1, hi2⟩ := hone
    refine ⟨it :: its, by simp [Json.itemsSize, hi1, hsz] <;> omega, ?_⟩
    simp [Json.itemsAt, hi1, hi2, hat]
  | bnil =>
    intro T A B hT hb
    exact ⟨[], [], by simp [Json.fieldsAt], by simp [Json.fieldsSize], by simp⟩
  | @bmixed rest b hr ih =>
    intro T A B hT hb
    have h0 : T[b]? = some .mixedContainer := by
      rw [hT, hb]; simpa using mid_get A (.mixedContainer :: rest) B 0 (by simp)
    obtain ⟨its, hsz, hat⟩ := ih T (A ++ [.mixedContainer]) B (by simp [hT]) (by simp [hb])
    refine ⟨[], its, by simp [Json.fieldsAt], by simp, ?_⟩
    intro _
    simp [Json.fieldsSize, h0, toJsonTok, hat, hsz] <;> omega
  | @bfield k ops v rest b x hkey hops hv hr ihv ihr =>
    intro T A B hT hb
    have h0 : T[b]? = some k := by
      rw [hT, hb]; simpa using mid_get A (k :: (ops ++ (v ++ rest))) B 0 (by simp)
    obtain ⟨nd, hsz, hat⟩ := ihv T (A ++ k :: ops) (rest ++ B) (by simp [hT]) (by simp [hb]; omega)
    obtain ⟨fs, rs, hf, hx0, hx1⟩ := ihr T (A ++ k :: (ops ++ v)) B (by simp [hT]) (by simp [hb]; omega)
    have hlen : (k :: (ops ++ (v ++ rest))).length = 1 + ops.length + v.length + rest.length := by
      simp; omega
    rcases hops with rfl | ⟨o, rfl⟩
    · simp only [List.length_nil, Nat.add_zero] at hat hf hx0 hx1 hlen
      have hfa : Json.fieldsAt (toJsonTape T) (.mk (toJsonTok k) none nd :: fs) b = true := by
        simp [Json.fieldsAt, Json.fieldAt, Json.Field.size, toJsonTok_isKey hkey, h0, hat, hsz]
        have : b + (1 + v.length) = b + 1 + v.length := by omega
        rw [this]; exact hf
      refine ⟨.mk (toJsonTok k) none nd :: fs, rs, hfa, ?_, ?_⟩
      · intro hx
        obtain ⟨h1, h2⟩ := hx0 hx
        exact ⟨h1, by rw [hlen]; simp [Json.fieldsSize, Json.Field.size, hsz, h2]⟩
      · intro hx
        obtain ⟨h1, h2, h3⟩ := hx1 hx
        have hfs : Json.fieldsSize (.mk (toJsonTok k) none nd :: fs) = 1 + v.length + Json.fieldsSize fs := by
          simp [Json.fieldsSize, Json.Field.size, hsz]
        rw [hfs, hlen]
        refine ⟨?_, ?_, by omega⟩
        · have : b + (1 + v.length + Json.fieldsSize fs) = b + 1 + v.length + Json.fieldsSize fs := by omega
          rw [this]; exact h1
        · have : b + (1 + v.length + Json.fieldsSize fs) + 1 = b + 1 + v.length + Json.fieldsSize fs + 1 := by omega
          rw [this]; exact h2
    · have h1' : T[b + 1]? = some (.operator o) := by
        rw [hT, hb]; simpa using mid_get A (k :: ([.operator o] ++ (v ++ rest))) B 1 (by simp)
      simp only [List.length_cons, List.length_nil, Nat.zero_add] at hat hf hx0 hx1
      have hlen : (k :: ([Tok.operator o] ++ (v ++ rest))).length = 1 + 1 + v.length + rest.length := by
        simp <;> omega
      have hfa : Json.fieldsAt (toJsonTape T) (.mk (toJsonTok k) (some (toJsonOp o)) nd :: fs) b = true := by
        have hop : toJsonTok (Tok.operator o) = Json.TTok.op (toJsonOp o) := rfl
        simp [Json.fieldsAt, Json.fieldAt, Json.Field.size, toJsonTok_isKey hkey, h0, h1', hat, hsz, hop]
        have : b + (1 + 1 + v.length) = b + 1 + 1 + v.length := by omega
        rw [this]; exact hf
      refine ⟨.mk (toJsonTok k) (some (toJsonOp o)) nd :: fs, rs, hfa, ?_, ?_⟩
      · intro hx
        obtain ⟨h1, h2⟩ := hx0 hx
        exact ⟨h1, by rw [hlen]; simp [Json.fieldsSize, Json.Field.size, hsz, h2]⟩
      · intro hx
        obtain ⟨h1, h2, h3⟩ := hx1 hx
        have hfs : Json.fieldsSize (.mk (toJsonTok k) (some (toJsonOp o)) nd :: fs) =
            1 + 1 + v.length + Json.fieldsSize fs := by
          simp [Json.fieldsSize, Json.Field.size, hsz]
        rw [hfs, hlen]
        refine ⟨?_, ?_, by omega⟩
        · have : b + (1 + 1 + v.length + Json.fieldsSize fs) = b + 1 + 1 + v.length + Json.fieldsSize fs := by omega
          rw [this]; exact h1
        · have : b + (1 + 1 + v.length + Json.fieldsSize fs) + 1 = b + 1 + 1 + v.length + Json.fieldsSize fs + 1 := by
            omega
          rw [this]; exact h2

/-- a regular tape is the token list of a document tree -/
theorem gr_wfTape {T : List Tok} {x : Bool} (h : Gr (.body x) T 0) : Json.WfTape (toJsonTape T) := by
  obtain ⟨fs, rest, hf, hx0, hx1⟩ := gr_json h T [] [] (by simp) rfl
  cases x with
  | false =>
    obtain ⟨rfl, hsz⟩ := hx0 rfl
    exact ⟨⟨fs, false, []⟩, by simp [Json.docAt, hf, Json.itemsSize, hsz]⟩
  | true =>
    obtain ⟨hM, hI, hsz⟩ := hx1 rfl
    simp only [Nat.zero_add] at hM hI
    refine ⟨⟨fs, true, rest⟩, ?_⟩
    simp only [Json.docAt, hf, if_true, hM, hI, toJsonTape_size, Bool.true_and, decide_true,
      Bool.and_eq_true, decide_eq_true_eq]
    omega

/-- **C16 hypothesis for ALL inputs**: every tape the text parser model accepts is the token list
of a document tree — `Json.WfTape`, the hypothesis of `C16_total` / `C16_total_all`. -/
theorem C16_parsed_tape_wf (input : Bytes) (T : List Tok) (b : Bool) (h : parse input = .ok T b) :
    Json.WfTape (toJsonTape T) := by
  obtain ⟨x, hx⟩ := parse_gr input T b h
  exact gr_wfTape hx

/-- the two translations of a parsed tape agree with the bridge `DomBridge.jTape` between the JSON
model's token type and the DOM model's -/
theorem jTape_toJsonTape (T : List Tok) : DomBridge.jTape (toJsonTape T) = toDomTape T := by
  simp only [DomBridge.jTape, toJsonTape, toDomTape, List.map_toArray, List.map_map]
  congr 1
  apply List.map_congr_left
  intro t _
  have hop : ∀ o : Op, DomBridge.jOp (toJsonOp o) = toDomOp o := by intro o; cases o <;> rfl
  cases t <;> simp [toJsonTok, toDomTok, DomBridge.jTok, hop]

/-- the hypothesis is satisfiable: `a=rgb{1}` -/
example : Json.WfTape (toJsonTape
    [.unquoted ⟨8, [97]⟩, .header ⟨6, [114, 103, 98]⟩, .array 4 false, .unquoted ⟨2, [49]⟩, .endTok 2]) :=
  C16_parsed_tape_wf [97, 61, 114, 103, 98, 123, 49, 125] _ false (by decide +kernel)

end Jomini.TextTape
