import JominiModel.Proofs.TextReaderUnfit
/-
C07, the converse of `C07_full_only_if_unfit`: with a buffer smaller than `need data`, every fault-free schedule ends in
`BufferFull`.  The proofs follow `run` like `run_quote` / `run_unq` / `run_fallback_spec` (TextReaderStream.lean), but only
along the paths on which the scanned item is still undecided: a decided token contradicts the hypothesis by stability.
-/
namespace Jomini.TextReader
open Jomini Jomini.TextReader.Spec

/-- the refill step of `next_opt_refill` when the carried bytes already fill the buffer -/
theorem refill_full {r r0 : Reader} {st : PState} {carry off f : Nat}
    (hadv : advance r (r.win.length - carry) = some r0) (hgt : ¬ carry > r.win.length)
    (hc : r0.cap ≠ 0) (hfull : r0.cap ≤ r0.win.length) :
    run (f + 1) (.refill st carry off) r = .err r0 .full := by
  rw [run]
  have : fillBuf r0 = (r0, .full) := by simp [fillBuf, hc]; omega
  simp only [hadv, hgt, if_false, this]

/-- a fault-free `fill_buf` with room in the buffer and bytes left: at least one byte arrives, at most what fits -/
theorem Rel.fill_nf {r : Reader} {pos : Nat} {bom : Bom} {d : Bytes} (h : Rel r pos bom d) (hnf : NoFaults r.src.sched)
    (hin : InBuffer r) (hc : r.cap ≠ 0) (hroom : r.win.length < r.cap) (hne : r.src.rest ≠ []) :
    ∃ r' n, fillBuf r = (r', .ok (n + 1)) ∧ Rel r' pos bom d ∧ n + 1 ≤ r.src.rest.length ∧
      r'.win = r.win ++ r.src.rest.take (n + 1) ∧ r'.src.rest = r.src.rest.drop (n + 1) ∧ r'.cap = r.cap ∧
      NoFaults r'.src.sched ∧ InBuffer r' ∧ r.win.length + (n + 1) ≤ r.cap := by
  rcases h.fill with ⟨_, _, _, h1⟩ | ⟨_, _, h1⟩ | ⟨h1, _⟩ | ⟨_, r', n, hf, hrel, hn, hw, hr, hcap, hnf'⟩
  · exact absurd hnf h1
  · omega
  · exact absurd h1 hne
  · have hin' : InBuffer (fillBuf r).1 := InBuffer_closed.fill hin (by rw [hf]; simp)
    rw [hf] at hin'
    refine ⟨r', n, hf, hrel, hn, hw, hr, hcap, hnf' hnf, hin', ?_⟩
    unfold InBuffer at hin'
    rw [hw, hcap] at hin'
    simp only [List.length_append, List.length_take] at hin'
    omega

/-! ### inside a quoted scalar -/

theorem run_quote_full (n : Nat) : ∀ (r : Reader) (pos : Nat) (bom : Bom) (d junk a x y : Bytes) (off fuel : Nat),
    r.src.rest.length ≤ n → Rel r pos bom d → NoFaults r.src.sched → InBuffer r → r.cap ≠ 0 →
    r.win = junk ++ a → off ≤ a.length →
    (∀ z, quoteEnd (a ++ z) 0 = quoteEnd ((a ++ z).drop off) off) →
    r.src.rest = x ++ y → quoteEnd (a ++ x) 0 = none → r.cap ≤ (a ++ x).length →
    2 * r.src.rest.length + 2 ≤ fuel →
    ∃ r', run fuel (.refill .quote a.length off) r = .err r' .full := by
  induction n with
  | zero =>
    intro r pos bom d junk a x y off fuel hn hrel hnf hin hc hwin hoff hres hxy hnone hcap hfuel
    have he : r.src.rest = [] := List.eq_nil_of_length_eq_zero (by omega)
    have hx : x = [] := by rw [he] at hxy; simpa using (List.append_eq_nil_iff.mp hxy.symm).1
    subst hx
    obtain ⟨f, rfl⟩ : ∃ f, fuel = f + 1 := ⟨fuel - 1, by omega⟩
    obtain ⟨r0, hadv, hrel0, hwin0, hsrc0, hcap0⟩ := hrel.advance junk.length (by simp [hwin])
    have e : r.win.length - a.length = junk.length := by simp [hwin]
    have hwin0' : r0.win = a := by rw [hwin0, hwin]; simp
    exact ⟨r0, refill_full (by rw [e]; exact hadv) (by simp [hwin]) (by rw [hcap0]; exact hc)
      (by rw [hcap0, hwin0']; simpa using hcap)⟩
  | succ n ih =>
    intro r pos bom d junk a x y off fuel hn hrel hnf hin hc hwin hoff hres hxy hnone hcap hfuel
    obtain ⟨f, rfl⟩ : ∃ f, fuel = f + 1 := ⟨fuel - 1, by omega⟩
    obtain ⟨r0, hadv, hrel0, hwin0, hsrc0, hcap0⟩ := hrel.advance junk.length (by simp [hwin])
    have e : r.win.length - a.length = junk.length := by simp [hwin]
    have hgt : ¬ a.length > r.win.length := by simp [hwin]
    have hwin0' : r0.win = a := by rw [hwin0, hwin]; simp
    have hin0 : InBuffer r0 := InBuffer_closed.adv hin hadv
    by_cases hfull : r.cap ≤ a.length
    · exact ⟨r0, refill_full (by rw [e]; exact hadv) hgt (by rw [hcap0]; exact hc) (by rw [hcap0, hwin0']; exact hfull)⟩
    have hxne : x ≠ [] := by intro h; subst h; simp at hcap; omega
    have hne : r0.src.rest ≠ [] := by
      rw [hsrc0, hxy]; intro h; exact hxne (List.append_eq_nil_iff.mp h).1
    obtain ⟨r1, k, hfill, hrel1, hk, hwin1, hrest1, hcap1, hnf1, hin1, hroom⟩ :=
      hrel0.fill_nf (by rw [hsrc0]; exact hnf) hin0 (by rw [hcap0]; exact hc) (by rw [hcap0, hwin0']; omega) hne
    rw [hsrc0] at hk hwin1 hrest1
    rw [hwin0'] at hwin1 hroom
    rw [hcap0] at hroom
    -- the new bytes are a part of `x`
    have hkx : k + 1 ≤ x.length := by simp at hcap; omega
    have hnew : r.src.rest.take (k + 1) = x.take (k + 1) := by
      rw [hxy, List.take_append_of_le_length hkx]
    rw [hnew] at hwin1
    have hrest1' : r1.src.rest = x.drop (k + 1) ++ y := by
      rw [hrest1, hxy, List.drop_append_of_le_length hkx]
    generalize hnw : x.take (k + 1) = new at hwin1
    have hxsplit : x = new ++ x.drop (k + 1) := by rw [← hnw]; simp
    have hnewlen : new.length = k + 1 := by rw [← hnw]; simp; omega
    have hrun : run (f + 1) (.refill .quote a.length off) r =
        match quoteRescan r1.win.length (r1.win.drop off) off with
        | .closed m =>
          match advance r1 (m + 1) with
          | some r2 => .ok r2 (some (.quoted (r1.win.take m)))
          | none => .panic
        | .more c o => run f (.refill .quote c o) r1 := by
      rw [run]
      simp only [e, hadv, hgt, if_false, hfill]
      rfl
    rw [hrun, hwin1]
    have hoff' : off ≤ (a ++ new).length := by simp; omega
    have hlenL : (a ++ new).length = off + ((a ++ new).drop off).length := by simp; omega
    have hnone1 : quoteEnd (a ++ new) 0 = none := by
      cases hq : quoteEnd (a ++ new) 0 with
      | none => rfl
      | some m =>
        have := quoteEnd_append (x.drop (k + 1)) hq
        rw [List.append_assoc, ← hxsplit, hnone] at this
        simp at this
    cases hq : quoteRescan (a ++ new).length ((a ++ new).drop off) off with
    | closed m =>
      have e1 : quoteEnd (a ++ new) 0 = some m := by rw [hres new]; exact quoteRescan_closed hq
      rw [hnone1] at e1; simp at e1
    | more c o =>
      obtain ⟨h1, h2, h3, h4, h5⟩ := quoteRescan_more hlenL hq
      subst h2
      have hres' : ∀ z, quoteEnd ((a ++ new) ++ z) 0 = quoteEnd (((a ++ new) ++ z).drop o) o := by
        intro z
        have := hres (new ++ z)
        rw [← List.append_assoc] at this
        rw [this]
        have := h5 z
        rw [← List.drop_append_of_le_length hoff'] at this
        rw [this, List.drop_drop]
        congr 2; omega
      have hl1 : r1.src.rest.length + (k + 1) = r.src.rest.length := by rw [hrest1]; simp; omega
      simp only
      exact ih r1 (pos + junk.length) bom _ [] (a ++ new) (x.drop (k + 1)) y o f (by omega) hrel1 hnf1 hin1
        (by rw [hcap1, hcap0]; exact hc) (by simp [hwin1]) h4 hres' hrest1'
        (by rw [List.append_assoc, ← hxsplit]; exact hnone)
        (by rw [hcap1, hcap0, List.append_assoc, ← hxsplit]; exact hcap) (by omega)

/-! ### inside an unquoted scalar -/

theorem run_unq_full (n : Nat) : ∀ (r : Reader) (pos : Nat) (bom : Bom) (d junk : Bytes) (c : UInt8) (body x y : Bytes) (fuel : Nat),
    r.src.rest.length ≤ n → Rel r pos bom d → NoFaults r.src.sched → InBuffer r → r.cap ≠ 0 →
    r.win = junk ++ c :: body →
    r.src.rest = x ++ y → findIdx isBoundary (body ++ x) 0 = none → r.cap ≤ (body ++ x).length + 1 →
    2 * r.src.rest.length + 2 ≤ fuel →
    ∃ r', run fuel (.refill .unquoted (body.length + 1) (body.length + 1)) r = .err r' .full := by
  induction n with
  | zero =>
    intro r pos bom d junk c body x y fuel hn hrel hnf hin hc hwin hxy hnone hcap hfuel
    have he : r.src.rest = [] := List.eq_nil_of_length_eq_zero (by omega)
    have hx : x = [] := by rw [he] at hxy; simpa using (List.append_eq_nil_iff.mp hxy.symm).1
    subst hx
    obtain ⟨f, rfl⟩ : ∃ f, fuel = f + 1 := ⟨fuel - 1, by omega⟩
    obtain ⟨r0, hadv, hrel0, hwin0, hsrc0, hcap0⟩ := hrel.advance junk.length (by simp [hwin])
    have e : r.win.length - (body.length + 1) = junk.length := by simp [hwin]
    have hwin0' : r0.win = c :: body := by rw [hwin0, hwin]; simp
    exact ⟨r0, refill_full (by rw [e]; exact hadv) (by simp [hwin]) (by rw [hcap0]; exact hc)
      (by rw [hcap0, hwin0']; simpa using hcap)⟩
  | succ n ih =>
    intro r pos bom d junk c body x y fuel hn hrel hnf hin hc hwin hxy hnone hcap hfuel
    obtain ⟨f, rfl⟩ : ∃ f, fuel = f + 1 := ⟨fuel - 1, by omega⟩
    obtain ⟨r0, hadv, hrel0, hwin0, hsrc0, hcap0⟩ := hrel.advance junk.length (by simp [hwin])
    have e : r.win.length - (body.length + 1) = junk.length := by simp [hwin]
    have hgt : ¬ body.length + 1 > r.win.length := by simp [hwin]
    have hwin0' : r0.win = c :: body := by rw [hwin0, hwin]; simp
    have hin0 : InBuffer r0 := InBuffer_closed.adv hin hadv
    by_cases hfull : r.cap ≤ body.length + 1
    · exact ⟨r0, refill_full (by rw [e]; exact hadv) hgt (by rw [hcap0]; exact hc) (by rw [hcap0, hwin0']; simpa using hfull)⟩
    have hxne : x ≠ [] := by intro h; subst h; simp at hcap; omega
    have hne : r0.src.rest ≠ [] := by
      rw [hsrc0, hxy]; intro h; exact hxne (List.append_eq_nil_iff.mp h).1
    obtain ⟨r1, k, hfill, hrel1, hk, hwin1, hrest1, hcap1, hnf1, hin1, hroom⟩ :=
      hrel0.fill_nf (by rw [hsrc0]; exact hnf) hin0 (by rw [hcap0]; exact hc) (by rw [hcap0, hwin0']; simp; omega) hne
    rw [hsrc0] at hk hwin1 hrest1
    rw [hwin0'] at hwin1 hroom
    rw [hcap0] at hroom
    have hkx : k + 1 ≤ x.length := by simp at hcap hroom; omega
    have hnew : r.src.rest.take (k + 1) = x.take (k + 1) := by
      rw [hxy, List.take_append_of_le_length hkx]
    rw [hnew] at hwin1
    have hrest1' : r1.src.rest = x.drop (k + 1) ++ y := by
      rw [hrest1, hxy, List.drop_append_of_le_length hkx]
    generalize hnw : x.take (k + 1) = new at hwin1
    have hxsplit : x = new ++ x.drop (k + 1) := by rw [← hnw]; simp
    have hrun : run (f + 1) (.refill .unquoted (body.length + 1) (body.length + 1)) r =
        match findIdx isBoundary (r1.win.drop (body.length + 1)) (body.length + 1) with
        | some m =>
          match advance r1 m with
          | some r2 => .ok r2 (some (.unquoted (r1.win.take m)))
          | none => .panic
        | none => run f (.refill .unquoted r1.win.length r1.win.length) r1 := by
      rw [run]
      simp only [e, hadv, hgt, if_false, hfill]
      rfl
    rw [hrun, hwin1]
    have hdrop : (c :: body ++ new).drop (body.length + 1) = new := by simp
    rw [hdrop]
    have hb0 : findIdx isBoundary body 0 = none := by
      cases hq : findIdx isBoundary body 0 with
      | none => rfl
      | some m => have := findIdx_append_some x hq; rw [hnone] at this; simp at this
    have hbn : findIdx isBoundary (body ++ new) 0 = findIdx isBoundary new body.length := by
      rw [findIdx_append_none new hb0]; simp
    have hnone1 : findIdx isBoundary (body ++ new) 0 = none := by
      cases hq : findIdx isBoundary (body ++ new) 0 with
      | none => rfl
      | some m =>
        have := findIdx_append_some (x.drop (k + 1)) hq
        rw [List.append_assoc, ← hxsplit, hnone] at this
        simp at this
    have hsh : findIdx isBoundary new (body.length + 1) = (findIdx isBoundary new body.length).map (· + 1) :=
      findIdx_shift _ _ _ _
    rw [hbn] at hnone1
    simp only [hsh, hnone1, Option.map_none]
    have hl1 : r1.src.rest.length + (k + 1) = r.src.rest.length := by rw [hrest1]; simp; omega
    have hlen2 : (c :: body ++ new).length = (body ++ new).length + 1 := by simp
    rw [hlen2]
    exact ih r1 (pos + junk.length) bom _ [] c (body ++ new) (x.drop (k + 1)) y f (by omega) hrel1 hnf1 hin1
      (by rw [hcap1, hcap0]; exact hc) (by simp [hwin1]) hrest1'
      (by rw [List.append_assoc, ← hxsplit]; exact hnone)
      (by rw [hcap1, hcap0, List.append_assoc, ← hxsplit]; exact hcap) (by omega)

/-! ### what the scan of a window needs -/

/-- buffer bytes needed by the refill that the scan of the window `w` asks for (0 when the scan decides a token) -/
def scanNeed (pos0 : Bool) (bom : Bom) (w : Bytes) : Nat := carryNeed w (fbLoop pos0 w .top 0 bom)

theorem scanNeed_le (pos0 : Bool) (bom : Bom) (w : Bytes) : scanNeed pos0 bom w ≤ w.length + 1 := by
  unfold scanNeed
  generalize hres : fbLoop pos0 w .top 0 bom = res
  obtain ⟨b, sc⟩ := res
  cases sc with
  | tok adv t => simp [carryNeed]
  | bomFill => simp [carryNeed]
  | refill st carry off => have := fbLoop_refill_carry hres; simp only [carryNeed]; omega

theorem scanNeed_tok {pos0 : Bool} {bom b : Bom} {w : Bytes} {adv : Nat} {t : Token} (x : Bytes)
    (h : fbLoop pos0 w .top 0 bom = (b, .tok adv t)) : scanNeed pos0 bom (w ++ x) = 0 := by
  unfold scanNeed; rw [fbLoop_stable x h]; rfl

/-- bytes the scan passes over do not count -/
theorem scanNeed_skip {pos : Nat} {pre : Bytes} {bom bom_s : Bom} (hs : Skips (pos == 0) pre 0 bom bom_s) (y : Bytes) :
    scanNeed (pos == 0) bom (pre ++ y) = scanNeed (pos + pre.length == 0) bom_s y := by
  by_cases hne : pre = []
  · subst hne
    have := hs.nil_eq; subst this
    simp
  · have hk : 0 < pre.length := by cases pre with | nil => exact absurd rfl hne | cons _ _ => simp
    have hp : (pos + pre.length == 0) = false := by
      have : pos + pre.length ≠ 0 := by omega
      simpa using this
    rw [hp]
    unfold scanNeed
    have hfb : fbLoop (pos == 0) (pre ++ y) .top 0 bom =
        ((fbLoop false y .top 0 bom_s).1, shiftScan pre.length (fbLoop false y .top 0 bom_s).2) := by
      rw [hs.fbLoop]
      have := fbLoop_shift (pos == 0) pre.length hk y.length y .top 0 bom_s (Nat.le_refl _)
      simpa [shiftMode] using this
    rw [hfb]
    have hnb : (fbLoop false y .top 0 bom_s).2 ≠ .bomFill := by
      obtain ⟨p2, t2, b2, rfl, hs2, ht2⟩ := decompose false y.length y 0 bom_s (Nat.le_refl _)
      rw [hs2.fbLoop]
      simp only [Nat.zero_add] at ht2 ⊢
      rcases fbLoop_tail ht2 with ⟨_, h1⟩ | ⟨a, _, h1⟩ | ⟨c, r, bomR, rfl, _, _, h1⟩ | ⟨r, _, _, hbc, _⟩
      · rw [h1]; simp
      · rw [h1]; simp
      · have := h1 []; simp only [List.append_nil] at this; rw [this]; exact tokenAt_not_bomFill _ _ _
      · exact absurd hbc.2.2.2 (by simp)
    generalize fbLoop false y .top 0 bom_s = res at hnb
    obtain ⟨b, sc⟩ := res
    cases sc with
    | tok adv t => simp [shiftScan, carryNeed]
    | bomFill => exact absurd rfl hnb
    | refill st carry off => simp [shiftScan, carryNeed]

/-- some window the reader may still come to hold — the present one extended by undelivered bytes — asks for a refill that
does not fit the buffer -/
def Unfit (r : Reader) (pos : Nat) (bom : Bom) : Prop :=
  ∃ x y, r.src.rest = x ++ y ∧ r.cap < scanNeed (pos == 0) bom (r.win ++ x)

/-- the induction hypothesis of `run_fallback_full` -/
def IHypF (n : Nat) : Prop :=
  ∀ (r' : Reader) (pos' : Nat) (bom' : Bom) (d' : Bytes) (fuel' : Nat),
    r'.src.rest.length < n → Rel r' pos' bom' d' → NoFaults r'.src.sched → InBuffer r' → r'.cap ≠ 0 →
    Unfit r' pos' bom' → 2 * r'.src.rest.length + 4 ≤ fuel' →
    ∃ r'', run fuel' .fallback r' = .err r'' .full

theorem core_rescan_full {r : Reader} {pos : Nat} {bom bom_s : Bom} {d pre tail : Bytes} {off f : Nat}
    (IH : IHypF r.src.rest.length)
    (hrel : Rel r pos bom d) (hnf : NoFaults r.src.sched) (hin : InBuffer r) (hc : r.cap ≠ 0)
    (hwin : r.win = pre ++ tail) (hs : Skips (pos == 0) pre 0 bom bom_s)
    (hscan : fbLoop (pos == 0) (pre ++ tail) .top 0 bom = (bom_s, .refill .none tail.length off))
    (hU : Unfit r pos bom)
    (hfuel : 2 * r.src.rest.length + 4 ≤ f + 2) :
    ∃ r', run (f + 2) .fallback r = .err r' .full := by
  have hd : d = pre ++ (tail ++ r.src.rest) := by rw [← hrel.data, hwin]; simp
  have hrelb : Rel { r with bom := bom_s } pos bom_s d := hrel.setBom bom_s
  obtain ⟨r0, hadv, hrel0, hwin0, hsrc0, hcap0⟩ := hrelb.advance pre.length (by simp [hwin])
  have hsrc0 : r0.src = r.src := hsrc0
  have hcap0 : r0.cap = r.cap := hcap0
  have hscan' : fbLoop (pos == 0) r.win .top 0 bom = (bom_s, .refill .none tail.length off) := by rw [hwin]; exact hscan
  have hwin0' : r0.win = tail := by rw [hwin0]; simp [hwin]
  have e : ({ r with bom := bom_s } : Reader).win.length - tail.length = pre.length := by simp [hwin]
  have hgt : ¬ tail.length > ({ r with bom := bom_s } : Reader).win.length := by simp [hwin]
  have hdd : d.drop pre.length = tail ++ r.src.rest := by rw [hd]; simp
  rw [hdd] at hrel0
  have hin0 : InBuffer r0 := InBuffer_closed.adv (InBuffer_closed.bom bom_s hin) hadv
  have hrun : run (f + 2) .fallback r = run (f + 1) (.refill .none tail.length off) { r with bom := bom_s } := by
    rw [run_fallback_unfold, hrel.pos, hrel.bom, hscan']
  rw [hrun]
  by_cases hfull : r.cap ≤ tail.length
  · exact ⟨r0, refill_full (by rw [e]; exact hadv) hgt (by rw [hcap0]; exact hc) (by rw [hcap0, hwin0']; exact hfull)⟩
  obtain ⟨x, y, hxy, hbig⟩ := hU
  rw [hwin, List.append_assoc, scanNeed_skip hs] at hbig
  have hle := scanNeed_le (pos + pre.length == 0) bom_s (tail ++ x)
  simp only [List.length_append] at hle
  have hxne : x ≠ [] := by intro h; subst h; simp at hle hbig; omega
  have hne : r0.src.rest ≠ [] := by
    rw [hsrc0, hxy]; intro h; exact hxne (List.append_eq_nil_iff.mp h).1
  obtain ⟨r1, k, hfill, hrel1, hk, hwin1, hrest1, hcap1, hnf1, hin1, hroom⟩ :=
    hrel0.fill_nf (by rw [hsrc0]; exact hnf) hin0 (by rw [hcap0]; exact hc) (by rw [hcap0, hwin0']; omega) hne
  rw [hsrc0] at hk hwin1 hrest1
  rw [hwin0'] at hwin1 hroom
  rw [hcap0] at hroom
  have hkx : k + 1 ≤ x.length := by omega
  have hnew : r.src.rest.take (k + 1) = x.take (k + 1) := by
    rw [hxy, List.take_append_of_le_length hkx]
  rw [hnew] at hwin1
  have hrest1' : r1.src.rest = x.drop (k + 1) ++ y := by
    rw [hrest1, hxy, List.drop_append_of_le_length hkx]
  have hstep : run (f + 1) (.refill .none tail.length off) { r with bom := bom_s } = run f .fallback r1 := by
    rw [run]
    simp only [e, hadv, hgt, if_false, hfill]
  rw [hstep]
  have hl1 : r1.src.rest.length + (k + 1) = r.src.rest.length := by rw [hrest1]; simp; omega
  refine IH r1 (pos + pre.length) bom_s (tail ++ r.src.rest) f (by omega) hrel1 hnf1 hin1 (by rw [hcap1, hcap0]; exact hc)
    ⟨x.drop (k + 1), y, hrest1', ?_⟩ (by omega)
  rw [hcap1, hcap0, hwin1, List.append_assoc, List.take_append_drop]
  exact hbig

theorem core_token_full {r : Reader} {pos : Nat} {bom bom_s bomR : Bom} {d pre tl : Bytes} {c : UInt8} {f : Nat}
    (IH : IHypF r.src.rest.length)
    (hrel : Rel r pos bom d) (hnf : NoFaults r.src.sched) (hin : InBuffer r) (hc : r.cap ≠ 0)
    (hwin : r.win = pre ++ c :: tl) (hs : Skips (pos == 0) pre 0 bom bom_s)
    (h35 : (c == 35) = false) (hbomR : (c == 0xef) = false → bomR = bom_s)
    (hscan : ∀ x, fbLoop (pos == 0) (pre ++ (c :: tl ++ x)) .top 0 bom = (bomR, tokenAt c (tl ++ x) pre.length))
    (hU : Unfit r pos bom)
    (hfuel : 2 * r.src.rest.length + 4 ≤ f + 2) :
    ∃ r', run (f + 2) .fallback r = .err r' .full := by
  have hscanW : fbLoop (pos == 0) r.win .top 0 bom = (bomR, tokenAt c tl pre.length) := by
    have := hscan []; simp only [List.append_nil] at this; rw [hwin]; exact this
  obtain ⟨x, y, hxy, hbig⟩ := hU
  have hwx : r.win ++ x = pre ++ (c :: tl ++ x) := by rw [hwin]; simp
  cases htok : tokenAt c tl pre.length with
  | bomFill => exact absurd htok (tokenAt_not_bomFill _ _ _)
  | tok adv t =>
    rw [htok] at hscanW
    rw [scanNeed_tok x hscanW] at hbig
    omega
  | refill st carry off =>
    rcases tokenAt_refill htok with ⟨rfl, hcar, hef⟩ | ⟨rfl, rfl, hq⟩ | ⟨rfl, hf, hcar, ho, hunq⟩
    · -- re-scan
      have hb := hbomR hef; subst hb
      subst hcar
      have : tl.length + 1 = (c :: tl).length := by simp
      rw [this] at htok
      refine core_rescan_full (off := off) IH hrel hnf hin hc hwin hs ?_ ⟨x, y, hxy, hbig⟩ hfuel
      have := hscan []; simp only [List.append_nil] at this
      rw [this, htok]
    · -- quoted
      have hb := hbomR (by decide); subst hb
      obtain ⟨_, hcar, _, hoc, hres⟩ := quoteScan_more hq
      simp only [Nat.zero_add] at hcar
      subst hcar
      simp only [Nat.sub_zero] at hres
      have hwin' : ({ r with bom := bomR } : Reader).win = (pre ++ [34]) ++ tl := by simp [hwin]
      have hrun : run (f + 2) .fallback r = run (f + 1) (.refill .quote tl.length off) { r with bom := bomR } := by
        rw [run_fallback_unfold, hrel.pos, hrel.bom, hscanW, htok]
      rw [hrun]
      -- the scan of the longer window is still inside the quoted scalar
      unfold scanNeed at hbig
      rw [hwx, hscan x, tokenAt_quote] at hbig
      unfold quoteTok at hbig
      cases hqs : quoteScan (tl ++ x) 0 with
      | closed m => rw [hqs] at hbig; simp [carryNeed] at hbig
      | more c' o' =>
        rw [hqs] at hbig
        obtain ⟨hnone, hc', _⟩ := quoteScan_more hqs
        simp only [Nat.zero_add] at hc'
        simp only [carryNeed] at hbig
        exact run_quote_full r.src.rest.length { r with bom := bomR } pos bomR d (pre ++ [34]) tl x y off (f + 1)
          (Nat.le_refl _) (hrel.setBom bomR) hnf (InBuffer_closed.bom bomR hin) hc hwin' hoc hres hxy hnone
          (by show r.cap ≤ _; omega) (by simp; omega)
    · -- unquoted
      subst hcar ho
      have hrun : run (f + 2) .fallback r =
          run (f + 1) (.refill .unquoted (tl.length + 1) (tl.length + 1)) { r with bom := bomR } := by
        rw [run_fallback_unfold, hrel.pos, hrel.bom, hscanW, htok]
      rw [hrun]
      unfold scanNeed at hbig
      rw [hwx, hscan x, hunq x] at hbig
      unfold unqTok at hbig
      cases hfs : findIdx isBoundary (tl ++ x) 0 with
      | some k => rw [hfs] at hbig; simp [carryNeed] at hbig
      | none =>
        rw [hfs] at hbig
        simp only [carryNeed] at hbig
        exact run_unq_full r.src.rest.length { r with bom := bomR } pos bomR d pre c tl x y (f + 1)
          (Nat.le_refl _) (hrel.setBom bomR) hnf (InBuffer_closed.bom bomR hin) hc (by simp [hwin]) hxy hfs
          (by show r.cap ≤ _; omega) (by simp; omega)

/-- **one call of `next_opt_fallback` with a buffer that is too small**: if some window the reader may come to hold asks
for a refill that does not fit, the call ends in `BufferFull` — under every fault-free schedule. -/
theorem run_fallback_full : ∀ (n : Nat) (r : Reader) (pos : Nat) (bom : Bom) (d : Bytes) (fuel : Nat),
    r.src.rest.length = n → Rel r pos bom d → NoFaults r.src.sched → InBuffer r → r.cap ≠ 0 →
    Unfit r pos bom → 2 * r.src.rest.length + 4 ≤ fuel →
    ∃ r', run fuel .fallback r = .err r' .full := by
  intro n
  induction n using Nat.strongRecOn with
  | _ n ih =>
    intro r pos bom d fuel hn hrel hnf hin hc hU hfuel
    have IH : IHypF r.src.rest.length := by
      intro r' pos' bom' d' fuel' hlt hrel' hnf' hin' hc' hU' hf'
      exact ih _ (by omega) r' pos' bom' d' fuel' rfl hrel' hnf' hin' hc' hU' hf'
    obtain ⟨f, rfl⟩ : ∃ f, fuel = f + 2 := ⟨fuel - 2, by omega⟩
    obtain ⟨pre, tail, bom_s, hw, hs, ht⟩ := decompose (pos == 0) r.win.length r.win 0 bom (Nat.le_refl _)
    simp only [Nat.zero_add] at ht
    rcases fbLoop_tail ht with ⟨rfl, h1⟩ | ⟨a, rfl, h1⟩ | ⟨c, tl, bomR, rfl, h35, hb, h1⟩ | ⟨tl, rfl, hlt, hbc, h1⟩
    · refine core_rescan_full (off := 0) IH hrel hnf hin hc hw hs ?_ hU hfuel
      rw [hs.fbLoop]; simpa using h1
    · refine core_rescan_full (off := 0) IH hrel hnf hin hc hw hs ?_ hU hfuel
      rw [hs.fbLoop]; simpa using h1
    · refine core_token_full IH hrel hnf hin hc hw hs h35 hb ?_ hU hfuel
      intro x
      rw [hs.fbLoop]; simpa using h1 x
    · -- the BOM arm asks for more bytes
      obtain ⟨_, hbu, hj, hp⟩ := hbc
      have hpre : pre = [] := List.eq_nil_of_length_eq_zero hj
      subst hpre
      have hbs := hs.nil_eq
      subst hbs hbu
      simp only [List.nil_append] at hw
      have hscanW : fbLoop (pos == 0) r.win .top 0 .unknown = (.unknown, .bomFill) := by rw [hw]; exact h1
      have heta : ({ r with bom := Bom.unknown } : Reader) = r := by
        have hb := hrel.bom
        cases r with
        | mk cap win consumed prior src bom => simp only at hb; subst hb; rfl
      have hstep : run (f + 2) .fallback r =
          match fillBuf r with
          | (r', .ok 0) => run (f + 1) .fallback { r' with bom := .notPresent }
          | (r', .ok _) => run (f + 1) .fallback r'
          | (r', .full) => .err r' .full
          | (r', .io) => .err r' .io := by
        rw [run_fallback_unfold, hrel.pos, hrel.bom, hscanW]
        simp only [heta]
        rfl
      rw [hstep]
      by_cases hfull : r.cap ≤ r.win.length
      · have : fillBuf r = (r, .full) := by simp [fillBuf, hc]; omega
        rw [this]; exact ⟨r, rfl⟩
      obtain ⟨x, y, hxy, hbig⟩ := hU
      have hle := scanNeed_le (pos == 0) .unknown (r.win ++ x)
      simp only [List.length_append] at hle
      have hxne : x ≠ [] := by
        intro h; subst h
        have : scanNeed (pos == 0) .unknown (r.win ++ []) = r.win.length + 1 := by
          unfold scanNeed; simp only [List.append_nil]; rw [hscanW]; rfl
        omega
      have hne : r.src.rest ≠ [] := by
        rw [hxy]; intro h; exact hxne (List.append_eq_nil_iff.mp h).1
      obtain ⟨r1, k, hfill, hrel1, hk, hwin1, hrest1, hcap1, hnf1, hin1, hroom⟩ :=
        hrel.fill_nf hnf hin hc (by omega) hne
      rw [hfill]
      simp only
      have hkx : k + 1 ≤ x.length := by omega
      have hnew : r.src.rest.take (k + 1) = x.take (k + 1) := by
        rw [hxy, List.take_append_of_le_length hkx]
      rw [hnew] at hwin1
      have hrest1' : r1.src.rest = x.drop (k + 1) ++ y := by
        rw [hrest1, hxy, List.drop_append_of_le_length hkx]
      have hl1 : r1.src.rest.length + (k + 1) = r.src.rest.length := by rw [hrest1]; simp; omega
      refine IH r1 pos .unknown d (f + 1) (by omega) hrel1 hnf1 hin1 (by rw [hcap1]; exact hc)
        ⟨x.drop (k + 1), y, hrest1', ?_⟩ (by omega)
      rw [hcap1, hwin1, List.append_assoc, List.take_append_drop]
      exact hbig

/-! ### from `callNeed` to a window that does not fit -/

theorem maxOver_exists (f : Nat → Nat) : ∀ n, ∃ j, j ≤ n ∧ maxOver n f = f j := by
  intro n
  induction n with
  | zero => exact ⟨0, Nat.le_refl _, rfl⟩
  | succ n ih =>
    obtain ⟨j, hj, he⟩ := ih
    simp only [maxOver]
    by_cases h : maxOver n f ≤ f (n + 1)
    · exact ⟨n + 1, Nat.le_refl _, Nat.max_eq_left h⟩
    · exact ⟨j, by omega, by rw [Nat.max_eq_right (by omega)]; exact he⟩

/-- away from offset 0 the scan does not depend on the BOM state -/
theorem fbLoop_off_scan (pos0 : Bool) (n : Nat) : ∀ (w : Bytes) (m : Mode) (i : Nat) (b1 b2 : Bom), w.length ≤ n → 0 < i →
    (fbLoop pos0 w m i b1).2 = (fbLoop pos0 w m i b2).2 := by
  induction n with
  | zero =>
    intro w m i b1 b2 hl _
    have : w = [] := List.eq_nil_of_length_eq_zero (by omega)
    subst this; cases m <;> simp [fbLoop]
  | succ n ih =>
    intro w m i b1 b2 hl hi
    cases w with
    | nil => cases m <;> simp [fbLoop]
    | cons c rest =>
      have hr : rest.length ≤ n := by simp at hl; omega
      cases m with
      | comment s =>
        simp only [fbLoop_comment_cons]
        split <;> exact ih rest _ _ _ _ hr (by omega)
      | top =>
        simp only [fbLoop_top_cons]
        split; · exact ih rest _ _ _ _ hr (by omega)
        split; · exact ih rest _ _ _ _ hr (by omega)
        have hi' : (i != 0) = true := by simp; omega
        simp only [hi', Bool.true_or, if_true]
        split <;> split <;> rfl

/-- with fewer than three bytes in the window, ruling the BOM out does not ask for more than the BOM arm does -/
theorem scanNeed_notPresent_le (pos0 : Bool) (bom : Bom) (w : Bytes) (h : w.length < 3) :
    scanNeed pos0 .notPresent w ≤ scanNeed pos0 bom w := by
  unfold scanNeed
  cases w with
  | nil => simp [fbLoop, carryNeed]
  | cons c r =>
    have hsame : ∀ (s1 s2 : Bom × Scan), s1.2 = s2.2 → carryNeed (c :: r) s1 ≤ carryNeed (c :: r) s2 := by
      intro s1 s2 he
      obtain ⟨b1, sc1⟩ := s1; obtain ⟨b2, sc2⟩ := s2
      simp only at he; subst he
      cases sc1 <;> simp [carryNeed]
    rw [fbLoop_top_cons, fbLoop_top_cons]
    split; · exact hsame _ _ (fbLoop_off_scan pos0 r.length r _ _ _ _ (Nat.le_refl _) (by omega))
    split; · exact hsame _ _ (fbLoop_off_scan pos0 r.length r _ _ _ _ (Nat.le_refl _) (by omega))
    have hnp : (c == 0xef && Bom.notPresent == Bom.unknown) = false := by simp
    simp only [hnp, Bool.false_eq_true, if_false]
    split
    · split
      · exact hsame _ _ rfl
      · rcases r with _ | ⟨d, _ | ⟨e, r'⟩⟩
        · simp only
          cases ht : tokenAt c [] 0 with
          | tok _ _ => simp [carryNeed]
          | bomFill => exact absurd ht (tokenAt_not_bomFill _ _ _)
          | refill st carry off => have := tokenAt_carry_le ht; simp [carryNeed] at this ⊢; omega
        · simp only
          cases ht : tokenAt c [d] 0 with
          | tok _ _ => simp [carryNeed]
          | bomFill => exact absurd ht (tokenAt_not_bomFill _ _ _)
          | refill st carry off => have := tokenAt_carry_le ht; simp [carryNeed] at this ⊢; omega
        · simp at h; omega
    · exact hsame _ _ rfl

/-- the buffer is smaller than what one call needs: some prefix of the remaining input asks for a refill that does not fit -/
theorem callNeed_gt {pos0 : Bool} {bom : Bom} {d : Bytes} {cap : Nat} (h : cap < callNeed pos0 bom d) :
    ∃ j, j ≤ d.length ∧ cap < scanNeed pos0 bom (d.take j) := by
  unfold callNeed at h
  obtain ⟨j, hj, he⟩ := maxOver_exists (fun j =>
    max (carryNeed (d.take j) (fbLoop pos0 (d.take j) .top 0 bom))
        (if d.length < 3 then carryNeed (d.take j) (fbLoop pos0 (d.take j) .top 0 .notPresent) else 0)) d.length
  rw [he] at h
  refine ⟨j, hj, ?_⟩
  by_cases h3 : d.length < 3
  · simp only [h3, if_true] at h
    have := scanNeed_notPresent_le pos0 bom (d.take j) (by simp; omega)
    unfold scanNeed at this ⊢
    omega
  · simp only [h3, if_false] at h
    unfold scanNeed; omega

/-! ### one `next_opt` call, and the whole run -/

theorem nextOpt_full_rel (r : Reader) (pos : Nat) (bom : Bom) (d : Bytes) (fuel : Nat)
    (hrel : Rel r pos bom d) (hnf : NoFaults r.src.sched) (hin : InBuffer r) (hc : r.cap ≠ 0)
    (hbig : ∃ j, j ≤ d.length ∧ r.cap < scanNeed (pos == 0) bom (d.take j))
    (hfuel : 2 * r.src.rest.length + 4 ≤ fuel) : ∃ r', nextOpt fuel r = .err r' .full := by
  obtain ⟨j, hj, hbig⟩ := hbig
  have hd : d = r.win ++ r.src.rest := hrel.data.symm
  have hU : Unfit r pos bom := by
    by_cases hlt : j < r.win.length
    · exfalso
      have := scanNeed_le (pos == 0) bom (d.take j)
      simp only [List.length_take] at this
      unfold InBuffer at hin
      omega
    · refine ⟨r.src.rest.take (j - r.win.length), r.src.rest.drop (j - r.win.length), by simp, ?_⟩
      have : d.take j = r.win ++ r.src.rest.take (j - r.win.length) := by
        rw [hd, List.take_append, List.take_of_length_le (by omega)]
      rw [← this]; exact hbig
  rcases nextOpt_vs_scan fuel r with h | ⟨adv, t, r', hscan, _, _⟩
  · rw [h]; exact run_fallback_full _ r pos bom d fuel rfl hrel hnf hin hc hU hfuel
  · exfalso
    rw [hrel.pos, hrel.bom] at hscan
    obtain ⟨x, y, _, hb⟩ := hU
    rw [scanNeed_tok x hscan] at hb
    omega

theorem nextOpt_full (r : Reader) (pos : Nat) (bom : Bom) (d : Bytes) (fuel : Nat)
    (hrel : RelQ r pos bom d) (hnf : NoFaults r.src.sched) (hin : InBuffer r) (hc : r.cap ≠ 0)
    (hbig : r.cap < callNeed (pos == 0) bom d)
    (hfuel : 2 * d.length + 4 ≤ fuel) : ∃ r', nextOpt fuel r = .err r' .full := by
  obtain ⟨j, hj, hb⟩ := callNeed_gt hbig
  rcases hrel with h | ⟨tl, rfl, h⟩
  · exact nextOpt_full_rel r pos bom d fuel h hnf hin hc ⟨j, hj, hb⟩ (by have := h.rest_le; omega)
  · refine nextOpt_full_rel r (pos + 1) bom tl fuel h hnf hin hc ?_ (by have := h.rest_le; simp at hfuel; omega)
    cases j with
    | zero =>
      exfalso
      simp [scanNeed, fbLoop, carryNeed] at hb
      omega
    | succ j' =>
      have hs : Skips (pos == 0) [32] 0 bom bom := .blank (by decide) (.nil _ _)
      have := scanNeed_skip hs (tl.take j')
      simp only [List.singleton_append, List.length_singleton] at this
      simp only [List.take_succ_cons] at hb
      rw [this] at hb
      exact ⟨j', by simp at hj; omega, hb⟩

/-- **`cap < need` ends in `BufferFull`**: the run of `next` calls under a fault-free schedule, with a buffer smaller than
what the remaining input needs. -/
theorem lexAll_full (n : Nat) : ∀ (r : Reader) (pos : Nat) (bom : Bom) (d : Bytes) (f : Nat) (acc : List Token),
    RelQ r pos bom d → NoFaults r.src.sched → InBuffer r → r.cap ≠ 0 → r.cap < needFrom n pos bom d →
    2 * d.length + 4 ≤ f → (lexAll f n r acc).out = .err .full := by
  induction n with
  | zero => intro r pos bom d f acc _ _ _ _ h _; simp [needFrom] at h
  | succ n ih =>
    intro r pos bom d f acc hrel hnf hin hc hbig hf
    by_cases hcall : r.cap < callNeed (pos == 0) bom d
    · obtain ⟨r', h⟩ := nextOpt_full r pos bom d f hrel hnf hin hc hcall hf
      simp [lexAll, next, h]
    have hnfR := nextOpt_inv NoFaults_closed f r hnf
    have hinR := nextOpt_inv InBuffer_closed f r hin
    have o := nextOpt_specQ r pos bom d f hrel hf
    rcases o with ⟨_, r', ⟨hfull, _⟩ | hio⟩ | o
    · simp [lexAll, next, hfull]
    · rw [hio] at hnfR; exact absurd rfl hnfR.2.2
    · unfold OutQOk at o
      cases hs : specStep (pos == 0) bom d with
      | none => simp only [needFrom, hs] at hbig; omega
      | some st =>
        rw [hs] at o
        cases st with
        | tok adv t b' =>
          simp only [needFrom, hs] at hbig
          obtain ⟨r', hres, hrel', hle, hcap'⟩ := o
          rw [hres] at hnfR hinR
          have := ih r' (pos + adv) b' (d.drop adv) f (t :: acc) hrel' hnfR hinR (by rw [hcap']; exact hc)
            (by rw [hcap']; omega) (by simp; omega)
          simpa [lexAll, next, hres] using this
        | end_ b' => simp only [needFrom, hs] at hbig; omega
        | eof a b' => simp only [needFrom, hs] at hbig; omega

/-! ### `needFrom`: independence of the BOM state away from position 0, monotonicity, a bound -/

theorem carryNeed_scan (w : Bytes) (s1 s2 : Bom × Scan) (h : s1.2 = s2.2) : carryNeed w s1 = carryNeed w s2 := by
  obtain ⟨b1, sc1⟩ := s1; obtain ⟨b2, sc2⟩ := s2
  simp only at h; subst h
  cases sc1 <;> simp [carryNeed]

theorem callNeed_false_bom (b1 b2 : Bom) (d : Bytes) : callNeed false b1 d = callNeed false b2 d := by
  unfold callNeed
  congr 1
  funext j
  rw [carryNeed_scan (d.take j) (fbLoop false (d.take j) .top 0 b1) (fbLoop false (d.take j) .top 0 b2)
    (fbLoop_false_scan _ _ _ _ _ _ (Nat.le_refl _))]

theorem specStep_false_tok {b1 b' : Bom} (b2 : Bom) {d : Bytes} {adv : Nat} {t : Token}
    (h : specStep false b1 d = some (.tok adv t b')) : ∃ b'', specStep false b2 d = some (.tok adv t b'') := by
  have hsc := fbLoop_false_scan d.length d .top 0 b1 b2 (Nat.le_refl _)
  unfold specStep at h ⊢
  generalize fbLoop false d .top 0 b1 = r1 at h hsc
  generalize fbLoop false d .top 0 b2 = r2 at hsc
  obtain ⟨x1, sc1⟩ := r1; obtain ⟨x2, sc2⟩ := r2
  simp only at hsc; subst hsc
  cases sc1 with
  | bomFill => exact ⟨b', h⟩
  | tok a t' =>
    simp only [interp, Option.some.injEq, Step1.tok.injEq] at h ⊢
    exact ⟨x2, h.1, h.2.1, rfl⟩
  | refill st carry off =>
    cases st with
    | none =>
      simp only [interp] at h
      split at h
      · simp at h
      · split at h
        · simp at h
        · split at h <;> simp at h
    | quote => simp [interp] at h
    | unquoted =>
      simp only [interp, Option.some.injEq, Step1.tok.injEq] at h ⊢
      exact ⟨x2, h.1, h.2.1, rfl⟩

theorem needFrom_bom (n : Nat) : ∀ (pos : Nat) (b1 b2 : Bom) (d : Bytes), pos ≠ 0 →
    needFrom n pos b1 d = needFrom n pos b2 d := by
  induction n with
  | zero => intro pos b1 b2 d _; rfl
  | succ n ih =>
    intro pos b1 b2 d hpos
    have hp : (pos == 0) = false := by simpa using hpos
    simp only [needFrom, hp]
    rw [callNeed_false_bom b1 b2 d]
    congr 1
    cases h1 : specStep false b1 d with
    | none =>
      cases h2 : specStep false b2 d with
      | none => rfl
      | some st2 =>
        cases st2 with
        | tok adv t b'' => obtain ⟨_, h⟩ := specStep_false_tok b1 h2; rw [h1] at h; simp at h
        | end_ _ => rfl
        | eof _ _ => rfl
    | some st1 =>
      cases st1 with
      | tok adv t b' =>
        obtain ⟨b'', h2⟩ := specStep_false_tok b2 h1
        rw [h2]
        exact ih (pos + adv) b' b'' (d.drop adv) (by omega)
      | end_ _ =>
        cases h2 : specStep false b2 d with
        | none => rfl
        | some st2 =>
          cases st2 with
          | tok adv t b'' => obtain ⟨_, h⟩ := specStep_false_tok b1 h2; rw [h1] at h; simp at h
          | end_ _ => rfl
          | eof _ _ => rfl
      | eof _ _ =>
        cases h2 : specStep false b2 d with
        | none => rfl
        | some st2 =>
          cases st2 with
          | tok adv t b'' => obtain ⟨_, h⟩ := specStep_false_tok b1 h2; rw [h1] at h; simp at h
          | end_ _ => rfl
          | eof _ _ => rfl

theorem needFrom_mono : ∀ (n n' : Nat) (pos : Nat) (bom : Bom) (d : Bytes), n ≤ n' →
    needFrom n pos bom d ≤ needFrom n' pos bom d := by
  intro n
  induction n with
  | zero => intro n' pos bom d _; simp [needFrom]
  | succ n ih =>
    intro n' pos bom d h
    obtain ⟨m, rfl⟩ : ∃ m, n' = m + 1 := ⟨n' - 1, by omega⟩
    simp only [needFrom]
    cases hs : specStep (pos == 0) bom d with
    | none => simp
    | some st =>
      cases st with
      | tok adv t b' =>
        simp only
        have := ih m (pos + adv) b' (d.drop adv) (by omega)
        omega
      | end_ _ => simp
      | eof _ _ => simp

theorem maxOver_le (f : Nat → Nat) (B : Nat) : ∀ n, (∀ j, j ≤ n → f j ≤ B) → maxOver n f ≤ B := by
  intro n
  induction n with
  | zero => intro h; exact h 0 (Nat.le_refl _)
  | succ n ih =>
    intro h
    simp only [maxOver]
    exact Nat.max_le.mpr ⟨h _ (Nat.le_refl _), ih (fun j hj => h j (by omega))⟩

theorem callNeed_le (pos0 : Bool) (bom : Bom) (d : Bytes) : callNeed pos0 bom d ≤ d.length + 1 := by
  unfold callNeed
  apply maxOver_le
  intro j hj
  have h1 := scanNeed_le pos0 bom (d.take j)
  have h2 := scanNeed_le pos0 .notPresent (d.take j)
  unfold scanNeed at h1 h2
  simp only [List.length_take] at h1 h2
  split <;> omega

theorem needFrom_le (n : Nat) : ∀ (pos : Nat) (bom : Bom) (d : Bytes), needFrom n pos bom d ≤ d.length + 1 := by
  induction n with
  | zero => intro pos bom d; simp [needFrom]
  | succ n ih =>
    intro pos bom d
    simp only [needFrom]
    have h1 := callNeed_le (pos == 0) bom d
    cases hs : specStep (pos == 0) bom d with
    | none => simp; omega
    | some st =>
      cases st with
      | tok adv t b' =>
        simp only
        have := ih (pos + adv) b' (d.drop adv)
        simp only [List.length_drop] at this
        omega
      | end_ _ => simp; omega
      | eof _ _ => simp; omega

end Jomini.TextReader
