import JominiModel.Spec.TextDoc
import JominiModel.Proofs.TextDe
/-
C02, tape path, flat fragment: a document whose field values are all scalars, deserialized into a
struct whose declared fields have scalar types (typed leaves, strings, enums, `ign`, under `Option`
/ `Property`): `deTape enc ty (tapeOf d) = valueOf enc ty d`.
-/
namespace Jomini.TextDe
open Jomini Jomini.TextDoc

/-- tape tokens of an operator: `=` is not stored -/
def opToks (o : Op) : List TTok := match o with | .eq => [] | o => [TTok.op o]

theorem opToks_len (o : Op) : (opToks o).length ≤ 1 := by cases o <;> simp [opToks]

theorem tapeFields_leaf (base : Nat) (k : Bytes) (o : Op) (l : Leaf) (r : List (Bytes × Op × Node)) :
    tapeFields base ((k, o, .leaf l) :: r) =
      TTok.unq k :: (opToks o ++ (l.ttok :: tapeFields (base + 1 + (opToks o).length + 1) r)) := by
  cases o <;> simp [tapeFields, tapeNode, opToks]

theorem getElem?_pre {α} (pre xs : List α) (j : Nat) : (pre ++ xs)[pre.length + j]? = xs[j]? := by
  simp [List.getElem?_append_right]

theorem wrapDepth_le_height : ∀ (t : Ty), Ty.wrapDepth t ≤ t.height
  | .opt t => by have := wrapDepth_le_height t; simp [Ty.wrapDepth, Ty.height]; omega
  | .prop t => by have := wrapDepth_le_height t; simp [Ty.wrapDepth, Ty.height]; omega
  | .bool | .i64 | .u64 | .i32 | .u32 | .i16 | .u16 | .i8 | .u8 | .f64 | .f32 | .str | .any | .ign | .seq _ | .map _ | .st _ | .en _ => by
      simp [Ty.wrapDepth]

theorem valueOfN_leaf_scalar (enc : Enc) : ∀ (t : Ty), Ty.isScalarTy t = true → ∀ (f : Nat), Ty.wrapDepth t < f →
    ∀ (o : Op) (l : Leaf), valueOfN enc f t o (.leaf l) = valueOfScalar enc t l.bytes
  | .opt t, h, f + 1, hf, o, l => by
      have ih := valueOfN_leaf_scalar enc t (by simpa [Ty.isScalarTy] using h) f (by simp [Ty.wrapDepth] at hf; omega) o l
      simp [valueOfN, ih, valueOfScalar]
  | .bool, _, f + 1, _, o, l => by simp [valueOfN]
  | .i64, _, f + 1, _, o, l => by simp [valueOfN]
  | .u64, _, f + 1, _, o, l => by simp [valueOfN]
  | .i32, _, f + 1, _, o, l => by simp [valueOfN]
  | .i16, _, f + 1, _, o, l => by simp [valueOfN]
  | .u16, _, f + 1, _, o, l => by simp [valueOfN]
  | .i8, _, f + 1, _, o, l => by simp [valueOfN]
  | .u8, _, f + 1, _, o, l => by simp [valueOfN]
  | .u32, _, f + 1, _, o, l => by simp [valueOfN]
  | .f64, _, f + 1, _, o, l => by simp [valueOfN]
  | .f32, _, f + 1, _, o, l => by simp [valueOfN]
  | .str, _, f + 1, _, o, l => by simp [valueOfN]
  | .any, _, f + 1, _, o, l => by simp [valueOfN, anyVal, valueOfScalar]
  | .ign, _, f + 1, _, o, l => by simp [valueOfN, valueOfScalar]
  | .en vs, _, f + 1, _, o, l => by simp [valueOfN]

theorem valueOfN_leaf_field (enc : Enc) : ∀ (t : Ty), Ty.isFieldScalarTy t = true → ∀ (f : Nat), Ty.wrapDepth t < f →
    ∀ (o : Op) (l : Leaf), valueOfN enc f t o (.leaf l) = valueOfField enc t o l.bytes
  | .prop t, h, f + 1, hf, o, l => by
      have ih := valueOfN_leaf_scalar enc t (by simpa [Ty.isFieldScalarTy] using h) f (by simp [Ty.wrapDepth] at hf; omega) .eq l
      simp [valueOfN, ih, valueOfField]
  | .opt t, h, f + 1, hf, o, l => by
      have ih := valueOfN_leaf_field enc t (by simpa [Ty.isFieldScalarTy] using h) f (by simp [Ty.wrapDepth] at hf; omega) o l
      simp [valueOfN, ih, valueOfField]
  | .bool, h, f, hf, o, l => by simpa [valueOfField] using valueOfN_leaf_scalar enc .bool rfl f hf o l
  | .i64, h, f, hf, o, l => by simpa [valueOfField] using valueOfN_leaf_scalar enc .i64 rfl f hf o l
  | .u64, h, f, hf, o, l => by simpa [valueOfField] using valueOfN_leaf_scalar enc .u64 rfl f hf o l
  | .i32, h, f, hf, o, l => by simpa [valueOfField] using valueOfN_leaf_scalar enc .i32 rfl f hf o l
  | .i16, h, f, hf, o, l => by simpa [valueOfField] using valueOfN_leaf_scalar enc .i16 rfl f hf o l
  | .u16, h, f, hf, o, l => by simpa [valueOfField] using valueOfN_leaf_scalar enc .u16 rfl f hf o l
  | .i8, h, f, hf, o, l => by simpa [valueOfField] using valueOfN_leaf_scalar enc .i8 rfl f hf o l
  | .u8, h, f, hf, o, l => by simpa [valueOfField] using valueOfN_leaf_scalar enc .u8 rfl f hf o l
  | .u32, h, f, hf, o, l => by simpa [valueOfField] using valueOfN_leaf_scalar enc .u32 rfl f hf o l
  | .f64, h, f, hf, o, l => by simpa [valueOfField] using valueOfN_leaf_scalar enc .f64 rfl f hf o l
  | .f32, h, f, hf, o, l => by simpa [valueOfField] using valueOfN_leaf_scalar enc .f32 rfl f hf o l
  | .str, h, f, hf, o, l => by simpa [valueOfField] using valueOfN_leaf_scalar enc .str rfl f hf o l
  | .any, h, f, hf, o, l => by simpa [valueOfField] using valueOfN_leaf_scalar enc .any rfl f hf o l
  | .ign, h, f, hf, o, l => by simpa [valueOfField] using valueOfN_leaf_scalar enc .ign rfl f hf o l
  | .en vs, h, f, hf, o, l => by simpa [valueOfField] using valueOfN_leaf_scalar enc (.en vs) rfl f hf o l

/-- the operator `FieldsIter::next` reports -/
def opOpt (o : Op) : Option Op := match o with | .eq => none | o => some o

theorem opOpt_getD (o : Op) : (opOpt o).getD .eq = o := by cases o <;> rfl

/-- `FieldsIter::next` on a scalar-valued field that starts at `pre.length` -/
theorem fieldsNext_leaf (pre post : List TTok) (k : Bytes) (o : Op) (l : Leaf) (e : Nat)
    (he : pre.length < e) :
    fieldsNext (pre ++ (TTok.unq k :: (opToks o ++ (l.ttok :: post)))) pre.length e =
        .ok (some (k, opOpt o, pre.length + 1 + (opToks o).length, pre.length + 1 + (opToks o).length + 1)) ∧
    (pre ++ (TTok.unq k :: (opToks o ++ (l.ttok :: post))))[pre.length + 1 + (opToks o).length]? = some l.ttok := by
  have hl : l.ttok = .unq l.bytes ∨ l.ttok = .quo l.bytes := by
    simp only [Leaf.ttok]; split <;> simp
  have hne : ¬ (pre.length ≥ e) := by omega
  by_cases ho : o = .eq
  · subst ho
    have e0 := getElem?_pre pre (TTok.unq k :: l.ttok :: post) 0
    have e1 := getElem?_pre pre (TTok.unq k :: l.ttok :: post) 1
    simp only [Nat.add_zero, List.getElem?_cons_zero, List.getElem?_cons_succ] at e0 e1
    rcases hl with hl | hl <;>
      simp [opToks, opOpt, fieldsNext, tokAt, nextIdx, hne, e0, e1, hl] <;> simp [← hl, e1]
  · have hot : opToks o = [TTok.op o] := by cases o <;> simp_all [opToks]
    have hoo : opOpt o = some o := by cases o <;> simp_all [opOpt]
    have e0 := getElem?_pre pre (TTok.unq k :: TTok.op o :: l.ttok :: post) 0
    have e1 := getElem?_pre pre (TTok.unq k :: TTok.op o :: l.ttok :: post) 1
    have e2 := getElem?_pre pre (TTok.unq k :: TTok.op o :: l.ttok :: post) 2
    simp only [Nat.add_zero, List.getElem?_cons_zero, List.getElem?_cons_succ] at e0 e1 e2
    rcases hl with hl | hl <;>
      simp [hot, hoo, fieldsNext, tokAt, nextIdx, hne, e0, e1, e2, hl, Nat.add_assoc] <;> simp [← hl, e2, Nat.add_assoc]

/-- every field value is a scalar -/
def FlatFields (d : List (Bytes × Op × Node)) : Prop := ∀ k o v, (k, o, v) ∈ d → ∃ l, v = Node.leaf l

theorem lookupIdx_mem (name : Bytes) : ∀ (fs : List (Bytes × Ty)) (j i : Nat) (t : Ty),
    lookupIdx name fs j = some (i, t) → ∃ n, (n, t) ∈ fs
  | [], j, i, t, h => by simp [lookupIdx] at h
  | (n, t0) :: r, j, i, t, h => by
      simp only [lookupIdx] at h
      split at h
      · simp only [Option.some.injEq, Prod.mk.injEq] at h
        exact ⟨n, by simp [h.2]⟩
      · obtain ⟨n', hm⟩ := lookupIdx_mem name r (j + 1) i t h
        exact ⟨n', List.mem_cons_of_mem _ hm⟩

theorem mem_height : ∀ (fs : List (Bytes × Ty)) (n : Bytes) (t : Ty), (n, t) ∈ fs → t.height ≤ Ty.heightFs fs
  | [], n, t, h => by simp at h
  | (n0, t0) :: r, n, t, h => by
      simp only [List.mem_cons, Prod.mk.injEq] at h
      rcases h with ⟨_, rfl⟩ | h
      · simp only [Ty.heightFs]; omega
      · have := mem_height r n t h
        simp only [Ty.heightFs]; omega

/-- the tape `MapAccess` with the struct visitor over a flat field list -/
theorem tMapFold_struct_flat (enc : Enc) (fs : List (Bytes × Ty)) (toks : List TTok) (f : Nat)
    (hty : ∀ n t, (n, t) ∈ fs → Ty.isFieldScalarTy t = true ∧ Ty.wrapDepth t < f) :
    ∀ (d : List (Bytes × Op × Node)) (pre : List TTok) (seen : List (Nat × Val)) (n : Nat),
    FlatFields d → toks = pre ++ tapeFields pre.length d → d.length < n →
    tMapFold toks (fun seen k vk => structEntry fs (k.decoded enc) (fun t => tde enc toks f t vk) seen)
        n pre.length toks.length false seen
      = structVals enc fs (valueOfN enc f) d seen
  | [], pre, seen, n + 1, _, htoks, _ => by
      have hlen : pre.length = toks.length := by rw [htoks]; simp [tapeFields]
      simp [tMapFold, fieldsNext, hlen, remainderOf, structVals]
  | (k, o, v) :: r, pre, seen, n + 1, hflat, htoks, hn => by
      obtain ⟨l, rfl⟩ := hflat k o v (List.mem_cons_self ..)
      rw [tapeFields_leaf] at htoks
      have he : pre.length < toks.length := by rw [htoks]; simp
      have hfn := fieldsNext_leaf pre (tapeFields (pre.length + 1 + (opToks o).length + 1) r) k o l toks.length he
      rw [← htoks] at hfn
      obtain ⟨hnext, hval⟩ := hfn
      have hq : toks[pre.length + 1 + (opToks o).length]? = some (.unq l.bytes) ∨
          toks[pre.length + 1 + (opToks o).length]? = some (.quo l.bytes) := by
        rw [hval]; simp only [Leaf.ttok]; split <;> simp
      have ih := fun seen' => tMapFold_struct_flat enc fs toks f hty r
        (pre ++ (TTok.unq k :: (opToks o ++ [l.ttok]))) seen' n
        (fun k' o' v' hm => hflat k' o' v' (List.mem_cons_of_mem _ hm))
        (by rw [htoks]; simp [Nat.add_assoc, Nat.add_comm, Nat.add_left_comm])
        (by simp at hn; omega)
      have hlen' : (pre ++ (TTok.unq k :: (opToks o ++ [l.ttok]))).length = pre.length + 1 + (opToks o).length + 1 := by
        simp; omega
      rw [hlen'] at ih
      rw [tMapFold]
      simp only [hnext, opOpt_getD, structVals]
      cases hl : lookupIdx (decode enc k) fs 0 with
      | none =>
        have hE : structEntry fs (TKey.decoded enc (.key k))
            (fun t => tde enc toks f t (.opval o (pre.length + 1 + (opToks o).length))) seen = .ok seen := by
          simp [structEntry, TKey.decoded, hl]
        rw [hE]; exact ih seen
      | some it =>
        obtain ⟨i, t⟩ := it
        obtain ⟨n', hm⟩ := lookupIdx_mem _ fs 0 i t hl
        have ⟨hs, hw⟩ := hty n' t hm
        by_cases hsn : (seenGet i seen).isSome
        · have hE : structEntry fs (TKey.decoded enc (.key k))
              (fun t => tde enc toks f t (.opval o (pre.length + 1 + (opToks o).length))) seen
                = .error (.duplicate (decode enc k)) := by
            simp [structEntry, TKey.decoded, hl, hsn]
          rw [hE]; simp [hsn]
        · have hE : structEntry fs (TKey.decoded enc (.key k))
              (fun t => tde enc toks f t (.opval o (pre.length + 1 + (opToks o).length))) seen
                = (match valueOfN enc f t o (.leaf l) with
                   | .error x => .error x
                   | .ok v => .ok (seen ++ [(i, v)])) := by
            simp only [structEntry, TKey.decoded, hl, hsn, Bool.false_eq_true, ↓reduceIte]
            rw [tde_field enc toks _ l.bytes hq o t hs f hw, ← valueOfN_leaf_field enc t hs f hw o l]
            cases valueOfN enc f t o (.leaf l) <;> rfl
          rw [hE]
          simp only [hsn, Bool.false_eq_true, ↓reduceIte]
          cases valueOfN enc f t o (.leaf l) with
          | error e => rfl
          | ok x => exact ih _

/-- tape path, flat fragment: struct target whose declared fields have scalar types -/
theorem deTape_flat_struct (enc : Enc) (fs : List (Bytes × Ty)) (d : Doc)
    (hflat : FlatFields d) (hty : ∀ n t, (n, t) ∈ fs → Ty.isFieldScalarTy t = true) :
    deTape enc (.st fs) (tapeOf d) = valueOf enc (.st fs) d := by
  have hty' : ∀ n t, (n, t) ∈ fs → Ty.isFieldScalarTy t = true ∧ Ty.wrapDepth t < Ty.heightFs fs + 1 := by
    intro n t hm
    have h1 := wrapDepth_le_height t
    have h2 := mem_height fs n t hm
    exact ⟨hty n t hm, by omega⟩
  have := tMapFold_struct_flat enc fs (tapeOf d) (Ty.heightFs fs + 1) hty' d [] [] ((tapeOf d).length + 2) hflat
    (by simp [tapeOf]) (by
      have : d.length ≤ (tapeOf d).length := by
        clear hty' hty
        unfold tapeOf
        generalize 0 = b
        induction d generalizing b with
        | nil => simp
        | cons hd tl ih =>
          obtain ⟨k, o, v⟩ := hd
          obtain ⟨l, rfl⟩ := hflat k o v (List.mem_cons_self ..)
          have := ih (fun k' o' v' hm => hflat k' o' v' (List.mem_cons_of_mem _ hm)) (b + 1 + (opToks o).length + 1)
          rw [tapeFields_leaf]; simp; omega
      omega)
  simp only [List.length_nil] at this
  simp only [deTape, valueOf, Ty.height]
  rw [this, valueOfN]
  cases structVals enc fs (valueOfN enc (Ty.heightFs fs + 1)) d [] <;> rfl

theorem fits_scalar (enc : Enc) : ∀ (t : Ty), Ty.isScalarTy t = true → ∀ (l : Leaf), Fits enc t (.leaf l)
  | .opt t, h, l => Fits.opt (fits_scalar enc t (by simpa [Ty.isScalarTy] using h) l)
  | .ign, _, _ => Fits.ign
  | .bool, _, _ => Fits.scalar rfl
  | .i64, _, _ => Fits.scalar rfl
  | .u64, _, _ => Fits.scalar rfl
  | .i32, _, _ => Fits.scalar rfl
  | .i16, _, _ => Fits.scalar rfl
  | .u16, _, _ => Fits.scalar rfl
  | .i8, _, _ => Fits.scalar rfl
  | .u8, _, _ => Fits.scalar rfl
  | .u32, _, _ => Fits.scalar rfl
  | .f64, _, _ => Fits.scalar rfl
  | .f32, _, _ => Fits.scalar rfl
  | .str, _, _ => Fits.scalar rfl
  | .any, _, _ => Fits.scalar rfl
  | .en _, _, _ => Fits.scalar rfl

theorem fits_field (enc : Enc) : ∀ (t : Ty), Ty.isFieldScalarTy t = true → ∀ (l : Leaf), Fits enc t (.leaf l)
  | .prop t, h, l => Fits.prop (fits_scalar enc t (by simpa [Ty.isFieldScalarTy] using h) l)
  | .opt t, h, l => Fits.opt (fits_field enc t (by simpa [Ty.isFieldScalarTy] using h) l)
  | .ign, _, _ => Fits.ign
  | .bool, _, _ => Fits.scalar rfl
  | .i64, _, _ => Fits.scalar rfl
  | .u64, _, _ => Fits.scalar rfl
  | .i32, _, _ => Fits.scalar rfl
  | .i16, _, _ => Fits.scalar rfl
  | .u16, _, _ => Fits.scalar rfl
  | .i8, _, _ => Fits.scalar rfl
  | .u8, _, _ => Fits.scalar rfl
  | .u32, _, _ => Fits.scalar rfl
  | .f64, _, _ => Fits.scalar rfl
  | .f32, _, _ => Fits.scalar rfl
  | .str, _, _ => Fits.scalar rfl
  | .any, _, _ => Fits.scalar rfl
  | .en _, _, _ => Fits.scalar rfl

theorem flat_wf : ∀ (d : List (Bytes × Op × Node)), FlatFields d → wfFields d = true
  | [], _ => rfl
  | (k, o, v) :: r, h => by
      obtain ⟨l, rfl⟩ := h k o v (List.mem_cons_self ..)
      have := flat_wf r (fun k' o' v' hm => h k' o' v' (List.mem_cons_of_mem _ hm))
      simp [wfFields, Node.wf, this]

theorem fits_flat_struct (enc : Enc) (fs : List (Bytes × Ty)) (d : Doc)
    (hflat : FlatFields d) (hty : ∀ n t, (n, t) ∈ fs → Ty.isFieldScalarTy t = true) :
    Fits enc (.st fs) (.obj d) := by
  apply Fits.st
  intro k o v hm i t hl
  obtain ⟨l, rfl⟩ := hflat k o v hm
  obtain ⟨n, hn⟩ := lookupIdx_mem _ fs 0 i t hl
  exact fits_field enc t (hty n t hn) l

end Jomini.TextDe
