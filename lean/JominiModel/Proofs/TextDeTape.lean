import JominiModel.Spec.TextDoc
import JominiModel.Proofs.TextDe
/-
C02, tape path: lemmas about scalar leaves shared by the nested induction (Proofs/TextDeTapeNested.lean);
the former flat-fragment theorem is subsumed by `deTape_eq_valueOf` there.
-/
namespace Jomini.TextDe
open Jomini Jomini.TextDoc

/-- tape tokens of an operator: `=` is not stored -/
def opToks (o : Op) : List TTok := match o with | .eq => [] | o => [TTok.op o]

theorem opToks_len (o : Op) : (opToks o).length ≤ 1 := by cases o <;> simp [opToks]

theorem getElem?_pre {α} (pre xs : List α) (j : Nat) : (pre ++ xs)[pre.length + j]? = xs[j]? := by
  simp [List.getElem?_append_right]

theorem wrapDepth_le_height : ∀ (t : Ty), Ty.wrapDepth t ≤ t.height
  | .opt t => by have := wrapDepth_le_height t; simp [Ty.wrapDepth, Ty.height]; omega
  | .prop t => by have := wrapDepth_le_height t; simp [Ty.wrapDepth, Ty.height]; omega
  | .bool | .i64 | .u64 | .i32 | .u32 | .i16 | .u16 | .i8 | .u8 | .f64 | .f32 | .str | .any | .ign | .seq _ | .map _ | .st _ | .en _ | .tup _ => by
      simp [Ty.wrapDepth]

theorem valueOfN_leaf_scalar (enc : Enc) : ∀ (t : Ty), Ty.isScalarTy t = true → ∀ (f : Nat), Ty.wrapDepth t < f →
    ∀ (o : Op) (l : Leaf), valueOfN enc f t o (.leaf l) = valueOfScalar enc t l.bytes
  | .opt t, h, f + 1, hf, o, l => by
      have ih := valueOfN_leaf_scalar enc t (by simpa [Ty.isScalarTy] using h) f (by simp [Ty.wrapDepth] at hf; omega) o l
      simp [valueOfN, ih, valueOfScalar]
  | .bool, _, f + 1, _, o, l => by simp [valueOfN]
  | .i64, _, f + 1, _, o, l => by simp [valueOfN]
  | .u64, _, f + 1, _, o, l => by simp [valueOfN]
  | .i32, _, f + 1, _, o, l => by simp [valueOfN]
  | .i16, _, f + 1, _, o, l => by simp [valueOfN]
  | .u16, _, f + 1, _, o, l => by simp [valueOfN]
  | .i8, _, f + 1, _, o, l => by simp [valueOfN]
  | .u8, _, f + 1, _, o, l => by simp [valueOfN]
  | .u32, _, f + 1, _, o, l => by simp [valueOfN]
  | .f64, _, f + 1, _, o, l => by simp [valueOfN]
  | .f32, _, f + 1, _, o, l => by simp [valueOfN]
  | .str, _, f + 1, _, o, l => by simp [valueOfN]
  | .any, _, f + 1, _, o, l => by simp [valueOfN, anyVal, valueOfScalar]
  | .ign, _, f + 1, _, o, l => by simp [valueOfN, valueOfScalar]
  | .en vs, _, f + 1, _, o, l => by simp [valueOfN]

theorem valueOfN_leaf_field (enc : Enc) : ∀ (t : Ty), Ty.isFieldScalarTy t = true → ∀ (f : Nat), Ty.wrapDepth t < f →
    ∀ (o : Op) (l : Leaf), valueOfN enc f t o (.leaf l) = valueOfField enc t o l.bytes
  | .prop t, h, f + 1, hf, o, l => by
      have ih := valueOfN_leaf_scalar enc t (by simpa [Ty.isFieldScalarTy] using h) f (by simp [Ty.wrapDepth] at hf; omega) .eq l
      simp [valueOfN, ih, valueOfField]
  | .opt t, h, f + 1, hf, o, l => by
      have ih := valueOfN_leaf_field enc t (by simpa [Ty.isFieldScalarTy] using h) f (by simp [Ty.wrapDepth] at hf; omega) o l
      simp [valueOfN, ih, valueOfField]
  | .bool, h, f, hf, o, l => by simpa [valueOfField] using valueOfN_leaf_scalar enc .bool rfl f hf o l
  | .i64, h, f, hf, o, l => by simpa [valueOfField] using valueOfN_leaf_scalar enc .i64 rfl f hf o l
  | .u64, h, f, hf, o, l => by simpa [valueOfField] using valueOfN_leaf_scalar enc .u64 rfl f hf o l
  | .i32, h, f, hf, o, l => by simpa [valueOfField] using valueOfN_leaf_scalar enc .i32 rfl f hf o l
  | .i16, h, f, hf, o, l => by simpa [valueOfField] using valueOfN_leaf_scalar enc .i16 rfl f hf o l
  | .u16, h, f, hf, o, l => by simpa [valueOfField] using valueOfN_leaf_scalar enc .u16 rfl f hf o l
  | .i8, h, f, hf, o, l => by simpa [valueOfField] using valueOfN_leaf_scalar enc .i8 rfl f hf o l
  | .u8, h, f, hf, o, l => by simpa [valueOfField] using valueOfN_leaf_scalar enc .u8 rfl f hf o l
  | .u32, h, f, hf, o, l => by simpa [valueOfField] using valueOfN_leaf_scalar enc .u32 rfl f hf o l
  | .f64, h, f, hf, o, l => by simpa [valueOfField] using valueOfN_leaf_scalar enc .f64 rfl f hf o l
  | .f32, h, f, hf, o, l => by simpa [valueOfField] using valueOfN_leaf_scalar enc .f32 rfl f hf o l
  | .str, h, f, hf, o, l => by simpa [valueOfField] using valueOfN_leaf_scalar enc .str rfl f hf o l
  | .any, h, f, hf, o, l => by simpa [valueOfField] using valueOfN_leaf_scalar enc .any rfl f hf o l
  | .ign, h, f, hf, o, l => by simpa [valueOfField] using valueOfN_leaf_scalar enc .ign rfl f hf o l
  | .en vs, h, f, hf, o, l => by simpa [valueOfField] using valueOfN_leaf_scalar enc (.en vs) rfl f hf o l

/-- the operator `FieldsIter::next` reports -/
def opOpt (o : Op) : Option Op := match o with | .eq => none | o => some o

theorem opOpt_getD (o : Op) : (opOpt o).getD .eq = o := by cases o <;> rfl

theorem lookupIdx_mem (name : Bytes) : ∀ (fs : List (Bytes × Ty)) (j i : Nat) (t : Ty),
    lookupIdx name fs j = some (i, t) → ∃ n, (n, t) ∈ fs
  | [], j, i, t, h => by simp [lookupIdx] at h
  | (n, t0) :: r, j, i, t, h => by
      simp only [lookupIdx] at h
      split at h
      · simp only [Option.some.injEq, Prod.mk.injEq] at h
        exact ⟨n, by simp [h.2]⟩
      · obtain ⟨n', hm⟩ := lookupIdx_mem name r (j + 1) i t h
        exact ⟨n', List.mem_cons_of_mem _ hm⟩

theorem mem_height : ∀ (fs : List (Bytes × Ty)) (n : Bytes) (t : Ty), (n, t) ∈ fs → t.height ≤ Ty.heightFs fs
  | [], n, t, h => by simp at h
  | (n0, t0) :: r, n, t, h => by
      simp only [List.mem_cons, Prod.mk.injEq] at h
      rcases h with ⟨_, rfl⟩ | h
      · simp only [Ty.heightFs]; omega
      · have := mem_height r n t h
        simp only [Ty.heightFs]; omega

theorem fits_scalar (enc : Enc) : ∀ (t : Ty), Ty.isScalarTy t = true → ∀ (l : Leaf), Fits enc t (.leaf l)
  | .opt t, h, l => Fits.opt (fits_scalar enc t (by simpa [Ty.isScalarTy] using h) l)
  | .ign, _, _ => Fits.ign
  | .bool, _, _ => Fits.scalar rfl
  | .i64, _, _ => Fits.scalar rfl
  | .u64, _, _ => Fits.scalar rfl
  | .i32, _, _ => Fits.scalar rfl
  | .i16, _, _ => Fits.scalar rfl
  | .u16, _, _ => Fits.scalar rfl
  | .i8, _, _ => Fits.scalar rfl
  | .u8, _, _ => Fits.scalar rfl
  | .u32, _, _ => Fits.scalar rfl
  | .f64, _, _ => Fits.scalar rfl
  | .f32, _, _ => Fits.scalar rfl
  | .str, _, _ => Fits.scalar rfl
  | .any, _, _ => Fits.scalar rfl
  | .en _, _, _ => Fits.scalar rfl

theorem fits_field (enc : Enc) : ∀ (t : Ty), Ty.isFieldScalarTy t = true → ∀ (l : Leaf), Fits enc t (.leaf l)
  | .prop t, h, l => Fits.prop (fits_scalar enc t (by simpa [Ty.isFieldScalarTy] using h) l)
  | .opt t, h, l => Fits.opt (fits_field enc t (by simpa [Ty.isFieldScalarTy] using h) l)
  | .ign, _, _ => Fits.ign
  | .bool, _, _ => Fits.scalar rfl
  | .i64, _, _ => Fits.scalar rfl
  | .u64, _, _ => Fits.scalar rfl
  | .i32, _, _ => Fits.scalar rfl
  | .i16, _, _ => Fits.scalar rfl
  | .u16, _, _ => Fits.scalar rfl
  | .i8, _, _ => Fits.scalar rfl
  | .u8, _, _ => Fits.scalar rfl
  | .u32, _, _ => Fits.scalar rfl
  | .f64, _, _ => Fits.scalar rfl
  | .f32, _, _ => Fits.scalar rfl
  | .str, _, _ => Fits.scalar rfl
  | .any, _, _ => Fits.scalar rfl
  | .en _, _, _ => Fits.scalar rfl

end Jomini.TextDe
