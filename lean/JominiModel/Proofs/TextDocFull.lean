import JominiModel.Spec.TextDocFull
import JominiModel.Proofs.TextTapeFaithful3
/-
C01_faithful over the full document type `FFields` (Spec/TextDocFull.lean): the run lemmas
`frun_V / frun_First / frun_F / frun_Vs / frun_I` and `parse_full`.

New with respect to Proofs/TextTapeFaithful3.lean: a container may be closed into a parent that
is in mixed mode (`CtxC st cm`: `closeState` of the parent token yields `(cm, _)`), ParseOpen in
mixed mode flags the enclosing container (`setFlag`), and operators inside the array part.
-/
namespace Jomini.TextTape
open Jomini

/-! ### the flag edit of ParseOpen in mixed mode -/

/-- `if let Some(Array | Object { mixed, .. }) = tape.get_mut(parent) { *mixed = true }` -/
def setFlag (T : List Tok) (p : Nat) : List Tok :=
  match T[p]? with
  | some (.array e _) => T.set p (.array e true)
  | some (.object e _) => T.set p (.object e true)
  | _ => T

theorem setFlag_length (T : List Tok) (p : Nat) : (setFlag T p).length = T.length := by
  unfold setFlag; split <;> simp

theorem setFlag_append (T R : List Tok) (p : Nat) (hp : p < T.length) :
    setFlag (T ++ R) p = setFlag T p ++ R := by
  unfold setFlag
  rw [List.getElem?_append_left hp]
  split <;> simp [List.set_append_left _ _ hp]

theorem setFlag_idem (T : List Tok) (p : Nat) : setFlag (setFlag T p) p = setFlag T p := by
  by_cases hp : p < T.length
  · cases h : T[p]? with
    | none => simp only [setFlag, h]
    | some t =>
      cases t <;> simp only [setFlag, h]
      · simp only [List.getElem?_set_self hp, List.set_set]
      · simp only [List.getElem?_set_self hp, List.set_set]
  · have : T[p]? = none := List.getElem?_eq_none (by omega)
    simp only [setFlag, this]

theorem setFlag_get (T : List Tok) (p i : Nat) (hi : i ≠ p) : (setFlag T p)[i]? = T[i]? := by
  unfold setFlag
  split <;> simp [List.getElem?_set, Ne.symm hi]

/-- the flagged parent token closes into mixed mode -/
theorem closeState_setFlag (T : List Tok) (p : Nat)
    (h : ∃ e m, T[p]? = some (.object e m) ∨ T[p]? = some (.array e m)) :
    closeState (setFlag T p)[p]? = (true, .arrayValue) := by
  obtain ⟨e, m, h | h⟩ := h
  · have hp : p < T.length := (List.getElem?_eq_some_iff.1 h).1
    simp only [setFlag, h, List.getElem?_set_self hp, closeState, if_true]
  · have hp : p < T.length := (List.getElem?_eq_some_iff.1 h).1
    simp only [setFlag, h, List.getElem?_set_self hp, closeState]

theorem setFlag_set (T : List Tok) (p : Nat) (X : Tok) : (setFlag T p).set p X = T.set p X := by
  unfold setFlag
  split <;> simp

theorem setFlag_zero (T : List Tok) (p : Nat)
    (hz : ∀ e m, T[0]? ≠ some (.array e m) ∧ T[0]? ≠ some (.object e m)) :
    ∀ e m, (setFlag T p)[0]? ≠ some (.array e m) ∧ (setFlag T p)[0]? ≠ some (.object e m) := by
  intro e m
  by_cases h0 : p = 0
  · subst h0
    have : setFlag T 0 = T := by
      unfold setFlag
      split
      · next e' m' h => exact absurd h (hz e' m').1
      · next e' m' h => exact absurd h (hz e' m').2
      · rfl
    rw [this]; exact hz e m
  · rw [setFlag_get T p 0 (Ne.symm h0)]; exact hz e m

/-- the tape ParseOpen works on after the optional flag edit -/
def flagIf (m : Bool) (T : List Tok) (p : Nat) : List Tok := if m then setFlag T p else T

theorem flagIf_length (m : Bool) (T : List Tok) (p : Nat) : (flagIf m T p).length = T.length := by
  unfold flagIf; split <;> simp [setFlag_length]

/-- the edit as the model writes it, on `T ++ R` with the parent inside `T` -/
theorem flag_edit_eq (m : Bool) (T R : List Tok) (p : Nat) (hp : p < T.length) :
    (if m = true then
      match (T ++ R)[p]? with
      | some (.array e _) => (T ++ R).set p (.array e true)
      | some (.object e _) => (T ++ R).set p (.object e true)
      | _ => T ++ R
    else T ++ R) = flagIf m T p ++ R := by
  cases m with
  | false => simp [flagIf]
  | true =>
    simp only [if_true, flagIf]
    exact setFlag_append T R p hp

/-! ### step lemmas, generalised: mixed mode at ParseOpen, closing into a mixed parent -/

/-- ParseOpen sees the first key of an object (any mode) -/
theorem step_parseopen_field_m {n : Nat} {st : St} {T : List Tok} {g0 g1 : Bytes} {k : Scal} {o : Op} {Y : Bytes}
    (hst : st.state = .parseOpen) (hT : st.tape = T ++ [.array 0 false]) (hp : st.parent < T.length)
    (h0 : Blank g0) (hk : k.ValidX) (h1 : Blank g1)
    (hkb : k.quoted = false → StartsBoundary (g1 ++ o.text)) :
    step n st (g0 ++ (k.text ++ (g1 ++ (o.text ++ Y)))) =
      .cont { state := .kvs, mixed := false, parent := T.length,
              tape := flagIf st.mixed T st.parent ++ [.object st.parent false, k.tok (g1 ++ (o.text ++ Y))] }
        (o.text ++ Y) := by
  obtain ⟨c, r, htx, _, _, h125, _, h123, h91, _, _, _⟩ := hk.head
  have hkX : k.quoted = false → StartsBoundary (g1 ++ (o.text ++ Y)) := by
    intro hq
    rcases hkb hq with h | ⟨c', r', h, hc'⟩
    · have : o.text ≠ [] := by cases o <;> simp [Op.text]
      simp at h; exact absurd h.2 this
    · exact .inr ⟨c', r' ++ Y, by rw [← List.cons_append, ← h]; simp, hc'⟩
  have hlex := lexValue_scalX hk st.tape (g1 ++ (o.text ++ Y)) hkX
  simp only [step, skipWs_blank h0, skipWs_scalX hk, stepAt, hst]
  rw [htx] at hlex ⊢
  simp only [List.cons_append] at hlex ⊢
  simp only [stepParseOpen, h125, h91, h123, if_false, hlex]
  rw [hT]
  simp only [List.append_assoc]
  generalize htape2 : (if st.mixed = true then
      match (T ++ ([Tok.array 0 false] ++ [k.tok (g1 ++ (o.text ++ Y))]))[st.parent]? with
      | some (.array e _) => (T ++ ([Tok.array 0 false] ++ [k.tok (g1 ++ (o.text ++ Y))])).set st.parent (.array e true)
      | some (.object e _) => (T ++ ([Tok.array 0 false] ++ [k.tok (g1 ++ (o.text ++ Y))])).set st.parent (.object e true)
      | _ => T ++ ([Tok.array 0 false] ++ [k.tok (g1 ++ (o.text ++ Y))])
    else T ++ ([Tok.array 0 false] ++ [k.tok (g1 ++ (o.text ++ Y))])) = tape2
  have hedit : tape2 = flagIf st.mixed T st.parent ++ ([Tok.array 0 false] ++ [k.tok (g1 ++ (o.text ++ Y))]) := by
    rw [← htape2]
    exact flag_edit_eq st.mixed T ([Tok.array 0 false] ++ [k.tok (g1 ++ (o.text ++ Y))]) st.parent hp
  subst hedit
  have hl : (flagIf st.mixed T st.parent ++ ([Tok.array 0 false] ++ [k.tok (g1 ++ (o.text ++ Y))])).length - 2 =
      (flagIf st.mixed T st.parent).length := by simp
  simp only [skipWs_blank h1, skipWs_op, firstFieldPeek_op, if_true, hl]
  have hset : (flagIf st.mixed T st.parent ++ ([Tok.array 0 false] ++ [k.tok (g1 ++ (o.text ++ Y))])).set
      (flagIf st.mixed T st.parent).length (.object st.parent false) =
      flagIf st.mixed T st.parent ++ [.object st.parent false, k.tok (g1 ++ (o.text ++ Y))] := by
    rw [List.set_append_right _ _ (Nat.le_refl _)]; simp
  simp [setTok, hset, flagIf_length]

/-- ParseOpen sees a scalar that is not followed by an operator (any mode) -/
theorem step_parseopen_scalar_arr_m {n : Nat} {st : St} {T : List Tok} {g0 : Bytes} {s : Scal} {Z d2 : Bytes}
    (hst : st.state = .parseOpen) (hT : st.tape = T ++ [.array 0 false]) (hp : st.parent < T.length)
    (h0 : Blank g0) (hs : s.ValidX) (hZ : s.quoted = false → StartsBoundary Z)
    (hsk : skipWs Z = some d2) (hpk : firstFieldPeek d2 = false) :
    step n st (g0 ++ (s.text ++ Z)) =
      .cont { state := .arrayValue, mixed := false, parent := T.length,
              tape := flagIf st.mixed T st.parent ++ [.array st.parent false, s.tok Z] } d2 := by
  obtain ⟨c, r, htx, _, _, h125, _, h123, h91, _, _, _⟩ := hs.head
  have hlex := lexValue_scalX hs st.tape Z hZ
  simp only [step, skipWs_blank h0, skipWs_scalX hs, stepAt, hst]
  rw [htx] at hlex ⊢
  simp only [List.cons_append] at hlex ⊢
  simp only [stepParseOpen, h125, h91, h123, if_false, hlex]
  rw [hT]
  simp only [List.append_assoc]
  generalize htape2 : (if st.mixed = true then
      match (T ++ ([Tok.array 0 false] ++ [s.tok Z]))[st.parent]? with
      | some (.array e _) => (T ++ ([Tok.array 0 false] ++ [s.tok Z])).set st.parent (.array e true)
      | some (.object e _) => (T ++ ([Tok.array 0 false] ++ [s.tok Z])).set st.parent (.object e true)
      | _ => T ++ ([Tok.array 0 false] ++ [s.tok Z])
    else T ++ ([Tok.array 0 false] ++ [s.tok Z])) = tape2
  have hedit : tape2 = flagIf st.mixed T st.parent ++ ([Tok.array 0 false] ++ [s.tok Z]) := by
    rw [← htape2]
    exact flag_edit_eq st.mixed T ([Tok.array 0 false] ++ [s.tok Z]) st.parent hp
  subst hedit
  have hl : (flagIf st.mixed T st.parent ++ ([Tok.array 0 false] ++ [s.tok Z])).length - 2 =
      (flagIf st.mixed T st.parent).length := by simp
  simp only [hsk, hpk, hl]
  have hset : (flagIf st.mixed T st.parent ++ ([Tok.array 0 false] ++ [s.tok Z])).set
      (flagIf st.mixed T st.parent).length (.array st.parent false) =
      flagIf st.mixed T st.parent ++ [.array st.parent false, s.tok Z] := by
    rw [List.set_append_right _ _ (Nat.le_refl _)]; simp
  simp [setTok, hset, flagIf_length]

/-- ParseOpen sees `}`: the empty array (any result of `closeState`) -/
theorem step_parseopen_empty_c {n : Nat} {st : St} {T : List Tok} {gc X : Bytes} {cm : Bool} {r : PState}
    (hst : st.state = .parseOpen) (hT : st.tape = T ++ [.array 0 false]) (hg : Blank gc)
    (hcs : closeState st.tape[st.parent]? = (cm, r)) :
    step n st (gc ++ 125 :: X) =
      .cont { state := r, mixed := cm, parent := st.parent,
              tape := T ++ [.array (T.length + 1) false, .endTok T.length] } X := by
  simp only [step, skipWs_blank hg, skipWs_cons X blank_close (by decide), stepAt, hst]
  simp only [stepParseOpen, if_true, hcs]
  rw [hT]
  simp [setTok]

/-- ArrayValue sees `}`: the innermost array is closed (any flag on its token, any parent mode) -/
theorem step_av_close_c {n : Nat} {st : St} {gc X : Bytes} {P : Nat} {mf cm : Bool} {r : PState}
    (hst : st.state = .arrayValue)
    (hg : Blank gc) (hp : st.parent ≠ 0) (hlt : st.parent < st.tape.length)
    (hpt : st.tape[st.parent]? = some (.array P mf))
    (hcs : closeState st.tape[P]? = (cm, r)) :
    step n st (gc ++ 125 :: X) =
      .cont { state := r, mixed := cm, parent := P,
              tape := st.tape.set st.parent (.array st.tape.length st.mixed) ++ [Tok.endTok st.parent] } X := by
  simp only [step, skipWs_blank hg, skipWs_cons X blank_close (by decide), stepAt, hst]
  simp only [stepArrayValue, hpt, endOf, hcs]
  simp [hp, setTok, hlt]

/-- ArrayValue sees `}` while the innermost container is an object (mixed container) -/
theorem step_av_close_obj_c {n : Nat} {st : St} {gc X : Bytes} {P : Nat} {mf cm : Bool} {r : PState}
    (hst : st.state = .arrayValue)
    (hg : Blank gc) (hp : st.parent ≠ 0) (hlt : st.parent < st.tape.length)
    (hpt : st.tape[st.parent]? = some (.object P mf))
    (hcs : closeState st.tape[P]? = (cm, r)) :
    step n st (gc ++ 125 :: X) =
      .cont { state := r, mixed := cm, parent := P,
              tape := st.tape.set st.parent (.object st.tape.length st.mixed) ++ [Tok.endTok st.parent] } X := by
  simp only [step, skipWs_blank hg, skipWs_cons X blank_close (by decide), stepAt, hst]
  simp only [stepArrayValue, hpt, endOf, hcs]
  simp [hp, setTok, hlt]

/-- Key sees `}`: the innermost object is closed (any parent mode) -/
theorem step_key_close_c {n : Nat} {st : St} {gc X : Bytes} {P : Nat} {cm : Bool} {r : PState}
    (hst : st.state = .key)
    (hg : Blank gc) (hp : st.parent ≠ 0) (hlt : st.parent < st.tape.length)
    (hpt : st.tape[st.parent]? = some (.object P false))
    (hcs : closeState st.tape[P]? = (cm, r)) :
    step n st (gc ++ 125 :: X) =
      .cont { state := r, mixed := cm, parent := P,
              tape := (st.tape ++ [Tok.endTok st.parent]).set st.parent (.object st.tape.length st.mixed) } X := by
  simp only [step, skipWs_blank hg, skipWs_cons X blank_close (by decide), stepAt, hst]
  have hlt' : st.parent < st.tape.length + 1 := by omega
  simp [stepKey, hpt, endOf, hcs, hp, setTok, hlt']

theorem lexOperator_text_arr (o : Op) (Y : Bytes) (ho : o ≠ .exists_)
    (hY : o.text.length = 1 → Y.head? ≠ some 61) :
    lexOperator false (o.text ++ Y) = some (o, Y) := by
  cases o <;> simp [Op.text] at hY <;> simp [lexOperator, Op.text, hY] at ho ⊢

/-- an operator in the array part of a container that is already in mixed mode: the token is
kept (also for `=`) -/
theorem step_av_op {n : Nat} {st : St} {g : Bytes} {o : Op} {Y : Bytes} (hst : st.state = .arrayValue)
    (hm : st.mixed = true) (hg : Blank g) (ho : o ≠ .exists_)
    (hY : o.text.length = 1 → Y.head? ≠ some 61) :
    step n st (g ++ (o.text ++ Y)) = .cont { st with tape := st.tape ++ [.operator o] } Y := by
  simp only [step, skipWs_blank hg, skipWs_op, stepAt, hst]
  have hlex := lexOperator_text_arr o Y ho hY
  cases o <;> simp only [Op.text, List.cons_append, List.nil_append] at hlex ⊢ <;>
    simp [stepArrayValue, stepArrayOp, arrayOpPre, hm, hlex, hst] at ho ⊢

/-- the first operator in an array (not yet in mixed mode): `MixedContainer` is inserted in front
of the scalar before the operator, the operator token is pushed, the parser is in mixed mode -/
theorem step_av_op_first {n : Nat} {st : St} {X : List Tok} {l : Tok} {g : Bytes} {o : Op} {Y : Bytes}
    (hst : st.state = .arrayValue) (hm : st.mixed = false) (hT : st.tape = X ++ [l])
    (hl : ∃ sl, l.asScalar = some sl) (hg : Blank g) (ho : o ≠ .exists_)
    (hY : o.text.length = 1 → Y.head? ≠ some 61) :
    step n st (g ++ (o.text ++ Y)) =
      .cont { st with tape := X ++ [.mixedContainer, l, .operator o], mixed := true } Y := by
  obtain ⟨sl, hsl⟩ := hl
  simp only [step, skipWs_blank hg, skipWs_op, stepAt, hst]
  have hlex := lexOperator_text_arr o Y ho hY
  cases o <;> simp only [Op.text, List.cons_append, List.nil_append] at hlex ⊢ <;>
    simp [stepArrayValue, stepArrayOp, arrayOpPre, hm, hlex, hst, hT, hsl, insertBeforeLast] at ho ⊢

theorem Scal.tok_asScalar (s : Scal) (X : Bytes) : ∃ sl, (s.tok X).asScalar = some sl := by
  unfold Scal.tok; split <;> exact ⟨_, rfl⟩

/-! ### contexts -/

/-- the context of a value: like `Ctx3`, but the container it stands in may be in mixed mode again
once the value is closed (`cm`) -/
structure CtxC (st : St) (cm : Bool) : Prop where
  mixed : st.mixed = false
  zero : ∀ e m, st.tape[0]? ≠ some (.array e m) ∧ st.tape[0]? ≠ some (.object e m)
  plt : st.parent < st.tape.length ∨ st.parent = 0
  close : closeState st.tape[st.parent]? = (cm, ret st.state)

theorem Ctx3.toC {st : St} (h : Ctx3 st) : CtxC st false := ⟨h.mixed, h.zero, h.plt, h.close⟩

theorem CtxC.plt' {st : St} {cm : Bool} (hc : CtxC st cm) (hne : st.tape ≠ []) : st.parent < st.tape.length := by
  rcases hc.plt with h | h
  · exact h
  · rw [h]; exact List.length_pos_iff.2 hne

theorem CtxC.close_append {st : St} {cm : Bool} (hc : CtxC st cm) (hne : st.tape ≠ []) (R : List Tok) :
    closeState (st.tape ++ R)[st.parent]? = (cm, ret st.state) := by
  rw [closeState_append (hc.plt' hne)]; exact hc.close

/-- the context inside a container whose token `t` has just been written at index `|T|` -/
theorem ctx_inner {T : List Tok} (hne : T ≠ [])
    (hz : ∀ e m, T[0]? ≠ some (.array e m) ∧ T[0]? ≠ some (.object e m))
    (t : Tok) (R : List Tok) (s : PState) (h : closeState (some t) = (false, ret s)) :
    Ctx3 (St.mk s false T.length (T ++ t :: R)) := by
  refine ⟨rfl, ?_, .inl (by simp), ?_⟩
  · intro e m
    simp only
    rw [List.getElem?_append_left (List.length_pos_iff.2 hne)]
    exact hz e m
  · simp only [List.getElem?_append_right (Nat.le_refl _), Nat.sub_self, List.getElem?_cons_zero]
    exact h

/-- the context of the array part of a container in mixed mode -/
structure CtxM (st : St) : Prop where
  zero : ∀ e m, st.tape[0]? ≠ some (.array e m) ∧ st.tape[0]? ≠ some (.object e m)
  plt : st.parent < st.tape.length
  cont : ∃ e m, st.tape[st.parent]? = some (.object e m) ∨ st.tape[st.parent]? = some (.array e m)

theorem setFlag_cont (T : List Tok) (p : Nat)
    (h : ∃ e m, T[p]? = some (.object e m) ∨ T[p]? = some (.array e m)) :
    ∃ e m, (setFlag T p)[p]? = some (.object e m) ∨ (setFlag T p)[p]? = some (.array e m) := by
  obtain ⟨e, m, h | h⟩ := h
  · have hp : p < T.length := (List.getElem?_eq_some_iff.1 h).1
    exact ⟨e, true, .inl (by simp only [setFlag, h, List.getElem?_set_self hp])⟩
  · have hp : p < T.length := (List.getElem?_eq_some_iff.1 h).1
    exact ⟨e, true, .inr (by simp only [setFlag, h, List.getElem?_set_self hp])⟩

/-! ### bookkeeping on the document type -/

def FVal.bracedB : FVal → Bool
  | .scal .. => false
  | _ => true

def FItems.hasCont : FItems → Bool
  | .nil => false
  | .scal _ _ rest => rest.hasCont
  | .op _ _ rest => rest.hasCont
  | .cont _ _ => true

mutual
theorem len_ftapeV : ∀ (v : FVal) (b : Nat) (a : Bytes), (ftapeV v b a).length = fcntV v
  | .scal _ _, _, _ => by simp [ftapeV, fcntV]
  | .empty _ _, _, _ => by simp [ftapeV, fcntV]
  | .obj _ _ first rest _, b, a => by
    simp only [ftapeV, fcntV, List.length_append, List.length_cons, List.length_nil, len_ftapeFirst first,
      len_ftapeF rest]
    try omega
  | .arrS _ _ _ rest _, b, a => by
    simp only [ftapeV, fcntV, List.length_append, List.length_cons, List.length_nil, len_ftapeVs rest]
    try omega
  | .arrC _ first rest _, b, a => by
    simp only [ftapeV, fcntV, List.length_append, List.length_cons, List.length_nil, len_ftapeV first, len_ftapeVs rest]
    try omega
  | .ghostIn _ _ _ v, b, a => by simp only [ftapeV, fcntV, len_ftapeV v]
  | .mixed _ _ first rest _ _ items _, b, a => by
    simp only [ftapeV, fcntV, List.length_append, List.length_cons, List.length_nil, len_ftapeFirst first,
      len_ftapeF rest, len_ftapeI items]
    omega
  | .arrSM _ _ _ pre _ _ _ _ items _, b, a => by
    simp only [ftapeV, fcntV, List.length_append, List.length_cons, List.length_nil, len_ftapeVs pre,
      len_ftapeI items]
    omega
  | .arrCM _ first pre _ _ _ _ items _, b, a => by
    simp only [ftapeV, fcntV, List.length_append, List.length_cons, List.length_nil, len_ftapeV first,
      len_ftapeVs pre, len_ftapeI items]
    omega
theorem len_ftapeFirst : ∀ (f : FFirst) (b : Nat) (a : Bytes), (ftapeFirst f b a).length = fcntFirst f
  | .kv _ _ o v, b, a => by
    simp only [ftapeFirst, fcntFirst, List.length_append, List.length_cons, List.length_nil, len_ftapeV v]
    try omega
  | .flds f, b, a => by simp only [ftapeFirst, fcntFirst, len_ftapeF f]
theorem len_ftapeF : ∀ (fs : FFields) (b : Nat) (a : Bytes), (ftapeF fs b a).length = fcntF fs
  | .nil, _, _ => by simp [ftapeF, fcntF]
  | .cons _ _ _ o v rest, b, a => by
    simp only [ftapeF, fcntF, List.length_append, List.length_cons, List.length_nil, len_ftapeV v, len_ftapeF rest]
    try omega
  | .consImp _ _ v rest, b, a => by
    simp only [ftapeF, fcntF, List.length_append, List.length_cons, List.length_nil, len_ftapeV v, len_ftapeF rest]
    try omega
  | .ghost _ _ rest, b, a => by simp only [ftapeF, fcntF, len_ftapeF rest]
  | .consHdr _ _ _ o _ _ body rest, b, a => by
    simp only [ftapeF, fcntF, List.length_append, List.length_cons, List.length_nil, len_ftapeV body, len_ftapeF rest]
    try omega
  | .paramVal _ _ _ _ _ _ rest, b, a => by
    simp only [ftapeF, fcntF, List.length_append, List.length_cons, List.length_nil, len_ftapeF rest]
    try omega
  | .paramObj _ _ _ _ _ _ o v inner _ rest, b, a => by
    simp only [ftapeF, fcntF, List.length_append, List.length_cons, List.length_nil, len_ftapeV v, len_ftapeF inner,
      len_ftapeF rest]
    try omega
  | .paramHdr _ _ _ _ _ _ body rest, b, a => by
    simp only [ftapeF, fcntF, List.length_append, List.length_cons, List.length_nil, len_ftapeV body, len_ftapeF rest]
    try omega
theorem len_ftapeVs : ∀ (vs : FVals) (b : Nat) (a : Bytes), (ftapeVs vs b a).length = fcntVs vs
  | .nil, _, _ => by simp [ftapeVs, fcntVs]
  | .cons v rest, b, a => by
    simp only [ftapeVs, fcntVs, List.length_append, len_ftapeV v, len_ftapeVs rest]
theorem len_ftapeI : ∀ (is : FItems) (b : Nat) (a : Bytes), (ftapeI is b a).length = fcntI is
  | .nil, _, _ => by simp [ftapeI, fcntI]
  | .scal _ _ rest, b, a => by simp only [ftapeI, fcntI, List.length_cons, len_ftapeI rest]; omega
  | .op _ _ rest, b, a => by simp only [ftapeI, fcntI, List.length_cons, len_ftapeI rest]; omega
  | .cont v rest, b, a => by simp only [ftapeI, fcntI, List.length_append, len_ftapeV v, len_ftapeI rest]
end

theorem fbraced_open {v : FVal} {a : Bytes} (hc : v.isBraced) (hv : FValidV v a) :
    ∃ g X, frenderV v = g ++ 123 :: X ∧ Blank g := by
  cases v <;> simp [FVal.isBraced] at hc <;> simp only [FValidV] at hv <;> exact ⟨_, _, rfl, hv.1⟩

theorem frender_inner {v : FVal} (hc : v.isBraced) : frenderV v = v.gap ++ 123 :: finner v := by
  cases v <;> simp [FVal.isBraced] at hc <;> simp [frenderV, finner, FVal.gap]

theorem fbraced_gap {v : FVal} {a : Bytes} (hc : v.isBraced) (hv : FValidV v a) : Blank v.gap := by
  cases v <;> simp [FVal.isBraced] at hc <;> simp only [FValidV] at hv <;> exact hv.1

theorem head_open {g : Bytes} (X : Bytes) (hg : Blank g) : (g ++ 123 :: X).head? ≠ some 61 := by
  cases hg with
  | nil => simp
  | ws c w hc _ =>
    simp only [List.cons_append, List.head?_cons, ne_eq, Option.some.injEq]
    intro h; subst h; simp [blank_eq] at hc
  | comment body w _ _ => simp

/-- a value's rendering never starts with `=`. -/
theorem head_frenderV (v : FVal) (after Z : Bytes) (hv : FValidV v after) :
    (frenderV v ++ Z).head? ≠ some 61 := by
  cases v with
  | scal g s =>
    simp only [FValidV] at hv
    simp only [frenderV, List.append_assoc]
    exact head_blank_scalX hv.1 hv.2.1 Z
  | empty g gc =>
    simp only [FValidV] at hv
    simp only [frenderV, List.append_assoc, List.cons_append]; exact head_open _ hv.1
  | obj g g0 first rest gc =>
    simp only [FValidV] at hv
    simp only [frenderV, List.append_assoc, List.cons_append]; exact head_open _ hv.1
  | arrS g g0 s0 rest gc =>
    simp only [FValidV] at hv
    simp only [frenderV, List.append_assoc, List.cons_append]; exact head_open _ hv.1
  | arrC g first rest gc =>
    simp only [FValidV] at hv
    simp only [frenderV, List.append_assoc, List.cons_append]; exact head_open _ hv.1
  | ghostIn g b1 b2 v =>
    simp only [FValidV] at hv
    simp only [frenderV, List.append_assoc, List.cons_append]; exact head_open _ hv.1
  | mixed g g0 first rest gm m0 items gc =>
    simp only [FValidV] at hv
    simp only [frenderV, List.append_assoc, List.cons_append]; exact head_open _ hv.1
  | arrSM g g0 s0 pre gm m0 go o items gc =>
    simp only [FValidV] at hv
    simp only [frenderV, List.append_assoc, List.cons_append]; exact head_open _ hv.1
  | arrCM g first pre gm m0 go o items gc =>
    simp only [FValidV] at hv
    simp only [frenderV, List.append_assoc, List.cons_append]; exact head_open _ hv.1

theorem scal_head_skip {g0 : Bytes} {s : Scal} (Y : Bytes) (h0 : Blank g0) (hs : s.ValidX) :
    ∃ c2 r2, skipWs (g0 ++ (s.text ++ Y)) = some (c2 :: r2) ∧ c2 ≠ 125 := by
  obtain ⟨c, r, htx, _, _, h125, _⟩ := hs.head
  refine ⟨c, r ++ Y, ?_, h125⟩
  rw [skipWs_blank h0, skipWs_scalX hs, htx]; rfl

theorem Blank.append {a b : Bytes} (ha : Blank a) (hb : Blank b) : Blank (a ++ b) := by
  induction ha with
  | nil => simpa using hb
  | ws c w hc _ ih => exact .ws c _ hc ih
  | comment body w hbody _ ih =>
    have : 35 :: (body ++ 10 :: w) ++ b = 35 :: (body ++ 10 :: (w ++ b)) := by simp
    rw [this]; exact .comment body _ hbody ih

/-- what stands first in a nested object is not a `}` -/
theorem first_head {first : FFirst} {a : Bytes} (hv : FValidFirst first a) {g0 : Bytes} (h0 : Blank g0)
    (Y : Bytes) : ∃ c2 r2, skipWs (g0 ++ (frenderFirst first ++ Y)) = some (c2 :: r2) ∧ c2 ≠ 125 := by
  cases first with
  | kv k g1 o v =>
    simp only [FValidFirst] at hv
    simp only [frenderFirst, List.append_assoc]
    exact scal_head_skip _ h0 hv.2.1
  | flds f =>
    simp only [FValidFirst] at hv
    obtain ⟨hs, hv⟩ := hv
    have hbr : ∀ (g : Bytes) (Z : Bytes), Blank g → ∃ c2 r2, skipWs (g0 ++ (g ++ 91 :: Z)) = some (c2 :: r2) ∧ c2 ≠ 125 :=
      fun g Z hg => ⟨91, Z, by rw [skipWs_blank h0, skipWs_blank hg, skipWs_cons _ blank_open_br (by decide)],
        by decide⟩
    cases f with
    | consHdr g0' k g1 o gh h body rest =>
      simp only [FValidF] at hv
      simp only [frenderFirst, frenderF, List.append_assoc]
      rw [← List.append_assoc]
      exact scal_head_skip _ (h0.append hv.1) hv.2.2.2.1
    | paramVal g0' isU name g1 val g2 rest =>
      simp only [FValidF] at hv
      simp only [frenderFirst, frenderF, paramOpen, List.append_assoc, List.cons_append]
      exact hbr _ _ hv.1
    | paramObj g0' isU name g1 k g2 o v inner gc rest =>
      simp only [FValidF] at hv
      simp only [frenderFirst, frenderF, paramOpen, List.append_assoc, List.cons_append]
      exact hbr _ _ hv.1
    | paramHdr g0' isU name g1 val g2 body rest =>
      simp only [FValidF] at hv
      simp only [frenderFirst, frenderF, paramOpen, List.append_assoc, List.cons_append]
      exact hbr _ _ hv.1
    | nil => simp [FFields.startsSpecial] at hs
    | cons _ _ _ _ _ _ => simp [FFields.startsSpecial] at hs
    | consImp _ _ _ _ => simp [FFields.startsSpecial] at hs
    | ghost _ _ _ => simp [FFields.startsSpecial] at hs

theorem fcontainer_open {v : FVal} {a : Bytes} (hc : v.isContainer) (hv : FValidV v a) :
    ∃ g X, frenderV v = g ++ 123 :: X ∧ Blank g := by
  cases v <;> simp [FVal.isContainer] at hc <;> simp only [FValidV] at hv <;> exact ⟨_, _, rfl, hv.1⟩

/-- a non-empty container: blanks, `{`, and what follows is not a `}` -/
theorem fcontainer_head {v : FVal} {a : Bytes} (hc : v.isContainer) (hv : FValidV v a) (W : Bytes) :
    ∃ g X, frenderV v ++ W = g ++ 123 :: X ∧ Blank g ∧ ∃ c2 r2, skipWs X = some (c2 :: r2) ∧ c2 ≠ 125 := by
  cases v with
  | scal g s => simp [FVal.isContainer] at hc
  | empty g gc => simp [FVal.isContainer] at hc
  | obj g g0 first rest gc =>
    simp only [FValidV] at hv
    refine ⟨g, _, by simp only [frenderV, List.append_assoc, List.cons_append]; rfl, hv.1, ?_⟩
    exact first_head hv.2.2.2.1 hv.2.1 _
  | arrS g g0 s0 rest gc =>
    simp only [FValidV] at hv
    refine ⟨g, _, by simp only [frenderV, List.append_assoc, List.cons_append]; rfl, hv.1, ?_⟩
    exact scal_head_skip _ hv.2.1 hv.2.2.2.1
  | arrC g first rest gc =>
    simp only [FValidV] at hv
    obtain ⟨g', X', hr, hg'⟩ := fcontainer_open hv.2.2.1 hv.2.2.2.1
    refine ⟨g, _, by simp only [frenderV, List.append_assoc, List.cons_append]; rfl, hv.1, 123, ?_⟩
    rw [hr]
    simp only [List.append_assoc, List.cons_append]
    exact ⟨_, by rw [skipWs_blank hg', skipWs_cons _ blank_open (by decide)], by decide⟩
  | ghostIn g b1 b2 v =>
    simp only [FValidV] at hv
    refine ⟨g, _, by simp only [frenderV, List.append_assoc, List.cons_append]; rfl, hv.1, 123,
      b2 ++ 125 :: (finner v ++ W), ?_, by decide⟩
    rw [skipWs_blank hv.2.1, skipWs_cons _ blank_open (by decide)]
  | mixed g g0 first rest gm m0 items gc =>
    simp only [FValidV] at hv
    refine ⟨g, _, by simp only [frenderV, List.append_assoc, List.cons_append]; rfl, hv.1, ?_⟩
    exact first_head hv.2.2.2.2.1 hv.2.1 _
  | arrSM g g0 s0 pre gm m0 go o items gc =>
    simp only [FValidV] at hv
    refine ⟨g, _, by simp only [frenderV, List.append_assoc, List.cons_append]; rfl, hv.1, ?_⟩
    exact scal_head_skip _ hv.2.1 hv.2.2.2.2.2.1
  | arrCM g first pre gm m0 go o items gc =>
    simp only [FValidV] at hv
    obtain ⟨g', X', hr, hg'⟩ := fcontainer_open hv.2.2.2.2.1 hv.2.2.2.2.2.1
    refine ⟨g, _, by simp only [frenderV, List.append_assoc, List.cons_append]; rfl, hv.1, 123, ?_⟩
    rw [hr]
    simp only [List.append_assoc, List.cons_append]
    exact ⟨_, by rw [skipWs_blank hg', skipWs_cons _ blank_open (by decide)], by decide⟩

theorem skipWs_open_some {g : Bytes} (X : Bytes) (hg : Blank g) : ∃ d2, skipWs (g ++ 123 :: X) = some d2 :=
  ⟨_, by rw [skipWs_blank hg, skipWs_cons X blank_open (by decide)]⟩

theorem skipWs_frenderV_some {v : FVal} {a : Bytes} (hv : FValidV v a) (W : Bytes) :
    ∃ d2, skipWs (frenderV v ++ W) = some d2 := by
  cases v with
  | scal g s =>
    simp only [FValidV] at hv
    exact ⟨_, by simp only [frenderV, List.append_assoc]; rw [skipWs_blank hv.1, skipWs_scalX hv.2.1]⟩
  | empty g gc => simp only [FValidV] at hv; simpa [frenderV] using skipWs_open_some _ hv.1
  | obj g g0 first rest gc => simp only [FValidV] at hv; simpa [frenderV] using skipWs_open_some _ hv.1
  | arrS g g0 s0 rest gc => simp only [FValidV] at hv; simpa [frenderV] using skipWs_open_some _ hv.1
  | arrC g first rest gc => simp only [FValidV] at hv; simpa [frenderV] using skipWs_open_some _ hv.1
  | ghostIn g b1 b2 v => simp only [FValidV] at hv; simpa [frenderV] using skipWs_open_some _ hv.1
  | mixed g g0 first rest gm m0 items gc =>
    simp only [FValidV] at hv; simpa [frenderV] using skipWs_open_some _ hv.1
  | arrSM g g0 s0 pre gm m0 go o items gc =>
    simp only [FValidV] at hv; simpa [frenderV] using skipWs_open_some _ hv.1
  | arrCM g first pre gm m0 go o items gc =>
    simp only [FValidV] at hv; simpa [frenderV] using skipWs_open_some _ hv.1

theorem skipWs_fvals_scal_some {vs : FVals} {a : Bytes} (hv : FValidVs vs a) {gm : Bytes} {m0 : Scal}
    (hgm : Blank gm) (hm0 : m0.ValidX) (W : Bytes) (ha : a = gm ++ (m0.text ++ W)) :
    ∃ d2, skipWs (frenderVs vs ++ a) = some d2 := by
  subst ha
  cases vs with
  | nil => exact ⟨_, by simp only [frenderVs, List.nil_append]; rw [skipWs_blank hgm, skipWs_scalX hm0]⟩
  | cons v rest =>
    simp only [FValidVs] at hv
    simp only [frenderVs, List.append_assoc]
    exact skipWs_frenderV_some hv.1 _

theorem skipWs_fvals_some {vs : FVals} {a : Bytes} (hv : FValidVs vs a) {gc : Bytes} (hgc : Blank gc) (Y : Bytes) :
    ∃ d2, skipWs (frenderVs vs ++ (gc ++ 125 :: Y)) = some d2 := by
  cases vs with
  | nil => exact ⟨_, by simp only [frenderVs, List.nil_append]; rw [skipWs_blank hgc, skipWs_cons Y blank_close (by decide)]⟩
  | cons v rest =>
    simp only [FValidVs] at hv
    simp only [frenderVs, List.append_assoc]
    exact skipWs_frenderV_some hv.1 _

theorem skipWs_fitems_some {is : FItems} {a : Bytes} (hv : FValidI is a) {gc : Bytes} (hgc : Blank gc) (Y : Bytes)
    (ha : a = gc ++ 125 :: Y) : ∃ d2, skipWs (frenderI is ++ a) = some d2 := by
  subst ha
  cases is with
  | nil => exact ⟨_, by simp only [frenderI, List.nil_append]; rw [skipWs_blank hgc, skipWs_cons Y blank_close (by decide)]⟩
  | scal g s rest =>
    simp only [FValidI] at hv
    exact ⟨_, by simp only [frenderI, List.append_assoc]; rw [skipWs_blank hv.1, skipWs_scalX hv.2.1]⟩
  | op g o rest =>
    simp only [FValidI] at hv
    exact ⟨_, by simp only [frenderI, List.append_assoc]; rw [skipWs_blank hv.1, skipWs_op]⟩
  | cont v rest =>
    simp only [FValidI] at hv
    simp only [frenderI, List.append_assoc]
    exact skipWs_frenderV_some hv.2.1 _

/-! ### a scalar-led container as an element of a container in mixed mode -/

/-- a first field that starts with a scalar key reads `key blanks op …` -/
theorem first_scalarLed_shape {first : FFirst} {a : Bytes} (hs : first.scalarLed) (hv : FValidFirst first a) :
    ∃ (gx : Bytes) (k : Scal) (g1 : Bytes) (o : Op) (Y : Bytes),
      frenderFirst first = gx ++ (k.text ++ (g1 ++ (o.text ++ Y))) ∧
      Blank gx ∧ Blank g1 ∧ k.ValidX ∧ (k.quoted = false → StartsBoundary (g1 ++ o.text)) := by
  cases first with
  | kv k g1 o v =>
    simp only [FValidFirst] at hv
    exact ⟨[], k, g1, o, frenderV v, by simp [frenderFirst], .nil, hv.1, hv.2.1, hv.2.2.1⟩
  | flds f =>
    simp only [FValidFirst] at hv
    cases f <;> simp [FFirst.scalarLed, FFields.hdrLed] at hs
    next g0' k g1 o gh h body rest =>
      have hv := hv.2
      simp only [FValidF] at hv
      exact ⟨g0', k, g1, o, gh ++ (h.text ++ (frenderV body ++ frenderF rest)), by simp only [frenderFirst, frenderF],
        hv.1, hv.2.1, hv.2.2.2.1, hv.2.2.2.2.1⟩

/-- in mixed mode ParseOpen flags the enclosing container and leaves mixed mode; from then on the
run is the one that starts outside mixed mode on the flagged tape -/
theorem run_mixed_eq {n : Nat} {v : FVal} {after : Bytes} (f : Nat) (st : St)
    (hsl : v.scalarLed) (hv : FValidV v after) (hst : st.state = .arrayValue) (hm : st.mixed = true)
    (hp : st.parent < st.tape.length) :
    run n (f + 2) st (frenderV v ++ after) =
      run n (f + 2) { st with mixed := false, tape := setFlag st.tape st.parent } (frenderV v ++ after) := by
  have key : ∀ (g g0 Y : Bytes) (k : Scal) (g1 : Bytes) (o : Op), Blank g → Blank g0 → Blank g1 → k.ValidX →
      (k.quoted = false → StartsBoundary (g1 ++ o.text)) →
      run n (f + 2) st (g ++ 123 :: (g0 ++ (k.text ++ (g1 ++ (o.text ++ Y))))) =
        run n (f + 2) { st with mixed := false, tape := setFlag st.tape st.parent }
          (g ++ 123 :: (g0 ++ (k.text ++ (g1 ++ (o.text ++ Y))))) := by
    intro g g0 Y k g1 o hg h0 h1 hk hkb
    have hL : run n (f + 2) st (g ++ 123 :: (g0 ++ (k.text ++ (g1 ++ (o.text ++ Y))))) =
        run n f ⟨.kvs, false, st.tape.length,
          flagIf st.mixed st.tape st.parent ++ [.object st.parent false, k.tok (g1 ++ (o.text ++ Y))]⟩ (o.text ++ Y) := by
      rw [show f + 2 = (f + 1) + 1 from rfl, run_cont (step_open (.inr hst) hg)]
      rw [run_cont (step_parseopen_field_m (T := st.tape) rfl rfl (by exact hp) h0 hk h1 hkb)]
    have hR : run n (f + 2) ({ st with mixed := false, tape := setFlag st.tape st.parent } : St)
          (g ++ 123 :: (g0 ++ (k.text ++ (g1 ++ (o.text ++ Y))))) =
        run n f ⟨.kvs, false, (setFlag st.tape st.parent).length,
          flagIf false (setFlag st.tape st.parent) st.parent ++
            [.object st.parent false, k.tok (g1 ++ (o.text ++ Y))]⟩ (o.text ++ Y) := by
      rw [show f + 2 = (f + 1) + 1 from rfl,
        run_cont (step_open (st := { st with mixed := false, tape := setFlag st.tape st.parent }) (.inr hst) hg)]
      rw [run_cont (step_parseopen_field_m (T := setFlag st.tape st.parent) rfl rfl
        (by simpa [setFlag_length] using hp) h0 hk h1 hkb)]
    rw [hL, hR]
    simp [flagIf, setFlag_length, hm]
  cases v with
  | scal g s => simp [FVal.scalarLed] at hsl
  | empty g gc => simp [FVal.scalarLed] at hsl
  | arrC g first rest gc => simp [FVal.scalarLed] at hsl
  | ghostIn g b1 b2 v => simp [FVal.scalarLed] at hsl
  | arrCM g first pre gm m0 go o items gc => simp [FVal.scalarLed] at hsl
  | arrSM g g0 s0 pre gm m0 go o items gc =>
    simp only [FValidV] at hv
    obtain ⟨hg, h0, hgm, hgo, hgc, hs0, hsb, hpk, hvp, hm0, _⟩ := hv
    obtain ⟨d2, hd2⟩ := skipWs_fvals_scal_some hvp hgm hm0 _ rfl
    simp only [frenderV, List.append_assoc, List.cons_append, List.nil_append]
    have hL : ∀ Z, skipWs Z = some d2 → firstFieldPeek d2 = false → (s0.quoted = false → StartsBoundary Z) →
        run n (f + 2) st (g ++ 123 :: (g0 ++ (s0.text ++ Z))) =
        run n f ⟨.arrayValue, false, st.tape.length,
          flagIf st.mixed st.tape st.parent ++ [.array st.parent false, s0.tok Z]⟩ d2 := by
      intro Z hZ hpkZ hsbZ
      rw [show f + 2 = (f + 1) + 1 from rfl, run_cont (step_open (.inr hst) hg)]
      rw [run_cont (step_parseopen_scalar_arr_m (T := st.tape) rfl rfl (by exact hp) h0 hs0 hsbZ hZ hpkZ)]
    have hR : ∀ Z, skipWs Z = some d2 → firstFieldPeek d2 = false → (s0.quoted = false → StartsBoundary Z) →
        run n (f + 2) ({ st with mixed := false, tape := setFlag st.tape st.parent } : St)
          (g ++ 123 :: (g0 ++ (s0.text ++ Z))) =
        run n f ⟨.arrayValue, false, (setFlag st.tape st.parent).length,
          flagIf false (setFlag st.tape st.parent) st.parent ++ [.array st.parent false, s0.tok Z]⟩ d2 := by
      intro Z hZ hpkZ hsbZ
      rw [show f + 2 = (f + 1) + 1 from rfl,
        run_cont (step_open (st := { st with mixed := false, tape := setFlag st.tape st.parent }) (.inr hst) hg)]
      rw [run_cont (step_parseopen_scalar_arr_m (T := setFlag st.tape st.parent) rfl rfl
        (by simpa [setFlag_length] using hp) h0 hs0 hsbZ hZ hpkZ)]
    rw [hL _ hd2 (hpk d2 hd2) hsb, hR _ hd2 (hpk d2 hd2) hsb]
    simp [flagIf, setFlag_length, hm]
  | obj g g0 first rest gc =>
    simp only [FVal.scalarLed] at hsl
    simp only [FValidV] at hv
    obtain ⟨gx, k, g1, o, Y, hsh, hgx, h1, hk, hkb⟩ := first_scalarLed_shape hsl hv.2.2.2.1
    simp only [frenderV, hsh, List.append_assoc, List.cons_append]
    rw [← List.append_assoc g0 gx]
    exact key g (g0 ++ gx) _ k g1 o hv.1 (hv.2.1.append hgx) h1 hk hkb
  | mixed g g0 first rest gm m0 items gc =>
    simp only [FVal.scalarLed] at hsl
    simp only [FValidV] at hv
    obtain ⟨gx, k, g1, o, Y, hsh, hgx, h1, hk, hkb⟩ := first_scalarLed_shape hsl hv.2.2.2.2.1
    simp only [frenderV, hsh, List.append_assoc, List.cons_append]
    rw [← List.append_assoc g0 gx]
    exact key g (g0 ++ gx) _ k g1 o hv.1 (hv.2.1.append hgx) h1 hk hkb
  | arrS g g0 s0 rest gc =>
    simp only [FValidV] at hv
    obtain ⟨hg, h0, hgc, hs0, hsb, hpk, hvr⟩ := hv
    obtain ⟨d2, hd2⟩ := skipWs_fvals_some hvr hgc after
    simp only [frenderV, List.append_assoc, List.cons_append, List.nil_append]
    have hL : run n (f + 2) st (g ++ 123 :: (g0 ++ (s0.text ++ (frenderVs rest ++ (gc ++ 125 :: after))))) =
        run n f ⟨.arrayValue, false, st.tape.length,
          flagIf st.mixed st.tape st.parent ++
            [.array st.parent false, s0.tok (frenderVs rest ++ (gc ++ 125 :: after))]⟩ d2 := by
      rw [show f + 2 = (f + 1) + 1 from rfl, run_cont (step_open (.inr hst) hg)]
      rw [run_cont (step_parseopen_scalar_arr_m (T := st.tape) rfl rfl (by exact hp) h0 hs0 hsb hd2 (hpk d2 hd2))]
    have hR : run n (f + 2) ({ st with mixed := false, tape := setFlag st.tape st.parent } : St)
          (g ++ 123 :: (g0 ++ (s0.text ++ (frenderVs rest ++ (gc ++ 125 :: after))))) =
        run n f ⟨.arrayValue, false, (setFlag st.tape st.parent).length,
          flagIf false (setFlag st.tape st.parent) st.parent ++
            [.array st.parent false, s0.tok (frenderVs rest ++ (gc ++ 125 :: after))]⟩ d2 := by
      rw [show f + 2 = (f + 1) + 1 from rfl,
        run_cont (step_open (st := { st with mixed := false, tape := setFlag st.tape st.parent }) (.inr hst) hg)]
      rw [run_cont (step_parseopen_scalar_arr_m (T := setFlag st.tape st.parent) rfl rfl
        (by simpa [setFlag_length] using hp) h0 hs0 hsb hd2 (hpk d2 hd2))]
    rw [hL, hR]
    simp [flagIf, setFlag_length, hm]

theorem fsteps_scalarLed {v : FVal} (h : v.scalarLed) : 2 ≤ fstepsV v := by
  cases v <;> simp [FVal.scalarLed] at h <;> simp [fstepsV] <;> omega

theorem scalarLed_braced {v : FVal} (h : v.scalarLed) : v.bracedB = true := by
  cases v <;> simp [FVal.scalarLed] at h <;> rfl

/-- a first field that starts with a scalar key: ParseOpen and Key lead to the same state two
iterations later -/
theorem run_first_key_scal {n : Nat} (F : Nat) (T : List Tok) (P : Nat) {g0 g1 : Bytes} {k : Scal} {o : Op}
    {Y : Bytes} (h0 : Blank g0) (hk : k.ValidX) (h1 : Blank g1)
    (hkb : k.quoted = false → StartsBoundary (g1 ++ o.text)) (hY : Y.head? ≠ some 61) :
    run n (F + 2) ⟨.parseOpen, false, P, T ++ [.array 0 false]⟩ (g0 ++ (k.text ++ (g1 ++ (o.text ++ Y)))) =
      run n (F + 2) ⟨.key, false, T.length, T ++ [.object P false]⟩ (g0 ++ (k.text ++ (g1 ++ (o.text ++ Y)))) := by
  have hkX : k.quoted = false → StartsBoundary (g1 ++ (o.text ++ Y)) := by
    intro hq
    rcases hkb hq with h | ⟨c', r', h, hc'⟩
    · have : o.text ≠ [] := by cases o <;> simp [Op.text]
      simp at h; exact absurd h.2 this
    · exact .inr ⟨c', r' ++ Y, by rw [← List.cons_append, ← h]; simp, hc'⟩
  have hL : run n (F + 2) ⟨.parseOpen, false, P, T ++ [.array 0 false]⟩ (g0 ++ (k.text ++ (g1 ++ (o.text ++ Y)))) =
      run n F ⟨.objectValue, false, T.length, T ++ [.object P false, k.tok (g1 ++ (o.text ++ Y))] ++ o.toks⟩ Y := by
    rw [show F + 2 = (F + 1) + 1 from rfl, run_cont (step_parseopen_fieldX (T := T) rfl rfl rfl h0 hk h1 hkb)]
    have hop := step_kvs_op (n := n) (g := []) (o := o)
      (st := { state := .kvs, mixed := false, parent := T.length,
               tape := T ++ [.object P false, k.tok (g1 ++ (o.text ++ Y))] }) (Y := Y) rfl rfl .nil hY
    simp only [List.nil_append] at hop
    rw [run_cont hop]
  have hR : run n (F + 2) ⟨.key, false, T.length, T ++ [.object P false]⟩ (g0 ++ (k.text ++ (g1 ++ (o.text ++ Y)))) =
      run n F ⟨.objectValue, false, T.length, T ++ [.object P false, k.tok (g1 ++ (o.text ++ Y))] ++ o.toks⟩ Y := by
    rw [show F + 2 = (F + 1) + 1 from rfl, run_cont (step_key_scalX rfl h0 hk hkX)]
    rw [run_cont (step_kvs_op (by simp) (by simp) h1 hY)]
    simp
  rw [hL, hR]

/-- a parameter block as first field: ParseOpen turns the placeholder into the object and goes on
exactly as Key does inside that object -/
theorem step_parseopen_param {n : Nat} (T : List Tok) (P : Nat) {g : Bytes} (X : Bytes) (hg : Blank g) :
    step n ⟨.parseOpen, false, P, T ++ [.array 0 false]⟩ (g ++ 91 :: 91 :: X) =
      step n ⟨.key, false, T.length, T ++ [.object P false]⟩ (g ++ 91 :: 91 :: X) := by
  simp only [step, skipWs_blank hg, skipWs_cons _ blank_open_br (by decide), stepAt]
  simp [stepParseOpen, stepKey, paramDef, paramDefPre, setTok]

theorem flagIf_append (b : Bool) (T R : List Tok) (p : Nat) (hp : p < T.length) :
    flagIf b (T ++ R) p = flagIf b T p ++ R := by
  unfold flagIf; split
  · exact setFlag_append T R p hp
  · rfl

theorem flagIf_setFlag (b : Bool) (T V : List Tok) (p : Nat) (hp : p < T.length) :
    flagIf b (setFlag T p ++ V) p = setFlag T p ++ V := by
  unfold flagIf; split
  · rw [setFlag_append _ _ _ (by rw [setFlag_length]; exact hp), setFlag_idem]
  · rfl

/-- the context of the array part inside the container `c` just opened at index `|st.tape|` -/
theorem ctxM_open {st : St} {cm : Bool} (hc : CtxC st cm) (hne : st.tape ≠ []) (c : Tok) (R : List Tok)
    (hcont : ∃ e m, c = .object e m ∨ c = .array e m) :
    CtxM ⟨.arrayValue, true, st.tape.length, st.tape ++ c :: R⟩ := by
  have hlen : 0 < st.tape.length := List.length_pos_iff.2 hne
  refine ⟨?_, by simp, ?_⟩
  · intro e m
    simp only
    rw [List.getElem?_append_left hlen]
    exact hc.zero e m
  · obtain ⟨e, m, h | h⟩ := hcont
    · exact ⟨e, m, .inl (by simp [h])⟩
    · exact ⟨e, m, .inr (by simp [h])⟩

/-- the array part of an array in mixed mode, then `}` (`hI` is what `frun_I` says about the items) -/
theorem run_close_mixed_arr {n : Nat} {st : St} {cm : Bool} (hc : CtxC st cm) (hne : st.tape ≠ [])
    (R : List Tok) (items : FItems) (gc after : Bytes) (hgc : Blank gc) (fuel : Nat)
    (hI : run n (fuel + 1 + fstepsI items) ⟨.arrayValue, true, st.tape.length, st.tape ++ Tok.array st.parent false :: R⟩
        (frenderI items ++ (gc ++ 125 :: after)) =
      run n (fuel + 1) ⟨.arrayValue, true, st.tape.length,
        flagIf items.hasCont (st.tape ++ Tok.array st.parent false :: R) st.tape.length ++
          ftapeI items (st.tape ++ Tok.array st.parent false :: R).length (gc ++ 125 :: after)⟩
        (gc ++ 125 :: after)) :
    run n (fuel + 1 + fstepsI items) ⟨.arrayValue, true, st.tape.length, st.tape ++ Tok.array st.parent false :: R⟩
        (frenderI items ++ (gc ++ 125 :: after)) =
      run n fuel { st with
        tape := st.tape ++ Tok.array (st.tape.length + 1 + R.length + fcntI items) true ::
          (R ++ (ftapeI items (st.tape.length + 1 + R.length) (gc ++ 125 :: after) ++ [.endTok st.tape.length])),
        state := ret st.state, mixed := if cm then true else st.mixed } after := by
  have hlen : 0 < st.tape.length := List.length_pos_iff.2 hne
  rw [hI]
  have hpar : ∃ mf, (flagIf items.hasCont (st.tape ++ Tok.array st.parent false :: R) st.tape.length ++
      ftapeI items (st.tape ++ Tok.array st.parent false :: R).length (gc ++ 125 :: after))[st.tape.length]? =
      some (.array st.parent mf) := by
    rw [List.getElem?_append_left (by rw [flagIf_length]; simp)]
    unfold flagIf
    split
    · exact ⟨true, by simp [setFlag]⟩
    · exact ⟨false, by simp⟩
  obtain ⟨mf, hmf⟩ := hpar
  have hcs : closeState (flagIf items.hasCont (st.tape ++ Tok.array st.parent false :: R) st.tape.length ++
      ftapeI items (st.tape ++ Tok.array st.parent false :: R).length (gc ++ 125 :: after))[st.parent]? =
      (cm, ret st.state) := by
    have hpl := hc.plt' hne
    rw [List.getElem?_append_left (by rw [flagIf_length]; simp; omega)]
    have : (flagIf items.hasCont (st.tape ++ Tok.array st.parent false :: R) st.tape.length)[st.parent]? =
        st.tape[st.parent]? := by
      unfold flagIf
      split
      · rw [setFlag_get _ _ _ (by omega), List.getElem?_append_left hpl]
      · rw [List.getElem?_append_left hpl]
    rw [this]; exact hc.close
  rw [run_cont (step_av_close_c (P := st.parent) (mf := mf) (cm := cm) (r := ret st.state) rfl hgc
    (by simp; omega) (by simp [flagIf_length]; omega) hmf hcs)]
  congr 1
  refine St.ext' rfl (by cases cm <;> simp [hc.mixed]) rfl ?_
  simp only
  rw [List.set_append_left _ _ (by rw [flagIf_length]; simp)]
  have hfs : ∀ Y, (flagIf items.hasCont (st.tape ++ Tok.array st.parent false :: R) st.tape.length).set st.tape.length Y =
      st.tape ++ Y :: R := by
    intro Y
    unfold flagIf
    split
    · rw [setFlag_set, List.set_append_right _ _ (Nat.le_refl _)]; simp
    · rw [List.set_append_right _ _ (Nat.le_refl _)]; simp
  rw [hfs]
  simp only [List.length_append, List.length_cons, flagIf_length, len_ftapeI, List.append_assoc,
    List.cons_append, List.nil_append]
  simp only [Nat.add_assoc, Nat.add_comm, Nat.add_left_comm]

/-! ### whole values, first fields, field lists, element lists, array parts -/

mutual
theorem frun_V (n : Nat) : ∀ (v : FVal) (after : Bytes) (fuel : Nat) (st : St) (cm : Bool),
    FValidV v after → (st.state = .objectValue ∨ st.state = .arrayValue) → CtxC st cm → st.tape ≠ [] →
    run n (fuel + fstepsV v) st (frenderV v ++ after) =
      run n fuel { st with tape := st.tape ++ ftapeV v st.tape.length after, state := ret st.state,
                           mixed := if cm then v.bracedB else st.mixed } after
  | .scal g s, after, fuel, st, cm, hv, hst, hc, _ => by
    simp only [FValidV] at hv
    simp only [fstepsV, frenderV, ftapeV, List.append_assoc]
    rw [run_cont (step_valX hst hv.1 hv.2.1 hv.2.2)]
    congr 1
    exact St.ext' rfl (by cases cm <;> simp [FVal.bracedB, hc.mixed]) rfl rfl
  | .empty g gc, after, fuel, st, cm, hv, hst, hc, hne => by
    simp only [FValidV] at hv
    have hfuel : fuel + fstepsV (.empty g gc) = (fuel + 1) + 1 := by simp only [fstepsV]
    rw [hfuel]
    simp only [frenderV, List.append_assoc, List.cons_append, List.nil_append]
    rw [run_cont (step_open hst hv.1)]
    rw [run_cont (step_parseopen_empty_c (T := st.tape) (cm := cm) (r := ret st.state) rfl rfl hv.2
      (by simpa using hc.close_append hne _))]
    congr 1
    exact St.ext' rfl (by cases cm <;> simp [FVal.bracedB, hc.mixed]) rfl (by simp [ftapeV])
  | .obj g g0 first rest gc, after, fuel, st, cm, hv, hst, hc, hne => by
    simp only [FValidV] at hv
    obtain ⟨hg, h0, hgc, hvf, hvr⟩ := hv
    have hlen : 0 < st.tape.length := List.length_pos_iff.2 hne
    have hfuel : fuel + fstepsV (.obj g g0 first rest gc) =
        (((fuel + 1) + fstepsF rest) + fstepsFirst first) + 1 := by simp only [fstepsV]; omega
    rw [hfuel]
    simp only [frenderV, List.append_assoc, List.cons_append, List.nil_append]
    rw [run_cont (step_open hst hg)]
    have hs1 : ({ st with tape := st.tape ++ [.array 0 false], state := .parseOpen } : St) =
        ⟨.parseOpen, false, st.parent, st.tape ++ [.array 0 false]⟩ := St.ext' rfl hc.mixed rfl rfl
    rw [hs1, frun_First n first (frenderF rest ++ (gc ++ 125 :: after)) _ st.tape st.parent g0 hvf h0 hne hc.zero]
    rw [frun_F n rest (gc ++ 125 :: after) _ _ hvr rfl (ctx_inner hne hc.zero (.object st.parent false) _ .key rfl)]
    rw [run_cont (step_key_close_c (P := st.parent) (cm := cm) (r := ret st.state) rfl hgc (by simp; omega) (by simp)
      (by simp) (by simpa using hc.close_append hne _))]
    congr 1
    refine St.ext' rfl (by cases cm <;> simp [FVal.bracedB, hc.mixed]) rfl ?_
    simp only [ftapeV, List.length_append, List.length_cons, len_ftapeFirst, len_ftapeF,
      List.append_assoc, List.cons_append, List.nil_append]
    rw [List.set_append_right _ _ (Nat.le_refl _)]
    simp only [Nat.sub_self, List.set_cons_zero]
    simp only [Nat.add_assoc, Nat.add_comm, Nat.add_left_comm]
  | .arrS g g0 s0 rest gc, after, fuel, st, cm, hv, hst, hc, hne => by
    simp only [FValidV] at hv
    obtain ⟨hg, h0, hgc, hs0, hsb, hpk, hvr⟩ := hv
    have hlen : 0 < st.tape.length := List.length_pos_iff.2 hne
    have hfuel : fuel + fstepsV (.arrS g g0 s0 rest gc) = (((fuel + 1) + fstepsVs rest) + 1) + 1 := by
      simp only [fstepsV]; omega
    rw [hfuel]
    simp only [frenderV, List.append_assoc, List.cons_append, List.nil_append]
    rw [run_cont (step_open hst hg)]
    obtain ⟨d2, hd2⟩ := skipWs_fvals_some hvr hgc after
    rw [run_cont (step_parseopen_scalar_arrX (T := st.tape) rfl (by simpa using hc.mixed) rfl h0 hs0 hsb hd2
      (hpk d2 hd2))]
    rw [← run_skip hd2]
    simp only [List.append_assoc, List.cons_append, List.nil_append]
    rw [frun_Vs n rest (gc ++ 125 :: after) _ _ hvr rfl
      (ctx_inner hne hc.zero (.array st.parent false) _ .arrayValue rfl) (by simp)]
    rw [run_cont (step_av_close_c (P := st.parent) (mf := false) (cm := cm) (r := ret st.state) rfl hgc
      (by simp; omega) (by simp) (by simp) (by simpa using hc.close_append hne _))]
    congr 1
    refine St.ext' rfl (by cases cm <;> simp [FVal.bracedB, hc.mixed]) rfl ?_
    simp only [ftapeV, List.length_append, List.length_cons, List.length_nil, Nat.zero_add, len_ftapeVs,
      List.append_assoc, List.cons_append, List.nil_append]
    rw [List.set_append_right _ _ (Nat.le_refl _)]
    simp only [Nat.sub_self, List.set_cons_zero, List.append_assoc, List.cons_append]
    simp only [Nat.add_assoc, Nat.add_comm, Nat.add_left_comm]
  | .arrC g first rest gc, after, fuel, st, cm, hv, hst, hc, hne => by
    simp only [FValidV] at hv
    obtain ⟨hg, hgc, hfc, hvf, hvr⟩ := hv
    have hlen : 0 < st.tape.length := List.length_pos_iff.2 hne
    have hfuel : fuel + fstepsV (.arrC g first rest gc) =
        ((((fuel + 1) + fstepsVs rest) + fstepsV first) + 1) + 1 := by simp only [fstepsV]; omega
    rw [hfuel]
    simp only [frenderV, List.append_assoc, List.cons_append, List.nil_append]
    rw [run_cont (step_open hst hg)]
    obtain ⟨gf, Xf, hrf, hgf, c2, r2, hsk, hc2⟩ := fcontainer_head hfc hvf (frenderVs rest ++ (gc ++ 125 :: after))
    rw [hrf, run_cont (step_parseopen_container_arr (T := st.tape) rfl rfl hgf hsk hc2)]
    rw [← run_blank hgf, ← hrf]
    have hbr : first.bracedB = true := by cases first <;> simp [FVal.isContainer] at hfc <;> rfl
    rw [frun_V n first (frenderVs rest ++ (gc ++ 125 :: after)) _ _ false hvf (.inr rfl)
      (ctx_inner hne hc.zero (.array st.parent false) [] .arrayValue rfl).toC (by simp)]
    simp only [ret_av, List.append_assoc, List.cons_append, List.nil_append, Bool.false_eq_true, if_false]
    rw [frun_Vs n rest (gc ++ 125 :: after) _ _ hvr rfl
      (ctx_inner hne hc.zero (.array st.parent false) _ .arrayValue rfl) (by simp)]
    rw [run_cont (step_av_close_c (P := st.parent) (mf := false) (cm := cm) (r := ret st.state) rfl hgc
      (by simp; omega) (by simp) (by simp) (by simpa using hc.close_append hne _))]
    congr 1
    refine St.ext' rfl (by cases cm <;> simp [FVal.bracedB, hc.mixed]) rfl ?_
    simp only [ftapeV, List.length_append, List.length_cons, List.length_nil, len_ftapeV, len_ftapeVs,
      List.append_assoc, List.cons_append, List.nil_append]
    rw [List.set_append_right _ _ (Nat.le_refl _)]
    simp only [Nat.sub_self, List.set_cons_zero, List.append_assoc, List.cons_append]
    simp only [Nat.add_assoc, Nat.add_comm, Nat.add_left_comm]
  | .ghostIn g b1 b2 v, after, fuel, st, cm, hv, hst, hc, hne => by
    simp only [FValidV] at hv
    obtain ⟨hg, h1, h2, hbr, _, hvv⟩ := hv
    have hsteps : 1 ≤ fstepsV v := by cases v <;> simp [FVal.isBraced] at hbr <;> simp [fstepsV] <;> omega
    have hfuel : fuel + fstepsV (.ghostIn g b1 b2 v) = ((fuel + fstepsV v - 1) + 1) + 1 := by
      simp only [fstepsV]; omega
    rw [hfuel]
    simp only [frenderV, List.append_assoc, List.cons_append, List.nil_append]
    rw [run_cont (step_open hst hg)]
    rw [run_cont (step_parseopen_ghost rfl h1 h2)]
    have hback := run_cont (n := n) (m := fuel + fstepsV v - 1) (step_open (X := finner v ++ after) hst
      (fbraced_gap hbr hvv))
    rw [← hback]
    have hr : v.gap ++ 123 :: (finner v ++ after) = frenderV v ++ after := by
      rw [frender_inner hbr]; simp
    rw [hr, show fuel + fstepsV v - 1 + 1 = fuel + fstepsV v by omega]
    rw [frun_V n v after fuel st cm hvv hst hc hne]
    have hb : v.bracedB = true := by cases v <;> simp [FVal.isBraced] at hbr <;> rfl
    have e1 : (FVal.ghostIn g b1 b2 v).bracedB = true := rfl
    simp only [ftapeV, e1, hb]
  | .mixed g g0 first rest gm m0 items gc, after, fuel, st, cm, hv, hst, hc, hne => by
    simp only [FValidV] at hv
    obtain ⟨hg, h0, hgm, hgc, hvf, hvr, hm0, hm0b, hmx, hel⟩ := hv
    have hlen : 0 < st.tape.length := List.length_pos_iff.2 hne
    have hfuel : fuel + fstepsV (.mixed g g0 first rest gm m0 items gc) =
        ((((((fuel + 1) + fstepsI items) + 1) + 1) + fstepsF rest) + fstepsFirst first) + 1 := by
      simp only [fstepsV]; omega
    rw [hfuel]
    simp only [frenderV, List.append_assoc, List.cons_append, List.nil_append]
    rw [run_cont (step_open hst hg)]
    have hs1 : ({ st with tape := st.tape ++ [.array 0 false], state := .parseOpen } : St) =
        ⟨.parseOpen, false, st.parent, st.tape ++ [.array 0 false]⟩ := St.ext' rfl hc.mixed rfl rfl
    rw [hs1, frun_First n first (frenderF rest ++ (gm ++ (m0.text ++ (frenderI items ++ (gc ++ 125 :: after))))) _
      st.tape st.parent g0 hvf h0 hne hc.zero]
    rw [frun_F n rest (gm ++ (m0.text ++ (frenderI items ++ (gc ++ 125 :: after)))) _ _ hvr rfl
      (ctx_inner hne hc.zero (.object st.parent false) _ .key rfl)]
    -- the first element of the array part is first read as a key …
    rw [run_cont (step_key_scalX rfl hgm hm0 hm0b)]
    -- … until KeyValueSeparator finds no operator behind it
    obtain ⟨d2, hd2⟩ := skipWs_fitems_some hel hgc after rfl
    obtain ⟨c, r, rfl, _⟩ := skipWsAux_some _ false d2 hd2
    obtain ⟨hop2, hc123⟩ := hmx _ hd2
    rw [run_cont (step_kvs_mixed (l := m0.tok (frenderI items ++ (gc ++ 125 :: after))) rfl
      rfl hd2 hop2 (by simpa using hc123))]
    rw [← run_skip hd2]
    simp only [List.append_assoc, List.cons_append, List.nil_append]
    -- the array part, then `}`
    have hRlen : (ftapeFirst first (st.tape.length + 1)
            (frenderF rest ++ (gm ++ (m0.text ++ (frenderI items ++ (gc ++ 125 :: after))))) ++
          (ftapeF rest (st.tape ++ Tok.object st.parent false :: ftapeFirst first (st.tape.length + 1)
            (frenderF rest ++ (gm ++ (m0.text ++ (frenderI items ++ (gc ++ 125 :: after)))))).length
            (gm ++ (m0.text ++ (frenderI items ++ (gc ++ 125 :: after)))) ++
          [Tok.mixedContainer, m0.tok (frenderI items ++ (gc ++ 125 :: after))])).length =
        fcntFirst first + fcntF rest + 2 := by
      simp only [List.length_append, List.length_cons, List.length_nil, len_ftapeFirst, len_ftapeF]
      omega
    have hReq : ftapeFirst first (st.tape.length + 1)
            (frenderF rest ++ (gm ++ (m0.text ++ (frenderI items ++ (gc ++ 125 :: after))))) ++
          (ftapeF rest (st.tape ++ Tok.object st.parent false :: ftapeFirst first (st.tape.length + 1)
            (frenderF rest ++ (gm ++ (m0.text ++ (frenderI items ++ (gc ++ 125 :: after)))))).length
            (gm ++ (m0.text ++ (frenderI items ++ (gc ++ 125 :: after)))) ++
          [Tok.mixedContainer, m0.tok (frenderI items ++ (gc ++ 125 :: after))]) =
        ftapeFirst first (st.tape.length + 1)
            (frenderF rest ++ (gm ++ (m0.text ++ (frenderI items ++ (gc ++ 125 :: after))))) ++
          (ftapeF rest (st.tape.length + 1 + fcntFirst first)
            (gm ++ (m0.text ++ (frenderI items ++ (gc ++ 125 :: after)))) ++
          [Tok.mixedContainer, m0.tok (frenderI items ++ (gc ++ 125 :: after))]) := by
      simp only [List.length_append, List.length_cons, len_ftapeFirst]
      simp only [Nat.add_assoc, Nat.add_comm, Nat.add_left_comm]
    rw [hReq] at hRlen ⊢
    generalize hR : ftapeFirst first (st.tape.length + 1)
            (frenderF rest ++ (gm ++ (m0.text ++ (frenderI items ++ (gc ++ 125 :: after))))) ++
          (ftapeF rest (st.tape.length + 1 + fcntFirst first)
            (gm ++ (m0.text ++ (frenderI items ++ (gc ++ 125 :: after)))) ++
          [Tok.mixedContainer, m0.tok (frenderI items ++ (gc ++ 125 :: after))]) = R at hRlen ⊢
    have hctxM : CtxM ⟨.arrayValue, true, st.tape.length, st.tape ++ Tok.object st.parent false :: R⟩ := by
      refine ⟨?_, by simp, ⟨st.parent, false, .inl (by simp)⟩⟩
      intro e m
      simp only
      rw [List.getElem?_append_left hlen]
      exact hc.zero e m
    rw [frun_I n items (gc ++ 125 :: after) _ _ hel rfl rfl hctxM]
    simp only
    have hpar : ∃ mf, (flagIf items.hasCont (st.tape ++ Tok.object st.parent false :: R) st.tape.length ++
        ftapeI items (st.tape ++ Tok.object st.parent false :: R).length (gc ++ 125 :: after))[st.tape.length]? =
        some (.object st.parent mf) := by
      rw [List.getElem?_append_left (by rw [flagIf_length]; simp)]
      unfold flagIf
      split
      · exact ⟨true, by simp [setFlag]⟩
      · exact ⟨false, by simp⟩
    obtain ⟨mf, hmf⟩ := hpar
    have hcs : closeState (flagIf items.hasCont (st.tape ++ Tok.object st.parent false :: R) st.tape.length ++
        ftapeI items (st.tape ++ Tok.object st.parent false :: R).length (gc ++ 125 :: after))[st.parent]? =
        (cm, ret st.state) := by
      have hpl := hc.plt' hne
      rw [List.getElem?_append_left (by rw [flagIf_length]; simp; omega)]
      have : (flagIf items.hasCont (st.tape ++ Tok.object st.parent false :: R) st.tape.length)[st.parent]? =
          st.tape[st.parent]? := by
        unfold flagIf
        split
        · rw [setFlag_get _ _ _ (by omega), List.getElem?_append_left hpl]
        · rw [List.getElem?_append_left hpl]
      rw [this]; exact hc.close
    rw [run_cont (step_av_close_obj_c (P := st.parent) (mf := mf) (cm := cm) (r := ret st.state) rfl hgc
      (by simp; omega) (by simp [flagIf_length]; omega) hmf hcs)]
    congr 1
    refine St.ext' rfl (by cases cm <;> simp [FVal.bracedB, hc.mixed]) rfl ?_
    simp only
    rw [List.set_append_left _ _ (by rw [flagIf_length]; simp)]
    have hfs : (flagIf items.hasCont (st.tape ++ Tok.object st.parent false :: R) st.tape.length).set st.tape.length
        (Tok.object (flagIf items.hasCont (st.tape ++ Tok.object st.parent false :: R) st.tape.length ++
          ftapeI items (st.tape ++ Tok.object st.parent false :: R).length (gc ++ 125 :: after)).length true) =
        st.tape ++ Tok.object (flagIf items.hasCont (st.tape ++ Tok.object st.parent false :: R) st.tape.length ++
          ftapeI items (st.tape ++ Tok.object st.parent false :: R).length (gc ++ 125 :: after)).length true :: R := by
      unfold flagIf
      split
      · rw [setFlag_set, List.set_append_right _ _ (Nat.le_refl _)]; simp
      · rw [List.set_append_right _ _ (Nat.le_refl _)]; simp
    rw [hfs]
    simp only [ftapeV, List.length_append, List.length_cons, flagIf_length, len_ftapeI, hRlen,
      List.append_assoc, List.cons_append, List.nil_append]
    rw [← hR]
    simp only [List.append_assoc, List.cons_append, List.nil_append]
    simp only [show (2 : Nat) = 1 + 1 from rfl]
    simp only [Nat.add_assoc, Nat.add_comm, Nat.add_left_comm]
  | .arrSM g g0 s0 pre gm m0 go o items gc, after, fuel, st, cm, hv, hst, hc, hne => by
    simp only [FValidV] at hv
    obtain ⟨hg, h0, hgm, hgo, hgc, hs0, hsb, hpk, hvp, hm0, hm0b, ho, hoY, hel⟩ := hv
    have hlen : 0 < st.tape.length := List.length_pos_iff.2 hne
    have hfuel : fuel + fstepsV (.arrSM g g0 s0 pre gm m0 go o items gc) =
        (((((fuel + 1 + fstepsI items) + 1) + 1) + fstepsVs pre) + 1) + 1 := by
      simp only [fstepsV]; omega
    rw [hfuel]
    simp only [frenderV, List.append_assoc, List.cons_append, List.nil_append]
    rw [run_cont (step_open hst hg)]
    obtain ⟨d2, hd2⟩ := skipWs_fvals_scal_some hvp hgm hm0 _ rfl
    rw [run_cont (step_parseopen_scalar_arrX (T := st.tape) rfl (by simpa using hc.mixed) rfl h0 hs0 hsb hd2
      (hpk d2 hd2))]
    rw [← run_skip hd2]
    simp only [List.append_assoc, List.cons_append, List.nil_append]
    rw [frun_Vs n pre _ _ _ hvp rfl
      (ctx_inner hne hc.zero (.array st.parent false) _ .arrayValue rfl) (by simp)]
    -- the scalar in front of the operator, then the operator
    rw [run_cont (step_valX (.inr rfl) hgm hm0 hm0b)]
    simp only [ret_av]
    rw [run_cont (step_av_op_first (l := m0.tok (go ++ (o.text ++ (frenderI items ++ (gc ++ 125 :: after))))) rfl rfl rfl
      (Scal.tok_asScalar _ _) hgo ho hoY)]
    simp only [List.append_assoc, List.cons_append, List.nil_append]
    -- the array part, then `}`
    generalize hR : s0.tok (frenderVs pre ++ (gm ++ (m0.text ++ (go ++ (o.text ++ (frenderI items ++ (gc ++ 125 :: after))))))) ::
        (ftapeVs pre (st.tape ++ [Tok.array st.parent false,
            s0.tok (frenderVs pre ++ (gm ++ (m0.text ++ (go ++ (o.text ++ (frenderI items ++ (gc ++ 125 :: after)))))))]).length
            (gm ++ (m0.text ++ (go ++ (o.text ++ (frenderI items ++ (gc ++ 125 :: after)))))) ++
          [Tok.mixedContainer, m0.tok (go ++ (o.text ++ (frenderI items ++ (gc ++ 125 :: after)))), Tok.operator o]) = R
    have hRlen : R.length = 1 + fcntVs pre + 3 := by
      rw [← hR]; simp only [List.length_append, List.length_cons, List.length_nil, len_ftapeVs]; omega
    rw [run_close_mixed_arr hc hne R items gc after hgc fuel
      (frun_I n items (gc ++ 125 :: after) _ _ hel rfl rfl (ctxM_open hc hne _ R ⟨_, _, .inr rfl⟩))]
    congr 1
    refine St.ext' rfl rfl rfl ?_
    simp only [ftapeV, hRlen, ← hR, List.length_append, List.length_cons, List.length_nil, len_ftapeVs,
      List.append_assoc, List.cons_append, List.nil_append]
    simp only [show (3 : Nat) = 1 + 1 + 1 from rfl]
    simp only [Nat.add_assoc, Nat.add_comm, Nat.add_left_comm, Nat.zero_add]
  | .arrCM g first pre gm m0 go o items gc, after, fuel, st, cm, hv, hst, hc, hne => by
    simp only [FValidV] at hv
    obtain ⟨hg, hgm, hgo, hgc, hfc, hvf, hvp, hm0, hm0b, ho, hoY, hel⟩ := hv
    have hlen : 0 < st.tape.length := List.length_pos_iff.2 hne
    have hfuel : fuel + fstepsV (.arrCM g first pre gm m0 go o items gc) =
        ((((((fuel + 1 + fstepsI items) + 1) + 1) + fstepsVs pre) + fstepsV first) + 1) + 1 := by
      simp only [fstepsV]; omega
    rw [hfuel]
    simp only [frenderV, List.append_assoc, List.cons_append, List.nil_append]
    rw [run_cont (step_open hst hg)]
    obtain ⟨gf, Xf, hrf, hgf, c2, r2, hsk, hc2⟩ := fcontainer_head hfc hvf
      (frenderVs pre ++ (gm ++ (m0.text ++ (go ++ (o.text ++ (frenderI items ++ (gc ++ 125 :: after)))))))
    rw [hrf, run_cont (step_parseopen_container_arr (T := st.tape) rfl rfl hgf hsk hc2)]
    rw [← run_blank hgf, ← hrf]
    rw [frun_V n first _ _ _ false hvf (.inr rfl)
      (ctx_inner hne hc.zero (.array st.parent false) [] .arrayValue rfl).toC (by simp)]
    simp only [ret_av, List.append_assoc, List.cons_append, List.nil_append, Bool.false_eq_true, if_false]
    rw [frun_Vs n pre _ _ _ hvp rfl
      (ctx_inner hne hc.zero (.array st.parent false) _ .arrayValue rfl) (by simp)]
    rw [run_cont (step_valX (.inr rfl) hgm hm0 hm0b)]
    simp only [ret_av]
    rw [run_cont (step_av_op_first (l := m0.tok (go ++ (o.text ++ (frenderI items ++ (gc ++ 125 :: after))))) rfl rfl rfl
      (Scal.tok_asScalar _ _) hgo ho hoY)]
    simp only [List.append_assoc, List.cons_append, List.nil_append]
    generalize hR : ftapeV first (st.tape ++ [Tok.array st.parent false]).length
          (frenderVs pre ++ (gm ++ (m0.text ++ (go ++ (o.text ++ (frenderI items ++ (gc ++ 125 :: after))))))) ++
        (ftapeVs pre (st.tape ++ Tok.array st.parent false :: ftapeV first (st.tape ++ [Tok.array st.parent false]).length
            (frenderVs pre ++ (gm ++ (m0.text ++ (go ++ (o.text ++ (frenderI items ++ (gc ++ 125 :: after)))))))).length
            (gm ++ (m0.text ++ (go ++ (o.text ++ (frenderI items ++ (gc ++ 125 :: after)))))) ++
          [Tok.mixedContainer, m0.tok (go ++ (o.text ++ (frenderI items ++ (gc ++ 125 :: after)))), Tok.operator o]) = R
    have hRlen : R.length = fcntV first + fcntVs pre + 3 := by
      rw [← hR]; simp only [List.length_append, List.length_cons, List.length_nil, len_ftapeV, len_ftapeVs]; omega
    rw [run_close_mixed_arr hc hne R items gc after hgc fuel
      (frun_I n items (gc ++ 125 :: after) _ _ hel rfl rfl (ctxM_open hc hne _ R ⟨_, _, .inr rfl⟩))]
    congr 1
    refine St.ext' rfl rfl rfl ?_
    simp only [ftapeV, hRlen, ← hR, List.length_append, List.length_cons, List.length_nil, len_ftapeV,
      len_ftapeVs, List.append_assoc, List.cons_append, List.nil_append]
    simp only [show (3 : Nat) = 1 + 1 + 1 from rfl]
    simp only [Nat.add_assoc, Nat.add_comm, Nat.add_left_comm, Nat.zero_add]
theorem frun_First (n : Nat) : ∀ (first : FFirst) (after : Bytes) (fuel : Nat) (T : List Tok) (P : Nat) (g0 : Bytes),
    FValidFirst first after → Blank g0 → T ≠ [] →
    (∀ e m, T[0]? ≠ some (.array e m) ∧ T[0]? ≠ some (.object e m)) →
    run n (fuel + fstepsFirst first) ⟨.parseOpen, false, P, T ++ [.array 0 false]⟩
        (g0 ++ (frenderFirst first ++ after)) =
      run n fuel ⟨.key, false, T.length, T ++ Tok.object P false :: ftapeFirst first (T.length + 1) after⟩ after
  | .kv k g1 o v, after, fuel, T, P, g0, hv, h0, hne, hz => by
    simp only [FValidFirst] at hv
    obtain ⟨h1, hk, hkb, hvv⟩ := hv
    have hfuel : fuel + fstepsFirst (.kv k g1 o v) = ((fuel + fstepsV v) + 1) + 1 := by
      simp only [fstepsFirst]; omega
    rw [hfuel]
    simp only [frenderFirst, List.append_assoc]
    rw [run_cont (step_parseopen_fieldX (T := T) rfl rfl rfl h0 hk h1 hkb)]
    have hop := step_kvs_op (n := n) (g := []) (o := o)
      (st := { state := .kvs, mixed := false, parent := T.length,
               tape := T ++ [.object P false, k.tok (g1 ++ (o.text ++ (frenderV v ++ after)))] })
      (Y := frenderV v ++ after) rfl rfl .nil (head_frenderV v _ _ hvv)
    simp only [List.nil_append] at hop
    rw [run_cont hop]
    simp only [List.append_assoc, List.cons_append, List.nil_append]
    rw [frun_V n v after _ _ false hvv (.inl rfl)
      (ctx_inner hne hz (.object P false) _ .objectValue rfl).toC (by simp)]
    congr 1
    refine St.ext' rfl (by simp) rfl ?_
    simp only [ftapeFirst, List.length_append, List.length_cons, List.append_assoc, List.cons_append,
      List.nil_append]
    simp only [Nat.add_assoc, Nat.add_comm, Nat.add_left_comm]
  | .flds f, after, fuel, T, P, g0, hv, h0, hne, hz => by
    simp only [FValidFirst] at hv
    obtain ⟨hs, hvf⟩ := hv
    have hF := frun_F n f after fuel ⟨.key, false, T.length, T ++ [.object P false]⟩ hvf rfl
      (ctx_inner hne hz (.object P false) [] .key rfl)
    simp only [fstepsFirst, frenderFirst]
    rw [run_blank h0]
    have heq : run n (fuel + fstepsF f) ⟨.parseOpen, false, P, T ++ [.array 0 false]⟩ (frenderF f ++ after) =
        run n (fuel + fstepsF f) ⟨.key, false, T.length, T ++ [.object P false]⟩ (frenderF f ++ after) := by
      cases f with
      | consHdr g0' k g1 o gh h body rest =>
        simp only [FValidF] at hvf
        obtain ⟨hg0', h1, hgh, hk, hkb, hh, _, _, _, _, _⟩ := hvf
        have hfuel : fuel + fstepsF (.consHdr g0' k g1 o gh h body rest) =
            (fuel + fstepsF rest + fstepsV body + 1) + 2 := by simp only [fstepsF]; omega
        rw [hfuel]
        simp only [frenderF, List.append_assoc]
        exact run_first_key_scal _ T P hg0' hk h1 hkb (head_blank_scal hgh hh _)
      | paramVal g0' isU name g1 val g2 rest =>
        simp only [FValidF] at hvf
        have hfuel : fuel + fstepsF (.paramVal g0' isU name g1 val g2 rest) = (fuel + fstepsF rest) + 1 := by
          simp only [fstepsF]; omega
        rw [hfuel]
        simp only [frenderF, paramOpen, List.append_assoc, List.cons_append]
        simp only [run, step_parseopen_param T P _ hvf.1]
      | paramObj g0' isU name g1 k g2 o v inner gc rest =>
        simp only [FValidF] at hvf
        have hfuel : fuel + fstepsF (.paramObj g0' isU name g1 k g2 o v inner gc rest) =
            (fuel + fstepsF rest + 1 + fstepsF inner + fstepsV v + 1) + 1 := by
          simp only [fstepsF]; omega
        rw [hfuel]
        simp only [frenderF, paramOpen, List.append_assoc, List.cons_append]
        simp only [run, step_parseopen_param T P _ hvf.1]
      | paramHdr g0' isU name g1 val g2 body rest =>
        simp only [FValidF] at hvf
        have hfuel : fuel + fstepsF (.paramHdr g0' isU name g1 val g2 body rest) =
            (fuel + fstepsF rest + fstepsV body) + 1 := by
          simp only [fstepsF]; omega
        rw [hfuel]
        simp only [frenderF, paramOpen, List.append_assoc, List.cons_append]
        simp only [run, step_parseopen_param T P _ hvf.1]
      | nil => simp [FFields.startsSpecial] at hs
      | cons _ _ _ _ _ _ => simp [FFields.startsSpecial] at hs
      | consImp _ _ _ _ => simp [FFields.startsSpecial] at hs
      | ghost _ _ _ => simp [FFields.startsSpecial] at hs
    rw [heq, hF]
    congr 1
    simp [ftapeFirst]
theorem frun_F (n : Nat) : ∀ (fs : FFields) (after : Bytes) (fuel : Nat) (st : St),
    FValidF fs after → st.state = .key → Ctx3 st →
    run n (fuel + fstepsF fs) st (frenderF fs ++ after) =
      run n fuel { st with tape := st.tape ++ ftapeF fs st.tape.length after } after
  | .nil, after, fuel, st, _, _, _ => by simp [fstepsF, frenderF, ftapeF]
  | .cons g0 k g1 o v rest, after, fuel, st, hv, hst, hc => by
    simp only [FValidF] at hv
    obtain ⟨h0, h1, hk, hkb, hvv, hvr⟩ := hv
    have hfuel : fuel + fstepsF (.cons g0 k g1 o v rest) = (((fuel + fstepsF rest) + fstepsV v) + 1) + 1 := by
      simp only [fstepsF]; omega
    rw [hfuel]
    simp only [frenderF, List.append_assoc]
    have hkX : k.quoted = false →
        StartsBoundary (g1 ++ (o.text ++ (frenderV v ++ (frenderF rest ++ after)))) := by
      intro hq
      rcases hkb hq with h | ⟨c, r, h, hc'⟩
      · have : o.text ≠ [] := by cases o <;> simp [Op.text]
        simp at h; exact absurd h.2 this
      · exact .inr ⟨c, r ++ (frenderV v ++ (frenderF rest ++ after)), by
          rw [← List.cons_append, ← h]; simp, hc'⟩
    rw [run_cont (step_key_scalX hst h0 hk hkX)]
    rw [run_cont (step_kvs_op (by simp) (by simpa using hc.mixed) h1 (head_frenderV v _ _ hvv))]
    simp only [List.append_assoc, List.cons_append, List.nil_append]
    rw [frun_V n v (frenderF rest ++ after) _ _ false hvv (.inl rfl)
      (hc.after_key hst k _ o.toks .objectValue rfl).toC (by simp)]
    simp only [ret_ov, List.append_assoc, List.cons_append, List.nil_append, Bool.false_eq_true, if_false]
    rw [frun_F n rest after _ _ hvr rfl (hc.after_key hst k _ _ .key rfl)]
    congr 1
    refine St.ext' hst.symm rfl rfl ?_
    simp only [ftapeF, List.length_append, List.length_cons, len_ftapeV, List.append_assoc,
      List.cons_append, List.nil_append]
    simp only [Nat.add_assoc, Nat.add_comm, Nat.add_left_comm]
  | .consImp g0 k v rest, after, fuel, st, hv, hst, hc => by
    simp only [FValidF] at hv
    obtain ⟨h0, hk, hbr, hkb, hvv, hvr⟩ := hv
    have hfuel : fuel + fstepsF (.consImp g0 k v rest) = (((fuel + fstepsF rest) + fstepsV v) + 1) + 1 := by
      simp only [fstepsF]; omega
    rw [hfuel]
    simp only [frenderF, List.append_assoc]
    rw [run_cont (step_key_scalX hst h0 hk hkb)]
    -- no operator: KeyValueSeparator hands the `{` to ObjectValue
    obtain ⟨gv, Xv, hrv, hgv⟩ := fbraced_open hbr hvv
    have hdata : frenderV v ++ (frenderF rest ++ after) = gv ++ 123 :: (Xv ++ (frenderF rest ++ after)) := by
      rw [hrv]; simp
    have hk2 := step_kvs_open (n := n)
      (st := St.mk .kvs st.mixed st.parent (st.tape ++ [k.tok (frenderV v ++ (frenderF rest ++ after))]))
      (g := gv) (X := Xv ++ (frenderF rest ++ after)) rfl hgv
    rw [← hdata] at hk2
    rw [run_cont hk2, ← run_blank hgv, ← hdata]
    rw [frun_V n v (frenderF rest ++ after) _ _ false hvv (.inl rfl)
      (hc.after_key hst k _ [] .objectValue rfl).toC (by simp)]
    simp only [ret_ov, List.append_assoc, List.cons_append, List.nil_append, Bool.false_eq_true, if_false]
    rw [frun_F n rest after _ _ hvr rfl (hc.after_key hst k _ _ .key rfl)]
    congr 1
    refine St.ext' hst.symm rfl rfl ?_
    simp only [ftapeF, List.length_append, List.length_cons, List.length_nil, Nat.zero_add, len_ftapeV,
      List.append_assoc, List.cons_append, List.nil_append]
    simp only [Nat.add_comm]
  | .ghost g gc rest, after, fuel, st, hv, hst, hc => by
    simp only [FValidF] at hv
    have hfuel : fuel + fstepsF (.ghost g gc rest) = (fuel + fstepsF rest) + 1 := by
      simp only [fstepsF]; omega
    rw [hfuel]
    simp only [frenderF, List.append_assoc, List.cons_append]
    rw [run_cont (step_key_ghost hst hv.1 hv.2.1)]
    rw [frun_F n rest after _ _ hv.2.2 hst hc]
    simp only [ftapeF]
  | .consHdr g0 k g1 o gh h body rest, after, fuel, st, hv, hst, hc => by
    simp only [FValidF] at hv
    obtain ⟨h0, h1, hgh, hk, hkb, hh, hhq, hsb, hbc, hvb, hvr⟩ := hv
    have hsteps : 1 ≤ fstepsV body := by
      cases body <;> simp [FVal.isContainer] at hbc <;> simp [fstepsV] <;> omega
    have hfuel : fuel + fstepsF (.consHdr g0 k g1 o gh h body rest) =
        ((((fuel + fstepsF rest) + fstepsV body - 1) + 1) + 1 + 1) + 1 := by
      simp only [fstepsF]; omega
    rw [hfuel]
    simp only [frenderF, List.append_assoc]
    have hkX : k.quoted = false →
        StartsBoundary (g1 ++ (o.text ++ (gh ++ (h.text ++ (frenderV body ++ (frenderF rest ++ after)))))) := by
      intro hq
      rcases hkb hq with he | ⟨c, r, he, hc'⟩
      · have : o.text ≠ [] := by cases o <;> simp [Op.text]
        simp at he; exact absurd he.2 this
      · exact .inr ⟨c, r ++ (gh ++ (h.text ++ (frenderV body ++ (frenderF rest ++ after)))), by
          rw [← List.cons_append, ← he]; simp, hc'⟩
    rw [run_cont (step_key_scalX hst h0 hk hkX)]
    rw [run_cont (step_kvs_op (by simp) (by simpa using hc.mixed) h1 (head_blank_scal hgh hh _))]
    -- the header scalar is first read as an ordinary value
    rw [run_cont (step_val_scal (by simp) hgh hh (fun _ => hsb))]
    simp only [List.append_assoc, List.cons_append, List.nil_append]
    -- then Key sees the `{`
    obtain ⟨gb, X, hrb, hgb, c2, r2, hsk, hc2⟩ := fcontainer_head hbc hvb (frenderF rest ++ after)
    have htok : h.tok (frenderV body ++ (frenderF rest ++ after)) =
        .unquoted ⟨h.bytes.length + (frenderV body ++ (frenderF rest ++ after)).length, h.bytes⟩ := by
      simp [Scal.tok, hhq]
    rw [htok, hrb]
    rw [run_cont (step_key_header (T := st.tape ++ (k.tok (g1 ++ (o.text ++ (gh ++ (h.text ++ (gb ++ 123 :: X))))) :: o.toks))
      (sl := ⟨h.bytes.length + (gb ++ 123 :: X).length, h.bytes⟩) rfl (by simp) hgb hsk hc2)]
    rw [← run_skip hsk]
    -- from here on the parser is where it would be behind the `{` of `body` read as a value
    have hback := run_cont (n := n) (m := fuel + fstepsF rest + fstepsV body - 1)
      (step_open (g := gb) (X := X)
        (st := St.mk .objectValue st.mixed st.parent
          (st.tape ++ (k.tok (g1 ++ (o.text ++ (gh ++ (h.text ++ (gb ++ 123 :: X))))) :: o.toks) ++
            [.header ⟨h.bytes.length + (gb ++ 123 :: X).length, h.bytes⟩])) (.inl rfl) hgb)
    simp only [List.append_assoc, List.cons_append, List.nil_append] at hback ⊢
    rw [← hback, ← hrb, show fuel + fstepsF rest + fstepsV body - 1 + 1 = (fuel + fstepsF rest) + fstepsV body by omega]
    have hctx := hc.after_key hst k (g1 ++ (o.text ++ (gh ++ (h.text ++ (frenderV body ++ (frenderF rest ++ after))))))
      (o.toks ++ [.header ⟨h.bytes.length + (frenderV body ++ (frenderF rest ++ after)).length, h.bytes⟩])
      .objectValue rfl
    rw [frun_V n body (frenderF rest ++ after) _ _ false hvb (.inl rfl) hctx.toC (by simp)]
    simp only [ret_ov, List.append_assoc, List.cons_append, List.nil_append, Bool.false_eq_true, if_false]
    have hctx2 := hc.after_key hst k (g1 ++ (o.text ++ (gh ++ (h.text ++ (frenderV body ++ (frenderF rest ++ after))))))
      (o.toks ++ ([.header ⟨h.bytes.length + (frenderV body ++ (frenderF rest ++ after)).length, h.bytes⟩] ++
        ftapeV body (st.tape ++ k.tok (g1 ++ (o.text ++ (gh ++ (h.text ++ (frenderV body ++ (frenderF rest ++ after)))))) ::
          (o.toks ++ [.header ⟨h.bytes.length + (frenderV body ++ (frenderF rest ++ after)).length, h.bytes⟩])).length
          (frenderF rest ++ after)))
      .key rfl
    simp only [List.append_assoc, List.cons_append, List.nil_append] at hctx2
    rw [frun_F n rest after _ _ hvr rfl hctx2]
    congr 1
    refine St.ext' hst.symm rfl rfl ?_
    simp only [ftapeF, List.length_append, List.length_cons, List.length_nil, len_ftapeV, List.append_assoc,
      List.cons_append, List.nil_append]
    simp only [Nat.add_assoc, Nat.add_comm, Nat.add_left_comm, Nat.zero_add]
  | .paramVal g0 isU name g1 val g2 rest, after, fuel, st, hv, hst, hc => by
    simp only [FValidF] at hv
    obtain ⟨h0, h1, h2, hn, hval, hq, hsb, hvr⟩ := hv
    have hfuel : fuel + fstepsF (.paramVal g0 isU name g1 val g2 rest) = (fuel + fstepsF rest) + 1 := by
      simp only [fstepsF]; omega
    rw [hfuel]
    simp only [frenderF, paramOpen, List.append_assoc, List.cons_append, List.nil_append]
    have hstep := step_key_param (n := n) (isU := isU) hst h0 hn
      (g1 ++ (val.text ++ (g2 ++ 93 :: (frenderF rest ++ after))))
    rw [pdAfter_val _ _ _ _ _ _ h1 h2 hval hq _ hsb] at hstep
    rw [run_cont hstep]
    simp only [List.append_assoc, List.cons_append, List.nil_append]
    rw [frun_F n rest after _ _ hvr rfl (hc.after_plain hst _ (paramTok_plain _ _) _ .key rfl)]
    congr 1
    refine St.ext' hst.symm rfl rfl ?_
    simp only [ftapeF, List.length_append, List.length_cons, List.length_nil, List.append_assoc,
      List.cons_append, List.nil_append]
  | .paramObj g0 isU name g1 k g2 o v inner gc rest, after, fuel, st, hv, hst, hc => by
    simp only [FValidF] at hv
    obtain ⟨h0, h1, h2, hgc, hn, hk, hq, hsb, hvv, hvi, hvr⟩ := hv
    have hfuel : fuel + fstepsF (.paramObj g0 isU name g1 k g2 o v inner gc rest) =
        (((((fuel + fstepsF rest) + 1) + fstepsF inner) + fstepsV v) + 1) + 1 := by
      simp only [fstepsF]; omega
    rw [hfuel]
    simp only [frenderF, paramOpen, List.append_assoc, List.cons_append, List.nil_append]
    have hstep := step_key_param (n := n) (isU := isU) hst h0 hn
      (g1 ++ (k.text ++ (g2 ++ (o.text ++ (frenderV v ++ (frenderF inner ++ (gc ++ 93 :: (frenderF rest ++ after))))))))
    rw [pdAfter_obj _ _ _ _ _ _ h1 h2 hk hq _ hsb] at hstep
    rw [run_cont hstep]
    -- operator
    have hop := step_kvs_op (n := n) (g := []) (o := o)
      (st := St.mk .kvs st.mixed
        (st.tape ++ [paramTok isU ⟨(name ++ 93 :: (g1 ++ (k.text ++ (g2 ++ (o.text ++ (frenderV v ++
          (frenderF inner ++ (gc ++ 93 :: (frenderF rest ++ after))))))))).length, name⟩]).length
        (st.tape ++ [paramTok isU ⟨(name ++ 93 :: (g1 ++ (k.text ++ (g2 ++ (o.text ++ (frenderV v ++
          (frenderF inner ++ (gc ++ 93 :: (frenderF rest ++ after))))))))).length, name⟩] ++
          [.object st.parent false, .unquoted ⟨(k.text ++ (g2 ++ (o.text ++ (frenderV v ++
            (frenderF inner ++ (gc ++ 93 :: (frenderF rest ++ after))))))).length, k.bytes⟩]))
      (Y := frenderV v ++ (frenderF inner ++ (gc ++ 93 :: (frenderF rest ++ after)))) rfl hc.mixed .nil
      (head_frenderV v _ _ hvv)
    simp only [List.nil_append] at hop
    rw [run_cont hop]
    simp only [List.append_assoc, List.cons_append, List.nil_append, hc.mixed]
    -- the context inside the block: the object sits right behind the parameter token
    have hctx0 := hc.after_plain hst (paramTok isU ⟨(name ++ 93 :: (g1 ++ (k.text ++ (g2 ++ (o.text ++ (frenderV v ++
          (frenderF inner ++ (gc ++ 93 :: (frenderF rest ++ after))))))))).length, name⟩) (paramTok_plain _ _) [] .key rfl
    have hne1 : (St.mk PState.key st.mixed st.parent (st.tape ++ [paramTok isU ⟨(name ++ 93 :: (g1 ++ (k.text ++
        (g2 ++ (o.text ++ (frenderV v ++ (frenderF inner ++ (gc ++ 93 :: (frenderF rest ++ after))))))))).length,
        name⟩])).tape ≠ [] := by simp
    have hin := fun R s h => Ctx3.inner hctx0 hne1 (.object st.parent false) R s h
    simp only [List.length_append, List.length_cons, List.length_nil, List.append_assoc, List.cons_append,
      List.nil_append] at hin
    rw [frun_V n v (frenderF inner ++ (gc ++ 93 :: (frenderF rest ++ after))) _ _ false hvv (.inl rfl)
      (Ctx3.toC (by simpa using hin _ .objectValue rfl)) (by simp)]
    simp only [ret_ov, List.append_assoc, List.cons_append, List.nil_append, Bool.false_eq_true, if_false]
    rw [frun_F n inner (gc ++ 93 :: (frenderF rest ++ after)) _ _ hvi rfl (by simpa using hin _ .key rfl)]
    -- `]`
    rw [run_cont (step_key_close_br (P := st.parent) (r := .key) rfl hgc (by simp) (by simp)
      (by simp) (by simpa using hc.close_after_plain hst _ (paramTok_plain _ _) _))]
    simp only [List.append_assoc, List.cons_append, List.nil_append, List.length_append, List.length_cons,
      List.length_nil]
    rw [set_append_second]
    have hctxR := fun R => hc.after_plain hst (paramTok isU ⟨(name ++ 93 :: (g1 ++ (k.text ++ (g2 ++ (o.text ++
      (frenderV v ++ (frenderF inner ++ (gc ++ 93 :: (frenderF rest ++ after))))))))).length, name⟩)
      (paramTok_plain _ _) R .key rfl
    simp only [hc.mixed, List.length_append, List.length_cons, List.length_nil] at hctxR
    rw [frun_F n rest after _ _ hvr rfl (hctxR _)]
    congr 1
    refine St.ext' hst.symm (by simp [hc.mixed]) rfl ?_
    simp only [ftapeF, List.length_append, List.length_cons, List.length_nil, len_ftapeV, len_ftapeF,
      List.append_assoc, List.cons_append, List.nil_append]
    simp only [show (2 : Nat) = 1 + 1 from rfl, show (3 : Nat) = 1 + 1 + 1 from rfl]
    simp only [Nat.add_assoc, Nat.add_comm, Nat.add_left_comm, Nat.zero_add]
  | .paramHdr g0 isU name g1 val g2 body rest, after, fuel, st, hv, hst, hc => by
    simp only [FValidF] at hv
    obtain ⟨h0, h1, h2, hn, hval, hq, hsb, hbc, hvb, hvr⟩ := hv
    have hsteps : 1 ≤ fstepsV body := by
      cases body <;> simp [FVal.isContainer] at hbc <;> simp [fstepsV] <;> omega
    have hfuel : fuel + fstepsF (.paramHdr g0 isU name g1 val g2 body rest) =
        (((fuel + fstepsF rest) + fstepsV body - 1) + 1) + 1 := by
      simp only [fstepsF]; omega
    rw [hfuel]
    simp only [frenderF, paramOpen, List.append_assoc, List.cons_append, List.nil_append]
    have hstep := step_key_param (n := n) (isU := isU) hst h0 hn
      (g1 ++ (val.text ++ (g2 ++ 93 :: (frenderV body ++ (frenderF rest ++ after)))))
    rw [pdAfter_val _ _ _ _ _ _ h1 h2 hval hq _ hsb] at hstep
    rw [run_cont hstep]
    -- Key sees the `{`: the parameter value becomes the header
    obtain ⟨gb, X, hrb, hgb, c2, r2, hsk, hc2⟩ := fcontainer_head hbc hvb (frenderF rest ++ after)
    rw [hrb]
    rw [run_cont (step_key_header
      (T := st.tape ++ [paramTok isU ⟨(name ++ 93 :: (g1 ++ (val.text ++ (g2 ++ 93 :: (gb ++ 123 :: X))))).length, name⟩])
      (sl := ⟨(val.text ++ (g2 ++ 93 :: (gb ++ 123 :: X))).length, val.bytes⟩) rfl (by simp) hgb hsk hc2)]
    rw [← run_skip hsk]
    have hback := run_cont (n := n) (m := fuel + fstepsF rest + fstepsV body - 1)
      (step_open (g := gb) (X := X)
        (st := St.mk .objectValue st.mixed st.parent
          (st.tape ++ [paramTok isU ⟨(name ++ 93 :: (g1 ++ (val.text ++ (g2 ++ 93 :: (gb ++ 123 :: X))))).length, name⟩] ++
            [.header ⟨(val.text ++ (g2 ++ 93 :: (gb ++ 123 :: X))).length, val.bytes⟩])) (.inl rfl) hgb)
    simp only [List.append_assoc, List.cons_append, List.nil_append] at hback ⊢
    rw [← hback, ← hrb,
      show fuel + fstepsF rest + fstepsV body - 1 + 1 = (fuel + fstepsF rest) + fstepsV body by omega]
    have hctx := hc.after_plain hst
      (paramTok isU ⟨(name ++ 93 :: (g1 ++ (val.text ++ (g2 ++ 93 :: (frenderV body ++ (frenderF rest ++ after)))))).length, name⟩)
      (paramTok_plain _ _)
      [.header ⟨(val.text ++ (g2 ++ 93 :: (frenderV body ++ (frenderF rest ++ after)))).length, val.bytes⟩]
      .objectValue rfl
    rw [frun_V n body (frenderF rest ++ after) _ _ false hvb (.inl rfl) hctx.toC (by simp)]
    simp only [ret_ov, List.append_assoc, List.cons_append, List.nil_append, Bool.false_eq_true, if_false]
    have hctx2 := hc.after_plain hst
      (paramTok isU ⟨(name ++ 93 :: (g1 ++ (val.text ++ (g2 ++ 93 :: (frenderV body ++ (frenderF rest ++ after)))))).length, name⟩)
      (paramTok_plain _ _)
      ([.header ⟨(val.text ++ (g2 ++ 93 :: (frenderV body ++ (frenderF rest ++ after)))).length, val.bytes⟩] ++
        ftapeV body (st.tape ++ paramTok isU ⟨(name ++ 93 :: (g1 ++ (val.text ++ (g2 ++ 93 ::
          (frenderV body ++ (frenderF rest ++ after)))))).length, name⟩ ::
          [.header ⟨(val.text ++ (g2 ++ 93 :: (frenderV body ++ (frenderF rest ++ after)))).length, val.bytes⟩]).length
          (frenderF rest ++ after))
      .key rfl
    simp only [List.append_assoc, List.cons_append, List.nil_append] at hctx2
    rw [frun_F n rest after _ _ hvr rfl hctx2]
    congr 1
    refine St.ext' hst.symm rfl rfl ?_
    simp only [ftapeF, List.length_append, List.length_cons, List.length_nil, len_ftapeV, List.append_assoc,
      List.cons_append, List.nil_append]
    simp only [show (2 : Nat) = 1 + 1 from rfl]
    simp only [Nat.add_assoc, Nat.add_comm, Nat.add_left_comm, Nat.zero_add]
theorem frun_Vs (n : Nat) : ∀ (vs : FVals) (after : Bytes) (fuel : Nat) (st : St),
    FValidVs vs after → st.state = .arrayValue → Ctx3 st → st.tape ≠ [] →
    run n (fuel + fstepsVs vs) st (frenderVs vs ++ after) =
      run n fuel { st with tape := st.tape ++ ftapeVs vs st.tape.length after } after
  | .nil, after, fuel, st, _, _, _, _ => by simp [fstepsVs, frenderVs, ftapeVs]
  | .cons v rest, after, fuel, st, hv, hst, hc, hne => by
    simp only [FValidVs] at hv
    have hfuel : fuel + fstepsVs (.cons v rest) = (fuel + fstepsVs rest) + fstepsV v := by
      simp only [fstepsVs]; omega
    rw [hfuel]
    simp only [frenderVs, List.append_assoc]
    rw [frun_V n v (frenderVs rest ++ after) _ _ false hv.1 (.inr hst) hc.toC hne]
    have hctx := hc.append hne (ftapeV v st.tape.length (frenderVs rest ++ after)) .arrayValue (by rw [hst])
    rw [hst]
    simp only [ret_av, Bool.false_eq_true, if_false]
    rw [frun_Vs n rest after _ _ hv.2 rfl hctx (by simp [hne])]
    congr 1
    refine St.ext' rfl rfl rfl ?_
    simp only [ftapeVs, List.length_append, len_ftapeV, List.append_assoc]
theorem frun_I (n : Nat) : ∀ (is : FItems) (after : Bytes) (fuel : Nat) (st : St),
    FValidI is after → st.state = .arrayValue → st.mixed = true → CtxM st →
    run n (fuel + fstepsI is) st (frenderI is ++ after) =
      run n fuel { st with tape := flagIf is.hasCont st.tape st.parent ++ ftapeI is st.tape.length after } after
  | .nil, after, fuel, st, _, _, _, _ => by simp [fstepsI, frenderI, ftapeI, flagIf, FItems.hasCont]
  | .scal g s rest, after, fuel, st, hv, hst, hm, hc => by
    simp only [FValidI] at hv
    obtain ⟨hg, hs, hsb, hvr⟩ := hv
    have hfuel : fuel + fstepsI (.scal g s rest) = (fuel + fstepsI rest) + 1 := by simp only [fstepsI]; omega
    rw [hfuel]
    simp only [frenderI, List.append_assoc]
    rw [run_cont (step_valX (.inr hst) hg hs hsb)]
    have hctx : CtxM { st with tape := st.tape ++ [s.tok (frenderI rest ++ after)], state := ret st.state } := by
      refine ⟨?_, by simp; have := hc.plt; omega, ?_⟩
      · intro e m
        simp only
        rw [List.getElem?_append_left (by have := hc.plt; omega)]
        exact hc.zero e m
      · simp only
        rw [List.getElem?_append_left hc.plt]
        exact hc.cont
    rw [frun_I n rest after _ { st with tape := st.tape ++ [s.tok (frenderI rest ++ after)], state := ret st.state }
      hvr (by simp [hst]) hm hctx]
    congr 1
    refine St.ext' (by simp [hst]) rfl rfl ?_
    simp only [FItems.hasCont, ftapeI, List.length_append, List.length_cons, List.length_nil]
    rw [flagIf_append _ _ _ _ hc.plt]
    simp
  | .op g o rest, after, fuel, st, hv, hst, hm, hc => by
    simp only [FValidI] at hv
    obtain ⟨hg, ho, hY, hvr⟩ := hv
    have hfuel : fuel + fstepsI (.op g o rest) = (fuel + fstepsI rest) + 1 := by simp only [fstepsI]; omega
    rw [hfuel]
    simp only [frenderI, List.append_assoc]
    rw [run_cont (step_av_op hst hm hg ho hY)]
    have hctx : CtxM { st with tape := st.tape ++ [Tok.operator o] } := by
      refine ⟨?_, by simp; have := hc.plt; omega, ?_⟩
      · intro e m
        simp only
        rw [List.getElem?_append_left (by have := hc.plt; omega)]
        exact hc.zero e m
      · simp only
        rw [List.getElem?_append_left hc.plt]
        exact hc.cont
    rw [frun_I n rest after _ { st with tape := st.tape ++ [Tok.operator o] } hvr hst hm hctx]
    congr 1
    refine St.ext' rfl rfl rfl ?_
    simp only [FItems.hasCont, ftapeI, List.length_append, List.length_cons, List.length_nil]
    rw [flagIf_append _ _ _ _ hc.plt]
    simp
  | .cont v rest, after, fuel, st, hv, hst, hm, hc => by
    simp only [FValidI] at hv
    obtain ⟨hsl, hvv, hvr⟩ := hv
    have h2 := fsteps_scalarLed hsl
    have hfuel : fuel + fstepsI (.cont v rest) = ((fuel + fstepsI rest) + fstepsV v - 2) + 2 := by
      simp only [fstepsI]; omega
    rw [hfuel]
    simp only [frenderI, List.append_assoc]
    rw [run_mixed_eq _ st hsl hvv hst hm hc.plt]
    rw [show (fuel + fstepsI rest) + fstepsV v - 2 + 2 = (fuel + fstepsI rest) + fstepsV v by omega]
    have hne : st.tape ≠ [] := by
      intro h0; have := hc.plt; simp [h0] at this
    have hctx : CtxC ({ st with mixed := false, tape := setFlag st.tape st.parent } : St) true := by
      refine ⟨rfl, setFlag_zero _ _ hc.zero, .inl (by simp [setFlag_length]; exact hc.plt), ?_⟩
      simp only [hst, ret_av]
      exact closeState_setFlag _ _ hc.cont
    rw [frun_V n v (frenderI rest ++ after) _ { st with mixed := false, tape := setFlag st.tape st.parent } true hvv
      (.inr hst) hctx
      (by simp only; intro h0; have := congrArg List.length h0; simp [setFlag_length] at this; exact hne this)]
    simp only [if_true, scalarLed_braced hsl, hst, ret_av, setFlag_length]
    have hctxM : CtxM ⟨.arrayValue, true, st.parent,
        setFlag st.tape st.parent ++ ftapeV v st.tape.length (frenderI rest ++ after)⟩ := by
      refine ⟨?_, by simp [setFlag_length]; have := hc.plt; omega, ?_⟩
      · intro e m
        simp only
        rw [List.getElem?_append_left (by rw [setFlag_length]; have := hc.plt; omega)]
        exact setFlag_zero _ _ hc.zero e m
      · simp only
        rw [List.getElem?_append_left (by rw [setFlag_length]; exact hc.plt)]
        exact setFlag_cont _ _ hc.cont
    rw [frun_I n rest after _ _ hvr rfl rfl hctxM]
    congr 1
    refine St.ext' rfl (by simp [hm]) rfl ?_
    simp only [FItems.hasCont, ftapeI, List.length_append, setFlag_length, len_ftapeV]
    rw [flagIf_setFlag _ _ _ _ hc.plt]
    simp [flagIf]
end

/-! ### whole documents -/

mutual
theorem fstepsV_le : ∀ (v : FVal) (a : Bytes), FValidV v a → fstepsV v ≤ 2 * (frenderV v).length
  | .scal g s, a, hv => by
    simp only [FValidV] at hv
    have := hv.2.1.text_pos
    simp only [fstepsV, frenderV, List.length_append]; omega
  | .empty g gc, a, _ => by
    simp only [fstepsV, frenderV, List.length_append, List.length_cons, List.length_nil]; omega
  | .obj g g0 first rest gc, a, hv => by
    simp only [FValidV] at hv
    have h3 := fstepsFirst_le first _ hv.2.2.2.1
    have h4 := fstepsF_le rest _ hv.2.2.2.2
    simp only [fstepsV, frenderV, List.length_append, List.length_cons, List.length_nil]; omega
  | .arrS g g0 s0 rest gc, a, hv => by
    simp only [FValidV] at hv
    have h1 := hv.2.2.2.1.text_pos
    have h4 := fstepsVs_le rest _ hv.2.2.2.2.2.2
    simp only [fstepsV, frenderV, List.length_append, List.length_cons, List.length_nil]; omega
  | .arrC g first rest gc, a, hv => by
    simp only [FValidV] at hv
    have h3 := fstepsV_le first _ hv.2.2.2.1
    have h4 := fstepsVs_le rest _ hv.2.2.2.2
    simp only [fstepsV, frenderV, List.length_append, List.length_cons, List.length_nil]; omega
  | .ghostIn g b1 b2 v, a, hv => by
    simp only [FValidV] at hv
    have h3 := fstepsV_le v _ hv.2.2.2.2.2
    have h4 : (frenderV v).length = 1 + (finner v).length := by
      rw [frender_inner hv.2.2.2.1, hv.2.2.2.2.1]; simp; omega
    simp only [fstepsV, frenderV, List.length_append, List.length_cons]; omega
  | .mixed g g0 first rest gm m0 items gc, a, hv => by
    simp only [FValidV] at hv
    obtain ⟨_, _, _, _, hvf, hvr, hm0, _, _, hel⟩ := hv
    have h3 := fstepsFirst_le first _ hvf
    have h4 := fstepsF_le rest _ hvr
    have h5 := hm0.text_pos
    have h6 := fstepsI_le items _ hel
    simp only [fstepsV, frenderV, List.length_append, List.length_cons, List.length_nil]; omega
  | .arrSM g g0 s0 pre gm m0 go o items gc, a, hv => by
    simp only [FValidV] at hv
    obtain ⟨_, _, _, _, _, hs0, _, _, hvp, hm0, _, _, _, hel⟩ := hv
    have h1 := hs0.text_pos
    have h2 := o.text_pos
    have h4 := fstepsVs_le pre _ hvp
    have h5 := hm0.text_pos
    have h6 := fstepsI_le items _ hel
    simp only [fstepsV, frenderV, List.length_append, List.length_cons, List.length_nil]; omega
  | .arrCM g first pre gm m0 go o items gc, a, hv => by
    simp only [FValidV] at hv
    obtain ⟨_, _, _, _, _, hvf, hvp, hm0, _, _, _, hel⟩ := hv
    have h2 := o.text_pos
    have h3 := fstepsV_le first _ hvf
    have h4 := fstepsVs_le pre _ hvp
    have h5 := hm0.text_pos
    have h6 := fstepsI_le items _ hel
    simp only [fstepsV, frenderV, List.length_append, List.length_cons, List.length_nil]; omega
theorem fstepsFirst_le : ∀ (f : FFirst) (a : Bytes), FValidFirst f a → fstepsFirst f ≤ 2 * (frenderFirst f).length
  | .kv k g1 o v, a, hv => by
    simp only [FValidFirst] at hv
    have h1 := hv.2.1.text_pos
    have h2 := o.text_pos
    have h3 := fstepsV_le v _ hv.2.2.2
    simp only [fstepsFirst, frenderFirst, List.length_append]; omega
  | .flds f, a, hv => by
    simp only [FValidFirst] at hv
    simpa [fstepsFirst, frenderFirst] using fstepsF_le f a hv.2
theorem fstepsF_le : ∀ (fs : FFields) (a : Bytes), FValidF fs a → fstepsF fs ≤ 2 * (frenderF fs).length
  | .nil, _, _ => by simp [fstepsF]
  | .cons g0 k g1 o v rest, a, hv => by
    simp only [FValidF] at hv
    have h1 := hv.2.2.1.text_pos
    have h2 := o.text_pos
    have h3 := fstepsV_le v _ hv.2.2.2.2.1
    have h4 := fstepsF_le rest _ hv.2.2.2.2.2
    simp only [fstepsF, frenderF, List.length_append]; omega
  | .consImp g0 k v rest, a, hv => by
    simp only [FValidF] at hv
    have h1 := hv.2.1.text_pos
    have h3 := fstepsV_le v _ hv.2.2.2.2.1
    have h4 := fstepsF_le rest _ hv.2.2.2.2.2
    have h5 : 1 ≤ (frenderV v).length := by
      cases v <;> simp [FVal.isBraced] at hv <;> simp [frenderV] <;> omega
    simp only [fstepsF, frenderF, List.length_append]; omega
  | .ghost g gc rest, a, hv => by
    simp only [FValidF] at hv
    have h4 := fstepsF_le rest _ hv.2.2
    simp only [fstepsF, frenderF, List.length_append, List.length_cons]; omega
  | .consHdr g0 k g1 o gh h body rest, a, hv => by
    simp only [FValidF] at hv
    obtain ⟨_, _, _, hk, _, hh, _, _, _, hvb, hvr⟩ := hv
    have h1 := hk.text_pos
    have h2 := o.text_pos
    have h5 := hh.text_pos
    have h3 := fstepsV_le body _ hvb
    have h4 := fstepsF_le rest _ hvr
    simp only [fstepsF, frenderF, List.length_append]; omega
  | .paramVal g0 isU name g1 val g2 rest, a, hv => by
    simp only [FValidF] at hv
    have h4 := fstepsF_le rest _ hv.2.2.2.2.2.2.2
    simp only [fstepsF, frenderF, paramOpen, List.length_append, List.length_cons]; omega
  | .paramObj g0 isU name g1 k g2 o v inner gc rest, a, hv => by
    simp only [FValidF] at hv
    obtain ⟨_, _, _, _, _, hk, _, _, hvv, hvi, hvr⟩ := hv
    have h1 := hk.text_pos
    have h2 := o.text_pos
    have h3 := fstepsV_le v _ hvv
    have h4 := fstepsF_le inner _ hvi
    have h5 := fstepsF_le rest _ hvr
    simp only [fstepsF, frenderF, paramOpen, List.length_append, List.length_cons]; omega
  | .paramHdr g0 isU name g1 val g2 body rest, a, hv => by
    simp only [FValidF] at hv
    obtain ⟨_, _, _, _, _, _, _, _, hvb, hvr⟩ := hv
    have h3 := fstepsV_le body _ hvb
    have h4 := fstepsF_le rest _ hvr
    simp only [fstepsF, frenderF, paramOpen, List.length_append, List.length_cons]; omega
theorem fstepsVs_le : ∀ (vs : FVals) (a : Bytes), FValidVs vs a → fstepsVs vs ≤ 2 * (frenderVs vs).length
  | .nil, _, _ => by simp [fstepsVs]
  | .cons v rest, a, hv => by
    simp only [FValidVs] at hv
    have h3 := fstepsV_le v _ hv.1
    have h4 := fstepsVs_le rest _ hv.2
    simp only [fstepsVs, frenderVs, List.length_append]; omega
theorem fstepsI_le : ∀ (is : FItems) (a : Bytes), FValidI is a → fstepsI is ≤ 2 * (frenderI is).length
  | .nil, _, _ => by simp [fstepsI]
  | .scal g s rest, a, hv => by
    simp only [FValidI] at hv
    have h1 := hv.2.1.text_pos
    have h4 := fstepsI_le rest _ hv.2.2.2
    simp only [fstepsI, frenderI, List.length_append]; omega
  | .op g o rest, a, hv => by
    simp only [FValidI] at hv
    have h2 := o.text_pos
    have h4 := fstepsI_le rest _ hv.2.2.2
    simp only [fstepsI, frenderI, List.length_append]; omega
  | .cont v rest, a, hv => by
    simp only [FValidI] at hv
    have h3 := fstepsV_le v _ hv.2.1
    have h4 := fstepsI_le rest _ hv.2.2
    simp only [fstepsI, frenderI, List.length_append]; omega
end

/-- C01_faithful over the full document type (with the positions): a document under any valid
layout parses to exactly its expected tape. -/
theorem parse_full (fs : FFields) (gt : Bytes) (hgt : Blank gt) (hv : FValidF fs gt)
    (hb : hasBom (frenderF fs ++ gt) = false) :
    parse (frenderF fs ++ gt) = .ok (ftapeF fs 0 gt) false := by
  have hsteps := fstepsF_le fs gt hv
  unfold parse
  simp only [hb, Bool.false_eq_true, if_false]
  have hf : fuelFor (frenderF fs ++ gt) =
      ((2 * (frenderF fs ++ gt).length + 3 - fstepsF fs) + 1) + fstepsF fs := by
    simp only [fuelFor, List.length_append]; omega
  rw [hf, frun_F _ fs gt _ St.init hv rfl ⟨rfl, by simp [St.init], .inr rfl, by simp [St.init, closeState]⟩]
  have hsk : skipWs gt = none := by
    have := skipWs_blank hgt []
    simpa [skipWs, skipWsAux] using this
  simp [run, step, hsk, atEof, St.init, Res.withBom]

end Jomini.TextTape
