import JominiModel.Proofs.BinTapeWf
import JominiModel.Proofs.BinDeTotal
import JominiModel.Proofs.BinEndToEnd
/-
Bridge C03/C06 → C05 (tape deserializer): every tape the binary tape parser accepts satisfies the
hypothesis under which the tape deserializer cannot panic.

FINDING about the hypothesis: `BinDe.TapeOk` (every root key followed by its value slot, walking
`key, value, key, …`) is NOT satisfied by every accepted tape.  Witness: the six lexemes
`id id id { id }` (bytes 1111 2222 3333 0300 4444 0400) — three bare ids at the root turn the root
into a mixed container, the following container closes back to the root in key position — are
accepted by the real parser and the model with tape `[M, T, T, T, A6, T, E4]`; the pairwise walk
reads `(M,T) (T,T) (A6,T) (E4, ?)` and `rootPairs` fails at the last token.  The deserializer itself
does not panic there: it meets the container `A6` in key position first and returns an error.
`TapeOkW` below is the weakened hypothesis (the walk may stop at a container start in key
position); it holds for EVERY accepted tape, and the no-panic theorem is re-proved under it.
-/
namespace Jomini.BinTape
open Jomini


/-- `Safe s l`: walking the item sequence `l` (sitting at index `s`) key by key, the way the tape
deserializer walks the root — key at `i`, value at `i+1`, next key after the value — either ends
exactly at the end, or stops at a container start in key position (which the deserializer rejects
with an error, its value slot being inside the tape). -/
inductive Safe : Nat → Tape → Prop
  | nil (s : Nat) : Safe s []
  | stop (s e : Nat) (t : BTok) (rest : Tape) : (t = .array e ∨ t = .object e) → Items s (t :: rest) → Safe s (t :: rest)
  | pairPlain (s : Nat) (k v : BTok) (rest : Tape) : k.isPlain = true → v.isPlain = true → Safe (s + 2) rest →
      Safe s (k :: v :: rest)
  | pairCont (s e : Nat) (k t : BTok) (inner rest : Tape) : k.isPlain = true → (t = .array e ∨ t = .object e) →
      e = s + 2 + inner.length → Items (s + 2) inner → Safe (e + 1) rest →
      Safe s (k :: t :: (inner ++ .end_ (s + 1) :: rest))

/-- a complete container item sitting at index `s` -/
def IsCont (s : Nat) (c : Tape) : Prop :=
  ∃ t e inner, c = t :: (inner ++ [.end_ s]) ∧ (t = .array e ∨ t = .object e) ∧ e = s + 1 + inner.length ∧
    Items (s + 1) inner ∧ s ≠ 0

theorem IsCont.items {s : Nat} {c : Tape} (h : IsCont s c) : Items s c := by
  obtain ⟨t, e, inner, rfl, ht, he, hi, hs⟩ := h
  exact Items.cont s e t inner [] hs ht he hi (Items.nil _)

theorem IsCont.length {s : Nat} {c : Tape} (h : IsCont s c) : 2 ≤ c.length := by
  obtain ⟨t, e, inner, rfl, _⟩ := h; simp

/-- any item sequence followed by a container is safe -/
theorem safe_append_cont : ∀ (n : Nat) (s : Nat) (l c : Tape), l.length ≤ n → Items s l → IsCont (s + l.length) c →
    Safe s (l ++ c) := by
  intro n
  induction n with
  | zero =>
    intro s l c hl hi hc
    have : l = [] := by cases l <;> simp_all
    subst this
    obtain ⟨t, e, inner, rfl, ht, he, hin, hs⟩ := hc
    simp only [List.length_nil, Nat.add_zero, List.nil_append] at *
    exact Safe.stop s e t _ ht (Items.cont s e t inner [] hs ht he hin (Items.nil _))
  | succ n ih =>
    intro s l c hl hi hc
    cases hi with
    | nil =>
      obtain ⟨t, e, inner, rfl, ht, he, hin, hs⟩ := hc
      simp only [List.length_nil, Nat.add_zero, List.nil_append] at *
      exact Safe.stop s e t _ ht (Items.cont s e t inner [] hs ht he hin (Items.nil _))
    | plain _ t rest htp hrest =>
      -- key `t`; look at the value item
      cases hrest with
      | nil =>
        obtain ⟨t2, e, inner, rfl, ht, he, hin, hs⟩ := hc
        simp only [List.length_cons, List.length_nil] at he hin
        have := Safe.pairCont s e t t2 inner [] htp ht (by omega) (by simpa [Nat.add_assoc] using hin) (Safe.nil _)
        simpa using this
      | plain _ t2 rest2 htp2 hrest2 =>
        simp only [List.length_cons] at hl hc
        have := ih (s + 2) rest2 c (by omega) hrest2 (by simpa [Nat.add_assoc, Nat.add_comm, Nat.add_left_comm] using hc)
        exact Safe.pairPlain s t t2 _ htp htp2 this
      | cont _ e t2 inner rest2 hs ht he hin hrest2 =>
        simp only [List.length_cons, List.length_append] at hl hc
        have h2 := ih (e + 1) rest2 c (by omega) hrest2
          (by subst he; simpa [Nat.add_assoc, Nat.add_comm, Nat.add_left_comm] using hc)
        have := Safe.pairCont s e t t2 inner (rest2 ++ c) htp ht (by omega) hin h2
        simpa using this
    | cont _ e t inner rest hs ht he hin hrest =>
      have hall : Items s ((t :: (inner ++ BTok.end_ s :: rest)) ++ c) :=
        (Items.cont s e t inner rest hs ht he hin hrest).append hc.items
      exact Safe.stop s e t _ ht (by simpa using hall)

/-- a safe sequence stays safe when a plain key and a plain value are appended -/
theorem Safe.snoc_pair {s : Nat} {l : Tape} (h : Safe s l) {k v : BTok} (hk : k.isPlain = true) (hv : v.isPlain = true) :
    Safe s (l ++ [k, v]) := by
  induction h with
  | nil s => exact Safe.pairPlain s k v [] hk hv (Safe.nil _)
  | stop s e t rest ht hi =>
    refine Safe.stop s e t _ ht ?_
    have := hi.append (Items.plain _ k [v] hk (Items.plain _ v [] hv (Items.nil _)))
    simpa using this
  | pairPlain s k' v' rest hk' hv' _ ih => exact Safe.pairPlain s k' v' _ hk' hv' ih
  | pairCont s e k' t inner rest hk' ht he hin _ ih =>
    have := Safe.pairCont s e k' t inner (rest ++ [k, v]) hk' ht he hin ih
    simpa using this

/-- closing a container back to the root leaves `(complete items) ++ (that container)` -/
theorem pushEnd_root {tape : Tape} {p : Nat} {T' : Tape} {s' : PState}
    (h : pushEnd tape p = .ok (T', 0, s')) (ho : OpenAt p tape) :
    ∃ pre c, T' = pre ++ c ∧ Items 0 pre ∧ IsCont pre.length c := by
  by_cases hp : p = 0
  · subst hp
    unfold pushEnd at h
    split at h
    · rename_i g hg; have := ho.zero_slot _ hg; simp [BTok.isPlain] at this
    · rename_i g hg; have := ho.zero_slot _ hg; simp [BTok.isPlain] at this
    · cases h
  · obtain ⟨g, pre, t, seg, rfl, hl, ht, hg, hseg⟩ := ho.pos hp
    have hidx : (pre ++ t :: seg)[p]? = some t := by rw [← hl]; simp
    have hset : ∀ y, (pre ++ t :: seg).set p y = pre ++ y :: seg := by intro y; rw [← hl]; simp
    have hlen : (pre ++ t :: seg).length = p + 1 + seg.length := by simp; omega
    unfold pushEnd at h
    rw [hidx] at h
    rcases ht with rfl | rfl
    · simp only [hset] at h
      obtain ⟨h1, h2, _, _⟩ := closeTo_eq h
      simp only at h1 h2
      subst h1; subst h2
      refine ⟨pre, BTok.array (pre ++ BTok.array 0 :: seg).length :: (seg ++ [BTok.end_ p]), by simp, hg.zero, ?_⟩
      rw [hl]
      exact ⟨_, _, seg, rfl, Or.inl rfl, hlen, hseg, hp⟩
    · simp only [hset] at h
      obtain ⟨h1, h2, _, _⟩ := closeTo_eq h
      simp only at h1 h2
      subst h1; subst h2
      refine ⟨pre, BTok.object (pre ++ BTok.object 0 :: seg).length :: (seg ++ [BTok.end_ p]), by simp, hg.zero, ?_⟩
      rw [hl]
      exact ⟨_, _, seg, rfl, Or.inr rfl, hlen, hseg, hp⟩

theorem pushEnd_root_safe {tape : Tape} {p : Nat} {T' : Tape} {s' : PState}
    (h : pushEnd tape p = .ok (T', 0, s')) (ho : OpenAt p tape) : Safe 0 T' := by
  obtain ⟨pre, c, rfl, hi, hc⟩ := pushEnd_root h ho
  exact safe_append_cont pre.length 0 pre c (Nat.le_refl _) hi (by simpa using hc)

/-- root part of the parser invariant: in key position at the root the tape is `Safe`; after a
root key (and its `=`) the tape is a `Safe` tape plus that key -/
structure RInv (tape : Tape) (parent : Nat) (state : PState) : Prop where
  key : parent = 0 → state = .key → Safe 0 tape
  pend : parent = 0 → (state = .keyValueSeparator ∨ state = .objectValue) →
    ∃ t0 k, tape = t0 ++ [k] ∧ k.isPlain = true ∧ Safe 0 t0

theorem scalarArm_rinv {r : Except Err (Tape × Bytes)} {tape : Tape} {parent : Nat} {state : PState} {st' : St}
    (hr : AppendsP r tape) (h : scalarArm r parent state = .ok st')
    (hi : RInv tape parent state) : RInv st'.tape st'.parent st'.state := by
  unfold scalarArm at h
  cases r with
  | error e => cases h
  | ok p =>
    obtain ⟨T', d'⟩ := p
    obtain ⟨x, rfl, hx⟩ := hr T' d' rfl
    simp only at h
    cases state <;> simp at h <;> subst h
    all_goals refine ⟨?_, ?_⟩
    all_goals intro hp hs
    all_goals first | (cases hs; done) | (rcases hs with hs | hs <;> cases hs; done) | skip
    · -- objectValue → key
      obtain ⟨t0, k, rfl, hk, hsafe⟩ := hi.pend hp (Or.inr rfl)
      have := hsafe.snoc_pair hk hx
      simpa using this
    · -- key → keyValueSeparator
      exact ⟨tape, x, rfl, hx, hi.key hp rfl⟩

theorem rinv_vacuous {tape : Tape} {parent : Nat} {state : PState}
    (h : parent ≠ 0 ∨ (state ≠ .key ∧ state ≠ .keyValueSeparator ∧ state ≠ .objectValue)) : RInv tape parent state := by
  refine ⟨?_, ?_⟩
  · intro hp hs; rcases h with h | h
    · exact absurd hp h
    · exact absurd hs h.1
  · intro hp hs; rcases h with h | h
    · exact absurd hp h
    · rcases hs with hs | hs
      · exact absurd hs h.2.1
      · exact absurd hs h.2.2

theorem pushEnd_rinv {tape : Tape} {p : Nat} {T' : Tape} {g' : Nat} {s' : PState}
    (h : pushEnd tape p = .ok (T', g', s')) (ho : OpenAt p tape) : RInv T' g' s' := by
  obtain ⟨_, _, h3⟩ := pushEnd_open h ho
  refine ⟨?_, ?_⟩
  · intro hg _; subst hg; exact pushEnd_root_safe h ho
  · intro _ hs; rcases h3 with rfl | rfl <;> rcases hs with hs | hs <;> cases hs

theorem tinv_inArr_parent {tape : Tape} {parent : Nat} {state : PState} (hi : TInv tape parent state)
    (hs : state = .arrayValue ∨ state = .openFirst ∨ state = .openSecond) : parent ≠ 0 := by
  obtain ⟨g, hg⟩ := hi.2.1 hs
  intro hp; subst hp
  have := hi.openAt.zero_slot _ hg
  simp [BTok.isPlain] at this

theorem tokenArm_rinv {tape : Tape} {parent : Nat} {state : PState} {d : Bytes} {tok : Nat} {st' : St}
    (h : tokenArm false 0 tape parent state d tok = .ok st') (hs : state ≠ .objectToArray)
    (ht : TInv tape parent state) (hi : RInv tape parent state) : RInv st'.tape st'.parent st'.state := by
  unfold tokenArm at h
  by_cases c1 : tok = L.u32
  · rw [if_pos c1] at h; exact scalarArm_rinv (appendsP_fixed _ _ (by intro _; rfl) _ _) h hi
  rw [if_neg c1] at h
  by_cases c2 : tok = L.u64
  · rw [if_pos c2] at h; exact scalarArm_rinv (appendsP_fixed _ _ (by intro _; rfl) _ _) h hi
  rw [if_neg c2] at h
  by_cases c3 : tok = L.i32
  · rw [if_pos c3] at h
    cases hsa : scalarArm (parseI32 tape d) parent state with
    | error e => simp [hsa] at h
    | ok st => simp [hsa] at h; subst h; exact scalarArm_rinv (appendsP_fixed _ _ (by intro _; rfl) _ _) hsa hi
  rw [if_neg c3] at h
  by_cases c4 : tok = L.bool
  · rw [if_pos c4] at h
    refine scalarArm_rinv ?_ h hi
    intro T d' hh; obtain ⟨⟨b, hb⟩, _⟩ := parseBool_ok hh; exact ⟨_, hb, rfl⟩
  rw [if_neg c4] at h
  by_cases c5 : tok = L.quoted
  · rw [if_pos c5] at h
    refine scalarArm_rinv ?_ h hi
    intro T d' hh; obtain ⟨⟨b, hb⟩, _⟩ := parseQuoted_ok hh; exact ⟨_, hb, rfl⟩
  rw [if_neg c5] at h
  by_cases c6 : tok = L.unquoted
  · rw [if_pos c6] at h
    refine scalarArm_rinv ?_ h hi
    intro T d' hh; obtain ⟨⟨b, hb⟩, _⟩ := parseUnquoted_ok hh; exact ⟨_, hb, rfl⟩
  rw [if_neg c6] at h
  by_cases c7 : tok = L.f32
  · rw [if_pos c7] at h; exact scalarArm_rinv (appendsP_fixed _ _ (by intro _; rfl) _ _) h hi
  rw [if_neg c7] at h
  by_cases c8 : tok = L.f64
  · rw [if_pos c8] at h; exact scalarArm_rinv (appendsP_fixed _ _ (by intro _; rfl) _ _) h hi
  rw [if_neg c8] at h
  by_cases c9 : tok = L.open_
  · rw [if_pos c9] at h
    unfold openArm at h
    split at h
    · rename_i hk
      simp at h; subst h
      have hne : tape ≠ [] := fun he => hk (ht.2.2 he)
      exact rinv_vacuous (Or.inl (by cases tape <;> simp_all))
    · split at h
      · cases h
      · cases hr : readId d with
        | none => simp [hr] at h
        | some p =>
          obtain ⟨x, nd⟩ := p
          simp only [hr] at h
          split at h
          · simp at h; subst h; exact hi
          · cases h
  rw [if_neg c9] at h
  by_cases c10 : tok = L.close
  · rw [if_pos c10] at h
    unfold closeArm at h
    simp only at h
    have key : ∀ tape1, OpenAt parent tape1 →
        (match pushEnd tape1 parent with
          | .error e => (Except.error e : Except Err St)
          | .ok (tape', parent', state') => Except.ok ⟨tape', parent', state', d⟩) = Except.ok st' →
        RInv st'.tape st'.parent st'.state := by
      intro tape1 ho hh
      cases hp : pushEnd tape1 parent with
      | error e => simp [hp] at hh
      | ok p => obtain ⟨a, b, c⟩ := p; simp [hp] at hh; subst hh; exact pushEnd_rinv hp ho
    cases state
    case keyValueSeparator =>
      obtain ⟨⟨t0, x, rfl, hx, ho⟩, _, _⟩ := ht
      have hm : mixedInsert1 (t0 ++ [x]) = .ok (t0 ++ [.mixed, x]) := by simp [mixedInsert1, pop?]
      simp only [hm] at h
      refine key _ ?_ h
      have : t0 ++ [BTok.mixed, x] = t0 ++ [BTok.mixed] ++ [x] := by simp
      rw [this]; exact (ho.snoc_plain rfl).snoc_plain hx
    case objectValue => simp at h
    case objectToArray => exact absurd rfl hs
    all_goals exact key _ ht.openAt h
  rw [if_neg c10] at h
  by_cases c11 : tok = L.equal
  · rw [if_pos c11] at h
    unfold equalArm at h
    split at h
    · simp at h; subst h
      refine ⟨(by intro _ hs; cases hs), fun hp _ => hi.pend hp (Or.inl rfl)⟩
    · have hp := tinv_inArr_parent ht (Or.inr (Or.inr rfl))
      cases hso : setParentToObject tape parent with
      | error e => simp [hso] at h
      | ok t2 => simp [hso] at h; subst h; exact rinv_vacuous (Or.inl hp)
    · simp at h; subst h; exact rinv_vacuous (Or.inr ⟨by simp, by simp, by simp⟩)
    · have hp := tinv_inArr_parent ht (Or.inl rfl)
      have : st'.parent = parent := by
        repeat' split at h
        all_goals first | (cases h; done) | (simp at h; subst h; rfl)
      exact rinv_vacuous (Or.inl (by rw [this]; exact hp))
    · cases h
  rw [if_neg c11] at h
  by_cases c12 : tok = L.rgb ∧ state = .objectValue
  · rw [if_pos c12] at h
    unfold parseRgb at h
    cases hr : readRgb d with
    | error e => simp [hr] at h
    | ok p =>
      obtain ⟨t, rest⟩ := p
      simp [hr] at h; subst h
      obtain ⟨_, rfl⟩ := c12
      obtain ⟨a, b, c, al, rfl⟩ := readRgb_isRgb hr
      refine ⟨?_, fun _ hs => by rcases hs with hs | hs <;> cases hs⟩
      intro hp _
      obtain ⟨t0, k, rfl, hk, hsafe⟩ := hi.pend hp (Or.inr rfl)
      have := hsafe.snoc_pair hk (v := .rgb a b c al) rfl
      simpa using this
  rw [if_neg c12] at h
  by_cases c13 : tok = L.i64
  · rw [if_pos c13] at h; exact scalarArm_rinv (appendsP_fixed _ _ (by intro _; rfl) _ _) h hi
  rw [if_neg c13] at h
  refine scalarArm_rinv ?_ h hi
  intro T d' hh; simp at hh; obtain ⟨rfl, rfl⟩ := hh; exact ⟨_, rfl, rfl⟩

theorem step_rinv {st st' : St} (h : step st = .next st') (ht : TInv st.tape st.parent st.state)
    (hi : RInv st.tape st.parent st.state) : RInv st'.tape st'.parent st'.state := by
  cases hr : readId st.data with
  | none => rw [step_done hr] at h; cases h
  | some p =>
    obtain ⟨tok, d⟩ := p
    rw [step_eq hr] at h
    cases hd : dispatch false 0 st.tape st.parent st.state d tok with
    | error e => simp [hd, Iter.ofExcept] at h
    | ok s =>
      simp [hd, Iter.ofExcept] at h; subst h
      unfold dispatch at hd
      split at hd
      · rename_i hs
        rw [hs] at ht
        obtain ⟨⟨t0, x, y, htape, hx, hy, ho⟩, _, _⟩ := ht
        rw [htape, mixedInsert2_snoc2] at hd
        simp only at hd
        refine tokenArm_rinv hd (by decide) ⟨?_, by simp, by simp⟩ (rinv_vacuous (Or.inr ⟨by decide, by decide, by decide⟩))
        have : t0 ++ [BTok.mixed, x, y] = t0 ++ [BTok.mixed] ++ [x] ++ [y] := by simp
        simp only; rw [this]
        exact ((ho.snoc_plain rfl).snoc_plain hx).snoc_plain hy
      · rename_i hs
        exact tokenArm_rinv hd hs ht hi

/-- every accepted tape is `Safe` at the root -/
theorem parse_false_safe (data : Bytes) (T : Tape) (h : parse false data = .ok T) : Safe 0 T := by
  obtain ⟨r, _, hreach⟩ := run_false_ok_reach _ _ _ _ h
  obtain ⟨k, hk⟩ := hreach
  have : ∀ (k : Nat) (a : St), TInv a.tape a.parent a.state → RInv a.tape a.parent a.state →
      stepN k a = some ⟨T, 0, .key, r⟩ → Safe 0 T := by
    intro k
    induction k with
    | zero => intro a _ hr hs; simp [stepN] at hs; subst hs; exact hr.key rfl rfl
    | succ k ih =>
      intro a ht hr hs
      cases hst : step a with
      | next a' => simp only [stepN, hst] at hs; exact ih a' (step_inv hst ht) (step_rinv hst ht hr) hs
      | done => simp [stepN, hst] at hs
      | err e => simp [stepN, hst] at hs
  exact this k (init data) (init_inv data) ⟨fun _ _ => Safe.nil 0, fun _ hs => by rcases hs with hs | hs <;> cases hs⟩ hk

end Jomini.BinTape

namespace Jomini.BinDe
open Jomini


/-- a container start in key position: `visit_key` rejects it (de.rs:1485) -/
def keyStops : TTok → Bool
  | .array _ | .object _ => true
  | _ => false

/-- `rootPairs` weakened: the walk may also end at a container start in key position (whose value
slot is inside the tape) — the deserializer returns an error there, it does not index past the end. -/
def rootWalk (tape : List TTok) : Nat → Nat → Bool
  | 0, _ => false
  | k + 1, i =>
    if i < tape.length then
      match tape[i + 1]?, tape[i]? with
      | some v, some kt => keyStops kt || rootWalk tape k (afterValue v (i + 1))
      | _, _ => false
    else true

/-- the hypothesis that parsed tapes really satisfy (`TapeOk` is false on `id id id { id }`) -/
def TapeOkW (tape : List TTok) : Bool := endsInRange tape && rootWalk tape (tape.length + 1) 0

theorem rootWalk_of_rootPairs (tape : List TTok) : ∀ k i, rootPairs tape k i = true → rootWalk tape k i = true := by
  intro k
  induction k with
  | zero => intro i h; simp [rootPairs] at h
  | succ k ih =>
    intro i h
    simp only [rootPairs, rootWalk] at h ⊢
    split
    · rename_i hlt
      simp only [hlt, if_true] at h
      cases hv : tape[i + 1]? with
      | none => simp [hv] at h
      | some v =>
        simp only [hv] at h
        obtain ⟨kt, hk⟩ := getElem?_lt tape i hlt
        simp only [hk, Bool.or_eq_true]
        exact Or.inr (ih _ h)
    · rfl

theorem TapeOkW_of_TapeOk (tape : List TTok) (h : TapeOk tape = true) : TapeOkW tape = true := by
  simp only [TapeOk, TapeOkW, Bool.and_eq_true] at h ⊢
  exact ⟨h.1, rootWalk_of_rootPairs tape _ _ h.2⟩

theorem rootWalk_step (tape : List TTok) (k i : Nat) (h : rootWalk tape k i = true) (hi : i < tape.length) :
    ∃ k' vtok ktok, k = k' + 1 ∧ tape[i + 1]? = some vtok ∧ tape[i]? = some ktok ∧ i + 1 < tape.length ∧
      (keyStops ktok = true ∨ rootWalk tape k' (afterValue vtok (i + 1)) = true) := by
  cases k with
  | zero => simp [rootWalk] at h
  | succ k' =>
    simp only [rootWalk, hi, if_true] at h
    cases hv : tape[i + 1]? with
    | none => simp [hv] at h
    | some vtok =>
      obtain ⟨ktok, hk⟩ := getElem?_lt tape i hi
      simp only [hv, hk, Bool.or_eq_true] at h
      have : i + 1 < tape.length := by
        rcases Nat.lt_or_ge (i + 1) tape.length with h' | h'
        · exact h'
        · simp [List.getElem?_eq_none h'] at hv
      exact ⟨k', vtok, ktok, rfl, rfl, hk, this, h⟩

theorem visitKey_stops (c : Cfg) (t : TTok) (h : keyStops t = true) : visitKey c t = .error .other := by
  cases t <;> simp [keyStops] at h <;> rfl

theorem tapeFieldKey_stops (c : Cfg) (fs : Fields) (bt : Bool) (t : TTok) (h : keyStops t = true) :
    tapeFieldKey c fs bt t = .error .other := by
  cases t <;> simp [keyStops] at h <;> cases bt <;> rfl

theorem root_map_npW (c : Cfg) (tape : List TTok) (hr : endsInRange tape = true) (vt : Ty) (f : Nat) :
    ∀ k i acc, rootWalk tape k i = true → tMap c tape f vt i tape.length acc ≠ .error .panic := by
  induction f with
  | zero => intro k i acc _; simp [tMap]
  | succ f ih =>
    intro k i acc hp
    have hV := (np_all c tape hr f).1
    simp only [tMap]
    split
    · rename_i hlt
      obtain ⟨k', vtok, ktok, rfl, h1, h2, hlen, hp'⟩ := rootWalk_step tape k i hp hlt
      simp only [h1, h2]
      rcases hp' with hstop | hp'
      · simp [visitKey_stops c ktok hstop]
      cases hk : visitKey c ktok with
      | error x => have := visitKey_ok c ktok; rw [hk] at this; simpa using this
      | ok kp =>
        dsimp only
        cases hs : visitPrim .str kp with
        | error x => have := (visitPrim_ok .str kp).2; rw [hs] at this; simpa using this
        | ok ks =>
          dsimp only
          have := hV vt (i + 1) hlen
          cases hx : tVal c tape f vt (i + 1) with
          | ok v => exact ih k' _ _ hp'
          | error x => rw [hx] at this; simpa using this
    · simp

theorem root_struct_npW (c : Cfg) (tape : List TTok) (hr : endsInRange tape = true) (fs : Fields) (bt : Bool) (f : Nat) :
    ∀ k i slots, slots.length = fs.length → rootWalk tape k i = true →
      tStruct c tape f fs bt i tape.length slots ≠ .error .panic := by
  induction f with
  | zero => intro k i slots _ _; simp [tStruct]
  | succ f ih =>
    intro k i slots hsl hp
    have hV := (np_all c tape hr f).1
    simp only [tStruct]
    split
    · rename_i hlt
      obtain ⟨k', vtok, ktok, rfl, h1, h2, hlen, hp'⟩ := rootWalk_step tape k i hp hlt
      rcases hp' with hstop | hp'
      · simp [h1, h2, tapeFieldKey_stops c fs bt ktok hstop]
      · exact structIter c tape f hV fs bt i tape.length slots hsl vtok ktok h1 h2 hlen
          (fun j sl hs hj => ih k' j sl hs (hj ▸ hp'))
    · exact (structFinish_ok fs slots []).2

/-- `C05_binde_tape_no_panic` under the weaker hypothesis `TapeOkW` -/
theorem binde_tape_no_panicW (c : Cfg) (ty : RootTy) (tape : List TTok) (h : TapeOkW tape = true) :
    deTape c ty tape ≠ .error .panic := by
  simp only [TapeOkW, Bool.and_eq_true] at h
  obtain ⟨hr, hp⟩ := h
  unfold deTape
  cases ty with
  | tok fs => exact root_struct_npW c tape hr fs true _ _ 0 _ (by simp [slotsInit]) hp
  | plain t =>
    cases t with
    | map vt =>
      dsimp only
      have := root_map_npW c tape hr vt (2 * tape.length + rootSize (.plain (.map vt)) + 8) _ 0 [] hp
      cases hx : tMap c tape (2 * tape.length + rootSize (.plain (.map vt)) + 8) vt 0 tape.length [] with
      | ok v => simp
      | error x => rw [hx] at this; simpa using this
    | struct fs => exact root_struct_npW c tape hr fs false _ _ 0 _ (by simp [slotsInit]) hp
    | _ => simp


/-! ## the bridge -/

theorem getElem?_toBinDeTape (T : BinTape.Tape) (i : Nat) : (toBinDeTape T)[i]? = (T[i]?).map ofBTok := by
  simp [toBinDeTape]

theorem keyStops_plain (t : BinTape.BTok) (h : t.isPlain = true) : keyStops (ofBTok t) = false := by
  cases t <;> simp [BinTape.BTok.isPlain] at h <;> rfl

theorem afterValue_plain (t : BinTape.BTok) (h : t.isPlain = true) (i : Nat) : afterValue (ofBTok t) i = i + 1 := by
  cases t <;> simp [BinTape.BTok.isPlain] at h <;> rfl

/-- a `Safe` item sequence is walked without running off the tape -/
theorem safe_walk {s : Nat} {l : BinTape.Tape} (h : BinTape.Safe s l) :
    ∀ (pre : BinTape.Tape) (k : Nat), pre.length = s → l.length + 1 ≤ k →
      rootWalk (toBinDeTape (pre ++ l)) k s = true := by
  induction h with
  | nil s =>
    intro pre k hp hk
    cases k with
    | zero => omega
    | succ k => simp [rootWalk, toBinDeTape, hp]
  | stop s e t rest ht hi =>
    intro pre k hp hk
    cases k with
    | zero => omega
    | succ k =>
      have hne : ∃ y rest', rest = y :: rest' := by
        cases hi with
        | plain _ _ _ hpl _ => rcases ht with rfl | rfl <;> simp [BinTape.BTok.isPlain] at hpl
        | cont _ _ _ inner rest' _ _ _ _ _ =>
          cases inner with
          | nil => exact ⟨_, _, rfl⟩
          | cons y ys => exact ⟨_, _, rfl⟩
      obtain ⟨y, rest', rfl⟩ := hne
      have h0 : (toBinDeTape (pre ++ t :: y :: rest'))[s]? = some (ofBTok t) := by
        rw [getElem?_toBinDeTape, ← hp]; simp
      have h1 : (toBinDeTape (pre ++ t :: y :: rest'))[s + 1]? = some (ofBTok y) := by
        rw [getElem?_toBinDeTape, ← hp, List.getElem?_append_right (by omega)]; simp
      have hlt : s < (toBinDeTape (pre ++ t :: y :: rest')).length := by simp [toBinDeTape]; omega
      have hks : keyStops (ofBTok t) = true := by rcases ht with rfl | rfl <;> rfl
      simp only [rootWalk, hlt, if_true, h0, h1, hks, Bool.true_or]
  | pairPlain s k' v rest hk' hv _ ih =>
    intro pre k hp hk
    cases k with
    | zero => omega
    | succ k =>
      have h0 : (toBinDeTape (pre ++ k' :: v :: rest))[s]? = some (ofBTok k') := by
        rw [getElem?_toBinDeTape, ← hp]; simp
      have h1 : (toBinDeTape (pre ++ k' :: v :: rest))[s + 1]? = some (ofBTok v) := by
        rw [getElem?_toBinDeTape, ← hp, List.getElem?_append_right (by omega)]; simp
      have hlt : s < (toBinDeTape (pre ++ k' :: v :: rest)).length := by simp [toBinDeTape]; omega
      simp only [List.length_cons] at hk
      have hrec := ih (pre ++ [k', v]) k (by simp; omega) (by omega)
      have e : pre ++ [k', v] ++ rest = pre ++ k' :: v :: rest := by simp
      rw [e] at hrec
      simp only [rootWalk, hlt, if_true, h0, h1, keyStops_plain k' hk', afterValue_plain v hv, Bool.false_or]
      exact hrec
  | pairCont s e k' t inner rest hk' ht he hin _ ih =>
    intro pre k hp hk
    cases k with
    | zero => omega
    | succ k =>
      have h0 : (toBinDeTape (pre ++ k' :: t :: (inner ++ BinTape.BTok.end_ (s + 1) :: rest)))[s]? = some (ofBTok k') := by
        rw [getElem?_toBinDeTape, ← hp]; simp
      have h1 : (toBinDeTape (pre ++ k' :: t :: (inner ++ BinTape.BTok.end_ (s + 1) :: rest)))[s + 1]? = some (ofBTok t) := by
        rw [getElem?_toBinDeTape, ← hp, List.getElem?_append_right (by omega)]; simp
      have hlt : s < (toBinDeTape (pre ++ k' :: t :: (inner ++ BinTape.BTok.end_ (s + 1) :: rest))).length := by
        simp [toBinDeTape]; omega
      simp only [List.length_cons, List.length_append] at hk
      have hrec := ih (pre ++ k' :: t :: (inner ++ [BinTape.BTok.end_ (s + 1)])) k (by simp; omega) (by omega)
      have e2 : pre ++ k' :: t :: (inner ++ [BinTape.BTok.end_ (s + 1)]) ++ rest
          = pre ++ k' :: t :: (inner ++ BinTape.BTok.end_ (s + 1) :: rest) := by simp
      rw [e2] at hrec
      have hav : afterValue (ofBTok t) (s + 1) = e + 1 := by rcases ht with rfl | rfl <;> rfl
      simp only [rootWalk, hlt, if_true, h0, h1, keyStops_plain k' hk', hav, Bool.false_or]
      exact hrec

theorem endsInRange_parsed (T : BinTape.Tape) (h : BinTape.WfBinTape T) : endsInRange (toBinDeTape T) = true := by
  unfold endsInRange
  rw [List.all_eq_true]
  intro x hx
  simp only [toBinDeTape, List.mem_map] at hx
  obtain ⟨b, hb, rfl⟩ := hx
  obtain ⟨i, hi⟩ := List.getElem?_of_mem hb
  have hl := (BinTape.C06_bin_links T h).1
  cases b <;> simp [ofBTok, toBinDeTape]
  · exact (hl i _ (Or.inl hi)).2.2.2.1
  · exact (hl i _ (Or.inr hi)).2.2.2.1

/-- **The requested statement is false**: the parser accepts `id id id { id }`, and its tape is not
`TapeOk` (the pairwise root walk runs onto the last token). -/
theorem C05_parsed_bintape_ok_counterexample :
    BinTape.parse true [0x11, 0x11, 0x22, 0x22, 0x33, 0x33, 0x03, 0x00, 0x44, 0x44, 0x04, 0x00]
      = .ok [.mixed, .token 0x1111, .token 0x2222, .token 0x3333, .array 6, .token 0x4444, .end_ 4] ∧
    TapeOk (toBinDeTape [.mixed, .token 0x1111, .token 0x2222, .token 0x3333, .array 6, .token 0x4444, .end_ 4]) = false ∧
    TapeOkW (toBinDeTape [.mixed, .token 0x1111, .token 0x2222, .token 0x3333, .array 6, .token 0x4444, .end_ 4]) = true := by
  refine ⟨rfl, by decide, by decide⟩

/-- **The strongest true variant** (`C05_parsed_bintape_ok` with `TapeOkW` for `TapeOk`): for every byte
string and both parsers, an accepted tape has all container ends inside the tape, and the
deserializer's root walk `key, value, key, …` either ends exactly at the end of the tape or stops at a
container start in key position whose value slot is inside the tape. -/
theorem C05_parsed_bintape_okW (opt : Bool) (data : Bytes) (T : BinTape.Tape) (h : BinTape.parse opt data = .ok T) :
    TapeOkW (toBinDeTape T) = true := by
  have h' : BinTape.parse false data = .ok T := by
    cases opt
    · exact h
    · rwa [BinTape.parse_true_eq_false] at h
  have hsafe := BinTape.parse_false_safe data T h'
  have hwf := BinTape.C06_bin_inv opt data T h
  simp only [TapeOkW, Bool.and_eq_true]
  refine ⟨endsInRange_parsed T hwf, ?_⟩
  have := safe_walk hsafe [] (T.length + 1) rfl (Nat.le_refl _)
  simpa [toBinDeTape] using this

/-- **Unconditional corollary**: on every tape the binary tape parser accepts — for all byte strings, both
parser variants — the tape deserializer never panics, whatever the target type, resolver and strategy. -/
theorem C05_binde_on_parsed_tapes (opt : Bool) (data : Bytes) (T : BinTape.Tape) (h : BinTape.parse opt data = .ok T)
    (cfg : Cfg) (ty : RootTy) : deTape cfg ty (toBinDeTape T) ≠ .error .panic :=
  binde_tape_no_panicW cfg ty (toBinDeTape T) (C05_parsed_bintape_okW opt data T h)

end Jomini.BinDe
