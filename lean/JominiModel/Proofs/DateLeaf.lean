import JominiModel.Proofs.Date
import JominiModel.Proofs.DateFmt
/-
The date leaf of property C10 ("text and binary renderings of one document deserialize to
the same value"): what the `Deserialize` impls of `Date` / `DateHour` do with the token the
text deserializer hands them (a scalar → `visit_str` → `parse`) and with the token the binary
deserializer hands them (an `I32` → `visit_i32` → `from_binary`; date.rs `DateVisitor`,
`DateHourVisitor` — the serde impls use plain `from_binary`, not the heuristic variant, which
only the binary *melter*/token classification uses).
-/
namespace Jomini.Date
open Jomini

/-- **C10, date leaf**: for every valid `Date` the binary format can express (year ≥ −5000), the
text rendering (short game format, what the text writer emits) and the binary rendering (the
`I32` of `to_binary`) both deserialize to that same date. -/
theorem C10_date_leaf (y : Int) (m d : Nat) (hy : inI16 y = true) (h5000 : -5000 ≤ y) (hv : ValidMd m d) :
    ∃ txt b, (mkDate y m d).gameFmt = .ok txt ∧ (mkDate y m d).toBinary = .ok b ∧ inI32 b = true ∧
      Date.visit (.str txt) = .ok (mkDate y m d) ∧ Date.visit (.i32 b) = .ok (mkDate y m d) := by
  have hl := validMd_lt hv
  refine ⟨dotText 0 y m d 0, binOf y m d 0, format_dot false y m d 0 hl.1 hl.2 (by omega),
    Date.toBinary_mk y hv, (binOf_fits y 0 hy hv (by omega)).2.2.2, ?_, ?_⟩
  · show Date.parse (dotText 0 y m d 0) = _
    rw [Date.parse_eq, earlyReject_dotText 0 (Or.inl rfl) y m d hy (by omega) (by omega)]
    simp only [Bool.false_eq_true, if_false, Date.fallback,
      Expanded.parse_dotText 0 (Or.inl rfl) y m d 0 hy (by omega) (by omega) (by omega), Out.bind_ok,
      Date.fromExpanded]
    simp [Date.fromYmdOpt_eq, hv]
  · exact Date.fromBinary_of_expanded hv (Expanded.fromBinary_binOf y m d 0 hy h5000 hv (by omega))

/-- the two deserializers cannot disagree on a date field -/
theorem C10_date_leaf_agree (y : Int) (m d : Nat) (hy : inI16 y = true) (h5000 : -5000 ≤ y)
    (hv : ValidMd m d) (txt : Bytes) (b : Int) (d' d'' : Date)
    (ht : (mkDate y m d).gameFmt = .ok txt) (hb : (mkDate y m d).toBinary = .ok b)
    (h1 : Date.visit (.str txt) = .ok d') (h2 : Date.visit (.i32 b) = .ok d'') : d' = d'' := by
  obtain ⟨txt0, b0, e1, e2, _, e3, e4⟩ := C10_date_leaf y m d hy h5000 hv
  rw [e1] at ht; rw [e2] at hb
  cases ht; cases hb
  rw [e3] at h1; rw [e4] at h2
  cases h1; cases h2; rfl

example : Date.visit (.str [49, 52, 52, 52, 46, 49, 49, 46, 49, 49]) = .ok (mkDate 1444 11 11) ∧
    Date.visit (.i32 56456976) = .ok (mkDate 1444 11 11) := by decide

/-- **C10, DateHour leaf** (hours 1–24, year ≥ −5000). -/
theorem C10_datehour_leaf (y : Int) (m d h : Nat) (hy : inI16 y = true) (h5000 : -5000 ≤ y)
    (hv : ValidMd m d) (hh : ValidHour h) :
    ∃ txt b, (mkDateHour y m d h).gameFmt = .ok txt ∧ (mkDateHour y m d h).toBinary = .ok b ∧
      inI32 b = true ∧
      DateHour.visit (.str txt) = .ok (mkDateHour y m d h) ∧
      DateHour.visit (.i32 b) = .ok (mkDateHour y m d h) := by
  have hl := validMd_lt hv
  have hh' : h < 32 := by unfold ValidHour at hh; omega
  have h24 : h - 1 < 24 := by unfold ValidHour at hh; omega
  refine ⟨dotText 0 y m d h, binOf y m d (h - 1), format_dot false y m d h hl.1 hl.2 hh',
    DateHour.toBinary_mk y hv hh, (binOf_fits y (h - 1) hy hv h24).2.2.2, ?_, ?_⟩
  · show DateHour.parse (dotText 0 y m d h) = _
    simp only [DateHour.parse,
      Expanded.parse_dotText 0 (Or.inl rfl) y m d h hy (by omega) (by omega) (by omega), Out.bind_ok,
      DateHour.fromExpanded]
    simp [DateHour.fromYmdhOpt_eq, hv, hh]
  · have := DateHour.fromBinary_of_expanded hv h24 (Expanded.fromBinary_binOf y m d (h - 1) hy h5000 hv h24)
    have e : h - 1 + 1 = h := by unfold ValidHour at hh; omega
    rw [e] at this
    exact this

theorem C10_datehour_leaf_agree (y : Int) (m d h : Nat) (hy : inI16 y = true) (h5000 : -5000 ≤ y)
    (hv : ValidMd m d) (hh : ValidHour h) (txt : Bytes) (b : Int) (d' d'' : DateHour)
    (ht : (mkDateHour y m d h).gameFmt = .ok txt) (hb : (mkDateHour y m d h).toBinary = .ok b)
    (h1 : DateHour.visit (.str txt) = .ok d') (h2 : DateHour.visit (.i32 b) = .ok d'') : d' = d'' := by
  obtain ⟨txt0, b0, e1, e2, _, e3, e4⟩ := C10_datehour_leaf y m d h hy h5000 hv hh
  rw [e1] at ht; rw [e2] at hb
  cases ht; cases hb
  rw [e3] at h1; rw [e4] at h2
  cases h1; cases h2; rfl

/-- the year bound is necessary for the leaf as well: 2 January −5001 as text is that date, as
`I32` it is refused (the binary format cannot express it). -/
theorem C10_date_leaf_needs_year_bound :
    Date.visit (.str [45, 53, 48, 48, 49, 46, 49, 46, 50]) = .ok (mkDate (-5001) 1 2) ∧
    (mkDate (-5001) 1 2).toBinary = .ok (-8736) ∧ Date.visit (.i32 (-8736)) = .err := by
  decide

end Jomini.Date
