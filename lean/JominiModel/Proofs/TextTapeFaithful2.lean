import JominiModel.Proofs.TextTapeFaithful
/-
C01 growth, fragment 2: nested objects of any depth (scalars, all operators, any valid layout).
-/
namespace Jomini.TextTape
open Jomini

theorem blank_open : isBlank 123 = false := by decide +kernel
theorem blank_close : isBlank 125 = false := by decide +kernel

theorem skipWs_cons {c : UInt8} (X : Bytes) (hb : isBlank c = false) (h35 : c ≠ 35) :
    skipWs (c :: X) = some (c :: X) := by
  simp [skipWs, skipWsAux, hb, h35]

/-! ### the three container iterations -/

/-- ObjectValue sees `{`: the placeholder is pushed. -/
theorem step_ov_open {n : Nat} {st : St} {g X : Bytes} (hst : st.state = .objectValue) (hg : Blank g) :
    step n st (g ++ 123 :: X) =
      .cont { st with tape := st.tape ++ [.array 0 false], state := .parseOpen } X := by
  simp only [step, skipWs_blank hg, skipWs_cons X blank_open (by decide), stepAt, hst]
  simp [stepObjectValue]

theorem firstFieldPeek_op (o : Op) (Y : Bytes) : firstFieldPeek (o.text ++ Y) = true := by
  cases o <;> simp [firstFieldPeek, Op.text]

/-- ParseOpen sees the first key of an object: the placeholder becomes `Object{end: parent}`. -/
theorem step_parseopen_field {n : Nat} {st : St} {T : List Tok} {g0 g1 : Bytes} {k : Scal} {o : Op} {Y : Bytes}
    (hst : st.state = .parseOpen) (hm : st.mixed = false) (hT : st.tape = T ++ [.array 0 false])
    (h0 : Blank g0) (hk : k.Valid) (h1 : Blank g1)
    (hkb : k.quoted = false → StartsBoundary (g1 ++ o.text)) :
    step n st (g0 ++ (k.text ++ (g1 ++ (o.text ++ Y)))) =
      .cont { state := .kvs, mixed := false, parent := T.length,
              tape := T ++ [.object st.parent false, k.tok (g1 ++ (o.text ++ Y))] } (o.text ++ Y) := by
  obtain ⟨c, r, htx, _, _, h125, _, h123, h91, _, _, _⟩ := hk.head
  have hkX : k.quoted = false → StartsBoundary (g1 ++ (o.text ++ Y)) := by
    intro hq
    rcases hkb hq with h | ⟨c', r', h, hc'⟩
    · have : o.text ≠ [] := by cases o <;> simp [Op.text]
      simp at h; exact absurd h.2 this
    · exact .inr ⟨c', r' ++ Y, by rw [← List.cons_append, ← h]; simp, hc'⟩
  have hlex := lexValue_scal hk st.tape (g1 ++ (o.text ++ Y)) hkX
  simp only [step, skipWs_blank h0, skipWs_scal hk, stepAt, hst]
  rw [htx] at hlex ⊢
  simp only [List.cons_append] at hlex ⊢
  simp only [stepParseOpen, h125, h91, h123, if_false, hlex, hm, Bool.false_eq_true, skipWs_blank h1,
    skipWs_op, firstFieldPeek_op, if_true]
  rw [hT]
  simp [setTok]

/-- Key sees `}`: the innermost object is closed. -/
theorem step_key_close {n : Nat} {st : St} {gc X : Bytes} {P : Nat} (hst : st.state = .key)
    (hg : Blank gc) (hp : st.parent ≠ 0) (hlt : st.parent < st.tape.length)
    (hpt : st.tape[st.parent]? = some (.object P false))
    (hcs : closeState st.tape[P]? = (false, .key)) :
    step n st (gc ++ 125 :: X) =
      .cont { state := .key, mixed := false, parent := P,
              tape := (st.tape ++ [Tok.endTok st.parent]).set st.parent (.object st.tape.length st.mixed) } X := by
  simp only [step, skipWs_blank hg, skipWs_cons X blank_close (by decide), stepAt, hst]
  have hlt' : st.parent < st.tape.length + 1 := by omega
  simp [stepKey, hpt, endOf, hcs, hp, setTok, hlt']

/-! ### bookkeeping -/

mutual
theorem len_tapeV : ∀ (v : LVal) (b : Nat) (a : Bytes), (tapeV v b a).length = cntV v
  | .scal _ _, _, _ => by simp [tapeV, cntV]
  | .obj _ _ _ _ o v rest _, b, a => by
    simp only [tapeV, cntV, List.length_append, List.length_cons, List.length_nil, len_tapeV v, len_tapeF rest]
    try omega
theorem len_tapeF : ∀ (fs : LFields) (b : Nat) (a : Bytes), (tapeF fs b a).length = cntF fs
  | .nil, _, _ => by simp [tapeF, cntF]
  | .cons _ _ _ o v rest, b, a => by
    simp only [tapeF, cntF, List.length_append, List.length_cons, List.length_nil, len_tapeV v, len_tapeF rest]
    try omega
end

/-- a value's rendering never starts with `=`. -/
theorem head_renderV : ∀ (v : LVal) (after Z : Bytes), ValidV v after → (renderV v ++ Z).head? ≠ some 61
  | .scal g s, after, Z, hv => by
    simp only [ValidV] at hv
    simp only [renderV, List.append_assoc]
    exact head_blank_scal hv.1 hv.2.1 Z
  | .obj g g0 k g1 o v rest gc, after, Z, hv => by
    simp only [ValidV] at hv
    simp only [renderV, List.append_assoc, List.cons_append]
    cases hv.1 with
    | nil => simp
    | ws c w hc _ =>
      simp only [List.cons_append, List.head?_cons, ne_eq, Option.some.injEq]
      intro h; subst h; simp [blank_eq] at hc
    | comment body w _ _ => simp

structure Ctx (st : St) : Prop where
  mixed : st.mixed = false
  zero : ∀ e m, st.tape[0]? ≠ some (.array e m) ∧ st.tape[0]? ≠ some (.object e m)
  parent : st.parent = 0 ∨ ∃ P, st.tape[st.parent]? = some (.object P false)

theorem closeState_plain {x : Option Tok}
    (h : ∀ e m, x ≠ some (.array e m) ∧ x ≠ some (.object e m)) : closeState x = (false, .key) := by
  unfold closeState
  split
  · next e m => exact absurd rfl (h e m).1
  · next e m => exact absurd rfl (h e m).2
  · rfl

/-- closing an object whose parent is described by `Ctx`: back to Key, not mixed. -/
theorem Ctx.closeState {st : St} (hc : Ctx st) (hne : st.tape ≠ []) (R : List Tok) :
    closeState (st.tape ++ R)[st.parent]? = (false, .key) := by
  have hlen : 0 < st.tape.length := List.length_pos_iff.2 hne
  rcases hc.parent with h0 | ⟨P, hP⟩
  · rw [h0, List.getElem?_append_left hlen]
    exact closeState_plain hc.zero
  · rw [List.getElem?_append_left (getElem?_lt_of_some hP), hP]
    rfl

/-! ### whole values and field lists -/

mutual
theorem run_V (n : Nat) : ∀ (v : LVal) (after : Bytes) (fuel : Nat) (st : St),
    ValidV v after → st.state = .objectValue → Ctx st → st.tape ≠ [] →
    run n (fuel + stepsV v) st (renderV v ++ after) =
      run n fuel { st with tape := st.tape ++ tapeV v st.tape.length after, state := .key } after
  | .scal g s, after, fuel, st, hv, hst, _, _ => by
    simp only [ValidV] at hv
    simp only [stepsV, renderV, tapeV, List.append_assoc]
    rw [run_cont (step_val_scal hst hv.1 hv.2.1 hv.2.2)]
  | .obj g g0 k g1 o v rest gc, after, fuel, st, hv, hst, hc, hne => by
    simp only [ValidV] at hv
    obtain ⟨hg, h0, h1, hgc, hk, hkb, hvv, hvr⟩ := hv
    have hlen : 0 < st.tape.length := List.length_pos_iff.2 hne
    have hfuel : fuel + stepsV (.obj g g0 k g1 o v rest gc) =
        ((((fuel + 1) + stepsF rest) + stepsV v) + 1 + 1) + 1 := by simp only [stepsV]; omega
    rw [hfuel]
    simp only [renderV, List.append_assoc, List.cons_append, List.nil_append]
    -- `{`
    rw [run_cont (step_ov_open hst hg)]
    -- first key
    rw [run_cont (step_parseopen_field (T := st.tape) rfl (by simpa using hc.mixed) rfl h0 hk h1 hkb)]
    -- operator
    have hop := step_kvs_op (n := n) (g := []) (o := o)
      (st := { state := .kvs, mixed := false, parent := st.tape.length,
               tape := st.tape ++ [.object st.parent false,
                 k.tok (g1 ++ (o.text ++ (renderV v ++ (renderF rest ++ (gc ++ 125 :: after)))))] })
      (Y := renderV v ++ (renderF rest ++ (gc ++ 125 :: after))) rfl rfl .nil (head_renderV v _ _ hvv)
    simp only [List.nil_append] at hop
    rw [run_cont hop]
    -- the first value
    rw [run_V n v (renderF rest ++ (gc ++ 125 :: after)) _ _ hvv rfl
      ⟨rfl, by
        intro e m
        simp only [List.append_assoc]
        rw [List.getElem?_append_left hlen]; exact hc.zero e m,
       .inr ⟨st.parent, by simp⟩⟩ (by simp)]
    -- the other fields
    rw [run_F n rest (gc ++ 125 :: after) _ _ hvr rfl
      ⟨rfl, by
        intro e m
        simp only [List.append_assoc]
        rw [List.getElem?_append_left hlen]; exact hc.zero e m,
       .inr ⟨st.parent, by simp⟩⟩]
    -- `}`
    simp only [List.append_assoc]
    rw [run_cont (step_key_close (P := st.parent) rfl hgc (by simp; omega) (by simp) (by simp)
      (by simpa using hc.closeState hne _))]
    -- the two final states are the same
    congr 1
    simp only [St.mk.injEq, true_and]
    refine ⟨hc.mixed.symm, ?_⟩
    simp only [tapeV, List.length_append, List.length_cons, len_tapeV, len_tapeF,
      List.append_assoc, List.cons_append, List.nil_append]
    rw [List.set_append_right _ _ (Nat.le_refl _)]
    simp only [Nat.sub_self, List.set_cons_zero]
    simp only [Nat.add_assoc, Nat.add_comm, Nat.add_left_comm]
theorem run_F (n : Nat) : ∀ (fs : LFields) (after : Bytes) (fuel : Nat) (st : St),
    ValidF fs after → st.state = .key → Ctx st →
    run n (fuel + stepsF fs) st (renderF fs ++ after) =
      run n fuel { st with tape := st.tape ++ tapeF fs st.tape.length after } after
  | .nil, after, fuel, st, _, _, _ => by simp [stepsF, renderF, tapeF]
  | .cons g0 k g1 o v rest, after, fuel, st, hv, hst, hc => by
    simp only [ValidF] at hv
    obtain ⟨h0, h1, hk, hkb, hvv, hvr⟩ := hv
    have hfuel : fuel + stepsF (.cons g0 k g1 o v rest) = (((fuel + stepsF rest) + stepsV v) + 1) + 1 := by
      simp only [stepsF]; omega
    rw [hfuel]
    simp only [renderF, List.append_assoc]
    have hkX : k.quoted = false →
        StartsBoundary (g1 ++ (o.text ++ (renderV v ++ (renderF rest ++ after)))) := by
      intro hq
      rcases hkb hq with h | ⟨c, r, h, hc'⟩
      · have : o.text ≠ [] := by cases o <;> simp [Op.text]
        simp at h; exact absurd h.2 this
      · exact .inr ⟨c, r ++ (renderV v ++ (renderF rest ++ after)), by
          rw [← List.cons_append, ← h]; simp, hc'⟩
    rw [run_cont (step_key_scal hst h0 hk hkX)]
    rw [run_cont (step_kvs_op (by simp) (by simpa using hc.mixed) h1 (head_renderV v _ _ hvv))]
    have hz : ∀ e m, (st.tape ++ [k.tok (g1 ++ (o.text ++ (renderV v ++ (renderF rest ++ after))))] ++ o.toks)[0]? ≠
        some (.array e m) ∧
        (st.tape ++ [k.tok (g1 ++ (o.text ++ (renderV v ++ (renderF rest ++ after))))] ++ o.toks)[0]? ≠
        some (.object e m) := by
      intro e m
      cases hT : st.tape with
      | nil => simp [Scal.tok]; split <;> simp
      | cons t T =>
        have := hc.zero e m
        simp [hT] at this ⊢
        exact this
    have hp : st.parent = 0 ∨ ∃ P,
        (st.tape ++ [k.tok (g1 ++ (o.text ++ (renderV v ++ (renderF rest ++ after))))] ++ o.toks)[st.parent]? =
          some (.object P false) := by
      rcases hc.parent with h | ⟨P, hP⟩
      · exact .inl h
      · refine .inr ⟨P, ?_⟩
        rw [List.append_assoc, List.getElem?_append_left (getElem?_lt_of_some hP)]; exact hP
    simp only
    have hctx : Ctx (St.mk .objectValue st.mixed st.parent
        (st.tape ++ [k.tok (g1 ++ (o.text ++ (renderV v ++ (renderF rest ++ after))))] ++ o.toks)) :=
      ⟨hc.mixed, hz, hp⟩
    rw [run_V n v (renderF rest ++ after) _ _ hvv rfl hctx (by simp)]
    simp only
    have hctx2 : Ctx (St.mk .key st.mixed st.parent
        (st.tape ++ [k.tok (g1 ++ (o.text ++ (renderV v ++ (renderF rest ++ after))))] ++ o.toks ++
          tapeV v (st.tape ++ [k.tok (g1 ++ (o.text ++ (renderV v ++ (renderF rest ++ after))))] ++ o.toks).length
            (renderF rest ++ after))) := by
      refine ⟨hc.mixed, ?_, ?_⟩
      · intro e m
        rw [List.getElem?_append_left (by simp; omega)]
        exact hz e m
      · rcases hp with h | ⟨P, hP⟩
        · exact .inl h
        · refine .inr ⟨P, ?_⟩
          rw [List.getElem?_append_left (getElem?_lt_of_some hP)]; exact hP
    rw [run_F n rest after _ _ hvr rfl hctx2]
    congr 1
    simp only [St.mk.injEq, true_and, hst]
    simp only [tapeF, List.length_append, List.length_cons, len_tapeV, List.append_assoc,
      List.cons_append, List.nil_append]
    simp only [Nat.add_assoc, Nat.add_comm, Nat.add_left_comm]
end

/-! ### whole documents -/

theorem Scal.Valid.text_pos {s : Scal} (h : s.Valid) : 1 ≤ s.text.length := by
  obtain ⟨c, r, htx, _⟩ := h.head
  simp [htx]

theorem Op.text_pos (o : Op) : 1 ≤ o.text.length := by cases o <;> simp [Op.text]

mutual
theorem stepsV_le : ∀ (v : LVal) (a : Bytes), ValidV v a → stepsV v ≤ 2 * (renderV v).length
  | .scal g s, a, hv => by
    simp only [ValidV] at hv
    have := hv.2.1.text_pos
    simp only [stepsV, renderV, List.length_append]; omega
  | .obj g g0 k g1 o v rest gc, a, hv => by
    simp only [ValidV] at hv
    have h1 := hv.2.2.2.2.1.text_pos
    have h2 := o.text_pos
    have h3 := stepsV_le v _ hv.2.2.2.2.2.2.1
    have h4 := stepsF_le rest _ hv.2.2.2.2.2.2.2
    simp only [stepsV, renderV, List.length_append, List.length_cons, List.length_nil]; omega
theorem stepsF_le : ∀ (fs : LFields) (a : Bytes), ValidF fs a → stepsF fs ≤ 2 * (renderF fs).length
  | .nil, _, _ => by simp [stepsF]
  | .cons g0 k g1 o v rest, a, hv => by
    simp only [ValidF] at hv
    have h1 := hv.2.2.1.text_pos
    have h2 := o.text_pos
    have h3 := stepsV_le v _ hv.2.2.2.2.1
    have h4 := stepsF_le rest _ hv.2.2.2.2.2
    simp only [stepsF, renderF, List.length_append]; omega
end

/-- C01_faithful, fragment 2 (with the positions): a document of nested objects (any depth, all
operators, quoted / unquoted scalars) under any valid layout parses to exactly its keys,
operators, scalars and object boundaries, in document order, with the `end` links of the tape. -/
theorem parse_nested (fs : LFields) (gt : Bytes) (hgt : Blank gt) (hv : ValidF fs gt)
    (hb : hasBom (renderF fs ++ gt) = false) :
    parse (renderF fs ++ gt) = .ok (tapeF fs 0 gt) false := by
  have hsteps := stepsF_le fs gt hv
  unfold parse
  simp only [hb, Bool.false_eq_true, if_false]
  have hf : fuelFor (renderF fs ++ gt) =
      ((2 * (renderF fs ++ gt).length + 3 - stepsF fs) + 1) + stepsF fs := by
    simp only [fuelFor, List.length_append]; omega
  rw [hf, run_F _ fs gt _ St.init hv rfl ⟨rfl, by simp [St.init], .inl rfl⟩]
  have hsk : skipWs gt = none := by
    have := skipWs_blank hgt []
    simpa [skipWs, skipWsAux] using this
  simp [run, step, hsk, atEof, St.init, Res.withBom]

mutual
theorem ccnt_contentV : ∀ v : LVal, ccntV (contentV v) = cntV v
  | .scal _ _ => rfl
  | .obj _ _ _ _ o v rest _ => by
    simp only [contentV, ccntV, ccntF, cntV, ccnt_contentV v, ccnt_contentF rest]
    omega
theorem ccnt_contentF : ∀ fs : LFields, ccntF (contentFs fs) = cntF fs
  | .nil => rfl
  | .cons _ _ _ o v rest => by
    simp only [contentFs, ccntF, cntF, ccnt_contentV v, ccnt_contentF rest]
end

mutual
theorem tapeV_erase : ∀ (v : LVal) (b : Nat) (a : Bytes),
    (tapeV v b a).map Tok.erase = ctapeV (contentV v) b
  | .scal _ s, b, a => by simp [tapeV, contentV, ctapeV, Scal.tok_erase s a]
  | .obj _ _ k g1 o v rest gc, b, a => by
    have he : ∀ e m, (Tok.object e m).erase = Tok.object e m := fun _ _ => rfl
    have he2 : ∀ i, (Tok.endTok i).erase = Tok.endTok i := fun _ => rfl
    simp only [tapeV, contentV, ctapeV, ctapeF, ccntF, List.map_append, List.map_cons, List.map_nil,
      Scal.tok_erase k, Op.toks_erase, tapeV_erase v, tapeF_erase rest, ccnt_contentV, ccnt_contentF,
      he, he2, List.append_assoc, List.cons_append, List.nil_append]
    simp only [Nat.add_assoc, Nat.add_comm, Nat.add_left_comm]
theorem tapeF_erase : ∀ (fs : LFields) (b : Nat) (a : Bytes),
    (tapeF fs b a).map Tok.erase = ctapeF (contentFs fs) b
  | .nil, _, _ => rfl
  | .cons _ k g1 o v rest, b, a => by
    simp only [tapeF, contentFs, ctapeF, List.map_append, List.map_cons, List.map_nil,
      Scal.tok_erase k, Op.toks_erase, tapeV_erase v, tapeF_erase rest, ccnt_contentV,
      List.append_assoc, List.cons_append, List.nil_append]
end

/-- C01_faithful, fragment 2: up to the positions, the tape is the document's content. -/
theorem faithful_nested (fs : LFields) (gt : Bytes) (hgt : Blank gt) (hv : ValidF fs gt)
    (hb : hasBom (renderF fs ++ gt) = false) :
    ∃ T, parse (renderF fs ++ gt) = .ok T false ∧ T.map Tok.erase = ctapeF (contentFs fs) 0 :=
  ⟨_, parse_nested fs gt hgt hv hb, tapeF_erase fs 0 gt⟩

/-- C01_layout_independent, fragment 2: two valid layouts of the same nested-object document give
the same tape up to positions (same tokens, same `end` links). -/
theorem layout_independent_nested (fs fs' : LFields) (gt gt' : Bytes) (hgt : Blank gt) (hgt' : Blank gt')
    (hv : ValidF fs gt) (hv' : ValidF fs' gt')
    (hb : hasBom (renderF fs ++ gt) = false) (hb' : hasBom (renderF fs' ++ gt') = false)
    (hc : contentFs fs = contentFs fs') :
    ∃ T T', parse (renderF fs ++ gt) = .ok T false ∧ parse (renderF fs' ++ gt') = .ok T' false ∧
      T.map Tok.erase = T'.map Tok.erase :=
  ⟨_, _, parse_nested fs gt hgt hv hb, parse_nested fs' gt' hgt' hv' hb', by
    rw [tapeF_erase, tapeF_erase, hc]⟩

/-- `a={b="x" c<{d=e}}` + newline. -/
def exampleNested : LFields :=
  .cons [] ⟨false, [97]⟩ [] .eq
    (.obj [] [] ⟨false, [98]⟩ [] .eq (.scal [] ⟨true, [120]⟩)
      (.cons [32] ⟨false, [99]⟩ [] .lt
        (.obj [] [] ⟨false, [100]⟩ [] .eq (.scal [] ⟨false, [101]⟩) .nil []) .nil) [])
    .nil

example : parse (renderF exampleNested ++ [10]) = .ok (tapeF exampleNested 0 [10]) false := by
  decide +kernel

theorem unq_valid (c : UInt8) (hb : isBoundary c = false) (hbl : isBlank c = false) (h1 : c ≠ 34) (h2 : c ≠ 64) :
    (Scal.mk false [c]).Valid := by
  simp only [Scal.Valid, Bool.false_eq_true, if_false]
  exact ⟨by simpa using hb, c, [], rfl, hbl, h1, h2⟩

theorem exampleNested_valid :
    ValidF exampleNested [10] ∧ Blank [10] ∧ hasBom (renderF exampleNested ++ [10]) = false := by
  have hb : ∀ c : UInt8, isBoundary c = true → ∀ r, StartsBoundary (c :: r) := fun c h r => .inr ⟨c, r, rfl, h⟩
  refine ⟨?_, .ws 10 [] (by decide +kernel) .nil, by decide +kernel⟩
  simp only [exampleNested, ValidF, ValidV, renderF, renderV, Op.text, Scal.text, List.nil_append,
    List.append_nil, and_true]
  refine ⟨.nil, .nil, unq_valid 97 (by decide +kernel) (by decide +kernel) (by decide) (by decide),
    fun _ => hb 61 (by decide +kernel) _, .nil, .nil, .nil, .nil,
    unq_valid 98 (by decide +kernel) (by decide +kernel) (by decide) (by decide),
    fun _ => hb 61 (by decide +kernel) _, ⟨.nil, by simp [Scal.Valid]; rfl, by simp⟩, ?_⟩
  refine ⟨.ws 32 [] (by decide +kernel) .nil, .nil,
    unq_valid 99 (by decide +kernel) (by decide +kernel) (by decide) (by decide),
    fun _ => hb 60 (by decide +kernel) _, ?_⟩
  exact ⟨.nil, .nil, .nil, .nil, unq_valid 100 (by decide +kernel) (by decide +kernel) (by decide) (by decide),
    fun _ => hb 61 (by decide +kernel) _, .nil, unq_valid 101 (by decide +kernel) (by decide +kernel) (by decide) (by decide),
      fun _ => hb 125 (by decide +kernel) _⟩

end Jomini.TextTape
