import JominiModel.Model.TextTape
import JominiModel.Spec.TextTape
/-
Helper lemmas for C01: block scanners vs bytewise fallbacks, blank skipping, BOM.
-/
namespace Jomini.TextTape
open Jomini

/-! ### findFirst / firstIdx -/

theorem firstIdx_some_append (p : UInt8 → Bool) :
    ∀ (l r : Bytes) (i : Nat), firstIdx p l = some i → findFirst p (l ++ r) = i ∧ i < l.length
  | [], _, _, h => by simp [firstIdx] at h
  | c :: cs, r, i, h => by
    simp only [firstIdx] at h
    by_cases hc : p c = true
    · simp [hc] at h; subst h; simp [findFirst, hc]
    · simp [hc] at h
      obtain ⟨j, hj, rfl⟩ := h
      have := firstIdx_some_append p cs r j hj
      simp [findFirst, hc, this.1]; exact this.2

theorem firstIdx_none_append (p : UInt8 → Bool) :
    ∀ (l r : Bytes), firstIdx p l = none → findFirst p (l ++ r) = l.length + findFirst p r
  | [], r, _ => by simp
  | c :: cs, r, h => by
    simp only [firstIdx] at h
    by_cases hc : p c = true
    · simp [hc] at h
    · simp [hc] at h
      have := firstIdx_none_append p cs r h
      simp [findFirst, hc, this]; omega

theorem findFirst_le (p : UInt8 → Bool) : ∀ d : Bytes, findFirst p d ≤ d.length
  | [] => by simp [findFirst]
  | c :: cs => by
    have := findFirst_le p cs
    simp only [findFirst]; split <;> simp <;> omega

/-! ### split_at_scalar: blocks = bytewise -/

theorem sseScan_spec : ∀ (fuel : Nat) (rest : Bytes) (at_ e : Nat),
    sseScan fuel rest at_ = some e → e = max (at_ + findFirst isSseBoundary rest) 1
  | 0, _, _, _, h => by simp [sseScan] at h
  | fuel + 1, rest, at_, e, h => by
    simp only [sseScan] at h
    split at h
    · next hlen =>
      have hsplit : rest = rest.take 16 ++ rest.drop 16 := (List.take_append_drop 16 rest).symm
      split at h
      · next i hi =>
        have := (firstIdx_some_append isSseBoundary (rest.take 16) (rest.drop 16) i hi).1
        rw [← hsplit] at this
        simp at h; rw [this]; exact h.symm
      · next hn =>
        have h1 := firstIdx_none_append isSseBoundary (rest.take 16) (rest.drop 16) hn
        rw [← hsplit] at h1
        have h2 := sseScan_spec fuel (rest.drop 16) (at_ + 16) e h
        have hl : (rest.take 16).length = 16 := by simp; omega
        rw [h1, hl, h2]; congr 1; omega
    · simp at h

theorem isSse_eq (htab : Tables.sseBoundary = Tables.boundaryTab) : isSseBoundary = isBoundary := by
  funext b; simp [isSseBoundary, isBoundary, htab]

theorem splitAtScalar_eq_fallback (htab : Tables.sseBoundary = Tables.boundaryTab) (d : Bytes) :
    splitAtScalar d = splitAtScalarFallback d := by
  unfold splitAtScalar
  split
  · next e he =>
    have := sseScan_spec _ _ _ _ he
    rw [isSse_eq htab] at this
    simp [splitAtScalarFallback, this]
  · rfl

/-! ### parse_quote_scalar: blocks = bytewise -/

theorem quoteClose_block_some : ∀ (blk r : Bytes) (i : Nat),
    (∀ c ∈ blk, c ≠ 92) → firstIdx (fun c => c = 34) blk = some i →
    quoteClose (blk ++ r) false = some i
  | [], _, _, _, h => by simp [firstIdx] at h
  | c :: cs, r, i, hb, h => by
    have hc : c ≠ 92 := hb c (by simp)
    simp only [firstIdx] at h
    by_cases hq : c = 34
    · simp [hq] at h; subst h; simp [quoteClose, hq]
    · simp [hq] at h
      obtain ⟨j, hj, rfl⟩ := h
      have := quoteClose_block_some cs r j (fun x hx => hb x (by simp [hx])) hj
      simp [quoteClose, hc, hq, this]

theorem quoteClose_block_none : ∀ (blk r : Bytes),
    (∀ c ∈ blk, c ≠ 92) → firstIdx (fun c => c = 34) blk = none →
    quoteClose (blk ++ r) false = (quoteClose r false).map (· + blk.length)
  | [], r, _, _ => by simp
  | c :: cs, r, hb, h => by
    have hc : c ≠ 92 := hb c (by simp)
    simp only [firstIdx] at h
    by_cases hq : c = 34
    · simp [hq] at h
    · simp [hq] at h
      have := quoteClose_block_none cs r (fun x hx => hb x (by simp [hx])) h
      simp [quoteClose, hc, hq, this, Option.map_map]
      cases quoteClose r false <;> simp; omega

theorem quoteScan_spec : ∀ (fuel : Nat) (rest : Bytes) (at_ k : Nat),
    quoteScan fuel rest at_ = some k → ∃ j, k = at_ + j ∧ quoteClose rest false = some j
  | 0, _, _, _, h => by simp [quoteScan] at h
  | fuel + 1, rest, at_, k, h => by
    simp only [quoteScan] at h
    split at h
    · next hlen =>
      have hsplit : rest = rest.take 16 ++ rest.drop 16 := (List.take_append_drop 16 rest).symm
      split at h
      · simp at h
      · next hns =>
        have hb : ∀ c ∈ rest.take 16, c ≠ 92 := by
          intro c hc heq
          apply hns
          simp only [List.any_eq_true]
          exact ⟨c, hc, by simp [heq]⟩
        split at h
        · next i hi =>
          have := quoteClose_block_some (rest.take 16) (rest.drop 16) i hb hi
          rw [← hsplit] at this
          simp at h
          exact ⟨i, h.symm, this⟩
        · next hn =>
          have h1 := quoteClose_block_none (rest.take 16) (rest.drop 16) hb hn
          rw [← hsplit] at h1
          obtain ⟨j, hj, hq⟩ := quoteScan_spec fuel (rest.drop 16) (at_ + 16) k h
          have hl : (rest.take 16).length = 16 := by simp; omega
          refine ⟨j + 16, by omega, ?_⟩
          rw [h1, hq, hl]; simp
    · simp at h

theorem parseQuoteScalar_eq_fallback (c : UInt8) (hay : Bytes) :
    parseQuoteScalar (c :: hay) = parseQuoteScalarFallback (c :: hay) := by
  simp only [parseQuoteScalar]
  split
  · next k hk =>
    obtain ⟨j, hj, hq⟩ := quoteScan_spec _ _ _ _ hk
    simp at hj; subst hj
    simp [parseQuoteScalarFallback, hq]
  · rfl

/-! ### skip_ws_t -/

theorem isBlank_hash : isBlank 35 = false := by decide +kernel

theorem skipWsAux_comment : ∀ (body rest : Bytes), (∀ c ∈ body, c ≠ 10) →
    skipWsAux (body ++ 10 :: rest) true = skipWsAux rest false
  | [], rest, _ => by simp [skipWsAux]
  | c :: cs, rest, h => by
    have hc : c ≠ 10 := h c (by simp)
    have := skipWsAux_comment cs rest (fun x hx => h x (by simp [hx]))
    simp [skipWsAux, hc, this]

theorem skipWs_blank {w : Bytes} (hw : Blank w) (d : Bytes) : skipWs (w ++ d) = skipWs d := by
  induction hw with
  | nil => rfl
  | ws c w hc _ ih => simp only [skipWs] at ih ⊢; simp [skipWsAux, hc, ih]
  | comment body w hb _ ih =>
    simp only [skipWs] at ih ⊢
    simp only [List.cons_append, List.append_assoc, skipWsAux, isBlank_hash]
    simp [skipWsAux_comment body (w ++ d) hb, ih]

/-- what `skip_ws_t` returns is a non-empty suffix that starts with a non-blank, non-`#` byte. -/
theorem skipWsAux_some : ∀ (d : Bytes) (b : Bool) (r : Bytes), skipWsAux d b = some r →
    ∃ c cs, r = c :: cs ∧ isBlank c = false ∧ c ≠ 35 ∧ r.length ≤ d.length
  | [], _, _, h => by simp [skipWsAux] at h
  | c :: cs, true, r, h => by
    simp only [skipWsAux] at h
    split at h
    all_goals
      obtain ⟨x, xs, h1, h2, h3, h4⟩ := skipWsAux_some cs _ r h
      exact ⟨x, xs, h1, h2, h3, by simp; omega⟩
  | c :: cs, false, r, h => by
    simp only [skipWsAux] at h
    split at h
    · obtain ⟨x, xs, h1, h2, h3, h4⟩ := skipWsAux_some cs _ r h
      exact ⟨x, xs, h1, h2, h3, by simp; omega⟩
    · next hb =>
      split at h
      · obtain ⟨x, xs, h1, h2, h3, h4⟩ := skipWsAux_some cs _ r h
        exact ⟨x, xs, h1, h2, h3, by simp; omega⟩
      · next h35 =>
        simp at h; subst h
        exact ⟨c, cs, rfl, by simpa using hb, h35, by simp⟩

/-! ### blanks at the points where the state machine calls `skip_ws_t` -/

theorem step_blank {w : Bytes} (hw : Blank w) (n : Nat) (st : St) (d : Bytes) :
    step n st (w ++ d) = step n st d := by
  simp [step, skipWs_blank hw]

theorem stepKey_open_blank {w : Bytes} (hw : Blank w) (st : St) (rest : Bytes) :
    stepKey st (123 :: (w ++ rest)) = stepKey st (123 :: rest) := by
  simp [stepKey, skipWs_blank hw]

/-- in ParseOpen a non-empty `{` is not consumed by this iteration (the container becomes an
array and `ArrayValue` sees the `{` again), so the two results carry the same new state and
their own cursor. -/
theorem stepParseOpen_open_blank {w : Bytes} (hw : Blank w) (st : St) (rest : Bytes) :
    stepParseOpen st (123 :: (w ++ rest)) = stepParseOpen st (123 :: rest) ∨
    ∃ st', stepParseOpen st (123 :: (w ++ rest)) = .cont st' (123 :: (w ++ rest)) ∧
           stepParseOpen st (123 :: rest) = .cont st' (123 :: rest) := by
  simp only [stepParseOpen, skipWs_blank hw]
  cases skipWs rest with
  | none => simp
  | some scratch =>
    cases scratch with
    | nil => simp
    | cons c2 rest2 =>
      by_cases h2 : c2 = 125
      · simp [h2]
      · by_cases hl : st.tape.length = 0
        · simp [h2, hl]
        · cases hs : setTok st.tape (st.tape.length - 1) (.array st.parent false) with
          | none => simp [h2, hl]
          | some t => simp [h2, hl]

/-! ### BOM -/

theorem stepArrayOp_onErr (r : Res) (st : St) (d : Bytes)
    (hne : stepArrayOp .panic st d ≠ .done .panic) : stepArrayOp r st d = stepArrayOp .panic st d := by
  unfold stepArrayOp arrayOpPre at hne ⊢
  cases hm : st.mixed <;> cases hl : (st.tape.getLast?.bind Tok.asScalar) <;>
    cases hi : insertBeforeLast st.tape .mixedContainer <;>
    cases ho : lexOperator false d <;> simp_all

theorem stepArrayValue_origLen (n1 n2 : Nat) (h : n1 ≤ n2) (st : St) (d : Bytes)
    (hne : stepArrayValue n1 st d ≠ .done .panic) : stepArrayValue n2 st d = stepArrayValue n1 st d := by
  by_cases h1 : 0 < n1 - d.length
  · have h2 : 0 < n2 - d.length := by omega
    simp [stepArrayValue, h1, h2]
  · unfold stepArrayValue at hne ⊢
    simp only [h1, if_false] at hne ⊢
    repeat' split
    all_goals first | rfl | (apply stepArrayOp_onErr; simp_all)

theorem stepAt_origLen (n1 n2 : Nat) (h : n1 ≤ n2) (st : St) (d : Bytes)
    (hne : stepAt n1 st d ≠ .done .panic) : stepAt n2 st d = stepAt n1 st d := by
  unfold stepAt at hne ⊢
  cases hs : st.state <;> simp only [hs] at hne ⊢
  exact stepArrayValue_origLen n1 n2 h st d hne

theorem run_origLen (n1 n2 : Nat) (h : n1 ≤ n2) : ∀ (fuel : Nat) (st : St) (d : Bytes),
    run n1 fuel st d ≠ .panic → run n2 fuel st d = run n1 fuel st d
  | 0, _, _, _ => rfl
  | fuel + 1, st, d, hne => by
    simp only [run, step] at hne ⊢
    cases hs : skipWs d with
    | none => rfl
    | some d' =>
      simp only [hs] at hne ⊢
      have hstep : stepAt n1 st d' ≠ .done .panic := by
        intro hc; rw [hc] at hne; exact hne rfl
      rw [stepAt_origLen n1 n2 h st d' hstep]
      cases hr : stepAt n1 st d' with
      | done r => rfl
      | cont st' d'' =>
        rw [hr] at hne
        exact run_origLen n1 n2 h fuel st' d'' hne

theorem Res.withBom_withBom (r : Res) (a b : Bool) : (r.withBom a).withBom b = r.withBom b := by
  cases r <;> rfl

theorem parse_bom (d : Bytes) (hb : hasBom d = false) (hp : parse d ≠ .panic) :
    parse (0xef :: 0xbb :: 0xbf :: d) = (parse d).withBom true := by
  have h1 : hasBom (0xef :: 0xbb :: 0xbf :: d) = true := by simp [hasBom]
  unfold parse at hp ⊢
  simp only [h1, hb, if_true, List.drop_succ_cons, List.drop_zero, Res.withBom_withBom,
    Bool.false_eq_true, if_false] at hp ⊢
  have hne : run d.length (fuelFor d) St.init d ≠ .panic := by
    intro hc; rw [hc] at hp; exact hp rfl
  have := run_origLen d.length (d.length + 3) (by omega) (fuelFor d) St.init d hne
  simp only [List.length_cons] at this ⊢
  simp [this]

end Jomini.TextTape
