import JominiModel.Proofs.JsonEndToEnd
/-
Negative theorems for C16's three recorded findings (known_findings.txt, corpus/C16.txt): on the
MODELS (text tape parser model → `toJsonTape` → JSON model → compact rendering) the witness inputs
produce exactly the bytes the real code produces.  `jsonBytes` is the whole pipeline from input
bytes to output bytes (no float occurs in the witnesses, the float printer is irrelevant).
-/
namespace Jomini.JsonKnown
open Jomini Jomini.Json Jomini.JsonEndToEnd

/-- `TextTape::from_slice(input)?.<enc>_reader()…json().with_options(o).to_vec()` on the models -/
def jsonBytes (o : Opts) (enc : Enc) (entry : Entry) (input : Bytes) : Option Bytes :=
  match TextTape.parse input with
  | .ok T _ =>
    match toJson o enc entry (toJsonTape T) with
    | .ok (some v) => some (render (fun _ => []) o v)
    | _ => none
  | _ => none

def grpOpts : Opts := ⟨false, .group, .all⟩
def preOpts : Opts := ⟨false, .preserve, .all⟩

/-- `generate_advisor = { [[scaled_skill] a=b ] [[!scaled_skill] c=d ]  }`: Preserve writes the two keys `[scaled_skill]` and `[!scaled_skill]`; Group files the `[!…]` block under `[scaled_skill]` (the negation is lost: contradicts "contains every key").  `"a"=1 a=2 "a "=3`: Group still writes the key `a` twice (contradicts "each distinct key once") -/
theorem known_group_keyed_by_raw_bytes :
    jsonBytes preOpts .w1252 .obj [103, 101, 110, 101, 114, 97, 116, 101, 95, 97, 100, 118, 105, 115, 111, 114, 32, 61, 32, 123, 32, 91, 91, 115, 99, 97, 108, 101, 100, 95, 115, 107, 105, 108, 108, 93, 32, 97, 61, 98, 32, 93, 32, 91, 91, 33, 115, 99, 97, 108, 101, 100, 95, 115, 107, 105, 108, 108, 93, 32, 99, 61, 100, 32, 93, 32, 32, 125] =
      some [123, 34, 103, 101, 110, 101, 114, 97, 116, 101, 95, 97, 100, 118, 105, 115, 111, 114, 34, 58, 123, 34, 91, 115, 99, 97, 108, 101, 100, 95, 115, 107, 105, 108, 108, 93, 34, 58, 123, 34, 97, 34, 58, 34, 98, 34, 125, 44, 34, 91, 33, 115, 99, 97, 108, 101, 100, 95, 115, 107, 105, 108, 108, 93, 34, 58, 123, 34, 99, 34, 58, 34, 100, 34, 125, 125, 125] ∧
    jsonBytes grpOpts .w1252 .obj [103, 101, 110, 101, 114, 97, 116, 101, 95, 97, 100, 118, 105, 115, 111, 114, 32, 61, 32, 123, 32, 91, 91, 115, 99, 97, 108, 101, 100, 95, 115, 107, 105, 108, 108, 93, 32, 97, 61, 98, 32, 93, 32, 91, 91, 33, 115, 99, 97, 108, 101, 100, 95, 115, 107, 105, 108, 108, 93, 32, 99, 61, 100, 32, 93, 32, 32, 125] =
      some [123, 34, 103, 101, 110, 101, 114, 97, 116, 101, 95, 97, 100, 118, 105, 115, 111, 114, 34, 58, 123, 34, 91, 115, 99, 97, 108, 101, 100, 95, 115, 107, 105, 108, 108, 93, 34, 58, 91, 123, 34, 97, 34, 58, 34, 98, 34, 125, 44, 123, 34, 99, 34, 58, 34, 100, 34, 125, 93, 125, 125] ∧
    jsonBytes grpOpts .w1252 .obj [34, 97, 34, 61, 49, 32, 97, 61, 50, 32, 34, 97, 32, 34, 61, 51] =
      some [123, 34, 97, 34, 58, 91, 49, 44, 50, 93, 44, 34, 97, 34, 58, 51, 125] := by
  refine ⟨by decide +kernel, by decide +kernel, by decide +kernel⟩

/-- `k=+` gives `{"k":0}` (and with TypeNarrowing::All also `k="+"`): the scalar `+` is not a number, the clause "scalars narrowed to … numbers exactly as the option says" / "carries every value" is contradicted (the text `+` is unrecoverable) -/
theorem known_plus_sign_narrowed_to_zero :
    jsonBytes preOpts .w1252 .obj [107, 61, 43] =
      some [123, 34, 107, 34, 58, 48, 125] ∧
    jsonBytes preOpts .w1252 .obj [107, 61, 34, 43, 34] =
      some [123, 34, 107, 34, 58, 48, 125] := by
  refine ⟨by decide +kernel, by decide +kernel⟩

/-- `color = rgb { 100 200 150 }`: the object entry point writes the body once, `read_array()?.json()` of the header value writes it twice; `b = 3]0 c = {} d = rgb { 1 }`: the whole-document conversion writes `[1]` twice (contradicts "no entry … invented" / "carries the document's content") -/
theorem known_header_array_view_duplicates_body :
    jsonBytes grpOpts .w1252 .obj [99, 111, 108, 111, 114, 32, 61, 32, 114, 103, 98, 32, 123, 32, 49, 48, 48, 32, 50, 48, 48, 32, 49, 53, 48, 32, 125] =
      some [123, 34, 99, 111, 108, 111, 114, 34, 58, 123, 34, 114, 103, 98, 34, 58, 91, 49, 48, 48, 44, 50, 48, 48, 44, 49, 53, 48, 93, 125, 125] ∧
    jsonBytes grpOpts .w1252 .arr [99, 111, 108, 111, 114, 32, 61, 32, 114, 103, 98, 32, 123, 32, 49, 48, 48, 32, 50, 48, 48, 32, 49, 53, 48, 32, 125] =
      some [91, 123, 34, 114, 103, 98, 34, 58, 91, 49, 48, 48, 44, 50, 48, 48, 44, 49, 53, 48, 93, 125, 44, 91, 49, 48, 48, 44, 50, 48, 48, 44, 49, 53, 48, 93, 93] ∧
    jsonBytes preOpts .w1252 .obj [98, 32, 61, 32, 51, 93, 48, 32, 99, 32, 61, 32, 123, 125, 32, 100, 32, 61, 32, 114, 103, 98, 32, 123, 32, 49, 32, 125] =
      some [123, 34, 98, 34, 58, 51, 44, 34, 114, 101, 109, 97, 105, 110, 100, 101, 114, 34, 58, 91, 48, 44, 123, 34, 99, 34, 58, 91, 93, 125, 44, 34, 100, 34, 44, 123, 34, 114, 103, 98, 34, 58, 91, 49, 93, 125, 44, 91, 49, 93, 93, 125] := by
  refine ⟨by decide +kernel, by decide +kernel, by decide +kernel⟩

end Jomini.JsonKnown
