import JominiModel.Proofs.BinDocText
import JominiModel.Proofs.BinDeNestedSeq
import JominiModel.Proofs.DateLeaf
/-
C10 capstone on flat documents: one logical document, one struct definition, both formats.
`C10_flat_spec` (reference level: text reference = binary reference given key and leaf agreement),
`c10doc` / `c10ok` / `keyOK` (decidable sufficient conditions, with the leaf theorems for integers,
unsigned, bools and strings), `C10_flat_end_to_end` (… and all three binary deserializer models return
that value), `C10_flat_date_leaf` (the date leaf, re-exported from Proofs/DateLeaf.lean).
-/
set_option linter.unusedSimpArgs false
namespace Jomini.BinDe
open Jomini

/-- the two formats agree on a leaf for a request that is not an `opt`. -/
def AgreeCore (c : Cfg) (core : Ty) (l : BLeaf) : Prop :=
  valCoreG (textSem c) (.leaf l) core = valCoreG (binSem c) (.leaf l) core

/-- flat logical documents whose every key means the same in both formats and whose every value agrees
for the type of the field its key names. -/
def C10Fields (c : Cfg) (decl : Fields) : BFields → Prop
  | .nil => True
  | .cons _ k v rest =>
    (textSem c).key k = (binSem c).key k ∧
    (∃ l, v = .leaf l ∧ ∀ i n tk t, whichOf (binSem c) decl k = .ok (some i) → decl.get? i = some (n, tk, t) →
      AgreeCore c (stripOpt t).2 l) ∧
    C10Fields c decl rest

theorem c10_struct (c : Cfg) (decl : Fields) : ∀ (m : Nat) (d : BFields), d.len = m → C10Fields c decl d →
    ∀ slots, valStructG (textSem c) d decl false slots = valStructG (binSem c) d decl false slots := by
  intro m
  induction m with
  | zero =>
    intro d hm _ slots
    cases d with
    | nil => simp [valStructG]
    | cons g k v rest => simp [BFields.len] at hm
  | succ m ih =>
    intro d hm hC slots
    cases d with
    | nil => simp [BFields.len] at hm
    | cons g k v rest =>
      have hrm : rest.len = m := by simp [BFields.len] at hm; exact hm
      obtain ⟨hkey, ⟨l, rfl, hag⟩, hrest⟩ := hC
      rw [valStructG_cons_false, valStructG_cons_false]
      have hw : whichOf (textSem c) decl k = whichOf (binSem c) decl k := by
        unfold whichOf; rw [hkey]
      rw [hw]
      cases hwb : whichOf (binSem c) decl k with
      | error e => rfl
      | ok w =>
        cases w with
        | none => simp only [structStepSpec]; exact ih rest hrm hrest slots
        | some i =>
          simp only [structStepSpec]
          cases hsa : slots[i]? with
          | none => rfl
          | some a =>
            cases hfb : decl.get? i with
            | none => cases a <;> rfl
            | some y =>
              obtain ⟨name, tk, fty⟩ := y
              cases a with
              | some sv => rfl
              | none =>
                dsimp only
                have hv : nodeVia (valCoreG (textSem c) (.leaf l)) fty = nodeVia (valCoreG (binSem c) (.leaf l)) fty := by
                  unfold nodeVia
                  rw [show valCoreG (textSem c) (.leaf l) (stripOpt fty).2 = valCoreG (binSem c) (.leaf l) (stripOpt fty).2 from
                    hag i name tk fty hwb hfb]
                rw [hv]
                cases nodeVia (valCoreG (binSem c) (.leaf l)) fty with
                | error e => rfl
                | ok x => exact ih rest hrm hrest _

/-- (C10 on flat documents, reference level) one struct definition, both formats: the text rendering read
through the text reference and the binary rendering read through the binary reference give the same `Val`
(or the same error: missing / duplicate / type), whenever keys and met leaves agree. -/
theorem C10_flat_spec (c : Cfg) (decl : Fields) (d : BDoc) (h : C10Fields c decl d) :
    valueOfText c (.plain (.struct decl)) d = valueOfBin c (.plain (.struct decl)) d := by
  simp only [valueOfText, valueOfBin, valueOfG]
  exact c10_struct c decl d.len d rfl h (slotsInit decl)

/-! ### decidable sufficient conditions -/

/-- leaf / request pairs of the shared subset: integers as `i64`, unsigned as `u64`, Bool as `bool`,
strings as `str`, anything ignored. -/
def c10ok (core : Ty) (l : BLeaf) : Bool :=
  match core, l with
  | .ign, _ => true
  | .i64, .i64 n => inI64 n
  | .i64, .i32 n => inI64 n
  | .u64, .u64 n => decide (n ≤ Scalar.U64_MAX)
  | .u64, .u32 n => decide (n ≤ Scalar.U64_MAX)
  | .bool, .bool _ => true
  | .str, .quoted _ => true
  | .str, .unquoted _ => true
  | _, _ => false

theorem c10ok_agree (c : Cfg) (core : Ty) (l : BLeaf) (h : c10ok core l = true) : AgreeCore c core l := by
  unfold AgreeCore
  cases core <;> cases l <;> simp [c10ok] at h <;>
    first
    | (simp [valCoreG, textSem, binSem]; done)
    | (simp [valCoreG, textSem, binSem, textLeaf, leafText, textScalarVal, valLeaf, u16Leaf, leafPrim, visitPrim, Prim.asInt,
        toI64_fmtInt' _ h]; done)
    | (simp [valCoreG, textSem, binSem, textLeaf, leafText, textScalarVal, valLeaf, u16Leaf, leafPrim, visitPrim, Prim.asInt,
        toU64_fmtNat _ h]; done)
    | (simp [valCoreG, textSem, binSem, textLeaf, leafText, textScalarVal, valLeaf, u16Leaf, leafPrim, visitPrim]; done)
    | (rename_i b; cases b <;>
        simp [valCoreG, textSem, binSem, textLeaf, leafText, textScalarVal, valLeaf, u16Leaf, leafPrim, visitPrim, Scalar.toBool])

/-- a key that means the same in both formats: a string, or a token id the resolver knows under a name
that the Windows-1252 decoding leaves unchanged (ASCII identifiers). -/
def keyOK (c : Cfg) : BLeaf → Bool
  | .quoted _ => true
  | .unquoted _ => true
  | .id n => match resolve c n with
    | some name => decode1252 name == name
    | none => false
  | _ => false

theorem keyOK_agree (c : Cfg) (k : BLeaf) (h : keyOK c k = true) : (textSem c).key k = (binSem c).key k := by
  cases k <;> simp [keyOK] at h <;> simp [textSem, binSem, leafText, leafPrim]
  rename_i n
  cases hr : resolve c n with
  | none => simp [hr] at h
  | some name => simp [hr] at h; simp [idPrim, hr, h]

/-- the decidable form of `C10Fields` (plus: leaves are not the reserved lexeme). -/
def c10doc (c : Cfg) (decl : Fields) : BFields → Bool
  | .nil => true
  | .cons _ k v rest =>
    keyOK c k && plainTok k.tok &&
    (match v with
      | .leaf l => plainTok l.tok &&
        (match whichOf (binSem c) decl k with
          | .ok (some i) => (match decl.get? i with | some (_, _, t) => c10ok (stripOpt t).2 l | none => true)
          | _ => true)
      | _ => false) &&
    c10doc c decl rest

theorem c10doc_fields (c : Cfg) (decl : Fields) : ∀ (m : Nat) (d : BFields), d.len = m → c10doc c decl d = true →
    C10Fields c decl d ∧ plainF d = true ∧ fitsStructF c d decl = true := by
  intro m
  induction m with
  | zero =>
    intro d hm _
    cases d with
    | nil => simp [C10Fields, plainF, fitsStructF]
    | cons g k v rest => simp [BFields.len] at hm
  | succ m ih =>
    intro d hm h
    cases d with
    | nil => simp [BFields.len] at hm
    | cons g k v rest =>
      have hrm : rest.len = m := by simp [BFields.len] at hm; exact hm
      simp only [c10doc, Bool.and_eq_true] at h
      obtain ⟨⟨⟨hk, hpk⟩, hv⟩, hrest⟩ := h
      obtain ⟨i1, i2, i3⟩ := ih rest hrm hrest
      cases v with
      | leaf l =>
        simp only [Bool.and_eq_true] at hv
        refine ⟨⟨keyOK_agree c k hk, ⟨l, rfl, ?_⟩, i1⟩, by simp [plainF, plainN, hpk, hv.1, i2], ?_⟩
        · intro i n tk t hw hg
          have := hv.2
          rw [hw] at this
          simp only [hg] at this
          exact c10ok_agree c _ l this
        · simp only [fitsStructF, Bool.and_eq_true]
          refine ⟨?_, i3⟩
          cases hw : whichOf (binSem c) decl k with
          | error e => unfold whichOf at hw; simp only [binSem] at hw; simp [hw]
          | ok w =>
            unfold whichOf at hw; simp only [binSem] at hw
            cases w with
            | none => simp [hw]
            | some i => cases hg : decl.get? i <;> simp [hw, hg, fitsN]
      | _ => simp at hv

/-- (C10 capstone, flat documents) ONE logical flat document — `key = value` fields whose keys are strings
or resolvable token ids and whose values are integers, unsigned integers, booleans or strings —, ONE struct
definition (fields typed `i64` / `u64` / `bool` / `str`, optional or not, partial structs, ignored fields):

 * the TEXT rendering read through the text reference and the BINARY rendering read through the binary
   reference give the same `Val` (or the same missing / duplicate / type error), and
 * on the binary side that reference value is what all three deserializer MODELS return — tape path on the
   document's tape, on-demand and streaming path on its lexemes (`C04_tape_eq_ondemand`; from the bytes:
   `C04_paths_end_to_end`).

What remains at reference level: the text side (`valueOfText` is a reference over the logical document; the
text parser / deserializer models belong to C01/C02/C07), float leaves (equal only up to one f32 ulp) and the
composition of DATE leaves into documents — the interpreter has no date target; the date leaf itself is
`C10_flat_date_leaf` below. -/
theorem C10_flat_end_to_end (c : Cfg) (decl : Fields) (d : BDoc) (h : c10doc c decl d = true) :
    valueOfText c (.plain (.struct decl)) d = valueOfBin c (.plain (.struct decl)) d ∧
    deTape c (.plain (.struct decl)) (tapeFields d 0) = valueOfBin c (.plain (.struct decl)) d ∧
    deOndemand c (.plain (.struct decl)) (tokensOf d) = valueOfBin c (.plain (.struct decl)) d ∧
    deStream c (.plain (.struct decl)) (tokensOf d) = valueOfBin c (.plain (.struct decl)) d := by
  obtain ⟨h1, h2, h3⟩ := c10doc_fields c decl d.len d rfl h
  obtain ⟨e1, e2, e3⟩ := C04_tape_eq_ondemand c (.plain (.struct decl)) d h2 (by simpa [fitsRoot] using h3)
  exact ⟨C10_flat_spec c decl d h1, e3, by rw [← e1]; exact e3, by rw [← e2]; exact e3⟩

/-- the DATE leaf (re-exported from `Proofs/DateLeaf.lean`): for every valid date the binary format can
express, the token the text deserializer hands the date visitor (the scalar `Y.M.D`) and the token the binary
deserializers hand it (the `I32` of `to_binary`; `deser` / `visit_key` on an `I32` token is `visit_i32`) are
read as the same date. -/
theorem C10_flat_date_leaf (c : Cfg) (y : Int) (m dd : Nat) (hy : Date.inI16 y = true) (h5000 : -5000 ≤ y)
    (hv : Date.ValidMd m dd) :
    ∃ txt b, (Date.mkDate y m dd).gameFmt = .ok txt ∧ (Date.mkDate y m dd).toBinary = .ok b ∧
      Date.Date.visit (.str txt) = .ok (Date.mkDate y m dd) ∧ Date.Date.visit (.i32 b) = .ok (Date.mkDate y m dd) ∧
      deser c (.i32 b) = .prim (.i32 b) ∧ visitKey c (.i32 b) = .ok (.i32 b) := by
  obtain ⟨txt, b, e1, e2, _, e3, e4⟩ := Date.C10_date_leaf y m dd hy h5000 hv
  exact ⟨txt, b, e1, e2, e3, e4, rfl, rfl⟩

example :
    c10doc { strat := .error, entries := [(8192, [97])] }
      (.cons "a" 0 .i64 (.cons "name" 0 (.opt .str) (.cons "x" 0 .bool .nil)))
      (.cons 0 (.id 8192) (.leaf (.i32 (-5))) (.cons 0 (.unquoted [110, 97, 109, 101]) (.leaf (.quoted [101, 110, 103]))
        (.cons 0 (.quoted [122]) (.leaf (.u64 7)) .nil))) = true := by decide +kernel

end Jomini.BinDe
