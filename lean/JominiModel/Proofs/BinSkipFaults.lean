import JominiModel.Proofs.BinReaderBytes
/-
C20 for the binary `TokenReader::skip_container`: schedules WITH faults.
-/
namespace Jomini.BinReader
open Jomini Jomini.BinLexer

/-- what a `skip_container` call may return under a faulty schedule, relative to the place `r`
where the fault-free skip lands: success exactly there, or the I/O error — and then the reader
stands at a lexeme boundary inside the container from which the walk, *continued at the depth
reached* (`depth'`), still ends at `r`. -/
def SkipPost (data r : Bytes) (res : Except ReaderError Unit) (rd' : Reader) : Prop :=
  match res with
  | .ok () => rd'.remaining data = r
  | .error e =>
    e.kind = .read ∧ e.position = rd'.position ∧
    ∃ depth', Skips (rd'.remaining data) depth' r ∧
      (rd'.buf.cap = 0 ∨ SkipFits rd'.buf.cap (rd'.remaining data) depth')

theorem reader_skip_faulty (data r : Bytes) (fuel : Nat) (rd : Reader) (depth : Nat) (h : RInv rd data)
    (hs : Skips (rd.remaining data) depth r)
    (hfit : rd.buf.cap = 0 ∨ SkipFits rd.buf.cap (rd.remaining data) depth)
    (hfuel : rd.src.rest.length < fuel) :
    RInv (Reader.skipLoop fuel rd depth).2 data ∧ (Reader.skipLoop fuel rd depth).2.buf.cap = rd.buf.cap ∧
    SkipPost data r (Reader.skipLoop fuel rd depth).1 (Reader.skipLoop fuel rd depth).2 := by
  induction fuel generalizing rd depth with
  | zero => omega
  | succ fuel ih =>
    unfold Reader.skipLoop
    have hsc := scan_spec data r (rd.buf.windowLen / 2 + 1) rd depth h hs hfit (by omega)
    revert hsc
    generalize Reader.skipScan (rd.buf.windowLen / 2 + 1) rd depth = res
    intro hsc
    cases res with
    | returned rd' =>
      simp only [ScanPost] at hsc
      exact ⟨hsc.1, hsc.2.2.2, hsc.2.1⟩
    | ub rd' => exact absurd hsc (by simp [ScanPost])
    | refill rd1 depth1 =>
      simp only [ScanPost] at hsc
      obtain ⟨h1, hs1, hfit1, hnone, hsrc1, hcap1⟩ := hsc
      simp only
      have hrem1 := remaining_eq h1
      have hwl1 : rd1.buf.window.length = rd1.buf.windowLen := Buf.window_length h1.buf.se h1.buf.em
      have hexh : rd1.src.rest = [] → False := by
        intro hs0
        rw [hrem1, hs0, List.append_nil] at hs1
        exact skips_lexeme hs1 hnone
      rcases Buf.fillBuf_cases rd1.buf rd1.src data h1.buf h1.wf with
        ⟨hc0, hfb⟩ | ⟨hcpos, hfull, hfb⟩ | ⟨hcpos, hlt, n, b', src', hfb, hinv', hpos', hcap', hwin', hwl', hrest', hn, hdel', hwf', hz⟩ |
        ⟨hcpos, hlt, b', src', hfb, hinv', hpos', hcap', hwin', hwl', hrest', hdel', hwf'⟩
      · exact absurd (h1.slice hc0) (fun hh => hexh hh)
      · exfalso
        rcases hfit1 with hc | hf
        · omega
        · have := skipFits_head hf rd1.buf.windowLen (by rw [hrem1]; simp; omega)
            (by rw [hrem1, ← hwl1, List.take_left']; exact hnone; rfl)
          omega
      · rw [hfb]
        simp only
        by_cases hn0 : n = 0
        · exact absurd (hz hn0) (fun hh => hexh hh)
        · rw [if_neg hn0]
          have hrd' := rinv_fill h1 hcpos hinv' hpos' hcap' hwl' hdel' hwf'
          have hposeq : ({ src := src', buf := b' } : Reader).position = rd1.position := hpos'
          have hremeq : ({ src := src', buf := b' } : Reader).remaining data = rd1.remaining data := by
            simp only [Reader.remaining, hposeq]
          obtain ⟨i1, i2, i3⟩ := ih { src := src', buf := b' } depth1 hrd' (by rw [hremeq]; exact hs1)
            (by simp only; rw [hcap', hremeq]; exact hfit1)
            (by
              have e1 : rd1.src.rest.length = rd.src.rest.length := by rw [hsrc1]
              simp only
              rw [hrest', List.length_drop]
              omega)
          exact ⟨i1, by rw [i2]; show b'.cap = rd.buf.cap; rw [hcap', hcap1], i3⟩
      · -- the read failed: the I/O error, at a lexeme boundary, with the walk still pending
        rw [hfb]
        simp only
        have hrd' := rinv_fill (n := 0) h1 hcpos hinv' hpos' hcap' (by rw [hwl']; rfl) (by rw [hdel']; rfl) hwf'
        have hposeq : ({ src := src', buf := b' } : Reader).position = rd1.position := hpos'
        have hremeq : ({ src := src', buf := b' } : Reader).remaining data = rd1.remaining data := by
          simp only [Reader.remaining, hposeq]
        refine ⟨hrd', by show b'.cap = rd.buf.cap; rw [hcap', hcap1], ?_⟩
        simp only [SkipPost, Reader.bufferError]
        refine ⟨trivial, trivial, depth1, by rw [hremeq]; exact hs1, ?_⟩
        rw [hcap', hremeq]; exact hfit1

/-- **C20 (binary `skip_container`).**  `rd` is any reader state reached by `next` / `read_bytes` /
`skip_container` calls under any well-formed schedule — short reads, transient faults `F`, a
persistent fault `P` — (`RInv`), in a buffer in which the lexemes on the way fit; suppose the
slice lexer's `skip_container` on the bytes still to be seen succeeds and leaves `l'` (i.e. this is
where the fault-free streamed skip lands, `C09_bin_reader_skip`).  Then the streamed
`skip_container`
* either succeeds and lands exactly there — same unread input, same `position()`, so the same
  following tokens (for any number of further calls the log agrees with the lexer on `l'.data`);
* or returns the I/O error, with `position()` = the error's position ≤ bytes delivered.
It never reports a clean end, `Eof`, `BufferFull`, or success at another place.

After the I/O error the reader stands at a lexeme boundary inside the container and the walk,
*continued at the depth reached* (`depth'`), would still end at `l'.data`.  `skip_container` keeps
its depth in a local, so a second call restarts at depth 1: **a retry is sound exactly when
`depth' = 1`** (then this theorem applies again); otherwise it returns at an inner close — see
`C20_known_bin_skip_retry_depth`. -/
theorem C20_bin_skip_container (data : Bytes) (rd : Reader) (l' : Lexer) (h : RInv rd data)
    (hfit : rd.buf.cap = 0 ∨ SkipFits rd.buf.cap (rd.remaining data) 1)
    (hlex : (Lexer.mk (rd.remaining data) data.length).skipContainer = some (.ok (), l')) :
    RInv rd.skipContainer.2 data ∧
    (0 < rd.buf.cap → rd.skipContainer.2.position ≤ rd.skipContainer.2.src.delivered) ∧
    ((rd.skipContainer.1 = .ok () ∧ rd.skipContainer.2.remaining data = l'.data ∧
        rd.skipContainer.2.position = l'.position ∧
        (rd.buf.cap = 0 ∨ Fits rd.buf.cap l'.data →
          ∀ n, Agrees l'.data (Reader.calls n rd.skipContainer.2).1)) ∨
     (rd.skipContainer.1 = .error ⟨rd.skipContainer.2.position, .read⟩ ∧
        ∃ depth', Skips (rd.skipContainer.2.remaining data) depth' l'.data ∧
          (rd.skipContainer.2.buf.cap = 0 ∨
            SkipFits rd.skipContainer.2.buf.cap (rd.skipContainer.2.remaining data) depth'))) := by
  unfold Lexer.skipContainer at hlex
  obtain ⟨hsk, hL⟩ := lexer_skips _ _ _ _ _ hlex
  obtain ⟨a, b, c⟩ := reader_skip_faulty data l'.data rd.fuelFor rd 1 h hsk hfit (by simp [Reader.fuelFor])
  have hout : rd.skipContainer = Reader.skipLoop rd.fuelFor rd 1 := rfl
  rw [hout]
  refine ⟨a, fun hc => (rinv_delivered a (by rw [b]; exact hc)).1, ?_⟩
  revert a b c
  generalize Reader.skipLoop rd.fuelFor rd 1 = out
  obtain ⟨res, rd'⟩ := out
  intro a b c
  simp only at a b c ⊢
  cases res with
  | ok u =>
    left
    simp only [SkipPost] at c
    refine ⟨rfl, c, ?_, fun hf n => ?_⟩
    · have hple := a.ple
      have hlen := congrArg List.length c
      simp only [Reader.remaining, List.length_drop] at hlen
      simp only [Lexer.position, hL]
      omega
    · have := (calls_agree data n rd' a (by rw [b, c]; exact hf)).1
      rw [c] at this
      exact this
  | error e =>
    right
    simp only [SkipPost] at c
    obtain ⟨c1, c2, c3⟩ := c
    exact ⟨by rw [← c2, ← c1], c3⟩

/-- **Candidate finding, exhibited on the model** (`fault-retry-skip-depth`): `{ { } id } =`
(`03 00 03 00 04 00 e1 28 04 00 01 00`), reads `4, F, 8…`, 8-byte buffer.  After the outer `Open`
the fault-free skip lands at byte 10.  With the fault, the first `skip_container` consumes the
inner `{` and returns the I/O error at byte 4 (correct: an error); calling `skip_container`
*again* restarts at depth 1 and returns `Ok` at byte 6 — the inner close — instead of 10. -/
theorem C20_known_bin_skip_retry_depth :
    let d : Bytes := [3, 0, 3, 0, 4, 0, 0xe1, 0x28, 4, 0, 1, 0]
    let rd0 := Reader.ofLen 8 (Src.new d [.give 4, .fail, .repeat 8])
    let rd1 := (Reader.next rd0.fuelFor rd0).2              -- after the outer Open
    let free := (Reader.ofLen 8 (Src.new d [.give 4, .repeat 8]))
    let free1 := (Reader.next free.fuelFor free).2
    (Reader.next rd0.fuelFor rd0).1 = .ok (some .open) ∧
    free1.skipContainer.1 = .ok () ∧ free1.skipContainer.2.position = 10 ∧
    rd1.skipContainer.1 = .error ⟨4, .read⟩ ∧
    rd1.skipContainer.2.skipContainer.1 = .ok () ∧ rd1.skipContainer.2.skipContainer.2.position = 6 := by
  refine ⟨by rfl, by rfl, by rfl, by rfl, by rfl, by rfl⟩

/-- `read_bytes` and `skip_container` interleave soundly under faults: whatever a `read_bytes`
call returned, the reader invariant holds afterwards, so `C20_bin_skip_container` (and
`C08_read_bytes_faulty`, `C20_bin_reader`'s call-log clause via `calls_agree`) apply to the next
call from the new state; in particular after a successful `read_bytes(n)` a skip is judged
against the lexer skip on `rem.drop n`. -/
theorem C20_bin_read_bytes_then_skip (data : Bytes) (n : Nat) (rd : Reader) (l' : Lexer) (h : RInv rd data)
    (hok : ∃ b, (rd.readBytes n).1 = .ok b)
    (hfit : rd.buf.cap = 0 ∨ SkipFits rd.buf.cap ((rd.remaining data).drop n) 1)
    (hlex : (Lexer.mk ((rd.remaining data).drop n) data.length).skipContainer = some (.ok (), l')) :
    ((rd.readBytes n).2.skipContainer.1 = .ok () ∧
        (rd.readBytes n).2.skipContainer.2.remaining data = l'.data) ∨
    ((rd.readBytes n).2.skipContainer.1 =
        .error ⟨(rd.readBytes n).2.skipContainer.2.position, .read⟩) := by
  obtain ⟨a, b, c⟩ := readBytes_spec data n rd.fuelFor rd h (by simp [Reader.fuelFor])
  have hrb : rd.readBytes n = Reader.readBytesLoop rd.fuelFor rd n := rfl
  rw [hrb] at hok ⊢
  obtain ⟨bs, hbs⟩ := hok
  rw [hbs] at c
  simp only [BytesPost] at c
  have hrem := c.2.2.2.1
  obtain ⟨_, _, d⟩ := C20_bin_skip_container data _ l' a (by rw [b, hrem]; exact hfit) (by rw [hrem]; exact hlex)
  rcases d with ⟨d1, d2, _, _⟩ | ⟨d1, _⟩
  · exact Or.inl ⟨d1, d2⟩
  · exact Or.inr d1

/-- the same from a fresh reader: after any number `n` of `next` calls (in particular right after
the `k`-th `Open`), under any well-formed schedule with faults -/
theorem C20_bin_skip_container_after_calls (buffer data : Bytes) (sched : List Step) (hcap : 0 < buffer.length)
    (hwf : Src.WfSched sched) (n : Nat) (l' : Lexer)
    (hfit : SkipFits buffer.length ((Reader.calls n (Reader.build buffer (Src.new data sched))).2.remaining data) 1)
    (hlex : (Lexer.mk ((Reader.calls n (Reader.build buffer (Src.new data sched))).2.remaining data)
        data.length).skipContainer = some (.ok (), l')) :
    let rd := (Reader.calls n (Reader.build buffer (Src.new data sched))).2
    rd.skipContainer.2.position ≤ rd.skipContainer.2.src.delivered ∧
    ((rd.skipContainer.1 = .ok () ∧ rd.skipContainer.2.remaining data = l'.data ∧
        rd.skipContainer.2.position = l'.position) ∨
     rd.skipContainer.1 = .error ⟨rd.skipContainer.2.position, .read⟩) := by
  intro rd
  have h0 := rinv_build buffer data sched hcap hwf
  obtain ⟨a1, a2, _, _⟩ := calls_safe data n _ h0
  have hc : rd.buf.cap = buffer.length := a2
  obtain ⟨_, b2, b3⟩ := C20_bin_skip_container data rd l' a1 (Or.inr (by rw [hc]; exact hfit)) hlex
  refine ⟨b2 (by rw [hc]; exact hcap), ?_⟩
  rcases b3 with ⟨c1, c2, c3, _⟩ | ⟨c1, _⟩
  · exact Or.inl ⟨c1, c2, c3⟩
  · exact Or.inr c1

end Jomini.BinReader
