import JominiModel.Model.Scalar
/-
Helper lemmas for the scalar model (C11).
-/
namespace Jomini.Scalar
open Jomini

theorem decFrom_ge (d : Bytes) (acc : Nat) : acc ≤ decFrom d acc := by
  induction d generalizing acc with
  | nil => simp [decFrom]
  | cons x xs ih =>
    simp only [decFrom]
    have := ih (acc * 10 + digitVal x)
    omega

theorem decFrom_mono {a b : Nat} (h : a ≤ b) (d : Bytes) : decFrom d a ≤ decFrom d b := by
  induction d generalizing a b with
  | nil => simpa [decFrom]
  | cons x xs ih =>
    simp only [decFrom]
    apply ih; omega

/-- On an all-digit string the accumulator loop computes the Horner value, or fails
exactly when that value does not fit in a u64. -/
theorem toU64T2_allDigits (d : Bytes) (acc : Nat) (hd : allDigits d = true) (hacc : acc ≤ U64_MAX) :
    toU64T2 d acc =
      if decFrom d acc ≤ U64_MAX then .ok (decFrom d acc, []) else .error .overflow := by
  induction d generalizing acc with
  | nil => simp [toU64T2, decFrom, hacc]
  | cons x xs ih =>
    simp only [allDigits, List.all_cons, Bool.and_eq_true] at hd
    have hx := hd.1
    have hxs : allDigits xs = true := hd.2
    simp only [toU64T2, hx, decFrom, overflowMulAdd]
    have hge := decFrom_ge xs (acc * 10 + digitVal x)
    by_cases h1 : acc * 10 > U64_MAX
    · have : ¬ decFrom xs (acc * 10 + digitVal x) ≤ U64_MAX := by omega
      simp [h1, this]
    · by_cases h2 : acc * 10 + digitVal x > U64_MAX
      · have : ¬ decFrom xs (acc * 10 + digitVal x) ≤ U64_MAX := by omega
        simp [h1, h2, this]
      · simp only [h1, h2, if_false, Bool.not_true, Bool.false_eq_true]
        exact ih _ hxs (by omega)

end Jomini.Scalar
