import JominiModel.Model.Scalar
import JominiModel.Spec.Scalar
/-
Helper lemmas for the scalar model (C11).
-/
namespace Jomini.Scalar
open Jomini Jomini.Spec.Scalar

theorem decFrom_ge (d : Bytes) (acc : Nat) : acc ≤ decFrom d acc := by
  induction d generalizing acc with
  | nil => simp [decFrom]
  | cons x xs ih =>
    simp only [decFrom]
    have := ih (acc * 10 + digitVal x)
    omega

theorem decFrom_mono {a b : Nat} (h : a ≤ b) (d : Bytes) : decFrom d a ≤ decFrom d b := by
  induction d generalizing a b with
  | nil => simpa [decFrom]
  | cons x xs ih =>
    simp only [decFrom]
    apply ih; omega

/-- On an all-digit string the accumulator loop computes the Horner value, or fails
exactly when that value does not fit in a u64. -/
theorem toU64T2_allDigits (d : Bytes) (acc : Nat) (hd : allDigits d = true) (hacc : acc ≤ U64_MAX) :
    toU64T2 d acc =
      if decFrom d acc ≤ U64_MAX then .ok (decFrom d acc, []) else .error .overflow := by
  induction d generalizing acc with
  | nil => simp [toU64T2, decFrom, hacc]
  | cons x xs ih =>
    simp only [allDigits, List.all_cons, Bool.and_eq_true] at hd
    have hx := hd.1
    have hxs : allDigits xs = true := hd.2
    simp only [toU64T2, hx, decFrom, overflowMulAdd]
    have hge := decFrom_ge xs (acc * 10 + digitVal x)
    by_cases h1 : acc * 10 > U64_MAX
    · have : ¬ decFrom xs (acc * 10 + digitVal x) ≤ U64_MAX := by omega
      simp [h1, this]
    · by_cases h2 : acc * 10 + digitVal x > U64_MAX
      · have : ¬ decFrom xs (acc * 10 + digitVal x) ≤ U64_MAX := by omega
        simp [h1, h2, this]
      · simp only [h1, h2, if_false, Bool.not_true, Bool.false_eq_true]
        exact ih _ hxs (by omega)


/-- The accumulator loop consumes its whole input exactly when the input is all digits and
the Horner value fits in a u64; the result then is that value. -/
theorem toU64T2_ok_nil (d : Bytes) (acc r : Nat) (hacc : acc ≤ U64_MAX) :
    toU64T2 d acc = .ok (r, []) ↔ allDigits d = true ∧ r = decFrom d acc ∧ r ≤ U64_MAX := by
  constructor
  · intro h
    induction d generalizing acc with
    | nil =>
      simp only [toU64T2, Except.ok.injEq, Prod.mk.injEq, and_true] at h
      subst h; simp [allDigits, decFrom, hacc]
    | cons x xs ih =>
      simp only [toU64T2] at h
      by_cases hx : isDigit x = true
      · simp only [hx, Bool.not_true, Bool.false_eq_true, if_false, overflowMulAdd] at h
        by_cases h1 : acc * 10 > U64_MAX
        · simp [h1] at h
        · by_cases h2 : acc * 10 + digitVal x > U64_MAX
          · simp [h1, h2] at h
          · simp only [h1, h2, if_false] at h
            have := ih _ (by omega) h
            simp only [allDigits, List.all_cons, hx, Bool.true_and, decFrom]
            exact this
      · simp [hx] at h
  · rintro ⟨hd, hr, hle⟩
    rw [toU64T2_allDigits d acc hd hacc]
    subst hr
    simp [hle]

theorem digitVal_le (c : UInt8) : digitVal c ≤ U64_MAX := by
  have := c.toNat_lt
  simp only [digitVal, U64_MAX]; omega

theorem allDigits_cons (c : UInt8) (d : Bytes) :
    allDigits (c :: d) = true ↔ isDigit c = true ∧ allDigits d = true := by
  simp [allDigits]

theorem decVal_cons (c : UInt8) (d : Bytes) : decVal (c :: d) = decFrom d (digitVal c) := by
  simp [decVal, decFrom]

/-- '+' and '-' are not digits. -/
theorem not_isDigit_43 : isDigit 43 = false := by decide
theorem not_isDigit_45 : isDigit 45 = false := by decide

/-- `to_u64`, reduced to the accumulator loop. -/
theorem toU64_ok_iff (s : Bytes) (v : Nat) :
    toU64 s = .ok v ↔
      ∃ c data, s = c :: data ∧
        ((isDigit c = true ∧ toU64T2 data (digitVal c) = .ok (v, [])) ∨
         (c = 43 ∧ toU64T2 data 0 = .ok (v, []))) := by
  cases s with
  | nil => simp [toU64]
  | cons c data =>
    simp only [toU64, List.cons.injEq]
    by_cases hc : isDigit c = true
    · have hne : c ≠ 43 := by rintro rfl; simp [not_isDigit_43] at hc
      simp only [hc, if_true]
      cases h : toU64T2 data (digitVal c) with
      | error e => simp [hne, h]
      | ok p =>
        obtain ⟨r, left⟩ := p
        cases left <;> simp [hne, h, hc] <;> grind
    · simp only [hc, Bool.false_eq_true, if_false]
      by_cases h43 : c = 43
      · subst h43
        cases h : toU64T2 data 0 with
        | error e => simp [h, not_isDigit_43]
        | ok p =>
          obtain ⟨r, left⟩ := p
          cases left <;> simp [h, not_isDigit_43] <;> grind
      · simp [h43]; grind

/-- largest magnitude `to_i64_t` accepts for a sign: `2^63` for `-`, `2^63-1` otherwise. -/
def signLimit (sign : Int) : Nat := if sign < 0 then I64_MIN_ABS else I64_MAX

theorem signLimit_one : signLimit 1 = 2^63 - 1 := by simp [signLimit, I64_MAX]
theorem signLimit_neg_one : signLimit (-1) = 2^63 := by simp [signLimit, I64_MIN_ABS]

/-- `to_i64` after one arm of `to_i64_t` (`sign` is `1` or `-1`). -/
theorem toI64Go_ok (data : Bytes) (sign : Int) (start : Nat) (v : Int) (hs : sign = 1 ∨ sign = -1) :
    requireEmpty (toI64Go data sign start) = .ok v ↔
    ∃ n, toU64T2 data start = .ok (n, []) ∧ n ≤ signLimit sign ∧ v = sign * (n : Int) := by
  unfold toI64Go requireEmpty signLimit
  cases h : toU64T2 data start with
  | error e => simp
  | ok p =>
    obtain ⟨n, left⟩ := p
    rcases hs with rfl | rfl
    · simp only [show ¬ ((1 : Int) < 0) by decide, if_false]
      by_cases hn : n > I64_MAX
      · simp [hn]; intro _ _ ; omega
      · cases left <;> simp [hn] <;> grind
    · simp only [show ((-1 : Int) < 0) by decide, if_true]
      by_cases hn : n > I64_MIN_ABS
      · simp [hn]; intro _ _ ; omega
      · cases left <;> simp [hn] <;> grind

theorem toI64_ok_iff (s : Bytes) (v : Int) :
    toI64 s = .ok v ↔
      ∃ c data n, s = c :: data ∧
        ((isDigit c = true ∧ toU64T2 data (digitVal c) = .ok (n, []) ∧ n ≤ I64_MAX ∧ v = (n : Int)) ∨
         (c = 45 ∧ toU64T2 data 0 = .ok (n, []) ∧ n ≤ I64_MIN_ABS ∧ v = -(n : Int)) ∨
         (c = 43 ∧ toU64T2 data 0 = .ok (n, []) ∧ n ≤ I64_MAX ∧ v = (n : Int))) := by
  have lpos : signLimit 1 = I64_MAX := by simp [signLimit]
  have lneg : signLimit (-1) = I64_MIN_ABS := by simp [signLimit]
  cases s with
  | nil => simp [toI64, toI64T, requireEmpty]
  | cons c data =>
    simp only [toI64, toI64T, List.cons.injEq]
    by_cases hc : isDigit c = true
    · have h45 : c ≠ 45 := by rintro rfl; simp [not_isDigit_45] at hc
      have h43 : c ≠ 43 := by rintro rfl; simp [not_isDigit_43] at hc
      simp only [hc, if_true]
      rw [toI64Go_ok _ _ _ _ (Or.inl rfl), lpos]
      constructor
      · rintro ⟨n, h1, h2, h3⟩
        exact ⟨c, data, n, ⟨rfl, rfl⟩, Or.inl ⟨hc, h1, h2, by simpa using h3⟩⟩
      · rintro ⟨c', data', n, ⟨rfl, rfl⟩, h | h | h⟩
        · exact ⟨n, h.2.1, h.2.2.1, by simpa using h.2.2.2⟩
        · exact absurd h.1 h45
        · exact absurd h.1 h43
    · simp only [hc, Bool.false_eq_true, if_false]
      by_cases h45 : c = 45
      · subst h45
        simp only [beq_self_eq_true, if_true]
        rw [toI64Go_ok _ _ _ _ (Or.inr rfl), lneg]
        constructor
        · rintro ⟨n, h1, h2, h3⟩
          exact ⟨45, data, n, ⟨rfl, rfl⟩, Or.inr (Or.inl ⟨rfl, h1, h2, by simpa using h3⟩)⟩
        · rintro ⟨c', data', n, ⟨rfl, rfl⟩, h | h | h⟩
          · exact absurd h.1 hc
          · exact ⟨n, h.2.1, h.2.2.1, by simpa using h.2.2.2⟩
          · exact absurd h.1 (by decide)
      · by_cases h43 : c = 43
        · subst h43
          simp only [show ((43 : UInt8) == 45) = false by decide, beq_self_eq_true, if_true, Bool.false_eq_true, if_false]
          rw [toI64Go_ok _ _ _ _ (Or.inl rfl), lpos]
          constructor
          · rintro ⟨n, h1, h2, h3⟩
            exact ⟨43, data, n, ⟨rfl, rfl⟩, Or.inr (Or.inr ⟨rfl, h1, h2, by simpa using h3⟩)⟩
          · rintro ⟨c', data', n, ⟨rfl, rfl⟩, h | h | h⟩
            · exact absurd h.1 hc
            · exact absurd h.1 (by decide)
            · exact ⟨n, h.2.1, h.2.2.1, by simpa using h.2.2.2⟩
        · have e45 : (c == 45) = false := by simpa using h45
          have e43 : (c == 43) = false := by simpa using h43
          simp only [e45, e43, Bool.false_eq_true, if_false]
          constructor
          · intro h; simp [requireEmpty] at h
          · rintro ⟨c', data', n, ⟨rfl, rfl⟩, h | h | h⟩
            · exact absurd h.1 hc
            · exact absurd h.1 h45
            · exact absurd h.1 h43

/-- digits whose value exceeds the limit of the sign make the arm of `to_i64_t` fail with
`Overflow` (either inside the u64 accumulator or at the checked conversion). -/
theorem toI64Go_overflow (data : Bytes) (sign : Int) (start : Nat) (hd : allDigits data = true)
    (hs : start ≤ U64_MAX) (h : decFrom data start > signLimit sign) :
    requireEmpty (toI64Go data sign start) = .error .overflow := by
  unfold toI64Go requireEmpty
  unfold signLimit at h
  rw [toU64T2_allDigits data start hd hs]
  by_cases h1 : decFrom data start ≤ U64_MAX
  · by_cases hsg : sign < 0 <;> simp [hsg] at h <;> simp [h1, h, hsg]
  · simp [h1]

theorem decFrom_append (a b : Bytes) (acc : Nat) : decFrom (a ++ b) acc = decFrom b (decFrom a acc) := by
  induction a generalizing acc with
  | nil => rfl
  | cons x xs ih => simp [decFrom, ih]

theorem allDigits_append (a b : Bytes) : allDigits (a ++ b) = true ↔ allDigits a = true ∧ allDigits b = true := by
  simp [allDigits]

/-- `left` is empty or starts with a non-digit -/
def StopsAt (left : Bytes) : Prop := left = [] ∨ ∃ x xs, left = x :: xs ∧ isDigit x = false

/-- general description of the accumulator loop: it consumes the longest digit prefix. -/
theorem toU64T2_ok_iff (d : Bytes) (acc r : Nat) (left : Bytes) (hacc : acc ≤ U64_MAX) :
    toU64T2 d acc = .ok (r, left) ↔
      ∃ pre, d = pre ++ left ∧ allDigits pre = true ∧ r = decFrom pre acc ∧ r ≤ U64_MAX ∧ StopsAt left := by
  induction d generalizing acc with
  | nil =>
    simp only [toU64T2, Except.ok.injEq, Prod.mk.injEq]
    constructor
    · rintro ⟨rfl, rfl⟩; exact ⟨[], by simp [allDigits, decFrom, hacc, StopsAt]⟩
    · rintro ⟨pre, h, -, hr, -, -⟩
      have : pre = [] ∧ left = [] := by simpa using h.symm
      obtain ⟨rfl, rfl⟩ := this
      simp [hr, decFrom]
  | cons x xs ih =>
    simp only [toU64T2]
    by_cases hx : isDigit x = true
    · simp only [hx, Bool.not_true, Bool.false_eq_true, if_false, overflowMulAdd]
      by_cases h1 : acc * 10 > U64_MAX
      · simp only [h1, if_true]
        constructor
        · intro h; cases h
        · rintro ⟨pre, h, hd, hr, hle, hs⟩
          exfalso
          cases pre with
          | nil =>
            simp only [List.nil_append] at h; subst h
            rcases hs with hs | ⟨y, ys, hs, hy⟩
            · cases hs
            · cases hs; simp [hx] at hy
          | cons p ps =>
            simp only [List.cons_append, List.cons.injEq] at h
            obtain ⟨rfl, -⟩ := h
            have := decFrom_ge ps (acc * 10 + digitVal x)
            simp only [decFrom] at hr; omega
      · by_cases h2 : acc * 10 + digitVal x > U64_MAX
        · simp only [h1, h2, if_true, if_false]
          constructor
          · intro h; cases h
          · rintro ⟨pre, h, hd, hr, hle, hs⟩
            exfalso
            cases pre with
            | nil =>
              simp only [List.nil_append] at h; subst h
              rcases hs with hs | ⟨y, ys, hs, hy⟩
              · cases hs
              · cases hs; simp [hx] at hy
            | cons p ps =>
              simp only [List.cons_append, List.cons.injEq] at h
              obtain ⟨rfl, -⟩ := h
              have := decFrom_ge ps (acc * 10 + digitVal x)
              simp only [decFrom] at hr; omega
        · simp only [h1, h2, if_false]
          rw [ih _ (by omega)]
          constructor
          · rintro ⟨pre, rfl, hd, hr, hle, hs⟩
            exact ⟨x :: pre, rfl, by simp [allDigits_cons, hx, hd], by simpa [decFrom] using hr, hle, hs⟩
          · rintro ⟨pre, h, hd, hr, hle, hs⟩
            cases pre with
            | nil =>
              exfalso
              simp only [List.nil_append] at h; subst h
              rcases hs with hs | ⟨y, ys, hs, hy⟩
              · cases hs
              · cases hs; simp [hx] at hy
            | cons p ps =>
              simp only [List.cons_append, List.cons.injEq] at h
              obtain ⟨rfl, rfl⟩ := h
              rw [allDigits_cons] at hd
              exact ⟨ps, rfl, hd.2, by simpa [decFrom] using hr, hle, hs⟩
    · have hx' : isDigit x = false := by simpa using hx
      simp only [hx', Bool.not_false, if_true, Except.ok.injEq, Prod.mk.injEq]
      constructor
      · rintro ⟨rfl, rfl⟩
        exact ⟨[], rfl, by simp [allDigits], by simp [decFrom], hacc, Or.inr ⟨x, xs, rfl, hx'⟩⟩
      · rintro ⟨pre, h, hd, hr, hle, hs⟩
        cases pre with
        | nil => simp only [List.nil_append] at h; subst h; simp [hr, decFrom]
        | cons p ps =>
          exfalso
          simp only [List.cons_append, List.cons.injEq] at h
          obtain ⟨rfl, -⟩ := h
          rw [allDigits_cons] at hd
          simp [hx'] at hd


/-- value of an accepted integer: `val as f64` (an `i64` zero has no sign). -/
def intVal (neg : Bool) (n : Nat) : Nat :=
  if neg then (if n = 0 then 0 else signBit + u64ToF64 n) else u64ToF64 n

/-- value of an accepted decimal with `k` fraction digits whose digits, taken as one integer,
are `i`: `sign * ((i as f64) / 10^k)`, two roundings. -/
def fracVal (neg : Bool) (i k : Nat) : Nat :=
  if neg then signBit + rneBits (decodeMag (u64ToF64 i)) (10 ^ k)
  else rneBits (decodeMag (u64ToF64 i)) (10 ^ k)

theorem f64Int_ok (neg : Bool) (lead v : Nat) :
    f64Int neg lead = .ok v ↔ lead ≤ F64_EXACT_MAX ∧ v = intVal neg lead := by
  unfold f64Int intVal
  cases neg
  · by_cases h : lead > F64_EXACT_MAX
    · simp [h]; omega
    · simp [h]; constructor
      · intro h'; exact ⟨by omega, h'.symm⟩
      · intro h'; exact h'.2.symm
  · by_cases h : lead > F64_EXACT_MAX
    · have : ¬ lead ≤ F64_EXACT_MAX := by omega
      by_cases h2 : lead > I64_MAX <;> simp [h, h2, this]
    · have h2 : ¬ lead > I64_MAX := by simp only [F64_EXACT_MAX, I64_MAX] at *; omega
      simp [h, h2]; constructor
      · intro h'; exact ⟨by omega, h'.symm⟩
      · intro h'; exact h'.2.symm

theorem maxFrac : Tables.maxFractionDigits = 22 := rfl

theorem f64Frac_ok (neg : Bool) (lead : Nat) (frac : Bytes) (v : Nat) (hl : lead ≤ U64_MAX) :
    f64Frac neg lead frac = .ok v ↔
      allDigits frac = true ∧ frac ≠ [] ∧ frac.length ≤ 22 ∧ decFrom frac lead ≤ U64_MAX ∧
        v = fracVal neg (decFrom frac lead) frac.length := by
  unfold f64Frac toU64T
  cases h : toU64T2 frac lead with
  | error e =>
    refine ⟨fun h' => (by cases h'), ?_⟩
    rintro ⟨hd, -, -, hle, -⟩
    rw [toU64T2_allDigits frac lead hd hl] at h
    simp [hle] at h
  | ok p =>
    obtain ⟨i, left2⟩ := p
    cases left2 with
    | cons x xs =>
      have : (toU64T2 frac lead = .ok (i, [])) → False := by rw [h]; simp
      by_cases hb : (x :: xs == frac) = true
      · simp only [hb, if_true]
        refine ⟨fun h' => (by cases h'), ?_⟩
        rintro ⟨hd, -, -, hle, -⟩
        rw [toU64T2_allDigits frac lead hd hl] at h
        simp [hle] at h
      · simp only [hb, Bool.false_eq_true, if_false, List.isEmpty_cons, Bool.not_false, if_true]
        refine ⟨fun h' => (by cases h'), ?_⟩
        rintro ⟨hd, -, -, hle, -⟩
        rw [toU64T2_allDigits frac lead hd hl] at h
        simp [hle] at h
    | nil =>
      rw [toU64T2_ok_nil _ _ _ hl] at h
      obtain ⟨hd, hi, hle⟩ := h
      subst hi
      cases frac with
      | nil => simp
      | cons f fs =>
        have hb : (([] : Bytes) == f :: fs) = false := by rfl
        simp only [hb, Bool.false_eq_true, if_false, List.isEmpty_nil, Bool.not_true, maxFrac]
        by_cases hk : (f :: fs).length > 22
        · simp only [hk, if_true]
          refine ⟨fun h' => (by cases h'), ?_⟩
          rintro ⟨-, -, h22, -⟩; omega
        · simp only [hk, if_false, Except.ok.injEq, hd, true_and, ne_eq, reduceCtorEq, not_false_eq_true, hle]
          unfold fracVal
          constructor
          · intro h; exact ⟨by omega, h.symm⟩
          · intro h; exact h.2.symm


theorem f64Tail_ok (neg : Bool) (lead : Nat) (left : Bytes) (v : Nat) (hl : lead ≤ U64_MAX) :
    f64Tail neg lead left = .ok v ↔
      (left = [] ∧ lead ≤ F64_EXACT_MAX ∧ v = intVal neg lead) ∨
      (∃ f, left = 46 :: f ∧ allDigits f = true ∧ f ≠ [] ∧ f.length ≤ 22 ∧ decFrom f lead ≤ U64_MAX ∧
        v = fracVal neg (decFrom f lead) f.length) := by
  cases left with
  | nil => simp [f64Tail, f64Int_ok]
  | cons l0 frac =>
    by_cases h : l0 = 46
    · subst h
      simp [f64Tail, f64Frac_ok _ _ _ _ hl]
    · have hb : (l0 == 46) = false := by simpa using h
      simp [f64Tail, hb, h]

/-- the body of `to_f64` (after the optional '-'), as a grammar. -/
theorem f64Body_ok (neg : Bool) (c : UInt8) (data : Bytes) (v : Nat) :
    f64Body neg (c :: data) c data = .ok v ↔
      ∃ hd ip, IsF64Head hd ip ∧
        ((c :: data = hd ∧ decVal ip ≤ F64_EXACT_MAX ∧ v = intVal neg (decVal ip)) ∨
         (∃ f, c :: data = hd ++ 46 :: f ∧ allDigits f = true ∧ f ≠ [] ∧ f.length ≤ 22 ∧
            decVal (ip ++ f) ≤ U64_MAX ∧ v = fracVal neg (decVal (ip ++ f)) f.length)) := by
  have h0 : (0 : Nat) ≤ U64_MAX := by simp [U64_MAX]
  unfold f64Body f64Head
  by_cases hc : isDigit c = true
  · -- digit
    simp only [hc, if_true]
    constructor
    · intro h
      cases hr : toU64T2 data (digitVal c) with
      | error e => simp [hr] at h
      | ok p =>
        obtain ⟨lead, left⟩ := p
        simp only [hr] at h
        obtain ⟨pre, rfl, hd, hlead, hle, hs⟩ := (toU64T2_ok_iff _ _ _ _ (digitVal_le c)).1 hr
        have hip : allDigits (c :: pre) = true := by simp [allDigits_cons, hc, hd]
        have hv : lead = decVal (c :: pre) := by rw [decVal_cons]; exact hlead
        rcases (f64Tail_ok neg lead left v hle).1 h with ⟨rfl, h1, h2⟩ | ⟨f, rfl, h1, h2, h3, h4, h5⟩
        · exact ⟨c :: pre, c :: pre, ⟨hip, Or.inl rfl⟩, Or.inl ⟨by simp, hv ▸ h1, hv ▸ h2⟩⟩
        · refine ⟨c :: pre, c :: pre, ⟨hip, Or.inl rfl⟩, Or.inr ⟨f, by simp, h1, h2, h3, ?_, ?_⟩⟩
          · rw [decVal, decFrom_append, ← decVal, ← hv]; exact h4
          · rw [decVal, decFrom_append, ← decVal, ← hv]; exact h5
    · rintro ⟨hd, ip, ⟨hip, hhd⟩, h⟩
      -- the head must be the bare digits `c :: pre`
      have key : ∀ rest, c :: data = hd ++ rest → (rest = [] ∨ ∃ f, rest = 46 :: f) →
          ∃ pre, ip = c :: pre ∧ hd = ip ∧ data = pre ++ rest := by
        intro rest hr hrest
        rcases hhd with rfl | rfl
        · cases hd with
          | nil =>
            exfalso
            rcases hrest with rfl | ⟨f, rfl⟩
            · simp at hr
            · simp only [List.nil_append, List.cons.injEq] at hr
              rw [hr.1] at hc; revert hc; decide
          | cons p ps =>
            simp only [List.cons_append, List.cons.injEq] at hr
            obtain ⟨rfl, rfl⟩ := hr
            exact ⟨ps, rfl, rfl, rfl⟩
        · exfalso
          simp only [List.cons_append, List.cons.injEq] at hr
          rw [hr.1] at hc; simp [not_isDigit_43] at hc
      rcases h with ⟨h1, h2, h3⟩ | ⟨f, h1, h2, h3, h4, h5, h6⟩
      · obtain ⟨pre, rfl, rfl, hdata⟩ := key [] (by simpa using h1) (Or.inl rfl)
        simp only [List.append_nil] at hdata; subst hdata
        rw [allDigits_cons] at hip
        have hr : toU64T2 data (digitVal c) = .ok (decVal (c :: data), []) := by
          rw [toU64T2_ok_nil _ _ _ (digitVal_le c)]
          exact ⟨hip.2, decVal_cons c data, by simp only [F64_EXACT_MAX, U64_MAX] at *; omega⟩
        simp only [hr]
        exact (f64Tail_ok neg _ [] v (by simp only [F64_EXACT_MAX, U64_MAX] at *; omega)).2 (Or.inl ⟨rfl, h2, h3⟩)
      · obtain ⟨pre, rfl, rfl, hdata⟩ := key (46 :: f) h1 (Or.inr ⟨f, rfl⟩)
        subst hdata
        rw [allDigits_cons] at hip
        have hge := decFrom_ge f (decVal (c :: pre))
        have hdv : decVal ((c :: pre) ++ f) = decFrom f (decVal (c :: pre)) := by
          rw [decVal, decFrom_append, ← decVal]
        have hr : toU64T2 (pre ++ 46 :: f) (digitVal c) = .ok (decVal (c :: pre), 46 :: f) := by
          rw [toU64T2_ok_iff _ _ _ _ (digitVal_le c)]
          exact ⟨pre, rfl, hip.2, decVal_cons c pre, by omega, Or.inr ⟨46, f, rfl, by decide⟩⟩
        simp only [hr]
        exact (f64Tail_ok neg _ _ v (by omega)).2 (Or.inr ⟨f, rfl, h2, h3, h4, hdv ▸ h5, hdv ▸ h6⟩)
  · have hc' : isDigit c = false := by simpa using hc
    simp only [hc, Bool.false_eq_true, if_false]
    -- where the first byte of `hd ++ rest` can come from when it is not a digit
    have key : ∀ hd ip rest, IsF64Head hd ip → c :: data = hd ++ rest → (rest = [] ∨ ∃ f, rest = 46 :: f) →
        (c = 46 ∧ hd = [] ∧ ip = [] ∧ rest = c :: data) ∨ (c = 43 ∧ hd = 43 :: ip ∧ data = ip ++ rest) := by
      rintro hd ip rest ⟨hip, hhd⟩ hr hrest
      rcases hhd with rfl | rfl
      · cases hd with
        | nil =>
          rcases hrest with rfl | ⟨f, rfl⟩
          · simp at hr
          · simp only [List.nil_append, List.cons.injEq] at hr
            exact Or.inl ⟨hr.1, rfl, rfl, by rw [hr.1, hr.2]⟩
        | cons p ps =>
          exfalso
          simp only [List.cons_append, List.cons.injEq] at hr
          rw [allDigits_cons] at hip
          rw [← hr.1] at hip; simp [hc'] at hip
      · simp only [List.cons_append, List.cons.injEq] at hr
        exact Or.inr ⟨hr.1, rfl, hr.2⟩
    by_cases h46 : c = 46
    · subst h46
      simp only [beq_self_eq_true, if_true]
      rw [f64Tail_ok _ _ _ _ h0]
      constructor
      · rintro (⟨h, -⟩ | ⟨f, h, h1, h2, h3, h4, h5⟩)
        · cases h
        · simp only [List.cons.injEq, true_and] at h; subst h
          exact ⟨[], [], ⟨by decide, Or.inl rfl⟩, Or.inr ⟨data, rfl, h1, h2, h3, by simpa [decVal] using h4, by simpa [decVal] using h5⟩⟩
      · rintro ⟨hd, ip, hhead, h⟩
        rcases h with ⟨h1, h2, h3⟩ | ⟨f, h1, h2, h3, h4, h5, h6⟩
        · rcases key hd ip [] hhead (by simpa using h1) (Or.inl rfl) with ⟨-, -, -, h⟩ | ⟨h, -⟩
          · cases h
          · exact absurd h (by decide)
        · rcases key hd ip _ hhead h1 (Or.inr ⟨f, rfl⟩) with ⟨-, rfl, rfl, h⟩ | ⟨h, -⟩
          · simp only [List.cons.injEq, true_and] at h; subst h
            exact Or.inr ⟨f, rfl, h2, h3, h4, by simpa [decVal] using h5, by simpa [decVal] using h6⟩
          · exact absurd h (by decide)
    · have hb46 : (c == 46) = false := by simpa using h46
      simp only [hb46, Bool.false_eq_true, if_false]
      by_cases h43 : c = 43
      · subst h43
        simp only [beq_self_eq_true, if_true]
        constructor
        · intro h
          cases hr : toU64T2 data 0 with
          | error e => simp [hr] at h
          | ok p =>
            obtain ⟨lead, left⟩ := p
            simp only [hr] at h
            obtain ⟨pre, rfl, hd, hlead, hle, hs⟩ := (toU64T2_ok_iff _ _ _ _ h0).1 hr
            have hv : lead = decVal pre := hlead
            rcases (f64Tail_ok neg lead left v hle).1 h with ⟨rfl, h1, h2⟩ | ⟨f, rfl, h1, h2, h3, h4, h5⟩
            · exact ⟨43 :: pre, pre, ⟨hd, Or.inr rfl⟩, Or.inl ⟨by simp, hv ▸ h1, hv ▸ h2⟩⟩
            · refine ⟨43 :: pre, pre, ⟨hd, Or.inr rfl⟩, Or.inr ⟨f, by simp, h1, h2, h3, ?_, ?_⟩⟩
              · rw [decVal, decFrom_append, ← decVal, ← hv]; exact h4
              · rw [decVal, decFrom_append, ← decVal, ← hv]; exact h5
        · rintro ⟨hd, ip, hhead, h⟩
          have hip := hhead.1
          rcases h with ⟨h1, h2, h3⟩ | ⟨f, h1, h2, h3, h4, h5, h6⟩
          · rcases key hd ip [] hhead (by simpa using h1) (Or.inl rfl) with ⟨h, -⟩ | ⟨-, -, hdata⟩
            · exact absurd h (by decide)
            · simp only [List.append_nil] at hdata; subst hdata
              have hr : toU64T2 data 0 = .ok (decVal data, []) := by
                rw [toU64T2_ok_nil _ _ _ h0]
                exact ⟨hip, rfl, by simp only [F64_EXACT_MAX, U64_MAX] at *; omega⟩
              simp only [hr]
              exact (f64Tail_ok neg _ [] v (by simp only [F64_EXACT_MAX, U64_MAX] at *; omega)).2 (Or.inl ⟨rfl, h2, h3⟩)
          · rcases key hd ip _ hhead h1 (Or.inr ⟨f, rfl⟩) with ⟨h, -⟩ | ⟨-, -, hdata⟩
            · exact absurd h (by decide)
            · subst hdata
              have hge := decFrom_ge f (decVal ip)
              have hdv : decVal (ip ++ f) = decFrom f (decVal ip) := by
                rw [decVal, decFrom_append, ← decVal]
              have hr : toU64T2 (ip ++ 46 :: f) 0 = .ok (decVal ip, 46 :: f) := by
                rw [toU64T2_ok_iff _ _ _ _ h0]
                exact ⟨ip, rfl, hip, rfl, by omega, Or.inr ⟨46, f, rfl, by decide⟩⟩
              simp only [hr]
              exact (f64Tail_ok neg _ _ v (by omega)).2 (Or.inr ⟨f, rfl, h2, h3, h4, hdv ▸ h5, hdv ▸ h6⟩)
      · have hb43 : (c == 43) = false := by simpa using h43
        simp only [hb43, Bool.false_eq_true, if_false]
        constructor
        · intro h; cases h
        · rintro ⟨hd, ip, hhead, h⟩
          exfalso
          rcases h with ⟨h1, h2, h3⟩ | ⟨f, h1, h2, h3, h4, h5, h6⟩
          · rcases key hd ip [] hhead (by simpa using h1) (Or.inl rfl) with ⟨h, -⟩ | ⟨h, -⟩
            · exact h46 h
            · exact h43 h
          · rcases key hd ip _ hhead h1 (Or.inr ⟨f, rfl⟩) with ⟨h, -⟩ | ⟨h, -⟩
            · exact h46 h
            · exact h43 h


/-- the binary64 bit pattern `to_f64` returns for an accepted string. -/
def f64Value (neg : Bool) (ip : Bytes) (fp : Option Bytes) : Nat :=
  match fp with
  | none => intVal neg (decVal ip)
  | some f => fracVal neg (decVal (ip ++ f)) f.length

/-- an accepted body (head, optionally followed by `.` and digits) never starts with `-`. -/
theorem head_first_ne_45 (hd ip rest : Bytes) (x : UInt8) (xs : Bytes) (h : IsF64Head hd ip)
    (hrest : (rest = [] ∧ hd ≠ []) ∨ ∃ f, rest = 46 :: f) (e : hd ++ rest = x :: xs) : x ≠ 45 := by
  obtain ⟨hip, hhd⟩ := h
  rcases hhd with rfl | rfl
  · cases hd with
    | nil =>
      rcases hrest with ⟨-, h⟩ | ⟨f, rfl⟩
      · exact absurd rfl h
      · simp only [List.nil_append, List.cons.injEq] at e; rw [← e.1]; decide
    | cons p ps =>
      simp only [List.cons_append, List.cons.injEq] at e
      rw [allDigits_cons] at hip
      rintro rfl
      rw [e.1] at hip; simp [not_isDigit_45] at hip
  · simp only [List.cons_append, List.cons.injEq] at e; rw [← e.1]; decide

theorem toF64_ok_iff (s : Bytes) (v : Nat) :
    toF64 s = .ok v ↔ ∃ neg ip fp, F64Accepts s neg ip fp ∧ v = f64Value neg ip fp := by
  -- repackaging between `f64Body_ok` and `F64Accepts`
  have pack : ∀ (neg : Bool) (body : Bytes),
      (∃ hd ip, IsF64Head hd ip ∧
        ((body = hd ∧ decVal ip ≤ F64_EXACT_MAX ∧ v = intVal neg (decVal ip)) ∨
         (∃ f, body = hd ++ 46 :: f ∧ allDigits f = true ∧ f ≠ [] ∧ f.length ≤ 22 ∧
            decVal (ip ++ f) ≤ U64_MAX ∧ v = fracVal neg (decVal (ip ++ f)) f.length))) →
      body ≠ [] →
      ∃ ip fp, F64Accepts ((if neg then [45] else []) ++ body) neg ip fp ∧ v = f64Value neg ip fp := by
    rintro neg body ⟨hd, ip, hh, h⟩ hne
    rcases h with ⟨rfl, h2, h3⟩ | ⟨f, rfl, h2, h3, h4, h5, h6⟩
    · exact ⟨ip, none, ⟨body, hh, rfl, hne, h2⟩, h3⟩
    · exact ⟨ip, some f, ⟨hd, hh, rfl, h2, h3, h4, h5⟩, h6⟩
  have unpack : ∀ (neg : Bool) (body : Bytes) ip fp,
      F64Accepts ((if neg then [45] else []) ++ body) neg ip fp → v = f64Value neg ip fp →
      (∃ hd ip, IsF64Head hd ip ∧
        ((body = hd ∧ decVal ip ≤ F64_EXACT_MAX ∧ v = intVal neg (decVal ip)) ∨
         (∃ f, body = hd ++ 46 :: f ∧ allDigits f = true ∧ f ≠ [] ∧ f.length ≤ 22 ∧
            decVal (ip ++ f) ≤ U64_MAX ∧ v = fracVal neg (decVal (ip ++ f)) f.length))) := by
    rintro neg body ip fp ⟨hd, hh, h⟩ hv
    cases fp with
    | none =>
      obtain ⟨h1, h2, h3⟩ := h
      exact ⟨hd, ip, hh, Or.inl ⟨List.append_cancel_left h1, h3, hv⟩⟩
    | some f =>
      obtain ⟨h1, h2, h3, h4, h5⟩ := h
      exact ⟨hd, ip, hh, Or.inr ⟨f, List.append_cancel_left h1, h2, h3, h4, h5, hv⟩⟩
  -- the first byte of an accepted non-negative string is not '-'
  have first : ∀ (x : UInt8) (xs : Bytes) ip fp, F64Accepts (x :: xs) false ip fp → x ≠ 45 := by
    rintro x xs ip fp ⟨hd, hh, h⟩
    cases fp with
    | none =>
      obtain ⟨h1, h2, -⟩ := h
      exact head_first_ne_45 hd ip [] x xs hh (Or.inl ⟨rfl, h2⟩) (by simpa using h1.symm)
    | some f =>
      obtain ⟨h1, -⟩ := h
      exact head_first_ne_45 hd ip (46 :: f) x xs hh (Or.inr ⟨f, rfl⟩) (by simpa using h1.symm)
  have nonempty : ∀ neg ip fp, ¬ F64Accepts [] neg ip fp := by
    rintro neg ip fp ⟨hd, hh, h⟩
    cases fp with
    | none =>
      obtain ⟨h1, h2, -⟩ := h
      cases neg
      · exact h2 (by simpa using h1.symm)
      · simp at h1
    | some f => obtain ⟨h1, -⟩ := h; cases neg <;> simp at h1
  cases s with
  | nil =>
    simp only [toF64]
    constructor
    · intro h; cases h
    · rintro ⟨neg, ip, fp, h, -⟩; exact absurd h (nonempty neg ip fp)
  | cons c0 data0 =>
    simp only [toF64]
    by_cases h45 : c0 = 45
    · subst h45
      simp only [beq_self_eq_true, if_true]
      cases data0 with
      | nil =>
        constructor
        · intro h; cases h
        · rintro ⟨neg, ip, fp, h, -⟩
          exfalso
          cases neg with
          | false => exact first 45 [] ip fp h rfl
          | true =>
            obtain ⟨hd, -, hx⟩ := h
            cases fp with
            | none => obtain ⟨h1, h2, -⟩ := hx; simp at h1; exact h2 h1
            | some f => obtain ⟨h1, -⟩ := hx; simp at h1
      | cons c1 data1 =>
        rw [f64Body_ok]
        constructor
        · intro h
          obtain ⟨ip, fp, ha, hv⟩ := pack true (c1 :: data1) h (by simp)
          exact ⟨true, ip, fp, by simpa using ha, hv⟩
        · rintro ⟨neg, ip, fp, ha, hv⟩
          cases neg with
          | false => exact absurd rfl (first 45 _ ip fp ha)
          | true => exact unpack true (c1 :: data1) ip fp (by simpa using ha) hv
    · have hb : (c0 == 45) = false := by simpa using h45
      simp only [hb, Bool.false_eq_true, if_false]
      rw [f64Body_ok]
      constructor
      · intro h
        obtain ⟨ip, fp, ha, hv⟩ := pack false (c0 :: data0) h (by simp)
        exact ⟨false, ip, fp, by simpa using ha, hv⟩
      · rintro ⟨neg, ip, fp, ha, hv⟩
        cases neg with
        | false => exact unpack false (c0 :: data0) ip fp (by simpa using ha) hv
        | true =>
          exfalso
          obtain ⟨hd, -, hx⟩ := ha
          cases fp with
          | none => obtain ⟨h1, -⟩ := hx; simp at h1; exact h45 h1.1
          | some f => obtain ⟨h1, -⟩ := hx; simp at h1; exact h45 h1.1


theorem bitLen_bounds (n : Nat) (h : n ≠ 0) : 2 ^ (bitLen n - 1) ≤ n ∧ n < 2 ^ bitLen n := by
  simp only [bitLen, h, if_false, Nat.add_sub_cancel]
  exact ⟨Nat.log2_self_le h, Nat.lt_log2_self⟩

theorem bitLen_one : bitLen 1 = 1 := by decide

theorem scaleQ_nonpos (n k : Nat) : scaleQ n 1 (-(k : Int)) = (n * 2 ^ k, 0, 1) := by
  by_cases hk : k = 0
  · subst hk; simp [scaleQ, Nat.mod_one]
  · have h1 : ¬ (-(k : Int) ≥ 0) := by omega
    simp [scaleQ, Nat.mod_one]; omega

/-- `n as f64` for `0 < n < 2^53`, with `k = 53 - bitLen n` (the left shift that normalises
`n`): exponent field `1075 - k`, mantissa `n * 2^k` without its leading bit. -/
theorem u64ToF64_small (n : Nat) (h0 : n ≠ 0) (h : n < 2 ^ 53) :
    ∃ k, k ≤ 52 ∧ 2 ^ 52 ≤ n * 2 ^ k ∧ n * 2 ^ k < 2 ^ 53 ∧
      u64ToF64 n = (1075 - k) * 2 ^ 52 + (n * 2 ^ k - 2 ^ 52) := by
  obtain ⟨hlo, hhi⟩ := bitLen_bounds n h0
  have hL1 : 1 ≤ bitLen n := by simp [bitLen, h0]
  have hL53 : bitLen n ≤ 53 := by
    by_cases hc : bitLen n ≤ 53
    · exact hc
    · exfalso
      have : 2 ^ 53 ≤ 2 ^ (bitLen n - 1) := Nat.pow_le_pow_right (by decide) (by omega)
      omega
  have hq1 : 2 ^ 52 ≤ n * 2 ^ (53 - bitLen n) := by
    have : 2 ^ 52 = 2 ^ (bitLen n - 1) * 2 ^ (53 - bitLen n) := by
      rw [← Nat.pow_add]; congr 1; omega
    rw [this]; exact Nat.mul_le_mul_right _ hlo
  have hq2 : n * 2 ^ (53 - bitLen n) < 2 ^ 53 := by
    have : 2 ^ 53 = 2 ^ (bitLen n) * 2 ^ (53 - bitLen n) := by
      rw [← Nat.pow_add]; congr 1; omega
    rw [this]; exact Nat.mul_lt_mul_of_pos_right hhi (Nat.two_pow_pos _)
  refine ⟨53 - bitLen n, by omega, hq1, hq2, ?_⟩
  generalize hkdef : 53 - bitLen n = k at *
  have hbl : bitLen n = 53 - k := by omega
  have hk52 : k ≤ 52 := by omega
  unfold u64ToF64 rneBits
  have hn : ¬ (n = 0 ∨ 1 = 0) := by simp [h0]
  simp only [hn, if_false, bitLen_one, hbl]
  have he0 : (((53 - k : Nat) : Int) - ((1 : Nat) : Int) - 53) = -((k + 1 : Nat) : Int) := by omega
  rw [he0, scaleQ_nonpos n (k + 1)]
  have h2q : n * 2 ^ (k + 1) = 2 * (n * 2 ^ k) := by rw [Nat.pow_succ]; ac_rfl
  generalize hq : n * 2 ^ k = q at *
  have hne : normExp (n * 2 ^ (k + 1), 0, 1).fst (-((k + 1 : Nat) : Int)) = -(k : Int) := by
    simp only [normExp, h2q]
    have : 2 * q ≥ 2 ^ 53 := by omega
    simp only [this, if_true]; omega
  rw [hne]
  have hcl : clampExp (-(k : Int)) = -(k : Int) := by
    simp only [clampExp]; have : ¬ (-(k : Int) < -1074) := by omega
    simp [this]
  rw [hcl, scaleQ_nonpos n k, hq]
  have hr : roundQ q 0 1 = q := by simp [roundQ]
  simp only [hr]
  unfold packBits
  have c1 : ¬ q ≥ 2 ^ 53 := by omega
  have c2 : ¬ q < 2 ^ 52 := by omega
  have c3 : ¬ (-(k : Int) + 1075 ≥ 2047) := by omega
  have c4 : (-(k : Int) + 1075).toNat = 1075 - k := by omega
  simp only [c1, c2, c3, c4, if_false]

/-- binary64 holds every integer below `2^53` exactly: converting and decoding is the identity. -/
theorem u64ToF64_exact (n : Nat) (h : n < 2 ^ 53) : decodeMag (u64ToF64 n) = n := by
  by_cases h0 : n = 0
  · subst h0; decide
  · obtain ⟨k, hk, hq1, hq2, he⟩ := u64ToF64_small n h0 h
    rw [he]
    have hP : 0 < 2 ^ k := Nat.two_pow_pos k
    generalize hq : n * 2 ^ k = q at *
    unfold decodeMag
    have hfi : (1075 - k) * 2 ^ 52 + (q - 2 ^ 52) ≠ 0 := by omega
    have hbe : ((1075 - k) * 2 ^ 52 + (q - 2 ^ 52)) / 2 ^ 52 = 1075 - k := by omega
    have hm : ((1075 - k) * 2 ^ 52 + (q - 2 ^ 52)) % 2 ^ 52 + 2 ^ 52 = q := by omega
    simp only [hfi, if_false, hbe, hm]
    by_cases hk0 : k = 0
    · subst hk0; simp at hq ⊢; omega
    · have : ¬ (1075 - k ≥ 1075) := by omega
      simp only [this, if_false]
      have : 1075 - (1075 - k) = k := by omega
      rw [this, ← hq]
      exact Nat.mul_div_cancel _ hP


/-- sign applied to a magnitude bit pattern -/
def signed (neg : Bool) (q : Nat) : Nat := if neg then signBit + q else q

/-- exponent field of a binary64 bit pattern -/
def expField (v : Nat) : Nat := (v / 2 ^ 52) % 2048

theorem expField_u64ToF64_small (n : Nat) (h : n < 2 ^ 53) :
    expField (u64ToF64 n) ≤ 1075 ∧ expField (signBit + u64ToF64 n) ≤ 1075 := by
  by_cases h0 : n = 0
  · subst h0; decide
  · obtain ⟨k, hk, hq1, hq2, he⟩ := u64ToF64_small n h0 h
    rw [he]
    generalize n * 2 ^ k = q at *
    simp only [expField, signBit]
    omega

theorem accepts_some_has_dot (s : Bytes) (neg : Bool) (ip f : Bytes) (h : F64Accepts s neg ip (some f)) :
    46 ∈ s := by
  obtain ⟨hd, -, h1, -⟩ := h
  rw [h1]; simp

theorem f64Int_refuse (neg : Bool) (n : Nat) (h : n > F64_EXACT_MAX) :
    f64Int neg n = .error .precisionLoss ∨ f64Int neg n = .error .overflow := by
  unfold f64Int
  cases neg
  · simp [h]
  · by_cases h2 : n > I64_MAX <;> simp [h, h2]

theorem f64Body_int_refuse (neg : Bool) (c : UInt8) (data ip : Bytes) (hh : IsF64Head (c :: data) ip)
    (hbig : decVal ip > F64_EXACT_MAX) :
    f64Body neg (c :: data) c data = .error .precisionLoss ∨
    f64Body neg (c :: data) c data = .error .overflow := by
  obtain ⟨hip, h | h⟩ := hh
  · subst h
    rw [allDigits_cons] at hip
    unfold f64Body f64Head
    simp only [hip.1, if_true, toU64T2_allDigits data (digitVal c) hip.2 (digitVal_le c), ← decVal_cons]
    by_cases hle : decVal (c :: data) ≤ U64_MAX
    · simp only [hle, if_true, f64Tail]; exact f64Int_refuse neg _ hbig
    · simp [hle]
  · simp only [List.cons.injEq] at h
    obtain ⟨rfl, rfl⟩ := h
    unfold f64Body f64Head
    simp only [not_isDigit_43, Bool.false_eq_true, if_false, show ((43 : UInt8) == 46) = false by decide,
      beq_self_eq_true, if_true, toU64T2_allDigits data 0 hip (by simp [U64_MAX])]
    by_cases hle : decFrom data 0 ≤ U64_MAX
    · simp only [hle, if_true, f64Tail]; exact f64Int_refuse neg _ hbig
    · simp [hle]

theorem toF64_big_integer_refused (neg : Bool) (hd ip : Bytes) (hh : IsF64Head hd ip) (hne : hd ≠ [])
    (hbig : decVal ip > F64_EXACT_MAX) :
    toF64 ((if neg then [45] else []) ++ hd) = .error .precisionLoss ∨
    toF64 ((if neg then [45] else []) ++ hd) = .error .overflow := by
  cases hd with
  | nil => exact absurd rfl hne
  | cons c data =>
    cases neg with
    | true =>
      simp only [if_true, List.singleton_append, toF64, beq_self_eq_true]
      exact f64Body_int_refuse true c data ip hh hbig
    | false =>
      have hc : (c == 45) = false := by
        obtain ⟨hip, h | h⟩ := hh
        · subst h; rw [allDigits_cons] at hip
          have : c ≠ 45 := by rintro rfl; simp [not_isDigit_45] at hip
          simpa using this
        · simp only [List.cons.injEq] at h; rw [h.1]; decide
      simp only [Bool.false_eq_true, if_false, List.nil_append, toF64, hc]
      exact f64Body_int_refuse false c data ip hh hbig


/-- raising the exponent by one halves the scaled quotient (floor of floor). -/
theorem scaleQ_succ (num den : Nat) (e : Int) :
    (scaleQ num den (e + 1)).1 = (scaleQ num den e).1 / 2 := by
  unfold scaleQ
  by_cases he : e ≥ 0
  · have he1 : e + 1 ≥ 0 := by omega
    have ht : (e + 1).toNat = e.toNat + 1 := by omega
    simp only [he, he1, if_true, ht, Nat.pow_succ, ← Nat.mul_assoc]
    rw [Nat.div_div_eq_div_mul]
  · by_cases he1 : e + 1 ≥ 0
    · have e_eq : e = -1 := by omega
      subst e_eq
      simp only [he, if_false]
      simp
      rw [Nat.mul_comm num 2, Nat.div_div_eq_div_mul, Nat.mul_comm den 2, Nat.mul_div_mul_left _ _ (by decide : 0 < 2)]
    · have ht : (-e).toNat = (-(e + 1)).toNat + 1 := by omega
      simp only [he, he1, if_false, ht, Nat.pow_succ, ← Nat.mul_assoc]
      rw [Nat.div_div_eq_div_mul, Nat.mul_comm den 2, Nat.mul_comm _ 2, Nat.mul_div_mul_left _ _ (by decide : 0 < 2)]

/-- the first-guess quotient is below `2^54`. -/
theorem scaleQ_e0_lt (num den : Nat) (hn : num ≠ 0) (hd : den ≠ 0) :
    (scaleQ num den ((bitLen num : Int) - (bitLen den : Int) - 53)).1 < 2 ^ 54 := by
  obtain ⟨-, hnum⟩ := bitLen_bounds num hn
  obtain ⟨hden, -⟩ := bitLen_bounds den hd
  have hLd : 1 ≤ bitLen den := by simp [bitLen, hd]
  have hdpos : 0 < den := Nat.pos_of_ne_zero hd
  unfold scaleQ
  by_cases he : (bitLen num : Int) - (bitLen den : Int) - 53 ≥ 0
  · simp only [he, if_true]
    generalize ht : ((bitLen num : Int) - (bitLen den : Int) - 53).toNat = t
    have hLn : bitLen num = bitLen den + 53 + t := by omega
    rw [Nat.div_lt_iff_lt_mul (Nat.mul_pos hdpos (Nat.two_pow_pos t))]
    calc num < 2 ^ bitLen num := hnum
      _ = 2 ^ 54 * (2 ^ (bitLen den - 1) * 2 ^ t) := by
          rw [← Nat.pow_add, ← Nat.pow_add]; congr 1; omega
      _ ≤ 2 ^ 54 * (den * 2 ^ t) := Nat.mul_le_mul_left _ (Nat.mul_le_mul_right _ hden)
  · simp only [he, if_false]
    generalize ht : (-((bitLen num : Int) - (bitLen den : Int) - 53)).toNat = t
    have hLn : bitLen num + t = bitLen den + 53 := by omega
    rw [Nat.div_lt_iff_lt_mul hdpos]
    calc num * 2 ^ t < 2 ^ bitLen num * 2 ^ t := Nat.mul_lt_mul_of_pos_right hnum (Nat.two_pow_pos t)
      _ = 2 ^ 54 * 2 ^ (bitLen den - 1) := by
          rw [← Nat.pow_add, ← Nat.pow_add]; congr 1; omega
      _ ≤ 2 ^ 54 * den := Nat.mul_le_mul_left _ hden


theorem roundQ_le (q r d : Nat) : roundQ q r d ≤ q + 1 := by
  unfold roundQ; split <;> (try split) <;> (try split) <;> omega

theorem packBits_lt (q : Nat) (e : Int) (K : Nat) (hq : q ≤ 2 ^ 53) (hK : e + 1 + 1075 ≤ K) (hK2 : K ≤ 2046) :
    packBits q e < (K + 1) * 2 ^ 52 := by
  unfold packBits
  by_cases h1 : q ≥ 2 ^ 53
  · have hq' : q / 2 = 2 ^ 52 := by omega
    simp only [h1, if_true, hq']
    have c2 : ¬ (2 ^ 52 < 2 ^ 52) := by omega
    have c3 : ¬ (e + 1 + 1075 ≥ 2047) := by omega
    simp only [c2, c3, if_false]
    have : (e + 1 + 1075).toNat ≤ K := by omega
    omega
  · simp only [h1, if_false]
    by_cases h2 : q < 2 ^ 52
    · simp only [h2, if_true]; omega
    · have c3 : ¬ (e + 1075 ≥ 2047) := by omega
      simp only [h2, c3, if_false]
      have : (e + 1075).toNat ≤ K := by omega
      omega

/-- after `normExp` the quotient fits 53 bits, and the exponent moved by at most one. -/
theorem normExp_spec (num den : Nat) (e0 : Int) (h : (scaleQ num den e0).1 < 2 ^ 54) :
    (scaleQ num den (normExp (scaleQ num den e0).1 e0)).1 < 2 ^ 53 ∧
    normExp (scaleQ num den e0).1 e0 ≤ e0 + 1 ∧ e0 - 1 ≤ normExp (scaleQ num den e0).1 e0 := by
  unfold normExp
  by_cases h1 : (scaleQ num den e0).1 ≥ 2 ^ 53
  · simp only [h1, if_true]
    refine ⟨?_, by omega, by omega⟩
    rw [scaleQ_succ]; omega
  · simp only [h1, if_false]
    by_cases h2 : (scaleQ num den e0).1 < 2 ^ 52
    · simp only [h2, if_true]
      refine ⟨?_, by omega, by omega⟩
      have := scaleQ_succ num den (e0 - 1)
      rw [show e0 - 1 + 1 = e0 by omega] at this
      omega
    · simp only [h2, if_false]
      exact ⟨by omega, by omega, by omega⟩

/-- **bound on the exponent field of a rounded quotient**: with `K` at least the first-guess
exponent plus 2 (biased), and `K ≤ 2046`, the bit pattern is below `(K+1)·2^52`; in
particular it is finite. -/
theorem rneBits_lt (num den K : Nat) (hd : den ≠ 0) (hLd : bitLen den ≤ 1000)
    (hK : (bitLen num : Int) - (bitLen den : Int) - 53 + 2 + 1075 ≤ K) (hK2 : K ≤ 2046) :
    rneBits num den < (K + 1) * 2 ^ 52 := by
  by_cases hn : num = 0
  · subst hn; simp [rneBits]
  · unfold rneBits
    have hnd : ¬ (num = 0 ∨ den = 0) := by simp [hn, hd]
    simp only [hnd, if_false]
    have hLn : 1 ≤ bitLen num := by simp [bitLen, hn]
    generalize he0 : (bitLen num : Int) - (bitLen den : Int) - 53 = e0 at *
    obtain ⟨hq, hup, hlo⟩ := normExp_spec num den e0 (he0 ▸ scaleQ_e0_lt num den hn hd)
    generalize normExp (scaleQ num den e0).1 e0 = e1 at *
    have hcl : clampExp e1 = e1 := by
      unfold clampExp; have : ¬ e1 < -1074 := by omega
      simp [this]
    rw [hcl]
    have hr := roundQ_le (scaleQ num den e1).1 (scaleQ num den e1).2.1 (scaleQ num den e1).2.2
    exact packBits_lt _ e1 K (by omega) (by omega) hK2


theorem bitLen_le (n m : Nat) (h : n < 2 ^ m) : bitLen n ≤ m := by
  by_cases hn : n = 0
  · simp [bitLen, hn]
  · obtain ⟨hlo, -⟩ := bitLen_bounds n hn
    by_cases hc : bitLen n ≤ m
    · exact hc
    · exfalso
      have : 2 ^ m ≤ 2 ^ (bitLen n - 1) := Nat.pow_le_pow_right (by decide) (by omega)
      omega

theorem decodeMag_lt (fi : Nat) (h : fi < 1088 * 2 ^ 52) : decodeMag fi < 2 ^ 65 := by
  unfold decodeMag
  by_cases h0 : fi = 0
  · simp [h0]
  · simp only [h0, if_false]
    have hbe : fi / 2 ^ 52 ≤ 1087 := by omega
    have hm : fi % 2 ^ 52 + 2 ^ 52 < 2 ^ 53 := by omega
    by_cases hge : fi / 2 ^ 52 ≥ 1075
    · simp only [hge, if_true]
      have hp : 2 ^ (fi / 2 ^ 52 - 1075) ≤ 2 ^ 12 := Nat.pow_le_pow_right (by decide) (by omega)
      calc (fi % 2 ^ 52 + 2 ^ 52) * 2 ^ (fi / 2 ^ 52 - 1075)
          ≤ (fi % 2 ^ 52 + 2 ^ 52) * 2 ^ 12 := Nat.mul_le_mul_left _ hp
        _ < 2 ^ 53 * 2 ^ 12 := Nat.mul_lt_mul_of_pos_right hm (Nat.two_pow_pos 12)
        _ = 2 ^ 65 := by rw [← Nat.pow_add]
    · simp only [hge, if_false]
      exact Nat.lt_of_le_of_lt (Nat.div_le_self _ _) (by omega)

/-- the magnitude `to_f64` computes for a decimal (`(i as f64) / 10^k`, `i` a `u64`,
`k ≤ 22`) has an exponent field of at most 1088: it is finite. -/
theorem frac_mag_lt (i k : Nat) (hi : i ≤ U64_MAX) (hk : k ≤ 22) :
    rneBits (decodeMag (u64ToF64 i)) (10 ^ k) < 1089 * 2 ^ 52 := by
  have hfi : u64ToF64 i < 1088 * 2 ^ 52 := by
    unfold u64ToF64
    have hb : bitLen i ≤ 64 := bitLen_le i 64 (by simp only [U64_MAX] at hi; omega)
    exact rneBits_lt i 1 1087 (by decide) (by rw [bitLen_one]; omega) (by rw [bitLen_one]; omega) (by omega)
  have hnum := bitLen_le _ 65 (decodeMag_lt _ hfi)
  have hden0 : 10 ^ k ≠ 0 := Nat.pos_iff_ne_zero.mp (Nat.pow_pos (by decide))
  have hden1 : 1 ≤ bitLen (10 ^ k) := by unfold bitLen; rw [if_neg hden0]; omega
  have hden74 : bitLen (10 ^ k) ≤ 74 := by
    apply bitLen_le
    calc 10 ^ k ≤ 10 ^ 22 := Nat.pow_le_pow_right (by decide) hk
      _ < 2 ^ 74 := by decide
  exact rneBits_lt _ _ 1088 hden0 (by omega) (by omega) (by omega)

theorem expField_fracVal (neg : Bool) (i k : Nat) (hi : i ≤ U64_MAX) (hk : k ≤ 22) :
    expField (fracVal neg i k) ≤ 1088 := by
  have := frac_mag_lt i k hi hk
  unfold fracVal
  generalize rneBits (decodeMag (u64ToF64 i)) (10 ^ k) = q at *
  cases neg <;> simp only [expField, signBit, Bool.false_eq_true, if_false, if_true] <;> omega


end Jomini.Scalar
