import JominiModel.Model.Scalar
import JominiModel.Spec.Scalar
/-
Helper lemmas for the scalar model (C11).
-/
namespace Jomini.Scalar
open Jomini

theorem decFrom_ge (d : Bytes) (acc : Nat) : acc ≤ decFrom d acc := by
  induction d generalizing acc with
  | nil => simp [decFrom]
  | cons x xs ih =>
    simp only [decFrom]
    have := ih (acc * 10 + digitVal x)
    omega

theorem decFrom_mono {a b : Nat} (h : a ≤ b) (d : Bytes) : decFrom d a ≤ decFrom d b := by
  induction d generalizing a b with
  | nil => simpa [decFrom]
  | cons x xs ih =>
    simp only [decFrom]
    apply ih; omega

/-- On an all-digit string the accumulator loop computes the Horner value, or fails
exactly when that value does not fit in a u64. -/
theorem toU64T2_allDigits (d : Bytes) (acc : Nat) (hd : allDigits d = true) (hacc : acc ≤ U64_MAX) :
    toU64T2 d acc =
      if decFrom d acc ≤ U64_MAX then .ok (decFrom d acc, []) else .error .overflow := by
  induction d generalizing acc with
  | nil => simp [toU64T2, decFrom, hacc]
  | cons x xs ih =>
    simp only [allDigits, List.all_cons, Bool.and_eq_true] at hd
    have hx := hd.1
    have hxs : allDigits xs = true := hd.2
    simp only [toU64T2, hx, decFrom, overflowMulAdd]
    have hge := decFrom_ge xs (acc * 10 + digitVal x)
    by_cases h1 : acc * 10 > U64_MAX
    · have : ¬ decFrom xs (acc * 10 + digitVal x) ≤ U64_MAX := by omega
      simp [h1, this]
    · by_cases h2 : acc * 10 + digitVal x > U64_MAX
      · have : ¬ decFrom xs (acc * 10 + digitVal x) ≤ U64_MAX := by omega
        simp [h1, h2, this]
      · simp only [h1, h2, if_false, Bool.not_true, Bool.false_eq_true]
        exact ih _ hxs (by omega)


/-- The accumulator loop consumes its whole input exactly when the input is all digits and
the Horner value fits in a u64; the result then is that value. -/
theorem toU64T2_ok_nil (d : Bytes) (acc r : Nat) (hacc : acc ≤ U64_MAX) :
    toU64T2 d acc = .ok (r, []) ↔ allDigits d = true ∧ r = decFrom d acc ∧ r ≤ U64_MAX := by
  constructor
  · intro h
    induction d generalizing acc with
    | nil =>
      simp only [toU64T2, Except.ok.injEq, Prod.mk.injEq, and_true] at h
      subst h; simp [allDigits, decFrom, hacc]
    | cons x xs ih =>
      simp only [toU64T2] at h
      by_cases hx : isDigit x = true
      · simp only [hx, Bool.not_true, Bool.false_eq_true, if_false, overflowMulAdd] at h
        by_cases h1 : acc * 10 > U64_MAX
        · simp [h1] at h
        · by_cases h2 : acc * 10 + digitVal x > U64_MAX
          · simp [h1, h2] at h
          · simp only [h1, h2, if_false] at h
            have := ih _ (by omega) h
            simp only [allDigits, List.all_cons, hx, Bool.true_and, decFrom]
            exact this
      · simp [hx] at h
  · rintro ⟨hd, hr, hle⟩
    rw [toU64T2_allDigits d acc hd hacc]
    subst hr
    simp [hle]

theorem digitVal_le (c : UInt8) : digitVal c ≤ U64_MAX := by
  have := c.toNat_lt
  simp only [digitVal, U64_MAX]; omega

theorem allDigits_cons (c : UInt8) (d : Bytes) :
    allDigits (c :: d) = true ↔ isDigit c = true ∧ allDigits d = true := by
  simp [allDigits]

theorem decVal_cons (c : UInt8) (d : Bytes) : decVal (c :: d) = decFrom d (digitVal c) := by
  simp [decVal, decFrom]

/-- '+' and '-' are not digits. -/
theorem not_isDigit_43 : isDigit 43 = false := by decide
theorem not_isDigit_45 : isDigit 45 = false := by decide

/-- `to_u64`, reduced to the accumulator loop. -/
theorem toU64_ok_iff (s : Bytes) (v : Nat) :
    toU64 s = .ok v ↔
      ∃ c data, s = c :: data ∧
        ((isDigit c = true ∧ toU64T2 data (digitVal c) = .ok (v, [])) ∨
         (c = 43 ∧ toU64T2 data 0 = .ok (v, []))) := by
  cases s with
  | nil => simp [toU64]
  | cons c data =>
    simp only [toU64, List.cons.injEq]
    by_cases hc : isDigit c = true
    · have hne : c ≠ 43 := by rintro rfl; simp [not_isDigit_43] at hc
      simp only [hc, if_true]
      cases h : toU64T2 data (digitVal c) with
      | error e => simp [hne, h]
      | ok p =>
        obtain ⟨r, left⟩ := p
        cases left <;> simp [hne, h, hc] <;> grind
    · simp only [hc, Bool.false_eq_true, if_false]
      by_cases h43 : c = 43
      · subst h43
        cases h : toU64T2 data 0 with
        | error e => simp [h, not_isDigit_43]
        | ok p =>
          obtain ⟨r, left⟩ := p
          cases left <;> simp [h, not_isDigit_43] <;> grind
      · simp [h43]; grind

/-- `to_i64` after one arm of `to_i64_t`. -/
theorem toI64Go_ok (data : Bytes) (sign : Int) (start : Nat) (v : Int) :
    requireEmpty (toI64Go data sign start) = .ok v ↔
    ∃ n, toU64T2 data start = .ok (n, []) ∧ n ≤ I64_MAX ∧ v = sign * (n : Int) := by
  unfold toI64Go requireEmpty
  cases h : toU64T2 data start with
  | error e => simp
  | ok p =>
    obtain ⟨n, left⟩ := p
    by_cases hn : n > I64_MAX
    · simp [hn]; intro _ _ ; omega
    · cases left <;> simp [hn] <;> grind

theorem toI64_ok_iff (s : Bytes) (v : Int) :
    toI64 s = .ok v ↔
      ∃ c data n, s = c :: data ∧ n ≤ I64_MAX ∧
        ((isDigit c = true ∧ toU64T2 data (digitVal c) = .ok (n, []) ∧ v = (n : Int)) ∨
         (c = 45 ∧ toU64T2 data 0 = .ok (n, []) ∧ v = -(n : Int)) ∨
         (c = 43 ∧ toU64T2 data 0 = .ok (n, []) ∧ v = (n : Int))) := by
  cases s with
  | nil => simp [toI64, toI64T, requireEmpty]
  | cons c data =>
    simp only [toI64, toI64T, List.cons.injEq]
    by_cases hc : isDigit c = true
    · have h45 : c ≠ 45 := by rintro rfl; simp [not_isDigit_45] at hc
      have h43 : c ≠ 43 := by rintro rfl; simp [not_isDigit_43] at hc
      simp only [hc, if_true]
      rw [toI64Go_ok]
      constructor
      · rintro ⟨n, h1, h2, h3⟩
        exact ⟨c, data, n, ⟨rfl, rfl⟩, h2, Or.inl ⟨hc, h1, by simpa using h3⟩⟩
      · rintro ⟨c', data', n, ⟨rfl, rfl⟩, h2, h | h | h⟩
        · exact ⟨n, h.2.1, h2, by simpa using h.2.2⟩
        · exact absurd h.1 h45
        · exact absurd h.1 h43
    · simp only [hc, Bool.false_eq_true, if_false]
      by_cases h45 : c = 45
      · subst h45
        simp only [beq_self_eq_true, if_true]
        rw [toI64Go_ok]
        constructor
        · rintro ⟨n, h1, h2, h3⟩
          exact ⟨45, data, n, ⟨rfl, rfl⟩, h2, Or.inr (Or.inl ⟨rfl, h1, by simpa using h3⟩)⟩
        · rintro ⟨c', data', n, ⟨rfl, rfl⟩, h2, h | h | h⟩
          · exact absurd h.1 hc
          · exact ⟨n, h.2.1, h2, by simpa using h.2.2⟩
          · exact absurd h.1 (by decide)
      · by_cases h43 : c = 43
        · subst h43
          simp only [show ((43 : UInt8) == 45) = false by decide, beq_self_eq_true, if_true, Bool.false_eq_true, if_false]
          rw [toI64Go_ok]
          constructor
          · rintro ⟨n, h1, h2, h3⟩
            exact ⟨43, data, n, ⟨rfl, rfl⟩, h2, Or.inr (Or.inr ⟨rfl, h1, by simpa using h3⟩)⟩
          · rintro ⟨c', data', n, ⟨rfl, rfl⟩, h2, h | h | h⟩
            · exact absurd h.1 hc
            · exact absurd h.1 (by decide)
            · exact ⟨n, h.2.1, h2, by simpa using h.2.2⟩
        · have e45 : (c == 45) = false := by simpa using h45
          have e43 : (c == 43) = false := by simpa using h43
          simp only [e45, e43, Bool.false_eq_true, if_false]
          constructor
          · intro h; simp [requireEmpty] at h
          · rintro ⟨c', data', n, ⟨rfl, rfl⟩, h2, h | h | h⟩
            · exact absurd h.1 hc
            · exact absurd h.1 h45
            · exact absurd h.1 h43

/-- digits whose value exceeds `i64::MAX` make every arm of `to_i64_t` fail with `Overflow`
(either inside the u64 accumulator or at `i64::try_from`). -/
theorem toI64Go_overflow (data : Bytes) (sign : Int) (start : Nat) (hd : allDigits data = true)
    (hs : start ≤ U64_MAX) (h : decFrom data start > I64_MAX) :
    requireEmpty (toI64Go data sign start) = .error .overflow := by
  unfold toI64Go requireEmpty
  rw [toU64T2_allDigits data start hd hs]
  by_cases h1 : decFrom data start ≤ U64_MAX
  · simp [h1, h]
  · simp [h1]

end Jomini.Scalar
