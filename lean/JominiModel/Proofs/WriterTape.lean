import JominiModel.Proofs.WriterParse
/-
`write_tape` over the tape of a nested-object document (C14 growth): the walk of
`write_object_core` / `write_value` performs exactly the calls of the document, hence
(`Proofs/WriterNested.lean`) writes exactly `textRoot`; and the erased tape of the document is the
text-tape slice's `ktapeF` of its content.
-/
namespace Jomini.Writer
open Jomini Jomini.Writer.Spec
open Jomini.TextTape (Scal)

/-- one iteration of the `write_object_core` loop for a scalar key without an operator token -/
theorem core_unfold_gen (toks : List Tok) (f i e nx : Nat) (s : State) (k : Scal) (t1 : Tok) (hi : i < e)
    (h0 : toks[i]? = some (scalTok k)) (h1 : toks[i + 1]? = some t1) (hno : ∀ x, t1 ≠ .operator x)
    (hn : nextIdx toks (toks.length + 1) (i + 1) = .ok nx) :
    writeObjectCore toks (f + 1 + 1) i e s =
      bindE (writeRaw s k.text) (fun s1 => bindE (writeValue toks (f + 1) (i + 1) s1)
        (fun s2 => writeObjectCore toks (f + 1) nx e s2)) := by
  have hnl : ¬ (i ≥ e) := by omega
  conv => lhs; unfold writeObjectCore
  simp only [hnl, if_false, h0, h1]
  unfold scalTok at *
  by_cases hk : k.quoted = true <;>
    simp only [hk, if_true, if_false, Bool.false_eq_true] at h0 ⊢ <;>
    cases t1 <;> (try exact absurd rfl (hno _)) <;>
    simp only [hn, writeEscapedQuotes, writeUnquoted, writeRaw, Scal.text, hk, if_true, if_false,
      Bool.false_eq_true, List.cons_append, List.nil_append] <;>
    exact match_assoc _ _ _

/-- … with an operator token between key and value -/
theorem core_unfold_gen_op (toks : List Tok) (f i e nx : Nat) (s : State) (k : Scal) (o : Writer.Op) (hi : i < e)
    (h0 : toks[i]? = some (scalTok k)) (h1 : toks[i + 1]? = some (.operator o))
    (hn : nextIdx toks (toks.length + 1) (i + 2) = .ok nx) :
    writeObjectCore toks (f + 1 + 1) i e s =
      bindE (writeRaw s k.text) (fun s1 => bindE (writeValue toks (f + 1) (i + 2) (writeOperator s1 o))
        (fun s2 => writeObjectCore toks (f + 1) nx e s2)) := by
  have hnl : ¬ (i ≥ e) := by omega
  conv => lhs; unfold writeObjectCore
  simp only [hnl, if_false, h0, h1]
  unfold scalTok at *
  by_cases hk : k.quoted = true <;>
    simp only [hk, if_true, if_false, Bool.false_eq_true] at h0 ⊢ <;>
    simp only [hn, writeEscapedQuotes, writeUnquoted, writeRaw, Scal.text, hk, if_true, if_false,
      Bool.false_eq_true, List.cons_append, List.nil_append] <;>
    exact match_assoc _ _ _

/-- `write_value` on an object token -/
theorem writeValue_object (toks : List Tok) (f i e : Nat) (m : Bool) (s : State)
    (h : toks[i]? = some (.object e m)) :
    writeValue toks (f + 1) i s =
      bindE (writeObjectCore toks f (i + 1) e (writeObjectStart s)) (fun s2 => writeEnd s2) := by
  conv => lhs; unfold writeValue
  simp only [h]
  rfl

theorem nextIdx_object (toks : List Tok) (n i e : Nat) (m : Bool) (h : toks[i]? = some (.object e m)) :
    nextIdx toks (n + 1) i = .ok (e + 1) := by
  unfold nextIdx; simp [h]

mutual
/-- fuel `write_tape`'s walk needs -/
def needV : NVal → Nat
  | .scal _ => 1
  | .obj _ _ v r => 3 + needV v + needF r
def needF : NFields → Nat
  | .nil => 1
  | .cons _ _ v r => 2 + needV v + needF r
end

/-- the writer's view of the tokens of a value / of fields, first token at index `b` -/
def wtV (b : Nat) (v : NVal) : List Tok := (etoksV b v).map ofTT
def wtF (b : Nat) (fs : NFields) : List Tok := (etoksF b fs).map ofTT

theorem opW_opTT (o : Writer.Op) : opW (opTT o) = o := by cases o <;> rfl

theorem opToks_canon (o : Option Writer.Op) (h : o ≠ some .eq) :
    (opOf o).toks.map ofTT = (match o with | none => [] | some x => [Tok.operator x]) := by
  cases o with
  | none => rfl
  | some x => cases x <;> first | rfl | exact absurd rfl h

theorem wtF_cons (b : Nat) (k : SCall) (o : Option Writer.Op) (v : NVal) (r : NFields) :
    wtF b (.cons k o v r) = scalTok k.scal :: ((opOf o).toks.map ofTT ++
      (wtV (b + (1 + (opOf o).toks.length)) v ++
        wtF (b + (1 + (opOf o).toks.length) + (etoksV (b + (1 + (opOf o).toks.length)) v).length) r)) := by
  simp [wtF, wtV, etoksF, ofTT_scal]

theorem wtV_scal (b : Nat) (c : SCall) : wtV b (.scal c) = [scalTok c.scal] := by
  simp [wtV, etoksV, ofTT_scal]

theorem wtV_obj (b : Nat) (k : SCall) (o : Option Writer.Op) (v : NVal) (r : NFields) :
    wtV b (.obj k o v r) = Tok.object (b + 1 + (wtF (b + 1) (.cons k o v r)).length) false ::
      (wtF (b + 1) (.cons k o v r) ++ [Tok.end b]) := by
  simp [wtV, wtF, etoksV, ofTT]

theorem wtV_length (b : Nat) (v : NVal) : (wtV b v).length = (etoksV b v).length := by simp [wtV]

theorem writeRaw_ok (s : State) (x : Bytes) : ∃ s', writeRaw s x = .ok s' := by
  obtain ⟨s', _, h, _, _⟩ := writeUnquoted_ok s x
  exact ⟨s', h⟩

theorem run_single_ok {s s' : State} {c : Call} (h : step s c = .ok s') : (run [c] s).1 = s' := by
  simp [run, h]

theorem objectStart_facts (s : State) (c : UInt8) (f d : Nat) (hi : Inv s c f d)
    (hn : s.needsLineTerminator = false)
    (hst : s.state = .keyValueSeparator ∨ s.state = .objectValue) :
    Inv (writeObjectStart s) c f (d + 1) ∧ (writeObjectStart s).state = .firstKey ∧
      (writeObjectStart s).depth = .object :: s.depth := by
  have key : ∀ o : Bytes, Inv { s with out := o, depth := s.mode :: s.depth, needsLineTerminator := true, mode := .object, state := .firstKey } c f (d + 1) := by
    intro o
    refine ⟨by simp [hi.depth], hi.mixed, rfl, ?_, hi.ic, hi.fac⟩
    intro m hm
    simp only [List.mem_cons] at hm
    rcases hm with rfl | hm
    · exact hi.mode
    · exact hi.allObj m hm
  rcases hst with hs | hs
  · rw [writeObjectStart_kvs s hs hn]; exact ⟨key _, rfl, by simp [hi.mode]⟩
  · rw [writeObjectStart_objectValue s hs hn]; exact ⟨key _, rfl, by simp [hi.mode]⟩

/-- the first token of a value is not an operator, and `next_idx` jumps over the whole value -/
theorem wtV_first (b : Nat) (v : NVal) : ∃ t tl, wtV b v = t :: tl ∧ (∀ x, t ≠ Tok.operator x) ∧
    (∀ (toks : List Tok) (n : Nat), toks[b]? = some t → nextIdx toks (n + 1) b = .ok (b + (wtV b v).length)) := by
  cases v with
  | scal sc =>
    refine ⟨scalTok sc.scal, [], wtV_scal b sc, ?_, ?_⟩
    · intro x; unfold scalTok; split <;> simp
    · intro toks n h
      rw [nextIdx_scal toks n b sc.scal h, wtV_scal]; rfl
  | obj k o v r =>
    refine ⟨_, _, wtV_obj b k o v r, by simp, ?_⟩
    intro toks n h
    rw [nextIdx_object toks n b _ _ h, wtV_obj]
    simp; omega

mutual
theorem TV (c : UInt8) (f : Nat) : ∀ (v : NVal) (toks pre post : List Tok) (i fuel d : Nat) (s : State),
    i = pre.length → toks = pre ++ (wtV i v ++ post) → needV v ≤ fuel → Inv s c f d →
    s.needsLineTerminator = false → (s.state = .keyValueSeparator ∨ s.state = .objectValue) → CanonV v →
    writeValue toks fuel i s = .ok (run (ncallsV v) s).1
  | .scal sc, toks, pre, post, i, fuel, d, s, hidx, ht, hf, hi, hn, hst, _ => by
    subst hidx
    obtain ⟨f', rfl⟩ : ∃ f', fuel = f' + 1 := ⟨fuel - 1, by simp [needV] at hf; omega⟩
    have h0 : toks[pre.length]? = some (scalTok sc.scal) := by rw [ht, wtV_scal]; simp
    rw [writeValue_scal toks f' pre.length s sc.scal h0]
    obtain ⟨s', hs'⟩ := writeRaw_ok s sc.scal.text
    rw [hs', ncallsV, run_single_ok ((step_scall s sc).trans hs')]
  | .obj k o v r, toks, pre, post, i, fuel, d, s, hidx, ht, hf, hi, hn, hst, hc => by
    subst hidx
    obtain ⟨f', rfl⟩ : ∃ f', fuel = f' + 1 := ⟨fuel - 1, by simp [needV] at hf; omega⟩
    simp only [CanonV] at hc
    rw [wtV_obj] at ht
    have h0 : toks[pre.length]? = some (Tok.object (pre.length + 1 + (wtF (pre.length + 1) (.cons k o v r)).length) false) := by
      rw [ht]; simp
    rw [writeValue_object toks f' pre.length _ false s h0]
    obtain ⟨hi1, hs1, hd1⟩ := objectStart_facts s c f d hi hn hst
    have htf := TF c f (.cons k o v r) toks (pre ++ [Tok.object (pre.length + 1 + (wtF (pre.length + 1) (.cons k o v r)).length) false])
      (Tok.end pre.length :: post) (pre.length + 1) (pre.length + 1 + (wtF (pre.length + 1) (.cons k o v r)).length)
      f' (d + 1) (writeObjectStart s)
      (by simp) rfl (by rw [ht]; simp) (by simp only [needV, needF] at hf ⊢; omega) hi1 (Or.inr hs1)
      (by simp only [CanonF]; exact hc)
    rw [htf]
    simp only [bindE]
    obtain ⟨_, hfs, _, hfi, hfd⟩ := runF c f (.cons k o v r) (d + 1) (writeObjectStart s) hi1 (Or.inr hs1)
      (by intro h; cases h)
    have hdep : (run (ncallsF (.cons k o v r)) (writeObjectStart s)).1.depth = .object :: s.depth := by
      rw [hfd, hd1]
    have hcalls : ncallsV (.obj k o v r) = .objectStart :: (ncallsF (.cons k o v r) ++ [.end]) := by
      simp [ncallsV, ncallsF]
    rw [hcalls, run_cons_ok _ (step_objectStart s), run_append]
    have hend := writeEnd_key _ s.depth hfs hdep
    rw [hend, run_single_ok ((step_end _).trans hend)]
theorem TF (c : UInt8) (f : Nat) : ∀ (fs : NFields) (toks pre post : List Tok) (i e fuel d : Nat) (s : State),
    i = pre.length → e = i + (wtF i fs).length → toks = pre ++ (wtF i fs ++ post) → needF fs ≤ fuel →
    Inv s c f d → (s.state = .key ∨ s.state = .firstKey) → CanonF fs →
    writeObjectCore toks fuel i e s = .ok (run (ncallsF fs) s).1
  | .nil, toks, pre, post, i, e, fuel, d, s, hidx, he, ht, hf, hi, hst, _ => by
    obtain ⟨f', rfl⟩ : ∃ f', fuel = f' + 1 := ⟨fuel - 1, by simp [needF] at hf; omega⟩
    unfold writeObjectCore
    simp [he, wtF, etoksF, ncallsF, run]
  | .cons k o v r, toks, pre, post, i, e, fuel, d, s, hidx, he, ht, hf, hi, hst, hc => by
    obtain ⟨f', rfl⟩ : ∃ f', fuel = f' + 1 + 1 := ⟨fuel - 2, by simp [needF] at hf; omega⟩
    simp only [CanonF] at hc
    obtain ⟨hoc, hcv, hcr⟩ := hc
    have hfv : needV v ≤ f' + 1 := by simp only [needF] at hf; omega
    have hfr : needF r ≤ f' + 1 := by simp only [needF] at hf; omega
    rw [wtF_cons, opToks_canon o hoc] at ht
    have hie : i < e := by rw [he, wtF_cons]; simp
    have h0 : toks[i]? = some (scalTok k.scal) := by rw [ht, hidx]; simp
    -- the key
    have hk := writeRaw_keylike s k.scal.text hst
    obtain ⟨s1, hs1⟩ : ∃ s1, s1 = ({ s with out := s.out ++ ((if s.needsLineTerminator then [10] else []) ++ (List.replicate (s.depth.length * s.indentFactor) s.indentChar ++ k.scal.text)), state := .keyValueSeparator, needsLineTerminator := false } : State) := ⟨_, rfl⟩
    rw [← hs1] at hk
    have hi1 : Inv s1 c f d := by rw [hs1]; exact ⟨hi.depth, hi.mixed, hi.mode, hi.allObj, hi.ic, hi.fac⟩
    have hrun1 : (run (ncallsF (.cons k o v r)) s).1 = (run (opCalls o ++ (ncallsV v ++ ncallsF r)) s1).1 := by
      simp only [ncallsF]
      exact run_cons_ok _ ((step_scall s k).trans hk)
    obtain ⟨t, tl, hwt, hno, hnx⟩ := wtV_first (i + (1 + (opOf o).toks.length)) v
    cases o with
    | none =>
      simp only [opOf, TextTape.Op.toks, List.length_nil, Nat.add_zero, List.nil_append] at ht hwt hnx he ⊢
      have h1 : toks[i + 1]? = some t := by rw [ht, hwt, hidx]; simp
      have hn := hnx toks toks.length h1
      rw [core_unfold_gen toks f' i e _ s k.scal t hie h0 h1 hno hn, hk]
      simp only [bindE]
      have htv := TV c f v toks (pre ++ [scalTok k.scal]) (wtF (i + 1 + (etoksV (i + 1) v).length) r ++ post) (i + 1)
        (f' + 1) d s1 (by simp [hidx]) (by rw [ht]; simp) hfv hi1 (by rw [hs1]) (Or.inl (by rw [hs1])) hcv
      rw [htv]
      simp only []
      obtain ⟨_, hvs, _, hvi, _⟩ := runV c f v d s1 [61] hi1 (by rw [hs1]) (Or.inl ⟨by rw [hs1], rfl⟩)
      have htf := TF c f r toks (pre ++ [scalTok k.scal] ++ wtV (i + 1) v) post (i + 1 + (etoksV (i + 1) v).length) e
        (f' + 1) d (run (ncallsV v) s1).1
        (by simp [hidx, wtV_length]; omega)
        (by rw [he, wtF_cons]; simp [opOf, TextTape.Op.toks, wtV_length]; omega)
        (by rw [ht]; simp) hfr hvi (Or.inl hvs) hcr
      rw [wtV_length, htf, hrun1]
      simp [opCalls, run_append]
    | some o' =>
      have hne : o' ≠ .eq := fun h => hoc (by rw [h])
      have hlen1 : (opOf (some o')).toks.length = 1 := by
        cases o' <;> first | rfl | exact absurd rfl hne
      simp only [hlen1] at ht hwt hnx he ⊢
      have h1 : toks[i + 1]? = some (Tok.operator o') := by rw [ht, hidx]; simp
      have h2 : toks[i + 2]? = some t := by rw [ht, hwt, hidx]; simp
      have hn := hnx toks toks.length h2
      rw [core_unfold_gen_op toks f' i e _ s k.scal o' hie h0 h1 hn, hk]
      simp only [bindE]
      have hw := writeOperator_kvs s1 o' hi1.mixed
      have hi2 : Inv (writeOperator s1 o') c f d := by
        rw [hw]; exact ⟨hi1.depth, hi1.mixed, rfl, hi1.allObj, hi1.ic, hi1.fac⟩
      have hst2 : (writeOperator s1 o').state = .objectValue := by rw [hw]
      have hn2 : (writeOperator s1 o').needsLineTerminator = false := by rw [hw, hs1]
      have htv := TV c f v toks (pre ++ [scalTok k.scal, Tok.operator o']) (wtF (i + (1 + 1) + (etoksV (i + (1 + 1)) v).length) r ++ post) (i + 2)
        (f' + 1) d (writeOperator s1 o') (by simp [hidx]) (by rw [ht]; simp) hfv hi2 hn2 (Or.inr hst2) hcv
      rw [htv]
      simp only []
      obtain ⟨_, hvs, _, hvi, _⟩ := runV c f v d (writeOperator s1 o') [] hi2 hn2 (Or.inr ⟨hst2, rfl⟩)
      have htf := TF c f r toks (pre ++ [scalTok k.scal, Tok.operator o'] ++ wtV (i + 2) v) post
        (i + (1 + 1) + (etoksV (i + (1 + 1)) v).length) e
        (f' + 1) d (run (ncallsV v) (writeOperator s1 o')).1
        (by simp [hidx, wtV_length]; omega)
        (by rw [he, wtF_cons]; simp [hlen1, wtV_length]; omega)
        (by rw [ht]; simp) hfr hvi (Or.inl hvs) hcr
      rw [wtV_length, htf, hrun1]
      simp [opCalls, run_append, run, step_operator]
end

mutual
theorem needV_le : ∀ (v : NVal) (b : Nat), needV v ≤ 2 * (etoksV b v).length
  | .scal _, _ => by simp [needV, etoksV]
  | .obj k o v r, b => by
    have h1 := needV_le v (b + 1 + (1 + (opOf o).toks.length))
    have h2 := needF_le r (b + 1 + (1 + (opOf o).toks.length) + (etoksV (b + 1 + (1 + (opOf o).toks.length)) v).length)
    simp only [needV, etoksV, etoksF, List.length_append, List.length_cons, List.length_nil]
    omega
theorem needF_le : ∀ (fs : NFields) (b : Nat), needF fs ≤ 2 * (etoksF b fs).length + 1
  | .nil, _ => by simp [needF, etoksF]
  | .cons k o v r, b => by
    have h1 := needV_le v (b + (1 + (opOf o).toks.length))
    have h2 := needF_le r (b + (1 + (opOf o).toks.length) + (etoksV (b + (1 + (opOf o).toks.length)) v).length)
    simp only [needF, etoksF, List.length_append, List.length_cons, List.length_nil]
    omega
end

/-- `write_tape` over the tape of a document of nested objects performs exactly the calls of
the document -/
theorem writeTape_nested (fs : NFields) (hc : CanonF fs) (c : UInt8) (f : Nat) :
    writeTape (wtF 0 fs) (State.init c f) = .ok (run (ncallsF fs) (State.init c f)).1 := by
  have hi : Inv (State.init c f) c f 0 := ⟨rfl, rfl, rfl, by simp [State.init], rfl, rfl⟩
  have hb := needF_le fs 0
  have := TF c f fs (wtF 0 fs) [] [] 0 (0 + (wtF 0 fs).length) (4 * (wtF 0 fs).length + 8) 0 (State.init c f)
    rfl rfl (by simp) (by simp only [wtF, List.length_map]; omega) hi (Or.inl rfl) hc
  simpa [writeTape] using this

/-! ### the content of a nested-object document in the text-tape slice's terms -/

mutual
theorem etoksV_len : ∀ (v : NVal) (b : Nat), (etoksV b v).length = TextTape.kcntV (kOfV v)
  | .scal _, _ => by simp [etoksV, kOfV, TextTape.kcntV]
  | .obj k o v r, b => by
    have h1 := etoksV_len v (b + 1 + (1 + (opOf o).toks.length))
    have h2 := etoksF_len r (b + 1 + (1 + (opOf o).toks.length) + (etoksV (b + 1 + (1 + (opOf o).toks.length)) v).length)
    simp only [etoksV, etoksF, kOfV, TextTape.kcntV, TextTape.kcntF, List.length_append, List.length_cons,
      List.length_nil]
    omega
theorem etoksF_len : ∀ (fs : NFields) (b : Nat), (etoksF b fs).length = TextTape.kcntF (kOfF fs)
  | .nil, _ => by simp [etoksF, kOfF, TextTape.kcntF]
  | .cons k o v r, b => by
    have h1 := etoksV_len v (b + (1 + (opOf o).toks.length))
    have h2 := etoksF_len r (b + (1 + (opOf o).toks.length) + (etoksV (b + (1 + (opOf o).toks.length)) v).length)
    simp only [etoksF, kOfF, TextTape.kcntF, List.length_append, List.length_cons, List.length_nil]
    omega
end

mutual
theorem etoksV_eq : ∀ (v : NVal) (b : Nat), etoksV b v = TextTape.ktapeV (kOfV v) b
  | .scal _, _ => by simp [etoksV, kOfV, TextTape.ktapeV]
  | .obj k o v r, b => by
    have hl := etoksF_len (.cons k o v r) (b + 1)
    have he := etoksF_eq (.cons k o v r) (b + 1)
    simp only [kOfF] at hl he
    simp only [etoksV, kOfV, TextTape.ktapeV]
    rw [hl, he]
theorem etoksF_eq : ∀ (fs : NFields) (b : Nat), etoksF b fs = TextTape.ktapeF (kOfF fs) b
  | .nil, _ => by simp [etoksF, kOfF, TextTape.ktapeF]
  | .cons k o v r, b => by
    have h1 := etoksV_eq v (b + (1 + (opOf o).toks.length))
    have hl := etoksV_len v (b + (1 + (opOf o).toks.length))
    have h2 := etoksF_eq r (b + (1 + (opOf o).toks.length) + (etoksV (b + (1 + (opOf o).toks.length)) v).length)
    rw [hl] at h2
    simp only [etoksF, kOfF, TextTape.ktapeF]
    rw [hl, h1, h2]
    simp [List.append_assoc, Nat.add_assoc]
end

end Jomini.Writer
