import JominiModel.Proofs.BinTapeFaithful
import JominiModel.Proofs.BinTapeInv
/-
C03 faithfulness for nested documents: mutual induction over `Val` / `Fields` / `Vals`
(Spec/BinTapeDoc.lean).  Every lemma says "from these loop variables the plain loop reaches those",
generalised over the tape so far, the enclosing container slot and the bytes that follow.
-/
namespace Jomini.BinTape
open Jomini


/-- state after a container closes, read off the slot of the enclosing container (tape.rs:273) -/
def closeState : BTok → PState
  | .array _ => .arrayValue
  | _ => .key

/-- "an array element is expected": `OpenFirst`, `OpenSecond` or `ArrayValue` -/
def InArr (s : PState) : Prop := s = .openFirst ∨ s = .openSecond ∨ s = .arrayValue

theorem InArr.next {s : PState} (h : InArr s) : ∃ s', nextState s = some s' ∧ InArr s' := by
  rcases h with rfl | rfl | rfl
  · exact ⟨_, nextState_openFirst, Or.inr (Or.inl rfl)⟩
  · exact ⟨_, nextState_openSecond, Or.inr (Or.inr rfl)⟩
  · exact ⟨_, nextState_arrayValue, Or.inr (Or.inr rfl)⟩

theorem InArr.ne {s : PState} (h : InArr s) :
    s ≠ .key ∧ s ≠ .objectToArray ∧ s ≠ .keyValueSeparator ∧ s ≠ .objectValue := by
  rcases h with rfl | rfl | rfl <;> decide

theorem closeState_inArr (g : Nat) : InArr (closeState (.array g)) := Or.inr (Or.inr rfl)

theorem closeState_key {x : BTok} (h : x.notArray) : closeState x = .key := by
  cases x <;> first | rfl | exact absurd h (by simp [BTok.notArray])

/-- `push_end!` on a container opened at `|T|` whose enclosing slot is `p` -/
theorem pushEnd_at (T inner : Tape) (p : Nat) (x : BTok) (obj : Bool) (hx : T[p]? = some x) :
    pushEnd (T ++ (if obj then BTok.object p else BTok.array p) :: inner) T.length =
      .ok (T ++ (if obj then BTok.object (T.length + 1 + inner.length) else BTok.array (T.length + 1 + inner.length))
              :: inner ++ [.end_ T.length], p, closeState x) := by
  have hpl := getElem?_lt_length hx
  have hlen : ∀ k : BTok, (T ++ k :: inner).length = T.length + 1 + inner.length := by intro k; simp; omega
  have hset : ∀ k y : BTok, (T ++ k :: inner).set T.length y = T ++ y :: inner := by intro k y; simp
  have hget : ∀ y : BTok, (T ++ y :: inner ++ [BTok.end_ T.length])[p]? = some x := by
    intro y
    rw [List.append_assoc, List.getElem?_append_left hpl]; exact hx
  cases obj
  · have hidx : (T ++ BTok.array p :: inner)[T.length]? = some (.array p) := by simp
    simp only [Bool.false_eq_true, if_false, pushEnd, hidx, hset, hlen, closeTo, hget]
    cases x <;> rfl
  · have hidx : (T ++ BTok.object p :: inner)[T.length]? = some (.object p) := by simp
    simp only [if_true, pushEnd, hidx, hset, hlen, closeTo, hget]
    cases x <;> rfl

theorem step_close_at (T inner : Tape) (p : Nat) (x : BTok) (obj : Bool) (s : PState) (rest : Bytes)
    (hx : T[p]? = some x) (h1 : s ≠ .keyValueSeparator) (h2 : s ≠ .objectToArray) (h3 : s ≠ .objectValue) :
    step ⟨T ++ (if obj then BTok.object p else BTok.array p) :: inner, T.length, s, le16 L.close ++ rest⟩ =
      .next ⟨T ++ (if obj then BTok.object (T.length + 1 + inner.length) else BTok.array (T.length + 1 + inner.length))
              :: inner ++ [.end_ T.length], p, closeState x, rest⟩ := by
  have h := step_close (tape := T ++ (if obj then BTok.object p else BTok.array p) :: inner) (parent := T.length) s
    (readId_le16 L.close (by decide) rest) h1 h2 h3
  rw [pushEnd_at T inner p x obj hx] at h
  exact h

theorem step_open_at (T : Tape) (p : Nat) (s : PState) (rest : Bytes) (h1 : s ≠ .key) (h2 : s ≠ .objectToArray) :
    step ⟨T, p, s, le16 L.open_ ++ rest⟩ = .next ⟨T ++ [.array p], T.length, .openFirst, rest⟩ :=
  step_open s (readId_le16 L.open_ (by decide) rest) h1 h2

theorem readRgb_enc3 (r g b rest : Bytes) (hr : r.length = 4) (hg : g.length = 4) (hb : b.length = 4) :
    readRgb (le16 L.open_ ++ (le16 L.u32 ++ (r ++ (le16 L.u32 ++ (g ++ (le16 L.u32 ++ (b ++ (le16 L.close ++ rest))))))))
      = .ok (.rgb (leNat r) (leNat g) (leNat b) none, rest) := by
  unfold readRgb
  simp only [readId_le16 L.open_ (by decide), readId_le16 L.u32 (by decide), readId_le16 L.close (by decide),
    split?_append 4 r _ hr, split?_append 4 g _ hg, split?_append 4 b _ hb]
  simp [L.close, L.u32]

theorem readRgb_enc4 (r g b a rest : Bytes) (hr : r.length = 4) (hg : g.length = 4) (hb : b.length = 4) (ha : a.length = 4) :
    readRgb (le16 L.open_ ++ (le16 L.u32 ++ (r ++ (le16 L.u32 ++ (g ++ (le16 L.u32 ++ (b ++ (le16 L.u32 ++ (a ++ (le16 L.close ++ rest))))))))))
      = .ok (.rgb (leNat r) (leNat g) (leNat b) (some (leNat a)), rest) := by
  unfold readRgb
  simp only [readId_le16 L.open_ (by decide), readId_le16 L.u32 (by decide), readId_le16 L.close (by decide),
    split?_append 4 r _ hr, split?_append 4 g _ hg, split?_append 4 b _ hb, split?_append 4 a _ ha]
  simp [L.close, L.u32]

/-- an rgb block directly after `key =` is one plain iteration and one `Rgb` token -/
theorem step_rgb_value (r g b : Bytes) (a : Option Bytes) (hw : (Val.rgb r g b a).wf = true) (T : Tape) (p : Nat) (rest : Bytes) :
    step ⟨T, p, .objectValue, (Val.rgb r g b a).encode ++ rest⟩ =
      .next ⟨T ++ (Val.rgb r g b a).tape T.length true, p, .key, rest⟩ := by
  simp only [Val.wf, Bool.and_eq_true, beq_iff_eq] at hw
  obtain ⟨⟨⟨hr, hg⟩, hb⟩, ha⟩ := hw
  cases a with
  | none =>
    have hid : readId ((Val.rgb r g b none).encode ++ rest) = some (L.rgb,
        le16 L.open_ ++ (le16 L.u32 ++ (r ++ (le16 L.u32 ++ (g ++ (le16 L.u32 ++ (b ++ (le16 L.close ++ rest)))))))) := by
      simp only [Val.encode, List.append_assoc]; exact readId_le16 L.rgb (by decide) _
    rw [step_eq (st := ⟨T, p, .objectValue, _⟩) hid]
    simp [dispatch, tokenArm, L.rgb, L.u32, L.u64, L.i32, L.bool, L.quoted, L.unquoted, L.f32, L.f64, L.open_, L.close, L.equal,
      parseRgb, Iter.ofExcept, Val.tape]
    have := readRgb_enc3 r g b rest hr hg hb
    simp only [L.open_, L.u32, L.close] at this
    simp [this]
  | some a =>
    simp only [beq_iff_eq] at ha
    have hid : readId ((Val.rgb r g b (some a)).encode ++ rest) = some (L.rgb,
        le16 L.open_ ++ (le16 L.u32 ++ (r ++ (le16 L.u32 ++ (g ++ (le16 L.u32 ++ (b ++ (le16 L.u32 ++ (a ++ (le16 L.close ++ rest)))))))))) := by
      simp only [Val.encode, List.append_assoc]; exact readId_le16 L.rgb (by decide) _
    rw [step_eq (st := ⟨T, p, .objectValue, _⟩) hid]
    simp [dispatch, tokenArm, L.rgb, L.u32, L.u64, L.i32, L.bool, L.quoted, L.unquoted, L.f32, L.f64, L.open_, L.close, L.equal,
      parseRgb, Iter.ofExcept, Val.tape]
    have := readRgb_enc4 r g b a rest hr hg hb ha
    simp only [L.open_, L.u32, L.close] at this
    simp [this]

def Fields.firstNoGhost : Fields → Bool
  | .nil => true
  | .cons g _ _ _ => g == 0

mutual
/-- fragment 1 of the document model: scalars, nested objects and arrays, empty containers, rgb
blocks as values, ghost objects in front of any key except the first key of an object. -/
def Val.nest1 (asValue : Bool) : Val → Bool
  | .sc _ => true
  | .rgb _ _ _ _ => asValue
  | .obj fs => fs.firstNoGhost && fs.nest1
  | .arr vs => vs.nest1
  | .mixed _ _ => false
def Fields.nest1 : Fields → Bool
  | .nil => true
  | .cons _ _ v rest => v.nest1 true && rest.nest1
def Vals.nest1 : Vals → Bool
  | .nil => true
  | .cons v rest => v.nest1 false && rest.nest1
end

/-- wrap the body of an array: `{`, the elements, `}` -/
theorem arr_wrap (T : Tape) (p : Nat) (x : BTok) (s : PState) (rest benc : Bytes) (inner : Tape)
    (hx : T[p]? = some x) (hs1 : s ≠ .key) (hs2 : s ≠ .objectToArray)
    (hbody : ∀ rest', ∃ s', InArr s' ∧
      Reach ⟨T ++ [.array p], T.length, .openFirst, benc ++ rest'⟩ ⟨T ++ [.array p] ++ inner, T.length, s', rest'⟩) :
    Reach ⟨T, p, s, le16 L.open_ ++ benc ++ le16 L.close ++ rest⟩
      ⟨T ++ .array (T.length + 1 + inner.length) :: inner ++ [.end_ T.length], p, closeState x, rest⟩ := by
  obtain ⟨s', hs', hb⟩ := hbody (le16 L.close ++ rest)
  have h1 := step_open_at T p s (benc ++ (le16 L.close ++ rest)) hs1 hs2
  have h3 := step_close_at T inner p x false s' rest hx hs'.ne.2.2.1 hs'.ne.2.1 hs'.ne.2.2.2
  simp only [Bool.false_eq_true, if_false] at h3
  have e1 : le16 L.open_ ++ benc ++ le16 L.close ++ rest = le16 L.open_ ++ (benc ++ (le16 L.close ++ rest)) := by simp
  have e2 : T ++ [BTok.array p] ++ inner = T ++ BTok.array p :: inner := by simp
  rw [e1]; rw [e2] at hb
  exact Reach.head h1 (hb.trans (Reach.head h3 (Reach.refl _)))


/-- the rgb marker outside value position is pushed as an ordinary id -/
theorem step_rgb_marker (T : Tape) (p : Nat) (s s' : PState) (rest : Bytes) (h1 : s ≠ .objectToArray)
    (h2 : s ≠ .objectValue) (hn : nextState s = some s') :
    step ⟨T, p, s, le16 L.rgb ++ rest⟩ = .next ⟨T ++ [.token L.rgb], p, s', rest⟩ := by
  refine step_scalar_ok s (readId_le16 L.rgb (by decide) rest) h1 (r := .ok (T ++ [.token L.rgb], rest)) ?_ rfl hn
  simp [tokenArm, L.rgb, L.u32, L.u64, L.i32, L.bool, L.quoted, L.unquoted, L.f32, L.f64, L.open_, L.close, L.equal, L.i64, h2]

/-- a run of `U32` elements -/
theorem u32s_reach : ∀ (bs : List Bytes), (∀ b ∈ bs, b.length = 4) → ∀ (T : Tape) (P : Nat) (s : PState) (rest : Bytes), InArr s →
    ∃ s', InArr s' ∧ Reach ⟨T, P, s, (bs.flatMap fun b => (Sc.u32 b).encode) ++ rest⟩
      ⟨T ++ bs.map (fun b => BTok.u32 (leNat b)), P, s', rest⟩
  | [], _, T, P, s, rest, hs => ⟨s, hs, by simpa using Reach.refl _⟩
  | b :: bs, hb, T, P, s, rest, hs => by
    obtain ⟨s1, hn1, hs1⟩ := hs.next
    have h1 := step_sc (.u32 b) (by simp [Sc.wf, hb b (by simp)]) T P s s1
      ((bs.flatMap fun b => (Sc.u32 b).encode) ++ rest) hs.ne.2.1 hn1
    obtain ⟨s2, hs2, h2⟩ := u32s_reach bs (fun x hx => hb x (by simp [hx])) (T ++ [(Sc.u32 b).tok]) P s1 rest hs1
    refine ⟨s2, hs2, ?_⟩
    have := Reach.head h1 h2
    simpa [Sc.tok, List.append_assoc] using this

/-- an rgb block in element position: the marker as an id, then an array of `U32` -/
theorem rgb_elem_reach (r g b : Bytes) (a : Option Bytes) (hw : (Val.rgb r g b a).wf = true)
    (T : Tape) (p : Nat) (rest : Bytes) (gg : Nat) (s : PState) (hx : T[p]? = some (.array gg)) (hs : InArr s) :
    ∃ s', InArr s' ∧ Reach ⟨T, p, s, (Val.rgb r g b a).encode ++ rest⟩ ⟨T ++ (Val.rgb r g b a).tape T.length false, p, s', rest⟩ := by
  simp only [Val.wf, Bool.and_eq_true, beq_iff_eq] at hw
  obtain ⟨⟨⟨hr, hg⟩, hb⟩, ha⟩ := hw
  let bs : List Bytes := [r, g, b] ++ a.toList
  have hbs : ∀ x ∈ bs, x.length = 4 := by
    intro x hx
    cases a with
    | none => simp [bs] at hx; rcases hx with rfl | rfl | rfl <;> assumption
    | some a => simp [bs] at hx; simp at ha; rcases hx with rfl | rfl | rfl | rfl <;> assumption
  obtain ⟨s1, hn1, hs1⟩ := hs.next
  have h1 := step_rgb_marker T p s s1
    (le16 L.open_ ++ (bs.flatMap fun b => (Sc.u32 b).encode) ++ le16 L.close ++ rest)
    hs.ne.2.1 hs.ne.2.2.2 hn1
  have hx1 : (T ++ [BTok.token L.rgb])[p]? = some (.array gg) := getElem?_snoc_of_some hx
  have h2 := arr_wrap (T ++ [.token L.rgb]) p (.array gg) s1 rest
    (bs.flatMap fun b => (Sc.u32 b).encode) (bs.map fun b => BTok.u32 (leNat b))
    hx1 hs1.ne.1 hs1.ne.2.1
    (fun rest' => u32s_reach bs hbs _ _ .openFirst rest' (Or.inl rfl))
  refine ⟨_, closeState_inArr gg, ?_⟩
  have e1 : (Val.rgb r g b a).encode ++ rest = le16 L.rgb ++
      (le16 L.open_ ++ (bs.flatMap fun b => (Sc.u32 b).encode) ++ le16 L.close ++ rest) := by
    cases a <;> simp [bs, Val.encode, Sc.encode, List.append_assoc]
  have e2 : T ++ (Val.rgb r g b a).tape T.length false =
      T ++ [BTok.token L.rgb] ++ BTok.array ((T ++ [BTok.token L.rgb]).length + 1 + (bs.map fun b => BTok.u32 (leNat b)).length) ::
        (bs.map fun b => BTok.u32 (leNat b)) ++ [.end_ (T ++ [BTok.token L.rgb]).length] := by
    cases a <;> simp [bs, Val.tape, Nat.add_assoc]
  rw [e1, e2]
  exact Reach.head h1 h2


/-- the tokens `g` empty containers leave on the tape from index `base` on -/
def ghostPairs : Nat → Nat → Tape
  | 0, _ => []
  | n + 1, base => .array (base + 1) :: .end_ base :: ghostPairs n (base + 2)

theorem ghostPairs_length : ∀ (n base : Nat), (ghostPairs n base).length = 2 * n
  | 0, _ => rfl
  | n + 1, base => by simp [ghostPairs, ghostPairs_length n]; omega

theorem ghostPairs_allEmpty : ∀ (n base : Nat), allEmptyPairs (ghostPairs n base) = true
  | 0, _ => rfl
  | n + 1, base => by simp [ghostPairs, allEmptyPairs, ghostPairs_allEmpty n]

/-- one empty container in element position -/
theorem ghost_pair_reach (U : Tape) (P p : Nat) (s : PState) (rest : Bytes) (hU : U[P]? = some (.array p))
    (h1 : s ≠ .key) (h2 : s ≠ .objectToArray) :
    Reach ⟨U, P, s, le16 L.open_ ++ le16 L.close ++ rest⟩ ⟨U ++ [.array (U.length + 1), .end_ U.length], P, .arrayValue, rest⟩ := by
  have a := step_open_at U P s (le16 L.close ++ rest) h1 h2
  have b := step_close_at U [] P (.array p) false .openFirst rest hU (by decide) (by decide) (by decide)
  simp only [Bool.false_eq_true, if_false, List.length_nil, Nat.add_zero] at b
  rw [List.append_assoc]
  have e : U ++ [BTok.array P] = U ++ BTok.array P :: [] := rfl
  rw [e] at a
  have := Reach.head a (Reach.head b (Reach.refl _))
  simpa [closeState] using this

theorem ghosts_open_reach : ∀ (g : Nat) (U : Tape) (P p : Nat) (s : PState) (rest : Bytes), U[P]? = some (.array p) → InArr s →
    Reach ⟨U, P, s, ghostBytes g ++ rest⟩ ⟨U ++ ghostPairs g U.length, P, if g = 0 then s else .arrayValue, rest⟩
  | 0, U, P, p, s, rest, hU, hs => by simpa [ghostBytes, ghostPairs] using Reach.refl _
  | g + 1, U, P, p, s, rest, hU, hs => by
    have h1 := ghost_pair_reach U P p s (ghostBytes g ++ rest) hU hs.ne.1 hs.ne.2.1
    have hU' : (U ++ [BTok.array (U.length + 1), BTok.end_ U.length])[P]? = some (.array p) := by
      rw [List.getElem?_append_left (getElem?_lt_length hU)]; exact hU
    have h2 := ghosts_open_reach g _ P p .arrayValue rest hU' (Or.inr (Or.inr rfl))
    have e1 : ghostBytes (g + 1) ++ rest = le16 L.open_ ++ le16 L.close ++ (ghostBytes g ++ rest) := by simp [ghostBytes]
    have e2 : U ++ ghostPairs (g + 1) U.length
        = U ++ [BTok.array (U.length + 1), BTok.end_ U.length] ++ ghostPairs g (U ++ [BTok.array (U.length + 1), BTok.end_ U.length]).length := by
      simp [ghostPairs]
    rw [e1, e2]
    have := h1.trans h2
    simpa using this

theorem pop?_snoc (l : Tape) (x : BTok) : pop? (l ++ [x]) = some (l, x) := by simp [pop?]

/-- `=` after `{ {} … {} key`: the only_empties rewrite (tape.rs:600-616) drops the ghosts and
turns the container into an object -/
theorem step_equal_ghosts (T : Tape) (p g : Nat) (ktok : BTok) (rest : Bytes) (hg : g ≠ 0)
    (hk1 : ∀ e, ktok ≠ .array e) (hk2 : ∀ i, ktok ≠ .end_ i) :
    step ⟨T ++ BTok.array p :: ghostPairs g (T.length + 1) ++ [ktok], T.length, .arrayValue, le16 L.equal ++ rest⟩
      = .next ⟨T ++ [.object p, ktok], T.length, .objectValue, rest⟩ := by
  rw [step_eq (st := ⟨_, _, .arrayValue, _⟩) (readId_le16 L.equal (by decide) rest)]
  have hpop : pop? (T ++ BTok.array p :: ghostPairs g (T.length + 1) ++ [ktok])
      = some (T ++ BTok.array p :: ghostPairs g (T.length + 1), ktok) := pop?_snoc _ _
  have hdrop : (T ++ BTok.array p :: ghostPairs g (T.length + 1)).drop (T.length + 1) = ghostPairs g (T.length + 1) := by
    rw [List.drop_append]; simp
  have hoe : onlyEmpties (T ++ BTok.array p :: ghostPairs g (T.length + 1)) T.length = true := by
    simp only [onlyEmpties, hdrop, ghostPairs_length, ghostPairs_allEmpty, Bool.and_true, decide_eq_true_eq]
    omega
  have hset : setParentToObject (T ++ BTok.array p :: ghostPairs g (T.length + 1)) T.length
      = .ok (T ++ BTok.object p :: ghostPairs g (T.length + 1)) := by simp [setParentToObject]
  have htake : (T ++ BTok.object p :: ghostPairs g (T.length + 1)).take (T.length + 1) = T ++ [.object p] := by
    rw [List.take_append]; simp [List.take_of_length_le]
  simp only [dispatch, tokenArm_equal, equalArm, hpop]
  cases ktok <;> first
    | exact absurd rfl (hk1 _)
    | exact absurd rfl (hk2 _)
    | simp [hoe, hset, htake, Iter.ofExcept]

theorem Sc.tok_ne_array (k : Sc) (e : Nat) : k.tok ≠ .array e := by cases k <;> simp [Sc.tok]
theorem Sc.tok_ne_end (k : Sc) (i : Nat) : k.tok ≠ .end_ i := by cases k <;> simp [Sc.tok]

/-- `{ [ghosts] key =` : the container becomes an object holding the key, ghosts dropped -/
theorem obj_front_reach (T : Tape) (p g : Nat) (k : Sc) (hk : k.wf = true) (s : PState) (R : Bytes)
    (hs1 : s ≠ .key) (hs2 : s ≠ .objectToArray) :
    Reach ⟨T, p, s, le16 L.open_ ++ (ghostBytes g ++ (k.encode ++ (le16 L.equal ++ R)))⟩
      ⟨T ++ [.object p, k.tok], T.length, .objectValue, R⟩ := by
  have h1 := step_open_at T p s (ghostBytes g ++ (k.encode ++ (le16 L.equal ++ R))) hs1 hs2
  refine Reach.head h1 ?_
  cases g with
  | zero =>
    have h2 := step_sc k hk (T ++ [.array p]) T.length .openFirst .openSecond (le16 L.equal ++ R) (by decide) nextState_openFirst
    have h3 := step_equal_openSecond (tape := T ++ [BTok.array p] ++ [k.tok]) (parent := T.length)
      (readId_le16 L.equal (by decide) R)
    have hset : setParentToObject (T ++ [BTok.array p] ++ [k.tok]) T.length = .ok (T ++ [BTok.object p, k.tok]) := by
      simp [setParentToObject]
    rw [hset] at h3
    simp only at h3
    simpa [ghostBytes] using Reach.head h2 (Reach.head h3 (Reach.refl _))
  | succ g' =>
    have hslot : (T ++ [BTok.array p])[T.length]? = some (.array p) := by simp
    have hg := ghosts_open_reach (g' + 1) (T ++ [.array p]) T.length p .openFirst (k.encode ++ (le16 L.equal ++ R)) hslot (Or.inl rfl)
    simp only [Nat.add_one_ne_zero, if_false] at hg
    have h2 := step_sc k hk (T ++ [.array p] ++ ghostPairs (g' + 1) (T ++ [BTok.array p]).length) T.length .arrayValue .arrayValue
      (le16 L.equal ++ R) (by decide) nextState_arrayValue
    have h3 := step_equal_ghosts T p (g' + 1) k.tok R (by omega) k.tok_ne_array k.tok_ne_end
    have e : T ++ [BTok.array p] ++ ghostPairs (g' + 1) (T ++ [BTok.array p]).length ++ [k.tok]
        = T ++ BTok.array p :: ghostPairs (g' + 1) (T.length + 1) ++ [k.tok] := by simp
    rw [e] at h2
    exact hg.trans (Reach.head h2 (Reach.head h3 (Reach.refl _)))

/-! ## mixed containers -/

theorem mixedInsert2_snoc2 (t0 : Tape) (x y : BTok) : mixedInsert2 (t0 ++ [x, y]) = .ok (t0 ++ [.mixed, x, y]) := by
  have e1 : pop? (t0 ++ [x, y]) = some (t0 ++ [x], y) := by
    have : t0 ++ [x, y] = (t0 ++ [x]) ++ [y] := by simp
    rw [this]; simp [pop?]
  have e2 : pop? (t0 ++ [x]) = some (t0, x) := by simp [pop?]
  simp [mixedInsert2, e1, e2]

/-- the `ObjectToArray` rewrite: the iteration continues as in `ArrayValueMixed` on the rewritten tape -/
theorem step_o2a (t0 : Tape) (x y : BTok) (p : Nat) (data : Bytes) :
    step ⟨t0 ++ [x, y], p, .objectToArray, data⟩ = step ⟨t0 ++ [.mixed, x, y], p, .arrayValueMixed, data⟩ := by
  cases hr : readId data with
  | none => rw [step_done (st := ⟨_, _, _, data⟩) hr, step_done (st := ⟨_, _, _, data⟩) hr]
  | some pr =>
    obtain ⟨tok, d⟩ := pr
    rw [step_eq (st := ⟨_, _, _, data⟩) hr, step_eq (st := ⟨_, _, _, data⟩) hr]
    simp [dispatch, mixedInsert2_snoc2]

/-- `}` after a lone trailing scalar: `mixed_insert1`, then the close as in `ArrayValueMixed` -/
theorem step_close_kvs (t0 : Tape) (x : BTok) (p : Nat) (rest : Bytes) :
    step ⟨t0 ++ [x], p, .keyValueSeparator, le16 L.close ++ rest⟩
      = step ⟨t0 ++ [.mixed, x], p, .arrayValueMixed, le16 L.close ++ rest⟩ := by
  have hr := readId_le16 L.close (by decide) rest
  rw [step_eq (st := ⟨_, _, _, _⟩) hr, step_eq (st := ⟨_, _, _, _⟩) hr]
  have hm : mixedInsert1 (t0 ++ [x]) = .ok (t0 ++ [.mixed, x]) := by simp [mixedInsert1, pop?]
  simp [dispatch, tokenArm_close, closeArm, hm]

/-- scalars in a mixed container stay there -/
theorem scalars_mixed_reach : ∀ (rs : List Sc), rs.all Sc.wf = true → ∀ (U : Tape) (P : Nat) (rest : Bytes),
    Reach ⟨U, P, .arrayValueMixed, rs.flatMap Sc.encode ++ rest⟩ ⟨U ++ rs.map Sc.tok, P, .arrayValueMixed, rest⟩
  | [], _, U, P, rest => by simpa using Reach.refl _
  | r :: rs, hw, U, P, rest => by
    simp only [List.all_cons, Bool.and_eq_true] at hw
    have h1 := step_sc r hw.1 U P .arrayValueMixed .arrayValueMixed (rs.flatMap Sc.encode ++ rest) (by decide) nextState_arrayValueMixed
    have h2 := scalars_mixed_reach rs hw.2 (U ++ [r.tok]) P rest
    have := Reach.head h1 h2
    simpa [List.append_assoc] using this

theorem Sc.tok_plain (s : Sc) : s.tok.isPlain = true := by cases s <;> rfl


theorem Reach1.of_step_eq {a a' c : St} (h : step a' = step a) (hr : Reach1 a c) : Reach1 a' c := by
  obtain ⟨k, hk⟩ := hr
  exact ⟨k, by simpa [stepN, h] using hk⟩

/-- the tail of a mixed container: trailing scalars after the last field, then `}` -/
theorem mixed_tail_reach (T inner0 : Tape) (p : Nat) (x : BTok) (hx : T[p]? = some x) (rs : List Sc) (hne : rs ≠ [])
    (hw : rs.all Sc.wf = true) (rest : Bytes) :
    Reach ⟨T ++ BTok.object p :: inner0, T.length, .key, rs.flatMap Sc.encode ++ (le16 L.close ++ rest)⟩
      ⟨T ++ BTok.object (T.length + 1 + (inner0 ++ BTok.mixed :: rs.map Sc.tok).length) :: (inner0 ++ BTok.mixed :: rs.map Sc.tok)
          ++ [.end_ T.length], p, closeState x, rest⟩ := by
  match rs, hne, hw with
  | [r1], _, hw =>
    simp only [List.all_cons, List.all_nil, Bool.and_true] at hw
    have h1 := step_sc r1 hw (T ++ BTok.object p :: inner0) T.length .key .keyValueSeparator (le16 L.close ++ rest) (by decide) nextState_key
    have h2 := step_close_kvs (T ++ BTok.object p :: inner0) r1.tok T.length rest
    have h3 := step_close_at T (inner0 ++ [.mixed, r1.tok]) p x true .arrayValueMixed rest hx (by decide) (by decide) (by decide)
    simp only [if_true] at h3
    have e : T ++ BTok.object p :: inner0 ++ [BTok.mixed, r1.tok] = T ++ BTok.object p :: (inner0 ++ [BTok.mixed, r1.tok]) := by simp
    rw [e, h3] at h2
    simpa using Reach.head h1 (Reach.head h2 (Reach.refl _))
  | r1 :: r2 :: rs', _, hw =>
    simp only [List.all_cons, Bool.and_eq_true] at hw
    obtain ⟨hw1, hw2, hw3⟩ := hw
    have h1 := step_sc r1 hw1 (T ++ BTok.object p :: inner0) T.length .key .keyValueSeparator
      (r2.encode ++ (rs'.flatMap Sc.encode ++ (le16 L.close ++ rest))) (by decide) nextState_key
    have h2 := step_sc r2 hw2 (T ++ BTok.object p :: inner0 ++ [r1.tok]) T.length .keyValueSeparator .objectToArray
      (rs'.flatMap Sc.encode ++ (le16 L.close ++ rest)) (by decide) nextState_kvs
    have e0 : T ++ BTok.object p :: inner0 ++ [r1.tok] ++ [r2.tok] = (T ++ BTok.object p :: inner0) ++ [r1.tok, r2.tok] := by simp
    rw [e0] at h2
    have hmix := scalars_mixed_reach rs' hw3 ((T ++ BTok.object p :: inner0) ++ [.mixed, r1.tok, r2.tok]) T.length (le16 L.close ++ rest)
    have hclose := step_close_at T (inner0 ++ [.mixed, r1.tok, r2.tok] ++ rs'.map Sc.tok) p x true .arrayValueMixed rest hx
      (by decide) (by decide) (by decide)
    simp only [if_true] at hclose
    have e : (T ++ BTok.object p :: inner0) ++ [BTok.mixed, r1.tok, r2.tok] ++ rs'.map Sc.tok
        = T ++ BTok.object p :: (inner0 ++ [BTok.mixed, r1.tok, r2.tok] ++ rs'.map Sc.tok) := by simp
    rw [e] at hmix
    have hr1 : Reach1 ⟨(T ++ BTok.object p :: inner0) ++ [.mixed, r1.tok, r2.tok], T.length, .arrayValueMixed,
        rs'.flatMap Sc.encode ++ (le16 L.close ++ rest)⟩ _ := Reach1.trans_left hmix (Reach1.single hclose)
    have hr2 := Reach1.of_step_eq (step_o2a (T ++ BTok.object p :: inner0) r1.tok r2.tok T.length
      (rs'.flatMap Sc.encode ++ (le16 L.close ++ rest))) hr1
    have := Reach.head h1 (Reach.head h2 hr2.toReach)
    simpa [List.append_assoc] using this

mutual
theorem val_value_reach : ∀ (v : Val), v.wf = true →
    ∀ (T : Tape) (p : Nat) (rest : Bytes) (x : BTok), T[p]? = some x → x.notArray →
    Reach ⟨T, p, .objectValue, v.encode ++ rest⟩ ⟨T ++ v.tape T.length true, p, .key, rest⟩
  | .sc s, hw, T, p, rest, x, hx, hxa => by
    have h := step_sc s (by simpa [Val.wf] using hw) T p .objectValue .key rest (by decide) nextState_objectValue
    simpa [Val.encode, Val.tape] using Reach.head h (Reach.refl _)
  | .rgb r g b a, hw, T, p, rest, x, hx, hxa => Reach.head (step_rgb_value r g b a hw T p rest) (Reach.refl _)
  | .arr vs, hw, T, p, rest, x, hx, hxa => by
    have h := arr_wrap T p x .objectValue rest vs.encode (vs.tape (T.length + 1)) hx (by decide) (by decide)
      (fun rest' => by
        have := vals_reach vs (by simpa [Val.wf] using hw)
          (T ++ [.array p]) T.length rest' p .openFirst (by simp) (Or.inl rfl)
        simpa using this)
    rw [closeState_key hxa] at h
    simpa [Val.encode, Val.tape, List.append_assoc] using h
  | .obj fs, hw, T, p, rest, x, hx, hxa => by
    have h := obj_reach fs (by simpa [Val.wf] using hw) T p rest x .objectValue hx (by decide) (by decide)
    rw [closeState_key hxa] at h
    exact h
  | .mixed fs tail, hw, T, p, rest, x, hx, hxa => by
    simp only [Val.wf, Bool.and_eq_true, Bool.not_eq_true', List.isEmpty_eq_false_iff] at hw
    have h := mixed_reach fs tail hw.1.1.1 hw.1.1.2 hw.1.2 hw.2 T p rest x .objectValue hx (by decide) (by decide)
    rw [closeState_key hxa] at h
    exact h
theorem mixed_reach : ∀ (fs : Fields) (tail : List Sc), fs.wf = true → fs.nonEmpty = true → tail ≠ [] → tail.all Sc.wf = true →
    ∀ (T : Tape) (p : Nat) (rest : Bytes) (x : BTok) (s : PState), T[p]? = some x → s ≠ .key → s ≠ .objectToArray →
    Reach ⟨T, p, s, (Val.mixed fs tail).encode ++ rest⟩ ⟨T ++ (Val.mixed fs tail).tape T.length true, p, closeState x, rest⟩
  | .nil, _, _, hne, _, _, _, _, _, _, _, _, _, _ => by simp [Fields.nonEmpty] at hne
  | .cons g k v more, tail, hw, _, htne, htw, T, p, rest, x, s, hx, hs1, hs2 => by
    simp only [Fields.wf, Bool.and_eq_true] at hw
    obtain ⟨⟨hk, hwv⟩, hwm⟩ := hw
    have h123 := obj_front_reach T p g k hk s
      (v.encode ++ (more.encode ++ (tail.flatMap Sc.encode ++ (le16 L.close ++ rest)))) hs1 hs2
    have hslot : (T ++ [BTok.object p, k.tok])[T.length]? = some (.object p) := by simp
    have h4 := val_value_reach v hwv (T ++ [BTok.object p, k.tok]) T.length
      (more.encode ++ (tail.flatMap Sc.encode ++ (le16 L.close ++ rest))) (.object p) hslot trivial
    have hslot2 : (T ++ [BTok.object p, k.tok] ++ v.tape (T ++ [BTok.object p, k.tok]).length true)[T.length]? = some (.object p) := by
      rw [List.getElem?_append_left (by simp)]; exact hslot
    have h5 := fields_reach more hwm _ T.length (tail.flatMap Sc.encode ++ (le16 L.close ++ rest)) (.object p) hslot2 trivial
    have h6 := mixed_tail_reach T (k.tok :: (v.tape (T.length + 2) true ++ more.tape (T.length + 2 + (v.tape (T.length + 2) true).length)))
      p x hx tail htne htw rest
    have e1 : (Val.mixed (Fields.cons g k v more) tail).encode ++ rest
        = le16 L.open_ ++ (ghostBytes g ++ (k.encode ++ (le16 L.equal ++ (v.encode ++ (more.encode ++
            (tail.flatMap Sc.encode ++ (le16 L.close ++ rest))))))) := by
      simp [Val.encode, Fields.encode, List.append_assoc]
    have e2 : T ++ [BTok.object p, k.tok] ++ v.tape (T ++ [BTok.object p, k.tok]).length true ++
          more.tape (T ++ [BTok.object p, k.tok] ++ v.tape (T ++ [BTok.object p, k.tok]).length true).length
        = T ++ BTok.object p :: k.tok :: (v.tape (T.length + 2) true ++ more.tape (T.length + 2 + (v.tape (T.length + 2) true).length)) := by
      simp [Nat.add_assoc, Nat.add_comm, Nat.add_left_comm]
      congr 1; omega
    have e3 : T ++ (Val.mixed (Fields.cons g k v more) tail).tape T.length true
        = T ++ BTok.object (T.length + 1 +
              ((k.tok :: (v.tape (T.length + 2) true ++ more.tape (T.length + 2 + (v.tape (T.length + 2) true).length)))
                ++ BTok.mixed :: tail.map Sc.tok).length)
            :: ((k.tok :: (v.tape (T.length + 2) true ++ more.tape (T.length + 2 + (v.tape (T.length + 2) true).length)))
                ++ BTok.mixed :: tail.map Sc.tok) ++ [.end_ T.length] := by
      simp [Val.tape, Fields.tape, Nat.add_assoc, Nat.add_comm, Nat.add_left_comm]
    rw [e1, e3]
    rw [e2] at h5
    exact h123.trans (h4.trans (h5.trans h6))
theorem obj_reach : ∀ (fs : Fields), fs.wf = true →
    ∀ (T : Tape) (p : Nat) (rest : Bytes) (x : BTok) (s : PState), T[p]? = some x → s ≠ .key → s ≠ .objectToArray →
    Reach ⟨T, p, s, (Val.obj fs).encode ++ rest⟩ ⟨T ++ (Val.obj fs).tape T.length true, p, closeState x, rest⟩
  | .nil, _, T, p, rest, x, s, hx, hs1, hs2 => by
    have h := arr_wrap T p x s rest [] [] hx hs1 hs2
      (fun rest' => ⟨.openFirst, Or.inl rfl, by simpa using Reach.refl _⟩)
    simpa [Val.encode, Val.tape, Fields.encode, Fields.tape, List.append_assoc] using h
  | .cons g k v more, hw, T, p, rest, x, s, hx, hs1, hs2 => by
    simp only [Fields.wf, Bool.and_eq_true] at hw
    obtain ⟨⟨hk, hwv⟩, hwm⟩ := hw
    -- `{ [ghosts] key =`
    have h123 := obj_front_reach T p g k hk s (v.encode ++ (more.encode ++ (le16 L.close ++ rest))) hs1 hs2
    -- value, remaining fields
    have hslot : (T ++ [BTok.object p, k.tok])[T.length]? = some (.object p) := by simp
    have h4 := val_value_reach v hwv (T ++ [BTok.object p, k.tok]) T.length
      (more.encode ++ (le16 L.close ++ rest)) (.object p) hslot trivial
    have hslot2 : (T ++ [BTok.object p, k.tok] ++ v.tape (T ++ [BTok.object p, k.tok]).length true)[T.length]? = some (.object p) := by
      rw [List.getElem?_append_left (by simp)]; exact hslot
    have h5 := fields_reach more hwm _ T.length (le16 L.close ++ rest) (.object p) hslot2 trivial
    -- `}` in key position
    have h6 := step_close_at T (k.tok :: (v.tape (T.length + 2) true ++ more.tape (T.length + 2 + (v.tape (T.length + 2) true).length)))
      p x true .key rest hx (by decide) (by decide) (by decide)
    simp only [if_true] at h6
    have e1 : (Val.obj (Fields.cons g k v more)).encode ++ rest
        = le16 L.open_ ++ (ghostBytes g ++ (k.encode ++ (le16 L.equal ++ (v.encode ++ (more.encode ++ (le16 L.close ++ rest)))))) := by
      simp [Val.encode, Fields.encode, List.append_assoc]
    have e2 : T ++ [BTok.object p, k.tok] ++ v.tape (T ++ [BTok.object p, k.tok]).length true ++
          more.tape (T ++ [BTok.object p, k.tok] ++ v.tape (T ++ [BTok.object p, k.tok]).length true).length
        = T ++ BTok.object p :: k.tok :: (v.tape (T.length + 2) true ++ more.tape (T.length + 2 + (v.tape (T.length + 2) true).length)) := by
      simp [Nat.add_assoc, Nat.add_comm, Nat.add_left_comm]
      congr 1; omega
    have e3 : T ++ (Val.obj (Fields.cons g k v more)).tape T.length true
        = T ++ BTok.object (T.length + 1 + (k.tok :: (v.tape (T.length + 2) true ++ more.tape (T.length + 2 + (v.tape (T.length + 2) true).length))).length)
            :: (k.tok :: (v.tape (T.length + 2) true ++ more.tape (T.length + 2 + (v.tape (T.length + 2) true).length))) ++ [.end_ T.length] := by
      simp [Val.tape, Fields.tape, Nat.add_assoc, Nat.add_comm, Nat.add_left_comm]
    rw [e1, e3]
    rw [e2] at h5
    exact h123.trans (h4.trans (h5.trans (Reach.head h6 (Reach.refl _))))
theorem val_elem_reach : ∀ (v : Val), v.wf = true →
    ∀ (T : Tape) (p : Nat) (rest : Bytes) (g : Nat) (s : PState), T[p]? = some (.array g) → InArr s →
    ∃ s', InArr s' ∧ Reach ⟨T, p, s, v.encode ++ rest⟩ ⟨T ++ v.tape T.length false, p, s', rest⟩
  | .sc sc, hw, T, p, rest, g, s, hx, hs => by
    obtain ⟨s', hn, hs'⟩ := hs.next
    have h := step_sc sc (by simpa [Val.wf] using hw) T p s s' rest hs.ne.2.1 hn
    exact ⟨s', hs', by simpa [Val.encode, Val.tape] using Reach.head h (Reach.refl _)⟩
  | .rgb r gr b a, hw, T, p, rest, g, s, hx, hs => rgb_elem_reach r gr b a hw T p rest g s hx hs
  | .arr vs, hw, T, p, rest, g, s, hx, hs => by
    have h := arr_wrap T p (.array g) s rest vs.encode (vs.tape (T.length + 1)) hx hs.ne.1 hs.ne.2.1
      (fun rest' => by
        have := vals_reach vs (by simpa [Val.wf] using hw)
          (T ++ [.array p]) T.length rest' p .openFirst (by simp) (Or.inl rfl)
        simpa using this)
    exact ⟨_, closeState_inArr g, by simpa [Val.encode, Val.tape, List.append_assoc] using h⟩
  | .obj fs, hw, T, p, rest, g, s, hx, hs => by
    have h := obj_reach fs (by simpa [Val.wf] using hw) T p rest (.array g) s hx hs.ne.1 hs.ne.2.1
    exact ⟨_, closeState_inArr g, by simpa [Val.tape] using h⟩
  | .mixed fs tail, hw, T, p, rest, g, s, hx, hs => by
    simp only [Val.wf, Bool.and_eq_true, Bool.not_eq_true', List.isEmpty_eq_false_iff] at hw
    have h := mixed_reach fs tail hw.1.1.1 hw.1.1.2 hw.1.2 hw.2 T p rest (.array g) s hx hs.ne.1 hs.ne.2.1
    exact ⟨_, closeState_inArr g, by simpa [Val.tape] using h⟩
theorem fields_reach : ∀ (fs : Fields), fs.wf = true →
    ∀ (T : Tape) (p : Nat) (rest : Bytes) (x : BTok), T[p]? = some x → x.notArray →
    Reach ⟨T, p, .key, fs.encode ++ rest⟩ ⟨T ++ fs.tape T.length, p, .key, rest⟩
  | .nil, _, T, p, rest, x, hx, hxa => by simpa [Fields.encode, Fields.tape] using Reach.refl _
  | .cons g k v more, hw, T, p, rest, x, hx, hxa => by
    simp only [Fields.wf, Bool.and_eq_true] at hw
    obtain ⟨⟨hk, hwv⟩, hwm⟩ := hw
    have hT : T ≠ [] := by intro h; subst h; simp at hx
    have h0 := ghosts_reach T p hT g (k.encode ++ (le16 L.equal ++ (v.encode ++ (more.encode ++ rest))))
    have h1 := step_sc k hk T p .key .keyValueSeparator (le16 L.equal ++ (v.encode ++ (more.encode ++ rest))) (by decide) nextState_key
    have h2 := step_equal_kvs (tape := T ++ [k.tok]) (parent := p) (readId_le16 L.equal (by decide) (v.encode ++ (more.encode ++ rest)))
    have hslot : (T ++ [k.tok])[p]? = some x := getElem?_snoc_of_some hx
    have h3 := val_value_reach v hwv (T ++ [k.tok]) p (more.encode ++ rest) x hslot hxa
    have hslot2 : (T ++ [k.tok] ++ v.tape (T ++ [k.tok]).length true)[p]? = some x := by
      rw [List.getElem?_append_left (getElem?_lt_length hslot)]; exact hslot
    have h4 := fields_reach more hwm _ p rest x hslot2 hxa
    have e1 : (Fields.cons g k v more).encode ++ rest
        = ghostBytes g ++ (k.encode ++ (le16 L.equal ++ (v.encode ++ (more.encode ++ rest)))) := by
      simp [Fields.encode, List.append_assoc]
    have e2 : T ++ (Fields.cons g k v more).tape T.length
        = T ++ [k.tok] ++ v.tape (T ++ [k.tok]).length true ++
            more.tape (T ++ [k.tok] ++ v.tape (T ++ [k.tok]).length true).length := by
      simp [Fields.tape, Nat.add_assoc, Nat.add_comm, Nat.add_left_comm]
    rw [e1, e2]
    exact h0.trans (Reach.head h1 (Reach.head h2 (h3.trans h4)))
theorem vals_reach : ∀ (vs : Vals), vs.wf = true →
    ∀ (T : Tape) (p : Nat) (rest : Bytes) (g : Nat) (s : PState), T[p]? = some (.array g) → InArr s →
    ∃ s', InArr s' ∧ Reach ⟨T, p, s, vs.encode ++ rest⟩ ⟨T ++ vs.tape T.length, p, s', rest⟩
  | .nil, _, T, p, rest, g, s, hx, hs => ⟨s, hs, by simpa [Vals.encode, Vals.tape] using Reach.refl _⟩
  | .cons v more, hw, T, p, rest, g, s, hx, hs => by
    simp only [Vals.wf, Bool.and_eq_true] at hw
    obtain ⟨s1, hs1, h1⟩ := val_elem_reach v hw.1 T p (more.encode ++ rest) g s hx hs
    have hslot : (T ++ v.tape T.length false)[p]? = some (.array g) := by
      rw [List.getElem?_append_left (getElem?_lt_length hx)]; exact hx
    obtain ⟨s2, hs2, h2⟩ := vals_reach more hw.2 _ p rest g s1 hslot hs1
    refine ⟨s2, hs2, ?_⟩
    have e1 : (Vals.cons v more).encode ++ rest = v.encode ++ (more.encode ++ rest) := by simp [Vals.encode]
    have e2 : T ++ (Vals.cons v more).tape T.length
        = T ++ v.tape T.length false ++ more.tape (T ++ v.tape T.length false).length := by
      simp [Vals.tape]
    rw [e1, e2]
    exact h1.trans h2
end

theorem Sc.tok_notArray (s : Sc) : s.tok.notArray := by cases s <;> trivial

/-- reaching `(tape, 0, Key, [])` from the initial variables means the parser returns `tape` -/
theorem parse_of_reach {data : Bytes} {tape : Tape} (h : Reach (init data) ⟨tape, 0, .key, []⟩) :
    parse false data = .ok tape := by
  have hres : Res (init data) (.ok tape) := by
    refine Res.of_reach h ?_
    have hd : step ⟨tape, 0, .key, []⟩ = .done := step_done (by simp [readId])
    simpa [finish] using Res.done hd
  exact Res.det (run_false_res _ _ (init data) (by simp [init]) (init_good _)) hres

/-- a whole document (first key on an empty tape) -/
theorem doc_reach : ∀ (doc : Fields), doc.wfDoc = true →
    Reach (init doc.encode) ⟨doc.tape 0, 0, .key, []⟩
  | .nil, _ => by simpa [init, Fields.encode, Fields.tape] using Reach.refl _
  | .cons g k v more, hw => by
    simp only [Fields.wfDoc, Fields.wf, Bool.and_eq_true, beq_iff_eq] at hw
    obtain ⟨rfl, ⟨hk, hwv⟩, hwm⟩ := hw
    have h1 := step_sc k hk [] 0 .key .keyValueSeparator (le16 L.equal ++ (v.encode ++ (more.encode ++ []))) (by decide) nextState_key
    have h2 := step_equal_kvs (tape := [] ++ [k.tok]) (parent := 0) (readId_le16 L.equal (by decide) (v.encode ++ (more.encode ++ [])))
    have hslot : ([] ++ [k.tok])[0]? = some k.tok := by simp
    have h3 := val_value_reach v hwv ([] ++ [k.tok]) 0 (more.encode ++ []) k.tok hslot k.tok_notArray
    have hslot2 : ([] ++ [k.tok] ++ v.tape ([] ++ [k.tok]).length true)[0]? = some k.tok := by simp
    have h4 := fields_reach more hwm _ 0 [] k.tok hslot2 k.tok_notArray
    have e1 : init (Fields.cons 0 k v more).encode
        = ⟨[], 0, .key, k.encode ++ (le16 L.equal ++ (v.encode ++ (more.encode ++ [])))⟩ := by
      simp [init, Fields.encode, ghostBytes, List.append_assoc]
    have e2 : (Fields.cons 0 k v more).tape 0
        = [] ++ [k.tok] ++ v.tape ([] ++ [k.tok]).length true ++ more.tape ([] ++ [k.tok] ++ v.tape ([] ++ [k.tok]).length true).length := by
      simp [Fields.tape, Nat.add_comm]
    rw [e1, e2]
    exact Reach.head h1 (Reach.head h2 (h3.trans h4))

/-- **faithfulness for the whole document model** of Spec/BinTapeDoc.lean: scalars of all ten
types as keys and values, objects and arrays nested to any depth, empty containers, rgb blocks in
value and in element position, ghost `{}` objects in front of any key (also directly after `{`,
where they go through the only_empties rewrite) except the very first key of the document. -/
theorem faithful_doc (doc : Fields) (hw : doc.wfDoc = true) : Faithful doc :=
  parse_of_reach (doc_reach doc hw)

/-- fragment 1 (kept as a corollary) -/
theorem faithful_nest1 (doc : Fields) (_hn : doc.nest1 = true) (hw : doc.wfDoc = true) : Faithful doc :=
  faithful_doc doc hw

end Jomini.BinTape
