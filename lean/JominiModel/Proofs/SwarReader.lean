import JominiModel.Model.TextReader
import Std.Tactic.BVDecide
/-
SWAR lemmas for the text reader (util.rs `leading_whitespace`, `contains_zero_byte`,
`count_chunk`, the quote finder of `next_opt`).  This is the only file of the text-reader slice
that uses `bv_decide` (each use adds a `…_native.bv_decide.ax_*` axiom: the LRAT certificate is
checked by compiled code).  Everything else is derived from the four `*_eq` lemmas by finite
case analysis on eight Booleans.
-/
namespace Jomini.TextReader.Swar
open Jomini Jomini.TextReader

/-- `0x80` if `c`, else 0 -/
def hb (c : Bool) : BitVec 8 := if c then 0x80#8 else 0#8

/-- the word whose byte `i` is `0x80` iff `cᵢ` -/
def mask8 (c0 c1 c2 c3 c4 c5 c6 c7 : Bool) : BitVec 64 :=
  (hb c7 ++ hb c6 ++ hb c5 ++ hb c4 ++ hb c3 ++ hb c2 ++ hb c1 ++ hb c0).cast (by decide)

/-- index of the first `true` (length of the list if there is none) -/
def firstTrue : List Bool → Nat
  | [] => 0
  | c :: cs => if c then 0 else firstTrue cs + 1

def ind (c : Bool) : BitVec 64 := if c then 1#64 else 0#64

/-! ### the four bit-blasted facts -/

theorem containsZeroByte_eq (b0 b1 b2 b3 b4 b5 b6 b7 : UInt8) :
    containsZeroByte (le64 b0 b1 b2 b3 b4 b5 b6 b7) =
      (b0 == 0 || b1 == 0 || b2 == 0 || b3 == 0 || b4 == 0 || b5 == 0 || b6 == 0 || b7 == 0) := by
  unfold containsZeroByte LO HI le64
  bv_decide (config := { timeout := 300 })

/-- `contains_zero_byte(x ^ repeat_byte(c))` : some byte equals `c` -/
theorem containsByte_eq (b0 b1 b2 b3 b4 b5 b6 b7 c : UInt8) :
    containsZeroByte (le64 b0 b1 b2 b3 b4 b5 b6 b7 ^^^ repeatByte c) =
      (b0 == c || b1 == c || b2 == c || b3 == c || b4 == c || b5 == c || b6 == c || b7 == c) := by
  unfold containsZeroByte repeatByte LO HI le64
  bv_decide (config := { timeout := 300 })

theorem notWsMask_eq (b0 b1 b2 b3 b4 b5 b6 b7 : UInt8) :
    notWsMask (le64 b0 b1 b2 b3 b4 b5 b6 b7) =
      mask8 (!(b0 == 9 || b0 == 10)) (!(b1 == 9 || b1 == 10)) (!(b2 == 9 || b2 == 10)) (!(b3 == 9 || b3 == 10))
            (!(b4 == 9 || b4 == 10)) (!(b5 == 9 || b5 == 10)) (!(b6 == 9 || b6 == 10)) (!(b7 == 9 || b7 == 10)) := by
  unfold notWsMask repeatByte LO le64 mask8 hb
  bv_decide (config := { timeout := 300 })

theorem quoteMask_eq (b0 b1 b2 b3 b4 b5 b6 b7 : UInt8) :
    quoteMask (le64 b0 b1 b2 b3 b4 b5 b6 b7) =
      mask8 (b0 == 34) (b1 == 34) (b2 == 34) (b3 == 34) (b4 == 34) (b5 == 34) (b6 == 34) (b7 == 34) := by
  unfold quoteMask repeatByte LO le64 mask8 hb
  bv_decide (config := { timeout := 300 })

theorem countChunk_eq (b0 b1 b2 b3 b4 b5 b6 b7 b : UInt8) :
    countChunk (le64 b0 b1 b2 b3 b4 b5 b6 b7) b =
      ind (b0 == b) + ind (b1 == b) + ind (b2 == b) + ind (b3 == b) + ind (b4 == b) + ind (b5 == b) +
        ind (b6 == b) + ind (b7 == b) := by
  unfold countChunk sumUsize bytewiseEqual repeatByte LO le64 ind
  bv_decide (config := { timeout := 300 })

/-! ### finite case analysis -/

theorem tz_mask8 (c0 c1 c2 c3 c4 c5 c6 c7 : Bool) :
    trailingZeros (mask8 c0 c1 c2 c3 c4 c5 c6 c7) >>> 3 = firstTrue [c0, c1, c2, c3, c4, c5, c6, c7] := by
  cases c0 <;> cases c1 <;> cases c2 <;> cases c3 <;> cases c4 <;> cases c5 <;> cases c6 <;> cases c7 <;> decide

theorem mask8_ne_zero (c0 c1 c2 c3 c4 c5 c6 c7 : Bool) :
    (mask8 c0 c1 c2 c3 c4 c5 c6 c7 != 0#64) = (c0 || c1 || c2 || c3 || c4 || c5 || c6 || c7) := by
  cases c0 <;> cases c1 <;> cases c2 <;> cases c3 <;> cases c4 <;> cases c5 <;> cases c6 <;> cases c7 <;> decide

theorem ind_sum_toNat (c0 c1 c2 c3 c4 c5 c6 c7 : Bool) :
    (ind c0 + ind c1 + ind c2 + ind c3 + ind c4 + ind c5 + ind c6 + ind c7).toNat =
      c0.toNat + c1.toNat + c2.toNat + c3.toNat + c4.toNat + c5.toNat + c6.toNat + c7.toNat := by
  cases c0 <;> cases c1 <;> cases c2 <;> cases c3 <;> cases c4 <;> cases c5 <;> cases c6 <;> cases c7 <;> decide

theorem firstTrue_map_not (p : UInt8 → Bool) (l : Bytes) :
    firstTrue (l.map (fun b => !p b)) = (l.takeWhile p).length := by
  induction l with
  | nil => rfl
  | cons x xs ih =>
    simp only [List.map, firstTrue, List.takeWhile]
    cases h : p x <;> simp [ih]

theorem firstTrue_map (p : UInt8 → Bool) (l : Bytes) :
    firstTrue (l.map p) = (l.takeWhile (fun b => !p b)).length := by
  induction l with
  | nil => rfl
  | cons x xs ih =>
    simp only [List.map, firstTrue, List.takeWhile]
    cases h : p x <;> simp [ih]

/-! ### byte-level specifications -/

/-- `\t` or `\n` -/
def isTabNl (b : UInt8) : Bool := b == 9 || b == 10

/-- `leading_whitespace` returns the number of leading bytes that are `\t` or `\n`. -/
theorem leadingWhitespace_spec (b0 b1 b2 b3 b4 b5 b6 b7 : UInt8) :
    leadingWhitespace (le64 b0 b1 b2 b3 b4 b5 b6 b7) =
      ([b0, b1, b2, b3, b4, b5, b6, b7].takeWhile isTabNl).length := by
  unfold leadingWhitespace
  rw [notWsMask_eq, tz_mask8, ← firstTrue_map_not]
  rfl

theorem leadingWhitespace_le (x : BitVec 64) : leadingWhitespace x ≤ 8 := by
  unfold leadingWhitespace trailingZeros
  have : ((List.range 64).find? (fun i => (notWsMask x).getLsbD i)).getD 64 ≤ 64 := by
    cases h : (List.range 64).find? (fun i => (notWsMask x).getLsbD i) with
    | none => simp
    | some i =>
      have := List.mem_of_find?_eq_some h
      simp at this
      simp; omega
  simp only [Nat.shiftRight_eq_div_pow]
  generalize ((List.range 64).find? (fun i => (notWsMask x).getLsbD i)).getD 64 = t at *
  omega

/-- the quote finder: `t2 ≠ 0` iff some byte is `"`, and `t2.trailing_zeros() >> 3` is the index of
the first such byte (8 if there is none). -/
theorem quoteFinder_spec (b0 b1 b2 b3 b4 b5 b6 b7 : UInt8) :
    (quoteMask (le64 b0 b1 b2 b3 b4 b5 b6 b7) != 0#64) = [b0, b1, b2, b3, b4, b5, b6, b7].any (· == 34) ∧
    trailingZeros (quoteMask (le64 b0 b1 b2 b3 b4 b5 b6 b7)) >>> 3 =
      ([b0, b1, b2, b3, b4, b5, b6, b7].takeWhile (fun b => !(b == 34))).length := by
  rw [quoteMask_eq, mask8_ne_zero, tz_mask8]
  constructor
  · simp [List.any, Bool.or_assoc]
  · rw [← firstTrue_map]; rfl

/-- `contains_zero_byte` is true iff one of the eight bytes is zero. -/
theorem containsZeroByte_spec (b0 b1 b2 b3 b4 b5 b6 b7 : UInt8) :
    containsZeroByte (le64 b0 b1 b2 b3 b4 b5 b6 b7) = [b0, b1, b2, b3, b4, b5, b6, b7].any (· == 0) := by
  rw [containsZeroByte_eq]; simp [List.any, Bool.or_assoc]

/-- the `has_quote` / `has_comment` / `has_close` / `has_open` tests of `skip_container` -/
theorem containsByte_spec (b0 b1 b2 b3 b4 b5 b6 b7 c : UInt8) :
    containsZeroByte (le64 b0 b1 b2 b3 b4 b5 b6 b7 ^^^ repeatByte c) =
      [b0, b1, b2, b3, b4, b5, b6, b7].any (· == c) := by
  rw [containsByte_eq]; simp [List.any, Bool.or_assoc]

/-- `count_chunk(w, b)` is the number of bytes of `w` equal to `b`. -/
theorem countChunk_spec (b0 b1 b2 b3 b4 b5 b6 b7 b : UInt8) :
    (countChunk (le64 b0 b1 b2 b3 b4 b5 b6 b7) b).toNat = [b0, b1, b2, b3, b4, b5, b6, b7].count b := by
  rw [countChunk_eq, ind_sum_toNat]
  simp only [List.count_cons, List.count_nil]
  generalize (b0 == b) = c0; generalize (b1 == b) = c1; generalize (b2 == b) = c2; generalize (b3 == b) = c3
  generalize (b4 == b) = c4; generalize (b5 == b) = c5; generalize (b6 == b) = c6; generalize (b7 == b) = c7
  cases c0 <;> cases c1 <;> cases c2 <;> cases c3 <;> cases c4 <;> cases c5 <;> cases c6 <;> cases c7 <;> rfl

/-- a successful 8-byte read is the little-endian word of the next eight bytes -/
theorem word8_some {w : Bytes} {x : BitVec 64} (h : word8 w = some x) :
    ∃ b0 b1 b2 b3 b4 b5 b6 b7 rest, w = b0 :: b1 :: b2 :: b3 :: b4 :: b5 :: b6 :: b7 :: rest ∧
      x = le64 b0 b1 b2 b3 b4 b5 b6 b7 := by
  match w, h with
  | b0 :: b1 :: b2 :: b3 :: b4 :: b5 :: b6 :: b7 :: rest, h =>
    simp only [word8, Option.some.injEq] at h
    exact ⟨b0, b1, b2, b3, b4, b5, b6, b7, rest, rfl, h.symm⟩

theorem word8_isSome_iff (w : Bytes) : (word8 w).isSome = decide (8 ≤ w.length) := by
  match w with
  | [] | [_] | [_, _] | [_, _, _] | [_, _, _, _] | [_, _, _, _, _] | [_, _, _, _, _, _] | [_, _, _, _, _, _, _] =>
    simp [word8]
  | _ :: _ :: _ :: _ :: _ :: _ :: _ :: _ :: rest => simp [word8]

end Jomini.TextReader.Swar
