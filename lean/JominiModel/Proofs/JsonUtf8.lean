import JominiModel.Model.Json
import JominiModel.Spec.Json
import JominiModel.Proofs.JsonRender
import JominiModel.Proofs.JsonDoc
/-
UTF-8 well-formedness of the conversion's output (C16_utf8): the decoders
(`lossy` = `from_utf8_lossy`, the Windows-1252 table) produce well-formed UTF-8, JSON
escaping and both renderers keep it well-formed, and every string `jsonOf` writes comes
from a decoder or is an ASCII constant.
-/
set_option linter.unusedSimpArgs false
set_option linter.unusedSectionVars false
namespace Jomini.Json
open Jomini Jomini.JsonSpec

theorem u8_ascii (b : UInt8) (h : b.toNat < 128) : u8Step .acc b = some .acc := by simp [u8Step, h]

theorem u8_lead2 (b : UInt8) (h : 0xC2 ≤ b.toNat ∧ b.toNat ≤ 0xDF) : u8Step .acc b = some .c1 := by
  grind [u8Step]

theorem u8_cont (c : UInt8) (h : isCont c = true) :
    u8Step .c1 c = some .acc ∧ u8Step .c2 c = some .c1 ∧ u8Step .c3 c = some .c2 := by
  simp only [isCont] at h
  simp [u8Step, isCont8, h]

theorem u8_lead3 (b c : UInt8) (hb : 0xE0 ≤ b.toNat ∧ b.toNat ≤ 0xEF) (h : utf8Second3 b c = true) :
    ∃ s, u8Step .acc b = some s ∧ u8Step s c = some .c1 := by
  simp only [utf8Second3, Bool.or_eq_true, Bool.and_eq_true, beq_iff_eq, decide_eq_true_eq] at h
  by_cases h0 : b.toNat = 0xE0
  · exact ⟨.e0, by grind [u8Step], by grind [u8Step]⟩
  · by_cases hd : b.toNat = 0xED
    · exact ⟨.ed, by grind [u8Step], by grind [u8Step]⟩
    · exact ⟨.c2, by grind [u8Step], by grind [u8Step, isCont8]⟩

theorem u8_lead4 (b c : UInt8) (hb : 0xF0 ≤ b.toNat ∧ b.toNat ≤ 0xF4) (h : utf8Second4 b c = true) :
    ∃ s, u8Step .acc b = some s ∧ u8Step s c = some .c2 := by
  simp only [utf8Second4, Bool.or_eq_true, Bool.and_eq_true, beq_iff_eq, decide_eq_true_eq] at h
  by_cases h0 : b.toNat = 0xF0
  · exact ⟨.f0, by grind [u8Step], by grind [u8Step]⟩
  · by_cases hd : b.toNat = 0xF4
    · exact ⟨.f4, by grind [u8Step], by grind [u8Step]⟩
    · exact ⟨.c3, by grind [u8Step], by grind [u8Step, isCont8]⟩

theorem u8Run_replacement (rest : Bytes) : u8Run (replacement ++ rest) .acc = u8Run rest .acc := by
  simp [replacement, u8Run, u8Step, isCont8]

theorem u8Run_replacement_nil : u8Run replacement .acc = some .acc := by
  simp [replacement, u8Run, u8Step, isCont8]

theorem u8Run_lossy (bs : Bytes) : u8Run (lossy bs) .acc = some .acc := by
  fun_induction lossy bs
  all_goals (try simp only [u8Run_replacement])
  all_goals (try assumption)
  all_goals (try exact u8Run_replacement_nil)
  case case2 b rest h ih => simp [u8Run, u8_ascii b h, ih]
  case case3 b _ h2 c rest hc ih => simp [u8Run, u8_lead2 b h2, (u8_cont c hc).1, ih]
  case case7 b _ _ h3 c hs d rest hd ih =>
    obtain ⟨s, h1, h2⟩ := u8_lead3 b c h3 (by simpa using hs)
    simp [u8Run, h1, h2, (u8_cont d hd).1, ih]
  case case13 b _ _ _ h4 c hs d hd e rest he ih =>
    obtain ⟨s, h1, h2⟩ := u8_lead4 b c h4 (by simpa using hs)
    simp [u8Run, h1, h2, (u8_cont d (by simpa using hd)).2.1, (u8_cont e he).1, ih]

theorem validUtf8_lossy (bs : Bytes) : validUtf8 (lossy bs) = true := by
  simp [validUtf8, u8Run_lossy]

/-! ### composition -/

/-- well-formed and complete (the DFA is back in its start state) -/
def V (bs : Bytes) : Prop := u8Run bs .acc = some .acc

theorem u8Run_append (a b : Bytes) (s : U8St) :
    u8Run (a ++ b) s = match u8Run a s with | none => none | some s' => u8Run b s' := by
  induction a generalizing s with
  | nil => rfl
  | cons x xs ih =>
    simp only [List.cons_append, u8Run]
    cases u8Step s x with
    | none => rfl
    | some s' => exact ih s'

theorem V_append (a b : Bytes) (ha : V a) (hb : V b) : V (a ++ b) := by
  unfold V at *; rw [u8Run_append, ha]; exact hb

theorem V_nil : V [] := rfl

theorem V_ascii (a : Bytes) (h : ∀ x ∈ a, x.toNat < 128) : V a := by
  induction a with
  | nil => rfl
  | cons x xs ih =>
    unfold V at *
    simp [u8Run, u8_ascii x (h x (by simp)), ih (fun y hy => h y (by simp [hy]))]

theorem V_lossy (bs : Bytes) : V (lossy bs) := u8Run_lossy bs

theorem V_iff (bs : Bytes) : validUtf8 bs = true ↔ V bs := by simp [validUtf8, V]

/-! ### the decoders produce well-formed UTF-8 -/

theorem w1252_seq : ∀ n, n < 256 → u8Run (utf8Enc (w1252Cp (UInt8.ofNat n))) .acc = some .acc := by
  decide +kernel

theorem V_w1252 (c : UInt8) : V (utf8Enc (w1252Cp c)) := by
  have := w1252_seq c.toNat c.toNat_lt
  simpa [V] using this

theorem V_flatMap (f : UInt8 → Bytes) (hf : ∀ c, V (f c)) (l : Bytes) : V (l.flatMap f) := by
  induction l with
  | nil => exact V_nil
  | cons x xs ih => simp only [List.flatMap_cons]; exact V_append _ _ (hf x) ih

theorem V_decodeW1252 (d : Bytes) : V (decodeW1252 d) := by
  unfold decodeW1252
  simp only []
  split
  · exact V_flatMap _ V_w1252 _
  · rename_i h
    apply V_ascii
    intro x hx
    simp only [List.any_eq_true, Bool.or_eq_true, decide_eq_true_eq, beq_iff_eq, not_exists, not_and, not_or] at h
    have := (h x hx).1
    omega

theorem V_decodeUtf8 (d : Bytes) : V (decodeUtf8 d) := by
  unfold decodeUtf8
  simp only []
  split
  · exact V_lossy _
  · split
    · rename_i h
      apply V_ascii
      intro x hx
      simp only [List.all_eq_true, decide_eq_true_eq] at h
      exact h x hx
    · exact V_lossy _

theorem V_decode (enc : Enc) (d : Bytes) : V (decode enc d) := by
  cases enc
  · exact V_decodeW1252 d
  · exact V_decodeUtf8 d

/-! ### escaping and rendering keep UTF-8 well-formed -/

theorem u8Step_ascii_any (st : U8St) (x : UInt8) (h : x.toNat < 128) :
    u8Step st x = if st = .acc then some .acc else none := by
  cases st <;> simp [u8Step, isCont8, h] <;> omega

theorem u8Run_ascii_any (a : Bytes) (h : ∀ x ∈ a, x.toNat < 128) (hne : a ≠ []) (st : U8St) (rest : Bytes) :
    u8Run (a ++ rest) st = if st = .acc then u8Run rest .acc else none := by
  induction a generalizing st with
  | nil => exact absurd rfl hne
  | cons x xs ih =>
    have hx := h x (by simp)
    simp only [List.cons_append, u8Run, u8Step_ascii_any st x hx]
    by_cases hst : st = .acc
    · subst hst
      simp only [if_true]
      cases xs with
      | nil => rfl
      | cons y ys =>
        have := ih (fun z hz => h z (by simp [hz])) (by simp) .acc
        simpa using this
    · simp [hst]

theorem hexLower_ascii : ∀ n, n < 16 → (hexDigitLower n).toNat < 128 := by decide

theorem escapeByte_ascii (b : UInt8) (h : b.toNat < 128) : (∀ x ∈ escapeByte b, x.toNat < 128) ∧ escapeByte b ≠ [] := by
  unfold escapeByte
  split
  · simp
  split
  · simp
  split
  · simp
  split
  · simp
  split
  · simp
  split
  · simp
  split
  · simp
  split
  · rename_i h8
    have f1 := hexLower_ascii (b.toNat / 16) (by omega)
    have f2 := hexLower_ascii (b.toNat % 16) (by omega)
    simp [f1, f2]
  · simp [h]

theorem escapeByte_high (b : UInt8) (h : ¬ b.toNat < 128) : escapeByte b = [b] := by
  unfold escapeByte
  have h1 : ¬ b.toNat = 34 := by omega
  have h2 : ¬ b.toNat = 92 := by omega
  have h3 : ¬ b.toNat = 8 := by omega
  have h4 : ¬ b.toNat = 9 := by omega
  have h5 : ¬ b.toNat = 10 := by omega
  have h6 : ¬ b.toNat = 12 := by omega
  have h7 : ¬ b.toNat = 13 := by omega
  have h8 : ¬ b.toNat < 32 := by omega
  simp [h1, h2, h3, h4, h5, h6, h7, h8]

theorem u8Run_escaped (s : Bytes) : ∀ (st : U8St) (rest : Bytes),
    u8Run (s.flatMap escapeByte ++ rest) st = u8Run (s ++ rest) st := by
  induction s with
  | nil => intro st rest; rfl
  | cons b bs ih =>
    intro st rest
    simp only [List.flatMap_cons, List.append_assoc, List.cons_append]
    by_cases hb : b.toNat < 128
    · obtain ⟨ha, hne⟩ := escapeByte_ascii b hb
      rw [u8Run_ascii_any _ ha hne]
      simp only [u8Run, u8Step_ascii_any st b hb]
      by_cases hst : st = .acc
      · simp [hst, ih]
      · simp [hst]
    · rw [escapeByte_high b hb]
      simp only [List.cons_append, List.nil_append, u8Run]
      cases u8Step st b with
      | none => rfl
      | some s' => exact ih s' rest

theorem V_renderStr (s : Bytes) (h : V s) : V (renderStr s) := by
  unfold V renderStr at *
  have := u8Run_escaped s .acc [34]
  simp only [List.cons_append, List.nil_append, List.append_assoc, u8Run, u8_ascii 34 (by decide)]
  rw [this, u8Run_append, h]
  rfl

theorem V_number (n : Bytes) (h : isNumber n = true) : V n := by
  apply V_ascii
  unfold isNumber at h
  split at h
  · rename_i st hs
    have : ∀ (bs : Bytes) (s s' : NumSt), numRun bs s = some s' → ∀ x ∈ bs, x.toNat < 128 := by
      intro bs
      induction bs with
      | nil => intro _ _ _ x hx; simp at hx
      | cons c cs ih =>
        intro s s' hrun x hx
        simp only [numRun] at hrun
        split at hrun
        · simp at hrun
        · rename_i s2 hstep
          simp only [List.mem_cons] at hx
          rcases hx with hx | hx
          · have := numStep_char s s2 c hstep; rw [hx]; omega
          · exact ih s2 s' hrun x hx
    exact this n _ st hs
  · simp at h

/-! ### a JSON tree whose strings are well-formed renders to well-formed UTF-8 -/

mutual
/-- every string and key of the tree is well-formed UTF-8 -/
def JVal.strsOk : JVal → Prop
  | .str s => V s
  | .arr xs => JVal.allOk xs
  | .obj kvs => JVal.kvsOk kvs
  | _ => True
def JVal.allOk : List JVal → Prop
  | [] => True
  | x :: xs => x.strsOk ∧ JVal.allOk xs
def JVal.kvsOk : List (Bytes × JVal) → Prop
  | [] => True
  | (k, v) :: r => V k ∧ v.strsOk ∧ JVal.kvsOk r
end

theorem V_kNull : V kNull := V_ascii _ (by decide)
theorem V_kTrue : V kTrue := V_ascii _ (by decide)
theorem V_kFalse : V kFalse := V_ascii _ (by decide)
theorem V_emptyArr : V [91, 93] := V_ascii _ (by decide)
theorem V_emptyObj : V [123, 125] := V_ascii _ (by decide)

theorem V_byte (b : UInt8) (h : b.toNat < 128) : V [b] := V_ascii [b] (by simp [h])

theorem V_indent (n : Nat) : V (indentBytes n) := by
  apply V_ascii
  intro x hx
  simp only [indentBytes, List.mem_replicate] at hx
  rw [hx.2]; decide

section
variable (ff : Nat → Bytes) (hff : ∀ b, isNumber (ff b) = true)
include hff

mutual
theorem V_compact : (v : JVal) → v.strsOk → V (renderCompact ff v)
  | .null, _ => by simp only [renderCompact]; exact V_kNull
  | .bool true, _ => by simp only [renderCompact]; exact V_kTrue
  | .bool false, _ => by simp only [renderCompact]; exact V_kFalse
  | .int i, _ => V_number _ (isNumber_intDigits i)
  | .float b, _ => V_number _ (hff b)
  | .str s, h => V_renderStr s h
  | .arr xs, h => by
    simp only [renderCompact]
    exact V_append _ _ (V_append _ _ (V_byte 91 (by decide)) (V_compactArr xs h)) (V_byte 93 (by decide))
  | .obj kvs, h => by
    simp only [renderCompact]
    exact V_append _ _ (V_append _ _ (V_byte 123 (by decide)) (V_compactObj kvs h)) (V_byte 125 (by decide))
theorem V_compactArr : (xs : List JVal) → JVal.allOk xs → V (renderCompactArr ff xs)
  | [], _ => V_nil
  | [x], h => by simp only [renderCompactArr]; exact V_compact x h.1
  | x :: y :: r, h => by
    simp only [renderCompactArr]
    exact V_append _ _ (V_append _ _ (V_compact x h.1) (V_byte 44 (by decide))) (V_compactArr (y :: r) h.2)
theorem V_compactObj : (kvs : List (Bytes × JVal)) → JVal.kvsOk kvs → V (renderCompactObj ff kvs)
  | [], _ => V_nil
  | [(k, v)], h => by
    simp only [renderCompactObj]
    exact V_append _ _ (V_append _ _ (V_renderStr k h.1) (V_byte 58 (by decide))) (V_compact v h.2.1)
  | (k, v) :: kv :: r, h => by
    simp only [renderCompactObj]
    exact V_append _ _ (V_append _ _ (V_append _ _ (V_append _ _ (V_renderStr k h.1) (V_byte 58 (by decide)))
      (V_compact v h.2.1)) (V_byte 44 (by decide))) (V_compactObj (kv :: r) h.2.2)
end

mutual
theorem V_prettyAt : (v : JVal) → (ind : Nat) → v.strsOk → V (renderPrettyAt ff v ind)
  | .null, _, _ => by simp only [renderPrettyAt]; exact V_kNull
  | .bool true, _, _ => by simp only [renderPrettyAt]; exact V_kTrue
  | .bool false, _, _ => by simp only [renderPrettyAt]; exact V_kFalse
  | .int i, _, _ => V_number _ (isNumber_intDigits i)
  | .float b, _, _ => V_number _ (hff b)
  | .str s, _, h => V_renderStr s h
  | .arr [], _, _ => by simp only [renderPrettyAt]; exact V_emptyArr
  | .arr (x :: xs), ind, h => by
    simp only [renderPrettyAt]
    exact V_append _ _ (V_append _ _ (V_append _ _ (V_append _ _ (V_byte 91 (by decide)) (V_prettyArr (x :: xs) (ind + 1) h))
      (V_byte 10 (by decide))) (V_indent ind)) (V_byte 93 (by decide))
  | .obj [], _, _ => by simp only [renderPrettyAt]; exact V_emptyObj
  | .obj (kv :: kvs), ind, h => by
    simp only [renderPrettyAt]
    exact V_append _ _ (V_append _ _ (V_append _ _ (V_append _ _ (V_byte 123 (by decide)) (V_prettyObj (kv :: kvs) (ind + 1) h))
      (V_byte 10 (by decide))) (V_indent ind)) (V_byte 125 (by decide))
theorem V_prettyArr : (xs : List JVal) → (ind : Nat) → JVal.allOk xs → V (renderPrettyArr ff xs ind)
  | [], _, _ => V_nil
  | [x], ind, h => by
    simp only [renderPrettyArr]
    exact V_append _ _ (V_append _ _ (V_byte 10 (by decide)) (V_indent ind)) (V_prettyAt x ind h.1)
  | x :: y :: r, ind, h => by
    simp only [renderPrettyArr]
    exact V_append _ _ (V_append _ _ (V_append _ _ (V_append _ _ (V_byte 10 (by decide)) (V_indent ind)) (V_prettyAt x ind h.1))
      (V_byte 44 (by decide))) (V_prettyArr (y :: r) ind h.2)
theorem V_prettyObj : (kvs : List (Bytes × JVal)) → (ind : Nat) → JVal.kvsOk kvs → V (renderPrettyObj ff kvs ind)
  | [], _, _ => V_nil
  | [(k, v)], ind, h => by
    simp only [renderPrettyObj]
    exact V_append _ _ (V_append _ _ (V_append _ _ (V_append _ _ (V_byte 10 (by decide)) (V_indent ind)) (V_renderStr k h.1))
      (V_ascii [58, 32] (by decide))) (V_prettyAt v ind h.2.1)
  | (k, v) :: kv :: r, ind, h => by
    simp only [renderPrettyObj]
    exact V_append _ _ (V_append _ _ (V_append _ _ (V_append _ _ (V_append _ _ (V_append _ _ (V_byte 10 (by decide)) (V_indent ind))
      (V_renderStr k h.1)) (V_ascii [58, 32] (by decide))) (V_prettyAt v ind h.2.1)) (V_byte 44 (by decide)))
      (V_prettyObj (kv :: r) ind h.2.2)
end

theorem V_render (o : Opts) (v : JVal) (h : v.strsOk) : V (render ff o v) := by
  unfold render renderPretty
  split
  · exact V_prettyAt ff hff v 0 h
  · exact V_compact ff hff v h
end

/-! ### every string the conversion writes is well-formed UTF-8 -/

theorem allOk_of_forall (l : List JVal) (h : ∀ v ∈ l, v.strsOk) : JVal.allOk l := by
  induction l with
  | nil => trivial
  | cons x xs ih => exact ⟨h x (by simp), ih (fun v hv => h v (by simp [hv]))⟩

theorem kvsOk_of_forall (l : List (Bytes × JVal)) (h : ∀ kv ∈ l, V kv.1 ∧ kv.2.strsOk) : JVal.kvsOk l := by
  induction l with
  | nil => trivial
  | cons x xs ih =>
    obtain ⟨k, v⟩ := x
    exact ⟨(h (k, v) (by simp)).1, (h (k, v) (by simp)).2, ih (fun kv hkv => h kv (by simp [hkv]))⟩

theorem kvsOk_append (a b : List (Bytes × JVal)) (ha : JVal.kvsOk a) (hb : JVal.kvsOk b) : JVal.kvsOk (a ++ b) := by
  induction a with
  | nil => exact hb
  | cons x xs ih => obtain ⟨k, v⟩ := x; exact ⟨ha.1, ha.2.1, ih ha.2.2⟩

theorem allOk_append (a b : List JVal) (ha : JVal.allOk a) (hb : JVal.allOk b) : JVal.allOk (a ++ b) := by
  induction a with
  | nil => exact hb
  | cons x xs ih => exact ⟨ha.1, ih ha.2⟩

theorem V_opName (op : Op) : V op.name := by cases op <;> exact V_ascii _ (by decide)
theorem V_opSymbol (op : Op) : V op.symbol := by cases op <;> exact V_ascii _ (by decide)
theorem V_kInvalidKey : V kInvalidKey := V_ascii _ (by decide)
theorem V_kRemainder : V kRemainder := V_ascii _ (by decide)
theorem V_kType : V kType := V_ascii _ (by decide)
theorem V_kVal : V kVal := V_ascii _ (by decide)
theorem V_kObj : V kObj := V_ascii _ (by decide)
theorem V_kArray : V kArray := V_ascii _ (by decide)

theorem wrapOp_ok (op : Option Op) (v : JVal) (h : v.strsOk) : (wrapOp op v).strsOk := by
  cases op with
  | none => exact h
  | some o => exact ⟨V_opName o, h, trivial⟩

theorem keyJson_ok (enc : Enc) (k : TTok) : V (keyJson enc k) := by
  cases k <;> simp only [keyJson] <;>
    first
    | exact V_decode enc _
    | exact V_nil
    | exact V_append _ _ (V_append _ _ (V_ascii _ (by decide)) (V_decode enc _)) (V_byte 93 (by decide))

theorem tagKey_ok (enc : Enc) (x : Item) : V (Item.tag enc x).key := by
  cases x with
  | val n => cases n <;> simp only [Item.tag, ItemTag.key] <;> first | exact V_decode enc _ | exact V_kInvalidKey
  | hdr s b => exact V_decode enc _
  | paramTok u s => exact V_decode enc _
  | opTok o => exact V_opSymbol o
  | mixedTok => exact V_kInvalidKey

theorem narrowScalar_ok (o : Opts) (enc : Enc) (q : Bool) (s : Bytes) : (narrowScalar o enc q s).strsOk := by
  have hs : (serializeScalar enc s).strsOk := by
    unfold serializeScalar
    split
    · trivial
    · split
      · trivial
      · trivial
      · split <;> trivial
      · exact V_decode enc s
  unfold narrowScalar
  split <;> split <;> first | exact hs | exact V_decode enc s

theorem windowZ_ok (zs : List (ItemTag × JVal)) : ∀ (skip : Nat),
    (∀ p ∈ zs, V p.1.key ∧ p.2.strsOk) → JVal.allOk (windowZ zs skip) := by
  induction zs with
  | nil => intro skip _; cases skip <;> trivial
  | cons p rest ih =>
    intro skip h
    obtain ⟨tag, jv⟩ := p
    have hrest : ∀ q ∈ rest, V q.1.key ∧ q.2.strsOk := fun q hq => h q (by simp [hq])
    have hp := h (tag, jv) (by simp)
    cases skip with
    | succ skip => simp only [windowZ]; exact ih skip hrest
    | zero =>
      cases tag with
      | mixedT => simp only [windowZ]; exact ih 0 hrest
      | opT o =>
        simp only [windowZ]
        split
        · rename_i op sjv ftag vjv _
          refine ⟨⟨hp.1, wrapOp_ok _ _ (hrest (ftag, vjv) (by simp)).2, trivial⟩, ih 2 hrest⟩
        · exact ⟨hp.2, ih 0 hrest⟩
      | keyT k =>
        simp only [windowZ]
        split
        · rename_i op sjv ftag vjv _
          refine ⟨⟨hp.1, wrapOp_ok _ _ (hrest (ftag, vjv) (by simp)).2, trivial⟩, ih 2 hrest⟩
        · exact ⟨hp.2, ih 0 hrest⟩

theorem arrayShape_ok (o : Opts) (xs : List JVal) (h : JVal.allOk xs) : (arrayShape o xs).strsOk := by
  unfold arrayShape
  split
  · exact h
  · exact ⟨V_kType, V_kArray, V_kVal, h, trivial⟩

theorem objectShape_ok (o : Opts) (es : List (Bytes × JVal)) (r : Option JVal)
    (hes : JVal.kvsOk es) (hr : ∀ x, r = some x → x.strsOk) : (objectShape o es r).strsOk := by
  have hpairs : JVal.allOk (es.map (fun kv => JVal.arr [.str kv.1, kv.2])) := by
    induction es with
    | nil => trivial
    | cons x xs ih => obtain ⟨k, v⟩ := x; exact ⟨⟨hes.1, hes.2.1, trivial⟩, ih hes.2.2⟩
  unfold objectShape
  cases o.dup <;> cases r <;> simp only []
  · exact hes
  · exact kvsOk_append _ _ hes ⟨V_kRemainder, hr _ rfl, trivial⟩
  · exact hes
  · exact kvsOk_append _ _ hes ⟨V_kRemainder, hr _ rfl, trivial⟩
  · exact ⟨V_kType, V_kObj, V_kVal, hpairs, trivial⟩
  · exact ⟨V_kType, V_kObj, V_kVal, allOk_append _ _ hpairs ⟨hr _ rfl, trivial⟩, trivial⟩

theorem entriesByMode_ok (o : Opts) (enc : Enc) (ents : List (TTok × Option Op × JVal))
    (h : ∀ x ∈ ents, x.2.2.strsOk) : JVal.kvsOk (entriesByMode o enc ents) := by
  unfold entriesByMode
  cases o.dup <;> simp only []
  · apply kvsOk_of_forall
    intro kv hkv
    simp only [List.mem_map] at hkv
    obtain ⟨g, hg, rfl⟩ := hkv
    have hmem := stableGroupBy_mem (fun x : TTok × Option Op × JVal => keyBytes x.1) _ ents (Nat.le_refl _) g hg
    refine ⟨keyJson_ok enc _, ?_⟩
    cases hg2 : g.2 with
    | nil => exact wrapOp_ok _ _ (h _ (hmem g.1 (by simp)))
    | cons m more =>
      simp only []
      apply allOk_of_forall
      intro v hv
      simp only [List.mem_map] at hv
      obtain ⟨x, hx, rfl⟩ := hv
      exact wrapOp_ok _ _ (h x (hmem x (by rw [hg2]; exact hx)))
  · apply kvsOk_of_forall
    intro kv hkv
    simp only [List.mem_map] at hkv
    obtain ⟨x, hx, rfl⟩ := hkv
    exact ⟨keyJson_ok enc _, wrapOp_ok _ _ (h x hx)⟩
  · apply kvsOk_of_forall
    intro kv hkv
    simp only [List.mem_map] at hkv
    obtain ⟨x, hx, rfl⟩ := hkv
    exact ⟨keyJson_ok enc _, wrapOp_ok _ _ (h x hx)⟩

theorem remainderOf_ok (xs : List JVal) (items : List Item) (h : JVal.allOk xs) :
    ∀ x, remainderOf xs items = some x → x.strsOk := by
  intro x hx
  cases items with
  | nil => simp [remainderOf] at hx
  | cons i is => simp only [remainderOf, Option.some.injEq] at hx; rw [← hx]; exact h

section
variable (o : Opts) (enc : Enc)

mutual
theorem jsonOf_ok : (n : Node) → (jsonOf o enc n).strsOk
  | .scalar q s => by simp only [jsonOf]; exact narrowScalar_ok o enc q s
  | .arr _ items => by
    simp only [jsonOf]
    exact arrayShape_ok o _ (windowZ_ok _ 0 (jsonItems_ok items))
  | .obj _ _ fields rest => by
    simp only [jsonOf]
    exact objectShape_ok o _ _ (entriesByMode_ok o enc _ (jsonFields_ok fields))
      (remainderOf_ok _ rest (windowZ_ok _ 0 (jsonItems_ok rest)))
  | .header s body => by
    simp only [jsonOf]
    exact ⟨V_decode enc s, jsonOf_ok body, trivial⟩
theorem jsonItems_ok : (items : List Item) → ∀ p ∈ jsonItems o enc items, V p.1.key ∧ p.2.strsOk
  | [] => by intro p hp; simp [jsonItems] at hp
  | x :: xs => by
    intro p hp
    simp only [jsonItems, List.mem_append] at hp
    rcases hp with hp | hp
    · exact jsonItem_ok x p hp
    · exact jsonItems_ok xs p hp
theorem jsonItem_ok : (x : Item) → ∀ p ∈ jsonItem o enc x, V p.1.key ∧ p.2.strsOk
  | .val n => by
    intro p hp
    simp only [jsonItem, List.mem_singleton] at hp
    rw [hp]; exact ⟨tagKey_ok enc (.val n), jsonOf_ok n⟩
  | .hdr s body => by
    intro p hp
    simp only [jsonItem, List.mem_cons, List.not_mem_nil, or_false] at hp
    rcases hp with hp | hp
    · rw [hp]; exact ⟨V_decode enc s, V_decode enc s, jsonOf_ok body, trivial⟩
    · rw [hp]; exact ⟨V_kInvalidKey, jsonOf_ok body⟩
  | .paramTok _ s => by
    intro p hp
    simp only [jsonItem, List.mem_singleton] at hp
    rw [hp]; exact ⟨V_decode enc s, trivial⟩
  | .opTok op => by
    intro p hp
    simp only [jsonItem, List.mem_singleton] at hp
    rw [hp]; exact ⟨V_opSymbol op, trivial⟩
  | .mixedTok => by
    intro p hp
    simp only [jsonItem, List.mem_singleton] at hp
    rw [hp]; exact ⟨V_kInvalidKey, trivial⟩
theorem jsonFields_ok : (fields : List Field) → ∀ x ∈ jsonFields o enc fields, x.2.2.strsOk
  | [] => by intro x hx; simp [jsonFields] at hx
  | (.mk k op v) :: fs => by
    intro x hx
    simp only [jsonFields, jsonField, List.mem_cons] at hx
    rcases hx with hx | hx
    · rw [hx]; exact jsonOf_ok v
    · exact jsonFields_ok fs x hx
end

theorem jsonOfDoc_ok (d : Doc) : (jsonOfDoc o enc d).strsOk := by
  unfold jsonOfDoc
  exact objectShape_ok o _ _ (entriesByMode_ok o enc _ (jsonFields_ok o enc d.fields))
    (remainderOf_ok _ d.rest (windowZ_ok _ 0 (jsonItems_ok o enc d.rest)))
end

end Jomini.Json
