import JominiModel.Spec.BinTapeLex
import JominiModel.Proofs.BinTapePayload
/-
C03 "the tape mirrors the lexeme stream", for EVERY accepted byte string, no document type:
flattening the tape (end pointers dropped, `MixedContainer` markers dropped, an `Rgb` token
expanded to its block) gives a sublist — same order, same payloads — of the lexeme list of the
input.  What the tape leaves out: the `=` after a key, ghost `{}` objects, and the tokens the
only_empties rewrite discards (tape.rs:600-616).
-/
namespace Jomini.BinTape
open Jomini


theorem Lexes.uncons {d r : Bytes} {x : Lx} {L : List Lx} (h : Lexes d L) (hx : lexOne d = some (x, r)) :
    ∃ L', L = x :: L' ∧ Lexes r L' := by
  cases h with
  | done h0 => rw [h0] at hx; cases hx
  | cons h1 h2 => rw [h1] at hx; cases hx; exact ⟨_, rfl, h2⟩

@[simp] theorem flat_nil : flat [] = [] := rfl
@[simp] theorem flat_append (a b : Tape) : flat (a ++ b) = flat a ++ flat b := by simp [flat]
@[simp] theorem flat_cons (x : BTok) (a : Tape) : flat (x :: a) = flatten x ++ flat a := by simp [flat]

theorem flat_set_same {T : Tape} {i : Nat} {x y : BTok} (hi : T[i]? = some y) (hf : flatten x = flatten y) :
    flat (T.set i x) = flat T := by
  induction T generalizing i with
  | nil => simp at hi
  | cons t rest ih =>
    cases i with
    | zero => simp at hi; subst hi; simp [hf]
    | succ i => simp at hi; simp [ih hi]

theorem flat_take_sublist (T : Tape) (n : Nat) : (flat (T.take n)).Sublist (flat T) := by
  have : T = T.take n ++ T.drop n := (List.take_append_drop n T).symm
  conv => rhs; rw [this]
  rw [flat_append]
  exact List.sublist_append_left _ _

/-- the mirror relation carried through the loop -/
def StepMirror (st st' : St) : Prop :=
  ∀ L, Lexes st.data L → ∃ L1 L2, L = L1 ++ L2 ∧ Lexes st'.data L2 ∧ (flat st'.tape).Sublist (flat st.tape ++ L1)

/-! ### `lexOne` agrees with what the parser reads -/

theorem lexOne_open {dp d : Bytes} (h : readId dp = some (L.open_, d)) : lexOne dp = some (.open_, d) := by
  simp [lexOne, h]
theorem lexOne_close {dp d : Bytes} (h : readId dp = some (L.close, d)) : lexOne dp = some (.close, d) := by
  simp [lexOne, h, L.close, L.open_]
theorem lexOne_equal {dp d : Bytes} (h : readId dp = some (L.equal, d)) : lexOne dp = some (.equal, d) := by
  simp [lexOne, h, L.close, L.open_, L.equal]

theorem lexOne_fixed_u32 {dp d hd r : Bytes} (h : readId dp = some (L.u32, d)) (hs : split? 4 d = some (hd, r)) :
    lexOne dp = some (.tok (.u32 (leNat hd)), r) := by
  simp [lexOne, h, hs, L.close, L.open_, L.equal, L.u32]
theorem lexOne_fixed_u64 {dp d hd r : Bytes} (h : readId dp = some (L.u64, d)) (hs : split? 8 d = some (hd, r)) :
    lexOne dp = some (.tok (.u64 (leNat hd)), r) := by
  simp [lexOne, h, hs, L.close, L.open_, L.equal, L.u32, L.u64]
theorem lexOne_fixed_i32 {dp d hd r : Bytes} (h : readId dp = some (L.i32, d)) (hs : split? 4 d = some (hd, r)) :
    lexOne dp = some (.tok (.i32 (toSigned 32 (leNat hd))), r) := by
  simp [lexOne, h, hs, L.close, L.open_, L.equal, L.u32, L.u64, L.i32]
theorem lexOne_fixed_i64 {dp d hd r : Bytes} (h : readId dp = some (L.i64, d)) (hs : split? 8 d = some (hd, r)) :
    lexOne dp = some (.tok (.i64 (toSigned 64 (leNat hd))), r) := by
  simp [lexOne, h, hs, L.close, L.open_, L.equal, L.u32, L.u64, L.i32, L.i64]
theorem lexOne_fixed_f32 {dp d hd r : Bytes} (h : readId dp = some (L.f32, d)) (hs : split? 4 d = some (hd, r)) :
    lexOne dp = some (.tok (.f32 hd), r) := by
  simp [lexOne, h, hs, L.close, L.open_, L.equal, L.u32, L.u64, L.i32, L.i64, L.f32]
theorem lexOne_fixed_f64 {dp d hd r : Bytes} (h : readId dp = some (L.f64, d)) (hs : split? 8 d = some (hd, r)) :
    lexOne dp = some (.tok (.f64 hd), r) := by
  simp [lexOne, h, hs, L.close, L.open_, L.equal, L.u32, L.u64, L.i32, L.i64, L.f32, L.f64]
theorem lexOne_bool {dp d r : Bytes} {b : Bool} (h : readId dp = some (L.bool, d)) (hs : readBool d = some (b, r)) :
    lexOne dp = some (.tok (.bool b), r) := by
  simp [lexOne, h, hs, L.close, L.open_, L.equal, L.u32, L.u64, L.i32, L.i64, L.f32, L.f64, L.bool]
theorem lexOne_quoted {dp d s r : Bytes} (h : readId dp = some (L.quoted, d)) (hs : readString d = some (s, r)) :
    lexOne dp = some (.tok (.quoted s), r) := by
  simp [lexOne, h, hs, L.close, L.open_, L.equal, L.u32, L.u64, L.i32, L.i64, L.f32, L.f64, L.bool, L.quoted]
theorem lexOne_unquoted {dp d s r : Bytes} (h : readId dp = some (L.unquoted, d)) (hs : readString d = some (s, r)) :
    lexOne dp = some (.tok (.unquoted s), r) := by
  simp [lexOne, h, hs, L.close, L.open_, L.equal, L.u32, L.u64, L.i32, L.i64, L.f32, L.f64, L.bool, L.quoted, L.unquoted]
theorem lexOne_id {dp d : Bytes} {n : Nat} (h : readId dp = some (n, d))
    (hn : n ≠ L.open_ ∧ n ≠ L.close ∧ n ≠ L.equal ∧ n ≠ L.u32 ∧ n ≠ L.u64 ∧ n ≠ L.i32 ∧ n ≠ L.i64 ∧ n ≠ L.f32 ∧
      n ≠ L.f64 ∧ n ≠ L.bool ∧ n ≠ L.quoted ∧ n ≠ L.unquoted) :
    lexOne dp = some (.tok (.token n), d) := by
  obtain ⟨a1, a2, a3, a4, a5, a6, a7, a8, a9, a10, a11, a12⟩ := hn
  simp [lexOne, h, a1, a2, a3, a4, a5, a6, a7, a8, a9, a10, a11, a12]

theorem readRgb_lexes {d rest : Bytes} {t : BTok} (h : readRgb d = .ok (t, rest)) :
    ∀ L, Lexes d L → ∃ L2, L = (flatten t).tail ++ L2 ∧ Lexes rest L2 := by
  intro L hL
  unfold readRgb at h
  cases h1 : readId d with
  | none => simp [h1] at h
  | some p1 =>
  obtain ⟨start, d1⟩ := p1; simp only [h1] at h
  cases h2 : readId d1 with
  | none => simp [h2] at h
  | some p2 =>
  obtain ⟨rtok, d2⟩ := p2; simp only [h2] at h
  cases h3 : split? 4 d2 with
  | none => simp [h3] at h
  | some p3 =>
  obtain ⟨rr, d3⟩ := p3; simp only [h3] at h
  cases h4 : readId d3 with
  | none => simp [h4] at h
  | some p4 =>
  obtain ⟨gtok, d4⟩ := p4; simp only [h4] at h
  cases h5 : split? 4 d4 with
  | none => simp [h5] at h
  | some p5 =>
  obtain ⟨g, d5⟩ := p5; simp only [h5] at h
  cases h6 : readId d5 with
  | none => simp [h6] at h
  | some p6 =>
  obtain ⟨btok, d6⟩ := p6; simp only [h6] at h
  cases h7 : split? 4 d6 with
  | none => simp [h7] at h
  | some p7 =>
  obtain ⟨b, d7⟩ := p7; simp only [h7] at h
  cases h8 : readId d7 with
  | none => simp [h8] at h
  | some p8 =>
  obtain ⟨next, d8⟩ := p8; simp only [h8] at h
  split at h
  · rename_i hc
    obtain ⟨rfl, rfl, rfl, rfl, rfl⟩ := hc
    simp at h; obtain ⟨rfl, rfl⟩ := h
    obtain ⟨L1, rfl, hL1⟩ := hL.uncons (lexOne_open h1)
    obtain ⟨L2, rfl, hL2⟩ := hL1.uncons (lexOne_fixed_u32 h2 h3)
    obtain ⟨L3, rfl, hL3⟩ := hL2.uncons (lexOne_fixed_u32 h4 h5)
    obtain ⟨L4, rfl, hL4⟩ := hL3.uncons (lexOne_fixed_u32 h6 h7)
    obtain ⟨L5, rfl, hL5⟩ := hL4.uncons (lexOne_close h8)
    exact ⟨L5, by simp [flatten], hL5⟩
  · rename_i hc
    split at h
    · rename_i hc2
      obtain ⟨rfl, rfl, rfl, rfl, rfl⟩ := hc2
      cases h9 : split? 4 d8 with
      | none => simp [h9] at h
      | some p9 =>
      obtain ⟨a, d9⟩ := p9; simp only [h9] at h
      cases h10 : readId d9 with
      | none => simp [h10] at h
      | some p10 =>
      obtain ⟨en, d10⟩ := p10; simp only [h10] at h
      split at h
      · rename_i hc3; subst hc3
        simp at h; obtain ⟨rfl, rfl⟩ := h
        obtain ⟨L1, rfl, hL1⟩ := hL.uncons (lexOne_open h1)
        obtain ⟨L2, rfl, hL2⟩ := hL1.uncons (lexOne_fixed_u32 h2 h3)
        obtain ⟨L3, rfl, hL3⟩ := hL2.uncons (lexOne_fixed_u32 h4 h5)
        obtain ⟨L4, rfl, hL4⟩ := hL3.uncons (lexOne_fixed_u32 h6 h7)
        obtain ⟨L5, rfl, hL5⟩ := hL4.uncons (lexOne_fixed_u32 h8 h9)
        obtain ⟨L6, rfl, hL6⟩ := hL5.uncons (lexOne_close h10)
        exact ⟨L6, by simp [flatten], hL6⟩
      · cases h
    · cases h

/-- a plain non-rgb token flattens to itself -/
def BTok.selfLex (t : BTok) : Prop := flatten t = [.tok t]

theorem scalarArm_mirror {r : Except Err (Tape × Bytes)} {tape : Tape} {parent : Nat} {state : PState} {st' : St}
    {dp : Bytes}
    (hr : ∀ T' d', r = .ok (T', d') → ∃ x, T' = tape ++ [x] ∧ flatten x = [.tok x] ∧ lexOne dp = some (.tok x, d'))
    (h : scalarArm r parent state = .ok st') : StepMirror ⟨tape, parent, state, dp⟩ st' := by
  unfold scalarArm at h
  cases r with
  | error e => cases h
  | ok p =>
    obtain ⟨T', d'⟩ := p
    obtain ⟨x, rfl, hx, hl⟩ := hr T' d' rfl
    simp only at h
    cases hn : nextState state with
    | none => simp [hn] at h
    | some s' =>
      simp [hn] at h; subst h
      intro L hL
      obtain ⟨L', rfl, hL'⟩ := hL.uncons hl
      exact ⟨[.tok x], L', rfl, hL', by simp [hx]⟩

theorem pushEnd_flat {tape : Tape} {p : Nat} {T' : Tape} {g : Nat} {s : PState}
    (h : pushEnd tape p = .ok (T', g, s)) : flat T' = flat tape ++ [.close] := by
  unfold pushEnd at h
  split at h
  · rename_i e he
    have := (closeTo_eq h).1; simp only at this; rw [this]
    simp [flat_set_same he (show flatten (.array tape.length) = flatten (.array e) from rfl), flatten]
  · rename_i e he
    have := (closeTo_eq h).1; simp only at this; rw [this]
    simp [flat_set_same he (show flatten (.object tape.length) = flatten (.object e) from rfl), flatten]
  · cases h

theorem mixedInsert1_flat {tape t' : Tape} (h : mixedInsert1 tape = .ok t') : flat t' = flat tape := by
  unfold mixedInsert1 at h
  cases hp : pop? tape with
  | none => simp [hp] at h
  | some p =>
    obtain ⟨t1, x⟩ := p
    simp [hp] at h; subst h
    rw [pop?_length hp]; simp [flatten]

theorem mixedInsert2_flat {tape t' : Tape} (h : mixedInsert2 tape = .ok t') : flat t' = flat tape := by
  unfold mixedInsert2 at h
  cases hp : pop? tape with
  | none => simp [hp] at h
  | some p =>
    obtain ⟨t1, x⟩ := p
    simp only [hp] at h
    cases hp2 : pop? t1 with
    | none => simp [hp2] at h
    | some p2 =>
      obtain ⟨t0, y⟩ := p2
      simp [hp2] at h; subst h
      rw [pop?_length hp, pop?_length hp2]; simp [flatten]

theorem setParentToObject_flat {tape t' : Tape} {p : Nat} (h : setParentToObject tape p = .ok t') : flat t' = flat tape := by
  obtain ⟨e, he, rfl⟩ := setParentToObject_ok h
  exact flat_set_same he rfl

theorem equalArm_mirror {tape : Tape} {parent : Nat} {state : PState} {d dp : Bytes} {st' : St}
    (hr : readId dp = some (L.equal, d)) (h : equalArm tape parent state d = .ok st') :
    StepMirror ⟨tape, parent, state, dp⟩ st' := by
  intro L hL
  obtain ⟨L', rfl, hL'⟩ := hL.uncons (lexOne_equal hr)
  refine ⟨[.equal], L', rfl, ?_⟩
  unfold equalArm at h
  split at h
  · simp at h; subst h; exact ⟨hL', List.sublist_append_left _ _⟩
  · cases hso : setParentToObject tape parent with
    | error e => simp [hso] at h
    | ok t2 =>
      simp [hso] at h; subst h
      exact ⟨hL', by rw [setParentToObject_flat hso]; exact List.sublist_append_left _ _⟩
  · simp at h; subst h; exact ⟨hL', by simp [flatten]⟩
  · cases hp : pop? tape with
    | none => simp [hp] at h
    | some p =>
      obtain ⟨t1, last⟩ := p
      have ht := pop?_length hp
      subst ht
      simp only [hp] at h
      split at h
      · cases h
      · cases h
      · split at h
        · cases hso : setParentToObject t1 parent with
          | error e => simp [hso] at h
          | ok t2 =>
            simp [hso] at h; subst h
            refine ⟨hL', ?_⟩
            simp only [flat_append, flat_cons, flat_nil, List.append_nil, List.append_assoc]
            rw [← setParentToObject_flat hso]
            exact List.Sublist.append (flat_take_sublist t2 (parent + 1)) (List.sublist_append_left _ _)
        · simp at h; subst h
          exact ⟨hL', by simp [flatten]⟩
  · cases h

theorem tokenArm_mirror {tape : Tape} {parent : Nat} {state : PState} {d dp : Bytes} {tok : Nat} {st' : St}
    (hr : readId dp = some (tok, d)) (h : tokenArm false 0 tape parent state d tok = .ok st') :
    StepMirror ⟨tape, parent, state, dp⟩ st' := by
  unfold tokenArm at h
  by_cases c1 : tok = L.u32
  · subst c1; rw [if_pos rfl] at h
    refine scalarArm_mirror ?_ h
    intro T' d' hh; obtain ⟨hd, h1, h2⟩ := parseFixed_split hh
    exact ⟨_, h2, rfl, lexOne_fixed_u32 hr h1⟩
  rw [if_neg c1] at h
  by_cases c2 : tok = L.u64
  · subst c2; rw [if_pos rfl] at h
    refine scalarArm_mirror ?_ h
    intro T' d' hh; obtain ⟨hd, h1, h2⟩ := parseFixed_split hh
    exact ⟨_, h2, rfl, lexOne_fixed_u64 hr h1⟩
  rw [if_neg c2] at h
  by_cases c3 : tok = L.i32
  · subst c3; rw [if_pos rfl] at h
    cases hsa : scalarArm (parseI32 tape d) parent state with
    | error e => simp [hsa] at h
    | ok st =>
      simp [hsa] at h; subst h
      refine scalarArm_mirror ?_ hsa
      intro T' d' hh; obtain ⟨hd, h1, h2⟩ := parseFixed_split hh
      exact ⟨_, h2, rfl, lexOne_fixed_i32 hr h1⟩
  rw [if_neg c3] at h
  by_cases c4 : tok = L.bool
  · subst c4; rw [if_pos rfl] at h
    refine scalarArm_mirror ?_ h
    intro T' d' hh
    unfold parseBool at hh
    cases hb : readBool d with
    | none => simp [hb] at hh
    | some p => obtain ⟨b, r⟩ := p; simp [hb] at hh; obtain ⟨rfl, rfl⟩ := hh; exact ⟨_, rfl, rfl, lexOne_bool hr hb⟩
  rw [if_neg c4] at h
  by_cases c5 : tok = L.quoted
  · subst c5; rw [if_pos rfl] at h
    refine scalarArm_mirror ?_ h
    intro T' d' hh
    unfold parseQuoted at hh
    cases hb : readString d with
    | none => simp [hb] at hh
    | some p => obtain ⟨b, r⟩ := p; simp [hb] at hh; obtain ⟨rfl, rfl⟩ := hh; exact ⟨_, rfl, rfl, lexOne_quoted hr hb⟩
  rw [if_neg c5] at h
  by_cases c6 : tok = L.unquoted
  · subst c6; rw [if_pos rfl] at h
    refine scalarArm_mirror ?_ h
    intro T' d' hh
    unfold parseUnquoted at hh
    cases hb : readString d with
    | none => simp [hb] at hh
    | some p => obtain ⟨b, r⟩ := p; simp [hb] at hh; obtain ⟨rfl, rfl⟩ := hh; exact ⟨_, rfl, rfl, lexOne_unquoted hr hb⟩
  rw [if_neg c6] at h
  by_cases c7 : tok = L.f32
  · subst c7; rw [if_pos rfl] at h
    refine scalarArm_mirror ?_ h
    intro T' d' hh; obtain ⟨hd, h1, h2⟩ := parseFixed_split hh
    exact ⟨_, h2, rfl, lexOne_fixed_f32 hr h1⟩
  rw [if_neg c7] at h
  by_cases c8 : tok = L.f64
  · subst c8; rw [if_pos rfl] at h
    refine scalarArm_mirror ?_ h
    intro T' d' hh; obtain ⟨hd, h1, h2⟩ := parseFixed_split hh
    exact ⟨_, h2, rfl, lexOne_fixed_f64 hr h1⟩
  rw [if_neg c8] at h
  by_cases c9 : tok = L.open_
  · subst c9; rw [if_pos rfl] at h
    intro L hL
    obtain ⟨L', rfl, hL'⟩ := hL.uncons (lexOne_open hr)
    unfold openArm at h
    split at h
    · simp at h; subst h
      exact ⟨[.open_], L', rfl, hL', by simp [flatten]⟩
    · split at h
      · cases h
      · cases hrd : readId d with
        | none => simp [hrd] at h
        | some p =>
          obtain ⟨x, nd⟩ := p
          simp only [hrd] at h
          split at h
          · rename_i hx; subst hx
            simp at h; subst h
            obtain ⟨L'', rfl, hL''⟩ := hL'.uncons (lexOne_close hrd)
            exact ⟨[.open_, .close], L'', rfl, hL'', List.sublist_append_left _ _⟩
          · cases h
  rw [if_neg c9] at h
  by_cases c10 : tok = L.close
  · subst c10; rw [if_pos rfl] at h
    intro L hL
    obtain ⟨L', rfl, hL'⟩ := hL.uncons (lexOne_close hr)
    unfold closeArm at h
    simp only at h
    split at h
    · cases h
    · rename_i tape1 hpre
      have h1 : flat tape1 = flat tape := by
        cases state <;> simp at hpre
        all_goals first | (subst hpre; rfl) | exact mixedInsert1_flat hpre
      cases hp : pushEnd tape1 parent with
      | error e => simp [hp] at h
      | ok p =>
        obtain ⟨a, b, c⟩ := p
        simp [hp] at h; subst h
        exact ⟨[.close], L', rfl, hL', by simp [pushEnd_flat hp, h1]⟩
  rw [if_neg c10] at h
  by_cases c11 : tok = L.equal
  · subst c11; rw [if_pos rfl] at h; exact equalArm_mirror hr h
  rw [if_neg c11] at h
  by_cases c13 : tok = L.i64
  · subst c13
    have : ¬ (L.i64 = L.rgb ∧ state = .objectValue) := by intro hh; exact absurd hh.1 (by decide)
    rw [if_neg this, if_pos rfl] at h
    refine scalarArm_mirror ?_ h
    intro T' d' hh; obtain ⟨hd, h1, h2⟩ := parseFixed_split hh
    exact ⟨_, h2, rfl, lexOne_fixed_i64 hr h1⟩
  have hid : lexOne dp = some (.tok (.token tok), d) :=
    lexOne_id hr ⟨c9, c10, c11, c1, c2, c3, c13, c7, c8, c4, c5, c6⟩
  by_cases c12 : tok = L.rgb ∧ state = .objectValue
  · rw [if_pos c12] at h
    unfold parseRgb at h
    cases hrg : readRgb d with
    | error e => simp [hrg] at h
    | ok p =>
      obtain ⟨t, rest⟩ := p
      simp [hrg] at h; subst h
      obtain ⟨rfl, _⟩ := c12
      intro L hL
      obtain ⟨L', rfl, hL'⟩ := hL.uncons hid
      obtain ⟨L2, rfl, hL2⟩ := readRgb_lexes hrg L' hL'
      obtain ⟨a, b, c, al, rfl⟩ := readRgb_isRgb hrg
      refine ⟨flatten (.rgb a b c al), L2, ?_, hL2, by simp⟩
      cases al <;> simp [flatten]
  rw [if_neg c12, if_neg c13] at h
  refine scalarArm_mirror ?_ h
  intro T' d' hh; simp at hh; obtain ⟨rfl, rfl⟩ := hh
  exact ⟨_, rfl, rfl, hid⟩

theorem step_mirror {st st' : St} (h : step st = .next st') : StepMirror st st' := by
  cases hr : readId st.data with
  | none => rw [step_done hr] at h; cases h
  | some p =>
    obtain ⟨tok, d⟩ := p
    rw [step_eq hr] at h
    cases hd : dispatch false 0 st.tape st.parent st.state d tok with
    | error x => simp [hd, Iter.ofExcept] at h
    | ok s =>
      simp [hd, Iter.ofExcept] at h; subst h
      unfold dispatch at hd
      split at hd
      · cases hm : mixedInsert2 st.tape with
        | error x => simp [hm] at hd
        | ok t =>
          simp only [hm] at hd
          have := tokenArm_mirror (dp := st.data) hr hd
          intro L hL
          obtain ⟨L1, L2, h1, h2, h3⟩ := this L hL
          exact ⟨L1, L2, h1, h2, by simpa [mixedInsert2_flat hm] using h3⟩
      · exact tokenArm_mirror (dp := st.data) hr hd

theorem reach_mirror {a b : St} (h : Reach a b) : StepMirror a b := by
  obtain ⟨k, hk⟩ := h
  induction k generalizing a with
  | zero => simp [stepN] at hk; subst hk; intro L hL; exact ⟨[], L, rfl, hL, by simp⟩
  | succ k ih =>
    cases hst : step a with
    | next a' =>
      simp only [stepN, hst] at hk
      intro L hL
      obtain ⟨L1, L2, rfl, h2, h3⟩ := step_mirror hst L hL
      obtain ⟨M1, M2, rfl, g2, g3⟩ := ih hk L2 h2
      refine ⟨L1 ++ M1, M2, by simp, g2, ?_⟩
      have := List.Sublist.trans g3 (List.Sublist.append h3 (List.Sublist.refl M1))
      simpa using this
    | done => simp [stepN, hst] at hk
    | err e => simp [stepN, hst] at hk

/-- the tape mirrors the lexeme stream: flattened, it is a sublist — in order, payloads included —
of the lexeme list of the input -/
theorem parse_mirror (opt : Bool) (data : Bytes) (T : Tape) (h : parse opt data = .ok T) (L : List Lx)
    (hL : Lexes data L) : (flat T).Sublist L := by
  have h' : parse false data = .ok T := by
    cases opt
    · exact h
    · rwa [parse_true_eq_false] at h
  obtain ⟨r, _, hreach⟩ := run_false_ok_reach _ _ _ _ h'
  obtain ⟨L1, L2, rfl, _, h3⟩ := reach_mirror hreach L hL
  simp [init] at h3
  exact h3.trans (List.sublist_append_left _ _)

/-! ## the lexeme list exists and is unique -/

theorem lexOne_shrinks {d r : Bytes} {x : Lx} (h : lexOne d = some (x, r)) : r.length < d.length := by
  unfold lexOne at h
  cases hr : readId d with
  | none => simp [hr] at h
  | some p =>
    obtain ⟨id, r0⟩ := p
    have hl := readId_length hr
    simp only [hr] at h
    have fx : ∀ (n : Nat) (f : Bytes × Bytes → Lx × Bytes), (∀ q, (f q).2 = q.2) →
        (split? n r0).map f = some (x, r) → r.length < d.length := by
      intro n f hf hm
      cases hs : split? n r0 with
      | none => simp [hs] at hm
      | some q =>
        simp [hs] at hm
        have := split?_length (h := q.1) (r := q.2) (d := r0) (n := n) (by simpa using hs)
        have e := hf q; rw [hm] at e; simp at e; rw [e]; omega
    have st : ∀ (f : Bytes × Bytes → Lx × Bytes), (∀ q, (f q).2 = q.2) →
        (readString r0).map f = some (x, r) → r.length < d.length := by
      intro f hf hm
      cases hs : readString r0 with
      | none => simp [hs] at hm
      | some q =>
        simp [hs] at hm
        have := readString_length (s := q.1) (rest := q.2) (d := r0) (by simpa using hs)
        have e := hf q; rw [hm] at e; simp at e; rw [e]; omega
    have bo : (readBool r0).map (fun p => ((Lx.tok (BTok.bool p.1), p.2) : Lx × Bytes)) = some (x, r) → r.length < d.length := by
      intro hm
      cases r0 with
      | nil => simp [readBool] at hm
      | cons y ys => simp [readBool] at hm; rw [← hm.2]; simp at hl ⊢; omega
    have plain : ∀ y : Lx, some (y, r0) = some (x, r) → r.length < d.length := by
      intro y hm; simp at hm; rw [← hm.2]; omega
    by_cases c1 : id = L.open_
    · rw [if_pos c1] at h; exact plain _ h
    rw [if_neg c1] at h
    by_cases c2 : id = L.close
    · rw [if_pos c2] at h; exact plain _ h
    rw [if_neg c2] at h
    by_cases c3 : id = L.equal
    · rw [if_pos c3] at h; exact plain _ h
    rw [if_neg c3] at h
    by_cases c4 : id = L.u32
    · rw [if_pos c4] at h; exact fx _ _ (fun _ => rfl) h
    rw [if_neg c4] at h
    by_cases c5 : id = L.u64
    · rw [if_pos c5] at h; exact fx _ _ (fun _ => rfl) h
    rw [if_neg c5] at h
    by_cases c6 : id = L.i32
    · rw [if_pos c6] at h; exact fx _ _ (fun _ => rfl) h
    rw [if_neg c6] at h
    by_cases c7 : id = L.i64
    · rw [if_pos c7] at h; exact fx _ _ (fun _ => rfl) h
    rw [if_neg c7] at h
    by_cases c8 : id = L.f32
    · rw [if_pos c8] at h; exact fx _ _ (fun _ => rfl) h
    rw [if_neg c8] at h
    by_cases c9 : id = L.f64
    · rw [if_pos c9] at h; exact fx _ _ (fun _ => rfl) h
    rw [if_neg c9] at h
    by_cases c10 : id = L.bool
    · rw [if_pos c10] at h; exact bo h
    rw [if_neg c10] at h
    by_cases c11 : id = L.quoted
    · rw [if_pos c11] at h; exact st _ (fun _ => rfl) h
    rw [if_neg c11] at h
    by_cases c12 : id = L.unquoted
    · rw [if_pos c12] at h; exact st _ (fun _ => rfl) h
    rw [if_neg c12] at h
    exact plain _ h

/-- every byte string has a lexeme list … -/
theorem lexes_exists : ∀ (n : Nat) (d : Bytes), d.length ≤ n → ∃ L, Lexes d L := by
  intro n
  induction n with
  | zero =>
    intro d hd
    have : d = [] := by cases d <;> simp_all
    subst this
    exact ⟨[], Lexes.done (by simp [lexOne, readId])⟩
  | succ n ih =>
    intro d hd
    cases hl : lexOne d with
    | none => exact ⟨[], Lexes.done hl⟩
    | some p =>
      obtain ⟨x, r⟩ := p
      have := lexOne_shrinks hl
      obtain ⟨L, hL⟩ := ih r (by omega)
      exact ⟨x :: L, Lexes.cons hl hL⟩

/-- … and only one -/
theorem Lexes.unique {d : Bytes} {L1 L2 : List Lx} (h1 : Lexes d L1) (h2 : Lexes d L2) : L1 = L2 := by
  induction h1 generalizing L2 with
  | done h =>
    cases h2 with
    | done _ => rfl
    | cons h' _ => rw [h] at h'; cases h'
  | cons h _ ih =>
    cases h2 with
    | done h' => rw [h] at h'; cases h'
    | cons h' hr => rw [h] at h'; cases h'; rw [ih hr]

end Jomini.BinTape
