import JominiModel.Model.Json
import JominiModel.Model.TextDe
import JominiModel.Model.Writer
import JominiModel.Model.Dom
import JominiModel.Spec.Dom
import JominiModel.Proofs.Dom
import JominiModel.Proofs.DomGroups
/-
Bridge lemmas (C17 growth): the other slices carry their own copy of the DOM walk over their own
token type.  Here each copy is tied to `Model/Dom.lean` through the obvious token translation,
so that its iteration inherits the C17 theorems.  Nothing in the other slices' files is edited.
-/
namespace Jomini.DomBridge
open Jomini

/-! ### JSON model (Model/Json.lean) → Dom model -/

def jOp : Json.Op → Dom.Op
  | .lt => .lt | .le => .le | .gt => .gt | .ge => .ge
  | .ne => .ne | .exact => .exact | .eq => .eq | .exists_ => .exists_

def jTok : Json.TTok → Dom.TTok
  | .array e m => .array e m
  | .object e m => .object e m
  | .mixed => .mixedContainer
  | .unquoted s => .unquoted s
  | .quoted s => .quoted s
  | .param s => .parameter s
  | .undefParam s => .undefinedParameter s
  | .op o => .operator (jOp o)
  | .end_ i => .end_ i
  | .header s => .header s

def jTape (t : Json.Tape) : Dom.Tape := t.map jTok

/-- outcomes: `panic` ↦ `panic`, `hang` ↦ `fuel` -/
def jOut {α : Type} : Json.R α → Dom.Out α
  | .ok a => .ok a
  | .error .panic => .panic
  | .error .hang => .fuel

def jField (fe : Json.FieldE) : Dom.Field :=
  ⟨fe.keyIdx, jTok fe.keyTok, Json.keyBytes fe.keyTok, fe.op.map jOp, fe.valIdx⟩

@[simp] theorem jTape_get (t : Json.Tape) (i : Nat) : (jTape t)[i]? = (t[i]?).map jTok := by
  simp [jTape]

@[simp] theorem jTape_size (t : Json.Tape) : (jTape t).size = t.size := by simp [jTape]

theorem jTok_mixed (tok : Json.TTok) : jTok tok = .mixedContainer ↔ tok = .mixed := by
  cases tok <;> simp [jTok]

theorem json_nextIdxHeader (t : Json.Tape) (idx : Nat) :
    jOut (Json.nextIdxHeader t idx) = Dom.nextIdxHeader (jTape t) idx := by
  unfold Json.nextIdxHeader Dom.nextIdxHeader
  cases h : t[idx]? with
  | none => simp [jOut, h]
  | some tok => cases tok <;> simp [jOut, jTok, Dom.nextIdxHeaderTok, h]

theorem json_nextIdxValues (t : Json.Tape) (idx : Nat) :
    jOut (Json.nextIdxValues t idx) = Dom.nextIdxValues (jTape t) idx := by
  unfold Json.nextIdxValues Dom.nextIdxValues
  cases h : t[idx]? with
  | none => simp [jOut, h]
  | some tok => cases tok <;> simp [jOut, jTok, Dom.nextIdxValuesTok, h]

theorem json_nextIdxF (t : Json.Tape) : ∀ (f g idx : Nat), t.size + 1 ≤ f + idx → t.size + 1 ≤ g + idx →
    idx ≤ t.size → jOut (Json.nextIdxF t f idx) = Dom.nextIdxF g (jTape t) idx := by
  intro f
  induction f with
  | zero => intro g idx h1 _ h3; omega
  | succ f ih =>
    intro g idx h1 h2 h3
    cases g with
    | zero => omega
    | succ g =>
      rw [Json.nextIdxF, Dom.nextIdxF]
      cases h : t[idx]? with
      | none => simp [jOut, h]
      | some tok =>
        have hlt : idx < t.size := (Array.getElem?_eq_some_iff.mp h).1
        cases tok <;> simp [jOut, jTok, h]
        · exact ih g (idx + 1) (by omega) (by omega) (by omega)
        · exact json_nextIdxHeader t (idx + 1)

/-- `next_idx` of the JSON model = `next_idx` of the Dom model, for every tape and every index
inside the tape or one past it (beyond that the JSON model answers `hang` where the code and
the Dom model panic; no caller reaches it). -/
theorem json_nextIdx (t : Json.Tape) (idx : Nat) (h : idx ≤ t.size) :
    jOut (Json.nextIdx t idx) = Dom.nextIdx (jTape t) idx := by
  unfold Json.nextIdx Dom.nextIdx Dom.fuelOf
  exact json_nextIdxF t _ _ idx (by omega) (by simp) h


theorem jOut_ok {α : Type} (r : Json.R α) (a : α) (h : jOut r = .ok a) : r = .ok a := by
  cases r with
  | ok b => simp [jOut] at h; rw [h]
  | error f => cases f <;> simp [jOut] at h

theorem json_keyScalar (tok : Json.TTok) (hk : Json.isKeyTok tok = true) :
    (jTok tok).keyScalar? = some (Json.keyBytes tok) := by
  cases tok <;> simp [Json.isKeyTok] at hk <;> simp [jTok, Dom.TTok.keyScalar?, Json.keyBytes]

theorem json_keyScalar_none (tok : Json.TTok) (hk : Json.isKeyTok tok = false) :
    (jTok tok).keyScalar? = none := by
  cases tok <;> simp [Json.isKeyTok] at hk <;> simp [jTok, Dom.TTok.keyScalar?]

theorem json_opValueOf (tk : Json.TTok) (ti : Nat) :
    Dom.opValueOf ti (jTok tk) = ((Json.opOf tk).map jOp, Json.valueIndOf tk ti) := by
  cases tk <;> simp [jTok, Dom.opValueOf, Json.opOf, Json.valueIndOf]

def jItem (r : Option (Json.FieldE × Nat)) : Option (Dom.Field × Nat) :=
  r.map fun p => (jField p.1, p.2)

/-- `FieldsIter::next`, one step, for every tape and every state: the two models agree on the
outcome (item / finished / panic), except on the `debug_assert!` arm (the key token is neither
`MixedContainer` nor a scalar), where the JSON model panics like the verification build and the
Dom model finishes like a release build. -/
theorem json_fieldsNext (t : Json.Tape) (ti e : Nat)
    (hkey : ∀ tok, t[ti]? = some tok → ti < e → tok = .mixed ∨ Json.isKeyTok tok = true) :
    jOut ((Json.fieldsNext t ti e).map jItem) = Dom.fieldsNext (jTape t) ti e := by
  unfold Json.fieldsNext Dom.fieldsNext
  by_cases hge : ti ≥ e
  · simp [hge, jOut, jItem, Except.map]
  · simp only [hge, if_false, jTape_get]
    cases h : t[ti]? with
    | none => simp [jOut, Except.map]
    | some tok =>
      rcases hkey tok h (by omega) with hm | hk
      · subst hm; simp [jOut, jItem, Except.map, jTok, Dom.TTok.keyScalar?]
      · have hnm : tok ≠ .mixed := by intro hc; subst hc; simp [Json.isKeyTok] at hk
        simp only [Option.map_some, hnm, if_false, hk, Bool.not_true, Bool.false_eq_true,
          json_keyScalar tok hk]
        cases h1 : t[ti + 1]? with
        | none => simp [jOut, Except.map]
        | some tk =>
          have hlt : ti + 1 < t.size := (Array.getElem?_eq_some_iff.mp h1).1
          have hv : Json.valueIndOf tk ti ≤ t.size := by cases tk <;> simp [Json.valueIndOf] <;> omega
          have hn := json_nextIdx t _ hv
          simp only [Option.map_some, json_opValueOf]
          rw [← hn]
          cases Json.nextIdx t (Json.valueIndOf tk ti) with
          | error f => cases f <;> simp [jOut, Except.map]
          | ok n => simp [jOut, Except.map, jItem, jField]


theorem json_isKey_of_scalar (tok : Json.TTok) (kb : Bytes) (h : (jTok tok).keyScalar? = some kb) :
    Json.isKeyTok tok = true ∧ kb = Json.keyBytes tok := by
  cases tok <;> simp [jTok, Dom.TTok.keyScalar?] at h <;> simp [Json.isKeyTok, Json.keyBytes, h]

/-- on a regular object range (`Dom.objWalk`, C17's `WfObj`) the JSON model's `fields()` /
`fields_len()` succeed with any fuel ≥ the walk's and yield exactly the Dom model's items -/
theorem json_fields_walk (t : Json.Tape) (e : Nat) :
    ∀ f p q, Dom.objWalkF f (jTape t) p e = some q → ∀ g, f ≤ g →
      ∃ fs, Json.fieldsAllF t g p e = .ok (fs, q) ∧ Json.fieldsLenF t g p e = .ok fs.length ∧
        Dom.fieldsF f (jTape t) p e = .ok (fs.map jField, q) := by
  intro f
  induction f with
  | zero => intro p q h; simp [Dom.objWalkF] at h
  | succ f ih =>
    intro p q h g hg
    cases g with
    | zero => omega
    | succ g =>
    have hg' : f ≤ g := by omega
    rw [Dom.objWalkF] at h
    by_cases hpe : p ≥ e
    · simp only [hpe, if_true] at h
      by_cases hpe' : p = e
      · simp [hpe'] at h
        subst hpe' h
        exact ⟨[], by simp [Json.fieldsAllF, Json.fieldsNext], by simp [Json.fieldsLenF],
          by simp [Dom.fieldsF, Dom.fieldsNext]⟩
      · simp [hpe'] at h
    · simp only [hpe, if_false, jTape_get] at h
      have hlt : p < e := by omega
      cases hk : t[p]? with
      | none => simp [hk] at h
      | some tok =>
        simp only [hk, Option.map_some] at h
        by_cases hm : jTok tok = .mixedContainer
        · simp [hm] at h
          subst h
          have htm : tok = .mixed := (jTok_mixed tok).mp hm
          subst htm
          refine ⟨[], ?_, ?_, ?_⟩
          · simp [Json.fieldsAllF, Json.fieldsNext, hpe, hk]
          · simp [Json.fieldsLenF, hlt, hk]
          · simp [Dom.fieldsF, Dom.fieldsNext, hpe, hk, jTok, Dom.TTok.keyScalar?]
        · simp only [hm, if_false] at h
          have htm : tok ≠ .mixed := fun hc => hm ((jTok_mixed tok).mpr hc)
          cases hks : (jTok tok).keyScalar? with
          | none => simp [hks] at h
          | some kb =>
            simp only [hks] at h
            obtain ⟨hkt, hkb⟩ := json_isKey_of_scalar tok kb hks
            cases hnx : t[p + 1]? with
            | none => simp [hnx] at h
            | some nx =>
              simp only [hnx, Option.map_some, json_opValueOf] at h
              by_cases hv : Json.valueIndOf nx p < e
              · simp only [hv, if_true] at h
                cases hvn : Dom.valueNext (jTape t) (Json.valueIndOf nx p) e with
                | none => simp [hvn] at h
                | some n =>
                  simp only [hvn] at h
                  have hni := Dom.nextIdx_of_valueNext (jTape t) _ e n hvn
                  have hb := Dom.valueNext_bounds (jTape t) _ e n hvn hv
                  have hjn : Json.nextIdx t (Json.valueIndOf nx p) = .ok n := by
                    apply jOut_ok
                    rw [json_nextIdx t _ (by have := hb.2.2; simp at this; omega)]
                    exact hni
                  obtain ⟨fs, h1, h2, h3⟩ := ih n q h g hg'
                  refine ⟨⟨tok, p, Json.opOf nx, Json.valueIndOf nx p⟩ :: fs, ?_, ?_, ?_⟩
                  · simp [Json.fieldsAllF, Json.fieldsNext, hpe, hk, htm, hkt, hnx, hjn, h1]
                  · simp [Json.fieldsLenF, hlt, hk, htm, hnx, hjn, h2]
                  · simp [Dom.fieldsF, Dom.fieldsNext, hpe, hk, hks, hnx, json_opValueOf, hni, h3, jField, hkb]
              · simp [hv] at h

/-- C17 bridge, fields: on every regular object range the JSON model's `fields()` is the Dom
model's `fields()` (same items, same final `token_ind`), and `fields_len()` is their number. -/
theorem json_fields (t : Json.Tape) (s e : Nat) (h : Dom.WfObj (jTape t) s e) :
    ∃ fs q, Json.fieldsAll t s e = .ok (fs, q) ∧ Json.fieldsLen t s e = .ok fs.length ∧
      Dom.fields (jTape t) s e = .ok (fs.map jField, q) := by
  unfold Dom.WfObj at h
  obtain ⟨q, hq⟩ := Option.isSome_iff_exists.mp h
  obtain ⟨fs, h1, h2, h3⟩ := json_fields_walk t e _ s q hq (Json.loopFuel t)
    (by simp [Dom.fuelOf, Json.loopFuel])
  exact ⟨fs, q, h1, h2, h3⟩


/-- `ValuesIter`: whenever the Dom model's `values()` succeeds, the JSON model's (with at least
as much fuel) yields the same value indices — for every tape, no hypothesis. -/
theorem json_values_sim (t : Json.Tape) (e : Nat) : ∀ g ind vs, Dom.valuesF g (jTape t) ind e = .ok vs →
    ∀ f, g ≤ f → Json.valuesAllF t f ind e = .ok vs := by
  intro g
  induction g with
  | zero => intro ind vs h; simp [Dom.valuesF] at h
  | succ g ih =>
    intro ind vs h f hf
    cases f with
    | zero => omega
    | succ f =>
      rw [Dom.valuesF] at h
      rw [Json.valuesAllF]
      by_cases hlt : ind < e
      · simp only [hlt, if_true] at h ⊢
        have hn := json_nextIdxValues t ind
        cases hd : Dom.nextIdxValues (jTape t) ind with
        | panic => simp [hd] at h
        | fuel => simp [hd] at h
        | ok n =>
          simp only [hd] at h
          rw [hd] at hn
          rw [jOut_ok _ _ hn]
          cases hr : Dom.valuesF g (jTape t) n e with
          | panic => simp [hr] at h
          | fuel => simp [hr] at h
          | ok vs' =>
            simp [hr] at h
            subst h
            simp [ih n vs' hr f (by omega)]
      · simp only [hlt, if_false] at h ⊢
        simpa using h

theorem json_values (t : Json.Tape) (s e : Nat) (vs : List Nat) (h : Dom.values (jTape t) s e = .ok vs) :
    Json.valuesAll t s e = .ok vs :=
  json_values_sim t e _ s vs h _ (by simp [Dom.fuelOf, Json.loopFuel])

/-- `FieldsIter::remainder`: same start index, for every tape and state -/
theorem json_remainder (t : Json.Tape) (ti e : Nat) :
    (Json.remainderStart t ti e, e) = Dom.remainder (jTape t) ti e := by
  unfold Json.remainderStart Dom.remainder
  simp only [jTape_get]
  cases h : t[ti]? with
  | none => simp
  | some tok =>
    cases tok <;> simp [jTok]
    rename_i y
    cases h2 : t[y]? with
    | none => simp
    | some tk => cases tk <;> simp [jTok]

theorem json_findMixed_sim (t : Json.Tape) : ∀ g i q, Dom.mixedStartF g (jTape t) i = .ok q →
    ∀ f, g ≤ f → Json.findMixedF t f i = .ok q := by
  intro g
  induction g with
  | zero => intro i q h; simp [Dom.mixedStartF] at h
  | succ g ih =>
    intro i q h f hf
    cases f with
    | zero => omega
    | succ f =>
      rw [Dom.mixedStartF] at h
      rw [Json.findMixedF]
      by_cases hm : (jTape t)[i]? = some .mixedContainer
      · simp only [hm, if_true] at h
        have : t[i]? = some .mixed := by
          simp only [jTape_get] at hm
          cases ht : t[i]? with
          | none => simp [ht] at hm
          | some tok =>
            simp [ht] at hm
            rw [(jTok_mixed tok).mp hm]
        simp [this]
        simpa using h
      · simp only [hm, if_false] at h
        have hne : t[i]? ≠ some .mixed := by
          intro hc; apply hm; simp [hc, jTok]
        cases hd : Dom.nextIdx (jTape t) i with
        | panic => simp [hd] at h
        | fuel => simp [hd] at h
        | ok n =>
          simp only [hd] at h
          have hi : i ≤ t.size := by
            -- `next_idx` succeeded, so token `i` exists
            unfold Dom.nextIdx Dom.fuelOf at hd
            rw [Dom.nextIdxF] at hd
            cases ht : (jTape t)[i]? with
            | none => simp [ht] at hd
            | some tk =>
              have := (Array.getElem?_eq_some_iff.mp ht).1
              simp at this; omega
          have hn := json_nextIdx t i hi
          rw [hd] at hn
          have hj := jOut_ok _ _ hn
          have hrec := ih n q h f (by omega)
          cases ht : t[i]? with
          | none => simp [hj, hrec]
          | some tok =>
            cases tok <;> simp_all

/-- `ValueReader::read_array` (plain, mixed-loop and header views): whenever the Dom model
answers, the JSON model gives the same reader — for every tape. -/
theorem json_readArray (t : Json.Tape) (idx : Nat) (r : Option (Nat × Nat))
    (h : Dom.readArray (jTape t) idx = .ok r) : Json.readArray t idx = .ok r := by
  unfold Dom.readArray at h
  unfold Json.readArray
  simp only [jTape_get] at h
  cases ht : t[idx]? with
  | none => simp [ht] at h
  | some tok =>
    have hlt : idx < t.size := (Array.getElem?_eq_some_iff.mp ht).1
    cases tok with
    | object e m =>
      cases m with
      | false => simpa [ht, jTok] using h
      | true =>
        simp only [ht, Option.map_some, jTok] at h
        cases hd : Dom.mixedStartF (Dom.fuelOf (jTape t)) (jTape t) (idx + 1) with
        | panic => simp [hd] at h
        | fuel => simp [hd] at h
        | ok st =>
          simp [hd] at h
          have := json_findMixed_sim t _ _ st hd (Json.loopFuel t) (by simp [Dom.fuelOf, Json.loopFuel])
          simp [this, h]
    | header b =>
      simp only [ht, Option.map_some, jTok] at h
      cases hd : Dom.nextIdx (jTape t) (idx + 1) with
      | panic => simp [hd] at h
      | fuel => simp [hd] at h
      | ok n =>
        simp [hd] at h
        have hn := json_nextIdx t (idx + 1) (by omega)
        rw [hd] at hn
        simp [jOut_ok _ _ hn, h]
    | _ => simpa [ht, jTok] using h


/-! ### grouping -/

/-- the groups `FieldGroupsIter` yields in the JSON model (`groupEntries` without the value
serializer): the field that opens the group and the later occurrences of its key -/
def jsonGroups : List Json.FieldE → List (Bytes × List Json.FieldE) → List (Json.FieldE × List Json.FieldE)
  | [], _ => []
  | fe :: rest, groups =>
    match Json.groupRemove groups (Json.keyBytes fe.keyTok) with
    | none => jsonGroups rest groups
    | some (m, groups') => (fe, m) :: jsonGroups rest groups'

/-- serializing the groups (json/mod.rs Group arm): one entry per group -/
def serGroups (sv : Nat → Json.R Json.JVal) (enc : Json.Enc) :
    List (Json.FieldE × List Json.FieldE) → Json.R (List (Bytes × Json.JVal))
  | [] => .ok []
  | (fe, []) :: rest =>
    match sv fe.valIdx with
    | .error f => .error f
    | .ok jv =>
      match serGroups sv enc rest with
      | .error f => .error f
      | .ok es => .ok ((Json.keyJson enc fe.keyTok, Json.wrapOp fe.op jv) :: es)
  | (fe, m :: more) :: rest =>
    match Json.opValues sv (fe :: m :: more) with
    | .error f => .error f
    | .ok vs =>
      match serGroups sv enc rest with
      | .error f => .error f
      | .ok es => .ok ((Json.keyJson enc fe.keyTok, .arr vs) :: es)

/-- `groupEntries` = serialize, in order, the groups `jsonGroups` lists -/
theorem json_groupEntries (sv : Nat → Json.R Json.JVal) (enc : Json.Enc) :
    ∀ (fs : List Json.FieldE) (groups : List (Bytes × List Json.FieldE)),
      Json.groupEntries sv enc fs groups = serGroups sv enc (jsonGroups fs groups) := by
  intro fs
  induction fs with
  | nil => intro groups; simp [Json.groupEntries, jsonGroups, serGroups]
  | cons fe rest ih =>
    intro groups
    rw [Json.groupEntries, jsonGroups]
    cases hr : Json.groupRemove groups (Json.keyBytes fe.keyTok) with
    | none => simp only; exact ih groups
    | some p =>
      obtain ⟨m, groups'⟩ := p
      cases m with
      | nil =>
        simp only [serGroups, ih groups']
        cases sv fe.valIdx <;> simp
        cases serGroups sv enc (jsonGroups rest groups') <;> simp
      | cons m0 more =>
        simp only [serGroups, ih groups']
        cases Json.opValues sv (fe :: m0 :: more) <;> simp
        cases serGroups sv enc (jsonGroups rest groups') <;> simp

def NoDupKeys {α : Type} : List (Bytes × α) → Prop
  | [] => True
  | (k, _) :: rest => (∀ p ∈ rest, p.1 ≠ k) ∧ NoDupKeys rest

def ovJ (fe : Json.FieldE) : Dom.OpValue := (jField fe).ov

/-- the JSON model's association list as the Dom model's `KeyMap` -/
def proj (gs : List (Bytes × List Json.FieldE)) : Dom.KeyMap := gs.map fun p => (p.1, p.2.map ovJ)

theorem proj_insert (gs : List (Bytes × List Json.FieldE)) (fe : Json.FieldE) :
    proj (Json.groupInsert gs fe) = (proj gs).enter (jField fe).keyBytes (jField fe).ov := by
  induction gs with
  | nil => simp [Json.groupInsert, proj, Dom.KeyMap.enter, jField]
  | cons p rest ih =>
    obtain ⟨k, vs⟩ := p
    simp only [proj] at ih
    by_cases hk : k = Json.keyBytes fe.keyTok
    · simp [Json.groupInsert, proj, Dom.KeyMap.enter, hk, jField, ovJ]
    · simp [Json.groupInsert, proj, Dom.KeyMap.enter, hk, jField] 
      simpa [jField] using ih

theorem proj_build (fs : List Json.FieldE) : ∀ gs,
    proj (fs.foldl Json.groupInsert gs) = Dom.buildMap (fs.map jField) (proj gs) := by
  induction fs with
  | nil => intro gs; simp [Dom.buildMap]
  | cons fe rest ih =>
    intro gs
    simp only [List.foldl_cons, List.map_cons, Dom.buildMap]
    rw [ih, proj_insert]

theorem insert_keys (gs : List (Bytes × List Json.FieldE)) (fe : Json.FieldE) :
    (∀ p ∈ Json.groupInsert gs fe, p.1 = Json.keyBytes fe.keyTok ∨ ∃ q ∈ gs, q.1 = p.1) ∧
    (NoDupKeys gs → NoDupKeys (Json.groupInsert gs fe)) := by
  induction gs with
  | nil => simp [Json.groupInsert, NoDupKeys]
  | cons p rest ih =>
    obtain ⟨k, vs⟩ := p
    by_cases hk : k = Json.keyBytes fe.keyTok
    · simp only [Json.groupInsert, hk, if_true]
      constructor
      · intro p hp
        rcases List.mem_cons.mp hp with rfl | hp
        · exact Or.inl rfl
        · exact Or.inr ⟨p, List.mem_cons_of_mem _ hp, rfl⟩
      · intro h; simpa [NoDupKeys, hk] using h
    · simp only [Json.groupInsert, hk, if_false]
      constructor
      · intro p hp
        rcases List.mem_cons.mp hp with rfl | hp
        · exact Or.inr ⟨(k, vs), List.mem_cons_self, rfl⟩
        · rcases ih.1 p hp with h | ⟨q, hq, hqk⟩
          · exact Or.inl h
          · exact Or.inr ⟨q, List.mem_cons_of_mem _ hq, hqk⟩
      · intro h
        simp only [NoDupKeys] at h ⊢
        refine ⟨?_, ih.2 h.2⟩
        intro p hp
        rcases ih.1 p hp with h1 | ⟨q, hq, hqk⟩
        · rw [h1]; exact fun hc => hk hc.symm
        · rw [← hqk]; exact h.1 q hq

theorem build_nodup (fs : List Json.FieldE) : ∀ gs, NoDupKeys gs → NoDupKeys (fs.foldl Json.groupInsert gs) := by
  induction fs with
  | nil => intro gs h; simpa using h
  | cons fe rest ih => intro gs h; exact ih _ ((insert_keys gs fe).2 h)

theorem remove_spec (gs : List (Bytes × List Json.FieldE)) (k : Bytes) (hn : NoDupKeys gs) :
    Json.groupRemove gs k =
      match (proj gs).lookup k with
      | none => none
      | some _ => (gs.find? (fun p => p.1 == k)).map fun p => (p.2, gs.filter (fun p => !(p.1 == k))) := by
  induction gs with
  | nil => simp [Json.groupRemove, proj, Dom.KeyMap.lookup]
  | cons p rest ih =>
    obtain ⟨k0, vs⟩ := p
    simp only [NoDupKeys] at hn
    by_cases hk : k0 = k
    · subst hk
      have hf : rest.filter (fun p => !(p.1 == k0)) = rest := by
        apply List.filter_eq_self.mpr
        intro a ha; simpa using hn.1 a ha
      simp [Json.groupRemove, proj, Dom.KeyMap.lookup, hf]
    · have ih' := ih hn.2
      simp only [proj] at ih'
      simp only [Json.groupRemove, hk, if_false, ih', proj, List.map_cons, Dom.KeyMap.lookup]
      cases hl : Dom.KeyMap.lookup (List.map (fun p => (p.1, List.map ovJ p.2)) rest) k with
      | none => simp
      | some x =>
        have hne : (k0 == k) = false := by simpa using hk
        simp only [List.find?_cons, hne, List.filter_cons]
        cases List.find? (fun p => p.1 == k) rest with
        | none => simp
        | some q => simp [hk]


theorem lookup_proj (gs : List (Bytes × List Json.FieldE)) (k : Bytes) :
    (proj gs).lookup k = (gs.find? (fun p => p.1 == k)).map fun p => p.2.map ovJ := by
  induction gs with
  | nil => simp [proj, Dom.KeyMap.lookup]
  | cons p rest ih =>
    obtain ⟨k0, vs⟩ := p
    simp only [proj] at ih
    by_cases hk : k0 = k
    · simp [proj, Dom.KeyMap.lookup, hk]
    · have hne : (k0 == k) = false := by simpa using hk
      simp [proj, Dom.KeyMap.lookup, hk, List.find?_cons, hne, ih]

theorem proj_filter (gs : List (Bytes × List Json.FieldE)) (k : Bytes) :
    proj (gs.filter (fun p => !(p.1 == k))) = (proj gs).erase k := by
  induction gs with
  | nil => simp [proj, Dom.KeyMap.erase]
  | cons p rest ih =>
    obtain ⟨k0, vs⟩ := p
    simp only [proj, Dom.KeyMap.erase] at ih
    by_cases hk : k0 = k <;> simp [proj, Dom.KeyMap.erase, List.filter_cons, hk, ih]

theorem nodup_filter {α : Type} (gs : List (Bytes × α)) (q : Bytes × α → Bool) (h : NoDupKeys gs) :
    NoDupKeys (gs.filter q) := by
  induction gs with
  | nil => simpa using h
  | cons p rest ih =>
    obtain ⟨k0, vs⟩ := p
    simp only [NoDupKeys] at h
    simp only [List.filter_cons]
    split
    · simp only [NoDupKeys]
      exact ⟨fun p hp => h.1 p (List.mem_filter.mp hp).1, ih h.2⟩
    · exact ih h.2

def groupOutJ (p : Json.FieldE × List Json.FieldE) : Dom.Field × List Dom.OpValue :=
  (jField p.1, (p.1 :: p.2).map ovJ)

theorem json_groups_iter : ∀ (fs : List Json.FieldE) (gs : List (Bytes × List Json.FieldE)), NoDupKeys gs →
    (jsonGroups fs gs).map groupOutJ = (Dom.groupsIter (fs.map jField) (proj gs)).map Dom.groupOut := by
  intro fs
  induction fs with
  | nil => intro gs _; simp [jsonGroups, Dom.groupsIter]
  | cons fe rest ih =>
    intro gs hn
    have hkb : (jField fe).keyBytes = Json.keyBytes fe.keyTok := rfl
    rw [jsonGroups, remove_spec gs _ hn, List.map_cons, Dom.groupsIter, hkb, lookup_proj]
    cases hf : gs.find? (fun p => p.1 == Json.keyBytes fe.keyTok) with
    | none => simp only [Option.map_none]; exact ih gs hn
    | some p =>
      simp only [Option.map_some, List.map_cons]
      rw [ih _ (nodup_filter gs _ hn), proj_filter]
      congr 1
      cases hp : p.2 with
      | nil => simp [groupOutJ, Dom.groupOut, Dom.GroupEntry.toList, ovJ, hp]
      | cons m more => simp [groupOutJ, Dom.groupOut, Dom.GroupEntry.toList, ovJ, hp]

/-- C17 bridge, groups: the groups the JSON model's `FieldGroupsIter` yields (`groupEntries`
serializes exactly these, `json_groupEntries`) are the Dom model's, i.e. the stable group-by-key
of the fields: each distinct key once, in order of first appearance, with exactly its
`(operator, value)` pairs in field order. -/
theorem json_groups (fs : List Json.FieldE) :
    (jsonGroups fs (Json.buildGroups fs)).map groupOutJ = Dom.groupBy (fs.map jField) ∧
    (jsonGroups fs (Json.buildGroups fs)).map groupOutJ =
      (Dom.groupsIter (fs.map jField) (Dom.buildMap (fs.map jField) [])).map Dom.groupOut := by
  have hn : NoDupKeys (Json.buildGroups fs) := build_nodup fs [] (by simp [NoDupKeys])
  have h := json_groups_iter fs _ hn
  have hp : proj (Json.buildGroups fs) = Dom.buildMap (fs.map jField) [] := by
    simpa [Json.buildGroups, proj] using proj_build fs []
  rw [hp] at h
  exact ⟨h.trans (Dom.fieldGroups_eq_groupBy _), h⟩


/-! ### text deserializer model (Model/TextDe.lean) → Dom model -/

def tOp : TextDe.Op → Dom.Op
  | .eq => .eq | .lt => .lt | .le => .le | .gt => .gt | .ge => .ge
  | .ne => .ne | .exact => .exact | .exst => .exists_

def tTok : TextDe.TTok → Dom.TTok
  | .arr e m => .array e m
  | .obj e m => .object e m
  | .mixedC => .mixedContainer
  | .unq s => .unquoted s
  | .quo s => .quoted s
  | .param s => .parameter s
  | .undef s => .undefinedParameter s
  | .op o => .operator (tOp o)
  | .end_ i => .end_ i
  | .hdr s => .header s

def tTape (toks : List TextDe.TTok) : Dom.Tape := (toks.map tTok).toArray

/-- the TextDe model has one failure outcome for its DOM walk: `panic` (fuel exhaustion included) -/
def dOut {α : Type} : Dom.Out α → TextDe.R α
  | .ok a => .ok a
  | .panic => .error .panic
  | .fuel => .error .panic

@[simp] theorem tTape_get (toks : List TextDe.TTok) (i : Nat) : (tTape toks)[i]? = (toks[i]?).map tTok := by
  simp [tTape]

@[simp] theorem tTape_size (toks : List TextDe.TTok) : (tTape toks).size = toks.length := by simp [tTape]

theorem tTok_mixed (tok : TextDe.TTok) : tTok tok = .mixedContainer ↔ tok = .mixedC := by
  cases tok <;> simp [tTok]

theorem textde_nextIdxHeader (toks : List TextDe.TTok) (idx : Nat) :
    TextDe.nextIdxHeader toks idx = dOut (Dom.nextIdxHeader (tTape toks) idx) := by
  unfold TextDe.nextIdxHeader Dom.nextIdxHeader TextDe.tokAt
  cases h : toks[idx]? with
  | none => simp [dOut, h]
  | some tok => cases tok <;> simp [dOut, tTok, Dom.nextIdxHeaderTok, h]

theorem textde_nextIdxValues (toks : List TextDe.TTok) (idx : Nat) :
    TextDe.nextIdxValues toks idx = dOut (Dom.nextIdxValues (tTape toks) idx) := by
  unfold TextDe.nextIdxValues Dom.nextIdxValues TextDe.tokAt
  cases h : toks[idx]? with
  | none => simp [dOut, h]
  | some tok => cases tok <;> simp [dOut, tTok, Dom.nextIdxValuesTok, h]

/-- `next_idx`: identical for every tape, index and fuel -/
theorem textde_nextIdxF (toks : List TextDe.TTok) : ∀ (f idx : Nat),
    TextDe.nextIdx toks f idx = dOut (Dom.nextIdxF f (tTape toks) idx) := by
  intro f
  induction f with
  | zero => intro idx; simp [TextDe.nextIdx, Dom.nextIdxF, dOut]
  | succ f ih =>
    intro idx
    rw [TextDe.nextIdx, Dom.nextIdxF]
    unfold TextDe.tokAt
    cases h : toks[idx]? with
    | none => simp [dOut, h]
    | some tok =>
      cases tok <;> simp [dOut, tTok, h]
      · exact ih (idx + 1)
      · exact textde_nextIdxHeader toks (idx + 1)

theorem textde_nextIdx (toks : List TextDe.TTok) (idx : Nat) :
    TextDe.nextIdx toks (toks.length + 1) idx = dOut (Dom.nextIdx (tTape toks) idx) := by
  unfold Dom.nextIdx Dom.fuelOf
  simpa using textde_nextIdxF toks (toks.length + 1) idx

theorem textde_remainder (toks : List TextDe.TTok) (ti e : Nat) :
    TextDe.remainderOf toks ti e = Dom.remainder (tTape toks) ti e := by
  unfold TextDe.remainderOf Dom.remainder
  simp only [tTape_get]
  cases h : toks[ti]? with
  | none => simp
  | some tok =>
    cases tok <;> simp [tTok]
    rename_i y
    cases h2 : toks[y]? with
    | none => simp
    | some tk => cases tk <;> simp [tTok]

def tProj (r : Option (Dom.Field × Nat)) : Option (Bytes × Option Dom.Op × Nat × Nat) :=
  r.map fun p => (p.1.keyBytes, p.1.op, p.1.valueIdx, p.2)

def tItemOp (r : Option (Bytes × Option TextDe.Op × Nat × Nat)) : Option (Bytes × Option Dom.Op × Nat × Nat) :=
  r.map fun p => (p.1, p.2.1.map tOp, p.2.2.1, p.2.2.2)

def TextDe.isKey : TextDe.TTok → Bool
  | .quo _ | .unq _ | .param _ | .undef _ => true
  | _ => false

/-- `FieldsIter::next`, one step, every tape and state: same item (key bytes, operator, value
index, next `token_ind`) and same panic / finished outcome, except on the `debug_assert!` arm. -/
theorem textde_fieldsNext (toks : List TextDe.TTok) (ti e : Nat)
    (hkey : ∀ tok, toks[ti]? = some tok → ti < e → tok = .mixedC ∨ TextDe.isKey tok = true) :
    (TextDe.fieldsNext toks ti e).map tItemOp = (dOut (Dom.fieldsNext (tTape toks) ti e)).map tProj := by
  unfold TextDe.fieldsNext Dom.fieldsNext TextDe.tokAt
  by_cases hge : ti ≥ e
  · simp [hge, dOut, tItemOp, tProj, Except.map]
  · simp only [hge, if_false, tTape_get]
    cases h : toks[ti]? with
    | none => simp [dOut, Except.map]
    | some tok =>
      rcases hkey tok h (by omega) with hm | hk
      · subst hm; simp [dOut, tItemOp, tProj, Except.map, tTok, Dom.TTok.keyScalar?]
      · cases h1 : toks[ti + 1]? with
        | none => cases tok <;> simp [TextDe.isKey] at hk <;> simp [dOut, Except.map, tTok, Dom.TTok.keyScalar?]
        | some nx =>
          cases tok <;> simp [TextDe.isKey] at hk <;> cases nx <;>
            simp only [Option.map_some, tTok, Dom.TTok.keyScalar?, Dom.opValueOf, textde_nextIdx] <;>
            first
              | (cases hq : Dom.nextIdx (tTape toks) (ti + 1) <;> simp [dOut, Except.map, tItemOp, tProj, hq]; done)
              | (cases hq : Dom.nextIdx (tTape toks) (ti + 2) <;> simp [dOut, Except.map, tItemOp, tProj, hq]; done)

theorem textde_go (toks : List TextDe.TTok) : ∀ f s,
    TextDe.readArray.go toks f s = dOut (Dom.mixedStartF f (tTape toks) s) := by
  intro f
  induction f with
  | zero => intro s; simp [TextDe.readArray.go, Dom.mixedStartF, dOut]
  | succ f ih =>
    intro s
    rw [TextDe.readArray.go, Dom.mixedStartF]
    have hiff : (toks[s]? = some TextDe.TTok.mixedC) ↔ ((tTape toks)[s]? = some Dom.TTok.mixedContainer) := by
      simp only [tTape_get]
      cases toks[s]? with
      | none => simp
      | some tok => simp [tTok_mixed]
    by_cases hm : toks[s]? = some TextDe.TTok.mixedC
    · simp [hm, hiff.mp hm, dOut]
    · have hm' : ¬ ((tTape toks)[s]? = some Dom.TTok.mixedContainer) := fun hc => hm (hiff.mpr hc)
      rw [if_neg hm, if_neg hm', textde_nextIdx]
      cases Dom.nextIdx (tTape toks) s with
      | ok n => simp [dOut, ih]
      | panic => simp [dOut]
      | fuel => simp [dOut]

/-- `ValueReader::read_array`: identical (reader or panic) for every tape and index -/
theorem textde_readArray (toks : List TextDe.TTok) (i : Nat) :
    TextDe.readArray toks i = dOut (Dom.readArray (tTape toks) i) := by
  unfold TextDe.readArray Dom.readArray TextDe.tokAt
  simp only [tTape_get]
  cases h : toks[i]? with
  | none => simp [dOut]
  | some tok =>
    cases tok with
    | obj e m =>
      cases m with
      | false => simp [dOut, tTok]
      | true =>
        simp only [Option.map_some, tTok, textde_go, Dom.fuelOf, tTape_size]
        cases Dom.mixedStartF (toks.length + 1) (tTape toks) (i + 1) <;> simp [dOut]
    | hdr s =>
      simp only [Option.map_some, tTok, textde_nextIdx]
      cases Dom.nextIdx (tTape toks) (i + 1) <;> simp [dOut]
    | _ => simp [dOut, tTok]


/-! ### writer model (Model/Writer.lean, the walk behind `writeTape`) → Dom model -/

def wOp : Writer.Op → Dom.Op
  | .lt => .lt | .le => .le | .gt => .gt | .ge => .ge
  | .ne => .ne | .exact => .exact | .eq => .eq | .exists => .exists_

def wTok : Writer.Tok → Dom.TTok
  | .array e m => .array e m
  | .object e m => .object e m
  | .mixedContainer => .mixedContainer
  | .unquoted s => .unquoted s
  | .quoted s => .quoted s
  | .parameter s => .parameter s
  | .undefinedParameter s => .undefinedParameter s
  | .operator o => .operator (wOp o)
  | .end i => .end_ i
  | .header s => .header s

def wTape (toks : List Writer.Tok) : Dom.Tape := (toks.map wTok).toArray

def wOut {α : Type} : Dom.Out α → Except Writer.WErr α
  | .ok a => .ok a
  | .panic => .error .panic
  | .fuel => .error .fuel

@[simp] theorem wTape_get (toks : List Writer.Tok) (i : Nat) : (wTape toks)[i]? = (toks[i]?).map wTok := by
  simp [wTape]

@[simp] theorem wTape_size (toks : List Writer.Tok) : (wTape toks).size = toks.length := by simp [wTape]

theorem writer_nextIdxHeader (toks : List Writer.Tok) (idx : Nat) :
    Writer.nextIdxHeader toks idx = wOut (Dom.nextIdxHeader (wTape toks) idx) := by
  unfold Writer.nextIdxHeader Dom.nextIdxHeader
  cases h : toks[idx]? with
  | none => simp [wOut, h]
  | some tok => cases tok <;> simp [wOut, wTok, Dom.nextIdxHeaderTok, h]

theorem writer_nextIdxValues (toks : List Writer.Tok) (idx : Nat) :
    Writer.nextIdxValues toks idx = wOut (Dom.nextIdxValues (wTape toks) idx) := by
  unfold Writer.nextIdxValues Dom.nextIdxValues
  cases h : toks[idx]? with
  | none => simp [wOut, h]
  | some tok => cases tok <;> simp [wOut, wTok, Dom.nextIdxValuesTok, h]

/-- `next_idx`: identical (value, panic, fuel) for every token list, index and fuel -/
theorem writer_nextIdxF (toks : List Writer.Tok) : ∀ (f idx : Nat),
    Writer.nextIdx toks f idx = wOut (Dom.nextIdxF f (wTape toks) idx) := by
  intro f
  induction f with
  | zero => intro idx; simp [Writer.nextIdx, Dom.nextIdxF, wOut]
  | succ f ih =>
    intro idx
    rw [Writer.nextIdx, Dom.nextIdxF]
    cases h : toks[idx]? with
    | none => simp [wOut, h]
    | some tok =>
      cases tok <;> simp [wOut, wTok, h]
      · exact ih (idx + 1)
      · exact writer_nextIdxHeader toks (idx + 1)

/-- with the fuel `writeObjectCore` / `writeValue` pass (`toks.length + 1`) -/
theorem writer_nextIdx (toks : List Writer.Tok) (idx : Nat) :
    Writer.nextIdx toks (toks.length + 1) idx = wOut (Dom.nextIdx (wTape toks) idx) := by
  unfold Dom.nextIdx Dom.fuelOf
  simpa using writer_nextIdxF toks (toks.length + 1) idx

end Jomini.DomBridge
