import JominiModel.Spec.WriterFlat
import JominiModel.Proofs.Writer
import JominiModel.Proofs.TextTapeFaithful
/-
Flat documents end to end: the writer's output (from calls: C15, from a tape: C14) is a valid
layout of the text-tape slice's flat document model, hence (`TextTape.parse_flat`) parses back to
exactly the described tokens.
-/
namespace Jomini.Writer
open Jomini Jomini.Writer.Spec
open Jomini.TextTape (Scal LField Blank ValidFlat StartsBoundary renderFlat tapeFlat contentFlat)

/-! ### the writer's layout is a valid layout -/

theorem blank_nl : Blank [10] := .ws 10 [] (by decide +kernel) .nil
theorem blank_sp : Blank [32] := .ws 32 [] (by decide +kernel) .nil
theorem bnd_nl : TextTape.isBoundary 10 = true := by decide +kernel
theorem bnd_sp : TextTape.isBoundary 32 = true := by decide +kernel

theorem sepText_eq (it : FItem) :
    sepText it.op = (it.layout true).g1 ++ (it.op.text ++ (it.layout true).g2) := by
  unfold sepText FItem.layout
  by_cases h : it.op = .eq
  · simp [h, TextTape.Op.text]
  · simp [h]

theorem flatOut_eq_render : ∀ (its : List FItem) (first : Bool),
    flatOut its first = renderFlat (layoutOf its first) []
  | [], _ => rfl
  | it :: r, first => by
    have ih := flatOut_eq_render r false
    simp only [flatOut, layoutOf, renderFlat, LField.render, ih, sepText_eq]
    simp [FItem.layout, List.append_assoc]

theorem renderFlat_layout_starts (r : List FItem) : StartsBoundary (renderFlat (layoutOf r false) []) := by
  cases r with
  | nil => left; rfl
  | cons it r' =>
    right
    refine ⟨10, (it.layout false).key.text ++ ((it.layout false).g1 ++ ((it.layout false).op.text ++
      ((it.layout false).g2 ++ (it.layout false).val.text))) ++ renderFlat (layoutOf r' false) [], ?_, bnd_nl⟩
    simp [layoutOf, renderFlat, LField.render, FItem.layout]

theorem validFlat_layout : ∀ (its : List FItem) (first : Bool),
    (∀ it ∈ its, it.key.Valid ∧ it.val.Valid) → ValidFlat (layoutOf its first) []
  | [], _, _ => Blank.nil
  | it :: r, first, h => by
    have hit := h it (by simp)
    have hr := validFlat_layout r false (fun x hx => h x (by simp [hx]))
    refine ⟨?_, ?_, ?_, hit.1, hit.2, ?_, ?_, hr⟩
    · simp only [FItem.layout]; split
      · exact Blank.nil
      · exact blank_nl
    · simp only [FItem.layout]; split
      · exact Blank.nil
      · exact blank_sp
    · simp only [FItem.layout]; split
      · exact Blank.nil
      · exact blank_sp
    · intro _
      right
      simp only [FItem.layout]
      by_cases ho : it.op = .eq
      · exact ⟨61, [], by simp [ho, TextTape.Op.text], TextTape.bnd_eq⟩
      · exact ⟨32, it.op.text, by simp [ho], bnd_sp⟩
    · intro _
      exact renderFlat_layout_starts r

theorem layout_content : ∀ (its : List FItem) (first : Bool),
    (layoutOf its first).map LField.content = its.map FItem.content
  | [], _ => rfl
  | it :: r, first => by
    simp [layoutOf, layout_content r false, LField.content, FItem.content, FItem.layout]

/-- the text the writer lays out for a flat document parses to exactly its content -/
theorem parse_flatOut (its : List FItem) (hv : ∀ it ∈ its, it.key.Valid ∧ it.val.Valid)
    (hb : TextTape.hasBom (flatOut its true) = false) :
    ∃ T, TextTape.parse (flatOut its true) = .ok T false ∧
      T.map TextTape.Tok.erase = contentFlat (its.map FItem.content) := by
  rw [flatOut_eq_render] at hb ⊢
  obtain ⟨T, hp, he⟩ := TextTape.faithful_flat (layoutOf its true) [] (validFlat_layout its true hv) hb
  exact ⟨T, hp, by rw [he, layout_content]⟩

/-! ### quoted payloads are valid quoted scalars -/

theorem quoteClose_escapeEach (y r : Bytes) :
    TextTape.quoteClose (escapeEach y ++ 34 :: r) false = some (escapeEach y).length := by
  induction y with
  | nil => simp [escapeEach, TextTape.quoteClose]
  | cons x xs ih =>
    by_cases hx : isSpecial x = true
    · simp [escapeEach, escByte, hx, TextTape.quoteClose, ih]
    · have hx' : isSpecial x = false := by simpa using hx
      have h92 : x ≠ 92 := by
        intro h; subst h; simp [isSpecial] at hx'
      have h34 : x ≠ 34 := by
        intro h; subst h; simp [isSpecial] at hx'
      simp [escapeEach, escByte, hx', TextTape.quoteClose, ih, h92, h34]

/-- whatever the payload, what `write_quoted` puts between the quotes is a well-formed quoted
scalar of the text format -/
theorem quoted_scal_valid (p : Bytes) : (SCall.quo p).scal.Valid := by
  simp only [SCall.scal, Scal.Valid, if_true]
  rw [escape_eq_spec, escapeSpec]
  exact quoteClose_escapeEach _ []

/-- bytes that may stand anywhere in an unquoted scalar and also start one -/
def safeByte (c : UInt8) : Bool :=
  !TextTape.isBoundary c && !TextTape.isBlank c && c != 34 && c != 64

theorem safe_of_nat : ∀ n, n < 256 → (isDigit (UInt8.ofNat n) = true ∨ n = 45 ∨ n = 46 ∨ n = 84) →
    safeByte (UInt8.ofNat n) = true := by
  decide +kernel

theorem safe_digit (c : UInt8) (h : isDigit c = true ∨ c = 45 ∨ c = 46 ∨ c = 84) : safeByte c = true := by
  have hc : c = UInt8.ofNat c.toNat := by simp
  rw [hc]
  apply safe_of_nat c.toNat c.toNat_lt
  rcases h with h | h | h | h
  · left; rw [← hc]; exact h
  · right; left; subst h; rfl
  · right; right; left; subst h; rfl
  · right; right; right; subst h; rfl

theorem valid_of_safe (b : Bytes) (hne : b ≠ []) (h : ∀ c ∈ b, safeByte c = true) : (⟨false, b⟩ : Scal).Valid := by
  simp only [Scal.Valid, Bool.false_eq_true, if_false]
  refine ⟨fun c hc => ?_, ?_⟩
  · have := h c hc
    simp [safeByte] at this
    exact this.1.1.1
  · cases b with
    | nil => exact absurd rfl hne
    | cons c r =>
      have := h c (by simp)
      simp [safeByte] at this
      exact ⟨c, r, rfl, this.1.1.2, this.1.2, this.2⟩


theorem fmtNatF_digits : ∀ (f n : Nat), ∀ c ∈ fmtNatF f n, isDigit c = true
  | 0, _, c, h => by simp [fmtNatF] at h
  | f + 1, n, c, h => by
    unfold fmtNatF at h
    by_cases h10 : n < 10
    · simp only [h10, if_true, List.mem_singleton] at h
      subst h; exact digitChar_isDigit n h10
    · simp only [h10, if_false, List.mem_append, List.mem_singleton] at h
      rcases h with h | h
      · exact fmtNatF_digits f (n / 10) c h
      · subst h; exact digitChar_isDigit _ (Nat.mod_lt _ (by omega))

theorem fmtNat_ne_nil (n : Nat) : fmtNat n ≠ [] := by
  unfold fmtNat fmtNatF
  split <;> simp

theorem fmtNat_safe (n : Nat) : ∀ c ∈ fmtNat n, safeByte c = true :=
  fun c h => safe_digit c (.inl (fmtNatF_digits 20 n c h))

theorem fmtInt_safe (i : Int) : ∀ c ∈ fmtInt i, safeByte c = true := by
  intro c h
  unfold fmtInt at h
  split at h
  · simp only [List.mem_cons] at h
    rcases h with rfl | h
    · exact safe_digit 45 (.inr (.inl rfl))
    · exact fmtNat_safe _ c h
  · exact fmtNat_safe _ c h

theorem fmtInt_ne_nil (i : Int) : fmtInt i ≠ [] := by
  unfold fmtInt; split
  · simp
  · exact fmtNat_ne_nil _

theorem fmtIntPad_safe (w : Nat) (i : Int) : ∀ c ∈ fmtIntPad w i, safeByte c = true := by
  intro c h
  simp only [fmtIntPad, List.mem_append, List.mem_replicate] at h
  rcases h with (h | h) | h
  · split at h
    · simp only [List.mem_singleton] at h; subst h; exact safe_digit 45 (.inr (.inl rfl))
    · simp at h
  · rw [h.2]; exact safe_digit 48 (.inl (by decide))
  · split at h <;> exact fmtNat_safe _ c h

theorem fmtIntPad_ne_nil (w : Nat) (i : Int) : fmtIntPad w i ≠ [] := by
  simp only [fmtIntPad]
  split <;> simp [fmtNat_ne_nil]

theorem fmtDate_safe (f : DateFormat) (y : Int) (m d h : Nat) : ∀ c ∈ fmtDate f y m d h, safeByte c = true := by
  intro c hc
  have s45 := safe_digit 45 (.inr (.inl rfl))
  have s46 := safe_digit 46 (.inr (.inr (.inl rfl)))
  have s84 := safe_digit 84 (.inr (.inr (.inr rfl)))
  unfold fmtDate at hc
  cases f <;> simp only at hc <;> split at hc <;>
    simp only [List.mem_append, List.mem_singleton] at hc <;>
    (repeat (rcases hc with hc | hc)) <;>
    first
      | exact fmtIntPad_safe _ _ c hc
      | exact fmtInt_safe _ c hc
      | (subst hc; first | exact s45 | exact s46 | exact s84)

theorem fmtDate_ne_nil (f : DateFormat) (y : Int) (m d h : Nat) : fmtDate f y m d h ≠ [] := by
  unfold fmtDate
  cases f <;> simp only <;> split <;> simp [fmtIntPad_ne_nil, fmtInt_ne_nil]

theorem scall_valid (c : SCall) (h : c.Valid) : c.scal.Valid := by
  cases c with
  | unq b => exact h
  | quo p => exact quoted_scal_valid p
  | raw s => exact h
  | bool b => cases b <;> exact valid_of_safe _ (by simp) (by decide +kernel)
  | i32 i => exact valid_of_safe _ (fmtInt_ne_nil i) (fmtInt_safe i)
  | u32 n => exact valid_of_safe _ (fmtNat_ne_nil n) (fmtNat_safe n)
  | i64 i => exact valid_of_safe _ (fmtInt_ne_nil i) (fmtInt_safe i)
  | u64 n => exact valid_of_safe _ (fmtNat_ne_nil n) (fmtNat_safe n)
  | date f y m d hr => exact valid_of_safe _ (fmtDate_ne_nil f y m d hr) (fmtDate_safe f y m d hr)

/-! ### the writer on flat call lists -/

/-- the common shape of `write_unquoted`, `write_quoted`, `write_escaped_quotes`, `write_fmt` -/
def writeRaw (s : State) (data : Bytes) : Except WErr State :=
  writeEpilogue (put (writePreamble s) data)

theorem next_objectValue : WriteState.next .objectValue = some .key := by decide

theorem writeRaw_key (s : State) (d : Bytes) (hs : s.state = .key) (hd : s.depth = []) :
    writeRaw s d = .ok { s with out := s.out ++ (if s.needsLineTerminator then [10] else []) ++ d,
                                state := .keyValueSeparator, needsLineTerminator := false } := by
  obtain ⟨mode, depth, state, nlt, mixed, c, f, out⟩ := s
  simp only at hs hd
  subst hs hd
  cases nlt <;>
    simp [writeRaw, writePreamble, writeLineTerminator, writeEpilogue, writeIndent_eq, put, next_key]

theorem writeRaw_kvs (s : State) (d : Bytes) (hs : s.state = .keyValueSeparator) (hn : s.needsLineTerminator = false) :
    writeRaw s d = .ok { s with out := s.out ++ [61] ++ d, state := .key, needsLineTerminator := true } := by
  obtain ⟨mode, depth, state, nlt, mixed, c, f, out⟩ := s
  simp only at hs hn
  subst hs hn
  simp [writeRaw, writePreamble, writeLineTerminator, writeEpilogue, put, next_kvs]

theorem writeRaw_objectValue (s : State) (d : Bytes) (hs : s.state = .objectValue) (hn : s.needsLineTerminator = false) :
    writeRaw s d = .ok { s with out := s.out ++ d, state := .key, needsLineTerminator := true } := by
  obtain ⟨mode, depth, state, nlt, mixed, c, f, out⟩ := s
  simp only at hs hn
  subst hs hn
  simp [writeRaw, writePreamble, writeLineTerminator, writeEpilogue, put, next_objectValue, WriteState.noDataYet]

theorem step_scall (s : State) (c : SCall) : step s c.call = writeRaw s c.scal.text := by
  cases c with
  | unq b => simp [SCall.call, step, writeUnquoted, writeRaw, SCall.scal, Scal.text]
  | quo p => simp [SCall.call, step, writeQuoted, writeRaw, SCall.scal, Scal.text]
  | bool b => cases b <;> simp [SCall.call, step, writeBool, writeUnquoted, writeRaw, SCall.scal, Scal.text]
  | raw sc => rfl
  | _ => simp [SCall.call, step, writeUnquoted, writeRaw, SCall.scal, Scal.text]

theorem opTT_text (o : Writer.Op) : (opTT o).text = o.symbol := by
  cases o <;> rfl

theorem opTT_eq_iff (o : Writer.Op) : opTT o = .eq ↔ o = .eq := by
  cases o <;> simp [opTT]

theorem writeOperator_kvs (s : State) (o : Writer.Op) (hm : s.mixedMode = .disabled) :
    writeOperator s o = { s with out := s.out ++ sepText (opTT o), mode := .object, state := .objectValue } := by
  unfold writeOperator sepText
  by_cases ho : o = .eq
  · subst ho; simp [hm, put, opTT]
  · have : ¬ opTT o = .eq := by rwa [opTT_eq_iff]
    simp [hm, ho, this, put, opTT_text]

theorem step_operator (s : State) (o : Writer.Op) : step s (.operator o) = .ok (writeOperator s o) := rfl

/-- one field -/
theorem run_field (f : FField) (s : State) (hs : s.state = .key) (hd : s.depth = [])
    (hm : s.mixedMode = .disabled) :
    ∃ s', (run f.calls s).1 = s' ∧ s'.state = .key ∧ s'.depth = [] ∧ s'.mixedMode = .disabled ∧
      s'.needsLineTerminator = true ∧
      s'.out = s.out ++ ((if s.needsLineTerminator then [10] else []) ++
        (f.item.key.text ++ (sepText f.item.op ++ f.item.val.text))) := by
  cases hop : f.op with
  | none =>
    simp only [FField.calls, hop, run, step_scall]
    rw [writeRaw_key s _ hs hd]
    simp only []
    rw [writeRaw_kvs _ _ rfl rfl]
    refine ⟨_, rfl, rfl, hd, hm, rfl, ?_⟩
    simp [FField.item, hop, sepText, List.append_assoc]
  | some o =>
    simp only [FField.calls, hop, run, step_scall, step_operator]
    rw [writeRaw_key s _ hs hd]
    simp only []
    rw [writeOperator_kvs _ o (by exact hm)]
    rw [writeRaw_objectValue _ _ rfl rfl]
    refine ⟨_, rfl, rfl, hd, hm, rfl, ?_⟩
    simp [FField.item, hop, List.append_assoc]

theorem run_append (a b : List Call) (s : State) : (run (a ++ b) s).1 = (run b (run a s).1).1 := by
  induction a generalizing s with
  | nil => rfl
  | cons c cs ih =>
    simp only [List.cons_append, run]
    cases step s c <;> simp [ih]

theorem run_fcalls : ∀ (fs : List FField) (s : State), s.state = .key → s.depth = [] →
    s.mixedMode = .disabled →
    (run (fcalls fs) s).1.out = s.out ++ flatOut (fs.map FField.item) (!s.needsLineTerminator)
  | [], s, _, _, _ => by simp [fcalls, run, flatOut]
  | f :: r, s, hs, hd, hm => by
    obtain ⟨s', h1, hs', hd', hm', hn', hout⟩ := run_field f s hs hd hm
    simp only [fcalls, run_append, h1, List.map_cons, flatOut]
    rw [run_fcalls r s' hs' hd' hm', hout, hn']
    cases s.needsLineTerminator <;> simp [List.append_assoc]

/-! ### `write_tape` on the tape of a flat document -/

def scalTok (k : Scal) : Writer.Tok := if k.quoted then .quoted k.bytes else .unquoted k.bytes
def opToks (o : TextTape.Op) : List Writer.Tok := if o = .eq then [] else [.operator (opW o)]

theorem ofTT_scal (k : Scal) (X : Bytes) : ofTT (k.tok X).erase = scalTok k := by
  simp only [Scal.tok, scalTok]; split <;> rfl

theorem map_ofTT_toks (o : TextTape.Op) : o.toks.map ofTT = opToks o := by
  cases o <;> rfl

theorem tapeOfFlat_cons (it : FItem) (r : List FItem) :
    tapeOfFlat (it :: r) = scalTok it.key :: (opToks it.op ++ scalTok it.val :: tapeOfFlat r) := by
  obtain ⟨k, o, v⟩ := it
  simp [tapeOfFlat, FItem.content, contentFlat, ofTT_scal, map_ofTT_toks]

theorem writeValue_scal (toks : List Tok) (f i : Nat) (s : State) (v : Scal)
    (h : toks[i]? = some (scalTok v)) : writeValue toks (f + 1) i s = writeRaw s v.text := by
  unfold writeValue
  unfold scalTok at h
  by_cases hq : v.quoted = true
  · simp [hq] at h
    simp [h, writeEscapedQuotes, writeRaw, Scal.text, hq]
  · simp [hq] at h
    simp [h, writeUnquoted, writeRaw, Scal.text, hq]

theorem nextIdx_scal (toks : List Tok) (n i : Nat) (v : Scal) (h : toks[i]? = some (scalTok v)) :
    nextIdx toks (n + 1) i = .ok (i + 1) := by
  unfold nextIdx
  unfold scalTok at h
  by_cases hq : v.quoted = true
  · simp [hq] at h; simp [h]
  · simp [hq] at h; simp [h]

theorem idx0 (pre : List Tok) (a : Tok) (l : List Tok) : (pre ++ a :: l)[pre.length]? = some a := by simp
theorem idx1 (pre : List Tok) (a b : Tok) (l : List Tok) : (pre ++ a :: b :: l)[pre.length + 1]? = some b := by
  simp
theorem idx2 (pre : List Tok) (a b c : Tok) (l : List Tok) : (pre ++ a :: b :: c :: l)[pre.length + 2]? = some c := by
  simp

theorem writeOperator_opW (s : State) (o : TextTape.Op) (hm : s.mixedMode = .disabled) :
    writeOperator s (opW o) = { s with out := s.out ++ sepText o, mode := .object, state := .objectValue } := by
  have := writeOperator_kvs s (opW o) hm
  have h : opTT (opW o) = o := by cases o <;> rfl
  rwa [h] at this

def bindE (A : Except WErr State) (B : State → Except WErr State) : Except WErr State :=
  match A with
  | .error e => .error e
  | .ok s => B s

theorem match_assoc (A : Except WErr State) (B C : State → Except WErr State) :
    bindE (bindE A B) C = bindE A (fun s1 => bindE (B s1) C) := by
  cases A <;> rfl

theorem core_unfold_plain (toks : List Tok) (f i e : Nat) (s : State) (k v : Scal) (hi : i < e)
    (h0 : toks[i]? = some (scalTok k)) (h1 : toks[i + 1]? = some (scalTok v)) :
    writeObjectCore toks (f + 1 + 1) i e s =
      bindE (writeRaw s k.text) (fun s1 => bindE (writeRaw s1 v.text)
        (fun s2 => writeObjectCore toks (f + 1) (i + 2) e s2)) := by
  have hn := nextIdx_scal toks toks.length (i + 1) v h1
  have hv : ∀ s1, writeValue toks (f + 1) (i + 1) s1 = writeRaw s1 v.text :=
    fun s1 => writeValue_scal toks f (i + 1) s1 v h1
  have hnl : ¬ (i ≥ e) := by omega
  conv => lhs; unfold writeObjectCore
  simp only [hnl, if_false, h0, h1]
  unfold scalTok at *
  by_cases hk : k.quoted = true <;> by_cases hq : v.quoted = true <;>
    simp only [hk, hq, if_true, if_false, Bool.false_eq_true] at h0 h1 hn hv ⊢ <;>
    simp only [hn, hv, writeEscapedQuotes, writeUnquoted, writeRaw, Scal.text, hk, if_true, if_false,
      Bool.false_eq_true, List.cons_append, List.nil_append] <;>
    exact match_assoc _ _ _

theorem core_unfold_op (toks : List Tok) (f i e : Nat) (s : State) (k v : Scal) (o : Writer.Op) (hi : i < e)
    (h0 : toks[i]? = some (scalTok k)) (h1 : toks[i + 1]? = some (.operator o))
    (h2 : toks[i + 2]? = some (scalTok v)) :
    writeObjectCore toks (f + 1 + 1) i e s =
      bindE (writeRaw s k.text) (fun s1 => bindE (writeRaw (writeOperator s1 o) v.text)
        (fun s2 => writeObjectCore toks (f + 1) (i + 3) e s2)) := by
  have hn := nextIdx_scal toks toks.length (i + 2) v h2
  have hv : ∀ s1, writeValue toks (f + 1) (i + 2) s1 = writeRaw s1 v.text :=
    fun s1 => writeValue_scal toks f (i + 2) s1 v h2
  have hnl : ¬ (i ≥ e) := by omega
  conv => lhs; unfold writeObjectCore
  simp only [hnl, if_false, h0, h1]
  unfold scalTok at *
  by_cases hk : k.quoted = true <;>
    simp only [hk, if_true, if_false, Bool.false_eq_true] at h0 ⊢ <;>
    simp only [hn, hv, writeEscapedQuotes, writeUnquoted, writeRaw, Scal.text, hk, if_true, if_false,
      Bool.false_eq_true, List.cons_append, List.nil_append] <;>
    exact match_assoc _ _ _

/-- the writer after a root-level key -/
def afterKey (s : State) (k : Bytes) : State :=
  { s with out := s.out ++ (if s.needsLineTerminator then [10] else []) ++ k,
           state := .keyValueSeparator, needsLineTerminator := false }

theorem core_flat (toks : List Tok) : ∀ (doc : List FItem) (pre : List Tok) (fuel : Nat) (s : State),
    toks = pre ++ tapeOfFlat doc → doc.length + 2 ≤ fuel → s.state = .key → s.depth = [] →
    s.mixedMode = .disabled →
    ∃ s', writeObjectCore toks fuel pre.length toks.length s = .ok s' ∧
      s'.out = s.out ++ flatOut doc (!s.needsLineTerminator)
  | [], pre, fuel, s, ht, hf, _, _, _ => by
    obtain ⟨f, rfl⟩ : ∃ f, fuel = f + 1 := ⟨fuel - 1, by omega⟩
    refine ⟨s, ?_, by simp [flatOut]⟩
    have : toks.length = pre.length := by rw [ht]; simp [tapeOfFlat, contentFlat]
    unfold writeObjectCore
    simp [this]
  | it :: r, pre, fuel, s, ht, hf, hs, hd, hm => by
    obtain ⟨f, rfl⟩ : ∃ f, fuel = f + 1 + 1 := ⟨fuel - 2, by simp at hf; omega⟩
    rw [tapeOfFlat_cons] at ht
    have hlen : pre.length < toks.length := by rw [ht]; simp
    have h0 : toks[pre.length]? = some (scalTok it.key) := by rw [ht]; exact idx0 _ _ _
    have hfl : r.length + 2 ≤ f + 1 := by simp at hf; omega
    have hkey : writeRaw s it.key.text = .ok (afterKey s it.key.text) := writeRaw_key s _ hs hd
    by_cases ho : it.op = .eq
    · -- plain `=`: key, value
      simp only [opToks, ho, if_true, List.nil_append] at ht
      have h1 : toks[pre.length + 1]? = some (scalTok it.val) := by rw [ht]; exact idx1 _ _ _ _
      rw [core_unfold_plain toks f pre.length toks.length s it.key it.val hlen h0 h1, hkey]
      simp only [bindE]
      rw [writeRaw_kvs (afterKey s it.key.text) _ rfl rfl]
      simp only []
      have ih := core_flat toks r (pre ++ [scalTok it.key, scalTok it.val]) (f + 1)
        { afterKey s it.key.text with out := (afterKey s it.key.text).out ++ [61] ++ it.val.text, state := .key, needsLineTerminator := true }
        (by rw [ht]; simp) hfl rfl hd hm
      obtain ⟨s', hw, hout⟩ := ih
      refine ⟨s', ?_, ?_⟩
      · simpa using hw
      · rw [hout]
        simp only [afterKey]
        cases hnl : s.needsLineTerminator <;> simp [flatOut, sepText, ho, List.append_assoc]
    · -- any other operator: key, operator token, value
      simp only [opToks, ho, if_false, List.cons_append, List.nil_append] at ht
      have h1 : toks[pre.length + 1]? = some (.operator (opW it.op)) := by rw [ht]; exact idx1 _ _ _ _
      have h2 : toks[pre.length + 2]? = some (scalTok it.val) := by rw [ht]; exact idx2 _ _ _ _ _
      rw [core_unfold_op toks f pre.length toks.length s it.key it.val (opW it.op) hlen h0 h1 h2, hkey]
      simp only [bindE]
      rw [writeOperator_opW (afterKey s it.key.text) it.op hm]
      rw [writeRaw_objectValue _ _ rfl rfl]
      simp only []
      have ih := core_flat toks r (pre ++ [scalTok it.key, .operator (opW it.op), scalTok it.val]) (f + 1)
        { afterKey s it.key.text with out := (afterKey s it.key.text).out ++ sepText it.op ++ it.val.text, mode := .object, state := .key, needsLineTerminator := true }
        (by rw [ht]; simp) hfl rfl hd hm
      obtain ⟨s', hw, hout⟩ := ih
      refine ⟨s', ?_, ?_⟩
      · simpa using hw
      · rw [hout]
        simp only [afterKey]
        cases hnl : s.needsLineTerminator <;> simp [flatOut, List.append_assoc]


theorem tapeOfFlat_length : ∀ (doc : List FItem), doc.length ≤ (tapeOfFlat doc).length
  | [] => by simp
  | it :: r => by
    have := tapeOfFlat_length r
    rw [tapeOfFlat_cons]
    simp only [List.length_cons, List.length_append]
    omega

/-- `write_tape` over the tape of a flat document writes the flat layout -/
theorem writeTape_flat (doc : List FItem) (c : UInt8) (f : Nat) :
    ∃ s, writeTape (tapeOfFlat doc) (State.init c f) = .ok s ∧ s.out = flatOut doc true := by
  have hl := tapeOfFlat_length doc
  obtain ⟨s, hw, hout⟩ := core_flat (tapeOfFlat doc) doc [] (4 * (tapeOfFlat doc).length + 8) (State.init c f)
    (by simp) (by omega) rfl rfl rfl
  exact ⟨s, by simpa [writeTape] using hw, by simpa [State.init] using hout⟩

theorem ofTT_erase (t : TextTape.Tok) : ofTT t.erase = ofTT t := by
  cases t <;> rfl

theorem map_ofTT_erase (T : List TextTape.Tok) : (T.map TextTape.Tok.erase).map ofTT = T.map ofTT := by
  simp [List.map_map, Function.comp_def, ofTT_erase]

theorem scall_valid_validX (c : SCall) (h : c.Valid) : c.ValidX := by
  cases c <;> first | exact Or.inl h | trivial

theorem scall_validX (c : SCall) (h : c.ValidX) : c.scal.ValidX := by
  cases c with
  | unq b => exact h
  | raw s => exact h
  | quo p => exact Or.inl (quoted_scal_valid p)
  | bool b => exact Or.inl (scall_valid (.bool b) trivial)
  | i32 i => exact Or.inl (scall_valid (.i32 i) trivial)
  | u32 n => exact Or.inl (scall_valid (.u32 n) trivial)
  | i64 i => exact Or.inl (scall_valid (.i64 i) trivial)
  | u64 n => exact Or.inl (scall_valid (.u64 n) trivial)
  | date f y m d hr => exact Or.inl (scall_valid (.date f y m d hr) trivial)

end Jomini.Writer
