import JominiModel.Spec.WriterFlat
import JominiModel.Proofs.Writer
import JominiModel.Proofs.TextTapeFaithful
/-
Flat documents end to end: the writer's output (from calls: C15, from a tape: C14) is a valid
layout of the text-tape slice's flat document model, hence (`TextTape.parse_flat`) parses back to
exactly the described tokens.
-/
namespace Jomini.Writer
open Jomini Jomini.Writer.Spec
open Jomini.TextTape (Scal LField Blank ValidFlat StartsBoundary renderFlat tapeFlat contentFlat)

/-! ### the writer's layout is a valid layout -/

theorem blank_nl : Blank [10] := .ws 10 [] (by decide +kernel) .nil
theorem blank_sp : Blank [32] := .ws 32 [] (by decide +kernel) .nil
theorem bnd_nl : TextTape.isBoundary 10 = true := by decide +kernel
theorem bnd_sp : TextTape.isBoundary 32 = true := by decide +kernel

theorem sepText_eq (it : FItem) :
    sepText it.op = (it.layout true).g1 ++ (it.op.text ++ (it.layout true).g2) := by
  unfold sepText FItem.layout
  by_cases h : it.op = .eq
  · simp [h, TextTape.Op.text]
  · simp [h]

theorem flatOut_eq_render : ∀ (its : List FItem) (first : Bool),
    flatOut its first = renderFlat (layoutOf its first) []
  | [], _ => rfl
  | it :: r, first => by
    have ih := flatOut_eq_render r false
    simp only [flatOut, layoutOf, renderFlat, LField.render, ih, sepText_eq]
    simp [FItem.layout, List.append_assoc]

theorem renderFlat_layout_starts (r : List FItem) : StartsBoundary (renderFlat (layoutOf r false) []) := by
  cases r with
  | nil => left; rfl
  | cons it r' =>
    right
    refine ⟨10, (it.layout false).key.text ++ ((it.layout false).g1 ++ ((it.layout false).op.text ++
      ((it.layout false).g2 ++ (it.layout false).val.text))) ++ renderFlat (layoutOf r' false) [], ?_, bnd_nl⟩
    simp [layoutOf, renderFlat, LField.render, FItem.layout]

theorem validFlat_layout : ∀ (its : List FItem) (first : Bool),
    (∀ it ∈ its, it.key.Valid ∧ it.val.Valid) → ValidFlat (layoutOf its first) []
  | [], _, _ => Blank.nil
  | it :: r, first, h => by
    have hit := h it (by simp)
    have hr := validFlat_layout r false (fun x hx => h x (by simp [hx]))
    refine ⟨?_, ?_, ?_, hit.1, hit.2, ?_, ?_, hr⟩
    · simp only [FItem.layout]; split
      · exact Blank.nil
      · exact blank_nl
    · simp only [FItem.layout]; split
      · exact Blank.nil
      · exact blank_sp
    · simp only [FItem.layout]; split
      · exact Blank.nil
      · exact blank_sp
    · intro _
      right
      simp only [FItem.layout]
      by_cases ho : it.op = .eq
      · exact ⟨61, [], by simp [ho, TextTape.Op.text], TextTape.bnd_eq⟩
      · exact ⟨32, it.op.text, by simp [ho], bnd_sp⟩
    · intro _
      exact renderFlat_layout_starts r

theorem layout_content : ∀ (its : List FItem) (first : Bool),
    (layoutOf its first).map LField.content = its.map FItem.content
  | [], _ => rfl
  | it :: r, first => by
    simp [layoutOf, layout_content r false, LField.content, FItem.content, FItem.layout]

/-- the text the writer lays out for a flat document parses to exactly its content -/
theorem parse_flatOut (its : List FItem) (hv : ∀ it ∈ its, it.key.Valid ∧ it.val.Valid)
    (hb : TextTape.hasBom (flatOut its true) = false) :
    ∃ T, TextTape.parse (flatOut its true) = .ok T false ∧
      T.map TextTape.Tok.erase = contentFlat (its.map FItem.content) := by
  rw [flatOut_eq_render] at hb ⊢
  obtain ⟨T, hp, he⟩ := TextTape.faithful_flat (layoutOf its true) [] (validFlat_layout its true hv) hb
  exact ⟨T, hp, by rw [he, layout_content]⟩

/-! ### quoted payloads are valid quoted scalars -/

theorem quoteClose_escapeEach (y r : Bytes) :
    TextTape.quoteClose (escapeEach y ++ 34 :: r) false = some (escapeEach y).length := by
  induction y with
  | nil => simp [escapeEach, TextTape.quoteClose]
  | cons x xs ih =>
    by_cases hx : isSpecial x = true
    · simp [escapeEach, escByte, hx, TextTape.quoteClose, ih]
    · have hx' : isSpecial x = false := by simpa using hx
      have h92 : x ≠ 92 := by
        intro h; subst h; simp [isSpecial] at hx'
      have h34 : x ≠ 34 := by
        intro h; subst h; simp [isSpecial] at hx'
      simp [escapeEach, escByte, hx', TextTape.quoteClose, ih, h92, h34]

/-- whatever the payload, what `write_quoted` puts between the quotes is a well-formed quoted
scalar of the text format -/
theorem quoted_scal_valid (p : Bytes) : (SCall.quo p).scal.Valid := by
  simp only [SCall.scal, Scal.Valid, if_true]
  rw [escape_eq_spec, escapeSpec]
  exact quoteClose_escapeEach _ []

theorem scall_valid (c : SCall) (h : c.Valid) : c.scal.Valid := by
  cases c with
  | unq b => exact h
  | quo p => exact quoted_scal_valid p

/-! ### the writer on flat call lists -/

/-- the common shape of `write_unquoted`, `write_quoted`, `write_escaped_quotes`, `write_fmt` -/
def writeRaw (s : State) (data : Bytes) : Except WErr State :=
  writeEpilogue (put (writePreamble s) data)

theorem next_objectValue : WriteState.next .objectValue = some .key := by decide

theorem writeRaw_key (s : State) (d : Bytes) (hs : s.state = .key) (hd : s.depth = []) :
    writeRaw s d = .ok { s with out := s.out ++ (if s.needsLineTerminator then [10] else []) ++ d,
                                state := .keyValueSeparator, needsLineTerminator := false } := by
  obtain ⟨mode, depth, state, nlt, mixed, c, f, out⟩ := s
  simp only at hs hd
  subst hs hd
  cases nlt <;>
    simp [writeRaw, writePreamble, writeLineTerminator, writeEpilogue, writeIndent_eq, put, next_key]

theorem writeRaw_kvs (s : State) (d : Bytes) (hs : s.state = .keyValueSeparator) (hn : s.needsLineTerminator = false) :
    writeRaw s d = .ok { s with out := s.out ++ [61] ++ d, state := .key, needsLineTerminator := true } := by
  obtain ⟨mode, depth, state, nlt, mixed, c, f, out⟩ := s
  simp only at hs hn
  subst hs hn
  simp [writeRaw, writePreamble, writeLineTerminator, writeEpilogue, put, next_kvs]

theorem writeRaw_objectValue (s : State) (d : Bytes) (hs : s.state = .objectValue) (hn : s.needsLineTerminator = false) :
    writeRaw s d = .ok { s with out := s.out ++ d, state := .key, needsLineTerminator := true } := by
  obtain ⟨mode, depth, state, nlt, mixed, c, f, out⟩ := s
  simp only at hs hn
  subst hs hn
  simp [writeRaw, writePreamble, writeLineTerminator, writeEpilogue, put, next_objectValue, WriteState.noDataYet]

theorem step_scall (s : State) (c : SCall) : step s c.call = writeRaw s c.scal.text := by
  cases c with
  | unq b => simp [SCall.call, step, writeUnquoted, writeRaw, SCall.scal, Scal.text]
  | quo p => simp [SCall.call, step, writeQuoted, writeRaw, SCall.scal, Scal.text]

theorem opTT_text (o : Writer.Op) : (opTT o).text = o.symbol := by
  cases o <;> rfl

theorem opTT_eq_iff (o : Writer.Op) : opTT o = .eq ↔ o = .eq := by
  cases o <;> simp [opTT]

theorem writeOperator_kvs (s : State) (o : Writer.Op) (hm : s.mixedMode = .disabled) :
    writeOperator s o = { s with out := s.out ++ sepText (opTT o), mode := .object, state := .objectValue } := by
  unfold writeOperator sepText
  by_cases ho : o = .eq
  · subst ho; simp [hm, put, opTT]
  · have : ¬ opTT o = .eq := by rwa [opTT_eq_iff]
    simp [hm, ho, this, put, opTT_text]

theorem step_operator (s : State) (o : Writer.Op) : step s (.operator o) = .ok (writeOperator s o) := rfl

/-- one field -/
theorem run_field (f : FField) (s : State) (hs : s.state = .key) (hd : s.depth = [])
    (hm : s.mixedMode = .disabled) :
    ∃ s', (run f.calls s).1 = s' ∧ s'.state = .key ∧ s'.depth = [] ∧ s'.mixedMode = .disabled ∧
      s'.needsLineTerminator = true ∧
      s'.out = s.out ++ ((if s.needsLineTerminator then [10] else []) ++
        (f.item.key.text ++ (sepText f.item.op ++ f.item.val.text))) := by
  cases hop : f.op with
  | none =>
    simp only [FField.calls, hop, run, step_scall]
    rw [writeRaw_key s _ hs hd]
    simp only []
    rw [writeRaw_kvs _ _ rfl rfl]
    refine ⟨_, rfl, rfl, hd, hm, rfl, ?_⟩
    simp [FField.item, hop, sepText, List.append_assoc]
  | some o =>
    simp only [FField.calls, hop, run, step_scall, step_operator]
    rw [writeRaw_key s _ hs hd]
    simp only []
    rw [writeOperator_kvs _ o (by exact hm)]
    rw [writeRaw_objectValue _ _ rfl rfl]
    refine ⟨_, rfl, rfl, hd, hm, rfl, ?_⟩
    simp [FField.item, hop, List.append_assoc]

theorem run_append (a b : List Call) (s : State) : (run (a ++ b) s).1 = (run b (run a s).1).1 := by
  induction a generalizing s with
  | nil => rfl
  | cons c cs ih =>
    simp only [List.cons_append, run]
    cases step s c <;> simp [ih]

theorem run_fcalls : ∀ (fs : List FField) (s : State), s.state = .key → s.depth = [] →
    s.mixedMode = .disabled →
    (run (fcalls fs) s).1.out = s.out ++ flatOut (fs.map FField.item) (!s.needsLineTerminator)
  | [], s, _, _, _ => by simp [fcalls, run, flatOut]
  | f :: r, s, hs, hd, hm => by
    obtain ⟨s', h1, hs', hd', hm', hn', hout⟩ := run_field f s hs hd hm
    simp only [fcalls, run_append, h1, List.map_cons, flatOut]
    rw [run_fcalls r s' hs' hd' hm', hout, hn']
    cases s.needsLineTerminator <;> simp [List.append_assoc]

end Jomini.Writer
