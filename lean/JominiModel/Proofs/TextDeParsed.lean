import JominiModel.Proofs.TextDeTotal
import JominiModel.Proofs.TextEndToEnd
import JominiModel.Proofs.TextTapeDomWf
/-
C05, tape path of the text deserializer, UNCONDITIONAL on parsed tapes: the structural hypothesis `WfT` of
`C05_textde_tape_no_panic` holds for every tape the text parser model accepts.  It is derived from texttape's
grammar of accepted tapes (`parse_gr` / `gr_sound`: every `Object` token's body and the root are regular
`key [op] value` walks, `C06_text_object_grammar`), the link invariant `C06_text_inv` and `parse_hinv`
(a `Header` is followed by a container).
-/
namespace Jomini.TextE2E
open Jomini Jomini.TextTape Jomini.TextDe

theorem deTape_get (T : List Tok) (i : Nat) : (toTextDeTape T)[i]? = (T[i]?).map toTTok := by
  simp [toTextDeTape]

theorem deTape_len (T : List Tok) : (toTextDeTape T).length = T.length := by simp [toTextDeTape]

/-- where the value starts behind a key at `ti`, given the token that follows the key -/
def viOf (ti : Nat) : TTok → Nat
  | .op _ => ti + 2
  | _ => ti + 1
def opOf : TTok → Option TextDe.Op
  | .op o => some o
  | _ => none

/-- `FieldsIter::next` at a key token -/
theorem fieldsNext_key (toks : List TTok) (ti e : Nat) (hlt : ti < e) (k : TTok) (hk : toks[ti]? = some k) (s : Bytes)
    (hks : k = .quo s ∨ k = .unq s ∨ k = .param s ∨ k = .undef s) (nxt : TTok) (hn : toks[ti + 1]? = some nxt) :
    fieldsNext toks ti e =
      (match nextIdx toks (toks.length + 1) (viOf ti nxt) with
       | .error x => .error x
       | .ok ti' => .ok (some (s, opOf nxt, viOf ti nxt, ti'))) := by
  have hne : ¬ (ti ≥ e) := by omega
  rcases hks with rfl | rfl | rfl | rfl <;> cases nxt <;> simp [fieldsNext, tokAt, hk, hn, hne, viOf, opOf] <;> rfl

/-- `next_idx` on a value that is one well-linked subtree -/
theorem nextIdx_of_valueNext (T : List Tok) (v e n F : Nat) (hve : v < e)
    (h : Dom.valueNext (toDomTape T) v e = some n) :
    nextIdx (toTextDeTape T) (F + 1) v = .ok n ∧ v < n ∧ n ≤ e := by
  unfold Dom.valueNext at h
  simp only [toDomTape_get] at h
  cases hv : T[v]? with
  | none => simp [hv] at h
  | some t =>
    cases t with
    | unquoted s => simp [hv, toDomTok] at h; subst h; simp [nextIdx, tokAt, deTape_get, hv, toTTok]; omega
    | quoted s => simp [hv, toDomTok] at h; subst h; simp [nextIdx, tokAt, deTape_get, hv, toTTok]; omega
    | parameter s => simp [hv, toDomTok] at h; subst h; simp [nextIdx, tokAt, deTape_get, hv, toTTok]; omega
    | undefParameter s => simp [hv, toDomTok] at h; subst h; simp [nextIdx, tokAt, deTape_get, hv, toTTok]; omega
    | array e' m =>
      simp only [hv, Option.map_some, toDomTok] at h
      split at h
      · rename_i hc; simp only [Option.some.injEq] at h; subst h
        simp [nextIdx, tokAt, deTape_get, hv, toTTok]; omega
      · simp at h
    | object e' m =>
      simp only [hv, Option.map_some, toDomTok] at h
      split at h
      · rename_i hc; simp only [Option.some.injEq] at h; subst h
        simp [nextIdx, tokAt, deTape_get, hv, toTTok]; omega
      · simp at h
    | header s =>
      simp only [hv, Option.map_some, toDomTok] at h
      cases hv1 : T[v + 1]? with
      | none => simp [hv1] at h
      | some t1 =>
        cases t1 <;> simp only [hv1, Option.map_some, toDomTok] at h <;> try (simp at h)
        all_goals
          obtain ⟨hc, rfl⟩ := h
          simp [nextIdx, nextIdxHeader, tokAt, deTape_get, hv, hv1, toTTok]; omega
    | mixedContainer => simp [hv, toDomTok] at h
    | operator o => simp [hv, toDomTok] at h
    | endTok j => simp [hv, toDomTok] at h

/-- the token behind the key decides where the value starts: the two models agree -/
theorem opValue_agree (p : Nat) (nx : Tok) :
    (Dom.opValueOf p (toDomTok nx)).2 = viOf p (toTTok nx) := by
  cases nx <;> rfl

theorem viOf_gt (p : Nat) (t : TTok) : p < viOf p t := by cases t <;> simp [viOf]

theorem key_agree (t : Tok) (b : Bytes) (h : (toDomTok t).keyScalar? = some b) :
    toTTok t = .quo b ∨ toTTok t = .unq b ∨ toTTok t = .param b ∨ toTTok t = .undef b := by
  cases t <;> simp [toDomTok, Dom.TTok.keyScalar?] at h <;> subst h <;> simp [toTTok]

/-- a regular object walk of the DOM model is a walk `FieldsIter` can do: keys only, every step inside the range,
forward, landing exactly on its end or on the `MixedContainer` marker -/
theorem walkOk_of_objWalk (T : List Tok) (e : Nat) : ∀ (f p q : Nat),
    Dom.objWalkF f (toDomTape T) p e = some q → walkOk (toTextDeTape T) f p e = true
  | 0, p, q, h => by simp [Dom.objWalkF] at h
  | f + 1, p, q, h => by
      unfold Dom.objWalkF at h
      by_cases hpe : p ≥ e
      · simp only [hpe, ↓reduceIte] at h
        split at h
        · rename_i hq
          simp [walkOk, fieldsNext, hpe, hq]
        · simp at h
      · simp only [hpe, ↓reduceIte, toDomTape_get] at h
        have hlt : p < e := by omega
        cases hp : T[p]? with
        | none => simp [hp] at h
        | some k =>
          simp only [hp, Option.map_some] at h
          by_cases hm : toDomTok k = .mixedContainer
          · have hk : k = .mixedContainer := by cases k <;> simp [toDomTok] at hm <;> rfl
            subst hk
            simp [walkOk, fieldsNext, hpe, tokAt, deTape_get, hp, toTTok, hlt]
          · simp only [hm, ↓reduceIte] at h
            cases hks : (toDomTok k).keyScalar? with
            | none => simp [hks] at h
            | some b =>
              simp only [hks] at h
              cases hn : T[p + 1]? with
              | none => simp [hn] at h
              | some nx =>
                simp only [hn, Option.map_some] at h
                split at h
                · rename_i hvi
                  cases hvn : Dom.valueNext (toDomTape T) (Dom.opValueOf p (toDomTok nx)).2 e with
                  | none => simp [hvn] at h
                  | some n =>
                    simp only [hvn] at h
                    have ih := walkOk_of_objWalk T e f n q h
                    obtain ⟨hni, hlt2, hle⟩ := nextIdx_of_valueNext T _ e n (toTextDeTape T).length hvi hvn
                    have hfn := fieldsNext_key (toTextDeTape T) p e hlt (toTTok k) (by simp [deTape_get, hp]) b
                      (key_agree k b hks) (toTTok nx) (by simp [deTape_get, hn])
                    rw [opValue_agree] at hni hlt2
                    rw [hni] at hfn
                    simp only [walkOk, hfn, ih, Bool.and_true, Bool.and_eq_true, decide_eq_true_eq]
                    refine ⟨?_, hle⟩
                    have := viOf_gt p (toTTok nx)
                    omega
                · simp at h

/-- `read_array` on an object flagged mixed: skipping the fields with `next_idx` finds the `MixedContainer` marker the
regular walk ends on, within the fuel -/
theorem go_of_objWalk (T : List Tok) (e : Nat) : ∀ (f p q : Nat),
    Dom.objWalkF f (toDomTape T) p e = some q → q < e →
    p ≤ q ∧ ∀ g, q - p < g → readArray.go (toTextDeTape T) g p = .ok q
  | 0, p, q, h, _ => by simp [Dom.objWalkF] at h
  | f + 1, p, q, h, hq => by
      unfold Dom.objWalkF at h
      by_cases hpe : p ≥ e
      · simp only [hpe, ↓reduceIte] at h
        split at h
        · simp only [Option.some.injEq] at h; omega
        · simp at h
      · simp only [hpe, ↓reduceIte, toDomTape_get] at h
        have hlt : p < e := by omega
        cases hp : T[p]? with
        | none => simp [hp] at h
        | some k =>
          simp only [hp, Option.map_some] at h
          by_cases hm : toDomTok k = .mixedContainer
          · have hk : k = .mixedContainer := by cases k <;> simp [toDomTok] at hm <;> rfl
            subst hk
            simp only [toDomTok, ↓reduceIte, Option.some.injEq] at h
            subst h
            refine ⟨Nat.le_refl _, fun g hg => ?_⟩
            obtain ⟨g', rfl⟩ : ∃ g', g = g' + 1 := ⟨g - 1, by omega⟩
            simp [readArray.go, deTape_get, hp, toTTok]
          · simp only [hm, ↓reduceIte] at h
            cases hks : (toDomTok k).keyScalar? with
            | none => simp [hks] at h
            | some b =>
              simp only [hks] at h
              cases hn : T[p + 1]? with
              | none => simp [hn] at h
              | some nx =>
                simp only [hn, Option.map_some] at h
                split at h
                · rename_i hvi
                  cases hvn : Dom.valueNext (toDomTape T) (Dom.opValueOf p (toDomTok nx)).2 e with
                  | none => simp [hvn] at h
                  | some n =>
                    simp only [hvn] at h
                    obtain ⟨hnq, hgo⟩ := go_of_objWalk T e f n q h hq
                    have hL : ∃ L, (toTextDeTape T).length = L + 1 := by
                      have : p < T.length := by
                        have := List.getElem?_eq_some_iff.mp hp; exact this.1
                      exact ⟨T.length - 1, by rw [deTape_len]; omega⟩
                    obtain ⟨L, hL⟩ := hL
                    obtain ⟨_, hlt2, hle⟩ := nextIdx_of_valueNext T _ e n L hvi hvn
                    rw [opValue_agree] at hlt2 hvn hvi
                    have hvgt := viOf_gt p (toTTok nx)
                    refine ⟨by omega, fun g hg => ?_⟩
                    -- the key
                    have hknm : (toTextDeTape T)[p]? ≠ some .mixedC := by
                      rw [deTape_get, hp]; intro hc
                      simp only [Option.map_some, Option.some.injEq] at hc
                      rcases key_agree k b hks with h' | h' | h' | h' <;> rw [h'] at hc <;> cases hc
                    have hkey : nextIdx (toTextDeTape T) ((toTextDeTape T).length + 1) p = .ok (p + 1) := by
                      rcases key_agree k b hks with h' | h' | h' | h' <;> simp [nextIdx, tokAt, deTape_get, hp, h']
                    obtain ⟨g1, rfl⟩ : ∃ g1, g = g1 + 1 := ⟨g - 1, by omega⟩
                    rw [readArray.go]
                    simp only [hknm, ↓reduceIte, hkey]
                    -- the operator or the value behind the key
                    have hval : (toTextDeTape T)[p + 1]? ≠ some .mixedC ∧
                        nextIdx (toTextDeTape T) ((toTextDeTape T).length + 1) (p + 1) = .ok n := by
                      have hB : ∀ (hv1 : viOf p (toTTok nx) = p + 1), toTTok nx ≠ .mixedC →
                          (toTextDeTape T)[p + 1]? ≠ some .mixedC ∧
                          nextIdx (toTextDeTape T) ((toTextDeTape T).length + 1) (p + 1) = .ok n := by
                        intro hv1 hnm
                        rw [hv1] at hvn hvi
                        refine ⟨by rw [deTape_get, hn]; simpa using hnm, ?_⟩
                        rw [hL]
                        exact (nextIdx_of_valueNext T _ e n (L + 1) hvi hvn).1
                      cases nx with
                      | operator o =>
                        simp only [toTTok, viOf] at hvn hvi
                        refine ⟨by simp [deTape_get, hn, toTTok], ?_⟩
                        rw [hL, nextIdx]
                        simp only [tokAt, deTape_get, hn, toTTok, Option.map_some]
                        exact (nextIdx_of_valueNext T _ e n L hvi hvn).1
                      | mixedContainer => simp [viOf, toTTok, Dom.valueNext, toDomTape_get, hn, toDomTok] at hvn
                      | endTok j => simp [viOf, toTTok, Dom.valueNext, toDomTape_get, hn, toDomTok] at hvn
                      | array e' m => exact hB rfl (by simp [toTTok])
                      | object e' m => exact hB rfl (by simp [toTTok])
                      | unquoted s' => exact hB rfl (by simp [toTTok])
                      | quoted s' => exact hB rfl (by simp [toTTok])
                      | parameter s' => exact hB rfl (by simp [toTTok])
                      | undefParameter s' => exact hB rfl (by simp [toTTok])
                      | header s' => exact hB rfl (by simp [toTTok])
                    obtain ⟨g2, rfl⟩ : ∃ g2, g1 = g2 + 1 := ⟨g1 - 1, by omega⟩
                    rw [readArray.go]
                    simp only [hval.1, ↓reduceIte, hval.2]
                    exact hgo g2 (by omega)
                · simp at h

/-- **every tape the text parser model accepts satisfies `WfT`**, the structural hypothesis of the tape deserializer's
totality theorem: links both ways, every `Object` token's fields and the root fields can be walked by `FieldsIter`
(keys only, inside the range, forward, ending on the range's end or on the `MixedContainer` marker), `read_array` finds
the marker of an object flagged mixed, a `Header` is followed by its container -/
theorem wfT_of_parse (input : Bytes) (T : List Tok) (b : Bool) (h : parse input = .ok T b) :
    WfT (toTextDeTape T) = true := by
  have hw := C06_text_inv input T b h
  have hh := parse_hinv input T b h
  obtain ⟨x, hx⟩ := parse_gr input T b h
  obtain ⟨hO, hS⟩ := gr_sound hx T [] [] (by simp) rfl
  simp only [WfT, Bool.and_eq_true, List.all_eq_true, List.mem_range, deTape_len]
  refine ⟨fun i hi => ?_, ?_⟩
  · -- every token
    cases hti : T[i]? with
    | none => simp [tokOk, deTape_get, hti]
    | some t =>
      cases t with
      | array e m =>
        obtain ⟨h1, h2⟩ := hw.start_link i e ⟨m, .inl hti⟩
        have he : e < T.length := (List.getElem?_eq_some_iff.mp h2).1
        simp only [tokOk, deTape_get, hti, toTTok, Option.map_some, h2, deTape_len, Bool.and_eq_true, decide_eq_true_eq]
        exact ⟨⟨h1, he⟩, trivial⟩
      | object e m =>
        obtain ⟨h1, h2⟩ := hw.start_link i e ⟨m, .inr hti⟩
        have he : e < T.length := (List.getElem?_eq_some_iff.mp h2).1
        obtain ⟨q, hq, hmq⟩ := hO i e m (Nat.zero_le _) (by simpa using hi) hti
        have hwalk := walkOk_of_objWalk T e _ (i + 1) q hq
        simp only [Dom.fuelOf, toDomTape_size] at hwalk
        have hra : (match readArray (toTextDeTape T) i with | .error _ => false | .ok _ => true) = true := by
          cases m with
          | false => simp [readArray, tokAt, deTape_get, hti, toTTok]
          | true =>
            have hgo := (go_of_objWalk T e _ (i + 1) q hq (hmq rfl)).2 (T.length + 1) (by have := hmq rfl; omega)
            simp [readArray, tokAt, deTape_get, hti, toTTok, deTape_len, hgo]
        simp only [tokOk, deTape_get, hti, toTTok, Option.map_some, h2, deTape_len, hwalk, Bool.and_true,
          Bool.and_eq_true, decide_eq_true_eq]
        exact ⟨⟨⟨h1, he⟩, trivial⟩, hra⟩
      | header s =>
        obtain ⟨e, m, hn⟩ := hh i s hti
        rcases hn with hn | hn <;> simp [tokOk, deTape_get, hti, hn, toTTok]
      | mixedContainer => simp [tokOk, deTape_get, hti, toTTok]
      | unquoted s => simp [tokOk, deTape_get, hti, toTTok]
      | quoted s => simp [tokOk, deTape_get, hti, toTTok]
      | parameter s => simp [tokOk, deTape_get, hti, toTTok]
      | undefParameter s => simp [tokOk, deTape_get, hti, toTTok]
      | operator o => simp [tokOk, deTape_get, hti, toTTok]
      | endTok j => simp [tokOk, deTape_get, hti, toTTok]
  · -- the root fields
    obtain ⟨q, hq, _⟩ := hS (T.length + 1) (by omega)
    simp only [Nat.zero_add] at hq
    exact walkOk_of_objWalk T T.length _ 0 q hq

/-- **C05, text deserializer on parsed tapes, unconditional**: for EVERY input the text tape parser model accepts, every
encoding and every target type, the tape deserializer model on the resulting tape never yields the panic / out-of-fuel
outcome -- no `tokens[i]` out of range, the `debug_assert!` of `FieldsIter::next` unreachable, all loops within their
fuel.  (The hypothesis `WfT` of `C05_textde_tape_no_panic` is discharged by the grammar of accepted tapes,
`C06_text_object_grammar`.) -/
theorem C05_textde_on_parsed_tapes (enc : Enc) (ty : Ty) (input : Bytes) (T : List Tok) (b : Bool)
    (h : parse input = .ok T b) : deTape enc ty (toTextDeTape T) ≠ .error .panic :=
  C05_textde_tape_no_panic enc ty (toTextDeTape T) (wfT_of_parse input T b h)

end Jomini.TextE2E
