import JominiModel.Proofs.BinTapeCut
/-
C06 (binary half), payload clause: every plain token of an accepted tape is the decoding of a
lexeme (16-bit id + payload bytes) that stands at some offset of the input.  The model's tokens carry
values, not positions, so the position is existential (`Sourced`); `LexTok.*_bytes` spell the
decoding out on the raw bytes.
-/
namespace Jomini.BinTape
open Jomini


/-- `LexTok d x`: the plain token `x` is the decoding of the lexeme that starts at the front of `d`
(its 16-bit id, then its payload bytes) -/
inductive LexTok : Bytes → BTok → Prop
  | u32 {d rest h r : Bytes} : readId d = some (L.u32, rest) → split? 4 rest = some (h, r) → LexTok d (.u32 (leNat h))
  | u64 {d rest h r : Bytes} : readId d = some (L.u64, rest) → split? 8 rest = some (h, r) → LexTok d (.u64 (leNat h))
  | i64 {d rest h r : Bytes} : readId d = some (L.i64, rest) → split? 8 rest = some (h, r) → LexTok d (.i64 (toSigned 64 (leNat h)))
  | i32 {d rest h r : Bytes} : readId d = some (L.i32, rest) → split? 4 rest = some (h, r) → LexTok d (.i32 (toSigned 32 (leNat h)))
  | f32 {d rest h r : Bytes} : readId d = some (L.f32, rest) → split? 4 rest = some (h, r) → LexTok d (.f32 h)
  | f64 {d rest h r : Bytes} : readId d = some (L.f64, rest) → split? 8 rest = some (h, r) → LexTok d (.f64 h)
  | bool {d rest r : Bytes} {b : Bool} : readId d = some (L.bool, rest) → readBool rest = some (b, r) → LexTok d (.bool b)
  | quoted {d rest s r : Bytes} : readId d = some (L.quoted, rest) → readString rest = some (s, r) → LexTok d (.quoted s)
  | unquoted {d rest s r : Bytes} : readId d = some (L.unquoted, rest) → readString rest = some (s, r) → LexTok d (.unquoted s)
  | rgb {d rest r : Bytes} {a b c : Nat} {al : Option Nat} :
      readId d = some (L.rgb, rest) → readRgb rest = .ok (.rgb a b c al, r) → LexTok d (.rgb a b c al)
  | token {d rest : Bytes} {n : Nat} : readId d = some (n, rest) → LexTok d (.token n)
  | equal {d rest : Bytes} : readId d = some (L.equal, rest) → LexTok d .equal

/-- a tape token is accounted for by the input: structural (`Array`/`Object`/`End`/`MixedContainer`),
or the decoding of the lexeme at some offset of the input -/
def Sourced (data : Bytes) (x : BTok) : Prop :=
  x.isPlain = false ∨ x = .mixed ∨ ∃ off, off ≤ data.length ∧ LexTok (data.drop off) x

theorem sourced_of_lex {data dpre : Bytes} {x : BTok} (hs : IsSuffix dpre data) (h : LexTok dpre x) : Sourced data x := by
  obtain ⟨c, rfl⟩ := hs
  exact Or.inr (Or.inr ⟨c.length, by simp, by simpa using h⟩)

/-- every token of `tape'` is a token of `tape` or accounted for -/
def Sub (data : Bytes) (tape tape' : Tape) : Prop := ∀ x ∈ tape', x ∈ tape ∨ Sourced data x

theorem Sub.refl (data : Bytes) (tape : Tape) : Sub data tape tape := fun _ hx => Or.inl hx
theorem Sub.trans {data : Bytes} {a b c : Tape} (h1 : Sub data a b) (h2 : Sub data b c) : Sub data a c := by
  intro x hx
  rcases h2 x hx with h | h
  · exact h1 x h
  · exact Or.inr h
theorem Sub.snoc {data : Bytes} (tape : Tape) {x : BTok} (h : Sourced data x) : Sub data tape (tape ++ [x]) := by
  intro y hy
  simp at hy
  rcases hy with hy | rfl
  · exact Or.inl hy
  · exact Or.inr h
theorem Sub.set {data : Bytes} (tape : Tape) (i : Nat) {x : BTok} (h : Sourced data x) : Sub data tape (tape.set i x) := by
  intro y hy
  rcases List.mem_or_eq_of_mem_set hy with h1 | rfl
  · exact Or.inl h1
  · exact Or.inr h

theorem Sub.all {data : Bytes} {a b : Tape} (h : Sub data a b) (ha : ∀ x ∈ a, Sourced data x) : ∀ x ∈ b, Sourced data x := by
  intro x hx
  rcases h x hx with h1 | h1
  · exact ha x h1
  · exact h1

theorem readRgb_isRgb {d r : Bytes} {t : BTok} (h : readRgb d = .ok (t, r)) : ∃ a b c al, t = .rgb a b c al := by
  unfold readRgb at h
  repeat' split at h
  all_goals first | (cases h; done) | (simp at h; exact ⟨_, _, _, _, h.1.symm⟩)

theorem parseFixed_split {n : Nat} {mk : Bytes → BTok} {T T' : Tape} {d r : Bytes} (h : parseFixed n mk T d = .ok (T', r)) :
    ∃ hd, split? n d = some (hd, r) ∧ T' = T ++ [mk hd] := by
  unfold parseFixed at h
  cases hs : split? n d with
  | none => simp [hs] at h
  | some p => obtain ⟨hd, rest⟩ := p; simp [hs] at h; exact ⟨hd, by rw [h.2], h.1.symm⟩

theorem pushEnd_sub {data : Bytes} {tape : Tape} {p : Nat} {T' : Tape} {g : Nat} {s : PState}
    (h : pushEnd tape p = .ok (T', g, s)) : Sub data tape T' := by
  unfold pushEnd at h
  split at h
  · have := (closeTo_eq h).1; simp only at this; rw [this]
    exact (Sub.set tape p (Or.inl rfl)).trans (Sub.snoc _ (Or.inl rfl))
  · have := (closeTo_eq h).1; simp only at this; rw [this]
    exact (Sub.set tape p (Or.inl rfl)).trans (Sub.snoc _ (Or.inl rfl))
  · cases h

theorem mixedInsert1_sub {data : Bytes} {tape t' : Tape} (h : mixedInsert1 tape = .ok t') : Sub data tape t' := by
  unfold mixedInsert1 at h
  cases hp : pop? tape with
  | none => simp [hp] at h
  | some p =>
    obtain ⟨t1, x⟩ := p
    simp [hp] at h; subst h
    rw [pop?_length hp]
    intro y hy; simp at hy
    rcases hy with hy | rfl | rfl
    · exact Or.inl (by simp [hy])
    · exact Or.inr (Or.inr (Or.inl rfl))
    · exact Or.inl (by simp)

theorem mixedInsert2_sub {data : Bytes} {tape t' : Tape} (h : mixedInsert2 tape = .ok t') : Sub data tape t' := by
  unfold mixedInsert2 at h
  cases hp : pop? tape with
  | none => simp [hp] at h
  | some p =>
    obtain ⟨t1, x⟩ := p
    simp only [hp] at h
    cases hp2 : pop? t1 with
    | none => simp [hp2] at h
    | some p2 =>
      obtain ⟨t0, y⟩ := p2
      simp [hp2] at h; subst h
      rw [pop?_length hp, pop?_length hp2]
      intro z hz; simp at hz
      rcases hz with hz | rfl | rfl | rfl
      · exact Or.inl (by simp [hz])
      · exact Or.inr (Or.inr (Or.inl rfl))
      · exact Or.inl (by simp)
      · exact Or.inl (by simp)

theorem scalarArm_sub {data : Bytes} {r : Except Err (Tape × Bytes)} {tape : Tape} {parent : Nat} {state : PState} {st' : St}
    (hr : ∀ T' d', r = .ok (T', d') → ∃ x, T' = tape ++ [x] ∧ Sourced data x)
    (h : scalarArm r parent state = .ok st') : Sub data tape st'.tape := by
  unfold scalarArm at h
  cases r with
  | error e => cases h
  | ok p =>
    obtain ⟨T', d'⟩ := p
    obtain ⟨x, rfl, hx⟩ := hr T' d' rfl
    simp only at h
    cases hn : nextState state with
    | none => simp [hn] at h
    | some s' => simp [hn] at h; subst h; exact Sub.snoc tape hx

theorem equalArm_sub {data dpre : Bytes} {tape : Tape} {parent : Nat} {state : PState} {d : Bytes} {st' : St}
    (hr : readId dpre = some (L.equal, d)) (hs : IsSuffix dpre data)
    (h : equalArm tape parent state d = .ok st') : Sub data tape st'.tape := by
  have heq : Sourced data .equal := sourced_of_lex hs (LexTok.equal hr)
  unfold equalArm at h
  split at h
  · simp at h; subst h; exact Sub.refl _ _
  · cases hso : setParentToObject tape parent with
    | error e => simp [hso] at h
    | ok t2 =>
      simp [hso] at h; subst h
      obtain ⟨e, _, rfl⟩ := setParentToObject_ok hso
      exact Sub.set tape parent (Or.inl rfl)
  · simp at h; subst h; exact Sub.snoc tape heq
  · cases hp : pop? tape with
    | none => simp [hp] at h
    | some p =>
      obtain ⟨t1, last⟩ := p
      have ht := pop?_length hp
      subst ht
      simp only [hp] at h
      split at h
      · cases h
      · cases h
      · split at h
        · cases hso : setParentToObject t1 parent with
          | error e => simp [hso] at h
          | ok t2 =>
            simp [hso] at h; subst h
            obtain ⟨e, _, rfl⟩ := setParentToObject_ok hso
            intro y hy
            simp at hy
            rcases hy with hy | rfl
            · rcases List.mem_or_eq_of_mem_set (List.mem_of_mem_take hy) with h1 | rfl
              · exact Or.inl (by simp [h1])
              · exact Or.inr (Or.inl rfl)
            · exact Or.inl (by simp)
        · simp at h; subst h
          intro y hy
          simp at hy
          rcases hy with hy | rfl | rfl | rfl
          · exact Or.inl (by simp [hy])
          · exact Or.inr (Or.inr (Or.inl rfl))
          · exact Or.inl (by simp)
          · exact Or.inr heq
  · cases h

theorem tokenArm_sub {data dpre : Bytes} {tape : Tape} {parent : Nat} {state : PState} {d : Bytes} {tok : Nat} {st' : St}
    (hr : readId dpre = some (tok, d)) (hs : IsSuffix dpre data)
    (h : tokenArm false 0 tape parent state d tok = .ok st') : Sub data tape st'.tape := by
  unfold tokenArm at h
  by_cases c1 : tok = L.u32
  · subst c1; rw [if_pos rfl] at h
    refine scalarArm_sub ?_ h
    intro T' d' hh; obtain ⟨hd, h1, h2⟩ := parseFixed_split hh
    exact ⟨_, h2, sourced_of_lex hs (LexTok.u32 hr h1)⟩
  rw [if_neg c1] at h
  by_cases c2 : tok = L.u64
  · subst c2; rw [if_pos rfl] at h
    refine scalarArm_sub ?_ h
    intro T' d' hh; obtain ⟨hd, h1, h2⟩ := parseFixed_split hh
    exact ⟨_, h2, sourced_of_lex hs (LexTok.u64 hr h1)⟩
  rw [if_neg c2] at h
  by_cases c3 : tok = L.i32
  · subst c3; rw [if_pos rfl] at h
    cases hsa : scalarArm (parseI32 tape d) parent state with
    | error e => simp [hsa] at h
    | ok st =>
      simp [hsa] at h; subst h
      refine scalarArm_sub ?_ hsa
      intro T' d' hh; obtain ⟨hd, h1, h2⟩ := parseFixed_split hh
      exact ⟨_, h2, sourced_of_lex hs (LexTok.i32 hr h1)⟩
  rw [if_neg c3] at h
  by_cases c4 : tok = L.bool
  · subst c4; rw [if_pos rfl] at h
    refine scalarArm_sub ?_ h
    intro T' d' hh
    unfold parseBool at hh
    cases hb : readBool d with
    | none => simp [hb] at hh
    | some p => obtain ⟨b, r⟩ := p; simp [hb] at hh; exact ⟨_, hh.1.symm, sourced_of_lex hs (LexTok.bool hr hb)⟩
  rw [if_neg c4] at h
  by_cases c5 : tok = L.quoted
  · subst c5; rw [if_pos rfl] at h
    refine scalarArm_sub ?_ h
    intro T' d' hh
    unfold parseQuoted at hh
    cases hb : readString d with
    | none => simp [hb] at hh
    | some p => obtain ⟨b, r⟩ := p; simp [hb] at hh; exact ⟨_, hh.1.symm, sourced_of_lex hs (LexTok.quoted hr hb)⟩
  rw [if_neg c5] at h
  by_cases c6 : tok = L.unquoted
  · subst c6; rw [if_pos rfl] at h
    refine scalarArm_sub ?_ h
    intro T' d' hh
    unfold parseUnquoted at hh
    cases hb : readString d with
    | none => simp [hb] at hh
    | some p => obtain ⟨b, r⟩ := p; simp [hb] at hh; exact ⟨_, hh.1.symm, sourced_of_lex hs (LexTok.unquoted hr hb)⟩
  rw [if_neg c6] at h
  by_cases c7 : tok = L.f32
  · subst c7; rw [if_pos rfl] at h
    refine scalarArm_sub ?_ h
    intro T' d' hh; obtain ⟨hd, h1, h2⟩ := parseFixed_split hh
    exact ⟨_, h2, sourced_of_lex hs (LexTok.f32 hr h1)⟩
  rw [if_neg c7] at h
  by_cases c8 : tok = L.f64
  · subst c8; rw [if_pos rfl] at h
    refine scalarArm_sub ?_ h
    intro T' d' hh; obtain ⟨hd, h1, h2⟩ := parseFixed_split hh
    exact ⟨_, h2, sourced_of_lex hs (LexTok.f64 hr h1)⟩
  rw [if_neg c8] at h
  by_cases c9 : tok = L.open_
  · rw [if_pos c9] at h
    unfold openArm at h
    split at h
    · simp at h; subst h; exact Sub.snoc tape (Or.inl rfl)
    · split at h
      · cases h
      · cases hrd : readId d with
        | none => simp [hrd] at h
        | some p =>
          obtain ⟨x, nd⟩ := p
          simp only [hrd] at h
          split at h
          · simp at h; subst h; exact Sub.refl _ _
          · cases h
  rw [if_neg c9] at h
  by_cases c10 : tok = L.close
  · rw [if_pos c10] at h
    unfold closeArm at h
    simp only at h
    split at h
    · cases h
    · rename_i tape1 hpre
      have h1 : Sub data tape tape1 := by
        cases state <;> simp at hpre
        all_goals first | (subst hpre; exact Sub.refl _ _) | exact mixedInsert1_sub hpre
      cases hp : pushEnd tape1 parent with
      | error e => simp [hp] at h
      | ok p =>
        obtain ⟨a, b, c⟩ := p
        simp [hp] at h; subst h
        exact h1.trans (pushEnd_sub hp)
  rw [if_neg c10] at h
  by_cases c11 : tok = L.equal
  · subst c11; rw [if_pos rfl] at h; exact equalArm_sub hr hs h
  rw [if_neg c11] at h
  by_cases c12 : tok = L.rgb ∧ state = .objectValue
  · rw [if_pos c12] at h
    obtain ⟨rfl, _⟩ := c12
    unfold parseRgb at h
    cases hrg : readRgb d with
    | error e => simp [hrg] at h
    | ok p =>
      obtain ⟨t, rest⟩ := p
      simp [hrg] at h; subst h
      obtain ⟨a, b, c, al, rfl⟩ := readRgb_isRgb hrg
      exact Sub.snoc tape (sourced_of_lex hs (LexTok.rgb hr hrg))
  rw [if_neg c12] at h
  by_cases c13 : tok = L.i64
  · subst c13; rw [if_pos rfl] at h
    refine scalarArm_sub ?_ h
    intro T' d' hh; obtain ⟨hd, h1, h2⟩ := parseFixed_split hh
    exact ⟨_, h2, sourced_of_lex hs (LexTok.i64 hr h1)⟩
  rw [if_neg c13] at h
  refine scalarArm_sub ?_ h
  intro T' d' hh; simp at hh
  exact ⟨_, hh.1.symm, sourced_of_lex hs (LexTok.token hr)⟩

theorem step_sub {data : Bytes} {st st' : St} (h : step st = .next st') (hs : IsSuffix st.data data) :
    Sub data st.tape st'.tape := by
  cases hr : readId st.data with
  | none => rw [step_done hr] at h; cases h
  | some p =>
    obtain ⟨tok, d⟩ := p
    rw [step_eq hr] at h
    cases hd : dispatch false 0 st.tape st.parent st.state d tok with
    | error x => simp [hd, Iter.ofExcept] at h
    | ok s =>
      simp [hd, Iter.ofExcept] at h; subst h
      unfold dispatch at hd
      split at hd
      · cases hm : mixedInsert2 st.tape with
        | error x => simp [hm] at hd
        | ok t => simp only [hm] at hd; exact (mixedInsert2_sub hm).trans (tokenArm_sub hr hs hd)
      · exact tokenArm_sub hr hs hd

theorem reach_sourced {data : Bytes} {a b : St} (h : Reach a b) (hs : IsSuffix a.data data)
    (ha : ∀ x ∈ a.tape, Sourced data x) : ∀ x ∈ b.tape, Sourced data x := by
  obtain ⟨k, hk⟩ := h
  induction k generalizing a with
  | zero => simp [stepN] at hk; subst hk; exact ha
  | succ k ih =>
    cases hst : step a with
    | next a' =>
      simp only [stepN, hst] at hk
      exact ih ((step_suffix hst).trans hs) ((step_sub hst hs).all ha) hk
    | done => simp [stepN, hst] at hk
    | err e => simp [stepN, hst] at hk

/-- every token of an accepted tape is structural or the decoding of a lexeme of the input -/
theorem parse_sourced (opt : Bool) (data : Bytes) (toks : Tape) (h : parse opt data = .ok toks) :
    ∀ x ∈ toks, Sourced data x := by
  have h' : parse false data = .ok toks := by
    cases opt
    · exact h
    · rwa [parse_true_eq_false] at h
  obtain ⟨r, _, hreach⟩ := run_false_ok_reach _ _ _ _ h'
  exact reach_sourced hreach (IsSuffix.refl _) (by simp [init])

/-! ### `LexTok` in terms of the raw bytes -/

theorem readId_drop {d rest : Bytes} {t : Nat} (h : readId d = some (t, rest)) : rest = d.drop 2 := by
  match d, h with
  | a :: b :: r, h => simp [readId] at h; simp [h.2]

theorem split?_take {n : Nat} {d h r : Bytes} (hs : split? n d = some (h, r)) : h = d.take n ∧ n ≤ d.length := by
  unfold split? at hs
  split at hs
  · rename_i hn; simp at hs; exact ⟨hs.1.symm, hn⟩
  · cases hs

theorem readString_take {d s r : Bytes} (h : readString d = some (s, r)) : s = (d.drop 2).take s.length := by
  unfold readString at h
  cases hr : readId d with
  | none => simp [hr] at h
  | some p =>
    obtain ⟨len, rest⟩ := p
    simp only [hr] at h
    split at h
    · rename_i hl
      simp at h; obtain ⟨rfl, _⟩ := h
      rw [← readId_drop hr]; simp [Nat.min_eq_left hl]
    · cases h

/-- a `U32` token is the little-endian value of the four bytes behind its id (same for the other
fixed-width kinds, with `toSigned` for the signed ones and the raw bytes for floats) -/
theorem LexTok.u32_bytes {d : Bytes} {v : Nat} (h : LexTok d (.u32 v)) : v = leNat ((d.drop 2).take 4) ∧ 6 ≤ d.length := by
  cases h with
  | u32 hr hs => obtain ⟨h1, h2⟩ := split?_take hs; rw [h1, readId_drop hr]; exact ⟨rfl, by rw [readId_drop hr] at h2; simp at h2; omega⟩
theorem LexTok.u64_bytes {d : Bytes} {v : Nat} (h : LexTok d (.u64 v)) : v = leNat ((d.drop 2).take 8) ∧ 10 ≤ d.length := by
  cases h with
  | u64 hr hs => obtain ⟨h1, h2⟩ := split?_take hs; rw [h1, readId_drop hr]; exact ⟨rfl, by rw [readId_drop hr] at h2; simp at h2; omega⟩
theorem LexTok.i32_bytes {d : Bytes} {v : Int} (h : LexTok d (.i32 v)) : v = toSigned 32 (leNat ((d.drop 2).take 4)) ∧ 6 ≤ d.length := by
  cases h with
  | i32 hr hs => obtain ⟨h1, h2⟩ := split?_take hs; rw [h1, readId_drop hr]; exact ⟨rfl, by rw [readId_drop hr] at h2; simp at h2; omega⟩
theorem LexTok.i64_bytes {d : Bytes} {v : Int} (h : LexTok d (.i64 v)) : v = toSigned 64 (leNat ((d.drop 2).take 8)) ∧ 10 ≤ d.length := by
  cases h with
  | i64 hr hs => obtain ⟨h1, h2⟩ := split?_take hs; rw [h1, readId_drop hr]; exact ⟨rfl, by rw [readId_drop hr] at h2; simp at h2; omega⟩
theorem LexTok.f32_bytes {d b : Bytes} (h : LexTok d (.f32 b)) : b = (d.drop 2).take 4 ∧ 6 ≤ d.length := by
  cases h with
  | f32 hr hs => obtain ⟨h1, h2⟩ := split?_take hs; rw [h1, readId_drop hr]; exact ⟨rfl, by rw [readId_drop hr] at h2; simp at h2; omega⟩
theorem LexTok.f64_bytes {d b : Bytes} (h : LexTok d (.f64 b)) : b = (d.drop 2).take 8 ∧ 10 ≤ d.length := by
  cases h with
  | f64 hr hs => obtain ⟨h1, h2⟩ := split?_take hs; rw [h1, readId_drop hr]; exact ⟨rfl, by rw [readId_drop hr] at h2; simp at h2; omega⟩
/-- a string token is literally the slice of the input behind its `id len` header -/
theorem LexTok.quoted_bytes {d s : Bytes} (h : LexTok d (.quoted s)) : s = (d.drop 4).take s.length := by
  cases h with
  | quoted hr hs => have := readString_take hs; rw [readId_drop hr] at this; simpa using this
theorem LexTok.unquoted_bytes {d s : Bytes} (h : LexTok d (.unquoted s)) : s = (d.drop 4).take s.length := by
  cases h with
  | unquoted hr hs => have := readString_take hs; rw [readId_drop hr] at this; simpa using this
theorem LexTok.bool_bytes {d : Bytes} {b : Bool} (h : LexTok d (.bool b)) : ∃ x, (d.drop 2).head? = some x ∧ b = (x != 0) := by
  cases h with
  | bool hr hb =>
    rw [readId_drop hr] at hb
    cases hd : d.drop 2 with
    | nil => simp [hd, readBool] at hb
    | cons x xs => simp [hd, readBool] at hb; exact ⟨x, rfl, hb.1.symm⟩
theorem LexTok.token_bytes {d : Bytes} {n : Nat} (h : LexTok d (.token n)) : ∃ rest, readId d = some (n, rest) := by
  cases h with
  | token hr => exact ⟨_, hr⟩

end Jomini.BinTape
