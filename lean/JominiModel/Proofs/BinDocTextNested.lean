/-
C10 on NESTED documents, reference level: one logical document with objects in objects, arrays of scalars and
arrays of objects; one request built from structs, maps, sequences, `Option`s and scalar leaves.

`c10N` / `c10St` / `c10Mp` / `c10Sq`: the recursive DECIDABLE condition (the nested form of `c10doc`):
keys that mean the same in both formats, leaves of the shared leaf fragment for the request they meet, containers
met by a container request of their kind (or ignored), no rgb, no leaf that is the reserved lexeme.
`C10_nested_spec`: under it the text reference and the binary reference agree, `valueOfText = valueOfBin`.
-/
import JominiModel.Proofs.BinDocTextFlat
import JominiModel.Proofs.BinEndToEndAll
set_option linter.unusedSimpArgs false
namespace Jomini.BinDe
open Jomini

def BFields.isNil : BFields → Bool
  | .nil => true
  | _ => false

/-- the first element of an array is not an empty container (the text parser would take a leading `{}` for a
ghost object and drop it). -/
def firstOK : BNodes → Bool
  | .cons (.arr .nil) _ => false
  | .cons (.obj .nil) _ => false
  | _ => true

mutual
/-- a node under a request, nested shared fragment. -/
def c10N (c : Cfg) : BNode → Ty → Bool
  | .leaf l, t => plainTok l.tok && (leafText c l).isSome && c10ok (stripOpt t).2 l
  | .rgb _, _ => false
  | .obj fs, t =>
    !fs.isNil && (match (stripOpt t).2 with
      | .struct decl => c10St c decl fs
      | .map vt => c10Mp c vt fs
      | .ign => c10Mp c .ign fs
      | _ => false)
  | .arr vs, t =>
    firstOK vs && (match (stripOpt t).2 with
      | .seq et => c10Sq c et vs
      | .ign => c10Sq c .ign vs
      | _ => false)
/-- the fields of an object under a struct request: a key that names a declared field meets that field's
type, any other key's value is skipped (it still has to be in the fragment: `ign`). -/
def c10St (c : Cfg) (decl : Fields) : BFields → Bool
  | .nil => true
  | .cons _ k v rest =>
    keyOK c k && plainTok k.tok &&
    (match whichOf (binSem c) decl k with
      | .ok (some i) => (match decl.get? i with | some (_, _, t) => c10N c v t | none => false)
      | .ok none => c10N c v .ign
      | .error _ => false) && c10St c decl rest
def c10Mp (c : Cfg) (vt : Ty) : BFields → Bool
  | .nil => true
  | .cons _ k v rest => keyOK c k && plainTok k.tok && c10N c v vt && c10Mp c vt rest
def c10Sq (c : Cfg) (et : Ty) : BNodes → Bool
  | .nil => true
  | .cons v rest => c10N c v et && c10Sq c et rest
end

theorem keyOK_leaf (c : Cfg) (k : BLeaf) (h : keyOK c k = true) : (textSem c).leaf .str k = (binSem c).leaf .str k := by
  cases k <;> simp [keyOK] at h <;>
    simp [textSem, binSem, textLeaf, leafText, textScalarVal, valLeaf, u16Leaf, leafPrim, visitPrim]
  rename_i n
  cases hr : resolve c n with
  | none => simp [hr] at h
  | some name => simp [hr] at h; simp [idPrim, hr, h, visitPrim]

mutual
theorem spec_core (c : Cfg) (n : BNode) (t : Ty) (h : c10N c n t = true) :
    valCoreG (textSem c) n (stripOpt t).2 = valCoreG (binSem c) n (stripOpt t).2 := by
  cases n with
  | leaf l =>
    simp only [c10N, Bool.and_eq_true] at h
    exact c10ok_agree c _ l h.2
  | rgb col => simp [c10N] at h
  | obj fs =>
    simp only [c10N, Bool.and_eq_true] at h
    generalize (stripOpt t).2 = core at h ⊢
    cases core with
    | struct decl =>
      simp only [valCoreG]
      exact spec_st c decl fs h.2 (slotsInit decl)
    | map vt =>
      simp only [valCoreG]
      rw [spec_mp c vt fs h.2 []]
    | ign => rfl
    | _ => simp at h
  | arr vs =>
    simp only [c10N, Bool.and_eq_true] at h
    generalize (stripOpt t).2 = core at h ⊢
    cases core with
    | seq et =>
      simp only [valCoreG]
      rw [spec_sq c et vs h.2 []]
    | ign => rfl
    | _ => simp at h
theorem spec_st (c : Cfg) (decl : Fields) (fs : BFields) (h : c10St c decl fs = true) (slots : List (Option String)) :
    valStructG (textSem c) fs decl false slots = valStructG (binSem c) fs decl false slots := by
  cases fs with
  | nil => simp [valStructG]
  | cons g k v rest =>
    simp only [c10St, Bool.and_eq_true] at h
    obtain ⟨⟨⟨hk, _⟩, hv⟩, hrest⟩ := h
    rw [valStructG_cons_false, valStructG_cons_false]
    have hw : whichOf (textSem c) decl k = whichOf (binSem c) decl k := by
      unfold whichOf; rw [keyOK_agree c k hk]
    rw [hw]
    cases hwb : whichOf (binSem c) decl k with
    | error e => rfl
    | ok w =>
      rw [hwb] at hv
      cases w with
      | none => simp only [structStepSpec]; exact spec_st c decl rest hrest slots
      | some i =>
        simp only [structStepSpec]
        cases hsa : slots[i]? with
        | none => rfl
        | some a =>
          cases hfb : decl.get? i with
          | none => cases a <;> rfl
          | some y =>
            obtain ⟨name, tk, fty⟩ := y
            cases a with
            | some sv => rfl
            | none =>
              dsimp only
              simp only [hfb] at hv
              have : nodeVia (valCoreG (textSem c) v) fty = nodeVia (valCoreG (binSem c) v) fty := by
                unfold nodeVia; rw [spec_core c v fty hv]
              rw [this]
              cases nodeVia (valCoreG (binSem c) v) fty with
              | error e => rfl
              | ok x => exact spec_st c decl rest hrest _
theorem spec_mp (c : Cfg) (vt : Ty) (fs : BFields) (h : c10Mp c vt fs = true) (acc : List String) :
    valMapG (textSem c) fs vt acc = valMapG (binSem c) fs vt acc := by
  cases fs with
  | nil => simp [valMapG]
  | cons g k v rest =>
    simp only [c10Mp, Bool.and_eq_true] at h
    obtain ⟨⟨⟨hk, _⟩, hv⟩, hrest⟩ := h
    simp only [valMapG, keyOK_leaf c k hk]
    cases (binSem c).leaf .str k with
    | error e => rfl
    | ok ks =>
      have : nodeVia (valCoreG (textSem c) v) vt = nodeVia (valCoreG (binSem c) v) vt := by
        unfold nodeVia; rw [spec_core c v vt hv]
      simp only [this]
      cases nodeVia (valCoreG (binSem c) v) vt with
      | error e => rfl
      | ok x => exact spec_mp c vt rest hrest _
theorem spec_sq (c : Cfg) (et : Ty) (vs : BNodes) (h : c10Sq c et vs = true) (acc : List String) :
    valNodesG (textSem c) vs et acc = valNodesG (binSem c) vs et acc := by
  cases vs with
  | nil => simp [valNodesG]
  | cons v rest =>
    simp only [c10Sq, Bool.and_eq_true] at h
    have : nodeVia (valCoreG (textSem c) v) et = nodeVia (valCoreG (binSem c) v) et := by
      unfold nodeVia; rw [spec_core c v et h.1]
    simp only [valNodesG, this]
    cases nodeVia (valCoreG (binSem c) v) et with
    | error e => rfl
    | ok x => exact spec_sq c et rest h.2 _
end

/-- the nested condition at the root: a struct or a map request over the document's fields. -/
def c10Root (c : Cfg) (ty : RootTy) (d : BDoc) : Bool :=
  match ty with
  | .plain (.struct decl) => c10St c decl d
  | .plain (.map vt) => c10Mp c vt d
  | _ => false

/-- (C10 on NESTED documents, reference level) one logical document - objects in objects, arrays of scalars,
arrays of objects -, one request (structs, maps, sequences, `Option`s, `i64` / `u64` / `bool` / `str` leaves,
ignored values): the text rendering read through the text reference and the binary rendering read through the
binary reference give the same value (or the same missing / duplicate / type error). -/
theorem C10_nested_spec (c : Cfg) (ty : RootTy) (d : BDoc) (h : c10Root c ty d = true) :
    valueOfText c ty d = valueOfBin c ty d := by
  unfold valueOfText valueOfBin valueOfG
  cases ty with
  | tok fs => simp [c10Root] at h
  | plain t =>
    cases t with
    | struct decl => exact spec_st c decl d h (slotsInit decl)
    | map vt => simp only [c10Root] at h; dsimp only; rw [spec_mp c vt d h []]
    | _ => simp [c10Root] at h

/-! ### the binary side's hypotheses follow from the condition -/

mutual
theorem c10N_bin (c : Cfg) (n : BNode) (t : Ty) (h : c10N c n t = true) : plainN n = true ∧ fitsN c n t = true := by
  cases n with
  | leaf l =>
    simp only [c10N, Bool.and_eq_true] at h
    exact ⟨by simpa [plainN] using h.1.1, by simp [fitsN]⟩
  | rgb col => simp [c10N] at h
  | obj fs =>
    simp only [c10N, Bool.and_eq_true] at h
    simp only [plainN, fitsN]
    generalize (stripOpt t).2 = core at h ⊢
    cases core with
    | struct decl => exact c10St_bin c decl fs h.2
    | map vt => exact c10Mp_bin c vt fs h.2
    | ign => exact ⟨(c10Mp_bin c .ign fs h.2).1, rfl⟩
    | _ => simp at h
  | arr vs =>
    simp only [c10N, Bool.and_eq_true] at h
    simp only [plainN, fitsN]
    generalize (stripOpt t).2 = core at h ⊢
    cases core with
    | seq et => exact c10Sq_bin c et vs h.2
    | ign => exact ⟨(c10Sq_bin c .ign vs h.2).1, rfl⟩
    | _ => simp at h
theorem c10St_bin (c : Cfg) (decl : Fields) (fs : BFields) (h : c10St c decl fs = true) :
    plainF fs = true ∧ fitsStructF c fs decl = true := by
  cases fs with
  | nil => simp [plainF, fitsStructF]
  | cons g k v rest =>
    simp only [c10St, Bool.and_eq_true] at h
    obtain ⟨⟨⟨_, hpk⟩, hv⟩, hrest⟩ := h
    obtain ⟨r1, r2⟩ := c10St_bin c decl rest hrest
    simp only [plainF, fitsStructF, Bool.and_eq_true]
    cases hwb : whichOf (binSem c) decl k with
    | error e => rw [hwb] at hv; simp at hv
    | ok w =>
      rw [hwb] at hv
      unfold whichOf at hwb; simp only [binSem] at hwb
      cases w with
      | none => exact ⟨⟨⟨hpk, (c10N_bin c v .ign hv).1⟩, r1⟩, by simp [hwb], r2⟩
      | some i =>
        cases hg : decl.get? i with
        | none => simp [hg] at hv
        | some y =>
          obtain ⟨name, tk, fty⟩ := y
          simp only [hg] at hv
          obtain ⟨v1, v2⟩ := c10N_bin c v fty hv
          exact ⟨⟨⟨hpk, v1⟩, r1⟩, by simp [hwb, hg, v2], r2⟩
theorem c10Mp_bin (c : Cfg) (vt : Ty) (fs : BFields) (h : c10Mp c vt fs = true) :
    plainF fs = true ∧ fitsMapF c fs vt = true := by
  cases fs with
  | nil => simp [plainF, fitsMapF]
  | cons g k v rest =>
    simp only [c10Mp, Bool.and_eq_true] at h
    obtain ⟨⟨⟨_, hpk⟩, hv⟩, hrest⟩ := h
    obtain ⟨r1, r2⟩ := c10Mp_bin c vt rest hrest
    obtain ⟨v1, v2⟩ := c10N_bin c v vt hv
    simp only [plainF, fitsMapF, Bool.and_eq_true]
    exact ⟨⟨⟨hpk, v1⟩, r1⟩, v2, r2⟩
theorem c10Sq_bin (c : Cfg) (et : Ty) (vs : BNodes) (h : c10Sq c et vs = true) :
    plainS vs = true ∧ fitsNs c vs et = true := by
  cases vs with
  | nil => simp [plainS, fitsNs]
  | cons v rest =>
    simp only [c10Sq, Bool.and_eq_true] at h
    obtain ⟨r1, r2⟩ := c10Sq_bin c et rest h.2
    obtain ⟨v1, v2⟩ := c10N_bin c v et h.1
    cases v with
    | rgb col => simp [c10N] at h
    | _ => simp only [plainS, fitsNs, Bool.and_eq_true]; exact ⟨⟨v1, r1⟩, v2, r2⟩
end

theorem c10Root_bin (c : Cfg) (ty : RootTy) (d : BDoc) (h : c10Root c ty d = true) :
    plainF d = true ∧ fitsRoot c ty d = true := by
  cases ty with
  | tok fs => simp [c10Root] at h
  | plain t =>
    cases t with
    | struct decl => exact c10St_bin c decl d h
    | map vt => exact c10Mp_bin c vt d h
    | _ => simp [c10Root] at h

/-- (C10 on NESTED documents: references and binary models) under the nested condition the text reference equals the
binary reference, and that value is what all three binary deserializer MODELS return (tape path on the document's tape,
on-demand and streaming path on its lexemes). -/
theorem C10_nested_end_to_end (c : Cfg) (ty : RootTy) (d : BDoc) (h : c10Root c ty d = true) :
    valueOfText c ty d = valueOfBin c ty d ∧
    deTape c ty (tapeFields d 0) = valueOfBin c ty d ∧
    deOndemand c ty (tokensOf d) = valueOfBin c ty d ∧
    deStream c ty (tokensOf d) = valueOfBin c ty d := by
  obtain ⟨h2, h3⟩ := c10Root_bin c ty d h
  obtain ⟨e1, e2, e3⟩ := C04_tape_eq_ondemand c ty d h2 h3
  exact ⟨C10_nested_spec c ty d h, e3, by rw [← e1]; exact e3, by rw [← e2]; exact e3⟩

example :
    c10Root { strat := .error, entries := [(8192, [97])] }
      (.plain (.struct (.cons "a" 0 (.struct (.cons "n" 0 .i64 (.cons "tags" 0 (.opt (.seq .str)) .nil))) (.cons "list" 0 (.seq (.struct (.cons "x" 0 .bool .nil))) .nil))))
      (.cons 0 (.id 8192) (.obj (.cons 0 (.unquoted [110]) (.leaf (.i32 (-5))) (.cons 0 (.unquoted [116, 97, 103, 115]) (.arr (.cons (.leaf (.quoted [120])) (.cons (.leaf (.unquoted [121])) .nil))) .nil)))
        (.cons 0 (.unquoted [108, 105, 115, 116]) (.arr (.cons (.obj (.cons 0 (.unquoted [120]) (.leaf (.bool true)) .nil)) (.cons (.obj (.cons 0 (.unquoted [120]) (.leaf (.bool false)) .nil)) .nil))) .nil)) = true := by
  decide +kernel

end Jomini.BinDe
