import JominiModel.Model.Scalar
import JominiModel.Spec.Scalar
import JominiModel.Proofs.Scalar
import JominiModel.Generated.Tables
/-
Consistency between the conversions of one and the same scalar (C11): what `to_i64` /
`to_f64` return on a string that `to_u64` converts, and conversely.
-/
namespace Jomini.Scalar
open Jomini Jomini.Spec.Scalar

/-- a string `to_u64` converts never starts with `-`. -/
theorem toU64_ok_head (s : Bytes) (v : Nat) (h : toU64 s = .ok v) : s.head? ≠ some 45 := by
  obtain ⟨c, data, rfl, h | h⟩ := (toU64_ok_iff s v).1 h
  · obtain ⟨hc, -⟩ := h
    simp only [List.head?_cons, ne_eq, Option.some.injEq]
    rintro rfl; simp [not_isDigit_45] at hc
  · obtain ⟨rfl, -⟩ := h; simp

/-- `to_u64` then `to_i64`: same value when it fits an `i64`, `Overflow` otherwise. -/
theorem toU64_then_toI64 (s : Bytes) (v : Nat) (h : toU64 s = .ok v) :
    toI64 s = if v ≤ 2 ^ 63 - 1 then .ok (v : Int) else .error .overflow := by
  have go : ∀ data start, toU64T2 data start = .ok (v, []) →
      requireEmpty (toI64Go data 1 start) =
        if v ≤ 2 ^ 63 - 1 then .ok (v : Int) else .error .overflow := by
    intro data start ht
    simp only [toI64Go, ht, requireEmpty, I64_MAX, show ¬ ((1 : Int) < 0) by decide, if_false]
    by_cases hv : v ≤ 2 ^ 63 - 1
    · have : ¬ v > 2 ^ 63 - 1 := by omega
      simp [hv, this]
    · have : v > 2 ^ 63 - 1 := by omega
      simp [hv, this]
  obtain ⟨c, data, rfl, h | h⟩ := (toU64_ok_iff s v).1 h
  · obtain ⟨hc, ht⟩ := h
    simp only [toI64, toI64T, hc, if_true]
    exact go _ _ ht
  · obtain ⟨rfl, ht⟩ := h
    simp only [toI64, toI64T, not_isDigit_43, Bool.false_eq_true, if_false,
      show ((43 : UInt8) == 45) = false by decide, beq_self_eq_true, if_true]
    exact go _ _ ht

/-- `to_i64` then `to_u64`: the same value exactly when the string does not start with `-`
(a string starting with `-` is always refused by `to_u64`, even `"-0"`). -/
theorem toI64_then_toU64 (s : Bytes) (v : Int) (h : toI64 s = .ok v) :
    (s.head? ≠ some 45 → 0 ≤ v ∧ toU64 s = .ok v.toNat) ∧
    (s.head? = some 45 → v ≤ 0 ∧ toU64 s = .error .allDigits) := by
  obtain ⟨c, data, n, rfl, h | h | h⟩ := (toI64_ok_iff s v).1 h
  · obtain ⟨hc, ht, -, rfl⟩ := h
    have h45 : c ≠ 45 := by rintro rfl; simp [not_isDigit_45] at hc
    refine ⟨fun _ => ⟨by omega, ?_⟩, fun hh => absurd (by simpa using hh) h45⟩
    rw [toU64_ok_iff]
    exact ⟨c, data, rfl, Or.inl ⟨hc, by simpa using ht⟩⟩
  · obtain ⟨rfl, -, -, rfl⟩ := h
    refine ⟨fun hh => absurd rfl hh, fun _ => ⟨by omega, ?_⟩⟩
    simp [toU64, not_isDigit_45]
  · obtain ⟨rfl, ht, -, rfl⟩ := h
    refine ⟨fun _ => ⟨by omega, ?_⟩, fun hh => absurd hh (by simp)⟩
    rw [toU64_ok_iff]
    exact ⟨43, data, rfl, Or.inr ⟨rfl, by simpa using ht⟩⟩

/-- `to_u64` then `to_f64`: `to_f64` parses the same digits with the same loop, then applies
its own guard. -/
theorem toU64_then_toF64 (s : Bytes) (v : Nat) (h : toU64 s = .ok v) :
    toF64 s = if v ≤ 2 ^ 53 - 1 then .ok (u64ToF64 v) else .error .precisionLoss := by
  have key : toF64 s = f64Int false v := by
    obtain ⟨c, data, rfl, h | h⟩ := (toU64_ok_iff s v).1 h
    · obtain ⟨hc, ht⟩ := h
      have h45 : (c == 45) = false := by
        cases hh : c == 45 with
        | false => rfl
        | true =>
          have : c = 45 := by simpa using hh
          subst this; simp [not_isDigit_45] at hc
      simp [toF64, h45, f64Body, f64Head, hc, ht, f64Tail]
    · obtain ⟨rfl, ht⟩ := h
      simp [toF64, f64Body, f64Head, not_isDigit_43, ht, f64Tail]
  rw [key]
  simp only [f64Int, Bool.false_eq_true, if_false, F64_EXACT_MAX]
  by_cases hv : v ≤ 2 ^ 53 - 1
  · have : ¬ v > 9007199254740991 := by omega
    simp [hv, this]
  · have : v > 9007199254740991 := by omega
    simp [hv, this]

/-- the two boolean spellings are refused by every numeric conversion. -/
theorem toBool_ok_not_number (s : Bytes) (h : ∃ b, toBool s = .ok b) :
    toU64 s = .error .allDigits ∧ toI64 s = .error .allDigits ∧ toF64 s = .error .allDigits := by
  obtain ⟨b, h⟩ := h
  have hs : s = [121, 101, 115] ∨ s = [110, 111] := by
    unfold toBool at h
    split at h <;> simp_all
  rcases hs with rfl | rfl <;> exact ⟨rfl, rfl, rfl⟩

end Jomini.Scalar
