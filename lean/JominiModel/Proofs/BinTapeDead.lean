import JominiModel.Proofs.BinTapeCut
/-
C03/C05: the `debug_assert!(false, …)` arms of binary/tape.rs (line 249 in `set_parent_to_object`,
lines 658-682 in `mixed_insert1/2`) are dead code: the loop invariant excludes the states in
which they would fire.
-/
namespace Jomini.BinTape
open Jomini


/-- the states in which the `debug_assert!(false, …)` arms of tape.rs would fire (set_parent_to_object
on a non-`Array` slot, line 249; `mixed_insert1/2` on an empty tape, lines 658-682) are excluded by
the loop invariant `TInv` -/
theorem debug_asserts_excluded {tape : Tape} {parent : Nat} {state : PState} (hi : TInv tape parent state) :
    (state = .keyValueSeparator → ∃ t', mixedInsert1 tape = .ok t') ∧
    (state = .objectToArray → ∃ t', mixedInsert2 tape = .ok t') ∧
    (state = .openSecond → ∃ t', setParentToObject tape parent = .ok t') ∧
    (state = .arrayValue → ∀ t1 last, pop? tape = some (t1, last) → (∀ e, last ≠ .array e) → (∀ i, last ≠ .end_ i) →
      ∃ t', setParentToObject t1 parent = .ok t') := by
  refine ⟨?_, ?_, ?_, ?_⟩
  · intro hs; subst hs
    obtain ⟨⟨t0, x, rfl, _, _⟩, _, _⟩ := hi
    exact ⟨t0 ++ [.mixed, x], by simp [mixedInsert1, pop?]⟩
  · intro hs; subst hs
    obtain ⟨⟨t0, x, y, rfl, _, _, _⟩, _, _⟩ := hi
    exact ⟨_, mixedInsert2_snoc2 t0 x y⟩
  · intro hs; subst hs
    obtain ⟨g, hg⟩ := hi.2.1 (Or.inr (Or.inr rfl))
    exact ⟨tape.set parent (.object g), by simp [setParentToObject, hg]⟩
  · intro hs t1 last hp hna hne; subst hs
    have ho := hi.openAt
    obtain ⟨g, hg⟩ := hi.2.1 (Or.inl rfl)
    have ht := pop?_length hp
    subst ht
    obtain ⟨hpne, pre, seg, hdec, hl, hgo, hseg⟩ := setParent_open ho hg
    have hidx : t1[parent]? = some (.array g) := by
      rcases List.eq_nil_or_concat seg with hs | ⟨seg1, y, hs⟩
      · subst hs
        have := List.append_inj_right' (show t1 ++ [last] = pre ++ [BTok.array g] from hdec) (by simp)
        simp at this; exact absurd this (hna g)
      · rw [List.concat_eq_append] at hs; subst hs
        have e1 : t1 ++ [last] = (pre ++ BTok.array g :: seg1) ++ [y] := by simpa using hdec
        have e2 := List.append_inj_left' e1 (by simp)
        subst e2; rw [← hl]; simp
    exact ⟨t1.set parent (.object g), by simp [setParentToObject, hidx]⟩

/-- the two `set_parent_to_object` calls inside the key fast paths act on the `Array` just pushed -/
theorem fast_setParent_ok (T : Tape) (p t : Nat) :
    setParentToObject (T ++ [.array p] ++ [.token t]) T.length = .ok (T ++ [.object p] ++ [.token t]) := by
  simp [setParentToObject]

end Jomini.BinTape
