import JominiModel.Proofs.TextEndToEnd
import JominiModel.Proofs.TextDeAgree
/-
C02: the recorded divergences of the two text deserializer paths, reproduced on the MODELS from the
same bytes (tape parser model + tape deserializer model against slice reader model + streaming
deserializer model).  They show that the boundaries of the positive theorems (`FitsT`, `SPlainF`) are
tight: right outside them the modelled paths disagree exactly as the real code does
(/verif/known_findings.txt, corpus/C02.txt).
-/
namespace Jomini.TextE2E
open Jomini Jomini.TextDe

/-- `a={ {} x y }` -/
def bytesLeadingEmpty : Bytes := [97, 61, 123, 32, 123, 125, 32, 120, 32, 121, 32, 125]

/-- `color = rgb { 1 2 3 }` -/
def bytesHeaderSeq : Bytes :=
  [99, 111, 108, 111, 114, 32, 61, 32, 114, 103, 98, 32, 123, 32, 49, 32, 50, 32, 51, 32, 125]

def keyColor : Bytes := [99, 111, 108, 111, 114]

theorem leadingEmpty_parse :
    TextTape.parse bytesLeadingEmpty =
      .ok [.unquoted ⟨12, [97]⟩, .array 4 false, .unquoted ⟨5, [120]⟩, .unquoted ⟨3, [121]⟩, .endTok 1] false := by
  decide +kernel

theorem leadingEmpty_lex :
    (TextReader.sliceTokens bytesLeadingEmpty).toks =
      [.unquoted [97], .op .eq, .open_, .open_, .close, .unquoted [120], .unquoted [121], .close] ∧
    (TextReader.sliceTokens bytesLeadingEmpty).out = .end_ := by
  decide +kernel

theorem headerSeq_parse :
    TextTape.parse bytesHeaderSeq =
      .ok [.unquoted ⟨21, keyColor⟩, .header ⟨13, [114, 103, 98]⟩, .array 6 false, .unquoted ⟨7, [49]⟩,
        .unquoted ⟨5, [50]⟩, .unquoted ⟨3, [51]⟩, .endTok 2] false := by
  decide +kernel

theorem headerSeq_lex :
    (TextReader.sliceTokens bytesHeaderSeq).toks =
      [.unquoted keyColor, .op .eq, .unquoted [114, 103, 98], .open_, .unquoted [49], .unquoted [50],
        .unquoted [51], .close] ∧
    (TextReader.sliceTokens bytesHeaderSeq).out = .end_ := by
  decide +kernel

/-! ### decidable comparison of results (for the concrete witnesses) -/

def opBeq : Op → Op → Bool
  | .eq, .eq | .lt, .lt | .le, .le | .gt, .gt | .ge, .ge | .ne, .ne | .exact, .exact | .exst, .exst => true
  | _, _ => false

mutual
def valBeq : Val → Val → Bool
  | .bool a, .bool b => a == b
  | .int a, .int b => a == b
  | .uint a, .uint b => a == b
  | .f64 a, .f64 b => a == b
  | .f32 a, .f32 b => a == b
  | .str a, .str b => a == b
  | .none, .none => true
  | .some a, .some b => valBeq a b
  | .unit, .unit => true
  | .ign, .ign => true
  | .seq a, .seq b => valsBeq a b
  | .map a, .map b => kvsBeq a b
  | .st a, .st b => fsBeq a b
  | .prop o a, .prop p b => opBeq o p && valBeq a b
  | .en a, .en b => a == b
  | .tup a, .tup b => valsBeq a b
  | _, _ => false
def valsBeq : List Val → List Val → Bool
  | [], [] => true
  | a :: as, b :: bs => valBeq a b && valsBeq as bs
  | _, _ => false
def kvsBeq : List (Val × Val) → List (Val × Val) → Bool
  | [], [] => true
  | (k, a) :: as, (l, b) :: bs => valBeq k l && valBeq a b && kvsBeq as bs
  | _, _ => false
def fsBeq : List (Bytes × Val) → List (Bytes × Val) → Bool
  | [], [] => true
  | (k, a) :: as, (l, b) :: bs => (k == l) && valBeq a b && fsBeq as bs
  | _, _ => false
end

theorem opBeq_refl (o : Op) : opBeq o o = true := by cases o <;> rfl

mutual
theorem valBeq_refl : ∀ (v : Val), valBeq v v = true
  | .bool a => by simp [valBeq]
  | .int a => by simp [valBeq]
  | .uint a => by simp [valBeq]
  | .f64 a => by simp [valBeq]
  | .f32 a => by simp [valBeq]
  | .str a => by simp [valBeq]
  | .none => by simp [valBeq]
  | .some a => by simp only [valBeq]; exact valBeq_refl a
  | .unit => by simp [valBeq]
  | .ign => by simp [valBeq]
  | .seq a => by simp only [valBeq]; exact valsBeq_refl a
  | .map a => by simp only [valBeq]; exact kvsBeq_refl a
  | .st a => by simp only [valBeq]; exact fsBeq_refl a
  | .prop o a => by simp only [valBeq, opBeq_refl, valBeq_refl a, Bool.and_self]
  | .en a => by simp [valBeq]
  | .tup a => by simp only [valBeq]; exact valsBeq_refl a
theorem valsBeq_refl : ∀ (vs : List Val), valsBeq vs vs = true
  | [] => by simp [valsBeq]
  | a :: as => by simp only [valsBeq, valBeq_refl a, valsBeq_refl as, Bool.and_self]
theorem kvsBeq_refl : ∀ (vs : List (Val × Val)), kvsBeq vs vs = true
  | [] => by simp [kvsBeq]
  | (k, a) :: as => by simp only [kvsBeq, valBeq_refl k, valBeq_refl a, kvsBeq_refl as, Bool.and_self]
theorem fsBeq_refl : ∀ (vs : List (Bytes × Val)), fsBeq vs vs = true
  | [] => by simp [fsBeq]
  | (k, a) :: as => by simp [fsBeq, valBeq_refl a, fsBeq_refl as]
end

/-- same result class: equal values, or the same error class -/
def resBeq : R Val → R Val → Bool
  | .ok a, .ok b => valBeq a b
  | .error a, .error b => decide (a = b)
  | _, _ => false

theorem resBeq_of_eq {a b : R Val} (h : a = b) : resBeq a b = true := by
  subst h
  cases a with
  | ok v => exact valBeq_refl v
  | error e => simp [resBeq]

/-! ### one witness for every atomic combination of `Bad` -/

open Jomini.TextDoc

def kx : Bytes := [120]
def ka : Bytes := [97]
def lfB (b : Bytes) : Node := .leaf ⟨b, false⟩
def objA1 : Node := .obj [(.plain ka, .eq, lfB [49])]
def arrPQ : Node := .arr [lfB [112], lfB [113]]
def rgb : Bytes := [114, 103, 98]

/-- (type of field `x`, value of field `x`) -/
def divergentWitnesses : List (Ty × Node) :=
  [ (.any, objA1),                                  -- anyObj
    (.any, .arr [objA1]),                           -- anyArr (an object inside)
    (.any, .hdr rgb (.arr [lfB [49]])),             -- anyHdr
    (.en [ka], objA1),                              -- enObj
    (.en [[112]], arrPQ),                           -- enArr
    (.seq .str, lfB [115]),                         -- seqLeaf
    (.seq .str, objA1),                             -- seqObj
    (.seq .any, .hdr rgb (.arr [lfB [49]])),        -- seqHdr
    (.map .str, arrPQ),                             -- mapArr
    (.map .str, .hdr rgb objA1),                    -- mapHdr
    (.st [(ka, .opt .str)], .arr [lfB [112]]),      -- stArr
    (.st [(ka, .opt .str)], .hdr rgb objA1),        -- stHdr
    (.seq (.prop .str), arrPQ),                     -- propElem (array element)
    (.prop (.prop .str), lfB [115]) ]               -- propElem (nested Property)

def witnessDoc (v : Node) : Doc := [(kx, .eq, v), (.plain [119], .eq, lfB [122])]
def witnessTy (t : Ty) : Ty := .st [(kx, t), ([119], .opt .str)]

theorem divergent_all :
    divergentWitnesses.all (fun p =>
      !resBeq (deTape .utf8 (witnessTy p.1) (tapeOf (witnessDoc p.2)))
              (deStream .utf8 (witnessTy p.1) (lexemes (witnessDoc p.2)))) = true := by
  decide +kernel

/-! ### what the full text syntax adds and the two paths read DIFFERENTLY (from bytes) -/

/-- both parsers accept the bytes and the two deserializer models return different results -/
def bytesDiffer (ty : Ty) (bytes : Bytes) : Bool :=
  match TextTape.parse bytes with
  | .ok T _ =>
    decide ((TextReader.sliceTokens bytes).out = .end_) &&
      !resBeq (deTape .utf8 ty (toTextDeTape T)) (deStream .utf8 ty ((TextReader.sliceTokens bytes).toks.map toRTok))
  | _ => false

theorem bytesDiffer_sound {ty : Ty} {bytes : Bytes} (h : bytesDiffer ty bytes = true) :
    ∃ T b, TextTape.parse bytes = .ok T b ∧ (TextReader.sliceTokens bytes).out = .end_ ∧
      deTape .utf8 ty (toTextDeTape T) ≠ deStream .utf8 ty ((TextReader.sliceTokens bytes).toks.map toRTok) := by
  unfold bytesDiffer at h
  split at h
  · next T b hp =>
    simp only [Bool.and_eq_true, decide_eq_true_eq, Bool.not_eq_true'] at h
    refine ⟨T, b, hp, h.1, fun heq => ?_⟩
    rw [resBeq_of_eq heq] at h
    exact absurd h.2 (by decide)
  · exact absurd h (by decide)

/-- both parsers accept the bytes and the two deserializer models return the same successful result -/
def bytesAgree (ty : Ty) (bytes : Bytes) : Bool :=
  match TextTape.parse bytes with
  | .ok T _ =>
    decide ((TextReader.sliceTokens bytes).out = .end_) &&
      (match deTape .utf8 ty (toTextDeTape T) with | .ok _ => true | .error _ => false) &&
      resBeq (deTape .utf8 ty (toTextDeTape T)) (deStream .utf8 ty ((TextReader.sliceTokens bytes).toks.map toRTok))
  | _ => false

/-- `x={ a=rgb { 1 } b=2 }`: a nested object whose FIRST field is a header field -/
def bytesHdrFirst : Bytes :=
  [120, 61, 123, 32, 97, 61, 114, 103, 98, 32, 123, 32, 49, 32, 125, 32, 98, 61, 50, 32, 125]

/-- `a={ b=1 c d }`: a mixed container (an object that goes on as a bare list) -/
def bytesMixed : Bytes := [97, 61, 123, 32, 98, 61, 49, 32, 99, 32, 100, 32, 125]
/-- `a={ b{ c=1 } d=2 }`: the `=` left out on the FIRST field of a nested container -/
def bytesFirstImplicit : Bytes := [97, 61, 123, 32, 98, 123, 32, 99, 61, 49, 32, 125, 32, 100, 61, 50, 32, 125]
/-- `a=1 [[x] b=2 ] c=3`: a parameter block -/
def bytesParam : Bytes := [97, 61, 49, 32, 91, 91, 120, 93, 32, 98, 61, 50, 32, 93, 32, 99, 61, 51]

def tyMixed : Ty := .st [([97], .map .str)]
def tyFirstImplicit : Ty := .st [([97], .st [([98], .opt (.map .str)), ([100], .opt .str)])]
def tyParam : Ty := .st [([97], .str), ([98], .opt .str), ([99], .opt .str)]

/-- `id=1 arr={ 1 2 3 }` -/
def bytesTupleLong : Bytes := [105, 100, 61, 49, 32, 97, 114, 114, 61, 123, 32, 49, 32, 50, 32, 51, 32, 125]
def keyId : Bytes := [105, 100]
def keyArr : Bytes := [97, 114, 114]
def tyTupleLong : Ty := .st [(keyId, .u8), (keyArr, .tup [.i32, .i32])]

theorem tupleLong_differ : bytesDiffer tyTupleLong bytesTupleLong = true := by decide +kernel

theorem tupleLong_parse :
    TextTape.parse bytesTupleLong =
      .ok [.unquoted ⟨18, keyId⟩, .unquoted ⟨15, [49]⟩, .unquoted ⟨13, keyArr⟩, .array 7 false, .unquoted ⟨7, [49]⟩,
        .unquoted ⟨5, [50]⟩, .unquoted ⟨3, [51]⟩, .endTok 3] false := by
  decide +kernel

theorem tupleLong_lex :
    (TextReader.sliceTokens bytesTupleLong).toks =
      [.unquoted keyId, .op .eq, .unquoted [49], .unquoted keyArr, .op .eq, .open_, .unquoted [49], .unquoted [50],
        .unquoted [51], .close] ∧
    (TextReader.sliceTokens bytesTupleLong).out = .end_ := by
  decide +kernel

/-- `a=?b` + newline: an unquoted scalar that begins with `?` -/
def bytesQuestion : Bytes := [97, 61, 63, 98, 10]
def tyQuestion : Ty := .st [([97], .str)]

theorem question_differ : bytesDiffer tyQuestion bytesQuestion = true := by decide +kernel

theorem question_parse :
    TextTape.parse bytesQuestion = .ok [.unquoted ⟨5, [97]⟩, .unquoted ⟨3, [63, 98]⟩] false := by decide +kernel

theorem question_lex :
    (TextReader.sliceTokens bytesQuestion).toks = [.unquoted [97], .op .eq, .op .exists_, .unquoted [98]] ∧
    (TextReader.sliceTokens bytesQuestion).out = .end_ := by decide +kernel

theorem mixed_differ : bytesDiffer tyMixed bytesMixed = true := by decide +kernel
theorem firstImplicit_differ : bytesDiffer tyFirstImplicit bytesFirstImplicit = true := by decide +kernel
theorem param_differ : bytesDiffer tyParam bytesParam = true := by decide +kernel

end Jomini.TextE2E
