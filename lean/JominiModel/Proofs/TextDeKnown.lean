import JominiModel.Proofs.TextEndToEnd
/-
C02: the recorded divergences of the two text deserializer paths, reproduced on the MODELS from the
same bytes (tape parser model + tape deserializer model against slice reader model + streaming
deserializer model).  They show that the boundaries of the positive theorems (`FitsT`, `SPlainF`) are
tight: right outside them the modelled paths disagree exactly as the real code does
(/verif/known_findings.txt, corpus/C02.txt).
-/
namespace Jomini.TextE2E
open Jomini Jomini.TextDe

/-- `a={ {} x y }` -/
def bytesLeadingEmpty : Bytes := [97, 61, 123, 32, 123, 125, 32, 120, 32, 121, 32, 125]

/-- `color = rgb { 1 2 3 }` -/
def bytesHeaderSeq : Bytes :=
  [99, 111, 108, 111, 114, 32, 61, 32, 114, 103, 98, 32, 123, 32, 49, 32, 50, 32, 51, 32, 125]

def keyColor : Bytes := [99, 111, 108, 111, 114]

theorem leadingEmpty_parse :
    TextTape.parse bytesLeadingEmpty =
      .ok [.unquoted ⟨12, [97]⟩, .array 4 false, .unquoted ⟨5, [120]⟩, .unquoted ⟨3, [121]⟩, .endTok 1] false := by
  decide +kernel

theorem leadingEmpty_lex :
    (TextReader.sliceTokens bytesLeadingEmpty).toks =
      [.unquoted [97], .op .eq, .open_, .open_, .close, .unquoted [120], .unquoted [121], .close] ∧
    (TextReader.sliceTokens bytesLeadingEmpty).out = .end_ := by
  decide +kernel

theorem headerSeq_parse :
    TextTape.parse bytesHeaderSeq =
      .ok [.unquoted ⟨21, keyColor⟩, .header ⟨13, [114, 103, 98]⟩, .array 6 false, .unquoted ⟨7, [49]⟩,
        .unquoted ⟨5, [50]⟩, .unquoted ⟨3, [51]⟩, .endTok 2] false := by
  decide +kernel

theorem headerSeq_lex :
    (TextReader.sliceTokens bytesHeaderSeq).toks =
      [.unquoted keyColor, .op .eq, .unquoted [114, 103, 98], .open_, .unquoted [49], .unquoted [50],
        .unquoted [51], .close] ∧
    (TextReader.sliceTokens bytesHeaderSeq).out = .end_ := by
  decide +kernel

end Jomini.TextE2E
