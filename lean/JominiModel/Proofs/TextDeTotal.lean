import JominiModel.Model.TextDe
import JominiModel.Spec.TextDoc
import JominiModel.Proofs.TextDe
import JominiModel.Proofs.TextDeStream
import JominiModel.Proofs.TextDeCut
/-
C05 at the deserializer level: the two text deserializer models are total -- for ARBITRARY target
types (fitting the document or not) they never yield the `panic` outcome, which stands for a Rust
panic (index out of range, the `debug_assert!` of `FieldsIter::next`) and for running out of the
model's fuel.  A mismatching type is an error (`type`, `other`, `missing`, `duplicate`), not a panic.
-/
namespace Jomini.TextDe
open Jomini

/-- the outcome is not the panic / out-of-fuel outcome -/
def NP {α : Type} (r : R α) : Prop := r ≠ .error .panic

theorem np_ok {α : Type} (a : α) : NP (.ok a : R α) := by simp [NP]
theorem np_map {α β : Type} {r : R α} (g : α → β) (h : NP r) : NP (r.map g) := by
  cases r with
  | ok a => simp [NP, Except.map]
  | error e => simpa [NP, Except.map] using h

/-! ## stream path -/

theorem leafConv_np (ty : Ty) (s : Bytes) (r : R Val) (h : leafConv ty s = some r) : NP r := by
  cases ty <;> simp only [leafConv] at h <;> (try (simp at h; done)) <;>
    (split at h <;> (try (simp at h; done)) <;>
      (simp only [Option.some.injEq] at h; subst h; (try split) <;> simp [NP]))

theorem sLeaf_np (ty : Ty) (tok : RTok) : NP (sLeaf ty tok) := by
  unfold sLeaf
  cases h : tok.asScalar.bind (leafConv ty) with
  | some r =>
    simp only []
    cases hs : tok.asScalar with
    | none => simp [hs] at h
    | some s => simp only [hs, Option.bind] at h; exact leafConv_np ty s r h
  | none => simp only []; cases tok <;> simp [NP]

theorem sStr_np (enc : Enc) (tok : RTok) : NP (sStr enc tok) := by
  cases tok <;> simp [sStr, NP]

theorem rSkip_np : ∀ (x : List RTok) (d : Nat), NP (rSkip x d)
  | [], d => by simp [rSkip, NP]
  | t :: r, d => by
      cases t with
      | err => simp [rSkip, NP]
      | open_ => simp only [rSkip]; exact rSkip_np r (d + 1)
      | close => cases d <;> simp only [rSkip] <;> first | exact np_ok _ | exact rSkip_np r _
      | op o => simp only [rSkip]; exact rSkip_np r d
      | unq s => simp only [rSkip]; exact rSkip_np r d
      | quo s => simp only [rSkip]; exact rSkip_np r d

theorem structFinish_np : ∀ (fs : List (Bytes × Ty)) (i : Nat) (seen : List (Nat × Val)), NP (structFinish fs i seen)
  | [], i, seen => by simp [structFinish, NP]
  | (n, t) :: rest, i, seen => by
      simp only [structFinish]
      cases seenGet i seen with
      | some v => exact np_map _ (structFinish_np rest (i + 1) seen)
      | none =>
        cases t <;> first
          | exact np_map _ (structFinish_np rest (i + 1) seen)
          | simp [NP]

/-- de.rs:597 `TextReaderSeq`: enough fuel for the tokens there are -/
theorem sSeqFold_np (F : RTok → List RTok → R (Val × List RTok)) :
    ∀ (n : Nat) (x : List RTok), x.length < n →
    (∀ t r, r.length < x.length → NP (F t r)) →
    (∀ t r a q, F t r = .ok (a, q) → q.length ≤ r.length) →
    NP (sSeqFold F n x)
  | 0, x, h, _, _ => by omega
  | n + 1, [], hn, hF, hS => by simp [sSeqFold, rRead, NP]
  | n + 1, t :: r, hn, hF, hS => by
      by_cases hte : t = .err
      · subst hte; simp [sSeqFold, rRead, NP]
      by_cases htc : t = .close
      · subst htc; simp [sSeqFold, rRead, NP]
      rw [sSeqFold_step F n t r hte htc]
      have hlt : r.length < (t :: r).length := by simp
      cases hFt : F t r with
      | error e =>
        have := hF t r hlt
        rw [hFt] at this
        simpa [NP] using this
      | ok ar =>
        obtain ⟨a, r'⟩ := ar
        have hle := hS t r a r' hFt
        have ih := sSeqFold_np F n r' (by simp at hn; omega)
          (fun t' r'' hl => hF t' r'' (by simp; omega)) hS
        simp only []
        cases hrec : sSeqFold F n r' with
        | error e => rw [hrec] at ih; simpa [NP] using ih
        | ok p => simp [NP]

theorem sAny_len (enc : Enc) (n : Nat) (tok : RTok) (x : List RTok) (v : Val) (q : List RTok)
    (h : sAny enc n tok x = .ok (v, q)) : q.length ≤ x.length := by
  obtain ⟨c, hx, _, _⟩ := sAny_dep enc n tok x v q h
  rw [hx]; simp

theorem sAny_np (enc : Enc) : ∀ (n : Nat) (tok : RTok) (x : List RTok), x.length < n → NP (sAny enc n tok x)
  | 0, tok, x, h => by omega
  | n + 1, tok, x, h => by
      cases tok with
      | close => simp [sAny, NP]
      | err => simp [sAny, NP]
      | op o => simp [sAny, NP]
      | unq s => simp [sAny, NP]
      | quo s => simp [sAny, NP]
      | open_ =>
        simp only [sAny]
        have := sSeqFold_np (sAny enc n) (x.length + 1) x (by omega)
          (fun t r hl => sAny_np enc n t r (by omega)) (fun t r a q hq => sAny_len enc n t r a q hq)
        cases hS : sSeqFold (sAny enc n) (x.length + 1) x with
        | error e => rw [hS] at this; simpa [NP] using this
        | ok p => simp [NP]

theorem sField_np {σ κ : Type} (V : σ → κ → RTok → Op → List RTok → R (σ × List RTok)) (st : σ) (kk : κ)
    (r : List RTok) (hV : ∀ t o r', r'.length < r.length → NP (V st kk t o r')) : NP (sField V st kk r) := by
  unfold sField
  cases r with
  | nil => simp [rRead, NP]
  | cons t r1 =>
    by_cases hte : t = .err
    · subst hte; simp [rRead, NP]
    rw [rRead_cons hte]
    by_cases hop : ∃ o, t = .op o
    · obtain ⟨o, rfl⟩ := hop
      simp only []
      cases r1 with
      | nil => simp [rRead, NP]
      | cons t2 r2 =>
        by_cases hte2 : t2 = .err
        · subst hte2; simp [rRead, NP]
        rw [rRead_cons hte2]
        exact hV t2 o r2 (by simp; omega)
    · cases t <;> first
        | exact absurd ⟨_, rfl⟩ hop
        | exact absurd rfl hte
        | exact hV _ .eq r1 (by simp)

theorem sField_len {σ κ : Type} (V : σ → κ → RTok → Op → List RTok → R (σ × List RTok)) (st : σ) (kk : κ)
    (r : List RTok) (st' : σ) (q : List RTok)
    (hS : ∀ t o r' st' q, V st kk t o r' = .ok (st', q) → q.length ≤ r'.length)
    (h : sField V st kk r = .ok (st', q)) : q.length < r.length := by
  unfold sField at h
  cases hr : rRead r with
  | error e => simp [hr] at h
  | ok tr =>
    obtain ⟨t, r1⟩ := tr
    obtain ⟨rfl, hte⟩ := rRead_ok hr
    by_cases hop : ∃ o, t = .op o
    · obtain ⟨o, rfl⟩ := hop
      simp only [hr] at h
      cases hr2 : rRead r1 with
      | error e => simp [hr2] at h
      | ok tr2 =>
        obtain ⟨t2, r2⟩ := tr2
        obtain ⟨rfl, _⟩ := rRead_ok hr2
        simp only [hr2] at h
        have := hS t2 o r2 st' q h
        simp; omega
    · have h' : V st kk t .eq r1 = .ok (st', q) := by cases t <;> simp_all
      have := hS t .eq r1 st' q h'
      simp; omega

/-- de.rs:223 `TextReaderMap`: enough fuel for the tokens there are.  `Pk` is what the key step
guarantees about its result (e.g. the field type found is one of the declared ones). -/
theorem sMapFold_np {σ κ : Type} (root : Bool) (K : σ → RTok → R κ)
    (V : σ → κ → RTok → Op → List RTok → R (σ × List RTok)) (Pk : κ → Prop)
    (hK : ∀ st k, NP (K st k)) (hKP : ∀ st k kk, K st k = .ok kk → Pk kk)
    (hS : ∀ st kk t o r st' q, V st kk t o r = .ok (st', q) → q.length ≤ r.length) :
    ∀ (n : Nat) (x : List RTok) (st : σ), x.length < n →
    (∀ st kk t o r, Pk kk → r.length < x.length → NP (V st kk t o r)) →
    NP (sMapFold root K V n x st)
  | 0, x, st, h, _ => by omega
  | n + 1, [], st, _, _ => by cases root <;> simp [sMapFold, rNext, NP]
  | n + 1, t :: r, st, hn, hV => by
      cases ht : t with
      | err => simp [sMapFold, rNext, NP]
      | close => simp [sMapFold, rNext, NP]
      | open_ =>
        simp only [sMapFold, rNext]
        cases hs : rSkip r 0 with
        | error e =>
          have := rSkip_np r 0
          rw [hs] at this; simpa [NP] using this
        | ok r' =>
          simp only []
          obtain ⟨c, hx, _, _, _⟩ := rSkip_dep r 0 r' hs
          have hl : r'.length ≤ r.length := by rw [hx]; simp
          exact sMapFold_np root K V Pk hK hKP hS n r' st (by simp at hn; omega)
            (fun st kk t o r2 hp hl2 => hV st kk t o r2 hp (by simp; omega))
      | _ =>
        have hk : t.isKey = true := by rw [ht]; rfl
        rw [← ht, sMapFold_key root K V n t hk r st]
        cases hKt : K st t with
        | error e =>
          have := hK st t
          rw [hKt] at this; simpa [NP] using this
        | ok kk =>
          simp only []
          have hP := hKP st t kk hKt
          have hnpF := sField_np V st kk r (fun t2 o r' hl => hV st kk t2 o r' hP (by simp; omega))
          cases hF : sField V st kk r with
          | error e => rw [hF] at hnpF; simpa [NP] using hnpF
          | ok sr =>
            obtain ⟨st1, r3⟩ := sr
            simp only []
            have hl := sField_len V st kk r st1 r3 (hS st kk) hF
            exact sMapFold_np root K V Pk hK hKP hS n r3 st1 (by simp at hn; omega)
              (fun st kk t o r2 hp hl2 => hV st kk t o r2 hp (by simp; omega))

theorem sde_len (enc : Enc) (f : Nat) (ty : Ty) (tok : RTok) (op : Op) (x : List RTok) (v : Val) (q : List RTok)
    (h : sde enc f ty tok op x = .ok (v, q)) : q.length ≤ x.length := by
  obtain ⟨c, hx, _, _⟩ := sde_dep enc f ty tok op x v q h
  rw [hx]; simp

theorem sStructVal_len (enc : Enc) (f : Nat) (seen : List (Nat × Val)) (kk : Option (Nat × Ty)) (t : RTok) (o : Op)
    (r : List RTok) (st' : List (Nat × Val)) (q : List RTok)
    (h : sStructVal (sde enc f) seen kk t o r = .ok (st', q)) : q.length ≤ r.length := by
  obtain ⟨c, hx, _, _⟩ := depVal_struct enc f (sde_dep enc f) 0 seen kk t o r st' q h
  rw [hx]; simp

theorem sMapVal_len (enc : Enc) (f : Nat) (ty : Ty) (acc : List (Val × Val)) (name : Bytes) (t : RTok) (o : Op)
    (r : List RTok) (st' : List (Val × Val)) (q : List RTok)
    (h : sMapVal (sde enc f) ty acc name t o r = .ok (st', q)) : q.length ≤ r.length := by
  obtain ⟨c, hx, _, _⟩ := depVal_map enc f (sde_dep enc f) ty 0 acc name t o r st' q h
  rw [hx]; simp

theorem sStructKey_np (enc : Enc) (fs : List (Bytes × Ty)) (seen : List (Nat × Val)) (k : RTok) :
    NP (sStructKey enc fs seen k) := by
  unfold sStructKey sKeyName
  cases hs : sStr enc k with
  | error e => have := sStr_np enc k; rw [hs] at this; simpa [NP] using this
  | ok name =>
    simp only []
    cases lookupIdx name fs 0 with
    | none => simp [NP]
    | some it => obtain ⟨i, t⟩ := it; simp only []; split <;> simp [NP]

theorem sStructKey_height (enc : Enc) (fs : List (Bytes × Ty)) (seen : List (Nat × Val)) (k : RTok)
    (kk : Option (Nat × Ty)) (h : sStructKey enc fs seen k = .ok kk) :
    ∀ i t, kk = some (i, t) → t.height ≤ Ty.heightFs fs := by
  unfold sStructKey at h
  cases hs : sKeyName enc k with
  | error e => simp [hs] at h
  | ok name =>
    simp only [hs] at h
    cases hl : lookupIdx name fs 0 with
    | none => simp only [hl, Except.ok.injEq] at h; subst h; intro i t hc; cases hc
    | some it =>
      obtain ⟨i0, t0⟩ := it
      simp only [hl] at h
      split at h
      · cases h
      · simp only [Except.ok.injEq] at h; subst h
        intro i t hc
        simp only [Option.some.injEq, Prod.mk.injEq] at hc
        obtain ⟨_, rfl⟩ := hc
        exact lookupIdx_height name fs 0 i0 t0 hl

theorem rRead_np (x : List RTok) : NP (rRead x) := by
  cases x with
  | nil => simp [rRead, NP]
  | cons t r => cases t <;> simp [rRead, NP]

theorem sTupFold_np (F : Ty → RTok → List RTok → R (Val × List RTok)) :
    ∀ (ts : List Ty) (x : List RTok), (∀ t, t ∈ ts → ∀ tok r, NP (F t tok r)) → NP (sTupFold F ts x)
  | [], x, _ => by simp [sTupFold, NP]
  | t :: rest, x, h => by
      simp only [sTupFold]
      cases hr : rRead x with
      | error e => have := rRead_np x; rw [hr] at this; simpa [NP] using this
      | ok tr =>
        obtain ⟨tok, r⟩ := tr
        have hstep : NP (match F t tok r with
            | .error e => (.error e : R (List Val × List RTok))
            | .ok (v, r') =>
              match sTupFold F rest r' with
              | .error e => .error e
              | .ok (tl, r'') => .ok (v :: tl, r'')) := by
          have h1 := h t (List.mem_cons_self ..) tok r
          cases hF : F t tok r with
          | error e => rw [hF] at h1; simpa [NP] using h1
          | ok ar =>
            obtain ⟨a, r'⟩ := ar
            simp only []
            have h2 := sTupFold_np F rest r' (fun t' hm => h t' (List.mem_cons_of_mem _ hm))
            cases hS : sTupFold F rest r' with
            | error e => rw [hS] at h2; simpa [NP] using h2
            | ok p => simp [NP]
        cases tok <;> first | exact hstep | simp [NP]

/-- the value deserializer on the stream: with fuel above the nesting of the type it never panics -/
theorem sde_np (enc : Enc) : ∀ (f : Nat) (ty : Ty) (tok : RTok) (op : Op) (x : List RTok),
    ty.height < f → NP (sde enc f ty tok op x) := by
  intro f
  induction f with
  | zero => intro ty tok op x h; omega
  | succ f ih =>
    intro ty tok op x hh
    cases ty with
    | bool | i64 | u64 | i32 | u32 | i16 | u16 | i8 | u8 | f64 | f32 => simp only [sde]; exact np_map _ (sLeaf_np _ tok)
    | str => simp only [sde]; exact np_map _ (sStr_np enc tok)
    | any => simp only [sde]; exact sAny_np enc _ tok x (by omega)
    | ign =>
      simp only [sde]
      cases tok <;> first | exact np_ok _ | exact np_map _ (rSkip_np x 0)
    | opt t => simp only [sde]; exact np_map _ (ih t tok op x (by simp [Ty.height] at hh; omega))
    | prop t => simp only [sde]; exact np_map _ (ih t tok .eq x (by simp [Ty.height] at hh; omega))
    | en vs =>
      simp only [sde]
      cases hs : sStr enc tok with
      | error e => have := sStr_np enc tok; rw [hs] at this; simpa [NP] using this
      | ok name => simp only []; split <;> simp [NP]
    | tup ts =>
      simp only [sde]
      have := sTupFold_np (fun t tok r => sde enc f t tok .eq r) ts x
        (fun t hm tok r => ih t tok .eq r (by have := mem_heightTs ts t hm; simp [Ty.height] at hh; omega))
      cases hS : sTupFold (fun t tok r => sde enc f t tok .eq r) ts x with
      | error e => rw [hS] at this; simpa [NP] using this
      | ok p =>
        obtain ⟨vs, r⟩ := p
        simp only []
        cases hr : rRead r with
        | error e => have := rRead_np r; rw [hr] at this; simpa [NP] using this
        | ok tr => obtain ⟨tok', r'⟩ := tr; cases tok' <;> simp [NP]
    | seq t =>
      simp only [sde]
      have := sSeqFold_np (fun t' r => sde enc f t t' .eq r) (x.length + 1) x (by omega)
        (fun t' r _ => ih t t' .eq r (by simp [Ty.height] at hh; omega))
        (fun t' r a q hq => sde_len enc f t t' .eq r a q hq)
      cases hS : sSeqFold (fun t' r => sde enc f t t' .eq r) (x.length + 1) x with
      | error e => rw [hS] at this; simpa [NP] using this
      | ok p => simp [NP]
    | map t =>
      simp only [sde]
      cases tok with
      | open_ =>
        simp only []
        have := sMapFold_np false (fun _ k => sKeyName enc k) (sMapVal (sde enc f) t) (fun _ => True)
          (fun _ k => sStr_np enc k) (fun _ _ _ _ => trivial)
          (fun st kk tk o r st' q hq => sMapVal_len enc f t st kk tk o r st' q hq)
          (x.length + 1) x [] (by omega)
          (fun st kk tk o r _ _ => np_map _ (ih t tk o r (by simp [Ty.height] at hh; omega)))
        cases hM : sMapFold false (fun _ k => sKeyName enc k) (sMapVal (sde enc f) t) (x.length + 1) x [] with
        | error e => rw [hM] at this; simpa [NP] using this
        | ok p => simp [NP]
      | close => simp [NP]
      | op o => simp [NP]
      | unq s => simp [NP]
      | quo s => simp [NP]
      | err => simp [NP]
    | st fs =>
      simp only [sde]
      cases tok with
      | open_ =>
        simp only []
        have hf1 : 1 ≤ f := by simp [Ty.height] at hh; omega
        have := sMapFold_np false (sStructKey enc fs) (sStructVal (sde enc f))
          (fun kk => ∀ i t, kk = some (i, t) → t.height ≤ Ty.heightFs fs)
          (sStructKey_np enc fs) (sStructKey_height enc fs)
          (fun st kk tk o r st' q hq => sStructVal_len enc f st kk tk o r st' q hq)
          (x.length + 1) x [] (by omega)
          (fun st kk tk o r hp _ => by
            cases kk with
            | none => exact np_map _ (ih .ign tk o r (by simp [Ty.height]; omega))
            | some it =>
              obtain ⟨i, t⟩ := it
              have := hp i t rfl
              exact np_map _ (ih t tk o r (by simp [Ty.height] at hh; omega)))
        cases hM : sMapFold false (sStructKey enc fs) (sStructVal (sde enc f)) (x.length + 1) x [] with
        | error e => rw [hM] at this; simpa [NP] using this
        | ok p => obtain ⟨seen, r⟩ := p; simp only []; exact np_map _ (structFinish_np fs 0 seen)
      | close => simp [NP]
      | op o => simp [NP]
      | unq s => simp [NP]
      | quo s => simp [NP]
      | err => simp [NP]

theorem propFinish_np (st : Option Op × Option Val) : NP (propFinish st) := by
  obtain ⟨a, b⟩ := st
  cases a <;> cases b <;> simp [propFinish, NP]

/-- C05 (deserializer level, stream path): for every encoding, every target type and every list of
reader tokens -- no hypothesis -- the streaming deserializer model never yields the panic /
out-of-fuel outcome: a mismatching type or a broken stream is an error. -/
theorem C05_textde_stream_no_panic (enc : Enc) (ty : Ty) (toks : List RTok) :
    deStream enc ty toks ≠ .error .panic := by
  show NP (deStream enc ty toks)
  cases ty with
  | st fs =>
    simp only [deStream]
    have := sMapFold_np true (sStructKey enc fs) (sStructVal (sde enc (Ty.st fs).height))
      (fun kk => ∀ i t, kk = some (i, t) → t.height ≤ Ty.heightFs fs)
      (sStructKey_np enc fs) (sStructKey_height enc fs)
      (fun st kk tk o r st' q hq => sStructVal_len enc _ st kk tk o r st' q hq)
      (toks.length + 1) toks [] (by omega)
      (fun st kk tk o r hp _ => by
        cases kk with
        | none => exact np_map _ (sde_np enc _ .ign tk o r (by simp [Ty.height]))
        | some it =>
          obtain ⟨i, t⟩ := it
          have := hp i t rfl
          exact np_map _ (sde_np enc _ t tk o r (by simp [Ty.height]; omega)))
    cases hM : sMapFold true (sStructKey enc fs) (sStructVal (sde enc (Ty.st fs).height)) (toks.length + 1) toks [] with
    | error e => rw [hM] at this; simpa [NP] using this
    | ok p => obtain ⟨seen, r⟩ := p; simp only []; exact np_map _ (structFinish_np fs 0 seen)
  | map t =>
    simp only [deStream]
    have := sMapFold_np true (fun _ k => sKeyName enc k) (sMapVal (sde enc (Ty.map t).height) t) (fun _ => True)
      (fun _ k => sStr_np enc k) (fun _ _ _ _ => trivial)
      (fun st kk tk o r st' q hq => sMapVal_len enc _ t st kk tk o r st' q hq)
      (toks.length + 1) toks [] (by omega)
      (fun st kk tk o r _ _ => np_map _ (sde_np enc _ t tk o r (by simp [Ty.height])))
    cases hM : sMapFold true (fun _ k => sKeyName enc k) (sMapVal (sde enc (Ty.map t).height) t) (toks.length + 1) toks [] with
    | error e => rw [hM] at this; simpa [NP] using this
    | ok p => simp [NP]
  | prop t =>
    simp only [deStream]
    generalize hV : (fun (st : Option Op × Option Val) (name : Bytes) (t' : RTok) (o : Op) (r : List RTok) =>
        if name = operatorKey then
          (match t' with
           | .close => (.error .other : R ((Option Op × Option Val) × List RTok))
           | _ => .error .type)
        else if name = valueKey then (sde enc (Ty.prop t).height t t' o r).map (fun (v, r') => ((st.1, some v), r'))
        else (sde enc (Ty.prop t).height .ign t' o r).map (fun (_, r') => (st, r'))) = V
    have hlen : ∀ st kk tk o r st' q, V st kk tk o r = .ok (st', q) → q.length ≤ r.length := by
      intro st kk tk o r st' q hq
      rw [← hV] at hq
      obtain ⟨c, hx, _, _⟩ := depVal_propRoot enc _ t 0 st kk tk o r st' q hq
      rw [hx]; simp
    have hnp : ∀ st kk tk o r, NP (V st kk tk o r) := by
      intro st kk tk o r
      rw [← hV]
      simp only []
      split
      · split <;> simp [NP]
      · split
        · exact np_map _ (sde_np enc _ t tk o r (by simp [Ty.height]))
        · exact np_map _ (sde_np enc _ .ign tk o r (by simp [Ty.height]))
    have := sMapFold_np true (fun _ k => sKeyName enc k) V (fun _ => True)
      (fun _ k => sStr_np enc k) (fun _ _ _ _ => trivial) hlen
      (toks.length + 1) toks (none, none) (by omega) (fun st kk tk o r _ _ => hnp st kk tk o r)
    cases hM : sMapFold true (fun _ k => sKeyName enc k) V (toks.length + 1) toks (none, none) with
    | error e => rw [hM] at this; simpa [NP] using this
    | ok p => obtain ⟨st', r⟩ := p; simp only []; exact propFinish_np st'
  | bool | i64 | u64 | i32 | u32 | i16 | u16 | i8 | u8 | f64 | f32 | str | any | ign => simp [deStream, NP]
  | opt t => simp [deStream, NP]
  | seq t => simp [deStream, NP]
  | en vs => simp [deStream, NP]
  | tup ts => simp [deStream, NP]

/-! ## tape path -/

theorem wfT_tok {toks : List TTok} (h : WfT toks = true) {i : Nat} (hi : i < toks.length) : tokOk toks i = true := by
  simp only [WfT, Bool.and_eq_true, List.all_eq_true, List.mem_range] at h
  exact h.1 i hi

theorem tokOk_arr {toks : List TTok} {i e : Nat} {m : Bool} (h : tokOk toks i = true) (ht : toks[i]? = some (.arr e m)) :
    i < e ∧ e < toks.length ∧ toks[e]? = some (.end_ i) := by
  simp only [tokOk, ht, Bool.and_eq_true, decide_eq_true_eq] at h
  exact ⟨h.1.1, h.1.2, h.2⟩

theorem tokOk_obj {toks : List TTok} {i e : Nat} {m : Bool} (h : tokOk toks i = true) (ht : toks[i]? = some (.obj e m)) :
    i < e ∧ e < toks.length ∧ toks[e]? = some (.end_ i) ∧ walkOk toks (toks.length + 1) (i + 1) e = true ∧
    NP (readArray toks i) := by
  simp only [tokOk, ht, Bool.and_eq_true, decide_eq_true_eq] at h
  refine ⟨h.1.1.1.1, h.1.1.1.2, h.1.1.2, h.1.2, ?_⟩
  cases hr : readArray toks i with
  | error e' => simp [hr] at h
  | ok a => simp [NP]

theorem tokOk_hdr {toks : List TTok} {i : Nat} {s : Bytes} (h : tokOk toks i = true) (ht : toks[i]? = some (.hdr s)) :
    ∃ e m, toks[i + 1]? = some (.arr e m) ∨ toks[i + 1]? = some (.obj e m) := by
  simp only [tokOk, ht] at h
  cases h1 : toks[i + 1]? with
  | none => simp [h1] at h
  | some t => cases t <;> simp [h1] at h <;> simp

theorem getElem?_lt {toks : List TTok} {i : Nat} {t : TTok} (h : toks[i]? = some t) : i < toks.length := by
  rcases Nat.lt_or_ge i toks.length with h' | h'
  · exact h'
  · rw [List.getElem?_eq_none h'] at h; cases h

theorem tokAt_lt {toks : List TTok} {i : Nat} (hi : i < toks.length) : ∃ t, toks[i]? = some t ∧ tokAt toks i = .ok t := by
  have : toks[i]? = some toks[i] := List.getElem?_eq_getElem hi
  exact ⟨toks[i], this, by simp [tokAt, this]⟩

theorem nextIdx_ok_lt {toks : List TTok} {f idx r : Nat} (h : nextIdx toks f idx = .ok r) : idx < toks.length := by
  cases f with
  | zero => simp [nextIdx] at h
  | succ f =>
    rcases Nat.lt_or_ge idx toks.length with h' | h'
    · exact h'
    · simp [nextIdx, tokAt, List.getElem?_eq_none h'] at h

/-- `next_idx_values` inside a sound tape: defined, moves forward, stays inside -/
theorem nextIdxValues_wf {toks : List TTok} (hw : WfT toks = true) {s : Nat} (hs : s < toks.length) :
    ∃ s', nextIdxValues toks s = .ok s' ∧ s < s' ∧ s' ≤ toks.length := by
  obtain ⟨t, ht, hta⟩ := tokAt_lt hs
  have hok := wfT_tok hw hs
  cases t with
  | arr e m => obtain ⟨h1, h2, _⟩ := tokOk_arr hok ht; exact ⟨e + 1, by simp [nextIdxValues, hta], by omega, by omega⟩
  | obj e m => obtain ⟨h1, h2, _⟩ := tokOk_obj hok ht; exact ⟨e + 1, by simp [nextIdxValues, hta], by omega, by omega⟩
  | mixedC => exact ⟨s + 1, by simp [nextIdxValues, hta], by omega, by omega⟩
  | unq b => exact ⟨s + 1, by simp [nextIdxValues, hta], by omega, by omega⟩
  | quo b => exact ⟨s + 1, by simp [nextIdxValues, hta], by omega, by omega⟩
  | param b => exact ⟨s + 1, by simp [nextIdxValues, hta], by omega, by omega⟩
  | undef b => exact ⟨s + 1, by simp [nextIdxValues, hta], by omega, by omega⟩
  | op o => exact ⟨s + 1, by simp [nextIdxValues, hta], by omega, by omega⟩
  | end_ j => exact ⟨s + 1, by simp [nextIdxValues, hta], by omega, by omega⟩
  | hdr b => exact ⟨s + 1, by simp [nextIdxValues, hta], by omega, by omega⟩

/-- `read_array` inside a sound tape: never panics; the range it yields ends inside the tape and, for
an array token, starts behind it -/
theorem readArray_wf {toks : List TTok} (hw : WfT toks = true) {i : Nat} (hi : i < toks.length) :
    NP (readArray toks i) ∧
    ∀ s e, readArray toks i = .ok (some (s, e)) → e ≤ toks.length ∧
      (∀ e' m, toks[i]? = some (.arr e' m) → s = i + 1) := by
  obtain ⟨t, ht, hta⟩ := tokAt_lt hi
  have hok := wfT_tok hw hi
  cases t with
  | arr e m =>
    obtain ⟨h1, h2, _⟩ := tokOk_arr hok ht
    refine ⟨by simp [readArray, hta, NP], ?_⟩
    intro s e' h
    simp only [readArray, hta, Except.ok.injEq, Option.some.injEq, Prod.mk.injEq] at h
    exact ⟨by omega, fun _ _ _ => h.1.symm⟩
  | obj e m =>
    obtain ⟨h1, h2, _, _, hnp⟩ := tokOk_obj hok ht
    refine ⟨hnp, ?_⟩
    intro s e' h
    refine ⟨?_, fun e'' m' hc => by rw [ht] at hc; cases hc⟩
    cases m with
    | false =>
      simp only [readArray, hta, Except.ok.injEq, Option.some.injEq, Prod.mk.injEq] at h
      omega
    | true =>
      simp only [readArray, hta] at h
      split at h
      · cases h
      · simp only [Except.ok.injEq, Option.some.injEq, Prod.mk.injEq] at h; omega
  | hdr b =>
    obtain ⟨e, m, hn⟩ := tokOk_hdr hok ht
    have hi1 : i + 1 < toks.length := by rcases hn with hn | hn <;> exact getElem?_lt hn
    have hok1 := wfT_tok hw hi1
    have hnext : ∃ e2, nextIdx toks (toks.length + 1) (i + 1) = .ok (e2 + 1) ∧ e2 < toks.length := by
      rcases hn with hn | hn
      · obtain ⟨_, h2, _⟩ := tokOk_arr hok1 hn
        exact ⟨e, by simp [nextIdx, tokAt, hn], h2⟩
      · obtain ⟨_, h2, _⟩ := tokOk_obj hok1 hn
        exact ⟨e, by simp [nextIdx, tokAt, hn], h2⟩
    obtain ⟨e2, hne, he2⟩ := hnext
    refine ⟨by simp [readArray, hta, hne, NP], ?_⟩
    intro s e' h
    simp only [readArray, hta, hne, Except.ok.injEq, Option.some.injEq, Prod.mk.injEq] at h
    exact ⟨by omega, fun e'' m' hc => by rw [ht] at hc; cases hc⟩
  | mixedC => exact ⟨by simp [readArray, hta, NP], fun s e h => by simp [readArray, hta] at h⟩
  | unq b => exact ⟨by simp [readArray, hta, NP], fun s e h => by simp [readArray, hta] at h⟩
  | quo b => exact ⟨by simp [readArray, hta, NP], fun s e h => by simp [readArray, hta] at h⟩
  | param b => exact ⟨by simp [readArray, hta, NP], fun s e h => by simp [readArray, hta] at h⟩
  | undef b => exact ⟨by simp [readArray, hta, NP], fun s e h => by simp [readArray, hta] at h⟩
  | op o => exact ⟨by simp [readArray, hta, NP], fun s e h => by simp [readArray, hta] at h⟩
  | end_ j => exact ⟨by simp [readArray, hta, NP], fun s e h => by simp [readArray, hta] at h⟩

/-- the value deserializer's position lies inside the tape -/
def VKOk (toks : List TTok) : VK → Prop
  | .opval _ i | .value i => i < toks.length
  | .scalar _ => True
  | .array s e => 1 ≤ s ∧ s ≤ e ∧ e ≤ toks.length

/-- lower bound for the positions of the parts of a value -/
def vkLo : VK → Nat
  | .opval _ i | .value i => i + 1
  | .array s _ => s
  | .scalar _ => 0

/-- no "remainder" below `lo` at the end `e` of a map range -/
def RemLo (toks : List TTok) (e lo : Nat) : Prop :=
  ∀ y e' m, toks[e]? = some (.end_ y) → toks[y]? = some (.arr e' m) → lo ≤ y + 1

def ShapeOk (toks : List TTok) (lo : Nat) : TShape → Prop
  | .str _ _ => True
  | .seq s e => e ≤ toks.length ∧ lo ≤ s
  | .map s e => e ≤ toks.length ∧ lo ≤ s ∧ walkOk toks (toks.length + 1) s e = true ∧ RemLo toks e lo

/-- a map range that comes from an object token: there is no remainder behind its fields at all -/
def ShapeObj (toks : List TTok) : TShape → Prop
  | .map s e => RemLo toks e (s + 1)
  | _ => True

theorem walkOk_empty (toks : List TTok) (f e : Nat) : walkOk toks (f + 1) e e = true := by
  simp [walkOk, fieldsNext]

theorem tShape_opval (enc : Enc) (toks : List TTok) : ∀ (f : Nat) (mode : Mode) (o : Op) (i : Nat),
    tShape enc toks f mode (.opval o i) = tShape enc toks f mode (.value i) := by
  intro f
  induction f with
  | zero => intro mode o i; simp [tShape]
  | succ f ih =>
    intro mode o i
    cases mode with
    | map =>
      simp only [tShape]
      cases tokAt toks i with
      | error x => rfl
      | ok t => cases t <;> simp only [ih]
    | seq =>
      simp only [tShape]
      cases readArray toks i with
      | error x => rfl
      | ok r => cases r with
        | none => simp only [ih]
        | some p => rfl
    | any =>
      simp only [tShape]
      cases tokAt toks i with
      | error x => rfl
      | ok t =>
        cases t <;> simp only [ih] <;> try rfl
        all_goals (cases toks[i + 1]? with
          | none => rfl
          | some t2 => cases t2 <;> rfl)

/-- what `deserialize_any` / `_map` / `_seq` hand to the visitor inside a sound tape: never a panic,
never out of fuel; the ranges lie inside the tape (and, for `deserialize_any`, behind the value) -/
theorem tShape_wf (enc : Enc) {toks : List TTok} (hw : WfT toks = true) (mode : Mode) (vk : VK) (hv : VKOk toks vk) :
    NP (tShape enc toks shapeFuel mode vk) ∧
    ∀ sh, tShape enc toks shapeFuel mode vk = .ok sh →
      ShapeOk toks (match mode with | .any => vkLo vk | _ => 0) sh ∧ (mode = .any → ShapeObj toks sh) := by
  -- containers first
  have hcont : ∀ (j : Nat) (f : Nat), j < toks.length →
      (∀ e m, toks[j]? = some (.obj e m) →
        tShape enc toks (f + 1) .map (.value j) = .ok (.map (j + 1) e) ∧ ShapeOk toks (j + 1) (.map (j + 1) e) ∧
          ShapeObj toks (.map (j + 1) e)) ∧
      (∀ e m, toks[j]? = some (.arr e m) →
        tShape enc toks (f + 1) .map (.value j) = .ok (.map e e) ∧ ShapeOk toks (j + 1) (.map e e) ∧
        tShape enc toks (f + 1) .seq (.value j) = .ok (.seq (j + 1) e) ∧ ShapeOk toks (j + 1) (.seq (j + 1) e)) := by
    intro j f hj
    have hok := wfT_tok hw hj
    constructor
    · intro e m ht
      obtain ⟨h1, h2, h3, h4, _⟩ := tokOk_obj hok ht
      have hno : ∀ L, RemLo toks e L := by
        intro L y e' m' hy hy'
        rw [h3] at hy; simp only [Option.some.injEq, TTok.end_.injEq] at hy; subst hy
        rw [ht] at hy'; cases hy'
      exact ⟨by simp [tShape, tokAt, ht], ⟨by omega, Nat.le_refl _, h4, hno _⟩, hno _⟩
    · intro e m ht
      obtain ⟨h1, h2, h3⟩ := tokOk_arr hok ht
      refine ⟨by simp [tShape, tokAt, ht], ⟨by omega, by omega, walkOk_empty _ _ _, ?_⟩,
        by simp [tShape, readArray, tokAt, ht], by omega, Nat.le_refl _⟩
      intro y e' m' hy hy'
      rw [h3] at hy; simp only [Option.some.injEq, TTok.end_.injEq] at hy; subst hy
      omega
  cases vk with
  | scalar b =>
    cases mode <;> simp [shapeFuel, tShape, NP, ShapeOk, ShapeObj]
  | array s e =>
    simp only [VKOk] at hv
    cases mode <;> simp [shapeFuel, tShape, NP, ShapeOk, ShapeObj, vkLo, hv]
  | opval o i =>
    simp only [tShape_opval]
    exact tShape_wf_value enc hw hcont mode i hv
  | value i => exact tShape_wf_value enc hw hcont mode i hv
where
  tShape_wf_value (enc : Enc) {toks : List TTok} (hw : WfT toks = true)
      (hcont : ∀ (j : Nat) (f : Nat), j < toks.length →
        (∀ e m, toks[j]? = some (.obj e m) →
          tShape enc toks (f + 1) .map (.value j) = .ok (.map (j + 1) e) ∧ ShapeOk toks (j + 1) (.map (j + 1) e) ∧
            ShapeObj toks (.map (j + 1) e)) ∧
        (∀ e m, toks[j]? = some (.arr e m) →
          tShape enc toks (f + 1) .map (.value j) = .ok (.map e e) ∧ ShapeOk toks (j + 1) (.map e e) ∧
          tShape enc toks (f + 1) .seq (.value j) = .ok (.seq (j + 1) e) ∧ ShapeOk toks (j + 1) (.seq (j + 1) e)))
      (mode : Mode) (i : Nat) (hi : i < toks.length) :
      NP (tShape enc toks shapeFuel mode (.value i)) ∧
      ∀ sh, tShape enc toks shapeFuel mode (.value i) = .ok sh →
        ShapeOk toks (match mode with | .any => i + 1 | _ => 0) sh ∧ (mode = .any → ShapeObj toks sh) := by
    obtain ⟨t, ht, hta⟩ := tokAt_lt hi
    have hok := wfT_tok hw hi
    have hra := readArray_wf hw hi
    -- `deserialize_any` at `i`, with at least 3 units of fuel
    have hany : ∀ f, NP (tShape enc toks (f + 3) .any (.value i)) ∧
        ∀ sh, tShape enc toks (f + 3) .any (.value i) = .ok sh → ShapeOk toks (i + 1) sh ∧ ShapeObj toks sh := by
      intro f
      cases t with
      | arr e m =>
        obtain ⟨_, _, h3, h4⟩ := (hcont i (f + 1) hi).2 e m ht
        have : tShape enc toks (f + 3) .any (.value i) = .ok (.seq (i + 1) e) := by
          rw [show f + 3 = (f + 2) + 1 from rfl, tShape]; simp only [hta]; exact h3
        rw [this]; exact ⟨np_ok _, fun sh hs => by cases hs; exact ⟨h4, trivial⟩⟩
      | obj e m =>
        obtain ⟨h1, h2, h2o⟩ := (hcont i (f + 1) hi).1 e m ht
        have : tShape enc toks (f + 3) .any (.value i) = .ok (.map (i + 1) e) := by
          rw [show f + 3 = (f + 2) + 1 from rfl, tShape]; simp only [hta]; exact h1
        rw [this]; exact ⟨np_ok _, fun sh hs => by cases hs; exact ⟨h2, h2o⟩⟩
      | hdr b =>
        obtain ⟨e, m, hn⟩ := tokOk_hdr hok ht
        have hi1 : i + 1 < toks.length := by rcases hn with hn | hn <;> exact getElem?_lt hn
        rcases hn with hn | hn
        · obtain ⟨_, _, h3, h4⟩ := (hcont (i + 1) (f + 1) hi1).2 e m hn
          have : tShape enc toks (f + 3) .any (.value i) = .ok (.seq (i + 1 + 1) e) := by
            rw [show f + 3 = (f + 2) + 1 from rfl, tShape]; simp only [hta, hn]; exact h3
          rw [this]
          refine ⟨np_ok _, fun sh hs => by cases hs; exact ⟨⟨h4.1, by omega⟩, trivial⟩⟩
        · obtain ⟨h1, h2, h2o⟩ := (hcont (i + 1) (f + 1) hi1).1 e m hn
          have : tShape enc toks (f + 3) .any (.value i) = .ok (.map (i + 1 + 1) e) := by
            rw [show f + 3 = (f + 2) + 1 from rfl, tShape]; simp only [hta, hn]; exact h1
          rw [this]
          have hrem : RemLo toks e (i + 1) := by
            intro y e' m' hy hy'
            have := h2.2.2.2 y e' m' hy hy'
            omega
          exact ⟨np_ok _, fun sh hs => by cases hs; exact ⟨⟨h2.1, by omega, h2.2.2.1, hrem⟩, h2o⟩⟩
      | quo b => simp [show f + 3 = (f + 2) + 1 from rfl, tShape, hta, NP, ShapeOk, ShapeObj]
      | unq b => simp [show f + 3 = (f + 2) + 1 from rfl, tShape, hta, NP, ShapeOk, ShapeObj]
      | mixedC => simp [show f + 3 = (f + 2) + 1 from rfl, tShape, hta, NP]
      | param b => simp [show f + 3 = (f + 2) + 1 from rfl, tShape, hta, NP]
      | undef b => simp [show f + 3 = (f + 2) + 1 from rfl, tShape, hta, NP]
      | op o => simp [show f + 3 = (f + 2) + 1 from rfl, tShape, hta, NP]
      | end_ j => simp [show f + 3 = (f + 2) + 1 from rfl, tShape, hta, NP]
    have weaken : ∀ sh, ShapeOk toks (i + 1) sh → ShapeOk toks 0 sh := by
      intro sh h
      cases sh with
      | str a b => trivial
      | seq s e => exact ⟨h.1, Nat.zero_le _⟩
      | map s e => exact ⟨h.1, Nat.zero_le _, h.2.2.1, fun _ _ _ _ _ => Nat.zero_le _⟩
    cases mode with
    | any => exact ⟨(hany 5).1, fun sh hs => ⟨((hany 5).2 sh hs).1, fun _ => ((hany 5).2 sh hs).2⟩⟩
    | map =>
      cases t with
      | obj e m =>
        obtain ⟨h1, h2, _⟩ := (hcont i 7 hi).1 e m ht
        simp only [shapeFuel]; rw [h1]
        exact ⟨np_ok _, fun sh hs => by cases hs; exact ⟨weaken _ h2, fun hc => by cases hc⟩⟩
      | arr e m =>
        obtain ⟨h1, h2, _, _⟩ := (hcont i 7 hi).2 e m ht
        simp only [shapeFuel]; rw [h1]
        exact ⟨np_ok _, fun sh hs => by cases hs; exact ⟨weaken _ h2, fun hc => by cases hc⟩⟩
      | _ =>
        have : tShape enc toks shapeFuel .map (.value i) = tShape enc toks 7 .any (.value i) := by
          rw [show shapeFuel = 7 + 1 from rfl, tShape]; simp only [hta]
        rw [this]
        exact ⟨(hany 4).1, fun sh hs => ⟨weaken _ ((hany 4).2 sh hs).1, fun hc => by cases hc⟩⟩
    | seq =>
      have hstep : tShape enc toks shapeFuel .seq (.value i) =
          (match readArray toks i with
           | .error x => .error x
           | .ok (some (s, e)) => .ok (.seq s e)
           | .ok none => tShape enc toks 7 .any (.value i)) := by
        rw [show shapeFuel = 7 + 1 from rfl, tShape]
        cases readArray toks i with
        | error x => rfl
        | ok r => cases r with
          | none => rfl
          | some p => rfl
      rw [hstep]
      cases hr : readArray toks i with
      | error x =>
        have := hra.1; rw [hr] at this
        exact ⟨by simpa [NP] using this, fun sh hs => by cases hs⟩
      | ok r =>
        cases r with
        | none => exact ⟨(hany 4).1, fun sh hs => ⟨weaken _ ((hany 4).2 sh hs).1, fun hc => by cases hc⟩⟩
        | some p =>
          obtain ⟨s, e⟩ := p
          exact ⟨np_ok _, fun sh hs => by cases hs; exact ⟨⟨(hra.2 s e hr).1, Nat.zero_le _⟩, fun hc => by cases hc⟩⟩

/-- position of a value deserializer -/
def vkPos : VK → Nat
  | .opval _ i | .value i => i
  | .array s _ => s
  | .scalar _ => 0

/-- de.rs:1525 `SeqAccess` inside a sound tape -/
theorem tSeqFold_wf {toks : List TTok} (hw : WfT toks = true) (onElem : VK → R Val) (e : Nat) (he : e ≤ toks.length) :
    ∀ (n s : Nat), e - s < n → (∀ s', s ≤ s' → s' < e → NP (onElem (.value s'))) → NP (tSeqFold toks onElem n s e)
  | 0, s, h, _ => by omega
  | n + 1, s, hn, hE => by
      simp only [tSeqFold]
      split
      · rename_i hse
        obtain ⟨s', hs', hlt, _⟩ := nextIdxValues_wf hw (show s < toks.length by omega)
        simp only [hs']
        have h1 := hE s (Nat.le_refl _) hse
        cases hO : onElem (.value s) with
        | error x => rw [hO] at h1; simpa [NP] using h1
        | ok v =>
          simp only []
          exact np_map _ (tSeqFold_wf hw onElem e he n s' (by omega) (fun s'' h1 h2 => hE s'' (by omega) h2))
      · exact np_ok _

theorem fieldsNext_some {toks : List TTok} {ti e : Nat} {k : Bytes} {op : Option Op} {vi ti' : Nat}
    (h : fieldsNext toks ti e = .ok (some (k, op, vi, ti'))) : ti < vi ∧ vi < toks.length := by
  unfold fieldsNext at h
  split at h
  · cases h
  · cases h1 : tokAt toks ti with
    | error x => simp [h1] at h
    | ok key =>
      simp only [h1] at h
      cases key <;> simp only [] at h <;> try (cases h; done)
      all_goals
        (cases h2 : tokAt toks (ti + 1) with
         | error x => simp [h2] at h
         | ok nxt =>
           simp only [h2] at h
           cases nxt <;> simp only [] at h <;>
             (split at h
              · cases h
              · rename_i r hr
                simp only [Except.ok.injEq, Option.some.injEq, Prod.mk.injEq] at h
                obtain ⟨_, _, rfl, _⟩ := h
                exact ⟨by omega, nextIdx_ok_lt hr⟩))

theorem walkOk_step {toks : List TTok} {F ti e : Nat} (h : walkOk toks (F + 1) ti e = true) :
    (fieldsNext toks ti e = .ok none ∧ ((toks[ti]? = some .mixedC ∧ ti < e) ∨ ti = e)) ∨
    (∃ k op vi ti', fieldsNext toks ti e = .ok (some (k, op, vi, ti')) ∧ ti < ti' ∧ ti' ≤ e ∧ walkOk toks F ti' e = true) := by
  simp only [walkOk] at h
  cases hf : fieldsNext toks ti e with
  | error x => simp [hf] at h
  | ok r =>
    cases r with
    | none =>
      simp only [hf, Bool.or_eq_true, decide_eq_true_eq] at h
      exact Or.inl ⟨rfl, h⟩
    | some p =>
      obtain ⟨k, op, vi, ti'⟩ := p
      simp only [hf, Bool.and_eq_true, decide_eq_true_eq] at h
      exact Or.inr ⟨k, op, vi, ti', rfl, h.1.1, h.1.2, h.2⟩

theorem remainder_wf (toks : List TTok) (ti e lo : Nat)
    (hend : (toks[ti]? = some .mixedC ∧ ti < e) ∨ ti = e) (hlo : lo ≤ ti + 1) (hrem : RemLo toks e lo) :
    (remainderOf toks ti e).2 = e ∧
      ((remainderOf toks ti e).1 < e → lo ≤ (remainderOf toks ti e).1 ∧ 1 ≤ (remainderOf toks ti e).1) := by
  unfold remainderOf
  rcases hend with ⟨hm, hlt⟩ | rfl
  · constructor
    · simp [hm]
    · simp only [hm]; intro _; exact ⟨hlo, by omega⟩
  · cases ht : toks[ti]? with
    | none => exact ⟨rfl, fun h => absurd h (Nat.lt_irrefl _)⟩
    | some t =>
      cases t with
      | end_ y =>
        simp only []
        cases hy : toks[y]? with
        | none => exact ⟨rfl, fun h => absurd h (Nat.lt_irrefl _)⟩
        | some t2 =>
          cases t2 with
          | arr e' m => exact ⟨rfl, fun _ => ⟨hrem y e' m ht hy, Nat.succ_le_succ (Nat.zero_le _)⟩⟩
          | _ => exact ⟨rfl, fun h => absurd h (Nat.lt_irrefl _)⟩
      | mixedC => exact ⟨rfl, fun h => by simp only [] at h; omega⟩
      | _ => exact ⟨rfl, fun h => absurd h (Nat.lt_irrefl _)⟩

/-- de.rs:993 `MapAccess` inside a sound tape: the walk supplies enough fuel; every entry's value lies
inside the tape, at or above `lo` -/
theorem tMapFold_wf {σ : Type} {toks : List TTok} (onEntry : σ → TKey → VK → R σ) (e lo : Nat) (he : e ≤ toks.length)
    (hrem : RemLo toks e lo)
    (hE : ∀ st k vk, VKOk toks vk → lo ≤ vkPos vk → NP (onEntry st k vk)) :
    ∀ (F ti : Nat) (atRem : Bool) (st : σ), walkOk toks F ti e = true → lo ≤ ti + 1 →
      NP (tMapFold toks onEntry (F + 1) ti e atRem st)
  | 0, ti, atRem, st, h, _ => by simp [walkOk] at h
  | F + 1, ti, atRem, st, h, hlo => by
      rcases walkOk_step h with ⟨hf, hend⟩ | ⟨k, op, vi, ti', hf, h1, h2, h3⟩
      · simp only [tMapFold, hf]
        have hre := remainder_wf toks ti e lo hend hlo hrem
        generalize hr : remainderOf toks ti e = p at hre
        obtain ⟨rs, re⟩ := p
        simp only at hre
        simp only []
        split
        · rename_i hc
          simp only [Bool.and_eq_true, Bool.not_eq_true', decide_eq_true_eq] at hc
          have hnp := hE st .remainder (.array rs re) (by simp only [VKOk]; have := hre.2 (by omega); omega) (by simp only [vkPos]; exact (hre.2 (by omega)).1)
          cases hO : onEntry st .remainder (.array rs re) with
          | error x => rw [hO] at hnp; simpa [NP] using hnp
          | ok st' =>
            simp only []
            -- second visit: no field, the remainder was taken
            cases F with
            | zero =>
              simp only [tMapFold, hf, hr]
              simp [NP]
            | succ F' =>
              simp only [tMapFold, hf, hr]
              simp [NP]
        · exact np_ok _
      · obtain ⟨hvi1, hvi2⟩ := fieldsNext_some hf
        simp only [tMapFold, hf]
        have hnp := hE st (.key k) (.opval (op.getD .eq) vi) (by simp only [VKOk]; exact hvi2) (by simp only [vkPos]; omega)
        cases hO : onEntry st (.key k) (.opval (op.getD .eq) vi) with
        | error x => rw [hO] at hnp; simpa [NP] using hnp
        | ok st' =>
          simp only []
          exact tMapFold_wf onEntry e lo he hrem hE F ti' atRem st' h3 (by omega)

/-- recursion fuel `AnyVisitor` needs at a position: the nesting below a position is bounded by the
number of tokens behind it -/
def vkNeed (toks : List TTok) : VK → Nat
  | .opval _ i | .value i => toks.length - i + 1
  | .array s _ => toks.length - s + 2
  | .scalar _ => 1

/-- tyseed.rs `AnyVisitor` on the tape path inside a sound tape -/
theorem tAny_wf (enc : Enc) {toks : List TTok} (hw : WfT toks = true) :
    ∀ (n : Nat) (vk : VK), VKOk toks vk → vkNeed toks vk ≤ n → NP (tAny enc toks n vk)
  | 0, vk, _, h => by cases vk <;> simp [vkNeed] at h
  | n + 1, .scalar b, hv, hn => by simp [tAny, shapeFuel, tShape, NP]
  | n + 1, vk, hv, hn => by
      by_cases hsc : ∃ b, vk = .scalar b
      · obtain ⟨b, rfl⟩ := hsc; simp [tAny, shapeFuel, tShape, NP]
      simp only [tAny]
      obtain ⟨hnp, hsh⟩ := tShape_wf enc hw .any vk hv
      cases hS : tShape enc toks shapeFuel .any vk with
      | error x => rw [hS] at hnp; simpa [NP] using hnp
      | ok sh =>
        obtain ⟨hok, hobj⟩ := hsh sh hS
        have hobj := hobj rfl
        simp only [] at hok
        cases sh with
        | str b bo => exact np_ok _
        | seq s e =>
          simp only [ShapeOk] at hok
          simp only []
          refine np_map _ (tSeqFold_wf hw _ e hok.1 _ s (by omega) ?_)
          intro s' h1 h2
          refine tAny_wf enc hw n (.value s') (by simp only [VKOk]; omega) ?_
          cases vk <;> simp only [vkNeed, vkLo, VKOk] at hn hok hv ⊢ <;> first | omega | exact absurd ⟨_, rfl⟩ hsc
        | map s e =>
          simp only [ShapeOk] at hok
          simp only [ShapeObj] at hobj
          simp only []
          refine np_map _ (tMapFold_wf _ e (s + 1) hok.1 hobj ?_ (toks.length + 1) s false [] hok.2.2.1 (Nat.le_refl _))
          intro st k vk' hv' hpos
          refine np_map _ (tAny_wf enc hw n vk' hv' ?_)
          cases vk <;> cases vk' <;> simp only [vkNeed, vkLo, vkPos, VKOk] at hn hok hv hv' hpos ⊢ <;>
            first | omega | exact absurd ⟨_, rfl⟩ hsc

theorem vkReadScalar_np {toks : List TTok} (vk : VK) (hv : VKOk toks vk) : NP (vkReadScalar toks vk) := by
  cases vk with
  | scalar b => exact np_ok _
  | array s e => exact np_ok _
  | opval o i => obtain ⟨t, _, hta⟩ := tokAt_lt (show i < toks.length from hv); simp [vkReadScalar, hta, NP]
  | value i => obtain ⟨t, _, hta⟩ := tokAt_lt (show i < toks.length from hv); simp [vkReadScalar, hta, NP]

theorem vkReadStr_np (enc : Enc) {toks : List TTok} (vk : VK) (hv : VKOk toks vk) : NP (vkReadStr enc toks vk) := by
  cases vk with
  | scalar b => exact np_ok _
  | array s e => exact np_ok _
  | opval o i =>
    obtain ⟨t, _, hta⟩ := tokAt_lt (show i < toks.length from hv)
    cases t <;> simp [vkReadStr, hta, NP]
  | value i =>
    obtain ⟨t, _, hta⟩ := tokAt_lt (show i < toks.length from hv)
    cases t <;> simp [vkReadStr, hta, NP]

theorem tLeaf_np (enc : Enc) {toks : List TTok} (hw : WfT toks = true) (ty : Ty) (vk : VK) (hv : VKOk toks vk) :
    NP (tLeaf enc toks ty vk) := by
  unfold tLeaf
  have h1 := vkReadScalar_np vk hv
  cases hr : vkReadScalar toks vk with
  | error x => rw [hr] at h1; simpa [NP] using h1
  | ok so =>
    simp only []
    cases hc : so.bind (leafConv ty) with
    | some r =>
      simp only []
      cases so with
      | none => simp at hc
      | some b => simp only [Option.bind] at hc; exact leafConv_np ty b r hc
    | none =>
      simp only []
      have h2 := (tShape_wf enc hw .any vk hv).1
      cases hs : tShape enc toks shapeFuel .any vk with
      | error x => rw [hs] at h2; simpa [NP] using h2
      | ok sh => simp [NP]

theorem tStr_np (enc : Enc) {toks : List TTok} (hw : WfT toks = true) (vk : VK) (hv : VKOk toks vk) :
    NP (tStr enc toks vk) := by
  unfold tStr
  have h1 := vkReadStr_np enc vk hv
  cases hr : vkReadStr enc toks vk with
  | error x => rw [hr] at h1; simpa [NP] using h1
  | ok so =>
    cases so with
    | some p => obtain ⟨b, bo⟩ := p; exact np_ok _
    | none =>
      simp only []
      have h2 := (tShape_wf enc hw .any vk hv).1
      cases hs : tShape enc toks shapeFuel .any vk with
      | error x => rw [hs] at h2; simpa [NP] using h2
      | ok sh => cases sh <;> simp [NP]

theorem tOperator_np (enc : Enc) {toks : List TTok} (hw : WfT toks = true) (vk : VK) (hv : VKOk toks vk) :
    NP (tOperator enc toks vk) := by
  unfold tOperator
  have hvis : ∀ b bo, NP ((if bo = true then (match Op.ofSymbol b with | some o => (.ok o : R Op) | none => .error .other) else .error .type)) := by
    intro b bo
    split
    · split <;> simp [NP]
    · simp [NP]
  have h1 := vkReadStr_np enc vk hv
  cases hr : vkReadStr enc toks vk with
  | error x => rw [hr] at h1; simpa [NP] using h1
  | ok so =>
    cases so with
    | some p => obtain ⟨b, bo⟩ := p; exact hvis b bo
    | none =>
      simp only []
      have h2 := (tShape_wf enc hw .any vk hv).1
      cases hs : tShape enc toks shapeFuel .any vk with
      | error x => rw [hs] at h2; simpa [NP] using h2
      | ok sh =>
        cases sh with
        | str b bo => exact hvis b bo
        | seq s e => simp [NP]
        | map s e => simp [NP]

theorem lookupIdx_height' (name : Bytes) (fs : List (Bytes × Ty)) (i : Nat) (t : Ty)
    (h : lookupIdx name fs 0 = some (i, t)) : t.height ≤ Ty.heightFs fs := lookupIdx_height name fs 0 i t h

theorem structEntry_np (fs : List (Bytes × Ty)) (name : Bytes) (deVal : Ty → R Val) (seen : List (Nat × Val))
    (h : ∀ i t, lookupIdx name fs 0 = some (i, t) → NP (deVal t)) : NP (structEntry fs name deVal seen) := by
  unfold structEntry
  cases hl : lookupIdx name fs 0 with
  | none => exact np_ok _
  | some it =>
    obtain ⟨i, t⟩ := it
    simp only []
    split
    · simp [NP]
    · have := h i t hl
      cases hd : deVal t with
      | error x => rw [hd] at this; simpa [NP] using this
      | ok v => simp [NP]

theorem tTupFold_np {toks : List TTok} (hw : WfT toks = true) (deElem : Ty → VK → R Val) (e : Nat) (he : e ≤ toks.length) :
    ∀ (ts : List Ty) (s : Nat),
    (∀ t s', t ∈ ts → s' < toks.length → NP (deElem t (.value s'))) → NP (tTupFold toks deElem ts s e)
  | [], s, _ => by simp [tTupFold, NP]
  | t :: rest, s, h => by
      simp only [tTupFold]
      split
      · rename_i hse
        obtain ⟨s', hs', _, _⟩ := nextIdxValues_wf hw (show s < toks.length by omega)
        simp only [hs']
        have h1 := h t s (List.mem_cons_self ..) (by omega)
        cases hd : deElem t (.value s) with
        | error x => rw [hd] at h1; simpa [NP] using h1
        | ok v =>
          simp only []
          exact np_map _ (tTupFold_np hw deElem e he rest s' (fun t' s'' hm hl => h t' s'' (List.mem_cons_of_mem _ hm) hl))
      · simp [NP]

theorem structSeq_np {toks : List TTok} (hw : WfT toks = true) (deElem : Ty → VK → R Val) (e : Nat) (he : e ≤ toks.length) :
    ∀ (fs : List (Bytes × Ty)) (s : Nat),
    (∀ n t s', (n, t) ∈ fs → s' < toks.length → NP (deElem t (.value s'))) → NP (structSeq toks deElem fs s e)
  | [], s, _ => by simp [structSeq, NP]
  | (n, t) :: rest, s, h => by
      simp only [structSeq]
      split
      · rename_i hse
        obtain ⟨s', hs', _, _⟩ := nextIdxValues_wf hw (show s < toks.length by omega)
        simp only [hs']
        have h1 := h n t s (List.mem_cons_self ..) (by omega)
        cases hd : deElem t (.value s) with
        | error x => rw [hd] at h1; simpa [NP] using h1
        | ok v =>
          simp only []
          exact np_map _ (structSeq_np hw deElem e he rest s' (fun n' t' s'' hm hl => h n' t' s'' (List.mem_cons_of_mem _ hm) hl))
      · simp [NP]

theorem propEntry_np (enc : Enc) {toks : List TTok} (hw : WfT toks = true) (deVal : VK → R Val)
    (st : Option Op × Option Val) (k : TKey) (vk : VK) (hv : VKOk toks vk) (hd : NP (deVal vk)) :
    NP (propEntry enc toks deVal st k vk) := by
  unfold propEntry
  simp only []
  split
  · exact np_map _ (tOperator_np enc hw vk hv)
  · split
    · exact np_map _ hd
    · exact np_ok _

-- `Property` read without a captured operator (de.rs:1476 falls through to `deserialize_map`)
set_option hygiene false in
macro "prop_rest" vk:term : tactic =>
  `(tactic| (
      simp only [tde]
      obtain ⟨hnp, hsh⟩ := tShape_wf enc hw .map $vk hv
      cases hS : tShape enc toks shapeFuel .map $vk with
      | error x => rw [hS] at hnp; simpa [NP] using hnp
      | ok sh =>
        have hok := (hsh sh hS).1
        cases sh with
        | map s e =>
          simp only [ShapeOk] at hok
          simp only []
          have hfold := tMapFold_wf (propEntry enc toks (tde enc toks f t)) e 0 hok.1 (fun _ _ _ _ _ => Nat.zero_le _)
            (fun st k vk' hv' _ => propEntry_np enc hw _ st k vk' hv' (ihv vk' hv'))
            (toks.length + 1) s false (none, none) hok.2.2.1 (Nat.zero_le _)
          cases hM : tMapFold toks (propEntry enc toks (tde enc toks f t)) (toks.length + 2) s e false (none, none) with
          | error x => rw [hM] at hfold; simpa [NP] using hfold
          | ok st => simp only []; exact propFinish_np st
        | seq s e =>
          simp only [ShapeOk] at hok
          simp only []
          split
          · rename_i hse
            obtain ⟨s', hs', _, _⟩ := nextIdxValues_wf hw (show s < toks.length by omega)
            simp only [hs']
            have hop := tOperator_np enc hw (.value s) (show s < toks.length by omega)
            cases hO : tOperator enc toks (.value s) with
            | error x => rw [hO] at hop; simpa [NP] using hop
            | ok o =>
              simp only []
              split
              · rename_i hs2; exact np_map _ (ihv (.value s') (show s' < toks.length by omega))
              · simp [NP]
          · simp [NP]
        | str b bo => simp [NP]))

theorem tde_prop_np (enc : Enc) {toks : List TTok} (hw : WfT toks = true) (f : Nat) (t : Ty)
    (ihv : ∀ vk, VKOk toks vk → NP (tde enc toks f t vk)) (vk : VK) (hv : VKOk toks vk) :
    NP (tde enc toks (f + 1) (.prop t) vk) := by
  cases vk with
  | opval o i => simp only [tde]; exact np_map _ (ihv (.value i) hv)
  | value i => prop_rest (VK.value i)
  | scalar b => prop_rest (VK.scalar b)
  | array s0 e0 => prop_rest (VK.array s0 e0)

theorem tde_en_np (enc : Enc) {toks : List TTok} (hw : WfT toks = true) (f : Nat) (vs : List Bytes)
    (vk : VK) (hv : VKOk toks vk) : NP (tde enc toks (f + 1) (.en vs) vk) := by
  have core : ∀ i, i < toks.length →
      NP (match readArray toks i with
          | .error x => (.error x : R Val)
          | .ok (some (s, e)) =>
            if s < e then
              match nextIdxValues toks s with
              | .error x => .error x
              | .ok s' =>
                match tStr enc toks (.value s) with
                | .error x => .error x
                | .ok name =>
                  if s' < e then (if vs.contains name then .ok (.en name) else .error .other)
                  else .error .other
            else .error .other
          | .ok none =>
            match tStr enc toks (.value i) with
            | .error x => .error x
            | .ok name => if vs.contains name then .ok (.en name) else .error .other) := by
    intro i hi
    obtain ⟨hnp, hre⟩ := readArray_wf hw hi
    cases hr : readArray toks i with
    | error x => rw [hr] at hnp; simpa [NP] using hnp
    | ok r =>
      cases r with
      | none =>
        simp only []
        have h1 := tStr_np enc hw (.value i) hi
        cases hs : tStr enc toks (.value i) with
        | error x => rw [hs] at h1; simpa [NP] using h1
        | ok name => simp only []; split <;> simp [NP]
      | some p =>
        obtain ⟨s, e⟩ := p
        have he := (hre s e hr).1
        simp only []
        split
        · rename_i hse
          obtain ⟨s', hs', _, _⟩ := nextIdxValues_wf hw (show s < toks.length by omega)
          simp only [hs']
          have h1 := tStr_np enc hw (.value s) (show s < toks.length by omega)
          cases hs : tStr enc toks (.value s) with
          | error x => rw [hs] at h1; simpa [NP] using h1
          | ok name => simp only []; split <;> (try split) <;> simp [NP]
        · simp [NP]
  cases vk with
  | opval o i => simp only [tde]; exact core i hv
  | value i => simp only [tde]; exact core i hv
  | scalar b => simp [tde, NP]
  | array s e => simp [tde, NP]

/-- the value deserializer on a sound tape: with fuel above the nesting of the type it never panics -/
theorem tde_np (enc : Enc) {toks : List TTok} (hw : WfT toks = true) :
    ∀ (f : Nat) (ty : Ty) (vk : VK), ty.height < f → VKOk toks vk → NP (tde enc toks f ty vk) := by
  intro f
  induction f with
  | zero => intro ty vk h; omega
  | succ f ih =>
    intro ty vk hh hv
    have rem0 : ∀ e, RemLo toks e 0 := fun _ _ _ _ _ _ => Nat.zero_le _
    cases ty with
    | bool | i64 | u64 | i32 | u32 | i16 | u16 | i8 | u8 | f64 | f32 => simp only [tde]; exact tLeaf_np enc hw _ vk hv
    | str => simp only [tde]; exact np_map _ (tStr_np enc hw vk hv)
    | any =>
      simp only [tde]
      refine tAny_wf enc hw _ vk hv ?_
      cases vk <;> simp only [vkNeed, VKOk] at hv ⊢ <;> omega
    | ign => simp [tde, NP]
    | opt t => simp only [tde]; exact np_map _ (ih t vk (by simp [Ty.height] at hh; omega) hv)
    | seq t =>
      simp only [tde]
      obtain ⟨hnp, hsh⟩ := tShape_wf enc hw .seq vk hv
      cases hS : tShape enc toks shapeFuel .seq vk with
      | error x => rw [hS] at hnp; simpa [NP] using hnp
      | ok sh =>
        have hok := (hsh sh hS).1
        cases sh with
        | seq s e =>
          simp only [ShapeOk] at hok
          simp only []
          exact np_map _ (tSeqFold_wf hw _ e hok.1 _ s (by omega)
            (fun s' _ h2 => ih t (.value s') (by simp [Ty.height] at hh; omega) (by simp only [VKOk]; omega)))
        | str b bo => simp [NP]
        | map s e => simp [NP]
    | tup ts =>
      simp only [tde]
      obtain ⟨hnp, hsh⟩ := tShape_wf enc hw .seq vk hv
      cases hS : tShape enc toks shapeFuel .seq vk with
      | error x => rw [hS] at hnp; simpa [NP] using hnp
      | ok sh =>
        have hok := (hsh sh hS).1
        cases sh with
        | seq s e =>
          simp only [ShapeOk] at hok
          simp only []
          exact np_map _ (tTupFold_np hw _ e hok.1 ts s (fun t s' hm hl => ih t (.value s')
            (by have := mem_heightTs ts t hm; simp [Ty.height] at hh; omega) (by simp only [VKOk]; exact hl)))
        | str b bo => simp [NP]
        | map s e => simp [NP]
    | map t =>
      simp only [tde]
      obtain ⟨hnp, hsh⟩ := tShape_wf enc hw .map vk hv
      cases hS : tShape enc toks shapeFuel .map vk with
      | error x => rw [hS] at hnp; simpa [NP] using hnp
      | ok sh =>
        have hok := (hsh sh hS).1
        cases sh with
        | map s e =>
          simp only [ShapeOk] at hok
          simp only []
          exact np_map _ (tMapFold_wf _ e 0 hok.1 (rem0 e)
            (fun st k vk' hv' _ => np_map _ (ih t vk' (by simp [Ty.height] at hh; omega) hv'))
            (toks.length + 1) s false [] hok.2.2.1 (Nat.zero_le _))
        | str b bo => simp [NP]
        | seq s e => simp [NP]
    | st fs =>
      simp only [tde]
      obtain ⟨hnp, hsh⟩ := tShape_wf enc hw .map vk hv
      cases hS : tShape enc toks shapeFuel .map vk with
      | error x => rw [hS] at hnp; simpa [NP] using hnp
      | ok sh =>
        have hok := (hsh sh hS).1
        cases sh with
        | map s e =>
          simp only [ShapeOk] at hok
          simp only []
          have hfold := tMapFold_wf (fun seen k vk' => structEntry fs (k.decoded enc) (fun t => tde enc toks f t vk') seen)
            e 0 hok.1 (rem0 e)
            (fun st k vk' hv' _ => structEntry_np fs _ _ st (fun i t hl => ih t vk'
              (by have := lookupIdx_height' _ fs i t hl; simp [Ty.height] at hh; omega) hv'))
            (toks.length + 1) s false [] hok.2.2.1 (Nat.zero_le _)
          cases hM : tMapFold toks (fun seen k vk' => structEntry fs (k.decoded enc) (fun t => tde enc toks f t vk') seen)
              (toks.length + 2) s e false [] with
          | error x => rw [hM] at hfold; simpa [NP] using hfold
          | ok seen => simp only []; exact np_map _ (structFinish_np fs 0 seen)
        | seq s e =>
          simp only [ShapeOk] at hok
          simp only []
          exact np_map _ (structSeq_np hw _ e hok.1 fs s (fun n t s' hm hl => ih t (.value s')
            (by have := mem_height fs n t hm; simp [Ty.height] at hh; omega) (by simp only [VKOk]; exact hl)))
        | str b bo => simp [NP]
    | prop t =>
      have hht : t.height < f := by simp [Ty.height] at hh; omega
      exact tde_prop_np enc hw f t (fun vk' hv' => ih t vk' hht hv') vk hv
    | en vs => exact tde_en_np enc hw f vs vk hv

theorem wfT_root {toks : List TTok} (h : WfT toks = true) : walkOk toks (toks.length + 1) 0 toks.length = true := by
  simp only [WfT, Bool.and_eq_true] at h
  exact h.2

/-- C05 (deserializer level, tape path): for every encoding, every target type and every tape that
is structurally sound (`WfT`: end links in range, behind their opener and pointing back; object
fields walkable; mixed containers carry their marker; headers followed by their container -- PROVED for
every tape the parser model accepts: `wfT_of_parse`, and the unconditional form of this theorem
`C05_textde_on_parsed_tapes` (Proofs/TextDeParsed.lean); the `tde_wft` correspondence op checks it on the
real tapes of every run) the tape deserializer model never yields the panic / out-of-fuel outcome: no
`tokens[i]` out of range, the `debug_assert!` of `FieldsIter::next` is unreachable, all loops end
within their fuel.  A mismatching type is an error. -/
theorem C05_textde_tape_no_panic (enc : Enc) (ty : Ty) (toks : List TTok) (hw : WfT toks = true) :
    deTape enc ty toks ≠ .error .panic := by
  show NP (deTape enc ty toks)
  have rem0 : RemLo toks toks.length 0 := fun _ _ _ _ _ => Nat.zero_le _
  cases ty with
  | st fs =>
    simp only [deTape]
    have hfold := tMapFold_wf (fun seen k vk' => structEntry fs (k.decoded enc) (fun t => tde enc toks (Ty.st fs).height t vk') seen)
      toks.length 0 (Nat.le_refl _) rem0
      (fun st k vk' hv' _ => structEntry_np fs _ _ st (fun i t hl => tde_np enc hw _ t vk'
        (by have := lookupIdx_height' _ fs i t hl; simp [Ty.height]; omega) hv'))
      (toks.length + 1) 0 false [] (wfT_root hw) (Nat.zero_le _)
    cases hM : tMapFold toks (fun seen k vk' => structEntry fs (k.decoded enc) (fun t => tde enc toks (Ty.st fs).height t vk') seen)
        (toks.length + 2) 0 toks.length false [] with
    | error x => rw [hM] at hfold; simpa [NP] using hfold
    | ok seen => simp only []; exact np_map _ (structFinish_np fs 0 seen)
  | map t =>
    simp only [deTape]
    exact np_map _ (tMapFold_wf _ toks.length 0 (Nat.le_refl _) rem0
      (fun st k vk' hv' _ => np_map _ (tde_np enc hw _ t vk' (by simp [Ty.height]) hv'))
      (toks.length + 1) 0 false [] (wfT_root hw) (Nat.zero_le _))
  | prop t =>
    simp only [deTape]
    have hfold := tMapFold_wf (propEntry enc toks (tde enc toks (Ty.prop t).height t)) toks.length 0 (Nat.le_refl _) rem0
      (fun st k vk' hv' _ => propEntry_np enc hw _ st k vk' hv' (tde_np enc hw _ t vk' (by simp [Ty.height]) hv'))
      (toks.length + 1) 0 false (none, none) (wfT_root hw) (Nat.zero_le _)
    cases hM : tMapFold toks (propEntry enc toks (tde enc toks (Ty.prop t).height t)) (toks.length + 2) 0 toks.length false (none, none) with
    | error x => rw [hM] at hfold; simpa [NP] using hfold
    | ok st => simp only []; exact propFinish_np st
  | bool | i64 | u64 | i32 | u32 | i16 | u16 | i8 | u8 | f64 | f32 | str | any | ign => simp [deTape, NP]
  | opt t => simp [deTape, NP]
  | seq t => simp [deTape, NP]
  | en vs => simp [deTape, NP]
  | tup ts => simp [deTape, NP]

/-- the hypothesis is satisfiable, e.g. by the tape of `a={b=1} c={x y}` -/
example : WfT [.unq [97], .obj 4 false, .unq [98], .unq [49], .end_ 1, .unq [99], .arr 9 false, .unq [120], .unq [121], .end_ 6] = true := by
  decide

end Jomini.TextDe
