import JominiModel.Model.TextDe
import JominiModel.Proofs.TextDe
import JominiModel.Proofs.TextDeStream
import JominiModel.Proofs.TextDeCut
/-
C05 at the deserializer level: the two text deserializer models are total -- for ARBITRARY target
types (fitting the document or not) they never yield the `panic` outcome, which stands for a Rust
panic (index out of range, the `debug_assert!` of `FieldsIter::next`) and for running out of the
model's fuel.  A mismatching type is an error (`type`, `other`, `missing`, `duplicate`), not a panic.
-/
namespace Jomini.TextDe
open Jomini

/-- the outcome is not the panic / out-of-fuel outcome -/
def NP {α : Type} (r : R α) : Prop := r ≠ .error .panic

theorem np_ok {α : Type} (a : α) : NP (.ok a : R α) := by simp [NP]
theorem np_map {α β : Type} {r : R α} (g : α → β) (h : NP r) : NP (r.map g) := by
  cases r with
  | ok a => simp [NP, Except.map]
  | error e => simpa [NP, Except.map] using h

/-! ## stream path -/

theorem leafConv_np (ty : Ty) (s : Bytes) (r : R Val) (h : leafConv ty s = some r) : NP r := by
  cases ty <;> simp only [leafConv] at h <;> (try (simp at h; done)) <;>
    (split at h <;> (try (simp at h; done)) <;>
      (simp only [Option.some.injEq] at h; subst h; (try split) <;> simp [NP]))

theorem sLeaf_np (ty : Ty) (tok : RTok) : NP (sLeaf ty tok) := by
  unfold sLeaf
  cases h : tok.asScalar.bind (leafConv ty) with
  | some r =>
    simp only []
    cases hs : tok.asScalar with
    | none => simp [hs] at h
    | some s => simp only [hs, Option.bind] at h; exact leafConv_np ty s r h
  | none => simp only []; cases tok <;> simp [NP]

theorem sStr_np (enc : Enc) (tok : RTok) : NP (sStr enc tok) := by
  cases tok <;> simp [sStr, NP]

theorem rSkip_np : ∀ (x : List RTok) (d : Nat), NP (rSkip x d)
  | [], d => by simp [rSkip, NP]
  | t :: r, d => by
      cases t with
      | err => simp [rSkip, NP]
      | open_ => simp only [rSkip]; exact rSkip_np r (d + 1)
      | close => cases d <;> simp only [rSkip] <;> first | exact np_ok _ | exact rSkip_np r _
      | op o => simp only [rSkip]; exact rSkip_np r d
      | unq s => simp only [rSkip]; exact rSkip_np r d
      | quo s => simp only [rSkip]; exact rSkip_np r d

theorem structFinish_np : ∀ (fs : List (Bytes × Ty)) (i : Nat) (seen : List (Nat × Val)), NP (structFinish fs i seen)
  | [], i, seen => by simp [structFinish, NP]
  | (n, t) :: rest, i, seen => by
      simp only [structFinish]
      cases seenGet i seen with
      | some v => exact np_map _ (structFinish_np rest (i + 1) seen)
      | none =>
        cases t <;> first
          | exact np_map _ (structFinish_np rest (i + 1) seen)
          | simp [NP]

/-- de.rs:597 `TextReaderSeq`: enough fuel for the tokens there are -/
theorem sSeqFold_np (F : RTok → List RTok → R (Val × List RTok)) :
    ∀ (n : Nat) (x : List RTok), x.length < n →
    (∀ t r, r.length < x.length → NP (F t r)) →
    (∀ t r a q, F t r = .ok (a, q) → q.length ≤ r.length) →
    NP (sSeqFold F n x)
  | 0, x, h, _, _ => by omega
  | n + 1, [], hn, hF, hS => by simp [sSeqFold, rRead, NP]
  | n + 1, t :: r, hn, hF, hS => by
      by_cases hte : t = .err
      · subst hte; simp [sSeqFold, rRead, NP]
      by_cases htc : t = .close
      · subst htc; simp [sSeqFold, rRead, NP]
      rw [sSeqFold_step F n t r hte htc]
      have hlt : r.length < (t :: r).length := by simp
      cases hFt : F t r with
      | error e =>
        have := hF t r hlt
        rw [hFt] at this
        simpa [NP] using this
      | ok ar =>
        obtain ⟨a, r'⟩ := ar
        have hle := hS t r a r' hFt
        have ih := sSeqFold_np F n r' (by simp at hn; omega)
          (fun t' r'' hl => hF t' r'' (by simp; omega)) hS
        simp only []
        cases hrec : sSeqFold F n r' with
        | error e => rw [hrec] at ih; simpa [NP] using ih
        | ok p => simp [NP]

theorem sAny_len (enc : Enc) (n : Nat) (tok : RTok) (x : List RTok) (v : Val) (q : List RTok)
    (h : sAny enc n tok x = .ok (v, q)) : q.length ≤ x.length := by
  obtain ⟨c, hx, _, _⟩ := sAny_dep enc n tok x v q h
  rw [hx]; simp

theorem sAny_np (enc : Enc) : ∀ (n : Nat) (tok : RTok) (x : List RTok), x.length < n → NP (sAny enc n tok x)
  | 0, tok, x, h => by omega
  | n + 1, tok, x, h => by
      cases tok with
      | close => simp [sAny, NP]
      | err => simp [sAny, NP]
      | op o => simp [sAny, NP]
      | unq s => simp [sAny, NP]
      | quo s => simp [sAny, NP]
      | open_ =>
        simp only [sAny]
        have := sSeqFold_np (sAny enc n) (x.length + 1) x (by omega)
          (fun t r hl => sAny_np enc n t r (by omega)) (fun t r a q hq => sAny_len enc n t r a q hq)
        cases hS : sSeqFold (sAny enc n) (x.length + 1) x with
        | error e => rw [hS] at this; simpa [NP] using this
        | ok p => simp [NP]

theorem sField_np {σ κ : Type} (V : σ → κ → RTok → Op → List RTok → R (σ × List RTok)) (st : σ) (kk : κ)
    (r : List RTok) (hV : ∀ t o r', r'.length < r.length → NP (V st kk t o r')) : NP (sField V st kk r) := by
  unfold sField
  cases r with
  | nil => simp [rRead, NP]
  | cons t r1 =>
    by_cases hte : t = .err
    · subst hte; simp [rRead, NP]
    rw [rRead_cons hte]
    by_cases hop : ∃ o, t = .op o
    · obtain ⟨o, rfl⟩ := hop
      simp only []
      cases r1 with
      | nil => simp [rRead, NP]
      | cons t2 r2 =>
        by_cases hte2 : t2 = .err
        · subst hte2; simp [rRead, NP]
        rw [rRead_cons hte2]
        exact hV t2 o r2 (by simp; omega)
    · cases t <;> first
        | exact absurd ⟨_, rfl⟩ hop
        | exact absurd rfl hte
        | exact hV _ .eq r1 (by simp)

theorem sField_len {σ κ : Type} (V : σ → κ → RTok → Op → List RTok → R (σ × List RTok)) (st : σ) (kk : κ)
    (r : List RTok) (st' : σ) (q : List RTok)
    (hS : ∀ t o r' st' q, V st kk t o r' = .ok (st', q) → q.length ≤ r'.length)
    (h : sField V st kk r = .ok (st', q)) : q.length < r.length := by
  unfold sField at h
  cases hr : rRead r with
  | error e => simp [hr] at h
  | ok tr =>
    obtain ⟨t, r1⟩ := tr
    obtain ⟨rfl, hte⟩ := rRead_ok hr
    by_cases hop : ∃ o, t = .op o
    · obtain ⟨o, rfl⟩ := hop
      simp only [hr] at h
      cases hr2 : rRead r1 with
      | error e => simp [hr2] at h
      | ok tr2 =>
        obtain ⟨t2, r2⟩ := tr2
        obtain ⟨rfl, _⟩ := rRead_ok hr2
        simp only [hr2] at h
        have := hS t2 o r2 st' q h
        simp; omega
    · have h' : V st kk t .eq r1 = .ok (st', q) := by cases t <;> simp_all
      have := hS t .eq r1 st' q h'
      simp; omega

/-- de.rs:223 `TextReaderMap`: enough fuel for the tokens there are.  `Pk` is what the key step
guarantees about its result (e.g. the field type found is one of the declared ones). -/
theorem sMapFold_np {σ κ : Type} (root : Bool) (K : σ → RTok → R κ)
    (V : σ → κ → RTok → Op → List RTok → R (σ × List RTok)) (Pk : κ → Prop)
    (hK : ∀ st k, NP (K st k)) (hKP : ∀ st k kk, K st k = .ok kk → Pk kk)
    (hS : ∀ st kk t o r st' q, V st kk t o r = .ok (st', q) → q.length ≤ r.length) :
    ∀ (n : Nat) (x : List RTok) (st : σ), x.length < n →
    (∀ st kk t o r, Pk kk → r.length < x.length → NP (V st kk t o r)) →
    NP (sMapFold root K V n x st)
  | 0, x, st, h, _ => by omega
  | n + 1, [], st, _, _ => by cases root <;> simp [sMapFold, rNext, NP]
  | n + 1, t :: r, st, hn, hV => by
      cases ht : t with
      | err => simp [sMapFold, rNext, NP]
      | close => simp [sMapFold, rNext, NP]
      | open_ =>
        simp only [sMapFold, rNext]
        cases hs : rSkip r 0 with
        | error e =>
          have := rSkip_np r 0
          rw [hs] at this; simpa [NP] using this
        | ok r' =>
          simp only []
          obtain ⟨c, hx, _, _, _⟩ := rSkip_dep r 0 r' hs
          have hl : r'.length ≤ r.length := by rw [hx]; simp
          exact sMapFold_np root K V Pk hK hKP hS n r' st (by simp at hn; omega)
            (fun st kk t o r2 hp hl2 => hV st kk t o r2 hp (by simp; omega))
      | _ =>
        have hk : t.isKey = true := by rw [ht]; rfl
        rw [← ht, sMapFold_key root K V n t hk r st]
        cases hKt : K st t with
        | error e =>
          have := hK st t
          rw [hKt] at this; simpa [NP] using this
        | ok kk =>
          simp only []
          have hP := hKP st t kk hKt
          have hnpF := sField_np V st kk r (fun t2 o r' hl => hV st kk t2 o r' hP (by simp; omega))
          cases hF : sField V st kk r with
          | error e => rw [hF] at hnpF; simpa [NP] using hnpF
          | ok sr =>
            obtain ⟨st1, r3⟩ := sr
            simp only []
            have hl := sField_len V st kk r st1 r3 (hS st kk) hF
            exact sMapFold_np root K V Pk hK hKP hS n r3 st1 (by simp at hn; omega)
              (fun st kk t o r2 hp hl2 => hV st kk t o r2 hp (by simp; omega))

theorem sde_len (enc : Enc) (f : Nat) (ty : Ty) (tok : RTok) (op : Op) (x : List RTok) (v : Val) (q : List RTok)
    (h : sde enc f ty tok op x = .ok (v, q)) : q.length ≤ x.length := by
  obtain ⟨c, hx, _, _⟩ := sde_dep enc f ty tok op x v q h
  rw [hx]; simp

theorem sStructVal_len (enc : Enc) (f : Nat) (seen : List (Nat × Val)) (kk : Option (Nat × Ty)) (t : RTok) (o : Op)
    (r : List RTok) (st' : List (Nat × Val)) (q : List RTok)
    (h : sStructVal (sde enc f) seen kk t o r = .ok (st', q)) : q.length ≤ r.length := by
  obtain ⟨c, hx, _, _⟩ := depVal_struct enc f (sde_dep enc f) 0 seen kk t o r st' q h
  rw [hx]; simp

theorem sMapVal_len (enc : Enc) (f : Nat) (ty : Ty) (acc : List (Val × Val)) (name : Bytes) (t : RTok) (o : Op)
    (r : List RTok) (st' : List (Val × Val)) (q : List RTok)
    (h : sMapVal (sde enc f) ty acc name t o r = .ok (st', q)) : q.length ≤ r.length := by
  obtain ⟨c, hx, _, _⟩ := depVal_map enc f (sde_dep enc f) ty 0 acc name t o r st' q h
  rw [hx]; simp

theorem sStructKey_np (enc : Enc) (fs : List (Bytes × Ty)) (seen : List (Nat × Val)) (k : RTok) :
    NP (sStructKey enc fs seen k) := by
  unfold sStructKey sKeyName
  cases hs : sStr enc k with
  | error e => have := sStr_np enc k; rw [hs] at this; simpa [NP] using this
  | ok name =>
    simp only []
    cases lookupIdx name fs 0 with
    | none => simp [NP]
    | some it => obtain ⟨i, t⟩ := it; simp only []; split <;> simp [NP]

theorem sStructKey_height (enc : Enc) (fs : List (Bytes × Ty)) (seen : List (Nat × Val)) (k : RTok)
    (kk : Option (Nat × Ty)) (h : sStructKey enc fs seen k = .ok kk) :
    ∀ i t, kk = some (i, t) → t.height ≤ Ty.heightFs fs := by
  unfold sStructKey at h
  cases hs : sKeyName enc k with
  | error e => simp [hs] at h
  | ok name =>
    simp only [hs] at h
    cases hl : lookupIdx name fs 0 with
    | none => simp only [hl, Except.ok.injEq] at h; subst h; intro i t hc; cases hc
    | some it =>
      obtain ⟨i0, t0⟩ := it
      simp only [hl] at h
      split at h
      · cases h
      · simp only [Except.ok.injEq] at h; subst h
        intro i t hc
        simp only [Option.some.injEq, Prod.mk.injEq] at hc
        obtain ⟨_, rfl⟩ := hc
        exact lookupIdx_height name fs 0 i0 t0 hl

/-- the value deserializer on the stream: with fuel above the nesting of the type it never panics -/
theorem sde_np (enc : Enc) : ∀ (f : Nat) (ty : Ty) (tok : RTok) (op : Op) (x : List RTok),
    ty.height < f → NP (sde enc f ty tok op x) := by
  intro f
  induction f with
  | zero => intro ty tok op x h; omega
  | succ f ih =>
    intro ty tok op x hh
    cases ty with
    | bool | i64 | u64 | i32 | u32 | f64 | f32 => simp only [sde]; exact np_map _ (sLeaf_np _ tok)
    | str => simp only [sde]; exact np_map _ (sStr_np enc tok)
    | any => simp only [sde]; exact sAny_np enc _ tok x (by omega)
    | ign =>
      simp only [sde]
      cases tok <;> first | exact np_ok _ | exact np_map _ (rSkip_np x 0)
    | opt t => simp only [sde]; exact np_map _ (ih t tok op x (by simp [Ty.height] at hh; omega))
    | prop t => simp only [sde]; exact np_map _ (ih t tok .eq x (by simp [Ty.height] at hh; omega))
    | en vs =>
      simp only [sde]
      cases hs : sStr enc tok with
      | error e => have := sStr_np enc tok; rw [hs] at this; simpa [NP] using this
      | ok name => simp only []; split <;> simp [NP]
    | seq t =>
      simp only [sde]
      have := sSeqFold_np (fun t' r => sde enc f t t' .eq r) (x.length + 1) x (by omega)
        (fun t' r _ => ih t t' .eq r (by simp [Ty.height] at hh; omega))
        (fun t' r a q hq => sde_len enc f t t' .eq r a q hq)
      cases hS : sSeqFold (fun t' r => sde enc f t t' .eq r) (x.length + 1) x with
      | error e => rw [hS] at this; simpa [NP] using this
      | ok p => simp [NP]
    | map t =>
      simp only [sde]
      cases tok with
      | open_ =>
        simp only []
        have := sMapFold_np false (fun _ k => sKeyName enc k) (sMapVal (sde enc f) t) (fun _ => True)
          (fun _ k => sStr_np enc k) (fun _ _ _ _ => trivial)
          (fun st kk tk o r st' q hq => sMapVal_len enc f t st kk tk o r st' q hq)
          (x.length + 1) x [] (by omega)
          (fun st kk tk o r _ _ => np_map _ (ih t tk o r (by simp [Ty.height] at hh; omega)))
        cases hM : sMapFold false (fun _ k => sKeyName enc k) (sMapVal (sde enc f) t) (x.length + 1) x [] with
        | error e => rw [hM] at this; simpa [NP] using this
        | ok p => simp [NP]
      | close => simp [NP]
      | op o => simp [NP]
      | unq s => simp [NP]
      | quo s => simp [NP]
      | err => simp [NP]
    | st fs =>
      simp only [sde]
      cases tok with
      | open_ =>
        simp only []
        have hf1 : 1 ≤ f := by simp [Ty.height] at hh; omega
        have := sMapFold_np false (sStructKey enc fs) (sStructVal (sde enc f))
          (fun kk => ∀ i t, kk = some (i, t) → t.height ≤ Ty.heightFs fs)
          (sStructKey_np enc fs) (sStructKey_height enc fs)
          (fun st kk tk o r st' q hq => sStructVal_len enc f st kk tk o r st' q hq)
          (x.length + 1) x [] (by omega)
          (fun st kk tk o r hp _ => by
            cases kk with
            | none => exact np_map _ (ih .ign tk o r (by simp [Ty.height]; omega))
            | some it =>
              obtain ⟨i, t⟩ := it
              have := hp i t rfl
              exact np_map _ (ih t tk o r (by simp [Ty.height] at hh; omega)))
        cases hM : sMapFold false (sStructKey enc fs) (sStructVal (sde enc f)) (x.length + 1) x [] with
        | error e => rw [hM] at this; simpa [NP] using this
        | ok p => obtain ⟨seen, r⟩ := p; simp only []; exact np_map _ (structFinish_np fs 0 seen)
      | close => simp [NP]
      | op o => simp [NP]
      | unq s => simp [NP]
      | quo s => simp [NP]
      | err => simp [NP]

theorem propFinish_np (st : Option Op × Option Val) : NP (propFinish st) := by
  obtain ⟨a, b⟩ := st
  cases a <;> cases b <;> simp [propFinish, NP]

/-- C05 (deserializer level, stream path): for every encoding, every target type and every list of
reader tokens -- no hypothesis -- the streaming deserializer model never yields the panic /
out-of-fuel outcome: a mismatching type or a broken stream is an error. -/
theorem C05_textde_stream_no_panic (enc : Enc) (ty : Ty) (toks : List RTok) :
    deStream enc ty toks ≠ .error .panic := by
  show NP (deStream enc ty toks)
  cases ty with
  | st fs =>
    simp only [deStream]
    have := sMapFold_np true (sStructKey enc fs) (sStructVal (sde enc (Ty.st fs).height))
      (fun kk => ∀ i t, kk = some (i, t) → t.height ≤ Ty.heightFs fs)
      (sStructKey_np enc fs) (sStructKey_height enc fs)
      (fun st kk tk o r st' q hq => sStructVal_len enc _ st kk tk o r st' q hq)
      (toks.length + 1) toks [] (by omega)
      (fun st kk tk o r hp _ => by
        cases kk with
        | none => exact np_map _ (sde_np enc _ .ign tk o r (by simp [Ty.height]))
        | some it =>
          obtain ⟨i, t⟩ := it
          have := hp i t rfl
          exact np_map _ (sde_np enc _ t tk o r (by simp [Ty.height]; omega)))
    cases hM : sMapFold true (sStructKey enc fs) (sStructVal (sde enc (Ty.st fs).height)) (toks.length + 1) toks [] with
    | error e => rw [hM] at this; simpa [NP] using this
    | ok p => obtain ⟨seen, r⟩ := p; simp only []; exact np_map _ (structFinish_np fs 0 seen)
  | map t =>
    simp only [deStream]
    have := sMapFold_np true (fun _ k => sKeyName enc k) (sMapVal (sde enc (Ty.map t).height) t) (fun _ => True)
      (fun _ k => sStr_np enc k) (fun _ _ _ _ => trivial)
      (fun st kk tk o r st' q hq => sMapVal_len enc _ t st kk tk o r st' q hq)
      (toks.length + 1) toks [] (by omega)
      (fun st kk tk o r _ _ => np_map _ (sde_np enc _ t tk o r (by simp [Ty.height])))
    cases hM : sMapFold true (fun _ k => sKeyName enc k) (sMapVal (sde enc (Ty.map t).height) t) (toks.length + 1) toks [] with
    | error e => rw [hM] at this; simpa [NP] using this
    | ok p => simp [NP]
  | prop t =>
    simp only [deStream]
    generalize hV : (fun (st : Option Op × Option Val) (name : Bytes) (t' : RTok) (o : Op) (r : List RTok) =>
        if name = operatorKey then
          (match t' with
           | .close => (.error .other : R ((Option Op × Option Val) × List RTok))
           | _ => .error .type)
        else if name = valueKey then (sde enc (Ty.prop t).height t t' o r).map (fun (v, r') => ((st.1, some v), r'))
        else (sde enc (Ty.prop t).height .ign t' o r).map (fun (_, r') => (st, r'))) = V
    have hlen : ∀ st kk tk o r st' q, V st kk tk o r = .ok (st', q) → q.length ≤ r.length := by
      intro st kk tk o r st' q hq
      rw [← hV] at hq
      obtain ⟨c, hx, _, _⟩ := depVal_propRoot enc _ t 0 st kk tk o r st' q hq
      rw [hx]; simp
    have hnp : ∀ st kk tk o r, NP (V st kk tk o r) := by
      intro st kk tk o r
      rw [← hV]
      simp only []
      split
      · split <;> simp [NP]
      · split
        · exact np_map _ (sde_np enc _ t tk o r (by simp [Ty.height]))
        · exact np_map _ (sde_np enc _ .ign tk o r (by simp [Ty.height]))
    have := sMapFold_np true (fun _ k => sKeyName enc k) V (fun _ => True)
      (fun _ k => sStr_np enc k) (fun _ _ _ _ => trivial) hlen
      (toks.length + 1) toks (none, none) (by omega) (fun st kk tk o r _ _ => hnp st kk tk o r)
    cases hM : sMapFold true (fun _ k => sKeyName enc k) V (toks.length + 1) toks (none, none) with
    | error e => rw [hM] at this; simpa [NP] using this
    | ok p => obtain ⟨st', r⟩ := p; simp only []; exact propFinish_np st'
  | bool | i64 | u64 | i32 | u32 | f64 | f32 | str | any | ign => simp [deStream, NP]
  | opt t => simp [deStream, NP]
  | seq t => simp [deStream, NP]
  | en vs => simp [deStream, NP]

end Jomini.TextDe
