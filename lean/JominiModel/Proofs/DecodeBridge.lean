import JominiModel.Model.TextDe
import JominiModel.Model.Json
import JominiModel.Model.BinDe
import JominiModel.Proofs.Encoding
/-
Bridges from the string decoders that other slices re-model locally (text deserializer
`Model/TextDe.lean`, JSON `Model/Json.lean`, binary deserializer `Model/BinDe.lean`) to the
C12 model `Model/Encoding.lean`: each local decoder returns exactly the bytes of
`Encoding.decodeWindows1252` / `Encoding.decodeUtf8`, so the values those slices produce
inherit C12's guarantees (reference mapping, valid UTF-8).
-/
namespace Jomini.DecodeBridge
open Jomini Jomini.Encoding Jomini.Spec.Encoding Jomini.Spec.Encoding.Utf8

/-! ### tables -/

/-- the code-page tables of the other slices are the measured `Tables.win1252`. -/
theorem tables :
    Tables.binDeWin1252High = Tables.win1252.drop 128 ∧
    TextDe.w1252Hi = (Tables.win1252.drop 128).take 32 ∧
    (∀ n < 256, TextDe.w1252Cp (UInt8.ofNat n) = Tables.win1252.getD n 0) ∧
    (∀ n < 256, Json.w1252Cp (UInt8.ofNat n) = Tables.win1252.getD n 0) ∧
    (∀ n < 256, BinDe.cp1252 (UInt8.ofNat n) = Tables.win1252.getD n 0) := by
  decide +kernel

/-! ### trim / unescape -/

theorem trimLoop_eq_dropWhile (r : Bytes) : trimLoop r = r.dropWhile isAsciiWhitespace := by
  induction r with
  | nil => rfl
  | cons x xs ih =>
    by_cases h : isAsciiWhitespace x = true <;> simp [trimLoop, h, ih]

theorem trim_eq_dropWhile (ws : UInt8 → Bool) (hws : ∀ b, ws b = isAsciiWhitespace b) (d : Bytes) :
    (d.reverse.dropWhile ws).reverse = trim d := by
  have : ws = isAsciiWhitespace := funext hws
  rw [this, ← trimAsciiEnd_eq_trim, trimAsciiEnd, trimLoop_eq_dropWhile]

theorem textde_trim (d : Bytes) : TextDe.trimEnd d = trim d :=
  trim_eq_dropWhile _ (forall_u8 (fun b => TextDe.isAsciiWs b = isAsciiWhitespace b) (by decide +kernel)) d

theorem json_trim (d : Bytes) : Json.trimEnd d = trim d :=
  trim_eq_dropWhile _ (forall_u8 (fun b => Json.isAsciiWs b = isAsciiWhitespace b) (by decide +kernel)) d

theorem binde_trim (d : Bytes) : BinDe.trimEnd d = trim d :=
  trim_eq_dropWhile _ (forall_u8 (fun b => BinDe.isAsciiWs b = isAsciiWhitespace b) (by decide +kernel)) d

theorem filter_bne (d : Bytes) : d.filter (fun b => b != 92) = unescape d := by
  simp only [unescape]; apply List.filter_congr; intro x _; rw [Bool.eq_iff_iff]; simp

theorem filter_toNat_bne (d : Bytes) : d.filter (fun x => x.toNat != 92) = unescape d := by
  simp only [unescape]; apply List.filter_congr; intro x _
  exact forall_u8 (fun x => (x.toNat != 92) = decide (x ≠ 0x5c)) (by decide +kernel) x

/-! ### Windows-1252 -/

theorem flatMap_cp1252 (f : UInt8 → Bytes) (hf : ∀ b, f b = String.utf8EncodeChar (cp1252 b)) (l : Bytes) :
    l.flatMap f = utf8 (l.map cp1252) := by
  induction l with
  | nil => simp [utf8]
  | cons x xs ih => simp only [utf8, List.flatMap_cons, List.map_cons, hf] at ih ⊢; rw [ih]

theorem textde_enc (b : UInt8) : TextDe.utf8Enc (TextDe.w1252Cp b) = String.utf8EncodeChar (cp1252 b) := by
  rw [← encodeUtf8_cp1252]
  exact forall_u8 (fun b => TextDe.utf8Enc (TextDe.w1252Cp b) = encodeUtf8 (cp1252Code b.toNat)) (by decide +kernel) b

theorem json_enc (b : UInt8) : Json.utf8Enc (Json.w1252Cp b) = String.utf8EncodeChar (cp1252 b) := by
  rw [← encodeUtf8_cp1252]
  exact forall_u8 (fun b => Json.utf8Enc (Json.w1252Cp b) = encodeUtf8 (cp1252Code b.toNat)) (by decide +kernel) b

theorem binde_enc (b : UInt8) : BinDe.utf8Enc (BinDe.cp1252 b) = String.utf8EncodeChar (cp1252 b) := by
  rw [← encodeUtf8_cp1252]
  exact forall_u8 (fun b => BinDe.utf8Enc (BinDe.cp1252 b) = encodeUtf8 (cp1252Code b.toNat)) (by decide +kernel) b

/-- the bytes `Encoding.decodeWindows1252` returns (it never panics). -/
theorem w1252_bytes (d : Bytes) :
    ∃ c, decodeWindows1252 d = .ok c ∧ c.bytes = utf8 ((unescape (trim d)).map cp1252) := by
  rw [decodeWindows1252_eq]
  split
  · exact ⟨_, rfl, rfl⟩
  · rename_i h
    refine ⟨_, rfl, ?_⟩
    simp only [Cow.bytes]
    rw [utf8_cp1252_plain]
    intro x hx
    simp only [Bool.not_eq_true, List.any_eq_false, Bool.or_eq_true, not_or] at h
    have := h x hx
    simpa using this

/-- the text deserializer's Windows-1252 decoder returns the bytes of the C12 model. -/
theorem textde_w1252 (d : Bytes) :
    ∃ c, decodeWindows1252 d = .ok c ∧ TextDe.decode .w1252 d = c.bytes := by
  obtain ⟨c, h1, h2⟩ := w1252_bytes d
  refine ⟨c, h1, ?_⟩
  rw [h2]
  simp only [TextDe.decode, TextDe.decodeW, textde_trim, filter_bne]
  exact flatMap_cp1252 _ textde_enc _

/-- the binary deserializer's Windows-1252 decoder returns the bytes of the C12 model. -/
theorem binde_w1252 (d : Bytes) :
    ∃ c, decodeWindows1252 d = .ok c ∧ BinDe.decode1252 d = c.bytes := by
  obtain ⟨c, h1, h2⟩ := w1252_bytes d
  refine ⟨c, h1, ?_⟩
  rw [h2]
  simp only [BinDe.decode1252, binde_trim, filter_bne]
  exact flatMap_cp1252 _ binde_enc _

/-- the JSON model's Windows-1252 decoder returns the bytes of the C12 model. -/
theorem json_w1252 (d : Bytes) :
    ∃ c, decodeWindows1252 d = .ok c ∧ Json.decode .w1252 d = c.bytes := by
  obtain ⟨c, h1, h2⟩ := w1252_bytes d
  refine ⟨c, h1, ?_⟩
  rw [h2]
  simp only [Json.decode, Json.decodeW1252, json_trim, filter_toNat_bne]
  split
  · exact flatMap_cp1252 _ json_enc _
  · rename_i h
    rw [utf8_cp1252_plain]
    intro x hx
    simp only [Bool.not_eq_true, List.any_eq_false, Bool.or_eq_true, not_or] at h
    have := h x hx
    revert this
    exact forall_u8 (fun x => (decide (x.toNat ≥ 128) = false ∧ (x.toNat == 92) = false) → isAscii x = true ∧ x ≠ 92)
      (by decide +kernel) x

/-! ### lossy UTF-8 -/

theorem lt128_iff (b : UInt8) : b < 128 ↔ b.toNat < 128 := UInt8.lt_iff_toNat_lt
theorem lead2_iff (b : UInt8) : lead2 b = true ↔ (0xC2 ≤ b.toNat ∧ b.toNat ≤ 0xDF) := by
  simp [lead2, UInt8.le_iff_toNat_le]
theorem lead3_iff (b : UInt8) : lead3 b = true ↔ (0xE0 ≤ b.toNat ∧ b.toNat ≤ 0xEF) := by
  simp [lead3, UInt8.le_iff_toNat_le]
theorem lead4_iff (b : UInt8) : lead4 b = true ↔ (0xF0 ≤ b.toNat ∧ b.toNat ≤ 0xF4) := by
  simp [lead4, UInt8.le_iff_toNat_le]

theorem json_isCont (c : UInt8) : cont c = Json.isCont c :=
  forall_u8 (fun c => cont c = Json.isCont c) (by decide +kernel) c

theorem json_snd3_aux : ∀ n < 16, ∀ m < 256,
    snd3 (UInt8.ofNat (0xE0 + n)) (UInt8.ofNat m) = Json.utf8Second3 (UInt8.ofNat (0xE0 + n)) (UInt8.ofNat m) := by
  decide +kernel
theorem json_snd4_aux : ∀ n < 5, ∀ m < 256,
    snd4 (UInt8.ofNat (0xF0 + n)) (UInt8.ofNat m) = Json.utf8Second4 (UInt8.ofNat (0xF0 + n)) (UInt8.ofNat m) := by
  decide +kernel

theorem json_snd3 (a b : UInt8) (h : 0xE0 ≤ a.toNat ∧ a.toNat ≤ 0xEF) : snd3 a b = Json.utf8Second3 a b := by
  have := json_snd3_aux (a.toNat - 0xE0) (by omega) b.toNat b.toNat_lt
  have e : 0xE0 + (a.toNat - 0xE0) = a.toNat := by omega
  rw [e] at this; simpa using this
theorem json_snd4 (a b : UInt8) (h : 0xF0 ≤ a.toNat ∧ a.toNat ≤ 0xF4) : snd4 a b = Json.utf8Second4 a b := by
  have := json_snd4_aux (a.toNat - 0xF0) (by omega) b.toNat b.toNat_lt
  have e : 0xF0 + (a.toNat - 0xF0) = a.toNat := by omega
  rw [e] at this; simpa using this

theorem json_repl : Json.replacement = replacement := rfl

theorem json_lossy (x : Bytes) : Json.lossy x = lossy x := by
  fun_induction Json.lossy x
  all_goals (rw [lossy.eq_def])
  all_goals simp_all [lt128_iff, lead2_iff, lead3_iff, lead4_iff, json_isCont, json_snd3, json_snd4, json_repl]
  all_goals (try intro hh)
  all_goals (repeat' split)
  all_goals first | rfl | omega | simp_all


def tdOk3 (n c' : Nat) : Bool :=
  n == 224 && decide (160 ≤ c') && decide (c' ≤ 191) ||
        decide (225 ≤ n) && decide (n ≤ 236) && decide (128 ≤ c') && decide (c' ≤ 191) ||
      n == 237 && decide (128 ≤ c') && decide (c' ≤ 159) ||
    decide (238 ≤ n) && decide (n ≤ 239) && decide (128 ≤ c') && decide (c' ≤ 191)

def tdOk4 (n c' : Nat) : Bool :=
  n == 0xF0 && decide (0x90 ≤ c') && decide (c' ≤ 0xBF) ||
      decide (0xF1 ≤ n) && decide (n ≤ 0xF3) && decide (0x80 ≤ c') && decide (c' ≤ 0xBF) ||
    n == 0xF4 && decide (0x80 ≤ c') && decide (c' ≤ 0x8F)

theorem td_isCont (c : UInt8) : cont c = TextDe.isCont c :=
  forall_u8 (fun c => cont c = TextDe.isCont c) (by decide +kernel) c

theorem td_snd3_aux : ∀ n < 16, ∀ m < 256,
    snd3 (UInt8.ofNat (0xE0 + n)) (UInt8.ofNat m) = tdOk3 (0xE0 + n) m := by decide +kernel
theorem td_snd4_aux : ∀ n < 5, ∀ m < 256,
    snd4 (UInt8.ofNat (0xF0 + n)) (UInt8.ofNat m) = tdOk4 (0xF0 + n) m := by decide +kernel

theorem td_snd3 (a b : UInt8) (h : 0xE0 ≤ a.toNat ∧ a.toNat ≤ 0xEF) : snd3 a b = tdOk3 a.toNat b.toNat := by
  have := td_snd3_aux (a.toNat - 0xE0) (by omega) b.toNat b.toNat_lt
  have e : 0xE0 + (a.toNat - 0xE0) = a.toNat := by omega
  rw [e] at this; simpa using this
theorem td_snd4 (a b : UInt8) (h : 0xF0 ≤ a.toNat ∧ a.toNat ≤ 0xF4) : snd4 a b = tdOk4 a.toNat b.toNat := by
  have := td_snd4_aux (a.toNat - 0xF0) (by omega) b.toNat b.toNat_lt
  have e : 0xF0 + (a.toNat - 0xF0) = a.toNat := by omega
  rw [e] at this; simpa using this

theorem td_repl : TextDe.repl = replacement := rfl

theorem textde_lossy (f : Nat) : ∀ (x : Bytes), x.length ≤ f → TextDe.lossy f x = lossy x := by
  induction f with
  | zero =>
    intro x h
    have : x = [] := List.length_eq_zero_iff.mp (by omega)
    subst this; simp [TextDe.lossy, lossy]
  | succ f ih =>
    intro x h
    cases x with
    | nil => simp [TextDe.lossy, lossy]
    | cons b rest =>
      have hr : rest.length ≤ f := by simpa using h
      rw [TextDe.lossy.eq_def, lossy.eq_def]
      simp only [td_repl]
      by_cases h1 : b.toNat < 128
      · simp [h1, lt128_iff, ih rest hr]
      · have h1' : ¬ b < 128 := by rw [lt128_iff]; exact h1
        rw [if_neg h1, if_neg h1']
        by_cases h2 : 0xC2 ≤ b.toNat ∧ b.toNat ≤ 0xDF
        · have h2' := (lead2_iff b).2 h2
          rw [if_pos h2, if_pos h2']
          cases rest with
          | nil => rfl
          | cons c r =>
            simp only [← td_isCont]
            by_cases hc : cont c = true
            · simp [hc, ih r (by simp at hr; omega)]
            · simp [hc, ih (c :: r) hr]
        · have h2' : ¬ lead2 b = true := fun hh => h2 ((lead2_iff b).1 hh)
          rw [if_neg h2, if_neg h2']
          by_cases h3 : 0xE0 ≤ b.toNat ∧ b.toNat ≤ 0xEF
          · have h3' := (lead3_iff b).2 h3
            rw [if_pos h3, if_pos h3']
            cases rest with
            | nil => rfl
            | cons c r =>
              have hk := td_snd3 b c h3
              unfold tdOk3 at hk
              simp only [← hk, ← td_isCont]
              by_cases hs : snd3 b c = true
              · simp only [hs, if_true]
                cases r with
                | nil => rfl
                | cons d r2 =>
                  by_cases hd : cont d = true
                  · simp [hd, ih r2 (by simp at hr; omega)]
                  · simp [hd, ih (d :: r2) (by simp at hr ⊢; omega)]
              · simp [hs, ih (c :: r) hr]
          · have h3' : ¬ lead3 b = true := fun hh => h3 ((lead3_iff b).1 hh)
            rw [if_neg h3, if_neg h3']
            by_cases h4 : 0xF0 ≤ b.toNat ∧ b.toNat ≤ 0xF4
            · have h4' := (lead4_iff b).2 h4
              rw [if_pos h4, if_pos h4']
              cases rest with
              | nil => rfl
              | cons c r =>
                have hk := td_snd4 b c h4
                unfold tdOk4 at hk
                simp only [← hk, ← td_isCont]
                by_cases hs : snd4 b c = true
                · simp only [hs, if_true]
                  cases r with
                  | nil => rfl
                  | cons d r2 =>
                    by_cases hd : cont d = true
                    · simp only [hd, if_true]
                      cases r2 with
                      | nil => rfl
                      | cons e r3 =>
                        by_cases he : cont e = true
                        · simp [he, ih r3 (by simp at hr; omega)]
                        · simp [he, ih (e :: r3) (by simp at hr ⊢; omega)]
                    · simp [hd, ih (d :: r2) (by simp at hr ⊢; omega)]
                · simp [hs, ih (c :: r) hr]
            · have h4' : ¬ lead4 b = true := fun hh => h4 ((lead4_iff b).1 hh)
              rw [if_neg h4, if_neg h4', ih rest hr]


/-- the bytes `Encoding.decodeUtf8` returns (it never panics). -/
theorem utf8_bytes (d : Bytes) :
    ∃ c, decodeUtf8 d = .ok c ∧ c.bytes = lossy (unescape (trim d)) := by
  obtain ⟨c, h1, h2, -⟩ := decodeUtf8_spec d
  exact ⟨c, h1, h2⟩

/-- the text deserializer's UTF-8 decoder returns the bytes of the C12 model. -/
theorem textde_utf8 (d : Bytes) :
    ∃ c, decodeUtf8 d = .ok c ∧ TextDe.decode .utf8 d = c.bytes := by
  obtain ⟨c, h1, h2⟩ := utf8_bytes d
  refine ⟨c, h1, ?_⟩
  rw [h2]
  simp only [TextDe.decode, TextDe.decodeU, textde_trim, filter_bne]
  exact textde_lossy _ _ (Nat.le_refl _)

/-- the JSON model's UTF-8 decoder returns the bytes of the C12 model. -/
theorem json_utf8 (d : Bytes) :
    ∃ c, decodeUtf8 d = .ok c ∧ Json.decode .utf8 d = c.bytes := by
  obtain ⟨c, h1, h2⟩ := utf8_bytes d
  refine ⟨c, h1, ?_⟩
  rw [h2]
  simp only [Json.decode, Json.decodeUtf8, json_trim, filter_toNat_bne, json_lossy]
  split
  · rfl
  · rename_i h
    have h92 : 92 ∉ trim d := by
      intro hm
      apply h
      rw [List.any_eq_true]
      exact ⟨92, hm, by decide⟩
    rw [unescape_of_no_backslash _ h92]
    split
    · rename_i ha
      have : (trim d).all isAscii = true := by
        rw [List.all_eq_true] at ha ⊢
        intro x hx
        have := ha x hx
        simpa [isAscii, UInt8.lt_iff_toNat_lt] using this
      exact (lossy_ascii _ this).1.symm
    · rfl

end Jomini.DecodeBridge
