import JominiModel.Proofs.TextTapeScalars
/-
C01 growth, fragment 1: flat documents (`key op value` fields with all eight operators, quoted
scalars with escapes, unquoted scalars) under every valid blank layout.
-/
namespace Jomini.TextTape
open Jomini

/-! ### single lexemes -/

theorem findFirst_token (p : UInt8 → Bool) : ∀ (s X : Bytes), (∀ c ∈ s, p c = false) →
    (X = [] ∨ ∃ c r, X = c :: r ∧ p c = true) → findFirst p (s ++ X) = s.length
  | [], X, _, hX => by
    rcases hX with rfl | ⟨c, r, rfl, hc⟩
    · rfl
    · simp [findFirst, hc]
  | a :: s, X, hs, hX => by
    have ha : p a = false := hs a (by simp)
    have := findFirst_token p s X (fun c hc => hs c (by simp [hc])) hX
    simp [findFirst, ha, this]

theorem splitAtScalar_token {s X : Bytes} (hne : s ≠ []) (hs : ∀ c ∈ s, isBoundary c = false)
    (hX : StartsBoundary X) : splitAtScalar (s ++ X) = some (s, X) := by
  rw [splitAtScalar_eq_fallback sse_eq_tab]
  simp only [splitAtScalarFallback, splitAtChecked, findFirst_token isBoundary s X hs hX]
  have : 0 < s.length := List.length_pos_iff.2 hne
  have hm : max s.length 1 = s.length := by omega
  simp [hm]

theorem parseQuote_token {b X : Bytes} (hb : quoteClose (b ++ [34]) false = some b.length) :
    parseQuoteScalar (34 :: (b ++ 34 :: X)) = .ok (b, X) := by
  rw [parseQuoteScalar_eq_fallback]
  have := (quoteClose_append (b ++ [34]) X false b.length hb).1
  simp only [List.append_assoc, List.cons_append, List.nil_append] at this
  simp [parseQuoteScalarFallback, this, quoteCut]

theorem bnd_close : isBoundary 125 = true := by decide +kernel
theorem bnd_rbr : isBoundary 93 = true := by decide +kernel
theorem bnd_open : isBoundary 123 = true := by decide +kernel
theorem bnd_lbr : isBoundary 91 = true := by decide +kernel
theorem bnd_hash : isBoundary 35 = true := by decide +kernel
theorem bnd_eq : isBoundary 61 = true := by decide +kernel
theorem bnd_lt : isBoundary 60 = true := by decide +kernel
theorem bnd_gt : isBoundary 62 = true := by decide +kernel
theorem bnd_bang : isBoundary 33 = true := by decide +kernel
theorem blank_quote : isBlank 34 = false := by decide +kernel
theorem blank_eq : isBlank 61 = false := by decide +kernel
theorem blank_lt : isBlank 60 = false := by decide +kernel
theorem blank_gt : isBlank 62 = false := by decide +kernel
theorem blank_bang : isBlank 33 = false := by decide +kernel
theorem blank_q : isBlank 63 = false := by decide +kernel

/-- facts about the first byte of a valid scalar's rendering. -/
theorem Scal.Valid.head {s : Scal} (h : s.Valid) :
    ∃ c r, s.text = c :: r ∧ isBlank c = false ∧ c ≠ 35 ∧ c ≠ 125 ∧ c ≠ 93 ∧ c ≠ 123 ∧ c ≠ 91 ∧ c ≠ 61 ∧
      (s.quoted = true → c = 34) ∧ (s.quoted = false → c ≠ 34 ∧ c ≠ 64 ∧ isBoundary c = false) := by
  unfold Scal.Valid at h
  unfold Scal.text
  cases hq : s.quoted with
  | true =>
    refine ⟨34, s.bytes ++ [34], by simp, blank_quote, ?_⟩
    decide
  | false =>
    simp only [hq, Bool.false_eq_true, if_false] at h
    obtain ⟨hb, c, r, hs, hbl, h34, h64⟩ := h
    have hcb : isBoundary c = false := hb c (by simp [hs])
    refine ⟨c, r, by simp [hs], hbl, ?_, ?_, ?_, ?_, ?_, ?_, by simp, fun _ => ⟨h34, h64, hcb⟩⟩
    all_goals (intro hc; subst hc)
    · simp [bnd_hash] at hcb
    · simp [bnd_close] at hcb
    · simp [bnd_rbr] at hcb
    · simp [bnd_open] at hcb
    · simp [bnd_lbr] at hcb
    · simp [bnd_eq] at hcb

theorem skipWs_scal {s : Scal} (h : s.Valid) (X : Bytes) : skipWs (s.text ++ X) = some (s.text ++ X) := by
  obtain ⟨c, r, hs, hbl, h35, _⟩ := h.head
  rw [hs]
  simp [skipWs, skipWsAux, hbl, h35]

theorem lexValue_scal {s : Scal} (h : s.Valid) (tape : List Tok) (X : Bytes)
    (hX : s.quoted = false → StartsBoundary X) :
    lexValue tape (s.text ++ X) = .ok (tape ++ [s.tok X], X) := by
  cases hq : s.quoted with
  | true =>
    unfold Scal.Valid at h
    simp only [hq, if_true] at h
    simp only [Scal.text, Scal.tok, hq, if_true, List.cons_append, List.append_assoc, List.nil_append]
    simp only [lexValue, if_true, parseQuoteTok, parseQuote_token h]
    simp; omega
  | false =>
    obtain ⟨c, r, hs, _, _, _, _, _, _, _, _, hu⟩ := h.head
    obtain ⟨h34, h64, _⟩ := hu hq
    unfold Scal.Valid at h
    simp only [hq, Bool.false_eq_true, if_false] at h
    have htext : s.text = s.bytes := by simp [Scal.text, hq]
    have hne : s.bytes ≠ [] := by obtain ⟨_, c', r', hs', _⟩ := h; simp [hs']
    rw [htext] at hs ⊢
    have hsp := splitAtScalar_token hne h.1 (hX hq)
    rw [hs] at hsp ⊢
    simp only [List.cons_append] at hsp
    simp only [List.cons_append, lexValue, h34, h64, if_false, parseScalarTok, hsp]
    simp [Scal.tok, hq, hs]; omega

/-! ### single iterations -/

theorem run_cont {n m : Nat} {st st' : St} {d d' : Bytes} (h : step n st d = .cont st' d') :
    run n (m + 1) st d = run n m st' d' := by
  simp [run, h]

theorem step_key_scal {n : Nat} {st : St} {g : Bytes} {s : Scal} {X : Bytes} (hst : st.state = .key)
    (hg : Blank g) (hs : s.Valid) (hX : s.quoted = false → StartsBoundary X) :
    step n st (g ++ (s.text ++ X)) =
      .cont { st with tape := st.tape ++ [s.tok X], state := .kvs } X := by
  obtain ⟨c, r, htx, _, _, h125, h93, h123, h91, _, _, _⟩ := hs.head
  have hlex := lexValue_scal hs st.tape X hX
  simp only [step, skipWs_blank hg, skipWs_scal hs, stepAt, hst]
  rw [htx] at hlex ⊢
  simp only [List.cons_append] at hlex ⊢
  simp only [stepKey, h125, h93, h123, h91, false_or, if_false, hlex]

theorem step_val_scal {n : Nat} {st : St} {g : Bytes} {s : Scal} {X : Bytes} (hst : st.state = .objectValue)
    (hg : Blank g) (hs : s.Valid) (hX : s.quoted = false → StartsBoundary X) :
    step n st (g ++ (s.text ++ X)) =
      .cont { st with tape := st.tape ++ [s.tok X], state := .key } X := by
  obtain ⟨c, r, htx, _, _, h125, _, h123, _, _, _, _⟩ := hs.head
  have hlex := lexValue_scal hs st.tape X hX
  simp only [step, skipWs_blank hg, skipWs_scal hs, stepAt, hst]
  rw [htx] at hlex ⊢
  simp only [List.cons_append] at hlex ⊢
  simp only [stepObjectValue, h125, h123, if_false, hlex]

theorem lexOperator_text (o : Op) (Y : Bytes) (hY : Y.head? ≠ some 61) :
    lexOperator true (o.text ++ Y) = some (o, Y) := by
  cases o <;> simp [lexOperator, Op.text, hY]

theorem skipWs_op (o : Op) (Y : Bytes) : skipWs (o.text ++ Y) = some (o.text ++ Y) := by
  cases o <;> simp [skipWs, skipWsAux, Op.text, blank_eq, blank_lt, blank_gt, blank_bang, blank_q]

theorem step_kvs_op {n : Nat} {st : St} {g : Bytes} {o : Op} {Y : Bytes} (hst : st.state = .kvs)
    (hm : st.mixed = false) (hg : Blank g) (hY : Y.head? ≠ some 61) :
    step n st (g ++ (o.text ++ Y)) =
      .cont { st with tape := st.tape ++ o.toks, state := .objectValue } Y := by
  simp only [step, skipWs_blank hg, skipWs_op, stepAt, hst]
  have hlex := lexOperator_text o Y hY
  cases o <;> simp only [Op.text, List.cons_append, List.nil_append] at hlex ⊢ <;>
    simp [stepKvs, hlex, hm, Op.toks]

/-- blanks followed by a scalar never start with `=`. -/
theorem head_blank_scal {w : Bytes} (hw : Blank w) {s : Scal} (hs : s.Valid) (Z : Bytes) :
    (w ++ (s.text ++ Z)).head? ≠ some 61 := by
  cases hw with
  | nil =>
    obtain ⟨c, r, htx, _, _, _, _, _, _, h61, _⟩ := hs.head
    simp [htx, h61]
  | ws c w hc _ =>
    simp only [List.cons_append, List.head?_cons, ne_eq, Option.some.injEq]
    intro h; subst h; simp [blank_eq] at hc
  | comment body w _ _ => simp

/-! ### whole flat documents -/

theorem run_flat (n : Nat) : ∀ (fs : List LField) (gt : Bytes) (fuel : Nat) (st : St),
    ValidFlat fs gt → st.state = .key → st.mixed = false →
    run n (fuel + 3 * fs.length) st (renderFlat fs gt) =
      run n fuel { st with tape := st.tape ++ tapeFlat fs gt } gt
  | [], gt, fuel, st, _, _, _ => by simp [renderFlat, tapeFlat]
  | f :: fs, gt, fuel, st, hv, hst, hm => by
    obtain ⟨h0, h1, h2, hk, hvl, hkb, hvb, hrest⟩ := hv
    have hfuel : fuel + 3 * (f :: fs).length = (fuel + 3 * fs.length) + 1 + 1 + 1 := by
      simp only [List.length_cons]; omega
    rw [hfuel]
    simp only [renderFlat, LField.render, List.append_assoc]
    -- key
    have hkX : f.key.quoted = false →
        StartsBoundary (f.g1 ++ (f.op.text ++ (f.g2 ++ (f.val.text ++ renderFlat fs gt)))) := by
      intro hq
      rcases hkb hq with h | ⟨c, r, h, hc⟩
      · have : f.op.text ≠ [] := by cases f.op <;> simp [Op.text]
        simp at h; exact absurd h.2 this
      · right
        exact ⟨c, r ++ (f.g2 ++ (f.val.text ++ renderFlat fs gt)), by
          rw [← List.cons_append, ← h]; simp, hc⟩
    rw [run_cont (step_key_scal hst h0 hk hkX)]
    -- operator
    rw [run_cont (step_kvs_op (by simp) (by simpa using hm) h1 (head_blank_scal h2 hvl _))]
    -- value
    rw [run_cont (step_val_scal (by simp) h2 hvl hvb)]
    -- rest
    rw [run_flat n fs gt fuel _ hrest rfl (by simpa using hm)]
    simp [tapeFlat, List.append_assoc, hst]

theorem renderFlat_length : ∀ (fs : List LField) (gt : Bytes), ValidFlat fs gt →
    3 * fs.length ≤ (renderFlat fs gt).length
  | [], _, _ => by simp
  | f :: fs, gt, hv => by
    obtain ⟨_, _, _, hk, hvl, _, _, hrest⟩ := hv
    have := renderFlat_length fs gt hrest
    obtain ⟨c, r, hkt, _⟩ := hk.head
    obtain ⟨c', r', hvt, _⟩ := hvl.head
    have ho : 1 ≤ f.op.text.length := by cases f.op <;> simp [Op.text]
    simp only [renderFlat, LField.render, List.length_append, List.length_cons, hkt, hvt]
    omega

theorem validFlat_blank_tail : ∀ (fs : List LField) (gt : Bytes), ValidFlat fs gt → Blank gt
  | [], _, h => h
  | _ :: fs, gt, h => validFlat_blank_tail fs gt h.2.2.2.2.2.2.2

/-- C01_faithful, fragment 1 (with the positions): a flat document under any valid layout
parses to exactly its keys, operators and scalar bytes (quoted vs unquoted preserved), in
document order, each scalar at the position the layout puts it. -/
theorem parse_flat (fs : List LField) (gt : Bytes) (hv : ValidFlat fs gt)
    (hb : hasBom (renderFlat fs gt) = false) :
    parse (renderFlat fs gt) = .ok (tapeFlat fs gt) false := by
  have hlen := renderFlat_length fs gt hv
  have hgt : Blank gt := validFlat_blank_tail fs gt hv
  unfold parse
  simp only [hb, Bool.false_eq_true, if_false]
  have hf : fuelFor (renderFlat fs gt) = (2 * (renderFlat fs gt).length + 3 - 3 * fs.length) + 1 + 3 * fs.length - 0 := by
    simp only [fuelFor]; omega
  have hf' : fuelFor (renderFlat fs gt) = ((2 * (renderFlat fs gt).length + 3 - 3 * fs.length) + 1) + 3 * fs.length := by
    rw [hf]; omega
  rw [hf', run_flat _ fs gt _ St.init hv rfl rfl]
  have hsk : skipWs gt = none := by
    have := skipWs_blank hgt []
    simpa [skipWs, skipWsAux] using this
  simp [run, step, hsk, atEof, St.init, Res.withBom]

theorem Scal.tok_erase (s : Scal) (X : Bytes) : (s.tok X).erase = (s.tok []).erase := by
  unfold Scal.tok; split <;> rfl

theorem Op.toks_erase (o : Op) : o.toks.map Tok.erase = o.toks := by
  cases o <;> rfl

theorem tapeFlat_erase : ∀ (fs : List LField) (gt : Bytes),
    (tapeFlat fs gt).map Tok.erase = contentFlat (fs.map LField.content)
  | [], _ => rfl
  | f :: fs, gt => by
    simp only [tapeFlat, List.map_append, List.map_cons, List.map_nil, contentFlat, LField.content,
      Scal.tok_erase f.key, Scal.tok_erase f.val, Op.toks_erase, tapeFlat_erase fs gt]

/-- C01_faithful, fragment 1: the tape of a flat document under any valid layout is, up to the
positions, exactly the document's content. -/
theorem faithful_flat (fs : List LField) (gt : Bytes) (hv : ValidFlat fs gt)
    (hb : hasBom (renderFlat fs gt) = false) :
    ∃ T, parse (renderFlat fs gt) = .ok T false ∧ T.map Tok.erase = contentFlat (fs.map LField.content) :=
  ⟨_, parse_flat fs gt hv hb, tapeFlat_erase fs gt⟩

/-- C01_layout_independent, fragment 1: two valid layouts of the same flat document give the
same tape up to positions. -/
theorem layout_independent_flat (fs fs' : List LField) (gt gt' : Bytes)
    (hv : ValidFlat fs gt) (hv' : ValidFlat fs' gt')
    (hb : hasBom (renderFlat fs gt) = false) (hb' : hasBom (renderFlat fs' gt') = false)
    (hc : fs.map LField.content = fs'.map LField.content) :
    ∃ T T', parse (renderFlat fs gt) = .ok T false ∧ parse (renderFlat fs' gt') = .ok T' false ∧
      T.map Tok.erase = T'.map Tok.erase :=
  ⟨_, _, parse_flat fs gt hv hb, parse_flat fs' gt' hv' hb', by
    rw [tapeFlat_erase, tapeFlat_erase, hc]⟩

/-- `a ?= "b\"c"` followed by a newline: a valid flat document (hypotheses are satisfiable). -/
def exampleFlat : List LField :=
  [⟨[], ⟨false, [97]⟩, [32], .exists_, [32, 35, 120, 10], ⟨true, [98, 92, 34, 99]⟩⟩]

theorem exampleFlat_valid : ValidFlat exampleFlat [10] ∧ hasBom (renderFlat exampleFlat [10]) = false := by
  refine ⟨⟨.nil, .ws 32 [] (by decide +kernel) .nil,
    .ws 32 _ (by decide +kernel) (.comment [120] [] (by decide) .nil), ?_, ?_, ?_, ?_,
    .ws 10 [] (by decide +kernel) .nil⟩, by decide +kernel⟩
  · simp only [Scal.Valid, Bool.false_eq_true, if_false]
    exact ⟨by decide +kernel, 97, [], rfl, by decide +kernel, by decide, by decide⟩
  · simp only [Scal.Valid, if_true]; rfl
  · intro _; exact .inr ⟨32, _, rfl, by decide +kernel⟩
  · intro h; simp at h

end Jomini.TextTape
