import JominiModel.Proofs.SwarDate
import JominiModel.Proofs.DateParse
/-
The digit-packed fast paths of `Date::_parse` (date.rs:520-585) agree with the
component-wise parser.  No `bv_decide` here: the SWAR facts come from `Proofs/SwarDate.lean`.
-/
namespace Jomini.Date
open Jomini Jomini.Scalar Jomini.Date.Swar

theorem ofNat_byte (b : UInt8) : BitVec.ofNat 64 b.toNat = b.toBitVec.setWidth 64 := by
  rw [← UInt8.toNat_toBitVec, BitVec.ofNat_toNat]

theorem leU64_eight (b0 b1 b2 b3 b4 b5 b6 b7 : UInt8) :
    leU64 [b0, b1, b2, b3, b4, b5, b6, b7] =
      pack8 b0.toBitVec b1.toBitVec b2.toBitVec b3.toBitVec b4.toBitVec b5.toBitVec b6.toBitVec b7.toBitVec := by
  simp only [leU64, pack8, ofNat_byte]

theorem isDig_byte (b : UInt8) : isDig (b.toBitVec.setWidth 64) = isDigit b := by
  have := b.toNat_lt
  unfold isDig isDigit
  have e1 : b.toNat % 2 ^ 64 = b.toNat := by omega
  simp only [BitVec.ule, BitVec.toNat_setWidth, UInt8.toNat_toBitVec, BitVec.toNat_ofNat, e1]

theorem dg_byte (b : UInt8) (h : isDigit b = true) :
    (b.toBitVec.setWidth 64 - 0x30#64).toNat = digitVal b := by
  have := b.toNat_lt
  simp only [isDigit, Bool.and_eq_true, decide_eq_true_eq] at h
  simp only [BitVec.toNat_sub, BitVec.toNat_setWidth, UInt8.toNat_toBitVec, BitVec.toNat_ofNat, digitVal]
  omega

theorem allDig_bytes (b0 b1 b2 b3 b4 b5 b6 b7 : UInt8) :
    allDig (leU64 [b0, b1, b2, b3, b4, b5, b6, b7]) =
      (isDigit b0 && isDigit b1 && isDigit b2 && isDigit b3 && isDigit b4 && isDigit b5 && isDigit b6 && isDigit b7) := by
  rw [leU64_eight]
  obtain ⟨h0, h1, h2, h3, h4, h5, h6, h7⟩ := byteAt_pack8 b0.toBitVec b1.toBitVec b2.toBitVec b3.toBitVec b4.toBitVec b5.toBitVec b6.toBitVec b7.toBitVec
  simp only [allDig, h0, h1, h2, h3, h4, h5, h6, h7, isDig_byte]

theorem horner_bytes (b0 b1 b2 b3 b4 b5 b6 b7 : UInt8)
    (d0 : isDigit b0 = true) (d1 : isDigit b1 = true) (d2 : isDigit b2 = true) (d3 : isDigit b3 = true)
    (d4 : isDigit b4 = true) (d5 : isDigit b5 = true) (d6 : isDigit b6 = true) (d7 : isDigit b7 = true) :
    (horner (leU64 [b0, b1, b2, b3, b4, b5, b6, b7])).toNat = decVal [b0, b1, b2, b3, b4, b5, b6, b7] := by
  rw [leU64_eight]
  obtain ⟨h0, h1, h2, h3, h4, h5, h6, h7⟩ := byteAt_pack8 b0.toBitVec b1.toBitVec b2.toBitVec b3.toBitVec b4.toBitVec b5.toBitVec b6.toBitVec b7.toBitVec
  have l0 := digitVal_le d0; have l1 := digitVal_le d1; have l2 := digitVal_le d2; have l3 := digitVal_le d3
  have l4 := digitVal_le d4; have l5 := digitVal_le d5; have l6 := digitVal_le d6; have l7 := digitVal_le d7
  have t10 : BitVec.toNat (10 : BitVec 64) = 10 := rfl
  have t100 : BitVec.toNat (100 : BitVec 64) = 100 := rfl
  have t10000 : BitVec.toNat (10000 : BitVec 64) = 10000 := rfl
  simp only [horner, dg, t10, t100, t10000, h0, h1, h2, h3, h4, h5, h6, h7, BitVec.toNat_add, BitVec.toNat_mul,
    dg_byte _ d0, dg_byte _ d1, dg_byte _ d2, dg_byte _ d3, dg_byte _ d4, dg_byte _ d5, dg_byte _ d6, dg_byte _ d7,
    BitVec.toNat_ofNat, decVal, decFrom]
  omega

/-- **`fast_digit_parse` on eight bytes**: `none` unless all are ASCII digits, else their
decimal value (first byte most significant). -/
theorem fastDigitParse_bytes (b0 b1 b2 b3 b4 b5 b6 b7 : UInt8) :
    fastDigitParse (leU64 [b0, b1, b2, b3, b4, b5, b6, b7]) =
      if (isDigit b0 && isDigit b1 && isDigit b2 && isDigit b3 && isDigit b4 && isDigit b5 && isDigit b6 && isDigit b7) = true
      then some (BitVec.ofNat 64 (decVal [b0, b1, b2, b3, b4, b5, b6, b7])) else none := by
  rw [fastDigitParse_word, allDig_bytes]
  split
  · rename_i h
    simp only [Bool.and_eq_true] at h
    obtain ⟨⟨⟨⟨⟨⟨⟨d0, d1⟩, d2⟩, d3⟩, d4⟩, d5⟩, d6⟩, d7⟩ := h
    rw [← horner_bytes b0 b1 b2 b3 b4 b5 b6 b7 d0 d1 d2 d3 d4 d5 d6 d7, BitVec.ofNat_toNat, BitVec.setWidth_eq]
  · rfl

/-! ### the component parser on a whole text -/

theorem isRestText_head {rest : Bytes} {m d h : Nat} (hr : IsRestText rest m d h) :
    ∃ tl, rest = 46 :: tl := by
  obtain ⟨mt, dt, _, _, hh⟩ := hr
  rcases hh with ⟨_, rfl⟩ | ⟨ht, _, _, rfl⟩ <;> exact ⟨_, rfl⟩

theorem Expanded.parse_text (t rest : Bytes) (m d h : Nat) (ht : t ≠ []) (hd : allDigits t = true)
    (hy : decVal t ≤ 32767) (hr : IsRestText rest m d h) :
    Expanded.parse (t ++ rest) = .ok ⟨(decVal t : Int), m, d, h⟩ := by
  obtain ⟨tl, rfl⟩ := isRestText_head hr
  unfold Expanded.parse
  rw [toI64T_digits t (46 :: tl) ht hd (by simp only [I64_MAX]; omega) (dot_stops tl)]
  have hi : inI16 (decVal t : Int) = true := by rw [inI16_iff]; omega
  simp only [List.isEmpty_cons, Bool.false_eq_true, if_false, hi, Bool.not_true]
  exact parseRest_of_text _ _ _ _ _ hr

theorem Expanded.parse_neg_text (t rest : Bytes) (m d h : Nat) (hd : allDigits t = true)
    (hy : decVal t ≤ 32768) (hr : IsRestText rest m d h) :
    Expanded.parse (45 :: (t ++ rest)) = .ok ⟨-(decVal t : Int), m, d, h⟩ := by
  obtain ⟨tl, rfl⟩ := isRestText_head hr
  unfold Expanded.parse
  rw [toI64T_neg_digits t (46 :: tl) hd (by simp only [I64_MAX]; omega) (dot_stops tl)]
  have hi : inI16 (-(decVal t : Int)) = true := by rw [inI16_iff]; omega
  simp only [List.isEmpty_cons, Bool.false_eq_true, if_false, hi, Bool.not_true]
  exact parseRest_of_text _ _ _ _ _ hr

/-! ### fast paths -/

theorem fastParse_eq (y1 y2 y3 y4 a b c d : UInt8) :
    Date.fastParse [y1, y2, y3, y4, a, b, c, d] =
      if (isDigit y1 && isDigit y2 && isDigit y3 && isDigit y4 && isDigit a && isDigit b && isDigit c && isDigit d) = true
      then some (Date.fromExpanded ⟨(decVal [y1, y2, y3, y4] : Int), digitVal a * 10 + digitVal b,
        digitVal c * 10 + digitVal d, 0⟩)
      else none := by
  unfold Date.fastParse Date.fastParseU64
  rw [fastDigitParse_bytes]
  by_cases h : (isDigit y1 && isDigit y2 && isDigit y3 && isDigit y4 && isDigit a && isDigit b && isDigit c && isDigit d) = true
  · rw [if_pos h, if_pos h]
    simp only [Bool.and_eq_true] at h
    obtain ⟨⟨⟨⟨⟨⟨⟨d0, d1⟩, d2⟩, d3⟩, d4⟩, d5⟩, d6⟩, d7⟩ := h
    have l0 := digitVal_le d0; have l1 := digitVal_le d1; have l2 := digitVal_le d2; have l3 := digitVal_le d3
    have l4 := digitVal_le d4; have l5 := digitVal_le d5; have l6 := digitVal_le d6; have l7 := digitVal_le d7
    simp only [BitVec.toNat_ofNat, decVal, decFrom, Nat.zero_mul, Nat.zero_add]
    rw [Nat.mod_eq_of_lt (by omega)]
    congr 3
    · unfold asI16
      rw [if_pos (by omega)]
      omega
    · omega
    · omega
  · rw [if_neg h, if_neg h]

theorem num2 (a b : UInt8) (da : isDigit a = true) (db : isDigit b = true) :
    Num12 [a, b] (digitVal a * 10 + digitVal b) := Or.inr ⟨a, b, rfl, da, db, rfl⟩
theorem num1 (a : UInt8) (da : isDigit a = true) : Num12 [a] (digitVal a) := Or.inl ⟨a, rfl, da, rfl⟩

theorem year4 (y1 y2 y3 y4 : UInt8) (d1 : isDigit y1 = true) (d2 : isDigit y2 = true)
    (d3 : isDigit y3 = true) (d4 : isDigit y4 = true) :
    allDigits [y1, y2, y3, y4] = true ∧ decVal [y1, y2, y3, y4] ≤ 32767 := by
  have := digitVal_le d1; have := digitVal_le d2; have := digitVal_le d3; have := digitVal_le d4
  refine ⟨by simp [allDigits, d1, d2, d3, d4], ?_⟩
  simp only [decVal, decFrom]; omega

/-- `YYYY.MM.DD` -/
theorem agree10 (y1 y2 y3 y4 a b c d : UInt8) :
    (match Date.fastParse [y1, y2, y3, y4, a, b, c, d] with
      | some x => x
      | none => Date.fallback [y1, y2, y3, y4, 46, a, b, 46, c, d]) =
    Date.fallback [y1, y2, y3, y4, 46, a, b, 46, c, d] := by
  rw [fastParse_eq]
  by_cases h : (isDigit y1 && isDigit y2 && isDigit y3 && isDigit y4 && isDigit a && isDigit b && isDigit c && isDigit d) = true
  · rw [if_pos h]
    simp only [Bool.and_eq_true] at h
    obtain ⟨⟨⟨⟨⟨⟨⟨e1, e2⟩, e3⟩, e4⟩, e5⟩, e6⟩, e7⟩, e8⟩ := h
    obtain ⟨hy, hyv⟩ := year4 y1 y2 y3 y4 e1 e2 e3 e4
    have := Expanded.parse_text [y1, y2, y3, y4] [46, a, b, 46, c, d] _ _ 0 (by simp) hy hyv
      ⟨[a, b], [c, d], num2 a b e5 e6, num2 c d e7 e8, Or.inl ⟨rfl, rfl⟩⟩
    simp only [List.cons_append, List.nil_append] at this
    simp only [Date.fallback, this, Out.bind_ok]
    all_goals first | rfl | (congr 2 <;> simp [digitVal])
  · rw [if_neg h]

/-- `YYYY.MM.D` (the day is padded with '0') -/
theorem agree9a (y1 y2 y3 y4 a b d : UInt8) :
    (match Date.fastParse [y1, y2, y3, y4, a, b, 48, d] with
      | some x => x
      | none => Date.fallback [y1, y2, y3, y4, 46, a, b, 46, d]) =
    Date.fallback [y1, y2, y3, y4, 46, a, b, 46, d] := by
  rw [fastParse_eq]
  by_cases h : (isDigit y1 && isDigit y2 && isDigit y3 && isDigit y4 && isDigit a && isDigit b && isDigit 48 && isDigit d) = true
  · rw [if_pos h]
    simp only [Bool.and_eq_true] at h
    obtain ⟨⟨⟨⟨⟨⟨⟨e1, e2⟩, e3⟩, e4⟩, e5⟩, e6⟩, e7⟩, e8⟩ := h
    obtain ⟨hy, hyv⟩ := year4 y1 y2 y3 y4 e1 e2 e3 e4
    have := Expanded.parse_text [y1, y2, y3, y4] [46, a, b, 46, d] _ _ 0 (by simp) hy hyv
      ⟨[a, b], [d], num2 a b e5 e6, num1 d e8, Or.inl ⟨rfl, rfl⟩⟩
    simp only [List.cons_append, List.nil_append] at this
    simp only [Date.fallback, this, Out.bind_ok]
    all_goals first | rfl | (congr 2 <;> simp [digitVal])
  · rw [if_neg h]

/-- `YYYY.M.DD` (the month is padded with '0') -/
theorem agree9b (y1 y2 y3 y4 b c d : UInt8) :
    (match Date.fastParse [y1, y2, y3, y4, 48, b, c, d] with
      | some x => x
      | none => Date.fallback [y1, y2, y3, y4, 46, b, 46, c, d]) =
    Date.fallback [y1, y2, y3, y4, 46, b, 46, c, d] := by
  rw [fastParse_eq]
  by_cases h : (isDigit y1 && isDigit y2 && isDigit y3 && isDigit y4 && isDigit 48 && isDigit b && isDigit c && isDigit d) = true
  · rw [if_pos h]
    simp only [Bool.and_eq_true] at h
    obtain ⟨⟨⟨⟨⟨⟨⟨e1, e2⟩, e3⟩, e4⟩, e5⟩, e6⟩, e7⟩, e8⟩ := h
    obtain ⟨hy, hyv⟩ := year4 y1 y2 y3 y4 e1 e2 e3 e4
    have := Expanded.parse_text [y1, y2, y3, y4] [46, b, 46, c, d] _ _ 0 (by simp) hy hyv
      ⟨[b], [c, d], num1 b e6, num2 c d e7 e8, Or.inl ⟨rfl, rfl⟩⟩
    simp only [List.cons_append, List.nil_append] at this
    simp only [Date.fallback, this, Out.bind_ok]
    all_goals first | rfl | (congr 2 <;> simp [digitVal])
  · rw [if_neg h]

/-- `YYYY.M.D` (both padded, after the mask trick) -/
theorem agree8 (y1 y2 y3 y4 b d : UInt8) :
    (match Date.fastParse [y1, y2, y3, y4, 48, b, 48, d] with
      | some x => x
      | none => Date.fallback [y1, y2, y3, y4, 46, b, 46, d]) =
    Date.fallback [y1, y2, y3, y4, 46, b, 46, d] := by
  rw [fastParse_eq]
  by_cases h : (isDigit y1 && isDigit y2 && isDigit y3 && isDigit y4 && isDigit 48 && isDigit b && isDigit 48 && isDigit d) = true
  · rw [if_pos h]
    simp only [Bool.and_eq_true] at h
    obtain ⟨⟨⟨⟨⟨⟨⟨e1, e2⟩, e3⟩, e4⟩, e5⟩, e6⟩, e7⟩, e8⟩ := h
    obtain ⟨hy, hyv⟩ := year4 y1 y2 y3 y4 e1 e2 e3 e4
    have := Expanded.parse_text [y1, y2, y3, y4] [46, b, 46, d] _ _ 0 (by simp) hy hyv
      ⟨[b], [d], num1 b e6, num1 d e8, Or.inl ⟨rfl, rfl⟩⟩
    simp only [List.cons_append, List.nil_append] at this
    simp only [Date.fallback, this, Out.bind_ok]
    all_goals first | rfl | (congr 2 <;> simp [digitVal])
  · rw [if_neg h]

theorem length_eight {s : Bytes} (h : s.length = 8) :
    ∃ c0 c1 c2 c3 c4 c5 c6 c7, s = [c0, c1, c2, c3, c4, c5, c6, c7] := by
  rcases s with _ | ⟨c0, _ | ⟨c1, _ | ⟨c2, _ | ⟨c3, _ | ⟨c4, _ | ⟨c5, _ | ⟨c6, _ | ⟨c7, _ | ⟨c8, r⟩⟩⟩⟩⟩⟩⟩⟩⟩ <;>
    simp at h
  exact ⟨_, _, _, _, _, _, _, _, rfl⟩

theorem toBitVec_eq_46 (c : UInt8) : (c.toBitVec == 0x2E#8) = (c == 46) := by
  have h46 : (46 : UInt8).toBitVec = 0x2E#8 := rfl
  rw [Bool.eq_iff_iff, beq_iff_eq, beq_iff_eq]
  constructor
  · intro h; exact UInt8.toBitVec_inj.1 (h.trans h46.symm)
  · intro h; subst h; exact h46

theorem parseOther_eq (s : Bytes) :
    Date.parseOther s =
      if (s.length != 8 && (decide (s.length < 5) || decide (s.length > 12) || !Date.firstOk s)) = true
      then .err else Date.fallback s := by
  unfold Date.parseOther
  by_cases h8 : s.length = 8
  · have hr : (s.length != 8 && (decide (s.length < 5) || decide (s.length > 12) || !Date.firstOk s)) = false := by
      simp [h8]
    rw [if_pos h8, hr]
    simp only [Bool.false_eq_true, if_false]
    obtain ⟨c0, c1, c2, c3, c4, c5, c6, c7, rfl⟩ := length_eight h8
    have hm := mask_trick c0.toBitVec c1.toBitVec c2.toBitVec c3.toBitVec c4.toBitVec c5.toBitVec c6.toBitVec c7.toBitVec
    rw [leU64_eight, hm.1, toBitVec_eq_46, toBitVec_eq_46]
    by_cases hd : (c4 == 46 && c6 == 46) = true
    · rw [if_pos hd]
      simp only [Bool.and_eq_true, beq_iff_eq] at hd
      obtain ⟨rfl, rfl⟩ := hd
      rw [hm.2 ⟨rfl, rfl⟩]
      have : pack8 c0.toBitVec c1.toBitVec c2.toBitVec c3.toBitVec 0x30#8 c5.toBitVec 0x30#8 c7.toBitVec =
          leU64 [c0, c1, c2, c3, 48, c5, 48, c7] := by rw [leU64_eight]; rfl
      rw [this]
      exact agree8 c0 c1 c2 c3 c5 c7
    · rw [if_neg hd]
  · rw [if_neg h8]
    have hne : (s.length != 8) = true := by simp [h8]
    rw [hne, Bool.true_and]
    by_cases hl : (decide (s.length < 5) || decide (s.length > 12)) = true
    · rw [if_pos hl, if_pos (by rw [hl]; rfl)]
    · rw [if_neg hl]
      have hl' : (decide (s.length < 5) || decide (s.length > 12)) = false := by simpa using hl
      rw [hl', Bool.false_or]
      cases s with
      | nil => simp at hl
      | cons c rest =>
        simp only [List.getElem?_cons_zero, Date.firstOk]
        by_cases hc : (c == 45 || isDigit c) = true
        · simp [hc]
        · simp [hc]

theorem earlyReject_of_not_shape {s : Bytes} (h : Date.isFastShape s = false) :
    Date.earlyReject s = (s.length != 8 && (decide (s.length < 5) || decide (s.length > 12) || !Date.firstOk s)) := by
  unfold Date.earlyReject; rw [h]; rfl

theorem earlyReject_of_shape {s : Bytes} (h : Date.isFastShape s = true) : Date.earlyReject s = false := by
  unfold Date.earlyReject; rw [h]; rfl

/-- **the fast paths are unobservable** -/
theorem Date.parse_eq (s : Bytes) :
    Date.parse s = if Date.earlyReject s = true then .err else Date.fallback s := by
  unfold Date.parse
  split
  · rename_i y1 y2 y3 y4 p1 m1 m2 p2 d1 d2
    by_cases hp : (p1 == 46 && p2 == 46) = true
    · rw [if_pos hp]
      simp only [Bool.and_eq_true, beq_iff_eq] at hp
      obtain ⟨rfl, rfl⟩ := hp
      rw [earlyReject_of_shape (by simp [Date.isFastShape])]
      simp only [Bool.false_eq_true, if_false]
      exact agree10 y1 y2 y3 y4 m1 m2 d1 d2
    · rw [if_neg hp, parseOther_eq, earlyReject_of_not_shape]
      simp only [Date.isFastShape, List.length_cons, List.length_nil]
      simp only [Bool.and_eq_true, beq_iff_eq, not_and] at hp
      simp
      exact hp
  · rename_i y1 y2 y3 y4 p1 c5 c6 c7 c8
    by_cases hp : (p1 == 46 && c7 == 46) = true
    · rw [if_pos hp]
      simp only [Bool.and_eq_true, beq_iff_eq] at hp
      obtain ⟨rfl, rfl⟩ := hp
      rw [earlyReject_of_shape (by simp [Date.isFastShape])]
      simp only [Bool.false_eq_true, if_false]
      exact agree9a y1 y2 y3 y4 c5 c6 c8
    · rw [if_neg hp]
      by_cases hq : (p1 == 46 && c6 == 46) = true
      · rw [if_pos hq]
        simp only [Bool.and_eq_true, beq_iff_eq] at hq
        obtain ⟨rfl, rfl⟩ := hq
        rw [earlyReject_of_shape (by simp [Date.isFastShape])]
        simp only [Bool.false_eq_true, if_false]
        exact agree9b y1 y2 y3 y4 c5 c7 c8
      · rw [if_neg hq, parseOther_eq, earlyReject_of_not_shape]
        simp only [Date.isFastShape, List.length_cons, List.length_nil]
        simp only [Bool.and_eq_true, beq_iff_eq, not_and] at hp hq
        simp
        intro h; exact ⟨hp h, hq h⟩
  · rename_i h10 h9
    rw [parseOther_eq, earlyReject_of_not_shape]
    unfold Date.isFastShape
    have n10 : s.length ≠ 10 := by
      intro hl
      rcases s with _ | ⟨c0, _ | ⟨c1, _ | ⟨c2, _ | ⟨c3, _ | ⟨c4, _ | ⟨c5, _ | ⟨c6, _ | ⟨c7, _ | ⟨c8, _ | ⟨c9, _ | ⟨c10, r⟩⟩⟩⟩⟩⟩⟩⟩⟩⟩⟩ <;>
        simp at hl
      exact h10 _ _ _ _ _ _ _ _ _ _ rfl
    have n9 : s.length ≠ 9 := by
      intro hl
      rcases s with _ | ⟨c0, _ | ⟨c1, _ | ⟨c2, _ | ⟨c3, _ | ⟨c4, _ | ⟨c5, _ | ⟨c6, _ | ⟨c7, _ | ⟨c8, _ | ⟨c9, r⟩⟩⟩⟩⟩⟩⟩⟩⟩⟩ <;>
        simp at hl
      exact h9 _ _ _ _ _ _ _ _ _ rfl
    simp [n10, n9]

/-! ### no parser panics -/

theorem parseHour_ne_panic (y : Int) (m d off : Nat) (data : Bytes) :
    Expanded.parseHour y m d off data ≠ .panic := by
  unfold Expanded.parseHour
  repeat' split
  all_goals first | (simp; done) | (simp; split <;> simp)

theorem parseDay_ne_panic (y : Int) (m off : Nat) (data : Bytes) :
    Expanded.parseDay y m off data ≠ .panic := by
  unfold Expanded.parseDay
  repeat' split
  all_goals first | exact parseHour_ne_panic _ _ _ _ _ | simp

theorem parseRest_ne_panic (y : Int) (data : Bytes) : Expanded.parseRest y data ≠ .panic := by
  unfold Expanded.parseRest
  repeat' split
  all_goals first | exact parseDay_ne_panic _ _ _ _ | simp

theorem Expanded.fromBinary_ne_panic (s : Int) : Expanded.fromBinary s ≠ .panic := by
  rcases Expanded.fromBinary_cases s with h | ⟨_, _, _, _, _, _, _, _, _, h⟩ <;> rw [h] <;> simp

theorem Expanded.parse_ne_panic (s : Bytes) : Expanded.parse s ≠ .panic := by
  unfold Expanded.parse
  repeat' split
  all_goals first | exact Expanded.fromBinary_ne_panic _ | exact parseRest_ne_panic _ _ | simp

theorem bind_ne_panic {α β : Type} {x : Out α} {f : α → Out β} (hx : x ≠ .panic) (hf : ∀ a, f a ≠ .panic) :
    x.bind f ≠ .panic := by
  cases x with
  | ok a => exact hf a
  | err => simp
  | panic => exact absurd rfl hx

theorem Date.fromExpanded_ne_panic (e : Expanded) : Date.fromExpanded e ≠ .panic := by
  unfold Date.fromExpanded
  split
  · simp
  · rw [Date.fromYmdOpt_eq]; split <;> simp

theorem DateHour.fromExpanded_ne_panic (e : Expanded) : DateHour.fromExpanded e ≠ .panic := by
  unfold DateHour.fromExpanded
  rw [DateHour.fromYmdhOpt_eq]; split <;> simp

theorem UniformDate.fromExpanded_ne_panic (e : Expanded) : UniformDate.fromExpanded e ≠ .panic := by
  unfold UniformDate.fromExpanded
  split
  · simp
  · rw [UniformDate.fromYmdOpt_eq]; split <;> simp

theorem RawDate.fromExpanded_ne_panic (e : Expanded) : RawDate.fromExpanded e ≠ .panic := by
  unfold RawDate.fromExpanded
  rw [RawDate.fromYmdhOpt_eq]; split <;> simp

theorem Date.fallback_ne_panic (s : Bytes) : Date.fallback s ≠ .panic :=
  bind_ne_panic (Expanded.parse_ne_panic s) Date.fromExpanded_ne_panic

theorem Date.parse_ne_panic (s : Bytes) : Date.parse s ≠ .panic := by
  rw [Date.parse_eq]
  split
  · simp
  · exact Date.fallback_ne_panic s

theorem RawDate.parse_ne_panic (s : Bytes) : RawDate.parse s ≠ .panic := by
  unfold RawDate.parse
  refine bind_ne_panic (bind_ne_panic (Expanded.parse_ne_panic s) RawDate.fromExpanded_ne_panic) ?_
  intro a
  repeat' split
  all_goals simp

end Jomini.Date
