import JominiModel.Model.BinTapeVec
import JominiModel.Proofs.BinTapeTotal
/-
C03 "fresh or previously used tape": the token vector with its stale capacity contents (`VecS`).
Each vector operation of the parser acts on the view like the list operation of the model,
independently of what lies beyond `len`; the only reads not bounded by `len` are the unchecked
ones.  The whole parser is re-stated over the vector (`Model/BinTapeVec.lean`: `iterV`, `runV`, …,
unchecked reads returning whatever the allocation holds) and simulated function by function:
whenever the list model does not answer `ub`, the vector model answers the same (`run_simV`); and
`ub` never occurs (`C05_bintape_no_ub_panic`).  Hence `parseInto_eq`.
-/
namespace Jomini.BinTape
open Jomini

namespace VecS

theorem view_clear (v : VecS) : v.clear.view = [] := by simp [clear, view]

theorem view_ofList (t : Tape) : (ofList t).view = t := by simp [ofList, view]

theorem rawWrite_len (v : VecS) (i : Nat) (x : BTok) : (v.rawWrite i x).len = v.len := by
  unfold rawWrite; split <;> rfl

/-- a raw write at or beyond `len` is invisible -/
theorem view_rawWrite_beyond (v : VecS) (i : Nat) (x : BTok) (hw : v.Wf) (hi : v.len ≤ i) :
    (v.rawWrite i x).view = v.view := by
  unfold rawWrite view Wf at *
  split
  · simp only
    apply List.ext_getElem?
    intro j
    by_cases hj : j < v.len
    · rw [List.getElem?_take_of_lt hj, List.getElem?_take_of_lt hj, List.getElem?_set_ne (by omega)]
    · rw [List.getElem?_eq_none (by simp; omega), List.getElem?_eq_none (by simp; omega)]
  · simp only
    rw [List.take_append_of_le_length hw]

theorem wf_rawWrite (v : VecS) (i : Nat) (x : BTok) (hw : v.Wf) : (v.rawWrite i x).Wf := by
  unfold rawWrite Wf at *; split <;> simp <;> omega

/-- `alloc().init(x)` appends to the view, whatever was stored behind it -/
theorem view_push (v : VecS) (x : BTok) (hw : v.Wf) : (v.push x).view = v.view ++ [x] ∧ (v.push x).Wf := by
  unfold push rawWrite setLen view Wf at *
  split
  · rename_i hlt
    simp only
    refine ⟨?_, by simp; omega⟩
    apply List.ext_getElem?
    intro j
    rcases Nat.lt_trichotomy j v.len with hj | hj | hj
    · rw [List.getElem?_take_of_lt (by omega), List.getElem?_set_ne (by omega),
        List.getElem?_append_left (by simp; omega), List.getElem?_take_of_lt hj]
    · subst hj
      rw [List.getElem?_take_of_lt (by omega), List.getElem?_set_self hlt,
        List.getElem?_append_right (by simp; omega)]
      simp [Nat.min_eq_left hw]
    · rw [List.getElem?_eq_none (by simp; omega), List.getElem?_eq_none (by simp; omega)]
  · rename_i hge
    have : v.len = v.buf.length := by omega
    simp only
    refine ⟨?_, by simp; omega⟩
    rw [this]; simp [List.take_of_length_le]

theorem view_pop (v : VecS) (hw : v.Wf) :
    (v.pop?).map (fun p => (p.1.view, p.2)) = BinTape.pop? v.view := by
  unfold VecS.pop? BinTape.pop? view Wf at *
  by_cases h0 : v.len = 0
  · simp [h0]
  · have hlt : v.len - 1 < v.buf.length := by omega
    have hx : v.buf[v.len - 1]? = some v.buf[v.len - 1] := List.getElem?_eq_getElem hlt
    have hlast : (v.buf.take v.len).getLast? = some v.buf[v.len - 1] := by
      rw [List.getLast?_eq_getElem?]
      simp [Nat.min_eq_left hw, List.getElem?_take_of_lt (show v.len - 1 < v.len by omega), hx]
    simp only [h0, if_false, hx, hlast, Option.map_some]
    have hd : (v.buf.take v.len).dropLast = v.buf.take (v.len - 1) := by
      rw [List.dropLast_eq_take]; simp [List.take_take, Nat.min_eq_left hw]
    simp [hd]

/-- bounds-checked reads see the view only -/
theorem get?_view (v : VecS) (i : Nat) : v.get? i = v.view[i]? := by
  unfold get? view
  split
  · rename_i h; rw [List.getElem?_take_of_lt h]
  · rename_i h; rw [List.getElem?_eq_none (by simp; omega)]

/-- an unchecked read inside the length sees the view; beyond it, stale memory — the list model's `ub` -/
theorem getUnchecked_view (v : VecS) (i : Nat) (h : i < v.len) : v.getUnchecked i = v.view[i]? := by
  unfold getUnchecked view; rw [List.getElem?_take_of_lt h]

theorem view_setAt (v : VecS) (i : Nat) (x : BTok) : (v.setAt i x).view = v.view.set i x := by
  unfold setAt view
  split
  · rename_i h
    apply List.ext_getElem?
    intro j
    by_cases hj : j < v.len
    · rw [List.getElem?_take_of_lt hj]
      by_cases hij : i = j
      · subst hij
        by_cases hb : i < v.buf.length
        · rw [List.getElem?_set_self hb, List.getElem?_set_self (by simp; omega)]
        · rw [List.getElem?_eq_none (by simp; omega), List.getElem?_eq_none (by simp; omega)]
      · rw [List.getElem?_set_ne hij, List.getElem?_set_ne hij, List.getElem?_take_of_lt hj]
    · rw [List.getElem?_eq_none (by simp; omega), List.getElem?_eq_none (by simp; omega)]
  · rename_i h
    rw [List.set_eq_of_length_le (by simp; omega)]

/-- `set_len(n)` with `n ≤ len` truncates the view -/
theorem view_setLen_le (v : VecS) (n : Nat) (h : n ≤ v.len) : (v.setLen n).view = v.view.take n := by
  unfold setLen view; simp [List.take_take, Nat.min_eq_left h]

end VecS

open VecS

/-! ## simulation: the loop over the vector vs the loop over its view -/


theorem VecS.view_length (v : VecS) (hw : v.Wf) : v.view.length = v.len := by
  unfold view Wf at *; simp; omega

theorem VecS.view_pushAll : ∀ (t : Tape) (v : VecS), v.Wf → (v.pushAll t).view = v.view ++ t ∧ (v.pushAll t).Wf
  | [], v, hw => by simp [pushAll, hw]
  | x :: xs, v, hw => by
    obtain ⟨h1, h2⟩ := view_push v x hw
    obtain ⟨h3, h4⟩ := VecS.view_pushAll xs (v.push x) h2
    simp only [pushAll]
    exact ⟨by rw [h3, h1]; simp, h4⟩

/-- result relations: whenever the list model does not answer `ub`, the vector model answers the
same (its vector having the list as view, and being well-formed) -/
def SimT (rv : Except Err VecS) (rl : Except Err Tape) : Prop :=
  (∀ e, rl = .error e → e ≠ .ub → rv = .error e) ∧
  (∀ T, rl = .ok T → ∃ v, rv = .ok v ∧ v.view = T ∧ v.Wf)

def SimTE {α : Type} (rv : Except Err (VecS × α)) (rl : Except Err (Tape × α)) : Prop :=
  (∀ e, rl = .error e → e ≠ .ub → rv = .error e) ∧
  (∀ T a, rl = .ok (T, a) → ∃ v, rv = .ok (v, a) ∧ v.view = T ∧ v.Wf)

def SimSt (rv : Except Err StV) (rl : Except Err St) : Prop :=
  (∀ e, rl = .error e → e ≠ .ub → rv = .error e) ∧
  (∀ s, rl = .ok s → ∃ sv, rv = .ok sv ∧ sv.toSt = s ∧ sv.vec.Wf)

/-- the list helper appends what it produces on the empty tape -/
def Appender (P : Tape → Bytes → Except Err (Tape × Bytes)) : Prop :=
  ∀ T d, P T d = match P [] d with
    | .error e => .error e
    | .ok (t, r) => .ok (T ++ t, r)

theorem appender_fixed (n : Nat) (mk : Bytes → BTok) : Appender (parseFixed n mk) := by
  intro T d; unfold parseFixed; cases split? n d <;> simp
theorem appender_u32 : Appender parseU32 := appender_fixed _ _
theorem appender_u64 : Appender parseU64 := appender_fixed _ _
theorem appender_i32 : Appender parseI32 := appender_fixed _ _
theorem appender_i64 : Appender parseI64 := appender_fixed _ _
theorem appender_f32 : Appender parseF32 := appender_fixed _ _
theorem appender_f64 : Appender parseF64 := appender_fixed _ _
theorem appender_bool : Appender parseBool := by
  intro T d; unfold parseBool; cases readBool d <;> simp
theorem appender_quoted : Appender parseQuoted := by
  intro T d; unfold parseQuoted; cases readString d <;> simp
theorem appender_unquoted : Appender parseUnquoted := by
  intro T d; unfold parseUnquoted; cases readString d <;> simp
theorem appender_rgb : Appender parseRgb := by
  intro T d; unfold parseRgb; cases readRgb d <;> simp
theorem appender_elem (k : EKind) : Appender (parseElem k) := by
  cases k
  · exact appender_fixed _ _
  · exact appender_quoted
  · exact appender_fixed _ _

theorem parseV_sim {P : Tape → Bytes → Except Err (Tape × Bytes)} (hP : Appender P) (v : VecS) (hw : v.Wf) (d : Bytes) :
    SimTE (parseV P v d) (P v.view d) := by
  rw [hP v.view d]
  unfold parseV
  cases P [] d with
  | error e => exact ⟨fun e' h _ => by simpa using h, fun T a h => by simp at h⟩
  | ok p =>
    obtain ⟨t, r⟩ := p
    refine ⟨fun e h _ => by simp at h, fun T a h => ?_⟩
    simp at h; obtain ⟨rfl, rfl⟩ := h
    obtain ⟨h1, h2⟩ := VecS.view_pushAll t v hw
    exact ⟨_, rfl, h1, h2⟩

theorem scalarArm_simV {rv : Except Err (VecS × Bytes)} {rl : Except Err (Tape × Bytes)} (h : SimTE rv rl)
    (parent : Nat) (state : PState) : SimSt (scalarArmV rv parent state) (scalarArm rl parent state) := by
  unfold scalarArmV scalarArm
  cases rl with
  | error e =>
    refine ⟨fun e' he hne => ?_, fun s hs => by simp at hs⟩
    simp at he; subst he
    rw [h.1 e rfl hne]
  | ok p =>
    obtain ⟨T, a⟩ := p
    obtain ⟨v, hv, hview, hwf⟩ := h.2 T a rfl
    rw [hv]
    simp only
    cases nextState state with
    | none => exact ⟨fun e he hne => by simp at he; exact absurd he.symm hne, fun s hs => by simp at hs⟩
    | some s' =>
      refine ⟨fun e he _ => by simp at he, fun s hs => ?_⟩
      simp at hs; subst hs
      exact ⟨_, rfl, by simp [StV.toSt, hview], hwf⟩

theorem getUnchecked_sim (v : VecS) (i : Nat) (hw : v.Wf) (x : BTok) (h : v.view[i]? = some x) :
    v.getUnchecked i = some x := by
  have hi : i < v.len := by
    have := getElem?_lt_length h
    rwa [VecS.view_length v hw] at this
  rw [getUnchecked_view v i hi]; exact h

theorem closeTo_simV (v : VecS) (hw : v.Wf) (g : Nat) : SimTE (closeToV v g) (closeTo v.view g) := by
  unfold closeToV closeTo
  cases hg : v.view[g]? with
  | none => exact ⟨fun e he hne => by simp at he; exact absurd he.symm hne, fun T a h => by simp at h⟩
  | some x =>
    rw [getUnchecked_sim v g hw x hg]
    cases x <;> exact ⟨fun e he _ => by simp at he, fun T a h => by simp at h; obtain ⟨rfl, rfl⟩ := h; exact ⟨v, rfl, rfl, hw⟩⟩

theorem wf_setAt (v : VecS) (i : Nat) (x : BTok) (hw : v.Wf) : (v.setAt i x).Wf := by
  unfold setAt Wf at *; split
  · simpa using hw
  · exact hw

theorem simTE_err {α : Type} (rv : Except Err (VecS × α)) (e : Err) (h : e = .ub ∨ rv = .error e) :
    SimTE rv (.error e : Except Err (Tape × α)) := by
  refine ⟨fun e' he hne => ?_, fun T a h => by simp at h⟩
  simp at he; subst he
  rcases h with h | h
  · exact absurd h hne
  · exact h

theorem pushEnd_simV (v : VecS) (hw : v.Wf) (p : Nat) : SimTE (pushEndV v p) (pushEnd v.view p) := by
  unfold pushEndV pushEnd
  rw [get?_view, VecS.view_length v hw]
  have key : ∀ y g, SimTE (closeToV ((v.setAt p y).push (.end_ p)) g) (closeTo (v.view.set p y ++ [.end_ p]) g) := by
    intro y g
    have h1 := wf_setAt v p y hw
    obtain ⟨h2, h3⟩ := view_push (v.setAt p y) (.end_ p) h1
    have := closeTo_simV _ h3 g
    rwa [h2, view_setAt] at this
  cases hp : v.view[p]? with
  | none => exact simTE_err _ _ (Or.inr rfl)
  | some x =>
    cases x <;> first | exact key _ _ | exact simTE_err _ _ (Or.inr rfl)

def simT_err (rv : Except Err VecS) (e : Err) (h : e = .ub ∨ rv = .error e) : SimT rv (.error e) := by
  refine ⟨fun e' he hne => ?_, fun T h => by simp at h⟩
  simp at he; subst he
  rcases h with h | h
  · exact absurd h hne
  · exact h

theorem setParentToObject_simV (v : VecS) (hw : v.Wf) (p : Nat) :
    SimT (setParentToObjectV v p) (setParentToObject v.view p) := by
  unfold setParentToObjectV setParentToObject
  cases hp : v.view[p]? with
  | none => exact simT_err _ _ (Or.inl rfl)
  | some x =>
    rw [getUnchecked_sim v p hw x hp]
    have hi : p < v.len := by
      have := getElem?_lt_length hp
      rwa [VecS.view_length v hw] at this
    cases x <;> first | exact simT_err _ _ (Or.inl rfl) | skip
    rename_i e
    refine ⟨fun e' he _ => by simp at he, fun T h => ?_⟩
    simp at h; subst h
    refine ⟨_, rfl, ?_, ?_⟩
    · have := view_setAt v p (.object e)
      simp only [setAt, hi, if_true] at this
      exact this
    · unfold setAtU Wf at *; simpa using hw

theorem pop_simV (v : VecS) (hw : v.Wf) :
    (BinTape.pop? v.view = none → v.pop? = none) ∧
    (∀ T x, BinTape.pop? v.view = some (T, x) → ∃ v1, v.pop? = some (v1, x) ∧ v1.view = T ∧ v1.Wf) := by
  have h := view_pop v hw
  constructor
  · intro hn; rw [hn] at h
    cases hp : v.pop? with
    | none => rfl
    | some q => rw [hp] at h; simp at h
  · intro T x hs; rw [hs] at h
    cases hp : v.pop? with
    | none => rw [hp] at h; simp at h
    | some q =>
      obtain ⟨v1, y⟩ := q
      rw [hp] at h; simp at h
      obtain ⟨h1, h2⟩ := h
      subst h2
      refine ⟨v1, rfl, h1, ?_⟩
      unfold VecS.pop? at hp
      split at hp
      · cases hp
      · split at hp
        · simp at hp; obtain ⟨rfl, _⟩ := hp; unfold Wf at *; simp; omega
        · cases hp

theorem mixedInsert1_simV (v : VecS) (hw : v.Wf) : SimT (mixedInsert1V v) (mixedInsert1 v.view) := by
  unfold mixedInsert1V mixedInsert1
  obtain ⟨hn, hs⟩ := pop_simV v hw
  cases hp : BinTape.pop? v.view with
  | none => rw [hn hp]; exact simT_err _ _ (Or.inr rfl)
  | some q =>
    obtain ⟨T, x⟩ := q
    obtain ⟨v1, h1, h2, h3⟩ := hs T x hp
    rw [h1]
    refine ⟨fun e he _ => by simp at he, fun T' h => ?_⟩
    simp at h; subst h
    obtain ⟨a1, a2⟩ := view_push v1 .mixed h3
    obtain ⟨b1, b2⟩ := view_push _ x a2
    exact ⟨_, rfl, by rw [b1, a1, h2]; simp, b2⟩

theorem mixedInsert2_simV (v : VecS) (hw : v.Wf) : SimT (mixedInsert2V v) (mixedInsert2 v.view) := by
  unfold mixedInsert2V mixedInsert2
  obtain ⟨hn, hs⟩ := pop_simV v hw
  cases hp : BinTape.pop? v.view with
  | none => rw [hn hp]; exact simT_err _ _ (Or.inr rfl)
  | some q =>
    obtain ⟨T, x⟩ := q
    obtain ⟨v1, h1, h2, h3⟩ := hs T x hp
    rw [h1]
    simp only
    obtain ⟨hn2, hs2⟩ := pop_simV v1 h3
    rw [h2] at hn2 hs2
    cases hp2 : BinTape.pop? T with
    | none => rw [hn2 hp2]; exact simT_err _ _ (Or.inr rfl)
    | some q2 =>
      obtain ⟨T2, y⟩ := q2
      obtain ⟨v2, g1, g2, g3⟩ := hs2 T2 y hp2
      rw [g1]
      refine ⟨fun e he _ => by simp at he, fun T' h => ?_⟩
      simp at h; subst h
      obtain ⟨a1, a2⟩ := view_push v2 .mixed g3
      obtain ⟨b1, b2⟩ := view_push _ y a2
      obtain ⟨c1, c2⟩ := view_push _ x b2
      exact ⟨_, rfl, by rw [c1, b1, a1, g2]; simp, c2⟩

theorem rawWrite_setLen (v : VecS) (n i : Nat) (x : BTok) : (v.setLen n).rawWrite i x = (v.rawWrite i x).setLen n := by
  unfold rawWrite setLen; split <;> rfl

theorem setLen_setLen (v : VecS) (n m : Nat) : (v.setLen n).setLen m = v.setLen m := rfl

theorem push_eq (v : VecS) (x : BTok) : v.push x = (v.rawWrite v.len x).setLen (v.len + 1) := rfl

/-- three raw writes behind the length and one `set_len` are three pushes -/
theorem write3_eq (v : VecS) (a b c : BTok) :
    (((v.rawWrite v.len a).rawWrite (v.len + 1) b).rawWrite (v.len + 2) c).setLen (v.len + 3)
      = ((v.push a).push b).push c := by
  have h : ∀ (b : List BTok) (n m i : Nat) (x : BTok),
      (VecS.rawWrite ⟨b, n⟩ i x).buf = (VecS.rawWrite ⟨b, m⟩ i x).buf := by
    intros; unfold rawWrite; split <;> rfl
  simp only [push, setLen, rawWrite_len]
  congr 1
  rw [h _ (v.len + 1 + 1) ((v.rawWrite v.len a).rawWrite (v.len + 1) b).len]
  congr 2
  rw [h _ (v.len + 1) (v.rawWrite v.len a).len]

/-- a raw write at `i ≤ len` followed by `set_len(i + 1)` truncates the view and appends -/
theorem view_write_trunc (v : VecS) (i : Nat) (x : BTok) (hw : v.Wf) (hi : i ≤ v.len) :
    ((v.rawWrite i x).setLen (i + 1)).view = v.view.take i ++ [x] ∧ ((v.rawWrite i x).setLen (i + 1)).Wf := by
  have hw' : (v.setLen i).Wf := by unfold setLen Wf at *; simp; omega
  have e : (v.rawWrite i x).setLen (i + 1) = (v.setLen i).push x := by
    rw [push_eq, rawWrite_setLen]; rfl
  rw [e]
  obtain ⟨h1, h2⟩ := view_push (v.setLen i) x hw'
  exact ⟨by rw [h1, view_setLen_le v i hi], h2⟩

theorem setParentToObject_length {T T' : Tape} {p : Nat} (h : setParentToObject T p = .ok T') : T'.length = T.length := by
  obtain ⟨e, _, rfl⟩ := setParentToObject_ok h; simp

theorem equalArm_simV (v : VecS) (hw : v.Wf) (parent : Nat) (state : PState) (d : Bytes) :
    SimSt (equalArmV v parent state d) (equalArm v.view parent state d) := by
  have okSt : ∀ (sv : StV), sv.vec.Wf → SimSt (.ok sv) (.ok sv.toSt) := by
    intro sv h
    exact ⟨fun e he _ => by simp at he, fun s hs => by simp at hs; subst hs; exact ⟨sv, rfl, rfl, h⟩⟩
  have errSt : ∀ (rv : Except Err StV) (e : Err), e = .ub ∨ rv = .error e → SimSt rv (.error e) := by
    intro rv e h
    refine ⟨fun e' he hne => ?_, fun s hs => by simp at hs⟩
    simp at he; subst he
    rcases h with h | h
    · exact absurd h hne
    · exact h
  unfold equalArmV equalArm
  cases state
  case keyValueSeparator => exact okSt ⟨v, parent, .objectValue, d⟩ hw
  case openSecond =>
    simp only
    have h := setParentToObject_simV v hw parent
    cases hs : setParentToObject v.view parent with
    | error e =>
      by_cases hu : e = .ub
      · exact errSt _ _ (Or.inl hu)
      · rw [h.1 e hs hu]; exact errSt _ _ (Or.inr rfl)
    | ok T =>
      obtain ⟨v', hv, hview, hwf⟩ := h.2 T hs
      rw [hv]
      have := okSt ⟨v', parent, .objectValue, d⟩ hwf
      simpa [StV.toSt, hview] using this
  case arrayValueMixed =>
    simp only
    obtain ⟨h1, h2⟩ := view_push v .equal hw
    have := okSt ⟨v.push .equal, parent, .arrayValueMixed, d⟩ h2
    simpa [StV.toSt, h1] using this
  case arrayValue =>
    simp only
    obtain ⟨hn, hs⟩ := pop_simV v hw
    cases hp : BinTape.pop? v.view with
    | none => exact errSt _ _ (Or.inl rfl)
    | some q =>
      obtain ⟨T1, last⟩ := q
      obtain ⟨v1, h1, h2, h3⟩ := hs T1 last hp
      rw [h1]
      simp only [h2]
      -- the shape of `last` decides identically on both sides
      have body : SimSt
          (if onlyEmpties T1 parent = true then
            match setParentToObjectV v1 parent with
            | .error e => .error e
            | .ok v2 => .ok ⟨(v2.rawWrite (parent + 1) last).setLen (parent + 2), parent, .objectValue, d⟩
          else .ok ⟨((((v1.rawWrite v1.len .mixed).rawWrite (v1.len + 1) last).rawWrite (v1.len + 2) .equal).setLen (v1.len + 3)),
              parent, .arrayValueMixed, d⟩)
          (if onlyEmpties T1 parent = true then
            match setParentToObject T1 parent with
            | .error e => .error e
            | .ok t2 => .ok ⟨t2.take (parent + 1) ++ [last], parent, .objectValue, d⟩
          else .ok ⟨T1 ++ [.mixed, last, .equal], parent, .arrayValueMixed, d⟩) := by
        split
        · rename_i hoe
          have hsp := setParentToObject_simV v1 h3 parent
          rw [h2] at hsp
          cases hs2 : setParentToObject T1 parent with
          | error e =>
            by_cases hu : e = .ub
            · exact errSt _ _ (Or.inl hu)
            · rw [hsp.1 e hs2 hu]; exact errSt _ _ (Or.inr rfl)
          | ok t2 =>
            obtain ⟨v2, hv2, hview2, hwf2⟩ := hsp.2 t2 hs2
            rw [hv2]
            simp only
            have hlen : parent + 1 ≤ v2.len := by
              have hl := setParentToObject_length hs2
              have := VecS.view_length v2 hwf2
              rw [hview2, hl] at this
              simp only [onlyEmpties, Bool.and_eq_true, decide_eq_true_eq] at hoe
              have h4 := hoe.1
              simp at h4
              omega
            obtain ⟨a1, a2⟩ := view_write_trunc v2 (parent + 1) last hwf2 hlen
            have := okSt ⟨(v2.rawWrite (parent + 1) last).setLen (parent + 2), parent, .objectValue, d⟩ a2
            simpa [StV.toSt, a1, hview2] using this
        · rw [write3_eq]
          obtain ⟨a1, a2⟩ := view_push v1 .mixed h3
          obtain ⟨b1, b2⟩ := view_push _ last a2
          obtain ⟨c1, c2⟩ := view_push _ .equal b2
          have := okSt ⟨((v1.push .mixed).push last).push .equal, parent, .arrayValueMixed, d⟩ c2
          simpa [StV.toSt, c1, b1, a1, h2] using this
      cases last <;> first | exact errSt _ _ (Or.inr rfl) | exact body
  all_goals exact errSt _ _ (Or.inr rfl)

theorem simSt_ok (sv : StV) (h : sv.vec.Wf) : SimSt (.ok sv) (.ok sv.toSt) :=
  ⟨fun e he _ => by simp at he, fun s hs => by simp at hs; subst hs; exact ⟨sv, rfl, rfl, h⟩⟩

theorem simSt_err (rv : Except Err StV) (e : Err) (h : e = .ub ∨ rv = .error e) : SimSt rv (.error e) := by
  refine ⟨fun e' he hne => ?_, fun s hs => by simp at hs⟩
  simp at he; subst he
  rcases h with h | h
  · exact absurd h hne
  · exact h

/-- lift a tape-and-extra simulation through a continuation that builds the state -/
theorem simSt_of_TE {α : Type} {rv : Except Err (VecS × α)} {rl : Except Err (Tape × α)} (h : SimTE rv rl)
    (kv : VecS → α → StV) (kl : Tape → α → St) (hk : ∀ v a, (kv v a).toSt = kl v.view a ∧ (kv v a).vec = v) :
    SimSt (match (generalizing := false) rv with | .error e => .error e | .ok (v, a) => .ok (kv v a))
          (match (generalizing := false) rl with | .error e => .error e | .ok (T, a) => .ok (kl T a)) := by
  cases rl with
  | error e =>
    by_cases hu : e = .ub
    · exact simSt_err _ _ (Or.inl hu)
    · rw [h.1 e rfl hu]; exact simSt_err _ _ (Or.inr rfl)
  | ok p =>
    obtain ⟨T, a⟩ := p
    obtain ⟨v, hv, hview, hwf⟩ := h.2 T a rfl
    rw [hv]
    have := simSt_ok (kv v a) (by rw [(hk v a).2]; exact hwf)
    simpa [(hk v a).1, hview] using this

theorem openArm_simV (v : VecS) (hw : v.Wf) (parent : Nat) (state : PState) (d : Bytes) :
    SimSt (openArmV v parent state d) (openArm v.view parent state d) := by
  unfold openArmV openArm
  split
  · obtain ⟨h1, h2⟩ := view_push v (.array parent) hw
    have := simSt_ok ⟨v.push (.array parent), v.len, .openFirst, d⟩ h2
    simpa [StV.toSt, h1, VecS.view_length v hw] using this
  · have hemp : (v.len = 0) ↔ (v.view.isEmpty = true) := by
      rw [← VecS.view_length v hw]; cases v.view <;> simp
    by_cases h0 : v.len = 0
    · have : v.view.isEmpty = true := hemp.mp h0
      simp only [h0, if_true, this]
      exact simSt_err _ _ (Or.inr rfl)
    · have : ¬ v.view.isEmpty = true := fun h => h0 (hemp.mpr h)
      simp only [h0, if_false, this]
      cases readId d with
      | none => exact simSt_err _ _ (Or.inr rfl)
      | some p =>
        obtain ⟨x, nd⟩ := p
        simp only
        split
        · exact simSt_ok ⟨v, parent, state, nd⟩ hw
        · exact simSt_err _ _ (Or.inr rfl)

theorem closeTail_simV (parent : Nat) (d : Bytes) {rv : Except Err VecS} {rl : Except Err Tape} (pre : SimT rv rl) :
    SimSt (match (generalizing := false) rv with
            | .error e => .error e
            | .ok v1 => match pushEndV v1 parent with
              | .error e => .error e
              | .ok (v', parent', state') => .ok ⟨v', parent', state', d⟩)
          (match (generalizing := false) rl with
            | .error e => .error e
            | .ok tape1 => match pushEnd tape1 parent with
              | .error e => .error e
              | .ok (tape', parent', state') => .ok ⟨tape', parent', state', d⟩) := by
  cases rl with
  | error e =>
    by_cases hu : e = .ub
    · exact simSt_err _ _ (Or.inl hu)
    · rw [pre.1 e rfl hu]; exact simSt_err _ _ (Or.inr rfl)
  | ok T =>
    obtain ⟨v1, hv1, hview, hwf⟩ := pre.2 T rfl
    rw [hv1]
    simp only
    have h := pushEnd_simV v1 hwf parent
    rw [hview] at h
    have h5 := simSt_of_TE h (fun v' (a : Nat × PState) => ⟨v', a.1, a.2, d⟩) (fun T' a => ⟨T', a.1, a.2, d⟩)
      (fun _ _ => ⟨rfl, rfl⟩)
    cases hpe : pushEndV v1 parent with
    | error e1 =>
      cases hpl : pushEnd T parent with
      | error e2 => simpa [hpe, hpl] using h5
      | ok q2 => obtain ⟨a2, b2, c2⟩ := q2; simpa [hpe, hpl] using h5
    | ok q1 =>
      obtain ⟨a1, b1, c1⟩ := q1
      cases hpl : pushEnd T parent with
      | error e2 => simpa [hpe, hpl] using h5
      | ok q2 => obtain ⟨a2, b2, c2⟩ := q2; simpa [hpe, hpl] using h5

theorem closeArm_simV (v : VecS) (hw : v.Wf) (parent : Nat) (state : PState) (d : Bytes) :
    SimSt (closeArmV v parent state d) (closeArm v.view parent state d) := by
  have okT : SimT (.ok v) (.ok v.view) :=
    ⟨fun e he _ => by simp at he, fun T h => by simp at h; subst h; exact ⟨v, rfl, rfl, hw⟩⟩
  unfold closeArmV closeArm
  cases state
  case keyValueSeparator => exact closeTail_simV parent d (mixedInsert1_simV v hw)
  case objectValue => exact closeTail_simV parent d (simT_err _ _ (Or.inr rfl))
  all_goals exact closeTail_simV parent d okT

theorem simSt_bind_TE {α : Type} {rv : Except Err (VecS × α)} {rl : Except Err (Tape × α)} (h : SimTE rv rl)
    (kv : VecS → α → Except Err StV) (kl : Tape → α → Except Err St)
    (hk : ∀ v a, v.Wf → SimSt (kv v a) (kl v.view a)) :
    SimSt (match (generalizing := false) rv with | .error e => .error e | .ok (v, a) => kv v a)
          (match (generalizing := false) rl with | .error e => .error e | .ok (T, a) => kl T a) := by
  cases rl with
  | error e =>
    by_cases hu : e = .ub
    · exact simSt_err _ _ (Or.inl hu)
    · rw [h.1 e rfl hu]; exact simSt_err _ _ (Or.inr rfl)
  | ok p =>
    obtain ⟨T, a⟩ := p
    obtain ⟨v, hv, hview, hwf⟩ := h.2 T a rfl
    rw [hv]
    have := hk v a hwf
    rw [hview] at this
    exact this

theorem i32Loop_simV : ∀ (fuel : Nat) (v : VecS), v.Wf → ∀ (parent : Nat) (nd : Bytes),
    SimSt (i32LoopV fuel v parent nd) (i32Loop fuel v.view parent nd)
  | 0, v, hw, parent, nd => by simp only [i32LoopV, i32Loop]; exact simSt_err _ _ (Or.inr rfl)
  | fuel + 1, v, hw, parent, nd => by
    simp only [i32LoopV, i32Loop]
    cases readId nd with
    | none => exact simSt_err _ _ (Or.inr rfl)
    | some p =>
      obtain ⟨x, nd2⟩ := p
      simp only
      split
      · have h5 := simSt_bind_TE (parseV_sim appender_i32 v hw nd2)
          (fun v' nd' => i32LoopV fuel v' parent nd') (fun T' nd' => i32Loop fuel T' parent nd')
          (fun v' a hw' => i32Loop_simV fuel v' hw' parent a)
        rcases hv : parseV parseI32 v nd2 with e1 | ⟨a1, b1⟩ <;> rcases hl : parseI32 v.view nd2 with e2 | ⟨a2, b2⟩ <;>
          simpa [hv, hl] using h5
      · split
        · have h := pushEnd_simV v hw parent
          have h5 := simSt_of_TE h (fun v' (a : Nat × PState) => ⟨v', a.1, a.2, nd2⟩) (fun T' a => ⟨T', a.1, a.2, nd2⟩)
            (fun _ _ => ⟨rfl, rfl⟩)
          cases hpe : pushEndV v parent with
          | error e1 =>
            cases hpl : pushEnd v.view parent with
            | error e2 => simpa [hpe, hpl] using h5
            | ok q2 => obtain ⟨a2, b2, c2⟩ := q2; simpa [hpe, hpl] using h5
          | ok q1 =>
            obtain ⟨a1, b1, c1⟩ := q1
            cases hpl : pushEnd v.view parent with
            | error e2 => simpa [hpe, hpl] using h5
            | ok q2 => obtain ⟨a2, b2, c2⟩ := q2; simpa [hpe, hpl] using h5
        · exact simSt_ok ⟨v, parent, .arrayValue, nd⟩ hw

theorem tokenArm_simV (opt : Bool) (fuel : Nat) (v : VecS) (hw : v.Wf) (parent : Nat) (state : PState) (d : Bytes) (tok : Nat) :
    SimSt (tokenArmV opt fuel v parent state d tok) (tokenArm opt fuel v.view parent state d tok) := by
  have sc : ∀ P, Appender P → SimSt (scalarArmV (parseV P v d) parent state) (scalarArm (P v.view d) parent state) :=
    fun P hP => scalarArm_simV (parseV_sim hP v hw d) parent state
  unfold tokenArmV tokenArm
  by_cases c1 : tok = L.u32
  · rw [if_pos c1, if_pos c1]; exact sc _ appender_u32
  rw [if_neg c1, if_neg c1]
  by_cases c2 : tok = L.u64
  · rw [if_pos c2, if_pos c2]; exact sc _ appender_u64
  rw [if_neg c2, if_neg c2]
  by_cases c3 : tok = L.i32
  · rw [if_pos c3, if_pos c3]
    have h := sc _ appender_i32
    cases hl : scalarArm (parseI32 v.view d) parent state with
    | error e =>
      by_cases hu : e = .ub
      · exact simSt_err _ _ (Or.inl hu)
      · rw [h.1 e hl hu]; exact simSt_err _ _ (Or.inr rfl)
    | ok s =>
      obtain ⟨sv, hsv, hto, hwf⟩ := h.2 s hl
      rw [hsv]
      simp only
      have hst : sv.state = s.state := by rw [← hto]; rfl
      rw [hst]
      split
      · have := i32Loop_simV fuel sv.vec hwf sv.parent sv.data
        rw [← hto]
        exact this
      · have := simSt_ok sv hwf
        rwa [hto] at this
  rw [if_neg c3, if_neg c3]
  by_cases c4 : tok = L.bool
  · rw [if_pos c4, if_pos c4]; exact sc _ appender_bool
  rw [if_neg c4, if_neg c4]
  by_cases c5 : tok = L.quoted
  · rw [if_pos c5, if_pos c5]; exact sc _ appender_quoted
  rw [if_neg c5, if_neg c5]
  by_cases c6 : tok = L.unquoted
  · rw [if_pos c6, if_pos c6]; exact sc _ appender_unquoted
  rw [if_neg c6, if_neg c6]
  by_cases c7 : tok = L.f32
  · rw [if_pos c7, if_pos c7]; exact sc _ appender_f32
  rw [if_neg c7, if_neg c7]
  by_cases c8 : tok = L.f64
  · rw [if_pos c8, if_pos c8]; exact sc _ appender_f64
  rw [if_neg c8, if_neg c8]
  by_cases c9 : tok = L.open_
  · rw [if_pos c9, if_pos c9]; exact openArm_simV v hw parent state d
  rw [if_neg c9, if_neg c9]
  by_cases c10 : tok = L.close
  · rw [if_pos c10, if_pos c10]; exact closeArm_simV v hw parent state d
  rw [if_neg c10, if_neg c10]
  by_cases c11 : tok = L.equal
  · rw [if_pos c11, if_pos c11]; exact equalArm_simV v hw parent state d
  rw [if_neg c11, if_neg c11]
  by_cases c12 : tok = L.rgb ∧ state = .objectValue
  · rw [if_pos c12, if_pos c12]
    have h5 := simSt_of_TE (parseV_sim appender_rgb v hw d) (fun v' d' => ⟨v', parent, .key, d'⟩) (fun T' d' => ⟨T', parent, .key, d'⟩)
      (fun _ _ => ⟨rfl, rfl⟩)
    rcases hv : parseV parseRgb v d with e1 | ⟨a1, b1⟩ <;> rcases hl : parseRgb v.view d with e2 | ⟨a2, b2⟩ <;>
      simpa [hv, hl] using h5
  rw [if_neg c12, if_neg c12]
  by_cases c13 : tok = L.i64
  · rw [if_pos c13, if_pos c13]; exact sc _ appender_i64
  rw [if_neg c13, if_neg c13]
  refine scalarArm_simV ?_ parent state
  obtain ⟨h1, h2⟩ := view_push v (.token tok) hw
  exact ⟨fun e he _ => by simp at he, fun T a h => by simp at h; obtain ⟨rfl, rfl⟩ := h; exact ⟨_, rfl, h1, h2⟩⟩

theorem dispatch_simV (opt : Bool) (fuel : Nat) (v : VecS) (hw : v.Wf) (parent : Nat) (state : PState) (d : Bytes) (tok : Nat) :
    SimSt (dispatchV opt fuel v parent state d tok) (dispatch opt fuel v.view parent state d tok) := by
  unfold dispatchV dispatch
  split
  · have h := mixedInsert2_simV v hw
    cases hl : mixedInsert2 v.view with
    | error e =>
      by_cases hu : e = .ub
      · exact simSt_err _ _ (Or.inl hu)
      · rw [h.1 e hl hu]; exact simSt_err _ _ (Or.inr rfl)
    | ok T =>
      obtain ⟨v', hv, hview, hwf⟩ := h.2 T hl
      rw [hv]
      simp only
      rw [← hview]
      exact tokenArm_simV opt fuel v' hwf parent .arrayValueMixed d tok
  · exact tokenArm_simV opt fuel v hw parent state d tok


/-- fast-path outcomes: equal unless the list model answers `ub` -/
def SimFP (rv : FPV) (rl : FP) : Prop :=
  match rl with
  | .err e => e = .ub ∨ rv = .err e
  | .cont s => ∃ sv, rv = .cont sv ∧ sv.toSt = s ∧ sv.vec.Wf
  | .fall T p s d t => ∃ v, rv = .fall v p s d t ∧ v.view = T ∧ v.Wf

theorem simFP_withId (d : Bytes) {kv : Nat → Bytes → FPV} {kl : Nat → Bytes → FP}
    (h : ∀ t rest, SimFP (kv t rest) (kl t rest)) : SimFP (FPV.withId d kv) (FP.withId d kl) := by
  unfold FPV.withId FP.withId
  cases readId d with
  | none => exact Or.inr rfl
  | some p => obtain ⟨t, rest⟩ := p; exact h t rest

theorem simFP_withParse {rv : Except Err (VecS × Bytes)} {rl : Except Err (Tape × Bytes)} (hr : SimTE rv rl)
    {kv : VecS → Bytes → FPV} {kl : Tape → Bytes → FP}
    (h : ∀ v a, v.Wf → SimFP (kv v a) (kl v.view a)) : SimFP (FPV.withParse rv kv) (FP.withParse rl kl) := by
  unfold FPV.withParse FP.withParse
  cases rl with
  | error e =>
    by_cases hu : e = .ub
    · exact Or.inl hu
    · rw [hr.1 e rfl hu]; exact Or.inr rfl
  | ok p =>
    obtain ⟨T, a⟩ := p
    obtain ⟨v, hv, hview, hwf⟩ := hr.2 T a rfl
    rw [hv]
    have := h v a hwf
    rwa [hview] at this

theorem simFP_fall (v : VecS) (hw : v.Wf) (p : Nat) (s : PState) (d : Bytes) (t : Nat) :
    SimFP (.fall v p s d t) (.fall v.view p s d t) := ⟨v, rfl, rfl, hw⟩

theorem simFP_cont (sv : StV) (hw : sv.vec.Wf) : SimFP (.cont sv) (.cont sv.toSt) := ⟨sv, rfl, rfl, hw⟩

theorem wf_setAtU (v : VecS) (i : Nat) (x : BTok) (hw : v.Wf) : (v.setAtU i x).Wf := by
  unfold setAtU Wf at *; simpa using hw

theorem view_setAtU (v : VecS) (i : Nat) (x : BTok) (hi : i < v.len) : (v.setAtU i x).view = v.view.set i x := by
  have := view_setAt v i x
  simp only [setAt, hi, if_true] at this
  exact this

theorem arrLoop_simV (k : EKind) : ∀ (fuel : Nat) (v : VecS), v.Wf → ∀ (parent : Nat) (nd : Bytes),
    SimFP (arrLoopV k fuel v parent nd) (arrLoop k fuel v.view parent nd)
  | 0, v, hw, parent, nd => by simp only [arrLoopV, arrLoop]; exact Or.inr rfl
  | fuel + 1, v, hw, parent, nd => by
    simp only [arrLoopV, arrLoop]
    cases readId nd with
    | none => exact Or.inr rfl
    | some p =>
      obtain ⟨x, nd2⟩ := p
      simp only
      split
      · have hr := parseV_sim (appender_elem k) v hw nd2
        cases hl : parseElem k v.view nd2 with
        | error e =>
          by_cases hu : e = .ub
          · exact Or.inl hu
          · rw [hr.1 e hl hu]; exact Or.inr rfl
        | ok q =>
          obtain ⟨T, a⟩ := q
          obtain ⟨v', hv, hview, hwf⟩ := hr.2 T a hl
          rw [hv]
          simp only
          rw [← hview]
          exact arrLoop_simV k fuel v' hwf parent a
      · split
        · cases hp : v.view[parent]? with
          | none => exact Or.inl rfl
          | some y =>
            rw [getUnchecked_sim v parent hw y hp]
            have hi : parent < v.len := by
              have := getElem?_lt_length hp
              rwa [VecS.view_length v hw] at this
            cases y <;> first | exact Or.inl rfl | skip
            rename_i grand
            have h1 := wf_setAtU v parent (.array v.len) hw
            obtain ⟨h2, h3⟩ := view_push (v.setAtU parent (.array v.len)) (.end_ parent) h1
            refine ⟨_, rfl, ?_, h3⟩
            simp only [StV.toSt, h2, view_setAtU v parent _ hi, VecS.view_length v hw]
        · exact simFP_fall v hw parent .arrayValue nd2 x

theorem arrayField_simV (k : EKind) (fuel : Nat) (v : VecS) (hw : v.Wf) (parent : Nat) (d4 : Bytes) :
    SimFP (arrayFieldV k fuel v parent d4) (arrayField k fuel v.view parent d4) := by
  unfold arrayFieldV arrayField
  refine simFP_withParse (parseV_sim (appender_elem k) v hw d4) ?_
  intro v1 a hw1
  refine simFP_withId a ?_
  intro t5 d5
  split
  · refine simFP_withParse (parseV_sim (appender_elem k) v1 hw1 d5) ?_
    intro v2 nd hw2
    exact arrLoop_simV k fuel v2 hw2 parent nd
  · exact simFP_fall v1 hw1 parent .openSecond d5 t5

theorem simFP_setParent (v : VecS) (hw : v.Wf) (ind : Nat) {kv : VecS → FPV} {kl : Tape → FP}
    (h : ∀ v', v'.Wf → SimFP (kv v') (kl v'.view)) :
    SimFP (match setParentToObjectV v ind with | .error e => .err e | .ok v3 => kv v3)
          (match setParentToObject v.view ind with | .error e => .err e | .ok t3 => kl t3) := by
  have hs := setParentToObject_simV v hw ind
  cases hl : setParentToObject v.view ind with
  | error e =>
    by_cases hu : e = .ub
    · exact Or.inl hu
    · rw [hs.1 e hl hu]; exact Or.inr rfl
  | ok T =>
    obtain ⟨v', hv, hview, hwf⟩ := hs.2 T hl
    rw [hv]
    have := h v' hwf
    rwa [hview] at this

theorem tokenKeyFast_simV (fuel : Nat) (v : VecS) (hw : v.Wf) (parent : Nat) (d : Bytes) :
    SimFP (tokenKeyFastV fuel v parent d) (tokenKeyFast fuel v.view parent d) := by
  unfold tokenKeyFastV tokenKeyFast
  refine simFP_withId d ?_
  intro t2 d2
  split
  · refine simFP_withId d2 ?_
    intro t3 d3
    split
    · refine simFP_withParse (parseV_sim appender_i32 v hw d3) ?_
      intro v' a hw'; exact simFP_cont ⟨v', parent, .key, a⟩ hw'
    split
    · obtain ⟨h1, h2⟩ := view_push v (.array parent) hw
      simp only [← VecS.view_length v hw]
      rw [← h1]
      simp only [VecS.view_length v hw]
      refine simFP_withId d3 ?_
      intro t4 d4
      split
      · exact arrayField_simV .i32 fuel _ h2 v.len d4
      split
      · exact arrayField_simV .quoted fuel _ h2 v.len d4
      split
      · exact arrayField_simV .f32 fuel _ h2 v.len d4
      split
      · obtain ⟨g1, g2⟩ := view_push (v.push (.array parent)) (.token t4) h2
        rw [← g1]
        refine simFP_withId d4 ?_
        intro t5 d5
        split
        · refine simFP_setParent _ g2 v.len ?_
          intro v3 hw3
          refine simFP_withId d5 ?_
          intro t6 d6
          exact simFP_fall v3 hw3 v.len .objectValue d6 t6
        · exact simFP_fall _ g2 v.len .openSecond d5 t5
      · exact simFP_fall _ h2 v.len .openFirst d4 t4
    split
    · refine simFP_withParse (parseV_sim appender_quoted v hw d3) ?_
      intro v' a hw'; exact simFP_cont ⟨v', parent, .key, a⟩ hw'
    split
    · refine simFP_withParse (parseV_sim appender_f32 v hw d3) ?_
      intro v' a hw'; exact simFP_cont ⟨v', parent, .key, a⟩ hw'
    · exact simFP_fall v hw parent .objectValue d3 t3
  · exact simFP_fall v hw parent .keyValueSeparator d2 t2


theorem quotedKeyFast_simV (v : VecS) (hw : v.Wf) (parent : Nat) (d : Bytes) :
    SimFP (quotedKeyFastV v parent d) (quotedKeyFast v.view parent d) := by
  unfold quotedKeyFastV quotedKeyFast
  refine simFP_withParse (parseV_sim appender_quoted v hw d) ?_
  intro v1 d2 hw1
  refine simFP_withId d2 ?_
  intro t2 d3
  split
  · refine simFP_withId d3 ?_
    intro t3 d4
    split
    · obtain ⟨h1, h2⟩ := view_push v1 (.array parent) hw1
      simp only [← VecS.view_length v1 hw1]
      rw [← h1]
      simp only [VecS.view_length v1 hw1]
      refine simFP_withId d4 ?_
      intro t e1
      split
      · obtain ⟨g1, g2⟩ := view_push (v1.push (.array parent)) (.token t) h2
        rw [← g1]
        refine simFP_withId e1 ?_
        intro t' e2
        split
        · refine simFP_setParent _ g2 v1.len ?_
          intro v4 hw4
          refine simFP_withId e2 ?_
          intro t'' e3
          split
          · refine simFP_withParse (parseV_sim appender_bool v4 hw4 e3) ?_
            intro v5 a hw5; exact simFP_cont ⟨v5, v1.len, .key, a⟩ hw5
          split
          · refine simFP_withParse (parseV_sim appender_quoted v4 hw4 e3) ?_
            intro v5 a hw5; exact simFP_cont ⟨v5, v1.len, .key, a⟩ hw5
          · exact simFP_fall v4 hw4 v1.len .objectValue e3 t''
        · exact simFP_fall _ g2 v1.len .openSecond e2 t'
      · exact simFP_fall _ h2 v1.len .openFirst e1 t
    · exact simFP_fall v1 hw1 parent .objectValue d4 t3
  · exact simFP_fall v1 hw1 parent .keyValueSeparator d3 t2

theorem i32KeyFast_simV (v : VecS) (hw : v.Wf) (parent : Nat) (d : Bytes) :
    SimFP (i32KeyFastV v parent d) (i32KeyFast v.view parent d) := by
  unfold i32KeyFastV i32KeyFast
  refine simFP_withParse (parseV_sim appender_i32 v hw d) ?_
  intro v1 d2 hw1
  refine simFP_withId d2 ?_
  intro t2 d3
  split
  · refine simFP_withId d3 ?_
    intro t3 d4
    split
    · refine simFP_withParse (parseV_sim appender_i32 v1 hw1 d4) ?_
      intro v2 a hw2; exact simFP_cont ⟨v2, parent, .key, a⟩ hw2
    · exact simFP_fall v1 hw1 parent .objectValue d4 t3
  · exact simFP_fall v1 hw1 parent .keyValueSeparator d3 t2

theorem keyFast_simV (fuel : Nat) (v : VecS) (hw : v.Wf) (parent : Nat) (d : Bytes) (tok : Nat) :
    SimFP (keyFastV fuel v parent d tok) (keyFast fuel v.view parent d tok) := by
  unfold keyFastV keyFast
  split
  · split
    · obtain ⟨h1, h2⟩ := view_push v (.token tok) hw
      rw [← h1]
      exact tokenKeyFast_simV fuel _ h2 parent d
    · exact simFP_fall v hw parent .key d tok
  split
  · have h := pushEnd_simV v hw parent
    cases hl : pushEnd v.view parent with
    | error e =>
      by_cases hu : e = .ub
      · exact Or.inl hu
      · rw [h.1 e hl hu]; exact Or.inr rfl
    | ok q =>
      obtain ⟨T, a, b⟩ := q
      obtain ⟨v', hv, hview, hwf⟩ := h.2 T (a, b) hl
      rw [hv]
      exact ⟨⟨v', a, b, d⟩, rfl, by simp [StV.toSt, hview], hwf⟩
  split
  · exact quotedKeyFast_simV v hw parent d
  split
  · exact i32KeyFast_simV v hw parent d
  · exact simFP_fall v hw parent .key d tok

/-- one iteration -/
def SimIter (rv : IterV) (rl : Iter) : Prop :=
  match rl with
  | .done => rv = .done
  | .err e => e = .ub ∨ rv = .err e
  | .next s => ∃ sv, rv = .next sv ∧ sv.toSt = s ∧ sv.vec.Wf

theorem simIter_ofExcept {rv : Except Err StV} {rl : Except Err St} (h : SimSt rv rl) :
    SimIter (IterV.ofExcept rv) (Iter.ofExcept rl) := by
  cases rl with
  | error e =>
    by_cases hu : e = .ub
    · exact Or.inl hu
    · rw [h.1 e rfl hu]; exact Or.inr rfl
  | ok s =>
    obtain ⟨sv, hsv, hto, hwf⟩ := h.2 s rfl
    rw [hsv]; exact ⟨sv, rfl, hto, hwf⟩

theorem iter_simV (opt : Bool) (fuel : Nat) (vec : VecS) (hw : vec.Wf) (parent : Nat) (state : PState) (data : Bytes) :
    SimIter (iterV opt fuel ⟨vec, parent, state, data⟩) (iter opt fuel ⟨vec.view, parent, state, data⟩) := by
  unfold iterV iter
  dsimp only
  cases readId data with
  | none => rfl
  | some p =>
    obtain ⟨tok, d⟩ := p
    dsimp only
    by_cases hc : opt = true ∧ state = .key
    · rw [if_pos hc, if_pos hc]
      have h := keyFast_simV fuel vec hw parent d tok
      cases hl : keyFast fuel vec.view parent d tok with
      | cont s =>
        rw [hl] at h
        obtain ⟨sv', hv, hto, hwf⟩ := h
        rw [hv]; exact ⟨sv', rfl, hto, hwf⟩
      | err e =>
        rw [hl] at h
        rcases h with h | h
        · exact Or.inl h
        · rw [h]; exact Or.inr rfl
      | fall T p s d' tok' =>
        rw [hl] at h
        obtain ⟨v', hv, hview, hwf⟩ := h
        rw [hv]
        dsimp only
        rw [← hview]
        exact simIter_ofExcept (dispatch_simV opt fuel v' hwf p s d' tok')
    · rw [if_neg hc, if_neg hc]
      exact simIter_ofExcept (dispatch_simV opt fuel vec hw parent state d tok)

/-- the loop over the vector agrees with the loop over its view, unless the latter answers `ub` -/
theorem run_simV (opt : Bool) (fuel : Nat) : ∀ (n : Nat) (sv : StV), sv.vec.Wf →
    run opt fuel n sv.toSt ≠ .error .ub → runV opt fuel n sv = run opt fuel n sv.toSt
  | 0, sv, _, _ => rfl
  | n + 1, sv, hw, hne => by
    have h := iter_simV opt fuel sv.vec hw sv.parent sv.state sv.data
    change SimIter (iterV opt fuel sv) (iter opt fuel sv.toSt) at h
    simp only [run, runV] at hne ⊢
    cases hl : iter opt fuel sv.toSt with
    | done => rw [hl] at h; rw [h]
    | err e =>
      rw [hl] at h hne
      rcases h with h | h
      · subst h; exact absurd rfl hne
      · rw [h]
    | next s =>
      rw [hl] at h hne
      obtain ⟨sv', hv, hto, hwf⟩ := h
      rw [hv]
      simp only
      rw [← hto] at hne ⊢
      exact run_simV opt fuel n sv' hwf hne

/-- **Reuse, through the loop.**  Parsing into a previously used vector — the loop running on the
vector itself, its unchecked reads seeing whatever the allocation holds — gives the result of a fresh
tape, whatever the old vector holds. -/
theorem parseInto_eq (opt : Bool) (prev : VecS) (hw : prev.Wf) (data : Bytes) :
    parseInto opt prev data = parse opt data := by
  unfold parseInto parse
  have h1 : (prev.clear).Wf := by unfold VecS.clear VecS.Wf; simp
  have h2 := wf_rawWrite prev.clear 0 .equal h1
  have hv : ((prev.clear).rawWrite 0 .equal).view = [] := by
    rw [view_rawWrite_beyond _ 0 .equal h1 (by simp [VecS.clear]), view_clear]
  have := run_simV opt (data.length + 1) (data.length + 1) ⟨(prev.clear).rawWrite 0 .equal, 0, .key, data⟩ h2
  simp only [StV.toSt, hv] at this
  exact this (by
    have := (C05_bintape_no_ub_panic opt data).1
    simpa [parse, init] using this)

end Jomini.BinTape
