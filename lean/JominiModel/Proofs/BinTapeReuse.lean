import JominiModel.Model.BinTapeVec
import JominiModel.Proofs.BinTapeTotal
/-
C03 "fresh or previously used tape": the token vector with its stale capacity contents (`VecS`).
Each vector operation of the parser acts on the view like the list operation of the model,
independently of what lies beyond `len`; the only reads not bounded by `len` are the unchecked
ones, and those are in range on every run (`C05_bintape_no_ub_panic`: the model's `ub` outcome,
which stands for exactly such a read, never occurs).
-/
namespace Jomini.BinTape
open Jomini

namespace VecS

theorem view_clear (v : VecS) : v.clear.view = [] := by simp [clear, view]

theorem view_ofList (t : Tape) : (ofList t).view = t := by simp [ofList, view]

theorem rawWrite_len (v : VecS) (i : Nat) (x : BTok) : (v.rawWrite i x).len = v.len := by
  unfold rawWrite; split <;> rfl

/-- a raw write at or beyond `len` is invisible -/
theorem view_rawWrite_beyond (v : VecS) (i : Nat) (x : BTok) (hw : v.Wf) (hi : v.len ≤ i) :
    (v.rawWrite i x).view = v.view := by
  unfold rawWrite view Wf at *
  split
  · simp only
    apply List.ext_getElem?
    intro j
    by_cases hj : j < v.len
    · rw [List.getElem?_take_of_lt hj, List.getElem?_take_of_lt hj, List.getElem?_set_ne (by omega)]
    · rw [List.getElem?_eq_none (by simp; omega), List.getElem?_eq_none (by simp; omega)]
  · simp only
    rw [List.take_append_of_le_length hw]

theorem wf_rawWrite (v : VecS) (i : Nat) (x : BTok) (hw : v.Wf) : (v.rawWrite i x).Wf := by
  unfold rawWrite Wf at *; split <;> simp <;> omega

/-- `alloc().init(x)` appends to the view, whatever was stored behind it -/
theorem view_push (v : VecS) (x : BTok) (hw : v.Wf) : (v.push x).view = v.view ++ [x] ∧ (v.push x).Wf := by
  unfold push rawWrite setLen view Wf at *
  split
  · rename_i hlt
    simp only
    refine ⟨?_, by simp; omega⟩
    apply List.ext_getElem?
    intro j
    rcases Nat.lt_trichotomy j v.len with hj | hj | hj
    · rw [List.getElem?_take_of_lt (by omega), List.getElem?_set_ne (by omega),
        List.getElem?_append_left (by simp; omega), List.getElem?_take_of_lt hj]
    · subst hj
      rw [List.getElem?_take_of_lt (by omega), List.getElem?_set_self hlt,
        List.getElem?_append_right (by simp; omega)]
      simp [Nat.min_eq_left hw]
    · rw [List.getElem?_eq_none (by simp; omega), List.getElem?_eq_none (by simp; omega)]
  · rename_i hge
    have : v.len = v.buf.length := by omega
    simp only
    refine ⟨?_, by simp; omega⟩
    rw [this]; simp [List.take_of_length_le]

theorem view_pop (v : VecS) (hw : v.Wf) :
    (v.pop?).map (fun p => (p.1.view, p.2)) = BinTape.pop? v.view := by
  unfold VecS.pop? BinTape.pop? view Wf at *
  by_cases h0 : v.len = 0
  · simp [h0]
  · have hlt : v.len - 1 < v.buf.length := by omega
    have hx : v.buf[v.len - 1]? = some v.buf[v.len - 1] := List.getElem?_eq_getElem hlt
    have hlast : (v.buf.take v.len).getLast? = some v.buf[v.len - 1] := by
      rw [List.getLast?_eq_getElem?]
      simp [Nat.min_eq_left hw, List.getElem?_take_of_lt (show v.len - 1 < v.len by omega), hx]
    simp only [h0, if_false, hx, hlast, Option.map_some]
    have hd : (v.buf.take v.len).dropLast = v.buf.take (v.len - 1) := by
      rw [List.dropLast_eq_take]; simp [List.take_take, Nat.min_eq_left hw]
    simp [hd]

/-- bounds-checked reads see the view only -/
theorem get?_view (v : VecS) (i : Nat) : v.get? i = v.view[i]? := by
  unfold get? view
  split
  · rename_i h; rw [List.getElem?_take_of_lt h]
  · rename_i h; rw [List.getElem?_eq_none (by simp; omega)]

/-- an unchecked read inside the length sees the view; beyond it, stale memory — the list model's `ub` -/
theorem getUnchecked_view (v : VecS) (i : Nat) (h : i < v.len) : v.getUnchecked i = v.view[i]? := by
  unfold getUnchecked view; rw [List.getElem?_take_of_lt h]

theorem view_setAt (v : VecS) (i : Nat) (x : BTok) : (v.setAt i x).view = v.view.set i x := by
  unfold setAt view
  split
  · rename_i h
    apply List.ext_getElem?
    intro j
    by_cases hj : j < v.len
    · rw [List.getElem?_take_of_lt hj]
      by_cases hij : i = j
      · subst hij
        by_cases hb : i < v.buf.length
        · rw [List.getElem?_set_self hb, List.getElem?_set_self (by simp; omega)]
        · rw [List.getElem?_eq_none (by simp; omega), List.getElem?_eq_none (by simp; omega)]
      · rw [List.getElem?_set_ne hij, List.getElem?_set_ne hij, List.getElem?_take_of_lt hj]
    · rw [List.getElem?_eq_none (by simp; omega), List.getElem?_eq_none (by simp; omega)]
  · rename_i h
    rw [List.set_eq_of_length_le (by simp; omega)]

/-- `set_len(n)` with `n ≤ len` truncates the view -/
theorem view_setLen_le (v : VecS) (n : Nat) (h : n ≤ v.len) : (v.setLen n).view = v.view.take n := by
  unfold setLen view; simp [List.take_take, Nat.min_eq_left h]

end VecS

/-- **Reuse**: parsing into a previously used tape gives the same result as parsing into a fresh
one, whatever the old vector holds (its length, its tokens, the stale tokens behind its length). -/
theorem parseInto_eq (opt : Bool) (prev : VecS) (data : Bytes) :
    parseInto opt prev data = parse opt data := by
  unfold parseInto parse init
  have h1 : (prev.clear).Wf := by unfold VecS.clear VecS.Wf; simp
  rw [VecS.view_rawWrite_beyond _ 0 .equal h1 (by simp [VecS.clear]), VecS.view_clear]

end Jomini.BinTape
