import JominiModel.Proofs.WriterGenTape
/-
`write_binary` forwarding and `write_rgb` as direct calls; float texts.
-/
namespace Jomini.Writer
open Jomini Jomini.Writer.Spec
open Jomini.TextTape (Scal)

/-- the direct call `write_binary` forwards a token to (writer.rs:685) -/
def binCall : BinTok → Call
  | .array => .arrayStart
  | .object => .objectStart
  | .mixedContainer => .mixedMode
  | .equal => .operator .eq
  | .end => .end
  | .bool b => .bool b
  | .u32 n => .u32 n
  | .u64 n => .u64 n
  | .i64 i => .i64 i
  | .i32 i => .i32 i
  | .quoted b => .quoted b
  | .unquoted b => .unquoted b
  | .f32 t => .fmt t
  | .f64 t => .fmt t
  | .token id => .unquoted (unknownPrefix ++ fmtHex id)
  | .rgb c => .rgb c

/-- replace every `write_binary` call by the call it forwards to -/
def unbin : Call → Call
  | .binary t => binCall t
  | c => c

theorem step_binary (s : State) (t : BinTok) : step s (.binary t) = step s (binCall t) := by
  cases t <;> rfl

theorem step_unbin (s : State) (c : Call) : step s (unbin c) = step s c := by
  cases c <;> first | rfl | exact (step_binary s _).symm

theorem run_unbin : ∀ (cs : List Call) (s : State), run (cs.map unbin) s = run cs s
  | [], _ => rfl
  | c :: cs, s => by
    simp only [List.map_cons, run, step_unbin]
    cases step s c <;> simp [run_unbin cs]

/-! ### `write_rgb` -/

def rgbBytes : Bytes := [114, 103, 98]

/-- the components after the first, as array elements -/
def rgbRest (c : Rgb) : GVals :=
  .cons (.scal (.u32 c.g)) (.cons (.scal (.u32 c.b))
    (match c.a with | some a => .cons (.scal (.u32 a)) .nil | none => .nil))

/-- the value `write_rgb` writes behind the header: an array of the components -/
def rgbVal (c : Rgb) : GVal := .arrS false (.u32 c.r) (rgbRest c)

/-- `write_rgb` is `write_header("rgb")`, `write_array_start`, one `write_u32` per component,
`write_end` -/
theorem rgb_eq_calls (s : State) (c : Rgb) :
    step s (.rgb c) = .ok (run (.header rgbBytes :: gcallsV (rgbVal c)) s).1 := by
  simp only [step, writeRgb]
  have hcalls : Call.header rgbBytes :: gcallsV (rgbVal c) =
      [Call.header rgbBytes, .arrayStart, .u32 c.r, .u32 c.g, .u32 c.b] ++
        ((match c.a with | some a => [Call.u32 a] | none => []) ++ [.end]) := by
    cases hca : c.a <;> simp [rgbVal, rgbRest, gcallsV, gcallsVs, arrFl, Flavour.call, SCall.call, hca]
  rw [hcalls, run_append]
  obtain ⟨s1, _, e1, _, _⟩ := writeUnquoted_ok (writeArrayStart (writeHeader s [114, 103, 98])) (fmtNat c.r)
  obtain ⟨s2, _, e2, _, _⟩ := writeUnquoted_ok s1 (fmtNat c.g)
  obtain ⟨s3, _, e3, _, _⟩ := writeUnquoted_ok s2 (fmtNat c.b)
  have hd1 : s1.depth = (writeArrayStart (writeHeader s [114, 103, 98])).depth :=
    step_scall_depth _ s1 (.u32 c.r) e1
  have hd2 : s2.depth = s1.depth := step_scall_depth _ s2 (.u32 c.g) e2
  have hd3 : s3.depth = s2.depth := step_scall_depth _ s3 (.u32 c.b) e3
  have hrun5 : (run [Call.header rgbBytes, .arrayStart, .u32 c.r, .u32 c.g, .u32 c.b] s).1 = s3 := by
    simp [run, step, rgbBytes, e1, e2, e3]
  rw [hrun5]
  simp only [e1, e2, e3]
  cases hca : c.a with
  | none =>
    obtain ⟨s4, h4, _⟩ := writeEnd_depth s3 _ _ (by rw [hd3, hd2, hd1, writeArrayStart_depth])
    simp [run, step, h4]
  | some a =>
    obtain ⟨s4, _, e4, _, _⟩ := writeUnquoted_ok s3 (fmtNat a)
    have hd4 : s4.depth = s3.depth := step_scall_depth _ s4 (.u32 a) e4
    obtain ⟨s5, h5, _⟩ := writeEnd_depth s4 _ _ (by rw [hd4, hd3, hd2, hd1, writeArrayStart_depth])
    simp [run, step, e4, h5]

/-- root fields whose values are colours written with `write_rgb` -/
def rgbCallsF : List (SCall × Option Writer.Op × Rgb) → List Call
  | [] => []
  | (k, o, c) :: r => k.call :: (opCalls o ++ (Call.rgb c :: rgbCallsF r))

/-- the same document with `write_header` + array calls -/
def rgbFields : List (SCall × Option Writer.Op × Rgb) → GFields
  | [] => .nil
  | (k, o, c) :: r => .hdr k o rgbBytes (rgbVal c) (rgbFields r)

theorem run_rgbCallsF : ∀ (l : List (SCall × Option Writer.Op × Rgb)) (s : State),
    (run (rgbCallsF l) s).1 = (run (gcallsF (rgbFields l)) s).1
  | [], _ => rfl
  | (k, o, c) :: r, s => by
    simp only [rgbCallsF, rgbFields, gcallsF]
    have h1 : k.call :: (opCalls o ++ (Call.rgb c :: rgbCallsF r)) = (k.call :: opCalls o) ++ (Call.rgb c :: rgbCallsF r) := by simp
    have h2 : k.call :: (opCalls o ++ (Call.header rgbBytes :: (gcallsV (rgbVal c) ++ gcallsF (rgbFields r)))) =
        (k.call :: opCalls o) ++ ((Call.header rgbBytes :: gcallsV (rgbVal c)) ++ gcallsF (rgbFields r)) := by simp
    rw [h1, h2, run_append, run_append, run_append, run_cons_ok _ (rgb_eq_calls _ c), run_rgbCallsF r]

theorem rgbFields_opened : ∀ (l : List (SCall × Option Writer.Op × Rgb)), (rgbFields l).Opened
  | [] => trivial
  | (k, o, c) :: r => by
    refine ⟨?_, rgbFields_opened r⟩
    simp only [rgbVal, GVal.Opened, rgbRest]
    cases c.a <;> simp [GVals.Opened, GVal.Opened]

theorem rgbFields_good : ∀ (l : List (SCall × Option Writer.Op × Rgb)), (∀ x ∈ l, x.1.Valid) → (rgbFields l).Good
  | [], _ => trivial
  | (k, o, c) :: r, h => by
    refine ⟨scall_valid_validX _ (h (k, o, c) (by simp)), valid_of_safe _ (by simp [rgbBytes]) (by decide +kernel), rfl, ?_,
      rgbFields_good r (fun x hx => h x (by simp [hx]))⟩
    simp only [rgbVal, GVal.Good, rgbRest, SCall.ValidX]
    cases c.a <;> simp [GVals.Good, GVal.Good, SCall.ValidX]

end Jomini.Writer

/-! ### mixed mode (scalars only) -/
namespace Jomini.Writer
open Jomini Jomini.Writer.Spec
open Jomini.TextTape (Scal)

theorem writeRaw_mixed_started (s : State) (x : Bytes) (hst : s.state = .arrayValue)
    (hn : s.needsLineTerminator = false) (hm : s.mixedMode = .started) :
    writeRaw s x = .ok { s with out := s.out ++ (32 :: x), state := .arrayValue, needsLineTerminator := false } := by
  obtain ⟨mode, depth, state, nlt, mixed, c, f, out⟩ := s
  simp only at hst hn hm
  subst hst hn hm
  simp [writeRaw, writePreamble, writeLineTerminator, writeEpilogue, put, next_arrayValue]

theorem writeRaw_mixed_keyed (s : State) (x : Bytes) (hst : s.state = .arrayValue)
    (hn : s.needsLineTerminator = false) (hm : s.mixedMode = .keyed) :
    writeRaw s x = .ok { s with out := s.out ++ x, state := .arrayValue, needsLineTerminator := false, mixedMode := .started } := by
  obtain ⟨mode, depth, state, nlt, mixed, c, f, out⟩ := s
  simp only at hst hn hm
  subst hst hn hm
  simp [writeRaw, writePreamble, writeLineTerminator, writeEpilogue, put, next_arrayValue]

theorem writeOperator_mixed (s : State) (o : Writer.Op) (hm : s.mixedMode = .started) :
    writeOperator s o = { s with out := s.out ++ o.symbol, mixedMode := .keyed } := by
  simp [writeOperator, hm, put]

/-- the further elements of an array opened with `write_array_start` -/
theorem run_elems_av : ∀ (rest : List SCall) (s : State), s.state = .arrayValue →
    s.needsLineTerminator = false → s.mixedMode = .disabled →
    ∃ s', (run (rest.map SCall.call) s).1 = s' ∧ s'.state = .arrayValue ∧
      s'.needsLineTerminator = false ∧ s'.mixedMode = .disabled ∧ s'.depth = s.depth ∧ s'.mode = s.mode ∧
      s'.indentChar = s.indentChar ∧ s'.indentFactor = s.indentFactor ∧ s'.out = s.out ++ elemsText rest
  | [], s, hst, hn, hm => ⟨s, rfl, hst, hn, hm, rfl, rfl, rfl, rfl, by simp [elemsText]⟩
  | e :: r, s, hst, hn, hm => by
    have h := writeRaw_more s e.scal.text (Or.inl hst) hn hm
    simp only [List.map_cons]
    rw [run_cons_ok _ ((step_scall s e).trans h)]
    obtain ⟨s', h1, h2, h3, h4, h5, h6, h7, h8, h9⟩ := run_elems_av r { s with out := s.out ++ (32 :: e.scal.text), state := .arrayValue, needsLineTerminator := false } rfl rfl hm
    exact ⟨s', h1, h2, h3, h4, h5, h6, h7, h8, by rw [h9]; simp [elemsText, List.append_assoc]⟩

/-- one key/operator/value triple in mixed mode -/
theorem run_pair (a b : SCall) (o : Writer.Op) (cs : List Call) (s : State) (hst : s.state = .arrayValue)
    (hn : s.needsLineTerminator = false) (hm : s.mixedMode = .started) :
    (run (a.call :: (.operator o :: (b.call :: cs))) s).1 =
      (run cs { s with out := s.out ++ (32 :: (a.scal.text ++ (o.symbol ++ b.scal.text))), state := .arrayValue, needsLineTerminator := false, mixedMode := .started }).1 := by
  have h1 := writeRaw_mixed_started s a.scal.text hst hn hm
  rw [run_cons_ok _ ((step_scall s a).trans h1)]
  have h2 : step { s with out := s.out ++ (32 :: a.scal.text), state := .arrayValue, needsLineTerminator := false } (.operator o) =
      .ok { s with out := s.out ++ (32 :: a.scal.text) ++ o.symbol, state := .arrayValue, needsLineTerminator := false, mixedMode := .keyed } := by
    rw [step_operator, writeOperator_mixed _ o (by exact hm)]
  rw [run_cons_ok _ h2]
  have h3 := writeRaw_mixed_keyed { s with out := s.out ++ (32 :: a.scal.text) ++ o.symbol, state := .arrayValue, needsLineTerminator := false, mixedMode := .keyed } b.scal.text rfl rfl rfl
  rw [run_cons_ok _ ((step_scall _ b).trans h3)]
  simp [List.append_assoc]

/-- key/operator/value triples in mixed mode, then whatever follows -/
theorem run_pairs : ∀ (ps : List (SCall × Writer.Op × SCall)) (cs : List Call) (s : State), s.state = .arrayValue →
    s.needsLineTerminator = false → s.mixedMode = .started →
    ∃ s', (run (pairCalls ps ++ cs) s).1 = (run cs s').1 ∧ s'.state = .arrayValue ∧ s'.depth = s.depth ∧
      s'.indentChar = s.indentChar ∧ s'.indentFactor = s.indentFactor ∧ s'.out = s.out ++ pairsText ps
  | [], cs, s, hst, _, _ => ⟨s, rfl, hst, rfl, rfl, rfl, by simp [pairsText]⟩
  | (a, o, b) :: r, cs, s, hst, hn, hm => by
    simp only [pairCalls, List.cons_append]
    rw [run_pair a b o _ s hst hn hm]
    obtain ⟨s', e1, e2, e3, e4, e5, e6⟩ := run_pairs r cs { s with out := s.out ++ (32 :: (a.scal.text ++ (o.symbol ++ b.scal.text))), state := .arrayValue, needsLineTerminator := false, mixedMode := .started } rfl rfl rfl
    exact ⟨s', e1, e2, e3, e4, e5, by rw [e6]; simp [pairsText, List.append_assoc]⟩

/-- the writer after the first root key -/
def afterRootKey (c : UInt8) (f : Nat) (k : Bytes) : State :=
  { State.init c f with out := k, state := .keyValueSeparator }

/-- the bytes of a mixed-mode call list -/
theorem lexemes_mixed (d : MixedDoc) (c : UInt8) (f : Nat) :
    (run d.calls (State.init c f)).1.out = d.text c f := by
  simp only [MixedDoc.calls]
  have hk : writeRaw (State.init c f) d.key.scal.text = .ok (afterRootKey c f d.key.scal.text) := by
    rw [writeRaw_key (State.init c f) d.key.scal.text rfl rfl]; simp [afterRootKey, State.init]
  rw [run_cons_ok _ ((step_scall _ d.key).trans hk)]
  have hopen := run_arrOpen (afterRootKey c f d.key.scal.text) [61] false d.first
    (d.rest.map SCall.call ++ (.mixedMode :: (pairCalls d.pairs ++ [.end]))) rfl (Or.inl ⟨rfl, rfl⟩)
  simp only [Bool.false_eq_true, if_false] at hopen
  rw [hopen, run_append]
  obtain ⟨s2, h1, h2, h3, h4, h5, h6, h7, h8, h9⟩ := run_elems_av d.rest
    (arrOpen (afterRootKey c f d.key.scal.text) [61] false d.first.scal.text) rfl rfl rfl
  rw [h1]
  have hmm : step s2 .mixedMode = .ok (startMixedMode s2) := rfl
  rw [run_cons_ok _ hmm]
  obtain ⟨s3, e1, e2, e3, e4, e5, e6⟩ := run_pairs d.pairs [.end] (startMixedMode s2) h2 h3 rfl
  rw [e1]
  have hend := writeEnd_array s3 [] (Or.inl e2) (by rw [e3]; simp [startMixedMode, h5, arrOpen, afterRootKey, State.init])
  rw [run_single_ok ((step_end _).trans hend)]
  simp only [e6, startMixedMode, h9, e4, e5, h7, h8, arrOpen, afterRootKey, State.init, MixedDoc.text, ind]
  simp [List.append_assoc]

/-! ### float texts -/

theorem floatText_valid (t : Bytes) (h : FloatText t) : (⟨false, t⟩ : Scal).Valid := by
  obtain ⟨neg, ip, fp, rfl, hip, hdig, hfp⟩ := h
  have hsafe_digits : ∀ (d : Bytes), allDigits d = true → ∀ c ∈ d, safeByte c = true := by
    intro d hd c hc
    exact safe_digit c (.inl (by simpa [allDigits] using (List.all_eq_true.1 hd) c hc))
  apply valid_of_safe
  · cases neg <;> simp [hip]
  · intro c hc
    simp only [List.mem_append] at hc
    rcases hc with hc | hc | hc
    · cases neg
      · simp at hc
      · simp at hc; subst hc; exact safe_digit 45 (.inr (.inl rfl))
    · exact hsafe_digits ip hdig c hc
    · rcases hfp with rfl | ⟨fd, rfl, _, hfd⟩
      · simp at hc
      · simp only [List.mem_cons] at hc
        rcases hc with rfl | hc
        · exact safe_digit 46 (.inr (.inr (.inl rfl)))
        · exact hsafe_digits fd hfd c hc

theorem step_fmt_raw (s : State) (t : Bytes) : step s (.fmt t) = step s (SCall.raw ⟨false, t⟩).call := rfl

end Jomini.Writer
