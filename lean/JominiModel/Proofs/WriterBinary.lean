import JominiModel.Proofs.WriterGenTape
/-
`write_binary` forwarding and `write_rgb` as direct calls; float texts.
-/
namespace Jomini.Writer
open Jomini Jomini.Writer.Spec
open Jomini.TextTape (Scal)

/-- the direct call `write_binary` forwards a token to (writer.rs:685) -/
def binCall : BinTok → Call
  | .array => .arrayStart
  | .object => .objectStart
  | .mixedContainer => .mixedMode
  | .equal => .operator .eq
  | .end => .end
  | .bool b => .bool b
  | .u32 n => .u32 n
  | .u64 n => .u64 n
  | .i64 i => .i64 i
  | .i32 i => .i32 i
  | .quoted b => .quoted b
  | .unquoted b => .unquoted b
  | .f32 t => .fmt t
  | .f64 t => .fmt t
  | .token id => .unquoted (unknownPrefix ++ fmtHex id)
  | .rgb c => .rgb c

/-- replace every `write_binary` call by the call it forwards to -/
def unbin : Call → Call
  | .binary t => binCall t
  | c => c

theorem step_binary (s : State) (t : BinTok) : step s (.binary t) = step s (binCall t) := by
  cases t <;> rfl

theorem step_unbin (s : State) (c : Call) : step s (unbin c) = step s c := by
  cases c <;> first | rfl | exact (step_binary s _).symm

theorem run_unbin : ∀ (cs : List Call) (s : State), run (cs.map unbin) s = run cs s
  | [], _ => rfl
  | c :: cs, s => by
    simp only [List.map_cons, run, step_unbin]
    cases step s c <;> simp [run_unbin cs]

/-! ### `write_rgb` -/

def rgbBytes : Bytes := [114, 103, 98]

/-- the components after the first, as array elements -/
def rgbRest (c : Rgb) : GVals :=
  .cons (.scal (.u32 c.g)) (.cons (.scal (.u32 c.b))
    (match c.a with | some a => .cons (.scal (.u32 a)) .nil | none => .nil))

/-- the value `write_rgb` writes behind the header: an array of the components -/
def rgbVal (c : Rgb) : GVal := .arrS false (.u32 c.r) (rgbRest c)

/-- `write_rgb` is `write_header("rgb")`, `write_array_start`, one `write_u32` per component,
`write_end` -/
theorem rgb_eq_calls (s : State) (c : Rgb) :
    step s (.rgb c) = .ok (run (.header rgbBytes :: gcallsV (rgbVal c)) s).1 := by
  simp only [step, writeRgb]
  have hcalls : Call.header rgbBytes :: gcallsV (rgbVal c) =
      [Call.header rgbBytes, .arrayStart, .u32 c.r, .u32 c.g, .u32 c.b] ++
        ((match c.a with | some a => [Call.u32 a] | none => []) ++ [.end]) := by
    cases hca : c.a <;> simp [rgbVal, rgbRest, gcallsV, gcallsVs, arrFl, Flavour.call, SCall.call, hca]
  rw [hcalls, run_append]
  obtain ⟨s1, _, e1, _, _⟩ := writeUnquoted_ok (writeArrayStart (writeHeader s [114, 103, 98])) (fmtNat c.r)
  obtain ⟨s2, _, e2, _, _⟩ := writeUnquoted_ok s1 (fmtNat c.g)
  obtain ⟨s3, _, e3, _, _⟩ := writeUnquoted_ok s2 (fmtNat c.b)
  have hd1 : s1.depth = (writeArrayStart (writeHeader s [114, 103, 98])).depth :=
    step_scall_depth _ s1 (.u32 c.r) e1
  have hd2 : s2.depth = s1.depth := step_scall_depth _ s2 (.u32 c.g) e2
  have hd3 : s3.depth = s2.depth := step_scall_depth _ s3 (.u32 c.b) e3
  have hrun5 : (run [Call.header rgbBytes, .arrayStart, .u32 c.r, .u32 c.g, .u32 c.b] s).1 = s3 := by
    simp [run, step, rgbBytes, e1, e2, e3]
  rw [hrun5]
  simp only [e1, e2, e3]
  cases hca : c.a with
  | none =>
    obtain ⟨s4, h4, _⟩ := writeEnd_depth s3 _ _ (by rw [hd3, hd2, hd1, writeArrayStart_depth])
    simp [run, step, h4]
  | some a =>
    obtain ⟨s4, _, e4, _, _⟩ := writeUnquoted_ok s3 (fmtNat a)
    have hd4 : s4.depth = s3.depth := step_scall_depth _ s4 (.u32 a) e4
    obtain ⟨s5, h5, _⟩ := writeEnd_depth s4 _ _ (by rw [hd4, hd3, hd2, hd1, writeArrayStart_depth])
    simp [run, step, e4, h5]

/-- root fields whose values are colours written with `write_rgb` -/
def rgbCallsF : List (SCall × Option Writer.Op × Rgb) → List Call
  | [] => []
  | (k, o, c) :: r => k.call :: (opCalls o ++ (Call.rgb c :: rgbCallsF r))

/-- the same document with `write_header` + array calls -/
def rgbFields : List (SCall × Option Writer.Op × Rgb) → GFields
  | [] => .nil
  | (k, o, c) :: r => .hdr k o rgbBytes (rgbVal c) (rgbFields r)

theorem run_rgbCallsF : ∀ (l : List (SCall × Option Writer.Op × Rgb)) (s : State),
    (run (rgbCallsF l) s).1 = (run (gcallsF (rgbFields l)) s).1
  | [], _ => rfl
  | (k, o, c) :: r, s => by
    simp only [rgbCallsF, rgbFields, gcallsF]
    have h1 : k.call :: (opCalls o ++ (Call.rgb c :: rgbCallsF r)) = (k.call :: opCalls o) ++ (Call.rgb c :: rgbCallsF r) := by simp
    have h2 : k.call :: (opCalls o ++ (Call.header rgbBytes :: (gcallsV (rgbVal c) ++ gcallsF (rgbFields r)))) =
        (k.call :: opCalls o) ++ ((Call.header rgbBytes :: gcallsV (rgbVal c)) ++ gcallsF (rgbFields r)) := by simp
    rw [h1, h2, run_append, run_append, run_append, run_cons_ok _ (rgb_eq_calls _ c), run_rgbCallsF r]

theorem rgbFields_opened : ∀ (l : List (SCall × Option Writer.Op × Rgb)), (rgbFields l).Opened
  | [] => trivial
  | (k, o, c) :: r => by
    refine ⟨?_, rgbFields_opened r⟩
    simp only [rgbVal, GVal.Opened, rgbRest]
    cases c.a <;> simp [GVals.Opened, GVal.Opened]

theorem rgbFields_good : ∀ (l : List (SCall × Option Writer.Op × Rgb)), (∀ x ∈ l, x.1.Valid) → (rgbFields l).Good
  | [], _ => trivial
  | (k, o, c) :: r, h => by
    refine ⟨h (k, o, c) (by simp), valid_of_safe _ (by simp [rgbBytes]) (by decide +kernel), rfl, ?_,
      rgbFields_good r (fun x hx => h x (by simp [hx]))⟩
    simp only [rgbVal, GVal.Good, rgbRest, SCall.Valid]
    cases c.a <;> simp [GVals.Good, GVal.Good, SCall.Valid]

end Jomini.Writer
