import JominiModel.Proofs.WriterFullSem
/-
C14 over the full document type, step 2: the bytes `semF` writes for a preserved document
(`FPlainF`) are the rendering of the SAME document under the writer's own layout (`wlayF`).
-/
namespace Jomini.Writer
open Jomini Jomini.Writer.Spec
open Jomini.TextTape (Scal FVal FFirst FFields FVals FItems fcntV fcntFirst fcntF fcntVs fcntI
  frenderV frenderFirst frenderF frenderVs frenderI)
open Jomini.WriterParse (nlInd gapOf)

/-! ### the writer's layout -/

/-- the blanks in front of an array element -/
def igap (c : UInt8) (f d : Nat) (nlt : Bool) (mm : MixedMode) : Bytes :=
  if nlt then nlInd c f d else if mm = .keyed then [] else [32]

def mmScal (mm : MixedMode) : MixedMode := if mm = .keyed then .started else mm
def mmOp (mm : MixedMode) : MixedMode := if mm = .disabled then .disabled else .keyed

/-- is a newline pending after the values? -/
def lastNlt : Bool → FVals → Bool
  | b, .nil => b
  | _, .cons v rest => lastNlt (closesV v) rest

mutual
/-- the document under the writer's layout: `d` = nesting depth, `g` = the blanks in front -/
def wlayV (c : UInt8) (f : Nat) : Nat → Bytes → FVal → FVal
  | _, g, .scal _ x => .scal g x
  | _, g, .empty _ _ => .empty g [32]
  | d, g, .obj _ _ first rest _ =>
    .obj g (nlInd c f (d + 1)) (wlayFirst c f (d + 1) first) (wlayF c f (d + 1) (nlInd c f (d + 1)) rest) (nlInd c f d)
  | d, g, .arrS _ _ s0 rest _ => .arrS g (nlInd c f (d + 1)) s0 (wlayVs c f (d + 1) false rest) (nlInd c f d)
  | d, g, .arrC _ first rest _ =>
    .arrC g (wlayV c f (d + 1) (nlInd c f (d + 1)) first) (wlayVs c f (d + 1) (closesV first) rest) (nlInd c f d)
  | d, g, .ghostIn _ _ _ v => wlayV c f d g v
  | _, g, .mixed .. => .empty g [32]
  | d, g, .arrSM _ _ s0 pre _ m0 _ o items _ =>
    .arrSM g (nlInd c f (d + 1)) s0 (wlayVs c f (d + 1) false pre) (igap c f (d + 1) (lastNlt false pre) .started) m0 [] o
      (wlayI c f (d + 1) false .keyed items) (nlInd c f d)
  | d, g, .arrCM _ first pre _ m0 _ o items _ =>
    .arrCM g (wlayV c f (d + 1) (nlInd c f (d + 1)) first) (wlayVs c f (d + 1) (closesV first) pre)
      (igap c f (d + 1) (lastNlt (closesV first) pre) .started) m0 [] o (wlayI c f (d + 1) false .keyed items) (nlInd c f d)
def wlayFirst (c : UInt8) (f : Nat) : Nat → FFirst → FFirst
  | d, .kv k _ o v => .kv k (gapOf o) o (wlayV c f d (gapOf o) v)
  | d, .flds fs => .flds (wlayF c f d [] fs)
/-- `g0` = the blanks in front of the first field that has tokens -/
def wlayF (c : UInt8) (f : Nat) : Nat → Bytes → FFields → FFields
  | _, _, .nil => .nil
  | d, g0, .cons _ k _ o v rest => .cons g0 k (gapOf o) o (wlayV c f d (gapOf o) v) (wlayF c f d (nlInd c f d) rest)
  | d, g0, .consImp _ k v rest => .cons g0 k [] .eq (wlayV c f d [] v) (wlayF c f d (nlInd c f d) rest)
  | d, g0, .ghost _ _ rest => wlayF c f d g0 rest
  | d, g0, .consHdr _ k _ o _ h body rest =>
    .consHdr g0 k (gapOf o) o (gapOf o) ⟨false, h.bytes⟩ (wlayV c f d [32] body) (wlayF c f d (nlInd c f d) rest)
  | d, g0, .paramVal _ isU name _ val _ rest =>
    .paramVal g0 isU name (nlInd c f d) ⟨false, val.bytes⟩ [] (wlayF c f d (nlInd c f d) rest)
  | d, g0, .paramObj _ isU name _ k _ o v inner _ rest =>
    .paramObj g0 isU name (nlInd c f d) ⟨false, k.bytes⟩ (gapOf o) o (wlayV c f d (gapOf o) v)
      (wlayF c f d (nlInd c f d) inner) (nlInd c f d) (wlayF c f d (nlInd c f d) rest)
  | _, g0, .paramHdr _ isU name g1 val g2 body rest => .paramHdr g0 isU name g1 val g2 body rest
def wlayVs (c : UInt8) (f : Nat) : Nat → Bool → FVals → FVals
  | _, _, .nil => .nil
  | d, nlt, .cons v rest => .cons (wlayV c f d (if nlt then nlInd c f d else [32]) v) (wlayVs c f d (closesV v) rest)
def wlayI (c : UInt8) (f : Nat) : Nat → Bool → MixedMode → FItems → FItems
  | _, _, _, .nil => .nil
  | d, nlt, mm, .scal _ x rest => .scal (igap c f d nlt mm) x (wlayI c f d false (mmScal mm) rest)
  | d, nlt, mm, .op _ o rest => .op (if mm = .disabled then [32] else []) o (wlayI c f d nlt (mmOp mm) rest)
  | d, nlt, mm, .cont v rest =>
    .cont (wlayV c f d (igap c f d nlt mm) v) (wlayI c f d (closesV v) (if closesV v then .disabled else mmScal mm) rest)
end

/-- the text of a value under the writer's layout, without the blanks in front -/
def vtxt (c : UInt8) (f d : Nat) (v : FVal) : Bytes := frenderV (wlayV c f d [] v)

theorem render_wlayV_gap (c : UInt8) (f : Nat) : ∀ (v : FVal) (d : Nat) (g : Bytes),
    frenderV (wlayV c f d g v) = g ++ vtxt c f d v
  | .scal _ x, d, g => by simp [vtxt, wlayV, frenderV]
  | .empty _ _, d, g => by simp [vtxt, wlayV, frenderV]
  | .obj .., d, g => by simp [vtxt, wlayV, frenderV]
  | .arrS .., d, g => by simp [vtxt, wlayV, frenderV]
  | .arrC .., d, g => by simp [vtxt, wlayV, frenderV]
  | .ghostIn _ _ _ v, d, g => by simpa [vtxt, wlayV] using render_wlayV_gap c f v d g
  | .mixed .., d, g => by simp [vtxt, wlayV, frenderV]
  | .arrSM .., d, g => by simp [vtxt, wlayV, frenderV]
  | .arrCM .., d, g => by simp [vtxt, wlayV, frenderV]

/-! ### the preamble with mixed mode -/

/-- the one situation in which the preamble leaves the separator out: an array element right behind
an operator token written in mixed mode -/
def keyedCase (s : State) : Bool :=
  (decide (s.state = .arrayValue) || decide (s.state = .secondUnknown)) && !s.needsLineTerminator &&
    decide (s.mixedMode = .keyed)

def pfxM (s : State) : Bytes := if keyedCase s then [] else pfx s
def preMM (s : State) : MixedMode := if keyedCase s then .started else s.mixedMode

theorem writePreamble_M (s : State) :
    writePreamble s = { s with out := s.out ++ pfxM s, needsLineTerminator := false, mixedMode := preMM s } := by
  obtain ⟨mode, depth, state, nlt, mixed, c, f, out⟩ := s
  cases state <;> cases nlt <;> cases mixed <;>
    simp [writePreamble, writeLineTerminator, writeIndent_eq, put, pfx, pfxM, preMM, keyedCase, indOf,
      WriteState.noDataYet, List.append_assoc]

theorem wr_M (s : State) (x : Bytes) :
    wr s x = { s with out := s.out ++ (pfxM s ++ x), state := nextOf s.state, needsLineTerminator := decide (nextOf s.state = .key), mixedMode := preMM s } := by
  have : writeRaw s x = .ok { s with out := s.out ++ (pfxM s ++ x), state := nextOf s.state, needsLineTerminator := decide (nextOf s.state = .key), mixedMode := preMM s } := by
    simp only [writeRaw, writePreamble_M s, writeEpilogue, put, next_eq_nextOf, List.append_assoc]
  have h2 := wr_eq s x
  rw [this] at h2
  exact (Except.ok.inj h2).symm

theorem arrayStart_M (s : State) :
    writeArrayStart s = { s with out := s.out ++ (pfxM s ++ [123]), depth := s.mode :: s.depth, needsLineTerminator := true, mode := .array, state := .arrayValueFirst, mixedMode := preMM s } := by
  simp [writeArrayStart, writeStart, writePreamble_M s, put, List.append_assoc]

theorem objectStart_M (s : State) :
    writeObjectStart s = { s with out := s.out ++ (pfxM s ++ [123]), depth := s.mode :: s.depth, needsLineTerminator := true, mode := .object, state := .firstKey, mixedMode := preMM s } := by
  simp [writeObjectStart, writeStart, writePreamble_M s, put, List.append_assoc]

theorem header_M (s : State) (h : Bytes) :
    writeHeader s h = { s with out := s.out ++ (pfxM s ++ (h ++ [32])), needsLineTerminator := false, state := .objectValue, mixedMode := preMM s } := by
  simp [writeHeader, writePreamble_M s, put, List.append_assoc]

theorem endT_data (s : State) (m : DepthMode) (rest : List DepthMode) (hd : s.depth = m :: rest)
    (hst : s.state.noDataYet = false) :
    endT s = { s with depth := rest, mode := m, state := modeState m, out := s.out ++ ([10] ++ (List.replicate (rest.length * s.indentFactor) s.indentChar ++ [125])), needsLineTerminator := true, mixedMode := .disabled } := by
  have := end_data s m rest hd hst
  rw [step_end] at this
  simp [endT, this]

theorem endT_empty (s : State) (m : DepthMode) (rest : List DepthMode) (hd : s.depth = m :: rest)
    (hst : s.state.noDataYet = true) :
    endT s = { s with depth := rest, mode := m, state := modeState m, out := s.out ++ [32, 125], needsLineTerminator := true, mixedMode := .disabled } := by
  have := end_empty s m rest hd hst
  rw [step_end] at this
  simp [endT, this]

theorem pfxM_of_not_keyed (s : State) (h : s.mixedMode ≠ .keyed) : pfxM s = pfx s := by
  simp [pfxM, keyedCase, h]
theorem preMM_of_not_keyed (s : State) (h : s.mixedMode ≠ .keyed) : preMM s = s.mixedMode := by
  simp [preMM, keyedCase, h]

theorem preMM_ne_keyed (s : State) (hk : s.mixedMode = .keyed → keyedCase s = true) : preMM s ≠ .keyed := by
  unfold preMM
  by_cases h : keyedCase s = true
  · simp [h]
  · simp only [h, Bool.false_eq_true, if_false]
    intro hm; exact h (hk hm)

theorem preMM_disabled (s : State) (h : s.mixedMode = .disabled) : preMM s = .disabled := by
  simp [preMM, keyedCase, h]

/-! ### the bytes -/

structure Q (s : State) (c : UInt8) (f : Nat) : Prop where
  ic : s.indentChar = c
  fac : s.indentFactor = f

theorem indOf_Q {s : State} {c : UInt8} {f : Nat} (h : Q s c f) : indOf s = ind c f s.depth.length := by
  simp [indOf, ind, h.ic, h.fac]

def exitStateV (v : FVal) (s : State) : WriteState := if closesV v then modeState s.mode else nextOf s.state
def exitNltV (v : FVal) (s : State) : Bool := if closesV v then true else decide (nextOf s.state = .key)
def exitMM (v : FVal) (s : State) : MixedMode := if closesV v then .disabled else preMM s

/-- after a field list: ready for the next key, or (a trailing scalar-valued parameter block) waiting for `=` -/
def PostF (s' : State) (openE : Bool) : Prop :=
  (s'.state = .key ∧ s'.needsLineTerminator = true) ∨
    (openE = true ∧ s'.state = .keyValueSeparator ∧ s'.needsLineTerminator = false)

theorem PostF_noData {s' : State} {b : Bool} (h : PostF s' b) : s'.state.noDataYet = false := by
  rcases h with ⟨h, _⟩ | ⟨_, h, _⟩ <;> rw [h] <;> rfl

/-- a field list without tokens (ghost objects only) writes nothing -/
theorem noTok (c : UInt8) (f d : Nat) (g : Bytes) : ∀ fs : FFields, fcntF fs = 0 →
    (∀ s, semF fs s = s) ∧ wlayF c f d g fs = .nil ∧ openEnd fs = false ∧ closesF fs = false
  | .nil, _ => ⟨fun _ => rfl, rfl, rfl, rfl⟩
  | .ghost _ _ rest, h => by
    obtain ⟨h1, h2, h3, h4⟩ := noTok c f d g rest (by simpa [fcntF] using h)
    exact ⟨fun s => by simp [semF, h1], by simp [wlayF, h2], by simp [openEnd, h3], by simp [closesF, h4]⟩
  | .cons .., h => by simp [fcntF] at h <;> omega
  | .consImp .., h => by simp [fcntF] at h <;> omega
  | .consHdr .., h => by simp [fcntF] at h <;> omega
  | .paramVal .., h => by simp [fcntF] at h
  | .paramObj .., h => by simp [fcntF] at h <;> omega
  | .paramHdr .., h => by simp [fcntF] at h <;> omega

theorem render_wlayF_g0 (c : UInt8) (f d : Nat) (g0 : Bytes) : ∀ fs : FFields, fcntF fs ≠ 0 →
    frenderF (wlayF c f d g0 fs) = g0 ++ frenderF (wlayF c f d [] fs)
  | .nil, h => by simp [fcntF] at h
  | .ghost _ _ rest, h => by
    simpa [wlayF] using render_wlayF_g0 c f d g0 rest (by simpa [fcntF] using h)
  | .cons .., _ => by simp [wlayF, frenderF]
  | .consImp .., _ => by simp [wlayF, frenderF]
  | .consHdr .., _ => by simp [wlayF, frenderF]
  | .paramVal .., _ => by simp [wlayF, frenderF]
  | .paramObj .., _ => by simp [wlayF, frenderF]
  | .paramHdr .., _ => by simp [wlayF, frenderF]

theorem opW_symbol (o : TextTape.Op) : (opW o).symbol = o.text := by cases o <;> rfl

theorem pfx_keyish (s : State) (c : UInt8) (f : Nat) (hq : Q s c f) (hst : s.state = .key ∨ s.state = .firstKey) :
    pfx s = (if s.needsLineTerminator then [10] else []) ++ ind c f s.depth.length := by
  rw [← indOf_Q hq]
  rcases hst with h | h <;> simp [pfx, h]

/-- key and operator of a field: afterwards the machine is ready for the value -/
theorem fhead (c : UInt8) (f : Nat) (k : Bytes) (o : TextTape.Op) (s : State) (hq : Q s c f)
    (hm : s.mixedMode ≠ .keyed) (hw : s.mixedMode = .disabled ∨ o = .eq)
    (hst : s.state = .key ∨ s.state = .firstKey) (hmode : s.mode = .object) :
    Q (opK o (wr s k)) c f ∧ (opK o (wr s k)).depth = s.depth ∧ (opK o (wr s k)).mode = .object ∧
      (opK o (wr s k)).needsLineTerminator = false ∧
      ((opK o (wr s k)).state = .keyValueSeparator ∨ (opK o (wr s k)).state = .objectValue) ∧
      (opK o (wr s k)).mixedMode = s.mixedMode ∧
      (opK o (wr s k)).out ++ pfxM (opK o (wr s k)) = s.out ++ (pfx s ++ (k ++ sepText o)) := by
  have hn1 : nextOf s.state = .keyValueSeparator := by
    rcases hst with h | h <;> rw [h] <;> decide
  have hs1 : wr s k = { s with out := s.out ++ (pfx s ++ k), state := .keyValueSeparator, needsLineTerminator := false } := by
    rw [wr_M, pfxM_of_not_keyed s hm, preMM_of_not_keyed s hm, hn1]; rfl
  by_cases ho : o = .eq
  · have h1 : opK o (wr s k) = wr s k := by simp [opK, ho]
    rw [h1, hs1]
    refine ⟨⟨hq.ic, hq.fac⟩, rfl, hmode, rfl, Or.inl rfl, rfl, ?_⟩
    rw [pfxM_of_not_keyed _ (by exact hm)]
    simp [pfx, sepText, ho, List.append_assoc]
  · have hdis : s.mixedMode = .disabled := by
      rcases hw with h | h
      · exact h
      · exact absurd h ho
    have h1 : opK o (wr s k) = writeOperator (wr s k) (opW o) := by simp [opK, ho]
    have hto : opTT (opW o) = o := by cases o <;> rfl
    rw [h1, hs1, writeOperator_kvs _ _ (by exact hdis), hto]
    refine ⟨⟨hq.ic, hq.fac⟩, rfl, rfl, rfl, Or.inr rfl, rfl, ?_⟩
    rw [pfxM_of_not_keyed _ (by simp [hdis])]
    simp [pfx, List.append_assoc]

def VOut (c : UInt8) (f : Nat) (v : FVal) (s s' : State) : Prop :=
  s'.out = s.out ++ (pfxM s ++ vtxt c f s.depth.length v) ∧ s'.depth = s.depth ∧ s'.mode = s.mode ∧ Q s' c f ∧
    s'.state = exitStateV v s ∧ s'.needsLineTerminator = exitNltV v s ∧ s'.mixedMode = exitMM v s

def FOut (c : UInt8) (f : Nat) (fs : FFields) (s s' : State) : Prop :=
  s'.out = s.out ++ frenderF (wlayF c f s.depth.length (pfx s) fs) ∧ s'.depth = s.depth ∧ s'.mode = .object ∧
    Q s' c f ∧ PostF s' (openEnd fs) ∧ s'.mixedMode = (if closesF fs then .disabled else s.mixedMode)

def FirstOut (c : UInt8) (f : Nat) (x : FFirst) (s s' : State) : Prop :=
  s'.out = s.out ++ (pfx s ++ frenderFirst (wlayFirst c f s.depth.length x)) ∧ s'.depth = s.depth ∧
    s'.mode = .object ∧ Q s' c f ∧ PostF s' (openEndFirst x) ∧
    s'.mixedMode = (if closesFirst x then .disabled else s.mixedMode)

def VsOut (c : UInt8) (f : Nat) (vs : FVals) (s s' : State) : Prop :=
  s'.out = s.out ++ frenderVs (wlayVs c f s.depth.length s.needsLineTerminator vs) ∧ s'.depth = s.depth ∧
    s'.mode = .array ∧ Q s' c f ∧ s'.state = .arrayValue ∧ s'.needsLineTerminator = lastNlt s.needsLineTerminator vs ∧
    s'.mixedMode = (if closesVs vs then .disabled else s.mixedMode)

def IOut (c : UInt8) (f : Nat) (is : FItems) (s s' : State) : Prop :=
  s'.out = s.out ++ frenderI (wlayI c f s.depth.length s.needsLineTerminator s.mixedMode is) ∧ s'.depth = s.depth ∧
    s'.mode = .array ∧ Q s' c f ∧ s'.state = .arrayValue

theorem exit_key' (v : FVal) (sV : State) (hm : sV.mode = .object)
    (hst : sV.state = .keyValueSeparator ∨ sV.state = .objectValue) :
    exitStateV v sV = .key ∧ exitNltV v sV = true := by
  unfold exitStateV exitNltV
  cases closesV v
  · rcases hst with h | h <;> simp [h, nextOf_kvs, nextOf_objectValue]
  · simp [hm, modeState]

theorem pfx_key_nl (s : State) (c : UInt8) (f : Nat) (hq : Q s c f) (hst : s.state = .key)
    (hn : s.needsLineTerminator = true) : pfx s = nlInd c f s.depth.length := by
  rw [pfx_keyish s c f hq (Or.inl hst), hn]; rfl

/-- the fields behind a field: the machine is ready for the next key, or (`b`) it waits for `=` and
no field with tokens follows -/
theorem chainF (c : UInt8) (f : Nat) (rest : FFields) (s s1 : State) (H : Bytes) (M1 : MixedMode) (b : Bool)
    (hout : s1.out = s.out ++ H) (hd : s1.depth = s.depth) (hmode : s1.mode = .object) (hq : Q s1 c f)
    (hpost : PostF s1 b) (hb : b = true → fcntF rest = 0) (hmm : s1.mixedMode = M1)
    (ih : fcntF rest ≠ 0 → s1.state = .key → FOut c f rest s1 (semF rest s1)) :
    (semF rest s1).out = s.out ++ (H ++ frenderF (wlayF c f s.depth.length (nlInd c f s.depth.length) rest)) ∧
      (semF rest s1).depth = s.depth ∧ (semF rest s1).mode = .object ∧ Q (semF rest s1) c f ∧
      PostF (semF rest s1) (if fcntF rest = 0 then b else openEnd rest) ∧
      (semF rest s1).mixedMode = (if closesF rest then .disabled else M1) := by
  by_cases h0 : fcntF rest = 0
  · obtain ⟨h1, h2, h3, h4⟩ := noTok c f s.depth.length (nlInd c f s.depth.length) rest h0
    rw [h1, h2, h4]
    exact ⟨by simp [frenderF, hout], hd, hmode, hq, by simpa [h0] using hpost, by simp [hmm]⟩
  · have hkn : s1.state = .key ∧ s1.needsLineTerminator = true := by
      rcases hpost with h | ⟨hbt, _, _⟩
      · exact h
      · exact absurd (hb hbt) h0
    obtain ⟨i1, i2, i3, i4, i5, i6⟩ := ih h0 hkn.1
    rw [pfx_key_nl s1 c f hq hkn.1 hkn.2, hd] at i1
    exact ⟨by rw [i1, hout, List.append_assoc], by rw [i2, hd], i3, i4, by simpa [h0] using i5, by rw [i6, hmm]⟩

theorem openEnd_ite (rest : FFields) : (if fcntF rest = 0 then false else openEnd rest) = openEnd rest := by
  by_cases h0 : fcntF rest = 0
  · simp [h0, (noTok 0 0 0 [] rest h0).2.2.1]
  · simp [h0]

theorem paramOpening_eq (isU : Bool) (name : Bytes) :
    paramOpening isU ++ name ++ [93, 10] = TextTape.paramOpen isU name ++ [10] := by
  cases isU <;> simp [paramOpening, TextTape.paramOpen]

theorem paramOpenT_M (isU : Bool) (name : Bytes) (s : State) (hm : s.mixedMode ≠ .keyed) :
    paramOpenT isU name s = { s with out := s.out ++ (pfx s ++ (TextTape.paramOpen isU name ++ [10])), needsLineTerminator := false } := by
  unfold paramOpenT
  rw [writePreamble_M, pfxM_of_not_keyed _ hm, preMM_of_not_keyed _ hm, paramOpening_eq]
  simp [put, List.append_assoc]

theorem closeP_eq (s : State) (c : UInt8) (f : Nat) (hq : Q s c f) :
    closeP s = { s with out := s.out ++ (nlInd c f s.depth.length ++ [93]) } := by
  simp [closeP, writeIndent_eq, put, nlInd, ind, hq.ic, hq.fac, List.append_assoc]

theorem opK_eq' (s : State) : opK .eq s = s := by simp [opK]

theorem PostF_false {s' : State} (h1 : s'.state = .key) (h2 : s'.needsLineTerminator = true) : PostF s' false :=
  Or.inl ⟨h1, h2⟩

theorem mm_thread (w : Bool) (b : Bool) (m0 : MixedMode) (hw : m0 = .disabled ∨ w = true) :
    (if b then MixedMode.disabled else m0) = .disabled ∨ (w && !b) = true := by
  cases b
  · simpa using hw
  · left; rfl

theorem ite_or (a b : Bool) (m : MixedMode) :
    (if b = true then MixedMode.disabled else if a = true then MixedMode.disabled else m) =
      if (a || b) = true then MixedMode.disabled else m := by
  cases a <;> cases b <;> rfl

theorem ite_or3 (a b d : Bool) (m : MixedMode) :
    (if d = true then MixedMode.disabled else if b = true then MixedMode.disabled else
      if a = true then MixedMode.disabled else m) =
      if (a || (b || d)) = true then MixedMode.disabled else m := by
  cases a <;> cases b <;> cases d <;> rfl

theorem mm_thread2 (w a b : Bool) (m0 : MixedMode) (hw : m0 = .disabled ∨ w = true) :
    (if b then MixedMode.disabled else if a then MixedMode.disabled else m0) = .disabled ∨
      (w && !(a || b)) = true := by
  cases a <;> cases b <;> first | simpa using hw | (left; rfl)

theorem mm_ne_keyed2 (a b : Bool) (m0 : MixedMode) (h : m0 ≠ .keyed) :
    (if b then MixedMode.disabled else if a then MixedMode.disabled else m0) ≠ .keyed := by
  cases a <;> cases b <;> simp [h]

theorem ite_or' (a b : Bool) (m : MixedMode) :
    (if b = true then MixedMode.disabled else if a = true then MixedMode.disabled else m) =
      if (a || b) = true then MixedMode.disabled else m := ite_or a b m

/-- the separator in front of an array element -/
theorem pfxM_igap (s : State) (c : UInt8) (f : Nat) (hq : Q s c f) (hst : s.state = .arrayValue)
    (hk : s.mixedMode ≠ .disabled → s.needsLineTerminator = false) :
    pfxM s = igap c f s.depth.length s.needsLineTerminator s.mixedMode ∧ preMM s = mmScal s.mixedMode ∧
      (s.mixedMode = .keyed → keyedCase s = true) := by
  have hi := indOf_Q hq
  obtain ⟨mode, depth, state, nlt, mixed, ic, fac, out⟩ := s
  simp only at hst hk hi
  subst hst
  cases mixed <;> cases nlt <;> simp_all [pfxM, preMM, keyedCase, pfx, igap, mmScal, nlInd]

theorem mm_ne_keyed (b : Bool) (m0 : MixedMode) (h : m0 ≠ .keyed) :
    (if b then MixedMode.disabled else m0) ≠ .keyed := by
  cases b <;> simp [h]

/-- `{`, then the first scalar element on its own indented line -/
theorem arr_first (c : UInt8) (f : Nat) (s : State) (x : Bytes) (hq : Q s c f)
    (hk : s.mixedMode = .keyed → keyedCase s = true) :
    Q (wr (writeArrayStart s) x) c f ∧ (wr (writeArrayStart s) x).depth = s.mode :: s.depth ∧
      (wr (writeArrayStart s) x).mode = .array ∧ (wr (writeArrayStart s) x).state = .arrayValue ∧
      (wr (writeArrayStart s) x).needsLineTerminator = false ∧ (wr (writeArrayStart s) x).mixedMode = preMM s ∧
      (wr (writeArrayStart s) x).out = s.out ++ (pfxM s ++ (123 :: (nlInd c f (s.depth.length + 1) ++ x))) := by
  have hnk := preMM_ne_keyed s hk
  have hs1 := arrayStart_M s
  have hmm1 : (writeArrayStart s).mixedMode = preMM s := by rw [hs1]
  have hm1 : (writeArrayStart s).mixedMode ≠ .keyed := by rw [hmm1]; exact hnk
  have hq1 : Q (writeArrayStart s) c f := by rw [hs1]; exact ⟨hq.ic, hq.fac⟩
  have hi := indOf_Q hq1
  have hs2 := wr_M (writeArrayStart s) x
  rw [pfxM_of_not_keyed _ hm1, preMM_of_not_keyed _ hm1] at hs2
  rw [hs2, hs1]
  rw [hs1] at hi
  refine ⟨⟨hq.ic, hq.fac⟩, rfl, rfl, by simp [nextOf_arrayValueFirst], by simp [nextOf_arrayValueFirst], rfl, ?_⟩
  simp [pfx, nlInd, List.append_assoc] at hi ⊢
  rw [hi]

/-- `start_mixed_mode`, the scalar in front of the first operator, the operator: afterwards the
machine is in the state the array part is written from -/
theorem mixed_head_bytes (c : UInt8) (f : Nat) (s3 : State) (m0 : Bytes) (o : TextTape.Op) (hq : Q s3 c f)
    (hst : s3.state = .arrayValue) (hmode : s3.mode = .array) (hm : s3.mixedMode ≠ .keyed) :
    Q (opArm o (wr (startMixedMode s3) m0)) c f ∧ (opArm o (wr (startMixedMode s3) m0)).depth = s3.depth ∧
      (opArm o (wr (startMixedMode s3) m0)).mode = .array ∧ (opArm o (wr (startMixedMode s3) m0)).state = .arrayValue ∧
      (opArm o (wr (startMixedMode s3) m0)).needsLineTerminator = false ∧
      (opArm o (wr (startMixedMode s3) m0)).mixedMode = .keyed ∧
      (opArm o (wr (startMixedMode s3) m0)).out =
        s3.out ++ (igap c f s3.depth.length s3.needsLineTerminator .started ++ (m0 ++ o.text)) := by
  have hi := indOf_Q hq
  have h4 : startMixedMode s3 = { s3 with mode := .array, mixedMode := .started } := rfl
  have h5 := wr_M (startMixedMode s3) m0
  rw [pfxM_of_not_keyed _ (by rw [h4]; simp), preMM_of_not_keyed _ (by rw [h4]; simp)] at h5
  unfold opArm
  rw [h5, h4, opW_symbol]
  refine ⟨⟨hq.ic, hq.fac⟩, rfl, rfl, by simp [put, hst, nextOf_arrayValue], by simp [put, hst, nextOf_arrayValue],
    by simp [put], ?_⟩
  cases hn : s3.needsLineTerminator <;> simp [put, pfx, hst, hn, igap, nlInd, indOf, ind, hq.ic, hq.fac, List.append_assoc]

mutual
theorem BV (c : UInt8) (f : Nat) : ∀ (v : FVal) (w : Bool) (s : State), Q s c f →
    (s.mixedMode = .disabled ∨ w = true) → (s.mixedMode = .keyed → keyedCase s = true) → FPlainV w v →
    VOut c f v s (semV v s)
  | .scal g x, w, s, hq, hw, hk, hp => by
    simp only [semV]
    rw [wr_M]
    exact ⟨by simp [vtxt, wlayV, frenderV], rfl, rfl, ⟨hq.ic, hq.fac⟩, by simp [exitStateV, closesV],
      by simp [exitNltV, closesV], by simp [exitMM, closesV]⟩
  | .empty g gc, w, s, hq, hw, hk, hp => by
    simp only [semV]
    rw [arrayStart_M, endT_empty _ s.mode s.depth rfl rfl]
    exact ⟨by simp [vtxt, wlayV, frenderV, List.append_assoc], rfl, rfl, ⟨hq.ic, hq.fac⟩, by simp [exitStateV, closesV],
      by simp [exitNltV, closesV], by simp [exitMM, closesV]⟩
  | .obj g g0 first rest gc, w, s, hq, hw, hk, hp => by
    simp only [FPlainV] at hp
    obtain ⟨hpf, hpr, hoe⟩ := hp
    have hnk := preMM_ne_keyed s hk
    have hwd : preMM s = .disabled ∨ w = true := by
      rcases hw with h | h
      · exact Or.inl (preMM_disabled s h)
      · exact Or.inr h
    have hs1 := objectStart_M s
    have hq1 : Q (writeObjectStart s) c f := by rw [hs1]; exact ⟨hq.ic, hq.fac⟩
    have hd1 : (writeObjectStart s).depth = s.mode :: s.depth := by rw [hs1]
    have hdl : (writeObjectStart s).depth.length = s.depth.length + 1 := by rw [hd1]; rfl
    have hmm1 : (writeObjectStart s).mixedMode = preMM s := by rw [hs1]
    have hp1 : pfx (writeObjectStart s) = nlInd c f (s.depth.length + 1) := by
      rw [pfx_keyish _ c f hq1 (Or.inr (by rw [hs1])), hdl, hs1]; rfl
    obtain ⟨f1, f2, f3, f4, f5, f6⟩ := BFirst c f first w (writeObjectStart s) hq1 (by rw [hmm1]; exact hnk)
      (by rw [hmm1]; exact hwd) (by rw [hs1]) (by rw [hs1]) hpf
    have hch := chainF c f rest (writeObjectStart s) (semFirst first (writeObjectStart s)) _ _ (openEndFirst first)
      f1 f2 f3 f4 f5 hoe f6
      (fun h0 hk' => BF c f rest (w && !closesFirst first) _ f4 (by rw [f6, hmm1]; exact mm_ne_keyed _ _ hnk)
        (by rw [f6, hmm1]; exact mm_thread w _ _ hwd) (Or.inl hk') f3 hpr h0)
    obtain ⟨c1, c2, c3, c4, c5, c6⟩ := hch
    have hend := endT_data (semF rest (semFirst first (writeObjectStart s))) s.mode s.depth (by rw [c2, hd1])
      (PostF_noData c5)
    simp only [semV]
    rw [hend]
    refine ⟨?_, rfl, rfl, ⟨c4.ic, c4.fac⟩, by simp [exitStateV, closesV], by simp [exitNltV, closesV],
      by simp [exitMM, closesV]⟩
    show (semF rest (semFirst first (writeObjectStart s))).out ++ _ = _
    rw [c4.ic, c4.fac, c1, hp1, hdl, hs1]
    simp [vtxt, wlayV, frenderV, nlInd, ind, List.append_assoc]
  | .arrS g g0 s0 rest gc, w, s, hq, hw, hk, hp => by
    simp only [FPlainV] at hp
    have hnk := preMM_ne_keyed s hk
    have hwd : preMM s = .disabled ∨ w = true := by
      rcases hw with h | h
      · exact Or.inl (preMM_disabled s h)
      · exact Or.inr h
    obtain ⟨hq2, hd2, hmo2, hst2, hn2, hmm2, hout2⟩ := arr_first c f s s0.text hq hk
    obtain ⟨r1, r2, r3, r4, r5, r6, r7⟩ := BVs c f rest w (wr (writeArrayStart s) s0.text) hq2
      (by rw [hmm2]; exact hnk) (by rw [hmm2]; exact hwd) hmo2 hst2 hp
    have hend := endT_data (semVs rest (wr (writeArrayStart s) s0.text)) s.mode s.depth (by rw [r2, hd2])
      (by rw [r5]; rfl)
    simp only [semV]
    rw [hend]
    refine ⟨?_, rfl, rfl, ⟨r4.ic, r4.fac⟩, by simp [exitStateV, closesV], by simp [exitNltV, closesV],
      by simp [exitMM, closesV]⟩
    show (semVs rest (wr (writeArrayStart s) s0.text)).out ++ _ = _
    have hdl : (wr (writeArrayStart s) s0.text).depth.length = s.depth.length + 1 := by rw [hd2]; rfl
    rw [r4.ic, r4.fac, r1, hn2, hdl, hout2]
    simp [vtxt, wlayV, frenderV, nlInd, ind, List.append_assoc]
  | .arrC g first rest gc, w, s, hq, hw, hk, hp => by
    simp only [FPlainV] at hp
    obtain ⟨_, hpf, hpr⟩ := hp
    have hnk := preMM_ne_keyed s hk
    have hwd : preMM s = .disabled ∨ w = true := by
      rcases hw with h | h
      · exact Or.inl (preMM_disabled s h)
      · exact Or.inr h
    have hs1 := arrayStart_M s
    have hq1 : Q (writeArrayStart s) c f := by rw [hs1]; exact ⟨hq.ic, hq.fac⟩
    have hd1 : (writeArrayStart s).depth = s.mode :: s.depth := by rw [hs1]
    have hdl : (writeArrayStart s).depth.length = s.depth.length + 1 := by rw [hd1]; rfl
    have hmm1 : (writeArrayStart s).mixedMode = preMM s := by rw [hs1]
    have hp1 : pfxM (writeArrayStart s) = nlInd c f (s.depth.length + 1) := by
      have hi := indOf_Q hq1
      rw [pfxM_of_not_keyed _ (by rw [hmm1]; exact hnk), hs1]
      rw [hs1] at hi
      simp [pfx, nlInd] at hi ⊢
      exact hi
    obtain ⟨h2o, h2d, h2m, h2q, h2s, h2n, h2mm⟩ := BV c f first w (writeArrayStart s) hq1 (by rw [hmm1]; exact hwd)
      (by rw [hmm1]; intro h; exact absurd h hnk) hpf
    have hst2 : (semV first (writeArrayStart s)).state = .arrayValue := by
      rw [h2s]; unfold exitStateV
      cases closesV first <;> simp [hs1, modeState, nextOf_arrayValueFirst]
    have hn2 : (semV first (writeArrayStart s)).needsLineTerminator = closesV first := by
      rw [h2n]; unfold exitNltV
      cases closesV first <;> simp [hs1, nextOf_arrayValueFirst]
    have hmm2 : (semV first (writeArrayStart s)).mixedMode = (if closesV first then .disabled else preMM s) := by
      rw [h2mm, exitMM, preMM_of_not_keyed _ (by rw [hmm1]; exact hnk), hmm1]
    obtain ⟨r1, r2, r3, r4, r5, r6, r7⟩ := BVs c f rest (w && !closesV first) (semV first (writeArrayStart s)) h2q
      (by rw [hmm2]; exact mm_ne_keyed _ _ hnk) (by rw [hmm2]; exact mm_thread w _ _ hwd)
      (by rw [h2m, hs1]) hst2 hpr
    have hend := endT_data (semVs rest (semV first (writeArrayStart s))) s.mode s.depth (by rw [r2, h2d, hd1])
      (by rw [r5]; rfl)
    simp only [semV]
    rw [hend]
    refine ⟨?_, rfl, rfl, ⟨r4.ic, r4.fac⟩, by simp [exitStateV, closesV], by simp [exitNltV, closesV],
      by simp [exitMM, closesV]⟩
    show (semVs rest (semV first (writeArrayStart s))).out ++ _ = _
    have hv : vtxt c f s.depth.length (.arrC g first rest gc) = 123 :: (nlInd c f (s.depth.length + 1) ++
        (vtxt c f (s.depth.length + 1) first ++ (frenderVs (wlayVs c f (s.depth.length + 1) (closesV first) rest) ++
          (nlInd c f s.depth.length ++ [125])))) := by
      show frenderV (wlayV c f _ [] (.arrC g first rest gc)) = _
      simp only [wlayV, frenderV, render_wlayV_gap]
      simp [List.append_assoc]
    rw [r4.ic, r4.fac, r1, hn2, h2d, hdl, h2o, hp1, hdl, hs1, hv]
    simp [nlInd, ind, List.append_assoc]
  | .ghostIn g b1 b2 v, w, s, hq, hw, hk, hp => by
    have h := BV c f v w s hq hw hk (by simpa [FPlainV] using hp)
    have e1 : closesV (.ghostIn g b1 b2 v) = closesV v := by simp [closesV]
    unfold VOut at h ⊢
    unfold exitStateV exitNltV exitMM vtxt at h ⊢
    simp only [semV, wlayV, e1]
    exact h
  | .mixed .., w, s, hq, hw, hk, hp => by simp [FPlainV] at hp
  | .arrSM g g0 s0 pre gm m0 go o items gc, w, s, hq, hw, hk, hp => by
    simp only [FPlainV] at hp
    obtain ⟨hpp, _, _, hpi⟩ := hp
    have hnk := preMM_ne_keyed s hk
    have hwd : preMM s = .disabled ∨ w = true := by
      rcases hw with h | h
      · exact Or.inl (preMM_disabled s h)
      · exact Or.inr h
    obtain ⟨hq2, hd2, hmo2, hst2, hn2, hmm2, hout2⟩ := arr_first c f s s0.text hq hk
    obtain ⟨r1, r2, r3, r4, r5, r6, r7⟩ := BVs c f pre w (wr (writeArrayStart s) s0.text) hq2
      (by rw [hmm2]; exact hnk) (by rw [hmm2]; exact hwd) hmo2 hst2 hpp
    obtain ⟨t1, t2, t3, t4, t5, t6, t7⟩ := mixed_head_bytes c f (semVs pre (wr (writeArrayStart s) s0.text)) m0.text o r4 r5 r3
      (by rw [r7, hmm2]; exact mm_ne_keyed _ _ hnk)
    obtain ⟨i1, i2, i3, i4, i5⟩ := BI c f items _ t1 (by intro _; exact t5) t3 t4 (by rw [t6]; exact hpi)
    have hend := endT_data (semI items (opArm o (wr (startMixedMode (semVs pre (wr (writeArrayStart s) s0.text))) m0.text)))
      s.mode s.depth (by rw [i2, t2, r2, hd2]) (by rw [i5]; rfl)
    simp only [semV]
    rw [hend]
    refine ⟨?_, rfl, rfl, ⟨i4.ic, i4.fac⟩, by simp [exitStateV, closesV], by simp [exitNltV, closesV],
      by simp [exitMM, closesV]⟩
    show (semI items _).out ++ _ = _
    have hdl : (wr (writeArrayStart s) s0.text).depth.length = s.depth.length + 1 := by rw [hd2]; rfl
    have hdl3 : (semVs pre (wr (writeArrayStart s) s0.text)).depth.length = s.depth.length + 1 := by rw [r2, hdl]
    rw [i4.ic, i4.fac, i1, t5, t6, t2, hdl3, t7, hdl3, r6, hn2, r1, hn2, hdl, hout2]
    simp [vtxt, wlayV, frenderV, nlInd, ind, List.append_assoc]
  | .arrCM g first pre gm m0 go o items gc, w, s, hq, hw, hk, hp => by
    simp only [FPlainV] at hp
    obtain ⟨_, hpf, hpp, _, hpi⟩ := hp
    have hnk := preMM_ne_keyed s hk
    have hwd : preMM s = .disabled ∨ w = true := by
      rcases hw with h | h
      · exact Or.inl (preMM_disabled s h)
      · exact Or.inr h
    have hs1 := arrayStart_M s
    have hq1 : Q (writeArrayStart s) c f := by rw [hs1]; exact ⟨hq.ic, hq.fac⟩
    have hd1 : (writeArrayStart s).depth = s.mode :: s.depth := by rw [hs1]
    have hdl : (writeArrayStart s).depth.length = s.depth.length + 1 := by rw [hd1]; rfl
    have hmm1 : (writeArrayStart s).mixedMode = preMM s := by rw [hs1]
    have hp1 : pfxM (writeArrayStart s) = nlInd c f (s.depth.length + 1) := by
      have hi := indOf_Q hq1
      rw [pfxM_of_not_keyed _ (by rw [hmm1]; exact hnk), hs1]
      rw [hs1] at hi
      simp [pfx, nlInd] at hi ⊢
      exact hi
    obtain ⟨h2o, h2d, h2m, h2q, h2s, h2n, h2mm⟩ := BV c f first w (writeArrayStart s) hq1 (by rw [hmm1]; exact hwd)
      (by rw [hmm1]; intro h; exact absurd h hnk) hpf
    have hst2 : (semV first (writeArrayStart s)).state = .arrayValue := by
      rw [h2s]; unfold exitStateV
      cases closesV first <;> simp [hs1, modeState, nextOf_arrayValueFirst]
    have hn2 : (semV first (writeArrayStart s)).needsLineTerminator = closesV first := by
      rw [h2n]; unfold exitNltV
      cases closesV first <;> simp [hs1, nextOf_arrayValueFirst]
    have hmm2 : (semV first (writeArrayStart s)).mixedMode = (if closesV first then .disabled else preMM s) := by
      rw [h2mm, exitMM, preMM_of_not_keyed _ (by rw [hmm1]; exact hnk), hmm1]
    obtain ⟨r1, r2, r3, r4, r5, r6, r7⟩ := BVs c f pre (w && !closesV first) (semV first (writeArrayStart s)) h2q
      (by rw [hmm2]; exact mm_ne_keyed _ _ hnk) (by rw [hmm2]; exact mm_thread w _ _ hwd)
      (by rw [h2m, hs1]) hst2 hpp
    obtain ⟨t1, t2, t3, t4, t5, t6, t7⟩ := mixed_head_bytes c f (semVs pre (semV first (writeArrayStart s))) m0.text o r4 r5 r3
      (by rw [r7, hmm2]; exact mm_ne_keyed2 _ _ _ hnk)
    obtain ⟨i1, i2, i3, i4, i5⟩ := BI c f items _ t1 (by intro _; exact t5) t3 t4 (by rw [t6]; exact hpi)
    have hend := endT_data (semI items (opArm o (wr (startMixedMode (semVs pre (semV first (writeArrayStart s)))) m0.text)))
      s.mode s.depth (by rw [i2, t2, r2, h2d, hd1]) (by rw [i5]; rfl)
    simp only [semV]
    rw [hend]
    refine ⟨?_, rfl, rfl, ⟨i4.ic, i4.fac⟩, by simp [exitStateV, closesV], by simp [exitNltV, closesV],
      by simp [exitMM, closesV]⟩
    show (semI items _).out ++ _ = _
    have hdl3 : (semVs pre (semV first (writeArrayStart s))).depth.length = s.depth.length + 1 := by rw [r2, h2d, hdl]
    have hv : vtxt c f s.depth.length (.arrCM g first pre gm m0 go o items gc) = 123 :: (nlInd c f (s.depth.length + 1) ++
        (vtxt c f (s.depth.length + 1) first ++ (frenderVs (wlayVs c f (s.depth.length + 1) (closesV first) pre) ++
          (igap c f (s.depth.length + 1) (lastNlt (closesV first) pre) .started ++ (m0.text ++ (o.text ++
            (frenderI (wlayI c f (s.depth.length + 1) false .keyed items) ++ (nlInd c f s.depth.length ++ [125])))))))) := by
      show frenderV (wlayV c f _ [] (.arrCM g first pre gm m0 go o items gc)) = _
      simp only [wlayV, frenderV, render_wlayV_gap]
      simp [List.append_assoc]
    rw [i4.ic, i4.fac, i1, t5, t6, t2, hdl3, t7, hdl3, r6, hn2, r1, hn2, h2d, hdl, h2o, hp1, hdl, hs1, hv]
    simp [nlInd, ind, List.append_assoc]
theorem BFirst (c : UInt8) (f : Nat) : ∀ (x : FFirst) (w : Bool) (s : State), Q s c f →
    s.mixedMode ≠ .keyed → (s.mixedMode = .disabled ∨ w = true) → s.state = .firstKey → s.mode = .object →
    FPlainFirst w x → FirstOut c f x s (semFirst x s)
  | .kv k g1 o v, w, s, hq, hm, hw, hst, hmode, hp => by
    simp only [FPlainFirst] at hp
    obtain ⟨hwo, hpv⟩ := hp
    obtain ⟨hq1, hd1, hmo1, hn1, hst1, hmm1, hout1⟩ :=
      fhead c f k.text o s hq hm (hw.imp id (fun h => hwo h)) (Or.inr hst) hmode
    obtain ⟨h2o, h2d, h2m, h2q, h2s, h2n, h2mm⟩ := BV c f v w (opK o (wr s k.text)) hq1 (by rw [hmm1]; exact hw)
      (by rw [hmm1]; intro h; exact absurd h hm) hpv
    obtain ⟨hek, hen⟩ := exit_key' v (opK o (wr s k.text)) hmo1 hst1
    refine ⟨?_, by simp only [semFirst]; rw [h2d, hd1], by simp only [semFirst]; rw [h2m, hmo1], h2q,
      Or.inl ⟨by simp only [semFirst]; rw [h2s, hek], by simp only [semFirst]; rw [h2n, hen]⟩, ?_⟩
    · simp only [semFirst, wlayFirst, frenderFirst, render_wlayV_gap]
      rw [h2o, ← List.append_assoc, hout1, hd1]
      have := WriterParse.sepText_split o (vtxt c f s.depth.length v)
      simp only [List.append_assoc] at this ⊢
      rw [this]
    · simp only [semFirst, closesFirst]
      rw [h2mm, exitMM, preMM_of_not_keyed _ (by rw [hmm1]; exact hm), hmm1]
      rfl
  | .flds fs, w, s, hq, hm, hw, hst, hmode, hp => by
    simp only [FPlainFirst] at hp
    obtain ⟨h0, hpf⟩ := hp
    obtain ⟨b1, b2, b3, b4, b5, b6⟩ := BF c f fs w s hq hm hw (Or.inr hst) hmode hpf h0
    refine ⟨?_, b2, b3, b4, b5, b6⟩
    simp only [semFirst, wlayFirst, frenderFirst]
    rw [b1, render_wlayF_g0 c f _ _ fs h0]
theorem BF (c : UInt8) (f : Nat) : ∀ (fs : FFields) (w : Bool) (s : State), Q s c f →
    s.mixedMode ≠ .keyed → (s.mixedMode = .disabled ∨ w = true) → (s.state = .key ∨ s.state = .firstKey) →
    s.mode = .object → FPlainF w fs → fcntF fs ≠ 0 → FOut c f fs s (semF fs s)
  | .nil, w, s, hq, hm, hw, hst, hmode, hp, h0 => by simp [fcntF] at h0
  | .cons g0 k g1 o v rest, w, s, hq, hm, hw, hst, hmode, hp, _ => by
    simp only [FPlainF] at hp
    obtain ⟨hwo, hpv, hpr⟩ := hp
    obtain ⟨hq1, hd1, hmo1, hn1, hst1, hmm1, hout1⟩ :=
      fhead c f k.text o s hq hm (hw.imp id (fun h => hwo h)) hst hmode
    obtain ⟨h2o, h2d, h2m, h2q, h2s, h2n, h2mm⟩ := BV c f v w (opK o (wr s k.text)) hq1 (by rw [hmm1]; exact hw)
      (by rw [hmm1]; intro h; exact absurd h hm) hpv
    obtain ⟨hek, hen⟩ := exit_key' v (opK o (wr s k.text)) hmo1 hst1
    have hmmV : (semV v (opK o (wr s k.text))).mixedMode = (if closesV v then .disabled else s.mixedMode) := by
      rw [h2mm, exitMM, preMM_of_not_keyed _ (by rw [hmm1]; exact hm), hmm1]
    have hch := chainF c f rest s (semV v (opK o (wr s k.text)))
      (pfx s ++ (k.text ++ (sepText o ++ vtxt c f s.depth.length v))) _ false
      (by rw [h2o, ← List.append_assoc, hout1, hd1]; simp [List.append_assoc]) (by rw [h2d, hd1]) (by rw [h2m, hmo1]) h2q
      (PostF_false (by rw [h2s, hek]) (by rw [h2n, hen])) (by simp) hmmV
      (fun h0 hk => BF c f rest (w && !closesV v) _ h2q (by rw [hmmV]; exact mm_ne_keyed _ _ hm)
        (by rw [hmmV]; exact mm_thread w _ _ hw) (Or.inl hk) (by rw [h2m, hmo1]) hpr h0)
    rw [openEnd_ite] at hch
    obtain ⟨c1, c2, c3, c4, c5, c6⟩ := hch
    refine ⟨?_, by simpa [semF] using c2, by simpa [semF] using c3, by simpa [semF] using c4,
      by simpa [semF, openEnd] using c5, ?_⟩
    · simp only [semF, wlayF, frenderF, render_wlayV_gap]
      rw [c1, WriterParse.sepText_split]
      simp [List.append_assoc]
    · simp only [semF, closesF]
      rw [c6]
      exact ite_or _ _ _
  | .consImp g0 k v rest, w, s, hq, hm, hw, hst, hmode, hp, _ => by
    simp only [FPlainF] at hp
    obtain ⟨hpv, hpr⟩ := hp
    obtain ⟨hq1, hd1, hmo1, hn1, hst1, hmm1, hout1⟩ :=
      fhead c f k.text .eq s hq hm (Or.inr rfl) hst hmode
    rw [opK_eq'] at hq1 hd1 hmo1 hn1 hst1 hmm1 hout1
    obtain ⟨h2o, h2d, h2m, h2q, h2s, h2n, h2mm⟩ := BV c f v w (wr s k.text) hq1 (by rw [hmm1]; exact hw)
      (by rw [hmm1]; intro h; exact absurd h hm) hpv
    obtain ⟨hek, hen⟩ := exit_key' v (wr s k.text) hmo1 hst1
    have hmmV : (semV v (wr s k.text)).mixedMode = (if closesV v then .disabled else s.mixedMode) := by
      rw [h2mm, exitMM, preMM_of_not_keyed _ (by rw [hmm1]; exact hm), hmm1]
    have hch := chainF c f rest s (semV v (wr s k.text))
      (pfx s ++ (k.text ++ (sepText .eq ++ vtxt c f s.depth.length v))) _ false
      (by rw [h2o, ← List.append_assoc, hout1, hd1]; simp [List.append_assoc]) (by rw [h2d, hd1]) (by rw [h2m, hmo1]) h2q
      (PostF_false (by rw [h2s, hek]) (by rw [h2n, hen])) (by simp) hmmV
      (fun h0 hk => BF c f rest (w && !closesV v) _ h2q (by rw [hmmV]; exact mm_ne_keyed _ _ hm)
        (by rw [hmmV]; exact mm_thread w _ _ hw) (Or.inl hk) (by rw [h2m, hmo1]) hpr h0)
    rw [openEnd_ite] at hch
    obtain ⟨c1, c2, c3, c4, c5, c6⟩ := hch
    refine ⟨?_, by simpa [semF] using c2, by simpa [semF] using c3, by simpa [semF] using c4,
      by simpa [semF, openEnd] using c5, ?_⟩
    · simp only [semF, wlayF, frenderF, render_wlayV_gap]
      rw [c1]
      simp [sepText, TextTape.Op.text, List.append_assoc]
    · simp only [semF, closesF]
      rw [c6]
      exact ite_or _ _ _
  | .ghost g gc rest, w, s, hq, hm, hw, hst, hmode, hp, h0 => by
    have := BF c f rest w s hq hm hw hst hmode (by simpa [FPlainF] using hp) (by simpa [fcntF] using h0)
    unfold FOut at this ⊢
    simp only [semF, wlayF, openEnd, closesF]
    exact this
  | .consHdr g0 k g1 o gh h body rest, w, s, hq, hm, hw, hst, hmode, hp, _ => by
    simp only [FPlainF] at hp
    obtain ⟨hwo, _, hpv, hpr⟩ := hp
    obtain ⟨hq1, hd1, hmo1, hn1, hst1, hmm1, hout1⟩ :=
      fhead c f k.text o s hq hm (hw.imp id (fun h => hwo h)) hst hmode
    have hnk : (opK o (wr s k.text)).mixedMode ≠ .keyed := by rw [hmm1]; exact hm
    have hH := header_M (opK o (wr s k.text)) h.bytes
    rw [preMM_of_not_keyed _ hnk] at hH
    have hqH : Q (writeHeader (opK o (wr s k.text)) h.bytes) c f := by rw [hH]; exact ⟨hq1.ic, hq1.fac⟩
    have hmmH : (writeHeader (opK o (wr s k.text)) h.bytes).mixedMode = s.mixedMode := by rw [hH]; exact hmm1
    have hnkH : (writeHeader (opK o (wr s k.text)) h.bytes).mixedMode ≠ .keyed := by rw [hmmH]; exact hm
    obtain ⟨h2o, h2d, h2m, h2q, h2s, h2n, h2mm⟩ := BV c f body w (writeHeader (opK o (wr s k.text)) h.bytes) hqH
      (by rw [hmmH]; exact hw) (by rw [hmmH]; intro h; exact absurd h hm) hpv
    obtain ⟨hek, hen⟩ := exit_key' body (writeHeader (opK o (wr s k.text)) h.bytes) (by rw [hH]; exact hmo1)
      (Or.inr (by rw [hH]))
    have hmmV : (semV body (writeHeader (opK o (wr s k.text)) h.bytes)).mixedMode =
        (if closesV body then .disabled else s.mixedMode) := by
      rw [h2mm, exitMM, preMM_of_not_keyed _ hnkH, hmmH]
    have hpH : pfxM (writeHeader (opK o (wr s k.text)) h.bytes) = [] := by
      rw [pfxM_of_not_keyed _ hnkH, hH]; rfl
    have hdH : (writeHeader (opK o (wr s k.text)) h.bytes).depth = s.depth := by rw [hH]; exact hd1
    have houtH : (writeHeader (opK o (wr s k.text)) h.bytes).out = s.out ++ (pfx s ++ (k.text ++ (sepText o ++ (h.bytes ++ [32])))) := by
      rw [hH]; show (opK o (wr s k.text)).out ++ (pfxM (opK o (wr s k.text)) ++ (h.bytes ++ [32])) = _
      rw [← List.append_assoc, hout1]; simp [List.append_assoc]
    have hch := chainF c f rest s (semV body (writeHeader (opK o (wr s k.text)) h.bytes))
      (pfx s ++ (k.text ++ (sepText o ++ (h.bytes ++ (32 :: vtxt c f s.depth.length body))))) _ false
      (by rw [h2o, hpH, houtH, hdH]; simp [List.append_assoc]) (by rw [h2d, hdH])
      (by rw [h2m, hH]; exact hmo1) h2q
      (PostF_false (by rw [h2s, hek]) (by rw [h2n, hen])) (by simp) hmmV
      (fun h0 hk => BF c f rest (w && !closesV body) _ h2q (by rw [hmmV]; exact mm_ne_keyed _ _ hm)
        (by rw [hmmV]; exact mm_thread w _ _ hw) (Or.inl hk) (by rw [h2m, hH]; exact hmo1) hpr h0)
    rw [openEnd_ite] at hch
    obtain ⟨c1, c2, c3, c4, c5, c6⟩ := hch
    refine ⟨?_, by simpa [semF] using c2, by simpa [semF] using c3, by simpa [semF] using c4,
      by simpa [semF, openEnd] using c5, ?_⟩
    · simp only [semF, wlayF, frenderF, render_wlayV_gap]
      rw [c1, WriterParse.sepText_split]
      simp [Scal.text, List.append_assoc]
    · simp only [semF, closesF]
      rw [c6]
      exact ite_or _ _ _
  | .paramVal g0 isU name g1 val g2 rest, w, s, hq, hm, hw, hst, hmode, hp, _ => by
    simp only [FPlainF] at hp
    have hs1 := paramOpenT_M isU name s hm
    have hm1 : (paramOpenT isU name s).mixedMode ≠ .keyed := by rw [hs1]; exact hm
    have hn1 : nextOf (paramOpenT isU name s).state = .keyValueSeparator := by
      rw [hs1]; rcases hst with h | h <;> simp only [h] <;> decide
    have hp1 : pfx (paramOpenT isU name s) = ind c f s.depth.length := by
      have := pfx_keyish (paramOpenT isU name s) c f (by rw [hs1]; exact ⟨hq.ic, hq.fac⟩) (by rw [hs1]; exact hst)
      rw [this, hs1]; rfl
    have hs2 := wr_M (paramOpenT isU name s) val.bytes
    rw [pfxM_of_not_keyed _ hm1, preMM_of_not_keyed _ hm1, hn1, hp1] at hs2
    have hch := chainF c f rest s (put (wr (paramOpenT isU name s) val.bytes) [93])
      (pfx s ++ (TextTape.paramOpen isU name ++ (nlInd c f s.depth.length ++ (val.bytes ++ [93])))) s.mixedMode true
      (by rw [hs2, hs1]; simp [put, nlInd, List.append_assoc]) (by rw [hs2, hs1]; rfl)
      (by rw [hs2, hs1]; exact hmode) (by rw [hs2, hs1]; exact ⟨hq.ic, hq.fac⟩)
      (Or.inr ⟨rfl, by rw [hs2]; rfl, by rw [hs2]; rfl⟩) (fun _ => hp) (by rw [hs2, hs1]; rfl)
      (fun h0 _ => absurd hp h0)
    obtain ⟨c1, c2, c3, c4, c5, c6⟩ := hch
    refine ⟨?_, by simpa [semF] using c2, by simpa [semF] using c3, by simpa [semF] using c4,
      by simpa [semF, openEnd] using c5, ?_⟩
    · simp only [semF, wlayF, frenderF]
      rw [c1]
      simp [Scal.text, List.append_assoc]
    · simp only [semF, closesF]
      rw [c6]
      rfl
  | .paramObj g0 isU name g1 k g2 o v inner gc rest, w, s, hq, hm, hw, hst, hmode, hp, _ => by
    simp only [FPlainF] at hp
    obtain ⟨hwo, hpv, hpi, hoe, hpr⟩ := hp
    have hs1 := paramOpenT_M isU name s hm
    have hq1' : Q (paramOpenT isU name s) c f := by rw [hs1]; exact ⟨hq.ic, hq.fac⟩
    have hmm1' : (paramOpenT isU name s).mixedMode = s.mixedMode := by rw [hs1]
    have hm1 : (paramOpenT isU name s).mixedMode ≠ .keyed := by rw [hmm1']; exact hm
    have hst1' : (paramOpenT isU name s).state = .key ∨ (paramOpenT isU name s).state = .firstKey := by rw [hs1]; exact hst
    have hd1' : (paramOpenT isU name s).depth = s.depth := by rw [hs1]
    have hp1 : pfx (paramOpenT isU name s) = ind c f s.depth.length := by
      rw [pfx_keyish _ c f hq1' hst1', hs1]; rfl
    obtain ⟨hqV, hdV, hmoV, hnV, hstV, hmmV0, houtV⟩ :=
      fhead c f k.bytes o (paramOpenT isU name s) hq1' hm1 (by rw [hmm1']; exact hw.imp id (fun h => hwo h)) hst1'
        (by rw [hs1]; exact hmode)
    obtain ⟨h2o, h2d, h2m, h2q, h2s, h2n, h2mm⟩ := BV c f v w (opK o (wr (paramOpenT isU name s) k.bytes)) hqV
      (by rw [hmmV0, hmm1']; exact hw) (by rw [hmmV0, hmm1']; intro h; exact absurd h hm) hpv
    obtain ⟨hek, hen⟩ := exit_key' v (opK o (wr (paramOpenT isU name s) k.bytes)) hmoV hstV
    have hmmV : (semV v (opK o (wr (paramOpenT isU name s) k.bytes))).mixedMode =
        (if closesV v then .disabled else s.mixedMode) := by
      rw [h2mm, exitMM, preMM_of_not_keyed _ (by rw [hmmV0]; exact hm1), hmmV0, hmm1']
    -- the further fields of the block
    have hchI := chainF c f inner s (semV v (opK o (wr (paramOpenT isU name s) k.bytes)))
      (pfx s ++ (TextTape.paramOpen isU name ++ (nlInd c f s.depth.length ++ (k.bytes ++ (sepText o ++ vtxt c f s.depth.length v))))) _ false
      (by rw [h2o, ← List.append_assoc, houtV, hdV, hd1', hp1, hs1]; simp [nlInd, List.append_assoc])
      (by rw [h2d, hdV, hd1']) (by rw [h2m, hmoV]) h2q
      (PostF_false (by rw [h2s, hek]) (by rw [h2n, hen])) (by simp) hmmV
      (fun h0 hk => BF c f inner (w && !closesV v) _ h2q (by rw [hmmV]; exact mm_ne_keyed _ _ hm)
        (by rw [hmmV]; exact mm_thread w _ _ hw) (Or.inl hk) (by rw [h2m, hmoV]) hpi h0)
    rw [openEnd_ite] at hchI
    obtain ⟨i1, i2, i3, i4, i5, i6⟩ := hchI
    -- `⏎<indent>]`
    have hcl := closeP_eq (semF inner (semV v (opK o (wr (paramOpenT isU name s) k.bytes)))) c f i4
    rw [i2] at hcl
    have hchR := chainF c f rest s (closeP (semF inner (semV v (opK o (wr (paramOpenT isU name s) k.bytes)))))
      (pfx s ++ (TextTape.paramOpen isU name ++ (nlInd c f s.depth.length ++ (k.bytes ++ (sepText o ++ vtxt c f s.depth.length v)))) ++
        frenderF (wlayF c f s.depth.length (nlInd c f s.depth.length) inner) ++ (nlInd c f s.depth.length ++ [93]))
      (if closesF inner then .disabled else if closesV v then .disabled else s.mixedMode) (openEnd inner)
      (by rw [hcl]; show _ ++ _ = _; rw [i1]; simp [List.append_assoc]) (by rw [hcl]) (by rw [hcl]; exact i3)
      (by rw [hcl]; exact ⟨i4.ic, i4.fac⟩)
      (by rw [hcl]; exact i5) hoe (by rw [hcl]; exact i6)
      (fun h0 hk => BF c f rest (w && !(closesV v || closesF inner)) _ (by rw [hcl]; exact ⟨i4.ic, i4.fac⟩)
        (by rw [hcl]; show (semF inner _).mixedMode ≠ _; rw [i6]; exact mm_ne_keyed2 _ _ _ hm)
        (by rw [hcl]; show (semF inner _).mixedMode = _ ∨ _; rw [i6]; exact mm_thread2 w _ _ _ hw) (Or.inl hk) (by rw [hcl]; exact i3) hpr h0)
    obtain ⟨c1, c2, c3, c4, c5, c6⟩ := hchR
    refine ⟨?_, by simpa [semF] using c2, by simpa [semF] using c3, by simpa [semF] using c4,
      by simpa [semF, openEnd] using c5, ?_⟩
    · simp only [semF, wlayF, frenderF, render_wlayV_gap]
      rw [c1, WriterParse.sepText_split]
      simp [Scal.text, List.append_assoc]
    · simp only [semF, closesF]
      rw [c6]
      exact ite_or3 _ _ _ _
  | .paramHdr .., w, s, hq, hm, hw, hst, hmode, hp, _ => by simp [FPlainF] at hp
theorem BVs (c : UInt8) (f : Nat) : ∀ (vs : FVals) (w : Bool) (s : State), Q s c f →
    s.mixedMode ≠ .keyed → (s.mixedMode = .disabled ∨ w = true) → s.mode = .array → s.state = .arrayValue →
    FPlainVs w vs → VsOut c f vs s (semVs vs s)
  | .nil, w, s, hq, hm, hw, hmode, hst, hp => by
    exact ⟨by simp [semVs, wlayVs, frenderVs], rfl, hmode, hq, hst, rfl, by simp [semVs, closesVs]⟩
  | .cons v rest, w, s, hq, hm, hw, hmode, hst, hp => by
    simp only [FPlainVs] at hp
    obtain ⟨hpv, hpr⟩ := hp
    obtain ⟨h2o, h2d, h2m, h2q, h2s, h2n, h2mm⟩ := BV c f v w s hq hw (fun h => absurd h hm) hpv
    have hst1 : (semV v s).state = .arrayValue := by
      rw [h2s]; unfold exitStateV
      cases closesV v <;> simp [hst, hmode, modeState, nextOf_arrayValue]
    have hn1 : (semV v s).needsLineTerminator = closesV v := by
      rw [h2n]; unfold exitNltV
      cases closesV v <;> simp [hst, nextOf_arrayValue]
    have hmm1 : (semV v s).mixedMode = (if closesV v then .disabled else s.mixedMode) := by
      rw [h2mm, exitMM, preMM_of_not_keyed _ hm]
    obtain ⟨r1, r2, r3, r4, r5, r6, r7⟩ := BVs c f rest (w && !closesV v) (semV v s) h2q
      (by rw [hmm1]; exact mm_ne_keyed _ _ hm) (by rw [hmm1]; exact mm_thread w _ _ hw) (by rw [h2m, hmode]) hst1 hpr
    have hp0 : pfxM s = (if s.needsLineTerminator then nlInd c f s.depth.length else [32]) := by
      have hi := indOf_Q hq
      rw [pfxM_of_not_keyed _ hm]
      cases hnl : s.needsLineTerminator <;> simp [pfx, hst, hnl, nlInd, hi]
    refine ⟨?_, by simp only [semVs]; rw [r2, h2d], by simpa [semVs] using r3, by simpa [semVs] using r4,
      by simpa [semVs] using r5, ?_, ?_⟩
    · simp only [semVs, wlayVs, frenderVs, render_wlayV_gap]
      rw [r1, h2o, hn1, h2d, hp0]
      simp [List.append_assoc]
    · simp only [semVs, lastNlt]
      rw [r6, hn1]
    · simp only [semVs, closesVs]
      rw [r7, hmm1]
      exact ite_or _ _ _
theorem BI (c : UInt8) (f : Nat) : ∀ (is : FItems) (s : State), Q s c f →
    (s.mixedMode ≠ .disabled → s.needsLineTerminator = false) → s.mode = .array → s.state = .arrayValue →
    FPlainI s.mixedMode is → IOut c f is s (semI is s)
  | .nil, s, hq, hk, hmode, hst, hp => by
    exact ⟨by simp [semI, wlayI, frenderI], rfl, hmode, hq, hst⟩
  | .scal g x rest, s, hq, hk, hmode, hst, hp => by
    simp only [FPlainI] at hp
    obtain ⟨hg, hmmS, _⟩ := pfxM_igap s c f hq hst hk
    have hs1 := wr_M s x.text
    rw [hg, hmmS, hst, nextOf_arrayValue] at hs1
    obtain ⟨r1, r2, r3, r4, r5⟩ := BI c f rest (wr s x.text) (by rw [hs1]; exact ⟨hq.ic, hq.fac⟩)
      (by rw [hs1]; intro _; rfl) (by rw [hs1]; exact hmode) (by rw [hs1]) (by rw [hs1]; exact hp)
    refine ⟨?_, by simp only [semI]; rw [r2, hs1], by simpa [semI] using r3, by simpa [semI] using r4,
      by simpa [semI] using r5⟩
    simp only [semI, wlayI, frenderI]
    rw [r1, hs1]
    simp [List.append_assoc]
  | .op g o rest, s, hq, hk, hmode, hst, hp => by
    simp only [FPlainI] at hp
    have hs1 : opArm o s = { s with out := s.out ++ ((if s.mixedMode = .disabled then [32] else []) ++ o.text), mixedMode := mmOp s.mixedMode } := by
      unfold opArm mmOp
      rw [opW_symbol]
      by_cases hd : s.mixedMode = .disabled <;> simp [hd, put, List.append_assoc]
    obtain ⟨r1, r2, r3, r4, r5⟩ := BI c f rest (opArm o s) (by rw [hs1]; exact ⟨hq.ic, hq.fac⟩)
      (by
        rw [hs1]; intro hne
        apply hk
        intro hd; apply hne; simp [mmOp, hd])
      (by rw [hs1]; exact hmode) (by rw [hs1]; exact hst) (by rw [hs1]; exact hp.2)
    refine ⟨?_, by simp only [semI]; rw [r2, hs1], by simpa [semI] using r3, by simpa [semI] using r4,
      by simpa [semI] using r5⟩
    simp only [semI, wlayI, frenderI]
    rw [r1, hs1]
    simp [List.append_assoc]
  | .cont v rest, s, hq, hk, hmode, hst, hp => by
    simp only [FPlainI] at hp
    obtain ⟨hpv, hpr⟩ := hp
    obtain ⟨hg, hmmS, hkc⟩ := pfxM_igap s c f hq hst hk
    obtain ⟨h2o, h2d, h2m, h2q, h2s, h2n, h2mm⟩ := BV c f v (decide (s.mixedMode ≠ .disabled)) s hq
      (by by_cases hd : s.mixedMode = .disabled <;> simp [hd]) hkc hpv
    have hst1 : (semV v s).state = .arrayValue := by
      rw [h2s]; unfold exitStateV
      cases closesV v <;> simp [hst, hmode, modeState, nextOf_arrayValue]
    have hn1 : (semV v s).needsLineTerminator = closesV v := by
      rw [h2n]; unfold exitNltV
      cases closesV v <;> simp [hst, nextOf_arrayValue]
    have hmm1 : (semV v s).mixedMode = (if closesV v then .disabled else mmScal s.mixedMode) := by
      rw [h2mm, exitMM, hmmS]
    obtain ⟨r1, r2, r3, r4, r5⟩ := BI c f rest (semV v s) h2q
      (by
        rw [hmm1, hn1]
        cases closesV v <;> simp)
      (by rw [h2m, hmode]) hst1 (by rw [hmm1]; exact hpr)
    refine ⟨?_, by simp only [semI]; rw [r2, h2d], by simpa [semI] using r3, by simpa [semI] using r4,
      by simpa [semI] using r5⟩
    simp only [semI, wlayI, frenderI, render_wlayV_gap]
    rw [r1, h2o, hn1, hmm1, h2d, hg]
    simp [List.append_assoc]
end

/-- the bytes `write_tape` writes for a preserved document: the document under the writer's layout -/
theorem bytes_full (c : UInt8) (f : Nat) (fs : FFields) (hp : FPlainF false fs) :
    (semF fs (State.init c f)).out = frenderF (wlayF c f 0 [] fs) := by
  by_cases h0 : fcntF fs = 0
  · obtain ⟨h1, h2, _, _⟩ := noTok c f 0 [] fs h0
    rw [h1, h2]; rfl
  · have hpfx : pfx (State.init c f) = [] := by simp [pfx, State.init, indOf]
    obtain ⟨b1, _⟩ := BF c f fs false (State.init c f) ⟨rfl, rfl⟩ (by simp [State.init]) (Or.inl rfl) (Or.inl rfl) rfl hp h0
    rw [b1, hpfx]
    simp [State.init]

end Jomini.Writer
