import JominiModel.Model.TextReader
/-
C20 (text reader): invariants of the streaming reader that hold under EVERY schedule, fault steps included.
`C20_*` theorems live here so that the coordinator can re-export them from Props/C20.lean.
-/
namespace Jomini.TextReader
open Jomini

/-- the buffered reader `r` over the input `data`: the source has delivered a prefix, what it still holds is the
rest, the window is exactly the slice `data[position .. delivered]` (nothing dropped, duplicated or invented), and
in particular `position ≤ delivered`. -/
structure Inv (data : Bytes) (r : Reader) : Prop where
  del : r.src.delivered + r.src.rest.length = data.length
  rest : r.src.rest = data.drop r.src.delivered
  pos : r.position + r.win.length = r.src.delivered
  win : r.win = (data.drop r.position).take r.win.length
  cap : 0 < r.cap

theorem Inv.start (cap : Nat) (hc : 0 < cap) (sched : List Step) (data : Bytes) : Inv data (fromReader cap sched data) :=
  ⟨by simp [fromReader], by simp [fromReader], by simp [fromReader, Reader.position], by simp [fromReader], hc⟩

theorem Inv.setBom {data : Bytes} {r : Reader} (h : Inv data r) (b : Bom) : Inv data { r with bom := b } :=
  ⟨h.del, h.rest, h.pos, h.win, h.cap⟩

theorem Inv.advance {data : Bytes} {r r' : Reader} {k : Nat} (h : Inv data r) (ha : advance r k = some r') :
    Inv data r' := by
  unfold TextReader.advance at ha
  split at ha
  · rename_i hk
    simp only [Option.some.injEq] at ha
    subst ha
    have hp := h.pos
    simp only [Reader.position] at hp
    refine ⟨h.del, h.rest, ?_, ?_, h.cap⟩
    · simp only [Reader.position, List.length_drop]; omega
    · simp only [Reader.position, List.length_drop]
      have hw := h.win
      simp only [Reader.position] at hw
      conv => lhs; rw [hw]
      rw [List.drop_take, List.drop_drop]
      congr 2; omega
  · simp at ha

/-- one `Read::read` call under any schedule step: a failing call delivers nothing and leaves the source's
data untouched; a successful one delivers a prefix of the rest. -/
theorem Src.read_any (s : Src) (space : Nat) :
    ((s.read space).2 = none ∧ (s.read space).1.rest = s.rest ∧ (s.read space).1.delivered = s.delivered) ∨
    (∃ n, n ≤ s.rest.length ∧ (s.read space).2 = some (s.rest.take n) ∧ (s.read space).1.rest = s.rest.drop n ∧
      (s.read space).1.delivered = s.delivered + n) := by
  unfold Src.read
  cases s.sched with
  | nil => right; exact ⟨min space s.rest.length, Nat.min_le_right _ _, rfl, rfl, rfl⟩
  | cons st t =>
    cases st with
    | give n => right; exact ⟨min (min n space) s.rest.length, Nat.min_le_right _ _, rfl, rfl, rfl⟩
    | repeat_ n => right; exact ⟨min (min n space) s.rest.length, Nat.min_le_right _ _, rfl, rfl, rfl⟩
    | fail => left; exact ⟨rfl, rfl, rfl⟩
    | failForever => left; exact ⟨rfl, rfl, rfl⟩

theorem Inv.fill {data : Bytes} {r : Reader} (h : Inv data r) : Inv data (fillBuf r).1 := by
  unfold fillBuf
  have hc : ¬ r.cap = 0 := by have := h.cap; omega
  simp only [hc, if_false]
  split
  · exact h
  · have hp := h.pos
    simp only [Reader.position] at hp
    generalize hread : r.src.read (r.cap - r.win.length) = res
    have hany := Src.read_any r.src (r.cap - r.win.length)
    rw [hread] at hany
    obtain ⟨src', ob⟩ := res
    simp only at hany
    rcases hany with ⟨h1, h2, h3⟩ | ⟨n, hn, h1, h2, h3⟩
    · subst h1
      simp only
      refine ⟨by rw [h2, h3]; exact h.del, by rw [h2, h3]; exact h.rest, ?_, ?_, h.cap⟩
      · simp only [Reader.position, h3]; omega
      · simp only [Reader.position, Nat.add_zero]; have := h.win; simp only [Reader.position] at this; exact this
    · subst h1
      simp only
      have hd := h.del
      have hl : (List.take n r.src.rest).length = n := by simp; omega
      refine ⟨?_, ?_, ?_, ?_, h.cap⟩
      · rw [h2, h3]; simp only [List.length_drop]; omega
      · rw [h2, h3, h.rest, List.drop_drop]
      · simp only [Reader.position, Nat.add_zero, List.length_append, hl, h3]; omega
      · simp only [Reader.position, Nat.add_zero, List.length_append, hl]
        have hw := h.win
        simp only [Reader.position] at hw
        rw [List.take_add, ← hw, List.drop_drop, h.rest]
        congr 3; omega

/-- a result of a reader call keeps the invariant -/
def ResInv {α : Type} (data : Bytes) : Res α → Prop
  | .ok r _ => Inv data r
  | .err r _ => Inv data r
  | _ => True

theorem run_inv (data : Bytes) : ∀ (fuel : Nat) (call : Call) (r : Reader), Inv data r → ResInv data (run fuel call r) := by
  intro fuel
  induction fuel with
  | zero => intro call r _; simp [run, ResInv]
  | succ f ih =>
    intro call r h
    cases call with
    | fallback =>
      rw [run]
      generalize fbLoop (r.position == 0) r.win .top 0 r.bom = res
      obtain ⟨bom, sc⟩ := res
      cases sc with
      | tok adv t =>
        simp only
        cases ha : advance { r with bom := bom } adv with
        | none => simp [ResInv]
        | some r' => simp only [ResInv]; exact (h.setBom bom).advance ha
      | refill st c o => exact ih _ _ (h.setBom bom)
      | bomFill =>
        simp only
        have hf := (h.setBom bom).fill
        generalize fillBuf { r with bom := bom } = fr at hf
        obtain ⟨r', fl⟩ := fr
        simp only at hf
        cases fl with
        | ok n =>
          cases n with
          | zero => exact ih _ _ (hf.setBom _)
          | succ n => exact ih _ _ hf
        | full => simp only [ResInv]; exact hf
        | io => simp only [ResInv]; exact hf
    | refill st carry off =>
      rw [run]
      cases ha : advance r (r.win.length - carry) with
      | none => simp [ResInv]
      | some r0 =>
        simp only
        split
        · simp [ResInv]
        · have h0 := h.advance ha
          have hf := h0.fill
          generalize fillBuf r0 = fr at hf
          obtain ⟨r1, fl⟩ := fr
          simp only at hf
          cases fl with
          | full => simp only [ResInv]; exact hf
          | io => simp only [ResInv]; exact hf
          | ok n =>
            cases n with
            | zero =>
              simp only
              cases st with
              | none =>
                simp only
                split
                · simp only [ResInv]; exact hf
                · split
                  · simp [ResInv]
                  · split
                    · cases ha2 : advance r1 carry with
                      | none => simp [ResInv]
                      | some r2 => simp only [ResInv]; exact hf.advance ha2
                    · simp only [ResInv]; exact hf
              | quote => simp only [ResInv]; exact hf
              | unquoted =>
                simp only
                split
                · simp [ResInv]
                · cases ha2 : advance r1 r1.win.length with
                  | none => simp [ResInv]
                  | some r2 => simp only [ResInv]; exact hf.advance ha2
            | succ n =>
              simp only
              cases st with
              | none => exact ih _ _ hf
              | quote =>
                simp only
                split
                · rename_i m _
                  cases ha2 : advance r1 (m + 1) with
                  | none => simp [ResInv]
                  | some r2 => simp only [ResInv]; exact hf.advance ha2
                · exact ih _ _ hf
              | unquoted =>
                simp only
                split
                · rename_i m _
                  cases ha2 : advance r1 m with
                  | none => simp [ResInv]
                  | some r2 => simp only [ResInv]; exact hf.advance ha2
                · exact ih _ _ hf

end Jomini.TextReader

namespace Jomini.TextReader
open Jomini

theorem nextOpt_inv (data : Bytes) (fuel : Nat) (r : Reader) (h : Inv data r) : ResInv data (nextOpt fuel r) := by
  unfold nextOpt
  simp only
  split
  · exact run_inv data fuel .fallback r h
  · split
    · simp [ResInv]
    · split
      · simp [ResInv]
      · split
        · cases ha : advance r (leadingWhitespace _ + 1) with
          | none => simp [ResInv]
          | some r' => simp only [ResInv]; exact h.advance ha
        · split
          · cases ha : advance r (leadingWhitespace _ + 1) with
            | none => simp [ResInv]
            | some r' => simp only [ResInv]; exact h.advance ha
          · split
            · split
              · rename_i j c' _
                cases ha : advance r (if c' == 32 then j + 1 else j) with
                | none => simp [ResInv]
                | some r' => simp only [ResInv]; exact h.advance ha
              · exact run_inv data fuel .fallback r h
              · simp [ResInv]
            · split
              · split
                · rename_i j _ _
                  cases ha : advance r (j + 1) with
                  | none => simp [ResInv]
                  | some r' => simp only [ResInv]; exact h.advance ha
                · exact run_inv data fuel .fallback r h
                · simp [ResInv]
              · exact run_inv data fuel .fallback r h

theorem read_inv (data : Bytes) (fuel : Nat) (r : Reader) (h : Inv data r) : ResInv data (read fuel r) := by
  have := nextOpt_inv data fuel r h
  unfold read
  cases hn : nextOpt fuel r with
  | ok r' a => rw [hn] at this; cases a <;> simpa [ResInv] using this
  | err r' e => rw [hn] at this; simpa [ResInv] using this
  | panic => simp [ResInv]
  | ub => simp [ResInv]
  | fuel => simp [ResInv]

theorem readBytes_inv (data : Bytes) : ∀ (fuel : Nat) (r : Reader) (n : Nat), Inv data r → ResInv data (readBytes fuel r n) := by
  intro fuel
  induction fuel with
  | zero => intro r n _; simp [readBytes, ResInv]
  | succ f ih =>
    intro r n h
    rw [readBytes]
    split
    · have hf := h.fill
      generalize fillBuf r = fr at hf
      obtain ⟨r1, fl⟩ := fr
      simp only at hf
      cases fl with
      | full => simp only [ResInv]; exact hf
      | io => simp only [ResInv]; exact hf
      | ok k =>
        cases k with
        | zero => simp only [ResInv]; exact hf
        | succ k => exact ih _ _ hf
    · cases ha : advance r n with
      | none => simp [ResInv]
      | some r' => simp only [ResInv]; exact h.advance ha

theorem skipLoop_inv (data : Bytes) : ∀ (fuel : Nat) (r : Reader) (st : SkipSt) (depth : Int) (ptr : Nat),
    Inv data r → ResInv data (skipLoop fuel r st depth ptr) := by
  intro fuel
  induction fuel with
  | zero => intro r st depth ptr _; simp [skipLoop, ResInv]
  | succ f ih =>
    intro r st depth ptr h
    rw [skipLoop]
    split
    · rename_i p _
      cases ha : advance r p with
      | none => simp [ResInv]
      | some r' => simp only [ResInv]; exact h.advance ha
    · rename_i st' depth' p _
      cases ha : advance r p with
      | none => simp [ResInv]
      | some r0 =>
        simp only
        have hf := (h.advance ha).fill
        generalize fillBuf r0 = fr at hf
        obtain ⟨r1, fl⟩ := fr
        simp only at hf
        cases fl with
        | full => simp only [ResInv]; exact hf
        | io => simp only [ResInv]; exact hf
        | ok k =>
          cases k with
          | zero => simp only [ResInv]; exact hf
          | succ k => exact ih _ _ _ _ hf
    · simp [ResInv]
    · simp [ResInv]

theorem skipContainer_inv (data : Bytes) (fuel : Nat) (r : Reader) (h : Inv data r) :
    ResInv data (skipContainer fuel r) := skipLoop_inv data fuel r .none 1 0 h

theorem skipUnquotedValue_inv (data : Bytes) : ∀ (fuel : Nat) (r : Reader), Inv data r →
    ResInv data (skipUnquotedValue fuel r) := by
  intro fuel
  induction fuel with
  | zero => intro r _; simp [skipUnquotedValue, ResInv]
  | succ f ih =>
    intro r h
    rw [skipUnquotedValue]
    split
    · rename_i p _
      cases ha : advance r (p + 1) with
      | none => simp [ResInv]
      | some r' => simp only; exact skipContainer_inv data (f + 1) r' (h.advance ha)
    · simp only [ResInv]; exact h
    · cases ha : advance r r.win.length with
      | none => simp [ResInv]
      | some r0 =>
        simp only
        have hf := (h.advance ha).fill
        generalize fillBuf r0 = fr at hf
        obtain ⟨r1, fl⟩ := fr
        simp only at hf
        cases fl with
        | full => simp only [ResInv]; exact hf
        | io => simp only [ResInv]; exact hf
        | ok k =>
          cases k with
          | zero => simp only [ResInv]; exact hf
          | succ k => exact ih _ hf

theorem lexAll_inv (data : Bytes) (fuel : Nat) : ∀ (n : Nat) (r : Reader) (acc : List Token), Inv data r →
    Inv data (lexAll fuel n r acc).final := by
  intro n
  induction n with
  | zero => intro r acc h; simpa [lexAll] using h
  | succ n ih =>
    intro r acc h
    have hn := nextOpt_inv data fuel r h
    rw [lexAll]
    unfold next
    cases hx : nextOpt fuel r with
    | ok r' a =>
      rw [hx] at hn
      cases a with
      | none => simpa [ResInv] using hn
      | some t => simp only; exact ih r' _ (by simpa [ResInv] using hn)
    | err r' e => rw [hx] at hn; simpa [ResInv] using hn
    | panic => simpa using h
    | ub => simpa using h
    | fuel => simpa using h

/-- **C20 (text reader), partial: what holds under every schedule, fault steps included.**
Whatever the `Read` does — short reads down to one byte, transient failures, a persistent failure — after any
sequence of `next` calls the streaming reader's position never exceeds the number of bytes delivered, the window is
exactly the slice `data[position .. delivered]` of the input and the undelivered rest is untouched: no byte is
dropped, duplicated or invented by a failing or short read.  The same invariant is kept by every single call of
`next`/`read`/`read_bytes`/`skip_container`/`skip_unquoted_value` (`*_inv` above), whether it succeeds or fails.

Full statement (`C20_text_reader`, not proved): in addition, every successfully returned token equals the
fault-free one (prefix of `sliceTokens data`), a fault that is reached is reported as `err io`, and a persistent
fault always ends in an error.  These clauses are decided by the correspondence run and the implementation oracles
`fault-swallowed`, `fault-differs`, `persistent-fault-no-error`, `position-beyond-delivered`. -/
theorem C20_text_reader_partial (cap : Nat) (hc : 0 < cap) (sched : List Step) (data : Bytes) (fuel n : Nat) :
    let fin := (lexAll fuel n (fromReader cap sched data) []).final
    fin.position ≤ fin.src.delivered ∧
    fin.win = (data.drop fin.position).take (fin.src.delivered - fin.position) ∧
    fin.src.rest = data.drop fin.src.delivered ∧ fin.src.delivered ≤ data.length := by
  intro fin
  have h : Inv data fin := lexAll_inv data fuel n (fromReader cap sched data) [] (Inv.start cap hc sched data)
  have hp := h.pos
  refine ⟨by omega, ?_, h.rest, by have := h.del; omega⟩
  have : fin.src.delivered - fin.position = fin.win.length := by omega
  rw [this]; exact h.win

-- a schedule with a transient and a persistent fault
example : ((lexAll 50 10 (fromReader 8 [.give 2, .fail, .give 1, .failForever] [97, 61, 98, 32, 99]) []).out) = .err .io := by
  decide +kernel

end Jomini.TextReader
