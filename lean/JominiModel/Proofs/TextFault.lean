import JominiModel.Model.TextReader
import JominiModel.Proofs.TextReaderFast
/-
C20 (text reader): invariants of the streaming reader that hold under EVERY schedule, fault steps included.
`C20_*` theorems live here so that the coordinator can re-export them from Props/C20.lean.
-/
namespace Jomini.TextReader
open Jomini

/-- the buffered reader `r` over the input `data`: the source has delivered a prefix, what it still holds is the
rest, the window is exactly the slice `data[position .. delivered]` (nothing dropped, duplicated or invented), and
in particular `position ≤ delivered`. -/
structure Inv (data : Bytes) (r : Reader) : Prop where
  del : r.src.delivered + r.src.rest.length = data.length
  rest : r.src.rest = data.drop r.src.delivered
  pos : r.position + r.win.length = r.src.delivered
  win : r.win = (data.drop r.position).take r.win.length
  cap : 0 < r.cap

theorem Inv.start (cap : Nat) (hc : 0 < cap) (sched : List Step) (data : Bytes) : Inv data (fromReader cap sched data) :=
  ⟨by simp [fromReader], by simp [fromReader], by simp [fromReader, Reader.position], by simp [fromReader], hc⟩

theorem Inv.setBom {data : Bytes} {r : Reader} (h : Inv data r) (b : Bom) : Inv data { r with bom := b } :=
  ⟨h.del, h.rest, h.pos, h.win, h.cap⟩

theorem Inv.advance {data : Bytes} {r r' : Reader} {k : Nat} (h : Inv data r) (ha : advance r k = some r') :
    Inv data r' := by
  unfold TextReader.advance at ha
  split at ha
  · rename_i hk
    simp only [Option.some.injEq] at ha
    subst ha
    have hp := h.pos
    simp only [Reader.position] at hp
    refine ⟨h.del, h.rest, ?_, ?_, h.cap⟩
    · simp only [Reader.position, List.length_drop]; omega
    · simp only [Reader.position, List.length_drop]
      have hw := h.win
      simp only [Reader.position] at hw
      conv => lhs; rw [hw]
      rw [List.drop_take, List.drop_drop]
      congr 2; omega
  · simp at ha

/-- one `Read::read` call under any schedule step: a failing call delivers nothing and leaves the source's
data untouched; a successful one delivers a prefix of the rest. -/
theorem Src.read_any (s : Src) (space : Nat) :
    ((s.read space).2 = none ∧ (s.read space).1.rest = s.rest ∧ (s.read space).1.delivered = s.delivered) ∨
    (∃ n, n ≤ s.rest.length ∧ (s.read space).2 = some (s.rest.take n) ∧ (s.read space).1.rest = s.rest.drop n ∧
      (s.read space).1.delivered = s.delivered + n) := by
  unfold Src.read
  cases s.sched with
  | nil => right; exact ⟨min space s.rest.length, Nat.min_le_right _ _, rfl, rfl, rfl⟩
  | cons st t =>
    cases st with
    | give n => right; exact ⟨min (min n space) s.rest.length, Nat.min_le_right _ _, rfl, rfl, rfl⟩
    | repeat_ n => right; exact ⟨min (min n space) s.rest.length, Nat.min_le_right _ _, rfl, rfl, rfl⟩
    | fail => left; exact ⟨rfl, rfl, rfl⟩
    | failForever => left; exact ⟨rfl, rfl, rfl⟩

theorem Inv.fill {data : Bytes} {r : Reader} (h : Inv data r) : Inv data (fillBuf r).1 := by
  unfold fillBuf
  have hc : ¬ r.cap = 0 := by have := h.cap; omega
  simp only [hc, if_false]
  split
  · exact h
  · have hp := h.pos
    simp only [Reader.position] at hp
    generalize hread : r.src.read (r.cap - r.win.length) = res
    have hany := Src.read_any r.src (r.cap - r.win.length)
    rw [hread] at hany
    obtain ⟨src', ob⟩ := res
    simp only at hany
    rcases hany with ⟨h1, h2, h3⟩ | ⟨n, hn, h1, h2, h3⟩
    · subst h1
      simp only
      refine ⟨by rw [h2, h3]; exact h.del, by rw [h2, h3]; exact h.rest, ?_, ?_, h.cap⟩
      · simp only [Reader.position, h3]; omega
      · simp only [Reader.position, Nat.add_zero]; have := h.win; simp only [Reader.position] at this; exact this
    · subst h1
      simp only
      have hd := h.del
      have hl : (List.take n r.src.rest).length = n := by simp; omega
      refine ⟨?_, ?_, ?_, ?_, h.cap⟩
      · rw [h2, h3]; simp only [List.length_drop]; omega
      · rw [h2, h3, h.rest, List.drop_drop]
      · simp only [Reader.position, Nat.add_zero, List.length_append, hl, h3]; omega
      · simp only [Reader.position, Nat.add_zero, List.length_append, hl]
        have hw := h.win
        simp only [Reader.position] at hw
        rw [List.take_add, ← hw, List.drop_drop, h.rest]
        congr 3; omega

/-- a property `P` of readers that every primitive step preserves, and a property `E` of the errors that can arise -/
structure Closed (P : Reader → Prop) (Pio : Reader → Prop) (E : Err → Prop) : Prop where
  adv : ∀ {r r' : Reader} {k : Nat}, P r → advance r k = some r' → P r'
  bom : ∀ {r : Reader} (b : Bom), P r → P { r with bom := b }
  fill : ∀ {r : Reader}, P r → (fillBuf r).2 ≠ .io → P (fillBuf r).1
  fillio : ∀ {r : Reader}, P r → (fillBuf r).2 = .io → Pio (fillBuf r).1
  full : ∀ {r : Reader}, P r → (fillBuf r).2 = .full → E .full
  io : ∀ {r : Reader}, P r → (fillBuf r).2 = .io → E .io
  eof : E .eof

/-- a result of a reader call keeps `P` (after an I/O error: `Pio`), and an error it reports satisfies `E` -/
def ResP {α : Type} (P : Reader → Prop) (Pio : Reader → Prop) (E : Err → Prop) : Res α → Prop
  | .ok r _ => P r
  | .err r e => (e ≠ .io → P r) ∧ (e = .io → Pio r) ∧ E e
  | _ => True

theorem run_inv {P Pio : Reader → Prop} {E : Err → Prop} (c : Closed P Pio E) : ∀ (fuel : Nat) (call : Call) (r : Reader), P r → ResP P Pio E (run fuel call r) := by
  intro fuel
  induction fuel with
  | zero => intro call r _; simp [run, ResP]
  | succ f ih =>
    intro call r h
    cases call with
    | fallback =>
      rw [run]
      generalize fbLoop (r.position == 0) r.win .top 0 r.bom = res
      obtain ⟨bom, sc⟩ := res
      cases sc with
      | tok adv t =>
        simp only
        cases ha : advance { r with bom := bom } adv with
        | none => simp [ResP]
        | some r' => simp only [ResP]; exact c.adv (c.bom bom h) ha
      | refill st cc o => exact ih _ _ (c.bom bom h)
      | bomFill =>
        simp only
        have hf := c.fill (c.bom bom h)
        have hfio := c.fillio (c.bom bom h)
        generalize hfr : fillBuf { r with bom := bom } = fr at hf hfio
        have hP0 := c.bom bom h
        obtain ⟨r', fl⟩ := fr
        simp only at hf hfio
        cases fl with
        | ok n =>
          replace hf := hf (by simp)
          cases n with
          | zero => exact ih _ _ (c.bom _ hf)
          | succ n => exact ih _ _ hf
        | full => exact ⟨fun _ => hf (by simp), fun h => by simp at h, c.full hP0 (by rw [hfr])⟩
        | io => exact ⟨fun h => absurd rfl h, fun _ => hfio rfl, c.io hP0 (by rw [hfr])⟩
    | refill st carry off =>
      rw [run]
      cases ha : advance r (r.win.length - carry) with
      | none => simp [ResP]
      | some r0 =>
        simp only
        split
        · simp [ResP]
        · have h0 := c.adv h ha
          have hf := c.fill h0
          have hfio := c.fillio h0
          generalize hfr : fillBuf r0 = fr at hf hfio
          have hP0 := h0
          obtain ⟨r1, fl⟩ := fr
          simp only at hf hfio
          cases fl with
          | full => exact ⟨fun _ => hf (by simp), fun h => by simp at h, c.full hP0 (by rw [hfr])⟩
          | io => exact ⟨fun h => absurd rfl h, fun _ => hfio rfl, c.io hP0 (by rw [hfr])⟩
          | ok n =>
            replace hf := hf (by simp)
            cases n with
            | zero =>
              simp only
              cases st with
              | none =>
                simp only
                split
                · first | exact hf | exact ⟨fun _ => hf, fun h => by simp at h, c.eof⟩
                · split
                  · simp [ResP]
                  · split
                    · cases ha2 : advance r1 carry with
                      | none => simp [ResP]
                      | some r2 => simp only [ResP]; exact c.adv hf ha2
                    · first | exact hf | exact ⟨fun _ => hf, fun h => by simp at h, c.eof⟩
              | quote => first | exact hf | exact ⟨fun _ => hf, fun h => by simp at h, c.eof⟩
              | unquoted =>
                simp only
                split
                · simp [ResP]
                · cases ha2 : advance r1 r1.win.length with
                  | none => simp [ResP]
                  | some r2 => simp only [ResP]; exact c.adv hf ha2
            | succ n =>
              simp only
              cases st with
              | none => exact ih _ _ hf
              | quote =>
                simp only
                split
                · rename_i m _
                  cases ha2 : advance r1 (m + 1) with
                  | none => simp [ResP]
                  | some r2 => simp only [ResP]; exact c.adv hf ha2
                · exact ih _ _ hf
              | unquoted =>
                simp only
                split
                · rename_i m _
                  cases ha2 : advance r1 m with
                  | none => simp [ResP]
                  | some r2 => simp only [ResP]; exact c.adv hf ha2
                · exact ih _ _ hf

end Jomini.TextReader

namespace Jomini.TextReader
open Jomini

theorem nextOpt_inv {P Pio : Reader → Prop} {E : Err → Prop} (c : Closed P Pio E) (fuel : Nat) (r : Reader) (h : P r) : ResP P Pio E (nextOpt fuel r) := by
  unfold nextOpt
  simp only
  split
  · exact run_inv c fuel .fallback r h
  · split
    · simp [ResP]
    · split
      · simp [ResP]
      · split
        · cases ha : advance r (leadingWhitespace _ + 1) with
          | none => simp [ResP]
          | some r' => simp only [ResP]; exact c.adv h ha
        · split
          · cases ha : advance r (leadingWhitespace _ + 1) with
            | none => simp [ResP]
            | some r' => simp only [ResP]; exact c.adv h ha
          · split
            · split
              · rename_i j c' _
                cases ha : advance r (if c' == 32 then j + 1 else j) with
                | none => simp [ResP]
                | some r' => simp only [ResP]; exact c.adv h ha
              · exact run_inv c fuel .fallback r h
              · simp [ResP]
            · split
              · split
                · rename_i j _ _
                  cases ha : advance r (j + 1) with
                  | none => simp [ResP]
                  | some r' => simp only [ResP]; exact c.adv h ha
                · exact run_inv c fuel .fallback r h
                · simp [ResP]
              · exact run_inv c fuel .fallback r h

theorem read_inv {P Pio : Reader → Prop} {E : Err → Prop} (c : Closed P Pio E) (fuel : Nat) (r : Reader) (h : P r) : ResP P Pio E (read fuel r) := by
  have := nextOpt_inv c fuel r h
  unfold read
  cases hn : nextOpt fuel r with
  | ok r' a =>
    rw [hn] at this
    cases a with
    | none => exact ⟨fun _ => this, fun h => by simp at h, c.eof⟩
    | some t => exact this
  | err r' e => rw [hn] at this; exact this
  | panic => simp [ResP]
  | ub => simp [ResP]
  | fuel => simp [ResP]

theorem readBytes_inv {P Pio : Reader → Prop} {E : Err → Prop} (c : Closed P Pio E) : ∀ (fuel : Nat) (r : Reader) (n : Nat), P r → ResP P Pio E (readBytes fuel r n) := by
  intro fuel
  induction fuel with
  | zero => intro r n _; simp [readBytes, ResP]
  | succ f ih =>
    intro r n h
    rw [readBytes]
    split
    · have hf := c.fill h
      have hfio := c.fillio h
      generalize hfr : fillBuf r = fr at hf hfio
      have hP0 := h
      obtain ⟨r1, fl⟩ := fr
      simp only at hf hfio
      cases fl with
      | full => exact ⟨fun _ => hf (by simp), fun h => by simp at h, c.full hP0 (by rw [hfr])⟩
      | io => exact ⟨fun h => absurd rfl h, fun _ => hfio rfl, c.io hP0 (by rw [hfr])⟩
      | ok k =>
        replace hf := hf (by simp)
        cases k with
        | zero => first | exact hf | exact ⟨fun _ => hf, fun h => by simp at h, c.eof⟩
        | succ k => exact ih _ _ hf
    · cases ha : advance r n with
      | none => simp [ResP]
      | some r' => simp only [ResP]; exact c.adv h ha

theorem skipLoop_inv {P Pio : Reader → Prop} {E : Err → Prop} (c : Closed P Pio E) : ∀ (fuel : Nat) (r : Reader) (st : SkipSt) (depth : Int) (ptr : Nat),
    P r → ResP P Pio E (skipLoop fuel r st depth ptr) := by
  intro fuel
  induction fuel with
  | zero => intro r st depth ptr _; simp [skipLoop, ResP]
  | succ f ih =>
    intro r st depth ptr h
    rw [skipLoop]
    split
    · rename_i p _
      cases ha : advance r p with
      | none => simp [ResP]
      | some r' => simp only [ResP]; exact c.adv h ha
    · rename_i st' depth' p _
      cases ha : advance r p with
      | none => simp [ResP]
      | some r0 =>
        simp only
        have h0 := c.adv h ha
        have hf := c.fill h0
        have hfio := c.fillio h0
        generalize hfr : fillBuf r0 = fr at hf hfio
        have hP0 := h0
        obtain ⟨r1, fl⟩ := fr
        simp only at hf hfio
        cases fl with
        | full => exact ⟨fun _ => hf (by simp), fun h => by simp at h, c.full hP0 (by rw [hfr])⟩
        | io => exact ⟨fun h => absurd rfl h, fun _ => hfio rfl, c.io hP0 (by rw [hfr])⟩
        | ok k =>
          replace hf := hf (by simp)
          cases k with
          | zero => first | exact hf | exact ⟨fun _ => hf, fun h => by simp at h, c.eof⟩
          | succ k => exact ih _ _ _ _ hf
    · simp [ResP]
    · simp [ResP]

theorem skipContainer_inv {P Pio : Reader → Prop} {E : Err → Prop} (c : Closed P Pio E) (fuel : Nat) (r : Reader) (h : P r) :
    ResP P Pio E (skipContainer fuel r) := skipLoop_inv c fuel r .none 1 0 h

theorem skipUnquotedValue_inv {P Pio : Reader → Prop} {E : Err → Prop} (c : Closed P Pio E) : ∀ (fuel : Nat) (r : Reader), P r →
    ResP P Pio E (skipUnquotedValue fuel r) := by
  intro fuel
  induction fuel with
  | zero => intro r _; simp [skipUnquotedValue, ResP]
  | succ f ih =>
    intro r h
    rw [skipUnquotedValue]
    split
    · rename_i p _
      cases ha : advance r (p + 1) with
      | none => simp [ResP]
      | some r' => simp only; exact skipContainer_inv c (f + 1) r' (c.adv h ha)
    · simp only [ResP]; exact h
    · cases ha : advance r r.win.length with
      | none => simp [ResP]
      | some r0 =>
        simp only
        have h0 := c.adv h ha
        have hf := c.fill h0
        have hfio := c.fillio h0
        generalize hfr : fillBuf r0 = fr at hf hfio
        have hP0 := h0
        obtain ⟨r1, fl⟩ := fr
        simp only at hf hfio
        cases fl with
        | full => exact ⟨fun _ => hf (by simp), fun h => by simp at h, c.full hP0 (by rw [hfr])⟩
        | io => exact ⟨fun h => absurd rfl h, fun _ => hfio rfl, c.io hP0 (by rw [hfr])⟩
        | ok k =>
          replace hf := hf (by simp)
          cases k with
          | zero => first | exact hf | exact ⟨fun _ => hf, fun h => by simp at h, c.eof⟩
          | succ k => exact ih _ hf

theorem lexAll_inv {P Pio : Reader → Prop} {E : Err → Prop} (c : Closed P Pio E) (fuel : Nat) : ∀ (n : Nat) (r : Reader) (acc : List Token), P r →
    ((lexAll fuel n r acc).out ≠ .err .io → P (lexAll fuel n r acc).final) ∧
    ((lexAll fuel n r acc).out = .err .io → Pio (lexAll fuel n r acc).final) ∧
    ∀ e, (lexAll fuel n r acc).out = .err e → E e := by
  intro n
  induction n with
  | zero => intro r acc h; simp [lexAll]; exact h
  | succ n ih =>
    intro r acc h
    have hn := nextOpt_inv c fuel r h
    rw [lexAll]
    unfold next
    cases hx : nextOpt fuel r with
    | ok r' a =>
      rw [hx] at hn
      cases a with
      | none => simp only; exact ⟨fun _ => hn, fun he => by simp at he, fun e he => by simp at he⟩
      | some t => simp only; exact ih r' _ hn
    | err r' e =>
      rw [hx] at hn
      simp only
      refine ⟨fun hne => hn.1 (by intro he; apply hne; rw [he]), fun he => hn.2.1 (by simpa using he), fun e' he => ?_⟩
      simp only [Outcome.err.injEq] at he
      rw [← he]; exact hn.2.2
    | panic => simp only; exact ⟨fun _ => h, fun he => by simp at he, fun e he => by simp at he⟩
    | ub => simp only; exact ⟨fun _ => h, fun he => by simp at he, fun e he => by simp at he⟩
    | fuel => simp only; exact ⟨fun _ => h, fun he => by simp at he, fun e he => by simp at he⟩

/-- the window/position invariant is closed under the primitive steps -/
theorem Inv_closed (data : Bytes) : Closed (Inv data) (Inv data) (fun _ => True) :=
  { adv := fun h ha => h.advance ha, bom := fun b h => h.setBom b, fill := fun h _ => h.fill, fillio := fun h _ => h.fill,
    full := fun _ _ => trivial, io := fun _ _ => trivial, eof := trivial }

/-- a fault-free schedule stays fault-free, and `fill_buf` then never reports an I/O error -/
theorem NoFaults_closed : Closed (fun r => NoFaults r.src.sched) (fun _ => True) (fun e => e ≠ .io) := by
  have key : ∀ (s : Src) (space : Nat), NoFaults s.sched →
      NoFaults (s.read space).1.sched ∧ (s.read space).2 ≠ none := by
    intro s space hnf
    unfold Src.read
    cases hs : s.sched with
    | nil => exact ⟨by intro x hx; simp at hx, by simp⟩
    | cons st t =>
      have h1 := hnf st (by simp [hs])
      have ht : NoFaults t := fun x hx => hnf x (by simp [hs, hx])
      cases st with
      | give n => exact ⟨ht, by simp⟩
      | repeat_ n => exact ⟨by intro x hx; exact hnf x (by rw [hs]; exact hx), by simp⟩
      | fail => exact absurd rfl h1.1
      | failForever => exact absurd rfl h1.2
  refine { adv := ?_, bom := fun _ h => h, fill := ?_, fillio := fun _ _ => trivial, full := fun _ _ => by simp, io := ?_, eof := by simp }
  · intro r r' k h ha
    unfold TextReader.advance at ha
    split at ha
    · simp only [Option.some.injEq] at ha; subst ha; exact h
    · simp at ha
  · intro r h _
    unfold fillBuf
    split
    · exact h
    · split
      · exact h
      · have := key r.src (r.cap - r.win.length) h
        generalize r.src.read (r.cap - r.win.length) = res at this
        obtain ⟨src', ob⟩ := res
        cases ob with
        | none => exact absurd rfl this.2
        | some bs => exact this.1
  · intro r h hio
    unfold fillBuf at hio
    split at hio
    · simp at hio
    · split at hio
      · simp at hio
      · have := key r.src (r.cap - r.win.length) h
        generalize r.src.read (r.cap - r.win.length) = res at this hio
        obtain ⟨src', ob⟩ := res
        cases ob with
        | none => exact absurd rfl this.2
        | some bs => simp at hio

/-- as long as no call reports an I/O error, no read call has failed -/
theorem Faults0_closed : Closed (fun r => r.src.faults = 0) (fun _ => True) (fun _ => True) := by
  have key : ∀ (s : Src) (space : Nat), (s.read space).2 ≠ none → (s.read space).1.faults = s.faults := by
    intro s space
    unfold Src.read
    cases s.sched with
    | nil => intro _; rfl
    | cons st t => cases st <;> simp
  refine { adv := ?_, bom := fun _ h => h, fill := ?_, fillio := fun _ _ => trivial, full := fun _ _ => trivial,
           io := fun _ _ => trivial, eof := trivial }
  · intro r r' k h ha
    unfold TextReader.advance at ha
    split at ha
    · simp only [Option.some.injEq] at ha; subst ha; exact h
    · simp at ha
  · intro r h hnio
    unfold fillBuf at hnio ⊢
    split
    · exact h
    · split
      · exact h
      · rename_i h1 h2
        simp only [h1, if_false, h2] at hnio
        have := key r.src (r.cap - r.win.length)
        generalize r.src.read (r.cap - r.win.length) = res at this hnio
        obtain ⟨src', ob⟩ := res
        cases ob with
        | none => simp at hnio
        | some bs => simp only; rw [this (by simp)]; exact h

/-- **C20: a reached fault always ends in an error.**  `Src.faults` counts the read calls that failed (transient `fail`
or persistent `failForever`).  Whatever the schedule, if the run of `next` calls does not end in an I/O error then no
read call failed at all; equivalently, as soon as a fault step is reached — in particular a persistent one — the run ends
with `err io` (never with a clean end, `Eof`, or further tokens). -/
theorem C20_reached_fault_is_error (cap : Nat) (sched : List Step) (data : Bytes) (fuel n : Nat)
    (h : (lexAll fuel n (fromReader cap sched data) []).out ≠ .err .io) :
    (lexAll fuel n (fromReader cap sched data) []).final.src.faults = 0 :=
  (lexAll_inv Faults0_closed fuel n (fromReader cap sched data) [] rfl).1 h

/-- the same for every single call of `read`, `read_bytes`, `skip_container`, `skip_unquoted_value` on a reader that has
not seen a fault yet: a result other than `err io` means that no read call failed during the call. -/
theorem C20_call_fault_is_error (r : Reader) (h0 : r.src.faults = 0) (fuel nbytes : Nat) :
    ResP (fun r => r.src.faults = 0) (fun _ => True) (fun _ => True) (read fuel r) ∧
    ResP (fun r => r.src.faults = 0) (fun _ => True) (fun _ => True) (readBytes fuel r nbytes) ∧
    ResP (fun r => r.src.faults = 0) (fun _ => True) (fun _ => True) (skipContainer fuel r) ∧
    ResP (fun r => r.src.faults = 0) (fun _ => True) (fun _ => True) (skipUnquotedValue fuel r) :=
  ⟨read_inv Faults0_closed fuel r h0, readBytes_inv Faults0_closed fuel r nbytes h0,
   skipContainer_inv Faults0_closed fuel r h0, skipUnquotedValue_inv Faults0_closed fuel r h0⟩

/-- **`read_bytes` under every schedule (faults included).**  With the reader related to the remaining input `d`, the
call either reports an I/O error, or `BufferFull` (only if `n` exceeds the capacity), or returns exactly the next `n`
bytes of the input and leaves the reader related to the rest — `Eof` iff fewer than `n` bytes remain.  It never returns
other bytes than the fault-free call. -/
theorem readBytes_spec (m : Nat) : ∀ (r : Reader) (pos : Nat) (bom : Bom) (d : Bytes) (n fuel : Nat),
    r.src.rest.length ≤ m → Rel r pos bom d → m + 1 ≤ fuel →
    (∃ r', readBytes fuel r n = .err r' .io) ∨
    (∃ r', readBytes fuel r n = .err r' .full ∧ r.cap ≠ 0 ∧ r.cap < n) ∨
    (if n ≤ d.length then ∃ r', readBytes fuel r n = .ok r' (d.take n) ∧ Rel r' (pos + n) bom (d.drop n)
     else ∃ r', readBytes fuel r n = .err r' .eof) := by
  induction m with
  | zero =>
    intro r pos bom d n fuel hm hrel hfuel
    obtain ⟨f, rfl⟩ : ∃ f, fuel = f + 1 := ⟨fuel - 1, by omega⟩
    have he : r.src.rest = [] := List.eq_nil_of_length_eq_zero (by omega)
    have hd : d = r.win := by rw [← hrel.data, he]; simp
    rw [readBytes]
    by_cases hlt : r.win.length < n
    · simp only [hlt, if_true]
      rcases hrel.fill with ⟨rio, hf, _⟩ | ⟨hf, h1, h2⟩ | ⟨_, r1, hf, _⟩ | ⟨hne, _⟩
      · left; rw [hf]; exact ⟨rio, rfl⟩
      · right; left; rw [hf]; exact ⟨r, rfl, h1, by omega⟩
      · right; right
        rw [hf]
        have : ¬ n ≤ d.length := by rw [hd]; omega
        simp only [this, if_false]
        exact ⟨r1, rfl⟩
      · exact absurd he hne
    · right; right
      simp only [hlt, if_false]
      have hn : n ≤ d.length := by rw [hd]; omega
      simp only [hn, if_true]
      obtain ⟨r', ha, hrel', _, _, _⟩ := hrel.advance n (by omega)
      simp only [ha]
      exact ⟨r', by rw [hd], hrel'⟩
  | succ m ih =>
    intro r pos bom d n fuel hm hrel hfuel
    obtain ⟨f, rfl⟩ : ∃ f, fuel = f + 1 := ⟨fuel - 1, by omega⟩
    have hd : d = r.win ++ r.src.rest := hrel.data.symm
    rw [readBytes]
    by_cases hlt : r.win.length < n
    · simp only [hlt, if_true]
      rcases hrel.fill with ⟨rio, hf, _⟩ | ⟨hf, h1, h2⟩ | ⟨he, r1, hf, _⟩ | ⟨hne, r1, k, hf, hrel1, hk, hw1, hr1, hc1, _⟩
      · left; rw [hf]; exact ⟨rio, rfl⟩
      · right; left; rw [hf]; exact ⟨r, rfl, h1, by omega⟩
      · right; right
        rw [hf]
        have : ¬ n ≤ d.length := by rw [hd, he]; simp; omega
        simp only [this, if_false]
        exact ⟨r1, rfl⟩
      · rw [hf]
        simp only
        have hl1 : r1.src.rest.length ≤ m := by rw [hr1]; simp; omega
        rcases ih r1 pos bom d n f hl1 hrel1 (by omega) with h | ⟨r', h, h1, h2⟩ | h
        · left; exact h
        · right; left; exact ⟨r', h, by rw [← hc1]; exact h1, by rw [← hc1]; exact h2⟩
        · right; right; exact h
    · right; right
      simp only [hlt, if_false]
      have hn : n ≤ d.length := by rw [hd]; simp; omega
      simp only [hn, if_true]
      obtain ⟨r', ha, hrel', _, _, _⟩ := hrel.advance n (by omega)
      simp only [ha]
      refine ⟨r', ?_, hrel'⟩
      rw [hd, List.take_append_of_le_length (by omega)]

/-- **C20, `read_bytes`**: under every schedule (short reads, transient and persistent faults) `read_bytes(n)` either
reports an I/O error (or `BufferFull` when `n` exceeds the capacity), or returns exactly the bytes the fault-free call
returns — the next `n` bytes of the input — leaving the reader related to the rest; `Eof` iff fewer than `n` remain. -/
theorem C20_text_read_bytes (r : Reader) (pos : Nat) (bom : Bom) (d : Bytes) (n fuel : Nat)
    (hrel : Rel r pos bom d) (hfuel : r.src.rest.length + 1 ≤ fuel) :
    (∃ r', readBytes fuel r n = .err r' .io) ∨
    (∃ r', readBytes fuel r n = .err r' .full ∧ r.cap ≠ 0 ∧ r.cap < n) ∨
    (if n ≤ d.length then ∃ r', readBytes fuel r n = .ok r' (d.take n) ∧ Rel r' (pos + n) bom (d.drop n)
     else ∃ r', readBytes fuel r n = .err r' .eof) :=
  readBytes_spec _ r pos bom d n fuel (Nat.le_refl _) hrel hfuel

/-- with a fault-free schedule the streamed run never ends in an I/O error -/
theorem lexAll_no_io (cap : Nat) (sched : List Step) (data : Bytes) (fuel n : Nat) (hnf : NoFaults sched) :
    (lexAll fuel n (fromReader cap sched data) []).out ≠ .err .io := by
  intro h
  exact (lexAll_inv NoFaults_closed fuel n (fromReader cap sched data) [] (by simpa [fromReader] using hnf)).2.2 _ h rfl

/-- **C20 (text reader), partial: what holds under every schedule, fault steps included.**
Whatever the `Read` does — short reads down to one byte, transient failures, a persistent failure — after any
sequence of `next` calls the streaming reader's position never exceeds the number of bytes delivered, the window is
exactly the slice `data[position .. delivered]` of the input and the undelivered rest is untouched: no byte is
dropped, duplicated or invented by a failing or short read.  The same invariant is kept by every single call of
`next`/`read`/`read_bytes`/`skip_container`/`skip_unquoted_value` (`*_inv` above), whether it succeeds or fails.

The remaining clauses of the full statement are proved separately: every successfully returned token equals the
fault-free one (prefix of `sliceTokens data`) — `C20_text_reader` below; a fault that is reached is reported as `err io` —
`C20_reached_fault_is_error`, `C20_call_fault_is_error`; a persistent fault always ends in an error —
`C20_text_persistent_fault_errors`, `C20_text_doomed_call`.  The one clause that does NOT hold across a retry is recorded:
`C20_known_fault_retry_in_quoted`.  (On the real code: the oracles `fault-swallowed`, `fault-differs`,
`persistent-fault-no-error`, `position-beyond-delivered`.) -/
theorem C20_text_reader_partial (cap : Nat) (hc : 0 < cap) (sched : List Step) (data : Bytes) (fuel n : Nat) :
    let fin := (lexAll fuel n (fromReader cap sched data) []).final
    fin.position ≤ fin.src.delivered ∧
    fin.win = (data.drop fin.position).take (fin.src.delivered - fin.position) ∧
    fin.src.rest = data.drop fin.src.delivered ∧ fin.src.delivered ≤ data.length := by
  intro fin
  have h : Inv data fin := by
    have hh := lexAll_inv (Inv_closed data) fuel n (fromReader cap sched data) [] (Inv.start cap hc sched data)
    by_cases hio : (lexAll fuel n (fromReader cap sched data) []).out = .err .io
    · exact hh.2.1 hio
    · exact hh.1 hio
  have hp := h.pos
  refine ⟨by omega, ?_, h.rest, by have := h.del; omega⟩
  have : fin.src.delivered - fin.position = fin.win.length := by omega
  rw [this]; exact h.win

/-- **C20 (text reader): I/O failures surface as errors, never as silently wrong results.**
For every input, every buffer capacity ≥ 1 and EVERY read schedule — short reads down to one byte, transient failures
(`fail`), a persistent failure (`failForever`), in any positions — the sequence of `next` calls (stopping at the first
error) either

* stops with an I/O error or `BufferFull`, after having returned a PREFIX of the fault-free (from-slice) token sequence:
  no call completed successfully with a result different from the fault-free one; or
* returns exactly the from-slice token sequence and ends in the same outcome, with the final position at the input length
  at a clean end (the faults were never reached).

Moreover a fault-free schedule never produces an I/O error.  (Position ≤ delivered and the window invariant:
`C20_text_reader_partial`.  That a *reached* fault — in particular a persistent one — always ends in an error, for whole
runs: `C20_reached_fault_is_error`, `C20_text_persistent_fault_errors` at the end of this file; the same clauses for
`skip_container` / `read_bytes`: `C20_call_fault_is_error`, `C20_text_read_bytes`, and `C20_text_skip_container` in
Proofs/TextSkip.lean.) -/
theorem C20_text_reader (data : Bytes) (cap : Nat) (sched : List Step) (hcap : 0 < cap) (hw : WfSched sched) :
    ((StopErr (streamTokens cap sched data).out ∧ (streamTokens cap sched data).toks <+: (sliceTokens data).toks) ∨
     ((streamTokens cap sched data).toks = (sliceTokens data).toks ∧
      (streamTokens cap sched data).out = (sliceTokens data).out ∧
      ((streamTokens cap sched data).out = .end_ → (streamTokens cap sched data).final.position = data.length))) ∧
    (NoFaults sched → (streamTokens cap sched data).out ≠ .err .io) := by
  have h1 : Rel (fromReader cap sched data) 0 .unknown data :=
    ⟨rfl, rfl, by simp [fromReader], hw, by intro h; simp [fromReader] at h; omega⟩
  have h2 : Rel (fromSlice data) 0 .unknown data :=
    ⟨rfl, rfl, by simp [fromSlice], by intro x hx; simp [fromSlice] at hx, fun _ => rfl⟩
  have := lexAll_vs_slice (fuelFor data) _ _ 0 .unknown data (fuelFor data + 2 * sched.length) (fuelFor data) []
    (Or.inl h1) (Or.inl h2) rfl (by simp [fuelFor]; omega) (by simp [fuelFor])
  refine ⟨?_, fun hnf => lexAll_no_io cap sched data _ _ hnf⟩
  rcases this with ⟨a, b, _⟩ | ⟨a, b, c⟩
  · left; exact ⟨a, b⟩
  · right
    refine ⟨a, b, fun he => ?_⟩
    have := (c he).1
    simpa [streamTokens] using this

-- the hypotheses are satisfiable with faults in the schedule
example : WfSched [.give 2, .fail, .give 1, .failForever] := by
  intro x hx; simp at hx; rcases hx with rfl | rfl | rfl | rfl <;> simp [WfStep]

-- a schedule with a transient and a persistent fault
example : ((lexAll 50 10 (fromReader 8 [.give 2, .fail, .give 1, .failForever] [97, 61, 98, 32, 99]) []).out) = .err .io := by
  decide +kernel

end Jomini.TextReader

/-! ## a persistent fault that is reached always ends in an error -/

namespace Jomini.TextReader
open Jomini

/-- outcome of a `next` call on a reader that can never see the end of the input: a token (and the property is kept) or
an error other than `Eof` (property kept) — never `Ok(None)`. -/
def ResN (P : Reader → Prop) : Res (Option Token) → Prop
  | .ok r (some _) => P r
  | .ok _ none => False
  | .err r e => e ≠ .eof ∧ P r
  | _ => True

/-- if `fill_buf` can never report the end of input (`Ok(0)`) on readers satisfying `P`, the reader never reports a clean
end nor `Eof` on them. -/
theorem run_noend {P : Reader → Prop} {E : Err → Prop} (c : Closed P P E) (nz : ∀ {r : Reader}, P r → (fillBuf r).2 ≠ .ok 0) :
    ∀ (fuel : Nat) (call : Call) (r : Reader), P r → ResN P (run fuel call r) := by
  intro fuel
  induction fuel with
  | zero => intro call r _; simp [run, ResN]
  | succ f ih =>
    intro call r h
    cases call with
    | fallback =>
      rw [run]
      generalize fbLoop (r.position == 0) r.win .top 0 r.bom = res
      obtain ⟨bom, sc⟩ := res
      cases sc with
      | tok adv t =>
        simp only
        cases ha : advance { r with bom := bom } adv with
        | none => simp [ResN]
        | some r' => simp only [ResN]; exact c.adv (c.bom bom h) ha
      | refill st cc o => exact ih _ _ (c.bom bom h)
      | bomFill =>
        simp only
        have hP0 := c.bom bom h
        have hf := c.fill hP0
        have hfio := c.fillio hP0
        have hnz := nz hP0
        generalize fillBuf { r with bom := bom } = fr at hf hfio hnz
        obtain ⟨r', fl⟩ := fr
        simp only at hf hfio hnz
        cases fl with
        | ok n =>
          cases n with
          | zero => exact absurd rfl hnz
          | succ n => exact ih _ _ (hf (by simp))
        | full => exact ⟨by simp, hf (by simp)⟩
        | io => exact ⟨by simp, hfio rfl⟩
    | refill st carry off =>
      rw [run]
      cases ha : advance r (r.win.length - carry) with
      | none => simp [ResN]
      | some r0 =>
        simp only
        split
        · simp [ResN]
        · have h0 := c.adv h ha
          have hf := c.fill h0
          have hfio := c.fillio h0
          have hnz := nz h0
          generalize fillBuf r0 = fr at hf hfio hnz
          obtain ⟨r1, fl⟩ := fr
          simp only at hf hfio hnz
          cases fl with
          | full => exact ⟨by simp, hf (by simp)⟩
          | io => exact ⟨by simp, hfio rfl⟩
          | ok n =>
            replace hf := hf (by simp)
            cases n with
            | zero => exact absurd rfl hnz
            | succ n =>
              simp only
              cases st with
              | none => exact ih _ _ hf
              | quote =>
                simp only
                split
                · rename_i m _
                  cases ha2 : advance r1 (m + 1) with
                  | none => simp [ResN]
                  | some r2 => simp only [ResN]; exact c.adv hf ha2
                · exact ih _ _ hf
              | unquoted =>
                simp only
                split
                · rename_i m _
                  cases ha2 : advance r1 m with
                  | none => simp [ResN]
                  | some r2 => simp only [ResN]; exact c.adv hf ha2
                · exact ih _ _ hf

theorem nextOpt_noend {P : Reader → Prop} {E : Err → Prop} (c : Closed P P E) (nz : ∀ {r : Reader}, P r → (fillBuf r).2 ≠ .ok 0)
    (fuel : Nat) (r : Reader) (h : P r) : ResN P (nextOpt fuel r) := by
  unfold nextOpt
  simp only
  split
  · exact run_noend c nz fuel .fallback r h
  · split
    · simp [ResN]
    · split
      · simp [ResN]
      · split
        · cases ha : advance r (leadingWhitespace _ + 1) with
          | none => simp [ResN]
          | some r' => simp only [ResN]; exact c.adv h ha
        · split
          · cases ha : advance r (leadingWhitespace _ + 1) with
            | none => simp [ResN]
            | some r' => simp only [ResN]; exact c.adv h ha
          · split
            · split
              · rename_i j c' _
                cases ha : advance r (if c' == 32 then j + 1 else j) with
                | none => simp [ResN]
                | some r' => simp only [ResN]; exact c.adv h ha
              · exact run_noend c nz fuel .fallback r h
              · simp [ResN]
            · split
              · split
                · rename_i j _ _
                  cases ha : advance r (j + 1) with
                  | none => simp [ResN]
                  | some r' => simp only [ResN]; exact c.adv h ha
                · exact run_noend c nz fuel .fallback r h
                · simp [ResN]
              · exact run_noend c nz fuel .fallback r h

/-- driving `next` until it stops returning tokens: never a clean end, never `Eof` -/
theorem lexAll_noend {P : Reader → Prop} {E : Err → Prop} (c : Closed P P E) (nz : ∀ {r : Reader}, P r → (fillBuf r).2 ≠ .ok 0)
    (fuel : Nat) : ∀ (n : Nat) (r : Reader) (acc : List Token), P r →
    (lexAll fuel n r acc).out ≠ .end_ ∧ (lexAll fuel n r acc).out ≠ .err .eof ∧ P (lexAll fuel n r acc).final := by
  intro n
  induction n with
  | zero => intro r acc h; simp [lexAll]; exact h
  | succ n ih =>
    intro r acc h
    have hn := nextOpt_noend c nz fuel r h
    rw [lexAll]
    unfold next
    cases hx : nextOpt fuel r with
    | ok r' a =>
      rw [hx] at hn
      cases a with
      | none => exact absurd hn (by simp [ResN])
      | some t => simp only; exact ih r' _ hn
    | err r' e =>
      rw [hx] at hn
      simp only
      exact ⟨by simp, by simpa using hn.1, hn.2⟩
    | panic => simp only; exact ⟨by simp, by simp, h⟩
    | ub => simp only; exact ⟨by simp, by simp, h⟩
    | fuel => simp only; exact ⟨by simp, by simp, h⟩

/-- number of bytes the `give` steps of a schedule prefix ask for -/
def giveSum : List Step → Nat
  | [] => 0
  | .give n :: t => n + giveSum t
  | _ :: t => giveSum t

/-- **the source fails at some read call and at every later one, and the input lasts until then**: the schedule is
`pre ++ failForever :: _` where `pre` consists of transient failures and reads of at least one byte, and the bytes still
undelivered cover what `pre` asks for (so that no read in front of the persistent failure returns 0 bytes, which is how a
`Read` signals the end of its input).  Buffered reader (`cap ≠ 0`). -/
def Doomed (r : Reader) : Prop :=
  r.cap ≠ 0 ∧ ∃ pre t, r.src.sched = pre ++ .failForever :: t ∧
    (∀ s ∈ pre, s = .fail ∨ ∃ n, s = .give (n + 1)) ∧ giveSum pre ≤ r.src.rest.length

theorem Doomed.read {r : Reader} (h : Doomed r) (space : Nat) (hs : 0 < space) :
    Doomed { r with src := (r.src.read space).1 } ∧ (r.src.read space).2 ≠ some [] := by
  obtain ⟨hc, pre, t, hsch, hpre, hsum⟩ := h
  unfold Src.read
  cases pre with
  | nil =>
    simp only [List.nil_append] at hsch
    rw [hsch]
    exact ⟨⟨hc, [], t, by simp, by simp, by simp [giveSum]⟩, by simp⟩
  | cons st pre' =>
    simp only [List.cons_append] at hsch
    rw [hsch]
    rcases hpre st (by simp) with rfl | ⟨n, rfl⟩
    · refine ⟨⟨hc, pre', t, rfl, fun s hs => hpre s (by simp [hs]), by simpa [giveSum] using hsum⟩, by simp⟩
    · simp only [giveSum] at hsum
      refine ⟨⟨hc, pre', t, rfl, fun s hs => hpre s (by simp [hs]), ?_⟩, ?_⟩
      · simp only [List.length_drop]; omega
      · simp only [ne_eq, Option.some.injEq, List.take_eq_nil_iff, not_or]
        refine ⟨by omega, ?_⟩
        intro he; rw [he] at hsum; simp at hsum

theorem Doomed.fill {r : Reader} (h : Doomed r) : Doomed (fillBuf r).1 ∧ (fillBuf r).2 ≠ .ok 0 := by
  unfold fillBuf
  rw [if_neg h.1]
  split
  · exact ⟨h, by simp⟩
  · rename_i hlt
    have := h.read (r.cap - r.win.length) (by omega)
    generalize r.src.read (r.cap - r.win.length) = res at this
    obtain ⟨src', ob⟩ := res
    cases ob with
    | none => exact ⟨by obtain ⟨a, b⟩ := this.1; exact ⟨a, b⟩, by simp⟩
    | some bs =>
      refine ⟨by obtain ⟨a, b⟩ := this.1; exact ⟨a, b⟩, ?_⟩
      have h2 := this.2
      simp only [ne_eq, Option.some.injEq] at h2
      simp only [ne_eq, Fill.ok.injEq, List.length_eq_zero_iff]
      exact h2

theorem Doomed_closed : Closed Doomed Doomed (fun _ => True) := by
  refine { adv := ?_, bom := fun _ h => h, fill := fun h _ => h.fill.1, fillio := fun h _ => h.fill.1,
           full := fun _ _ => trivial, io := fun _ _ => trivial, eof := trivial }
  intro r r' k h ha
  unfold TextReader.advance at ha
  split at ha
  · simp only [Option.some.injEq] at ha; subst ha; exact h
  · simp at ha

end Jomini.TextReader

namespace Jomini.TextReader
open Jomini Jomini.TextReader.Spec

/-- a token decided at offset `i` consumes at least the byte at `i` -/
theorem tokenAt_adv_pos {c : UInt8} {tl : Bytes} {i adv : Nat} {t : Token} (h : tokenAt c tl i = .tok adv t) : i + 1 ≤ adv := by
  unfold tokenAt at h
  split at h; · simp at h; omega
  split at h; · simp at h; omega
  split at h
  · unfold quoteTok at h
    cases hq : quoteScan tl 0 with
    | more _ _ => rw [hq] at h; simp at h
    | closed n => rw [hq] at h; simp at h; omega
  have hunq : ∀ {c : UInt8} {tl : Bytes}, unqTok c tl i = .tok adv t → i + 1 ≤ adv := by
    intro c tl h
    unfold unqTok at h
    cases hf : findIdx isBoundary tl 0 with
    | none => rw [hf] at h; simp at h
    | some k => rw [hf] at h; simp at h; omega
  have hop2 : ∀ {p q : Op}, opTok2 p q tl i = .tok adv t → i + 1 ≤ adv := by
    intro p q h; unfold opTok2 at h
    cases tl with
    | nil => simp at h
    | cons d r => simp only at h; split at h <;> (simp at h; omega)
  have hop1 : ∀ {o : Op}, opTok1 o tl i = .tok adv t → i + 1 ≤ adv := by
    intro o h; unfold opTok1 at h
    cases tl with
    | nil => simp at h
    | cons d r => simp only at h; split at h <;> (simp at h; omega)
  split at h
  · unfold atTok at h
    cases tl with
    | nil => simp at h
    | cons d r =>
      simp only at h
      split at h
      · cases hf : findIdx (· == 93) r 0 with
        | none => rw [hf] at h; simp at h
        | some k => rw [hf] at h; simp only [Scan.tok.injEq] at h; omega
      · exact hunq h
  split at h; · exact hop2 h
  split at h; · exact hop2 h
  split at h; · exact hop1 h
  split at h; · exact hop1 h
  split at h; · exact hop2 h
  exact hunq h

theorem fbLoop_adv_pos {pos0 : Bool} {w : Bytes} {bom b' : Bom} {adv : Nat} {t : Token}
    (h : fbLoop pos0 w .top 0 bom = (b', .tok adv t)) : 1 ≤ adv := by
  obtain ⟨pre, tail, bom_s, rfl, hs, ht⟩ := decompose pos0 w.length w 0 bom (Nat.le_refl _)
  rw [hs.fbLoop] at h
  simp only [Nat.zero_add] at ht h
  rcases fbLoop_tail ht with ⟨_, h1⟩ | ⟨a, _, h1⟩ | ⟨c, tl, bomR, rfl, _, _, h1⟩ | ⟨r, _, _, _, h1⟩
  · rw [h1] at h; simp at h
  · rw [h1] at h; simp at h
  · have := h1 []; simp only [List.append_nil] at this
    rw [this] at h; simp only [Prod.mk.injEq] at h
    have := tokenAt_adv_pos h.2
    omega
  · rw [h1] at h; simp at h

/-- every token of the reference consumes at least one byte -/
theorem specStep_adv_pos {pos0 : Bool} {bom b' : Bom} {d : Bytes} {adv : Nat} {t : Token}
    (h : specStep pos0 bom d = some (.tok adv t b')) : 1 ≤ adv := by
  have key : ∀ bom0, interp d (fbLoop pos0 d .top 0 bom0) = some (.tok adv t b') → 1 ≤ adv := by
    intro bom0 hi
    generalize hres : fbLoop pos0 d .top 0 bom0 = res at hi
    obtain ⟨b, sc⟩ := res
    cases sc with
    | tok a t' =>
      simp only [interp, Option.some.injEq, Step1.tok.injEq] at hi
      have := fbLoop_adv_pos hres; omega
    | bomFill => simp [interp] at hi
    | refill st carry off =>
      cases st with
      | none =>
        simp only [interp] at hi
        split at hi
        · simp at hi
        · split at hi
          · simp at hi
          · split at hi <;> simp at hi
      | quote => simp [interp] at hi
      | unquoted =>
        simp only [interp, Option.some.injEq, Step1.tok.injEq] at hi
        cases d with
        | nil => simp [fbLoop] at hres
        | cons x xs => simp at hi; omega
  unfold specStep at h
  split at h
  · exact key _ h
  · exact key _ h

/-- a run of `next` calls with enough fuel and enough calls ends in a clean end or an error (no panic, no UB, no
exhausted budget), under every schedule -/
theorem lexAll_stops (n : Nat) : ∀ (r : Reader) (pos : Nat) (bom : Bom) (d : Bytes) (f : Nat) (acc : List Token),
    RelQ r pos bom d → d.length < n → 2 * d.length + 4 ≤ f →
    (lexAll f n r acc).out = .end_ ∨ ∃ e, (lexAll f n r acc).out = .err e := by
  induction n with
  | zero => intro r pos bom d f acc _ h _; omega
  | succ n ih =>
    intro r pos bom d f acc hrel hn hf
    have o := nextOpt_specQ r pos bom d f hrel hf
    rcases o with ⟨_, r', ⟨hfull, _⟩ | hio⟩ | o
    · right; exact ⟨.full, by simp [lexAll, next, hfull]⟩
    · right; exact ⟨.io, by simp [lexAll, next, hio]⟩
    · unfold OutQOk at o
      have hsome := specStep_isSome (pos == 0) bom d
      cases hs : specStep (pos == 0) bom d with
      | none => rw [hs] at hsome; simp at hsome
      | some st =>
        rw [hs] at o
        cases st with
        | tok adv t b' =>
          obtain ⟨r', hres, hrel', hle, _⟩ := o
          have hpos := specStep_adv_pos hs
          have := ih r' (pos + adv) b' (d.drop adv) f (t :: acc) hrel' (by simp; omega) (by simp; omega)
          simpa [lexAll, next, hres] using this
        | end_ b' =>
          obtain ⟨r', hres, _⟩ := o
          left; simp [lexAll, next, hres]
        | eof a b' =>
          obtain ⟨r', hres, _⟩ := o
          right; exact ⟨.eof, by simp [lexAll, next, hres]⟩

/-- **C20: a persistent source failure always ends in `Err(io)`.**  The source fails at some read call and at every later
one: the schedule is `pre ++ failForever :: t`, where `pre` — the calls in front of the persistent failure — consists of
transient failures and reads of at least one byte, and the input is long enough to serve them (`giveSum pre ≤ |data|`:
otherwise a read in front of the failure returns 0 bytes, which is how a `Read` signals the end of its input, and the
reader legitimately ends there without ever calling the failing source).  Then, for EVERY buffer capacity ≥ 1, driving
`next` until it returns something other than a token

* never ends in a clean end (`Ok(None)`) and never in `Eof`;
* ends in an error, which is `Err(io)` or — only when a token, comment or look-ahead of the input does not fit the buffer
  (`cap < need data`) — `BufferFull`; with a buffer that fits it is `Err(io)`;
* the tokens returned before the error are a prefix of the fault-free (from-slice) token sequence; and
* the reader stays doomed: every later call is again an error or a token still in the buffer, never a clean end
  (`Doomed` is kept, `nextOpt_noend`). -/
theorem C20_text_persistent_fault_errors (data : Bytes) (cap : Nat) (pre t : List Step) (hcap : 0 < cap)
    (hpre : ∀ s ∈ pre, s = .fail ∨ ∃ n, s = .give (n + 1)) (hlast : giveSum pre ≤ data.length) (ht : WfSched t) :
    let run := streamTokens cap (pre ++ .failForever :: t) data
    run.out ≠ .end_ ∧ run.out ≠ .err .eof ∧
    (run.out = .err .io ∨ (run.out = .err .full ∧ cap < need data)) ∧
    run.toks <+: (sliceTokens data).toks ∧ Doomed run.final := by
  intro run
  have hw : WfSched (pre ++ .failForever :: t) := by
    intro x hx
    simp only [List.mem_append, List.mem_cons] at hx
    rcases hx with hx | rfl | hx
    · rcases hpre x hx with rfl | ⟨n, rfl⟩ <;> simp [WfStep]
    · simp [WfStep]
    · exact ht x hx
  have hd : Doomed (fromReader cap (pre ++ .failForever :: t) data) :=
    ⟨by simp [fromReader]; omega, pre, t, by simp [fromReader], hpre, by simpa [fromReader] using hlast⟩
  have hne := lexAll_noend Doomed_closed (fun h => h.fill.2) (fuelFor data + 2 * (pre ++ Step.failForever :: t).length)
    (fuelFor data) _ [] hd
  have hrel : Rel (fromReader cap (pre ++ .failForever :: t) data) 0 .unknown data :=
    ⟨rfl, rfl, by simp [fromReader], hw, by intro h; simp [fromReader] at h; omega⟩
  have hstop := lexAll_stops (fuelFor data) _ 0 .unknown data (fuelFor data + 2 * (pre ++ Step.failForever :: t).length) []
    (Or.inl hrel) (by simp [fuelFor]; omega) (by simp [fuelFor]; omega)
  have hc20 := (C20_text_reader data cap (pre ++ .failForever :: t) hcap hw).1
  have hfull : need data ≤ cap → run.out ≠ .err .full := fun hfit =>
    lexAll_no_full (fuelFor data) _ 0 .unknown data _ [] (Or.inl hrel)
      (by unfold need at hfit; simp only [fromReader]; omega) (by simp [fuelFor]; omega)
  change (lexAll _ _ _ _).out ≠ _ ∧ (lexAll _ _ _ _).out ≠ _ ∧ _ at hne
  refine ⟨hne.1, hne.2.1, ?_, ?_, hne.2.2⟩
  · rcases hstop with h | ⟨e, h⟩
    · exact absurd h hne.1
    · cases e with
      | io => left; exact h
      | eof => exact absurd h hne.2.1
      | full =>
        right; refine ⟨h, ?_⟩
        apply Nat.lt_of_not_le; intro hfit; exact hfull hfit h
  · rcases hc20 with ⟨_, hp⟩ | ⟨he, _⟩
    · exact hp
    · rw [he]; exact List.prefix_refl _

/-- the same for every single `next` call on a doomed reader (in particular after the first `Err(io)`, when the caller
retries): a token that is still in the buffer, or an error other than `Eof` — never `Ok(None)` — and the reader stays
doomed. -/
theorem C20_text_doomed_call (r : Reader) (h : Doomed r) (fuel : Nat) : ResN Doomed (next fuel r) :=
  nextOpt_noend Doomed_closed (fun h => h.fill.2) fuel r h

-- the hypotheses are satisfiable: one short read, a transient failure, another read, then the persistent failure
example : (∀ s ∈ [Step.give 2, .fail, .give 1], s = Step.fail ∨ ∃ n, s = .give (n + 1)) ∧
    giveSum [Step.give 2, .fail, .give 1] ≤ [97, 61, 98, 32, 99].length ∧ WfSched [] := by
  refine ⟨?_, by decide, by intro x hx; simp at hx⟩
  intro s hs; simp at hs
  rcases hs with rfl | rfl | rfl
  · exact Or.inr ⟨1, rfl⟩
  · exact Or.inl rfl
  · exact Or.inr ⟨0, rfl⟩

-- the exclusion is needed: a read of 0 bytes in front of the failure is the end of input; the reader ends cleanly
example : (streamTokens 8 [.give 2, .give 5, .failForever] [97, 32]).out = .end_ := by decide +kernel

/-- **the recorded finding `fault-retry-in-quoted`, on the model.**  Input `"hello world"`, buffer of 16 bytes, the source
delivers 4 bytes and then fails once (a transient fault, in the middle of the quoted scalar).  The first `next` reports
`Err(io)`; calling `next` AGAIN (which jomini permits) does not resume the quoted scalar: it returns the unquoted token
`hello`, which the fault-free run never produces (that run returns the quoted scalar `hello world`).  So the clause "every
successfully returned token equals the fault-free one" holds up to the first error only. -/
theorem C20_known_fault_retry_in_quoted :
    let data : Bytes := [34, 104, 101, 108, 108, 111, 32, 119, 111, 114, 108, 100, 34]
    (match next 60 (fromReader 16 [.give 4, .fail] data) with
     | .err r1 .io => (match next 60 r1 with | .ok _ (some t) => some t | _ => none)
     | _ => none) = some (.unquoted [104, 101, 108, 108, 111]) ∧
    (sliceTokens data).toks = [.quoted [104, 101, 108, 108, 111, 32, 119, 111, 114, 108, 100]] := by
  decide +kernel

end Jomini.TextReader
