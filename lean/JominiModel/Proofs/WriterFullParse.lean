import JominiModel.Proofs.WriterFullBytes
import JominiModel.Proofs.WriterMixedParse
/-
C14 over the full document type, step 3: the writer's layout `wlayF` of a preserved document is a
valid layout (`FValidF`) of the SAME content (`dtapeF`), so `faithful_full` reads it back.
-/
namespace Jomini.Writer
open Jomini Jomini.Writer.Spec
open Jomini.TextTape
open Jomini.WriterParse (nlInd gapOf blank_nlInd blank_gapOf sb_nlInd sb_key_op peek_scalX peek_scalQ head_ne_eq sb_of_head)

/-! ### same content -/

mutual
theorem cnt_wlayV (c : UInt8) (f : Nat) : ∀ (v : FVal) (w : Bool) (d : Nat) (g : Bytes), FPlainV w v →
    fcntV (wlayV c f d g v) = fcntV v
  | .scal .., _, _, _, _ => rfl
  | .empty .., _, _, _, _ => rfl
  | .obj _ _ first rest _, w, d, g, h => by
    simp only [FPlainV] at h
    simp only [wlayV, fcntV, cnt_wlayFirst c f first w (d + 1) h.1, cnt_wlayF c f rest _ (d + 1) _ h.2.1]
  | .arrS _ _ _ rest _, w, d, g, h => by
    simp only [FPlainV] at h
    simp only [wlayV, fcntV, cnt_wlayVs c f rest w (d + 1) _ h]
  | .arrC _ first rest _, w, d, g, h => by
    simp only [FPlainV] at h
    simp only [wlayV, fcntV, cnt_wlayV c f first w (d + 1) _ h.2.1, cnt_wlayVs c f rest _ (d + 1) _ h.2.2]
  | .ghostIn _ _ _ v, w, d, g, h => by
    simp only [FPlainV] at h
    simp only [wlayV, fcntV, cnt_wlayV c f v w d g h]
  | .mixed .., _, _, _, h => by simp [FPlainV] at h
  | .arrSM _ _ _ pre _ _ _ _ items _, w, d, g, h => by
    simp only [FPlainV] at h
    simp only [wlayV, fcntV, cnt_wlayVs c f pre w (d + 1) _ h.1, cnt_wlayI c f items _ (d + 1) _ h.2.2.2]
  | .arrCM _ first pre _ _ _ _ items _, w, d, g, h => by
    simp only [FPlainV] at h
    simp only [wlayV, fcntV, cnt_wlayV c f first w (d + 1) _ h.2.1, cnt_wlayVs c f pre _ (d + 1) _ h.2.2.1,
      cnt_wlayI c f items _ (d + 1) _ h.2.2.2.2]
theorem cnt_wlayFirst (c : UInt8) (f : Nat) : ∀ (x : FFirst) (w : Bool) (d : Nat), FPlainFirst w x →
    fcntFirst (wlayFirst c f d x) = fcntFirst x
  | .kv _ _ _ v, w, d, h => by
    simp only [FPlainFirst] at h
    simp only [wlayFirst, fcntFirst, cnt_wlayV c f v w d _ h.2]
  | .flds fs, w, d, h => by
    simp only [FPlainFirst] at h
    simp only [wlayFirst, fcntFirst, cnt_wlayF c f fs w d _ h.2]
theorem cnt_wlayF (c : UInt8) (f : Nat) : ∀ (fs : FFields) (w : Bool) (d : Nat) (g0 : Bytes), FPlainF w fs →
    fcntF (wlayF c f d g0 fs) = fcntF fs
  | .nil, _, _, _, _ => rfl
  | .cons _ _ _ _ v rest, w, d, g0, h => by
    simp only [FPlainF] at h
    simp only [wlayF, fcntF, cnt_wlayV c f v w d _ h.2.1, cnt_wlayF c f rest _ d _ h.2.2]
  | .consImp _ _ v rest, w, d, g0, h => by
    simp only [FPlainF] at h
    simp only [wlayF, fcntF, cnt_wlayV c f v w d _ h.1, cnt_wlayF c f rest _ d _ h.2, Op.toks, List.length_nil]
    try omega
  | .ghost _ _ rest, w, d, g0, h => by
    simp only [FPlainF] at h
    simp only [wlayF, fcntF, cnt_wlayF c f rest w d g0 h]
  | .consHdr _ _ _ _ _ _ body rest, w, d, g0, h => by
    simp only [FPlainF] at h
    simp only [wlayF, fcntF, cnt_wlayV c f body w d _ h.2.2.1, cnt_wlayF c f rest _ d _ h.2.2.2]
  | .paramVal _ _ _ _ _ _ rest, w, d, g0, h => by
    simp only [FPlainF] at h
    obtain ⟨_, h2, _, _⟩ := noTok c f d (nlInd c f d) rest h
    simp only [wlayF, fcntF, h2, h]
  | .paramObj _ _ _ _ _ _ _ v inner _ rest, w, d, g0, h => by
    simp only [FPlainF] at h
    simp only [wlayF, fcntF, cnt_wlayV c f v w d _ h.2.1, cnt_wlayF c f inner _ d _ h.2.2.1,
      cnt_wlayF c f rest _ d _ h.2.2.2.2]
  | .paramHdr .., _, _, _, h => by simp [FPlainF] at h
theorem cnt_wlayVs (c : UInt8) (f : Nat) : ∀ (vs : FVals) (w : Bool) (d : Nat) (nlt : Bool), FPlainVs w vs →
    fcntVs (wlayVs c f d nlt vs) = fcntVs vs
  | .nil, _, _, _, _ => rfl
  | .cons v rest, w, d, nlt, h => by
    simp only [FPlainVs] at h
    simp only [wlayVs, fcntVs, cnt_wlayV c f v w d _ h.1, cnt_wlayVs c f rest _ d _ h.2]
theorem cnt_wlayI (c : UInt8) (f : Nat) : ∀ (is : FItems) (mm : MixedMode) (d : Nat) (nlt : Bool), FPlainI mm is →
    fcntI (wlayI c f d nlt mm is) = fcntI is
  | .nil, _, _, _, _ => rfl
  | .scal _ _ rest, mm, d, nlt, h => by
    simp only [FPlainI] at h
    simp only [wlayI, fcntI, cnt_wlayI c f rest (mmScal mm) d _ h]
  | .op _ _ rest, mm, d, nlt, h => by
    simp only [FPlainI] at h
    simp only [wlayI, fcntI, cnt_wlayI c f rest (mmOp mm) d _ h.2]
  | .cont v rest, mm, d, nlt, h => by
    simp only [FPlainI] at h
    simp only [wlayI, fcntI, cnt_wlayV c f v _ d _ h.1,
      cnt_wlayI c f rest (if closesV v then .disabled else mmScal mm) d _ h.2]
end

theorem dtapeF_noTok (fs : FFields) (b : Nat) (h : fcntF fs = 0) : dtapeF fs b = [] := by
  have := len_tF fs b
  rw [tF, List.length_map, h] at this
  exact List.eq_nil_of_length_eq_zero this

mutual
theorem dtape_wlayV (c : UInt8) (f : Nat) : ∀ (v : FVal) (w : Bool) (d : Nat) (g : Bytes) (b : Nat), FPlainV w v →
    dtapeV (wlayV c f d g v) b = dtapeV v b
  | .scal .., _, _, _, _, _ => rfl
  | .empty .., _, _, _, _, _ => rfl
  | .obj _ _ first rest _, w, d, g, b, h => by
    simp only [FPlainV] at h
    simp only [wlayV, dtapeV, cnt_wlayFirst c f first w (d + 1) h.1, cnt_wlayF c f rest _ (d + 1) _ h.2.1,
      dtape_wlayFirst c f first w (d + 1) _ h.1, dtape_wlayF c f rest _ (d + 1) _ _ h.2.1]
  | .arrS _ _ _ rest _, w, d, g, b, h => by
    simp only [FPlainV] at h
    simp only [wlayV, dtapeV, cnt_wlayVs c f rest w (d + 1) _ h, dtape_wlayVs c f rest w (d + 1) _ _ h]
  | .arrC _ first rest _, w, d, g, b, h => by
    simp only [FPlainV] at h
    simp only [wlayV, dtapeV, cnt_wlayV c f first w (d + 1) _ h.2.1, cnt_wlayVs c f rest _ (d + 1) _ h.2.2,
      dtape_wlayV c f first w (d + 1) _ _ h.2.1, dtape_wlayVs c f rest _ (d + 1) _ _ h.2.2]
  | .ghostIn _ _ _ v, w, d, g, b, h => by
    simp only [FPlainV] at h
    simp only [wlayV, dtapeV, dtape_wlayV c f v w d g b h]
  | .mixed .., _, _, _, _, h => by simp [FPlainV] at h
  | .arrSM _ _ _ pre _ _ _ _ items _, w, d, g, b, h => by
    simp only [FPlainV] at h
    simp only [wlayV, dtapeV, cnt_wlayVs c f pre w (d + 1) _ h.1, cnt_wlayI c f items _ (d + 1) _ h.2.2.2,
      dtape_wlayVs c f pre w (d + 1) _ _ h.1, dtape_wlayI c f items _ (d + 1) _ _ h.2.2.2]
  | .arrCM _ first pre _ _ _ _ items _, w, d, g, b, h => by
    simp only [FPlainV] at h
    simp only [wlayV, dtapeV, cnt_wlayV c f first w (d + 1) _ h.2.1, cnt_wlayVs c f pre _ (d + 1) _ h.2.2.1,
      cnt_wlayI c f items _ (d + 1) _ h.2.2.2.2, dtape_wlayV c f first w (d + 1) _ _ h.2.1,
      dtape_wlayVs c f pre _ (d + 1) _ _ h.2.2.1, dtape_wlayI c f items _ (d + 1) _ _ h.2.2.2.2]
theorem dtape_wlayFirst (c : UInt8) (f : Nat) : ∀ (x : FFirst) (w : Bool) (d : Nat) (b : Nat), FPlainFirst w x →
    dtapeFirst (wlayFirst c f d x) b = dtapeFirst x b
  | .kv _ _ _ v, w, d, b, h => by
    simp only [FPlainFirst] at h
    simp only [wlayFirst, dtapeFirst, dtape_wlayV c f v w d _ _ h.2]
  | .flds fs, w, d, b, h => by
    simp only [FPlainFirst] at h
    simp only [wlayFirst, dtapeFirst, dtape_wlayF c f fs w d _ _ h.2]
theorem dtape_wlayF (c : UInt8) (f : Nat) : ∀ (fs : FFields) (w : Bool) (d : Nat) (g0 : Bytes) (b : Nat), FPlainF w fs →
    dtapeF (wlayF c f d g0 fs) b = dtapeF fs b
  | .nil, _, _, _, _, _ => rfl
  | .cons _ _ _ _ v rest, w, d, g0, b, h => by
    simp only [FPlainF] at h
    simp only [wlayF, dtapeF, cnt_wlayV c f v w d _ h.2.1, dtape_wlayV c f v w d _ _ h.2.1,
      dtape_wlayF c f rest _ d _ _ h.2.2]
  | .consImp _ _ v rest, w, d, g0, b, h => by
    simp only [FPlainF] at h
    simp only [wlayF, dtapeF, cnt_wlayV c f v w d _ h.1, dtape_wlayV c f v w d _ _ h.1,
      dtape_wlayF c f rest _ d _ _ h.2, Op.toks, List.length_nil, List.append_nil, Nat.add_zero]
  | .ghost _ _ rest, w, d, g0, b, h => by
    simp only [FPlainF] at h
    simp only [wlayF, dtapeF, dtape_wlayF c f rest w d g0 b h]
  | .consHdr _ _ _ _ _ _ body rest, w, d, g0, b, h => by
    simp only [FPlainF] at h
    simp only [wlayF, dtapeF, cnt_wlayV c f body w d _ h.2.2.1, dtape_wlayV c f body w d _ _ h.2.2.1,
      dtape_wlayF c f rest _ d _ _ h.2.2.2]
  | .paramVal _ _ _ _ _ _ rest, w, d, g0, b, h => by
    simp only [FPlainF] at h
    obtain ⟨_, h2, _, _⟩ := noTok c f d (nlInd c f d) rest h
    simp only [wlayF, dtapeF, h2, dtapeF_noTok rest _ h]
  | .paramObj _ _ _ _ _ _ _ v inner _ rest, w, d, g0, b, h => by
    simp only [FPlainF] at h
    simp only [wlayF, dtapeF, cnt_wlayV c f v w d _ h.2.1, cnt_wlayF c f inner _ d _ h.2.2.1,
      dtape_wlayV c f v w d _ _ h.2.1, dtape_wlayF c f inner _ d _ _ h.2.2.1, dtape_wlayF c f rest _ d _ _ h.2.2.2.2]
  | .paramHdr .., _, _, _, _, h => by simp [FPlainF] at h
theorem dtape_wlayVs (c : UInt8) (f : Nat) : ∀ (vs : FVals) (w : Bool) (d : Nat) (nlt : Bool) (b : Nat), FPlainVs w vs →
    dtapeVs (wlayVs c f d nlt vs) b = dtapeVs vs b
  | .nil, _, _, _, _, _ => rfl
  | .cons v rest, w, d, nlt, b, h => by
    simp only [FPlainVs] at h
    simp only [wlayVs, dtapeVs, cnt_wlayV c f v w d _ h.1, dtape_wlayV c f v w d _ _ h.1,
      dtape_wlayVs c f rest _ d _ _ h.2]
theorem dtape_wlayI (c : UInt8) (f : Nat) : ∀ (is : FItems) (mm : MixedMode) (d : Nat) (nlt : Bool) (b : Nat),
    FPlainI mm is → dtapeI (wlayI c f d nlt mm is) b = dtapeI is b
  | .nil, _, _, _, _, _ => rfl
  | .scal _ _ rest, mm, d, nlt, b, h => by
    simp only [FPlainI] at h
    simp only [wlayI, dtapeI, dtape_wlayI c f rest (mmScal mm) d _ _ h]
  | .op _ _ rest, mm, d, nlt, b, h => by
    simp only [FPlainI] at h
    simp only [wlayI, dtapeI, dtape_wlayI c f rest (mmOp mm) d _ _ h.2]
  | .cont v rest, mm, d, nlt, b, h => by
    simp only [FPlainI] at h
    simp only [wlayI, dtapeI, cnt_wlayV c f v _ d _ h.1, dtape_wlayV c f v _ d _ _ h.1,
      dtape_wlayI c f rest (if closesV v then .disabled else mmScal mm) d _ _ h.2]
end

/-! ### the layout is valid: shapes -/

theorem blank_igap (c : UInt8) (hc : isBlank c = true) (f d : Nat) (nlt : Bool) (mm : MixedMode) :
    Blank (igap c f d nlt mm) := by
  unfold igap
  split
  · exact blank_nlInd c hc f d
  · split
    · exact .nil
    · exact blank_sp

/-- the text of a value under the writer's layout is a scalar, or starts with `{` -/
theorem vtxt_shape (c : UInt8) (f : Nat) : ∀ (v : FVal) (d : Nat) (a0 : Bytes) (w : Bool), FValidV v a0 → FPlainV w v →
    (∃ x : Scal, x.ValidX ∧ vtxt c f d v = x.text ∧ closesV v = false) ∨
      (∃ X, vtxt c f d v = 123 :: X ∧ closesV v = true)
  | .scal g x, d, a0, w, hv, _ => by
    simp only [FValidV] at hv
    exact .inl ⟨x, hv.2.1, by simp [vtxt, wlayV, frenderV], rfl⟩
  | .empty .., d, a0, w, _, _ => .inr ⟨_, by simp only [vtxt, wlayV, frenderV, List.nil_append]; rfl, rfl⟩
  | .obj .., d, a0, w, _, _ => .inr ⟨_, by simp only [vtxt, wlayV, frenderV, List.nil_append]; rfl, rfl⟩
  | .arrS .., d, a0, w, _, _ => .inr ⟨_, by simp only [vtxt, wlayV, frenderV, List.nil_append]; rfl, rfl⟩
  | .arrC .., d, a0, w, _, _ => .inr ⟨_, by simp only [vtxt, wlayV, frenderV, List.nil_append]; rfl, rfl⟩
  | .ghostIn g b1 b2 v, d, a0, w, hv, hp => by
    simp only [FValidV] at hv
    simp only [FPlainV] at hp
    simpa [vtxt, wlayV, closesV] using vtxt_shape c f v d a0 w hv.2.2.2.2.2 hp
  | .mixed .., d, a0, w, _, hp => by simp [FPlainV] at hp
  | .arrSM .., d, a0, w, _, _ => .inr ⟨_, by simp only [vtxt, wlayV, frenderV, List.nil_append]; rfl, rfl⟩
  | .arrCM .., d, a0, w, _, _ => .inr ⟨_, by simp only [vtxt, wlayV, frenderV, List.nil_append]; rfl, rfl⟩

theorem vtxt_head (c : UInt8) (f d : Nat) (v : FVal) (a0 : Bytes) (w : Bool) (hv : FValidV v a0) (hp : FPlainV w v)
    (Z : Bytes) : (vtxt c f d v ++ Z).head? ≠ some 61 := by
  rcases vtxt_shape c f v d a0 w hv hp with ⟨x, hx, h, _⟩ | ⟨X, h, _⟩
  · rw [h]; exact head_ne_eq hx Z
  · rw [h]; simp

theorem vtxt_peek (c : UInt8) (f d : Nat) (v : FVal) (a0 : Bytes) (w : Bool) (hv : FValidV v a0) (hp : FPlainV w v)
    (Z : Bytes) (hZ : Z.head? ≠ some 61) :
    ∀ d2, skipWs (vtxt c f d v ++ Z) = some d2 → firstFieldPeek d2 = false := by
  intro d2 hd2
  rcases vtxt_shape c f v d a0 w hv hp with ⟨x, hx, h, _⟩ | ⟨X, h, _⟩
  · rw [h, skipWs_scalX hx] at hd2
    cases hd2
    exact peek_scalX hx Z hZ
  · rw [h, List.cons_append, WriterParse.skipWs_open] at hd2
    cases hd2
    simp [firstFieldPeek]

theorem sb_opT (o : TextTape.Op) (ho : o ≠ .exists_) (X : Bytes) : StartsBoundary (o.text ++ X) := by
  cases o with
  | eq => exact sb_of_head (c := 61) (by simp [Op.text]) bnd_eq
  | lt => exact sb_of_head (c := 60) (by simp [Op.text]) bnd_lt
  | le => exact sb_of_head (c := 60) (by simp [Op.text]) bnd_lt
  | gt => exact sb_of_head (c := 62) (by simp [Op.text]) bnd_gt
  | ge => exact sb_of_head (c := 62) (by simp [Op.text]) bnd_gt
  | ne => exact sb_of_head (c := 33) (by simp [Op.text]) bnd_bang
  | exact => exact sb_of_head (c := 61) (by simp [Op.text]) bnd_eq
  | exists_ => exact absurd rfl ho

theorem sb_gap (g X : Bytes) (h : g = [32] ∨ ∃ c f d, g = nlInd c f d) : StartsBoundary (g ++ X) := by
  rcases h with rfl | ⟨c, f, d, rfl⟩
  · exact sb_of_head (c := 32) (by simp) bnd_sp
  · exact sb_nlInd c f d X

/-- what follows a field: the next field on a new line, or what follows the field list -/
theorem sb_wlayF (c : UInt8) (f d : Nat) : ∀ (fs : FFields) (after : Bytes), StartsBoundary after →
    StartsBoundary (frenderF (wlayF c f d (nlInd c f d) fs) ++ after)
  | .nil, after, h => by simpa [wlayF, frenderF] using h
  | .ghost _ _ rest, after, h => by simpa [wlayF] using sb_wlayF c f d rest after h
  | .cons .., after, _ => by simp only [wlayF, frenderF, List.append_assoc]; exact sb_nlInd c f d _
  | .consImp .., after, _ => by simp only [wlayF, frenderF, List.append_assoc]; exact sb_nlInd c f d _
  | .consHdr .., after, _ => by simp only [wlayF, frenderF, List.append_assoc]; exact sb_nlInd c f d _
  | .paramVal .., after, _ => by simp only [wlayF, frenderF, List.append_assoc]; exact sb_nlInd c f d _
  | .paramObj .., after, _ => by simp only [wlayF, frenderF, List.append_assoc]; exact sb_nlInd c f d _
  | .paramHdr .., after, _ => by simp only [wlayF, frenderF, List.append_assoc]; exact sb_nlInd c f d _

theorem sb_wlayVs (c : UInt8) (f d : Nat) (nlt : Bool) : ∀ (vs : FVals) (after : Bytes), StartsBoundary after →
    StartsBoundary (frenderVs (wlayVs c f d nlt vs) ++ after)
  | .nil, after, h => by simpa [wlayVs, frenderVs] using h
  | .cons v rest, after, _ => by
    simp only [wlayVs, frenderVs, render_wlayV_gap, List.append_assoc]
    cases nlt
    · exact sb_of_head (c := 32) (by simp) bnd_sp
    · exact sb_nlInd c f d _

theorem head_wlayVs (c : UInt8) (f d : Nat) (nlt : Bool) : ∀ (vs : FVals) (after : Bytes), after.head? ≠ some 61 →
    (frenderVs (wlayVs c f d nlt vs) ++ after).head? ≠ some 61
  | .nil, after, h => by simpa [wlayVs, frenderVs] using h
  | .cons v rest, after, _ => by
    simp only [wlayVs, frenderVs, render_wlayV_gap, List.append_assoc]
    cases nlt <;> simp [nlInd]

theorem head_igap (c : UInt8) (f d : Nat) (nlt : Bool) (mm : MixedMode) (Y : Bytes) (hY : Y.head? ≠ some 61) :
    (igap c f d nlt mm ++ Y).head? ≠ some 61 := by
  unfold igap
  split
  · simp [nlInd]
  · split
    · simpa using hY
    · simp

theorem sb_igap (c : UInt8) (f d : Nat) (nlt : Bool) (mm : MixedMode) (Y : Bytes) (h : nlt = true ∨ mm ≠ .keyed) :
    StartsBoundary (igap c f d nlt mm ++ Y) := by
  unfold igap
  split
  · exact sb_nlInd c f d Y
  · next hn =>
    have hm : mm ≠ .keyed := by
      rcases h with h | h
      · exact absurd h hn
      · exact h
    simp only [hm, if_false]
    exact sb_of_head (c := 32) (by simp) bnd_sp

/-- what follows an element of the array part starts with a boundary byte -/
theorem sb_wlayI (c : UInt8) (f d : Nat) : ∀ (is : FItems) (a0 after : Bytes) (nlt : Bool) (mm : MixedMode),
    FValidI is a0 → (nlt = true ∨ mm ≠ .keyed) → StartsBoundary after →
    StartsBoundary (frenderI (wlayI c f d nlt mm is) ++ after)
  | .nil, _, after, _, _, _, _, h => by simpa [wlayI, frenderI] using h
  | .scal g x rest, a0, after, nlt, mm, _, hk, _ => by
    simp only [wlayI, frenderI, List.append_assoc]
    exact sb_igap c f d nlt mm _ hk
  | .op g o rest, a0, after, nlt, mm, hv, _, _ => by
    simp only [FValidI] at hv
    simp only [wlayI, frenderI, List.append_assoc]
    by_cases hd : mm = .disabled
    · simp only [hd, if_true]
      exact sb_of_head (c := 32) (by simp) bnd_sp
    · simp only [hd, if_false, List.nil_append]
      exact sb_opT o hv.2.1 _
  | .cont v rest, a0, after, nlt, mm, _, hk, _ => by
    simp only [wlayI, frenderI, render_wlayV_gap, List.append_assoc]
    exact sb_igap c f d nlt mm _ hk

/-- … and never with `=` (unless two operators are glued) -/
theorem head_wlayI (c : UInt8) (f d : Nat) (is : FItems) (a0 after : Bytes) (nlt : Bool) (mm : MixedMode)
    (hv : FValidI is a0) (hp : FPlainI mm is)
    (hglue : mm ≠ .disabled → ∀ g o2 r, is = .op g o2 r → o2.text.head? ≠ some 61)
    (hafter : after.head? ≠ some 61) :
    (frenderI (wlayI c f d nlt mm is) ++ after).head? ≠ some 61 := by
  cases is with
  | nil => simpa [wlayI, frenderI] using hafter
  | scal g x rest =>
    simp only [FValidI] at hv
    simp only [wlayI, frenderI, List.append_assoc]
    exact head_igap c f d nlt mm _ (head_ne_eq hv.2.1 _)
  | op g o2 rest =>
    simp only [wlayI, frenderI, List.append_assoc]
    by_cases hd : mm = .disabled
    · simp [hd]
    · simp only [hd, if_false, List.nil_append]
      have := hglue hd g o2 rest rfl
      cases h : o2.text with
      | nil => cases o2 <;> simp [Op.text] at h
      | cons a r => rw [h] at this; simpa using this
  | cont v rest =>
    simp only [FValidI] at hv
    simp only [FPlainI] at hp
    simp only [wlayI, frenderI, render_wlayV_gap, List.append_assoc]
    exact head_igap c f d nlt mm _ (vtxt_head c f d v _ _ hv.2.1 hp.1 _)

/-! ### structural facts that survive the re-layout -/

theorem isContainer_wlayV (c : UInt8) (f : Nat) : ∀ (v : FVal) (d : Nat) (g a0 : Bytes) (w : Bool), FValidV v a0 →
    FPlainV w v → v.isContainer → emptyC v = false → (wlayV c f d g v).isContainer
  | .scal .., _, _, _, _, _, _, hc, _ => by simp [FVal.isContainer] at hc
  | .empty .., _, _, _, _, _, _, hc, _ => by simp [FVal.isContainer] at hc
  | .obj .., _, _, _, _, _, _, _, _ => by simp [wlayV, FVal.isContainer]
  | .arrS .., _, _, _, _, _, _, _, _ => by simp [wlayV, FVal.isContainer]
  | .arrC .., _, _, _, _, _, _, _, _ => by simp [wlayV, FVal.isContainer]
  | .ghostIn _ _ _ v, d, g, a0, w, hv, hp, _, he => by
    simp only [FValidV] at hv
    simp only [FPlainV] at hp
    simp only [emptyC] at he
    simp only [wlayV]
    have hb := hv.2.2.2.1
    have hvc : v.isContainer := by
      cases v <;> simp [FVal.isBraced, FVal.isContainer, emptyC] at hb he ⊢
    exact isContainer_wlayV c f v d g a0 w hv.2.2.2.2.2 hp hvc he
  | .mixed .., _, _, _, _, _, hp, _, _ => by simp [FPlainV] at hp
  | .arrSM .., _, _, _, _, _, _, _, _ => by simp [wlayV, FVal.isContainer]
  | .arrCM .., _, _, _, _, _, _, _, _ => by simp [wlayV, FVal.isContainer]

theorem startsSpecial_wlayF (c : UInt8) (f d : Nat) (g0 : Bytes) (fs : FFields) (h : fs.startsSpecial) :
    (wlayF c f d g0 fs).startsSpecial := by
  cases fs <;> simp [FFields.startsSpecial, wlayF] at h ⊢

theorem hdrLed_wlayF (c : UInt8) (f d : Nat) (g0 : Bytes) (fs : FFields) (h : fs.hdrLed) :
    (wlayF c f d g0 fs).hdrLed := by
  cases fs <;> simp [FFields.hdrLed, wlayF] at h ⊢

theorem scalarLed_wlayV (c : UInt8) (f d : Nat) (g : Bytes) (w : Bool) (v : FVal) (hp : FPlainV w v) (h : v.scalarLed) :
    (wlayV c f d g v).scalarLed := by
  cases v with
  | obj g' g0 first rest gc =>
    cases first with
    | kv => simp [wlayV, wlayFirst, FVal.scalarLed, FFirst.scalarLed]
    | flds fs =>
      simp only [FVal.scalarLed, FFirst.scalarLed] at h
      simp only [wlayV, wlayFirst, FVal.scalarLed, FFirst.scalarLed]
      exact hdrLed_wlayF c f _ _ fs h
  | arrS => simp [wlayV, FVal.scalarLed]
  | arrSM => simp [wlayV, FVal.scalarLed]
  | mixed => simp [FPlainV] at hp
  | scal => simp [FVal.scalarLed] at h
  | empty => simp [FVal.scalarLed] at h
  | arrC => simp [FVal.scalarLed] at h
  | ghostIn => simp [FVal.scalarLed] at h
  | arrCM => simp [FVal.scalarLed] at h

theorem closes_of_scalarLed (v : FVal) (h : v.scalarLed) : closesV v = true := by
  cases v <;> simp [FVal.scalarLed, closesV] at h ⊢

theorem scal_unq {x : Scal} (h : x.quoted = false) : (⟨false, x.bytes⟩ : Scal) = x := by
  cases x; simp_all

/-! ### the layout is valid -/

/-- what follows the first scalar of an array is never taken for an operator -/
theorem peek_wlayVs (c : UInt8) (f d : Nat) (rest : FVals) (a0 : Bytes) (w : Bool) (hv : FValidVs rest a0)
    (hp : FPlainVs w rest) (Y : Bytes) (hYh : Y.head? ≠ some 61)
    (hY : rest = .nil → ∀ d2, skipWs Y = some d2 → firstFieldPeek d2 = false) :
    ∀ d2, skipWs (frenderVs (wlayVs c f d false rest) ++ Y) = some d2 → firstFieldPeek d2 = false := by
  intro d2 hd2
  cases rest with
  | nil => exact hY rfl d2 (by simpa [wlayVs, frenderVs] using hd2)
  | cons v r =>
    simp only [FValidVs] at hv
    simp only [FPlainVs] at hp
    simp only [wlayVs, frenderVs, render_wlayV_gap, List.append_assoc, Bool.false_eq_true, if_false] at hd2
    rw [skipWs_blank blank_sp] at hd2
    exact vtxt_peek c f d v _ w hv.1 hp.1 _ (head_wlayVs c f d _ r Y hYh) d2 hd2

theorem peek_close (g : Bytes) (hg : Blank g) (after : Bytes) :
    ∀ d2, skipWs (g ++ 125 :: after) = some d2 → firstFieldPeek d2 = false := by
  intro d2 hd2
  rw [skipWs_blank hg, skipWs_cons _ blank_close (by decide)] at hd2
  cases hd2
  simp [firstFieldPeek]

theorem sb_close (c : UInt8) (f d : Nat) (after : Bytes) : StartsBoundary (nlInd c f d ++ 125 :: after) :=
  sb_nlInd c f d _

mutual
theorem VV (c : UInt8) (f : Nat) (hc : isBlank c = true) : ∀ (v : FVal) (d : Nat) (g a0 after : Bytes) (w : Bool),
    FValidV v a0 → FPlainV w v → Blank g → StartsBoundary after → FValidV (wlayV c f d g v) after
  | .scal g' x, d, g, a0, after, w, hv, hp, hg, ha => by
    simp only [FValidV] at hv
    exact ⟨hg, hv.2.1, fun _ => ha⟩
  | .empty g' gc, d, g, a0, after, w, hv, hp, hg, ha => ⟨hg, blank_sp⟩
  | .obj g' g0 first rest gc, d, g, a0, after, w, hv, hp, hg, ha => by
    simp only [FValidV] at hv
    simp only [FPlainV] at hp
    simp only [wlayV, FValidV]
    exact ⟨hg, blank_nlInd c hc f (d + 1), blank_nlInd c hc f d,
      VFirst c f hc first (d + 1) _ _ w hv.2.2.2.1 hp.1 (sb_wlayF c f (d + 1) rest _ (sb_close c f d after)),
      VF c f hc rest (d + 1) _ _ _ _ hv.2.2.2.2 hp.2.1 (blank_nlInd c hc f (d + 1)) (sb_close c f d after)⟩
  | .arrS g' g0 s0 rest gc, d, g, a0, after, w, hv, hp, hg, ha => by
    simp only [FValidV] at hv
    simp only [FPlainV] at hp
    simp only [wlayV, FValidV]
    refine ⟨hg, blank_nlInd c hc f (d + 1), blank_nlInd c hc f d, hv.2.2.2.1,
      fun _ => sb_wlayVs c f (d + 1) false rest _ (sb_close c f d after), ?_,
      VVs c f hc rest (d + 1) false _ _ w hv.2.2.2.2.2.2 hp (sb_close c f d after)⟩
    exact peek_wlayVs c f (d + 1) rest _ w hv.2.2.2.2.2.2 hp _ (by simp [nlInd])
      (fun _ => peek_close _ (blank_nlInd c hc f d) after)
  | .arrC g' first rest gc, d, g, a0, after, w, hv, hp, hg, ha => by
    simp only [FValidV] at hv
    simp only [FPlainV] at hp
    simp only [wlayV, FValidV]
    exact ⟨hg, blank_nlInd c hc f d,
      isContainer_wlayV c f first (d + 1) _ _ w hv.2.2.2.1 hp.2.1 hv.2.2.1 hp.1,
      VV c f hc first (d + 1) _ _ _ w hv.2.2.2.1 hp.2.1 (blank_nlInd c hc f (d + 1))
        (sb_wlayVs c f (d + 1) _ rest _ (sb_close c f d after)),
      VVs c f hc rest (d + 1) _ _ _ _ hv.2.2.2.2 hp.2.2 (sb_close c f d after)⟩
  | .ghostIn g' b1 b2 v, d, g, a0, after, w, hv, hp, hg, ha => by
    simp only [FValidV] at hv
    simp only [FPlainV] at hp
    simp only [wlayV]
    exact VV c f hc v d g _ after w hv.2.2.2.2.2 hp hg ha
  | .mixed .., d, g, a0, after, w, hv, hp, hg, ha => by simp [FPlainV] at hp
  | .arrSM g' g0 s0 pre gm m0 go o items gc, d, g, a0, after, w, hv, hp, hg, ha => by
    simp only [FValidV] at hv
    simp only [FPlainV] at hp
    obtain ⟨_, _, _, _, _, hs0, _, _, hvp, hm0, _, hoe, _, hvi⟩ := hv
    obtain ⟨hpp, hbq, hgl, hpi⟩ := hp
    simp only [wlayV, FValidV, List.nil_append]
    have hsbM : StartsBoundary (igap c f (d + 1) (lastNlt false pre) .started ++ (m0.text ++ (o.text ++
        (frenderI (wlayI c f (d + 1) false .keyed items) ++ (nlInd c f d ++ 125 :: after))))) :=
      sb_igap c f (d + 1) _ .started _ (Or.inr (by decide))
    refine ⟨hg, blank_nlInd c hc f (d + 1), blank_igap c hc f (d + 1) _ _, .nil, blank_nlInd c hc f d, hs0,
      fun _ => sb_wlayVs c f (d + 1) false pre _ hsbM, ?_, VVs c f hc pre (d + 1) false _ _ w hvp hpp hsbM, hm0,
      fun _ => sb_opT o hoe _, hoe, fun hlen => ?_,
      VI c f hc items (d + 1) false .keyed _ _ hvi hpi (by simp [nlInd]) (sb_close c f d after)⟩
    · apply peek_wlayVs c f (d + 1) pre _ w hvp hpp _ (head_igap c f (d + 1) _ _ _ (head_ne_eq hm0 _))
      intro hnil d2 hd2
      rw [skipWs_blank (blank_igap c hc f (d + 1) _ _), skipWs_scalX hm0] at hd2
      cases hd2
      apply peek_scalQ hm0
      intro h63
      have hne : ¬ (o.text.head? = some 61) := fun h => hbq ⟨hnil, h63, h⟩
      cases ho : o.text with
      | nil => cases o <;> simp [Op.text] at ho
      | cons a r => rw [ho] at hne; simpa using hne
    · apply head_wlayI c f (d + 1) items _ _ false .keyed hvi hpi _ (by simp [nlInd])
      intro _ g2 o2 r hr
      rw [hr] at hgl
      simp only [gluesOp, not_and] at hgl
      exact hgl hlen
  | .arrCM g' first pre gm m0 go o items gc, d, g, a0, after, w, hv, hp, hg, ha => by
    simp only [FValidV] at hv
    simp only [FPlainV] at hp
    obtain ⟨_, _, _, _, hfc, hvf, hvp, hm0, _, hoe, _, hvi⟩ := hv
    obtain ⟨hem, hpf, hpp, hgl, hpi⟩ := hp
    simp only [wlayV, FValidV, List.nil_append]
    have hsbM : StartsBoundary (igap c f (d + 1) (lastNlt (closesV first) pre) .started ++ (m0.text ++ (o.text ++
        (frenderI (wlayI c f (d + 1) false .keyed items) ++ (nlInd c f d ++ 125 :: after))))) :=
      sb_igap c f (d + 1) _ .started _ (Or.inr (by decide))
    refine ⟨hg, blank_igap c hc f (d + 1) _ _, .nil, blank_nlInd c hc f d,
      isContainer_wlayV c f first (d + 1) _ _ w hvf hpf hfc hem,
      VV c f hc first (d + 1) _ _ _ w hvf hpf (blank_nlInd c hc f (d + 1)) (sb_wlayVs c f (d + 1) _ pre _ hsbM),
      VVs c f hc pre (d + 1) _ _ _ _ hvp hpp hsbM, hm0,
      fun _ => sb_opT o hoe _, hoe, fun hlen => ?_,
      VI c f hc items (d + 1) false .keyed _ _ hvi hpi (by simp [nlInd]) (sb_close c f d after)⟩
    apply head_wlayI c f (d + 1) items _ _ false .keyed hvi hpi _ (by simp [nlInd])
    intro _ g2 o2 r hr
    rw [hr] at hgl
    simp only [gluesOp, not_and] at hgl
    exact hgl hlen
theorem VFirst (c : UInt8) (f : Nat) (hc : isBlank c = true) : ∀ (x : FFirst) (d : Nat) (a0 after : Bytes) (w : Bool),
    FValidFirst x a0 → FPlainFirst w x → StartsBoundary after → FValidFirst (wlayFirst c f d x) after
  | .kv k g1 o v, d, a0, after, w, hv, hp, ha => by
    simp only [FValidFirst] at hv
    simp only [FPlainFirst] at hp
    simp only [wlayFirst, FValidFirst]
    exact ⟨blank_gapOf o, hv.2.1, fun _ => sb_key_op o, VV c f hc v d _ _ _ w hv.2.2.2 hp.2 (blank_gapOf o) ha⟩
  | .flds fs, d, a0, after, w, hv, hp, ha => by
    simp only [FValidFirst] at hv
    simp only [FPlainFirst] at hp
    simp only [wlayFirst, FValidFirst]
    exact ⟨startsSpecial_wlayF c f d [] fs hv.1, VF c f hc fs d [] _ after w hv.2 hp.2 .nil ha⟩
theorem VF (c : UInt8) (f : Nat) (hc : isBlank c = true) : ∀ (fs : FFields) (d : Nat) (g0 a0 after : Bytes) (w : Bool),
    FValidF fs a0 → FPlainF w fs → Blank g0 → StartsBoundary after → FValidF (wlayF c f d g0 fs) after
  | .nil, _, _, _, _, _, _, _, _, _ => trivial
  | .cons g0' k g1 o v rest, d, g0, a0, after, w, hv, hp, hg, ha => by
    simp only [FValidF] at hv
    simp only [FPlainF] at hp
    simp only [wlayF, FValidF]
    refine ⟨hg, blank_gapOf o, hv.2.2.1, fun _ => sb_key_op o, ?_,
      VF c f hc rest d _ _ after _ hv.2.2.2.2.2 hp.2.2 (blank_nlInd c hc f d) ha⟩
    exact VV c f hc v d _ _ _ w hv.2.2.2.2.1 hp.2.1 (blank_gapOf o) (sb_wlayF c f d rest after ha)
  | .consImp g0' k v rest, d, g0, a0, after, w, hv, hp, hg, ha => by
    simp only [FValidF] at hv
    simp only [FPlainF] at hp
    simp only [wlayF, FValidF]
    refine ⟨hg, .nil, hv.2.1, fun _ => sb_of_head (c := 61) (by simp [Op.text]) bnd_eq, ?_,
      VF c f hc rest d _ _ after _ hv.2.2.2.2.2 hp.2 (blank_nlInd c hc f d) ha⟩
    exact VV c f hc v d _ _ _ w hv.2.2.2.2.1 hp.1 .nil (sb_wlayF c f d rest after ha)
  | .ghost g' gc rest, d, g0, a0, after, w, hv, hp, hg, ha => by
    simp only [FValidF] at hv
    simp only [FPlainF] at hp
    simp only [wlayF]
    exact VF c f hc rest d g0 _ after w hv.2.2 hp hg ha
  | .consHdr g0' k g1 o gh h body rest, d, g0, a0, after, w, hv, hp, hg, ha => by
    simp only [FValidF] at hv
    simp only [FPlainF] at hp
    obtain ⟨_, _, _, hk, _, hhv, hhq, _, hbc, hbv, hrv⟩ := hv
    simp only [wlayF, FValidF]
    rw [scal_unq hhq]
    refine ⟨hg, blank_gapOf o, blank_gapOf o, hk, fun _ => sb_key_op o, hhv, trivial, ?_,
      isContainer_wlayV c f body d _ _ w hbv hp.2.2.1 hbc hp.2.1, ?_,
      VF c f hc rest d _ _ after _ hrv hp.2.2.2 (blank_nlInd c hc f d) ha⟩
    · rw [render_wlayV_gap]
      exact sb_of_head (c := 32) (by simp) bnd_sp
    · exact VV c f hc body d _ _ _ w hbv hp.2.2.1 blank_sp (sb_wlayF c f d rest after ha)
  | .paramVal g0' isU name g1 val g2 rest, d, g0, a0, after, w, hv, hp, hg, ha => by
    simp only [FValidF] at hv
    simp only [FPlainF] at hp
    obtain ⟨_, _, _, hn, hvv, hvq, _, hrv⟩ := hv
    obtain ⟨_, h2, _, _⟩ := noTok c f d (nlInd c f d) rest hp
    simp only [wlayF, FValidF, h2]
    rw [scal_unq hvq]
    exact ⟨hg, blank_nlInd c hc f d, .nil, hn, hvv, trivial, sb_of_head (c := 93) (by simp) bnd_rbr, trivial⟩
  | .paramObj g0' isU name g1 k g2 o v inner gc rest, d, g0, a0, after, w, hv, hp, hg, ha => by
    simp only [FValidF] at hv
    simp only [FPlainF] at hp
    obtain ⟨_, _, _, _, hn, hkv, hkq, _, hvv, hiv, hrv⟩ := hv
    simp only [wlayF, FValidF]
    rw [scal_unq hkq]
    have hsb : StartsBoundary (nlInd c f d ++ 93 :: (frenderF (wlayF c f d (nlInd c f d) rest) ++ after)) :=
      sb_nlInd c f d _
    refine ⟨hg, blank_nlInd c hc f d, blank_gapOf o, blank_nlInd c hc f d, hn, hkv, trivial, sb_key_op o, ?_,
      VF c f hc inner d _ _ _ _ hiv hp.2.2.1 (blank_nlInd c hc f d) hsb,
      VF c f hc rest d _ _ after _ hrv hp.2.2.2.2 (blank_nlInd c hc f d) ha⟩
    exact VV c f hc v d _ _ _ w hvv hp.2.1 (blank_gapOf o) (sb_wlayF c f d inner _ hsb)
  | .paramHdr .., d, g0, a0, after, w, hv, hp, hg, ha => by simp [FPlainF] at hp
theorem VVs (c : UInt8) (f : Nat) (hc : isBlank c = true) : ∀ (vs : FVals) (d : Nat) (nlt : Bool) (a0 after : Bytes) (w : Bool),
    FValidVs vs a0 → FPlainVs w vs → StartsBoundary after → FValidVs (wlayVs c f d nlt vs) after
  | .nil, _, _, _, _, _, _, _, _ => trivial
  | .cons v rest, d, nlt, a0, after, w, hv, hp, ha => by
    simp only [FValidVs] at hv
    simp only [FPlainVs] at hp
    simp only [wlayVs, FValidVs]
    refine ⟨?_, VVs c f hc rest d (closesV v) _ after _ hv.2 hp.2 ha⟩
    apply VV c f hc v d _ _ _ w hv.1 hp.1 (by split; exact blank_nlInd c hc f d; exact blank_sp)
    exact sb_wlayVs c f d _ rest after ha
theorem VI (c : UInt8) (f : Nat) (hc : isBlank c = true) : ∀ (is : FItems) (d : Nat) (nlt : Bool) (mm : MixedMode) (a0 after : Bytes),
    FValidI is a0 → FPlainI mm is → after.head? ≠ some 61 → StartsBoundary after →
    FValidI (wlayI c f d nlt mm is) after
  | .nil, _, _, _, _, _, _, _, _, _ => trivial
  | .scal g x rest, d, nlt, mm, a0, after, hv, hp, hh, ha => by
    simp only [FValidI] at hv
    simp only [FPlainI] at hp
    simp only [wlayI, FValidI]
    refine ⟨blank_igap c hc f d nlt mm, hv.2.1, fun _ => ?_, VI c f hc rest d false (mmScal mm) _ after hv.2.2.2 hp hh ha⟩
    exact sb_wlayI c f d rest _ after false (mmScal mm) hv.2.2.2
      (Or.inr (by unfold mmScal; split <;> simp_all)) ha
  | .op g o rest, d, nlt, mm, a0, after, hv, hp, hh, ha => by
    simp only [FValidI] at hv
    simp only [FPlainI] at hp
    simp only [wlayI, FValidI]
    refine ⟨by split; exact blank_sp; exact .nil, hv.2.1, fun hlen => ?_,
      VI c f hc rest d nlt (mmOp mm) _ after hv.2.2.2 hp.2 hh ha⟩
    apply head_wlayI c f d rest _ after nlt (mmOp mm) hv.2.2.2 hp.2 _ hh
    intro hne g' o2 r hr
    have hmd : mm ≠ .disabled := by
      intro h; apply hne; simp [mmOp, h]
    have hg := hp.1 hmd
    rw [hr] at hg
    simp only [gluesOp, not_and] at hg
    exact hg hlen
  | .cont v rest, d, nlt, mm, a0, after, hv, hp, hh, ha => by
    simp only [FValidI] at hv
    simp only [FPlainI] at hp
    simp only [wlayI, FValidI]
    have hcl := closes_of_scalarLed v hv.1
    refine ⟨scalarLed_wlayV c f d _ _ v hp.1 hv.1, ?_,
      VI c f hc rest d (closesV v) (if closesV v then .disabled else mmScal mm) _ after hv.2.2 hp.2 hh ha⟩
    apply VV c f hc v d _ _ _ _ hv.2.1 hp.1 (blank_igap c hc f d nlt mm)
    exact sb_wlayI c f d rest _ after _ _ hv.2.2 (Or.inl hcl) ha
end

/-- what `write_tape` writes for a preserved document reads back as the same content -/
theorem parse_wlay (c : UInt8) (f : Nat) (hc : isBlank c = true) (fs : FFields) (a0 : Bytes) (hv : FValidF fs a0)
    (hp : FPlainF false fs) (hb : hasBom (frenderF (wlayF c f 0 [] fs)) = false) :
    ∃ T, parse (frenderF (wlayF c f 0 [] fs)) = .ok T false ∧ T.map Tok.erase = dtapeF fs 0 := by
  obtain ⟨T, h1, h2⟩ := faithful_full (wlayF c f 0 [] fs) [] .nil
    (VF c f hc fs 0 [] a0 [] false hv hp .nil (.inl rfl)) (by rw [List.append_nil]; exact hb)
  rw [List.append_nil] at h1
  exact ⟨T, h1, by rw [h2, dtape_wlayF c f fs false 0 [] 0 hp]⟩

end Jomini.Writer
