import JominiModel.Proofs.TextReader
/-
Towards schedule independence of the fallback path: how the scan of an extended window
relates to the scan of the window (decomposition + index shift), and the Reader-level
bookkeeping (`fillBuf`, `advance`, the schedule-driven source).
-/
namespace Jomini.TextReader
open Jomini Jomini.TextReader.Spec

/-! ### index shift: re-scanning the carried bytes from offset 0 -/

def shiftScan (k : Nat) : Scan → Scan
  | .tok adv t => .tok (adv + k) t
  | s => s

def shiftMode (k : Nat) : Mode → Mode
  | .top => .top
  | .comment s => .comment (s + k)

theorem quoteTok_shift (rest : Bytes) (i k : Nat) : quoteTok rest (i + k) = shiftScan k (quoteTok rest i) := by
  unfold quoteTok; cases quoteScan rest 0 <;> simp [shiftScan]; omega

theorem unqTok_shift (c : UInt8) (rest : Bytes) (i k : Nat) : unqTok c rest (i + k) = shiftScan k (unqTok c rest i) := by
  unfold unqTok; cases findIdx isBoundary rest 0 <;> simp [shiftScan]; omega

theorem atTok_shift (c : UInt8) (rest : Bytes) (i k : Nat) : atTok c rest (i + k) = shiftScan k (atTok c rest i) := by
  unfold atTok
  cases rest with
  | nil => simp [shiftScan]
  | cons d r =>
    simp only
    split
    · cases findIdx (· == 93) r 0 <;> simp [shiftScan]; omega
    · exact unqTok_shift c (d :: r) i k

theorem opTok2_shift (p q : Op) (rest : Bytes) (i k : Nat) : opTok2 p q rest (i + k) = shiftScan k (opTok2 p q rest i) := by
  unfold opTok2; cases rest with
  | nil => simp [shiftScan]
  | cons d r => simp only; split <;> simp [shiftScan] <;> omega

theorem opTok1_shift (o : Op) (rest : Bytes) (i k : Nat) : opTok1 o rest (i + k) = shiftScan k (opTok1 o rest i) := by
  unfold opTok1; cases rest with
  | nil => simp [shiftScan]
  | cons d r => simp only; split <;> simp [shiftScan] <;> omega

theorem tokenAt_shift (c : UInt8) (rest : Bytes) (i k : Nat) : tokenAt c rest (i + k) = shiftScan k (tokenAt c rest i) := by
  unfold tokenAt
  split; · simp [shiftScan]; omega
  split; · simp [shiftScan]; omega
  split; · exact quoteTok_shift ..
  split; · exact atTok_shift ..
  split; · exact opTok2_shift ..
  split; · exact opTok2_shift ..
  split; · exact opTok1_shift ..
  split; · exact opTok1_shift ..
  split; · exact opTok2_shift ..
  exact unqTok_shift ..

/-- scanning `x` at window offset `i + k` (`k > 0` bytes were dropped in front) is scanning it at offset `i`
in a reader that is no longer at stream position 0, shifted by `k`. -/
theorem fbLoop_shift (pos0 : Bool) (k : Nat) (hk : 0 < k) (n : Nat) :
    ∀ (x : Bytes) (m : Mode) (i : Nat) (bom : Bom), x.length ≤ n →
    fbLoop pos0 x (shiftMode k m) (i + k) bom =
      ((fbLoop false x m i bom).1, shiftScan k (fbLoop false x m i bom).2) := by
  induction n with
  | zero =>
    intro x m i bom hl
    have : x = [] := List.eq_nil_of_length_eq_zero (by omega)
    subst this
    cases m <;> simp [fbLoop, shiftMode, shiftScan] <;> omega
  | succ n ih =>
    intro x m i bom hl
    cases x with
    | nil => cases m <;> simp [fbLoop, shiftMode, shiftScan] <;> omega
    | cons c rest =>
      have hr : rest.length ≤ n := by simp at hl; omega
      cases m with
      | comment s =>
        simp only [shiftMode, fbLoop_comment_cons]
        have e : i + k + 1 = (i + 1) + k := by omega
        split
        · rw [e]; exact ih rest .top (i + 1) bom hr
        · rw [e]; exact ih rest (.comment s) (i + 1) bom hr
      | top =>
        simp only [shiftMode, fbLoop_top_cons]
        have e : i + k + 1 = (i + 1) + k := by omega
        split; · rw [e]; exact ih rest .top (i + 1) bom hr
        split; · rw [e]; exact ih rest (.comment i) (i + 1) bom hr
        split
        · have h1 : (i + k != 0 || !pos0) = true := by
            have : i + k ≠ 0 := by omega
            simp; left; omega
          simp only [h1, if_true, bne_iff_ne, ne_eq, Bool.not_false, Bool.or_true, tokenAt_shift]
        · simp only [tokenAt_shift]

end Jomini.TextReader
